/-
  AITB.Model.Codec — executable model of the stream codecs (C17).  Core Lean only.

    src/Utils/IO.cpp     write/read of Vector, Matrix2D/3D, SparseMatrix2D/3D, Table2D/3D, SparseTable2D/3D
    src/MDP/IO.cpp       operator<< / operator>> of Experience, SparseExperience, Model, SparseModel, Policy
    include/AIToolbox/POMDP/IO.hpp, src/POMDP/IO.cpp
                         operator<< / operator>> of POMDP::Model<M>, POMDP::SparseModel<M>, POMDP::Policy

  Streams.  All readers use formatted extraction (`is >> x`, `is >> std::ws`, `peek`) only, so white
  space never matters except as a separator: an input stream is modelled as the list of its
  white-space separated tokens that are still unread (`Stream = List Tok`, `Tok = List Char`).  A
  formatted extraction consumes a *prefix* of the first token (`is >> n` on `12abc` reads 12 and leaves
  `abc`; on `0.5` it reads 0 and leaves `.5`), so the primitives return the unread rest of the token,
  which is pushed back.  `failbit` is sticky and no reader ever clears it: a failed extraction makes
  the whole read fail (`R.bad .failbit`).  An exception leaving `operator>>` (`setDiscount` of an
  out-of-range discount, which the readers do not catch) is `R.bad .threw`.

  Numbers.  Unsigned integers are concrete (`printN`, `scanN`: libstdc++ `num_get` for `unsigned
  long`: optional sign, decimal digits, negation modulo 2^64, overflow = failbit).  Doubles are a
  parameter `D` with the interface `DblIO D` (`printD p d` = text of `os << d` under precision `p`,
  `scanD` = `is >> d` on the pending token, and the handful of arithmetic facts the readers use).
  `AITB.Model.CodecNum` instantiates it with exact rationals for the driver.  The precision in force
  at every writer site is a parameter `Prec` regenerated from the source by tools/extract_c17.py
  (`AITB.Gen.IOPrec`).

  Readers have the code's shape: read into a temporary, validate, and only `load*` (the last
  statement of each `operator>>`) assigns the destination.
-/
namespace AITB.Codec

abbrev Tok := List Char
abbrev Stream := List Tok

inductive Sig where
  | failbit
  | threw
  deriving DecidableEq, Repr, Inhabited

/-- result of a reader on a stream -/
inductive R (α : Type) where
  | ok (a : α) (rest : Stream)
  | bad (sig : Sig)
  deriving Repr, Inhabited

abbrev Rd (α : Type) := Stream → R α

def Rd.pure {α} (a : α) : Rd α := fun s => .ok a s
def Rd.bind {α β} (m : Rd α) (f : α → Rd β) : Rd β := fun s =>
  match m s with
  | .ok a s' => f a s'
  | .bad e => .bad e
def Rd.fail {α} : Rd α := fun _ => .bad .failbit
def Rd.throw {α} : Rd α := fun _ => .bad .threw

instance : Monad Rd where
  pure := Rd.pure
  bind := Rd.bind

/-- `is.setstate(failbit)` unless `c` -/
def need (c : Bool) : Rd Unit := fun s => if c then .ok () s else .bad .failbit

def two64 : Nat := 18446744073709551616

/-! ### unsigned integers (`unsigned long` / `size_t`) -/

def digitVal (c : Char) : Nat := c.toNat - 48
def isDig (c : Char) : Bool := decide (48 ≤ c.toNat) && decide (c.toNat ≤ 57)
def digitChar (d : Nat) : Char := Char.ofNat (48 + d)

/-- decimal digits, most significant first (`fuel > n` suffices) -/
def digitsAux : Nat → Nat → List Nat → List Nat
  | 0, _, acc => acc
  | f + 1, n, acc => if n < 10 then n :: acc else digitsAux f (n / 10) (n % 10 :: acc)

def digits (n : Nat) : List Nat := digitsAux (n + 1) n []

/-- `os << n` for an unsigned integer (precision does not apply) -/
def printN (n : Nat) : Tok := (digits n).map digitChar

def evalDigits (ds : List Nat) : Nat := ds.foldl (fun a d => a * 10 + d) 0

/-- longest prefix satisfying `p`, and the rest -/
def spanP (p : Char → Bool) : List Char → List Char × List Char
  | [] => ([], [])
  | c :: cs => if p c then let (a, b) := spanP p cs; (c :: a, b) else ([], c :: cs)

/-- optional sign: (negative?, rest) -/
def splitSign (t : Tok) : Bool × Tok :=
  match t with
  | '-' :: r => (true, r)
  | '+' :: r => (false, r)
  | _ => (false, t)

/-- `is >> n` for `unsigned long` on the pending token: value and unread rest; `none` = failbit.
    libstdc++ `num_get::_M_extract_int<unsigned long>`: optional `+`/`-`, decimal digits (at least
    one), result negated modulo 2^64 after a `-`, overflow of the magnitude sets failbit. -/
def scanN (t : Tok) : Option (Nat × Tok) :=
  let nb := splitSign t
  let dr := spanP isDig nb.2
  if dr.1.isEmpty then none
  else
    let v := evalDigits (dr.1.map digitVal)
    if v ≥ two64 then none
    else some (if nb.1 then (two64 - v) % two64 else v, dr.2)

/-- unread rest of a token goes back in front of the stream -/
def pushBack (r : Tok) (ts : Stream) : Stream :=
  match r with
  | [] => ts
  | _ :: _ => r :: ts

def rdN : Rd Nat := fun s =>
  match s with
  | [] => .bad .failbit
  | t :: ts => match scanN t with
    | none => .bad .failbit
    | some (n, r) => .ok n (pushBack r ts)

/-! ### doubles -/

/-- what the codecs need from `double` and its stream formatting -/
structure DblIO (D : Type) where
  /-- text of `os << d` with `os.precision() = p` (default float field) -/
  printD : Nat → D → Tok
  /-- `is >> d` on the pending token: value and unread rest; `none` = failbit -/
  scanD : Tok → Option (D × Tok)
  zero : D
  /-- `a + b` (duplicate triplets are summed by `setFromTriplets`) -/
  add : D → D → D
  /-- conversion `double → unsigned long` (sparse tables are read through a `double`) -/
  toCount : D → Nat
  /-- `!(d <= 0.0 || d > 1.0)` : `setDiscount` accepts -/
  discountOk : D → Bool
  /-- one dense row passes `isProbability(Matrix2D)` : `minCoeff() >= 0` and `|sum − 1| ≤ tol` -/
  rowOk : List D → Bool
  /-- the stored values of one sparse row pass `isProbability(SparseMatrix2D)` : `|sum − 1| ≤ tol` and `|Σ|v| − 1| ≤ tol` -/
  sparseRowOk : List D → Bool

variable {D : Type}

def rdD (io : DblIO D) : Rd D := fun s =>
  match s with
  | [] => .bad .failbit
  | t :: ts => match io.scanD t with
    | none => .bad .failbit
    | some (d, r) => .ok d (pushBack r ts)

/-- `n` consecutive reads -/
def rep {α} (rd : Rd α) : Nat → Rd (List α)
  | 0 => Rd.pure []
  | n + 1 => Rd.bind rd (fun a => Rd.bind (rep rd n) (fun r => Rd.pure (a :: r)))

/-! ### dense matrices and tables (`read(is, Matrix2D&)` …): rows × cols numbers, row-major -/

abbrev Mat (α : Type) := List (List α)

def wrVec (io : DblIO D) (p : Nat) (v : List D) : Stream := v.map (io.printD p)
def wrMat (io : DblIO D) (p : Nat) (m : Mat D) : Stream := m.flatMap (wrVec io p)
def wrMat3 (io : DblIO D) (p : Nat) (m : List (Mat D)) : Stream := m.flatMap (wrMat io p)
def wrTab (t : Mat Nat) : Stream := t.flatMap (fun r => r.map printN)
def wrTab3 (t : List (Mat Nat)) : Stream := t.flatMap wrTab

/-- `read(is, Vector &)` -/
def rdVec (io : DblIO D) (n : Nat) : Rd (List D) := rep (rdD io) n
def rdMat (io : DblIO D) (rows cols : Nat) : Rd (Mat D) := rep (rep (rdD io) cols) rows
def rdMat3 (io : DblIO D) (k rows cols : Nat) : Rd (List (Mat D)) := rep (rdMat io rows cols) k
def rdTab (rows cols : Nat) : Rd (Mat Nat) := rep (rep rdN cols) rows
def rdTab3 (k rows cols : Nat) : Rd (List (Mat Nat)) := rep (rdTab rows cols) k

def shapeB {α} (rows cols : Nat) (m : Mat α) : Bool :=
  m.length == rows && m.all (fun r => r.length == cols)
def shape3B {α} (k rows cols : Nat) (m : List (Mat α)) : Bool :=
  m.length == k && m.all (shapeB rows cols)

/-! ### sparse matrices and tables: stored entries in storage order (row-major, strictly increasing) -/

structure SpE (V : Type) where
  r : Nat
  c : Nat
  v : V
  deriving Repr, BEq, DecidableEq

abbrev SpMat (V : Type) := List (SpE V)

def keyLt {V} (a b : SpE V) : Bool := decide (a.r < b.r) || (a.r == b.r && decide (a.c < b.c))
def keyEq {V} (a b : SpE V) : Bool := a.r == b.r && a.c == b.c

/-- one step of `setFromTriplets`: storage stays ordered, duplicates are summed in arrival order -/
def insertSum {V} (add : V → V → V) (e : SpE V) : SpMat V → SpMat V
  | [] => [e]
  | x :: xs =>
    if keyLt e x then e :: x :: xs
    else if keyEq e x then ⟨x.r, x.c, add x.v e.v⟩ :: xs
    else x :: insertSum add e xs

def fromTriplets {V} (add : V → V → V) (ts : List (SpE V)) : SpMat V :=
  ts.foldl (fun m e => insertSum add e m) []

/-- storage invariant of a compressed row-major Eigen matrix with the given dimensions -/
def sortedB {V} : SpMat V → Bool
  | [] => true
  | [_] => true
  | a :: b :: r => keyLt a b && sortedB (b :: r)
def inRangeB {V} (rows cols : Nat) (m : SpMat V) : Bool := m.all (fun e => decide (e.r < rows) && decide (e.c < cols))
def spValidB {V} (rows cols : Nat) (m : SpMat V) : Bool := sortedB m && inRangeB rows cols m

def wrSpMat (io : DblIO D) (p : Nat) (m : SpMat D) : Stream :=
  printN m.length :: m.flatMap (fun e => [printN e.r, printN e.c, io.printD p e.v])
def wrSpTab (m : SpMat Nat) : Stream :=
  printN m.length :: m.flatMap (fun e => [printN e.r, printN e.c, printN e.v])

/-- the `for (i < toRead)` loop: `is >> r >> c >> v`, then the two range checks -/
def rdTriplets {V} (rdV : Rd V) (rows cols : Nat) : Nat → Rd (List (SpE V))
  | 0 => Rd.pure []
  | n + 1 =>
    Rd.bind rdN fun r => Rd.bind rdN fun c => Rd.bind rdV fun v =>
    Rd.bind (need (decide (r < rows))) fun _ => Rd.bind (need (decide (c < cols))) fun _ =>
    Rd.bind (rdTriplets rdV rows cols n) fun rest => Rd.pure (⟨r, c, v⟩ :: rest)

def rdSpGen {V} (rdV : Rd V) (add : V → V → V) (rows cols : Nat) : Rd (SpMat V) :=
  Rd.bind rdN fun n => Rd.bind (need (decide (n ≤ rows * cols))) fun _ =>
  Rd.bind (rdTriplets rdV rows cols n) fun ts => Rd.pure (fromTriplets add ts)

def rdSpMat (io : DblIO D) (rows cols : Nat) : Rd (SpMat D) := rdSpGen (rdD io) io.add rows cols

def addN (a b : Nat) : Nat := (a + b) % two64

/-- value of a sparse-table triplet.  `viaDouble = true` (the code as first read): `double v; is >> v`
    and the conversion to `unsigned long` happens in `setFromTriplets`; `false`: `unsigned long v`. -/
def rdCount (io : DblIO D) (viaDouble : Bool) : Rd Nat :=
  if viaDouble then Rd.bind (rdD io) (fun d => Rd.pure (io.toCount d)) else rdN

def rdSpTab (io : DblIO D) (viaDouble : Bool) (rows cols : Nat) : Rd (SpMat Nat) :=
  rdSpGen (rdCount io viaDouble) addN rows cols

/-! ### isProbability -/

def isProbMat (io : DblIO D) (m : Mat D) : Bool := m.all io.rowOk
def isProbMat3 (io : DblIO D) (m : List (Mat D)) : Bool := m.all (isProbMat io)

/-- stored values of row `i` -/
def spRow {V} (m : SpMat V) (i : Nat) : List V := (m.filter (fun e => e.r == i)).map (·.v)
def isProbSp (io : DblIO D) (rows : Nat) (m : SpMat D) : Bool :=
  (List.range rows).all (fun i => io.sparseRowOk (spRow m i))
def isProbSp3 (io : DblIO D) (rows : Nat) (m : List (SpMat D)) : Bool := m.all (isProbSp io rows)

/-! ### precisions in force at the writer sites (from `AITB.Gen.IOPrec`) -/

structure Prec where
  /-- `write(os, double)` -/
  scalar : Nat
  /-- `write(os, const Matrix2D &)` (also every Matrix3D) -/
  dense : Nat
  /-- `write(os, const SparseMatrix2D &)` (also every SparseMatrix3D) -/
  sparse : Nat
  /-- `os << vv.values.transpose()` in `operator<<(ostream&, const POMDP::Policy&)` -/
  pomdpPolicy : Nat
  /-- `write(os, const Vector &)` -/
  vector : Nat
  deriving Repr

/-! ### MDP::Experience / SparseExperience -/

structure DExp (D : Type) where
  timesteps : Nat
  visits : List (Mat Nat)      -- A tables S×S
  visitsSum : Mat Nat          -- S×A
  rewards : Mat D              -- S×A
  m2 : Mat D                   -- S×A
  deriving Repr, BEq, DecidableEq

def sumN (l : List Nat) : Nat := l.foldl addN 0

/-- `setVisitsTable`: `visitsSum_(s,a) = visits_[a].row(s).sum()` -/
def denseSums (S : Nat) (visits : List (Mat Nat)) : Mat Nat :=
  (List.range S).map (fun s => visits.map (fun t => sumN (t.getD s [])))

def wrDExp (io : DblIO D) (pr : Prec) (e : DExp D) : Stream :=
  printN e.timesteps :: (wrTab3 e.visits ++ wrMat io pr.dense e.rewards ++ wrMat io pr.dense e.m2)

def rdDExp (io : DblIO D) (S A : Nat) : Rd (DExp D) :=
  Rd.bind rdN fun t => Rd.bind (rdTab3 A S S) fun v => Rd.bind (rdMat io S A) fun r =>
  Rd.bind (rdMat io S A) fun m => Rd.pure ⟨t, v, denseSums S v, r, m⟩

def dexpValidB (S A : Nat) (e : DExp D) : Bool :=
  decide (e.timesteps < two64) && shape3B A S S e.visits && e.visits.all (fun t => t.all (fun r => r.all (fun n => decide (n < two64))))
  && e.visitsSum == denseSums S e.visits && shapeB S A e.rewards && shapeB S A e.m2

structure SExp (D : Type) where
  timesteps : Nat
  visits : List (SpMat Nat)    -- A tables S×S
  visitsSum : Mat Nat          -- S×A, `visitsSum_.coeff(s,a)`
  rewards : SpMat D
  m2 : SpMat D
  deriving Repr, BEq, DecidableEq

def sparseSums (S : Nat) (visits : List (SpMat Nat)) : Mat Nat :=
  (List.range S).map (fun s => visits.map (fun t => sumN (spRow t s)))

def wrSpTab3 (t : List (SpMat Nat)) : Stream := t.flatMap wrSpTab
def wrSpMat3 (io : DblIO D) (p : Nat) (t : List (SpMat D)) : Stream := t.flatMap (wrSpMat io p)
def rdSpTab3 (io : DblIO D) (viaDouble : Bool) (k rows cols : Nat) : Rd (List (SpMat Nat)) := rep (rdSpTab io viaDouble rows cols) k
def rdSpMat3 (io : DblIO D) (k rows cols : Nat) : Rd (List (SpMat D)) := rep (rdSpMat io rows cols) k

def wrSExp (io : DblIO D) (pr : Prec) (e : SExp D) : Stream :=
  printN e.timesteps :: (wrSpTab3 e.visits ++ wrSpMat io pr.sparse e.rewards ++ wrSpMat io pr.sparse e.m2)

def rdSExp (io : DblIO D) (viaDouble : Bool) (S A : Nat) : Rd (SExp D) :=
  Rd.bind rdN fun t => Rd.bind (rdSpTab3 io viaDouble A S S) fun v => Rd.bind (rdSpMat io S A) fun r =>
  Rd.bind (rdSpMat io S A) fun m => Rd.pure ⟨t, v, sparseSums S v, r, m⟩

def sp3ValidB {V} (k rows cols : Nat) (m : List (SpMat V)) : Bool := m.length == k && m.all (spValidB rows cols)

def sexpValidB (S A : Nat) (e : SExp D) : Bool :=
  decide (e.timesteps < two64) && sp3ValidB A S S e.visits && e.visits.all (fun t => t.all (fun x => decide (x.v < two64)))
  && e.visitsSum == sparseSums S e.visits && spValidB S A e.rewards && spValidB S A e.m2

/-! ### MDP::Model / SparseModel -/

structure DModel (D : Type) where
  discount : D
  T : List (Mat D)     -- A matrices S×S
  R : Mat D            -- S×A
  deriving Repr, BEq, DecidableEq

def wrDModel (io : DblIO D) (pr : Prec) (m : DModel D) : Stream :=
  io.printD pr.scalar m.discount :: (wrMat3 io pr.dense m.T ++ wrMat io pr.dense m.R)

/-- `operator>>(istream&, Model&)`: discount (→ `setDiscount`, may throw), transitions (→ `isProbability`), rewards -/
def rdDModel (io : DblIO D) (S A : Nat) : Rd (DModel D) :=
  Rd.bind (rdD io) fun d => fun s =>
    if !io.discountOk d then .bad .threw else
    (Rd.bind (rdMat3 io A S S) fun t => Rd.bind (need (isProbMat3 io t)) fun _ =>
     Rd.bind (rdMat io S A) fun r => Rd.pure ⟨d, t, r⟩) s

def dmodelValidB (io : DblIO D) (S A : Nat) (m : DModel D) : Bool :=
  io.discountOk m.discount && shape3B A S S m.T && isProbMat3 io m.T && shapeB S A m.R

structure SModel (D : Type) where
  discount : D
  T : List (SpMat D)
  R : SpMat D
  deriving Repr, BEq, DecidableEq

def wrSModel (io : DblIO D) (pr : Prec) (m : SModel D) : Stream :=
  io.printD pr.scalar m.discount :: (wrSpMat3 io pr.sparse m.T ++ wrSpMat io pr.sparse m.R)

def rdSModel (io : DblIO D) (S A : Nat) : Rd (SModel D) :=
  Rd.bind (rdD io) fun d => fun s =>
    if !io.discountOk d then .bad .threw else
    (Rd.bind (rdSpMat3 io A S S) fun t => Rd.bind (need (isProbSp3 io S t)) fun _ =>
     Rd.bind (rdSpMat io S A) fun r => Rd.pure ⟨d, t, r⟩) s

def smodelValidB (io : DblIO D) (S A : Nat) (m : SModel D) : Bool :=
  io.discountOk m.discount && sp3ValidB A S S m.T && isProbSp3 io S m.T && spValidB S A m.R

/-! ### POMDP::Model<M> / POMDP::SparseModel<M> : the MDP part, then the observation function (A matrices S×O) -/

def wrPD {M} (io : DblIO D) (pr : Prec) (wrM : M → Stream) (x : M × List (Mat D)) : Stream :=
  wrM x.1 ++ wrMat3 io pr.dense x.2
def wrPS {M} (io : DblIO D) (pr : Prec) (wrM : M → Stream) (x : M × List (SpMat D)) : Stream :=
  wrM x.1 ++ wrSpMat3 io pr.sparse x.2

def rdPD {M} (io : DblIO D) (rdM : Rd M) (S A O : Nat) : Rd (M × List (Mat D)) :=
  Rd.bind rdM fun m => Rd.bind (rdMat3 io A S O) fun o => Rd.bind (need (isProbMat3 io o)) fun _ => Rd.pure (m, o)
def rdPS {M} (io : DblIO D) (rdM : Rd M) (S A O : Nat) : Rd (M × List (SpMat D)) :=
  Rd.bind rdM fun m => Rd.bind (rdSpMat3 io A S O) fun o => Rd.bind (need (isProbSp3 io S o)) fun _ => Rd.pure (m, o)

def pdValidB {M} (io : DblIO D) (vM : M → Bool) (S A O : Nat) (x : M × List (Mat D)) : Bool :=
  vM x.1 && shape3B A S O x.2 && isProbMat3 io x.2
def psValidB {M} (io : DblIO D) (vM : M → Bool) (S A O : Nat) (x : M × List (SpMat D)) : Bool :=
  vM x.1 && sp3ValidB A S O x.2 && isProbSp3 io S x.2

/-! ### MDP::Policy : the S×A matrix, `isProbability` -/

def wrMPol (io : DblIO D) (pr : Prec) (m : Mat D) : Stream := wrMat io pr.dense m
def rdMPol (io : DblIO D) (S A : Nat) : Rd (Mat D) :=
  Rd.bind (rdMat io S A) fun m => Rd.bind (need (isProbMat io m)) fun _ => Rd.pure m
def mpolValidB (io : DblIO D) (S A : Nat) (m : Mat D) : Bool := shapeB S A m && isProbMat io m

/-! ### POMDP::Policy : value function, one line per entry, `@` after every horizon and a closing `@` -/

structure VEntry (D : Type) where
  values : List D
  action : Nat
  obs : List Nat
  deriving Repr, BEq, DecidableEq

abbrev VList (D : Type) := List (VEntry D)
abbrev VF (D : Type) := List (VList D)

def atTok : Tok := ['@']

/-- `makeValueFunction(S)` : horizon 0 holds one all-zero entry without observation links -/
def nilEntry (io : DblIO D) (S : Nat) : VEntry D := ⟨List.replicate S io.zero, 0, []⟩
def vf0 (io : DblIO D) (S : Nat) : VF D := [[nilEntry io S]]

def wrEntry (io : DblIO D) (p : Nat) (e : VEntry D) : Stream :=
  e.values.map (io.printD p) ++ (printN e.action :: e.obs.map printN)
def wrVList (io : DblIO D) (p : Nat) (l : VList D) : Stream := l.flatMap (wrEntry io p) ++ [atTok]
/-- `for (h = 1; h < vf.size(); ++h)` … then the closing `@` -/
def wrPPol (io : DblIO D) (pr : Prec) (vf : VF D) : Stream :=
  (vf.drop 1).flatMap (wrVList io pr.pomdpPolicy) ++ [atTok]

/-- `checkRemoveAtSign`: skip white space, peek one char, consume it iff it is `@` -/
def atSign : Stream → Bool × Stream
  | ('@' :: r) :: ts => (true, pushBack r ts)
  | s => (false, s)

/-- an observation link: `!(is >> o) || (o >= oldH && oldH)` fails -/
def rdLink (oldH : Nat) : Rd Nat :=
  Rd.bind rdN fun o => Rd.bind (need (!(decide (o ≥ oldH) && oldH != 0))) fun _ => Rd.pure o

def rdEntry (io : DblIO D) (S A O oldH : Nat) : Rd (VEntry D) :=
  Rd.bind (rep (rdD io) S) fun vals => Rd.bind rdN fun a => Rd.bind (need (decide (a < A))) fun _ =>
  Rd.bind (rep (rdLink oldH) O) fun obs => Rd.pure ⟨vals, a, obs⟩

def lastLen {α} (vf : List (List α)) : Nat := (vf.getLast?.getD []).length
def appendToLast {α} (vf : List (List α)) (e : α) : List (List α) :=
  match vf.reverse with
  | [] => [[e]]
  | l :: r => (r.reverse) ++ [l ++ [e]]

/-- the `while (true)` loop of `operator>>(istream&, POMDP::Policy&)`; one unit of fuel per iteration.
    State: the value function built so far (`vf.back()` is the horizon being filled), `newHorizon`, `oldH`. -/
def polLoop (io : DblIO D) (S A O : Nat) : Nat → VF D → Bool → Nat → Rd (VF D)
  | 0, _, _, _, _ => .bad .failbit
  | f + 1, vf, true, _, s =>
    match atSign s with
    | (true, s') => .ok vf s'
    | (false, _) => polLoop io S A O f (vf ++ [[]]) false (lastLen vf) s
  | f + 1, vf, false, oldH, s =>
    match rdEntry io S A O oldH s with
    | .bad e => .bad e
    | .ok e s' =>
      let (b, s'') := atSign s'
      polLoop io S A O f (appendToLast vf e) b oldH s''

def streamSize (s : Stream) : Nat := (s.map (fun t => t.length + 1)).sum

def rdPPol (io : DblIO D) (S A O : Nat) : Rd (VF D) := fun s =>
  polLoop io S A O (2 * streamSize s + 2) (vf0 io S) true 1 s

def entryValidB (S A O prevLen : Nat) (e : VEntry D) : Bool :=
  e.values.length == S && decide (e.action < A) && e.obs.length == O && e.obs.all (fun o => decide (o < prevLen))

/-- horizons `1…` : non-empty lists whose links point into the previous horizon -/
def horizonsValidB (S A O : Nat) : Nat → List (VList D) → Bool
  | _, [] => true
  | prevLen, l :: r => !l.isEmpty && l.all (entryValidB S A O prevLen) && horizonsValidB S A O l.length r

def ppolValidB [DecidableEq D] (io : DblIO D) (S A O : Nat) (vf : VF D) : Bool :=
  match vf with
  | [] => false
  | h0 :: r => decide (h0 = [nilEntry io S]) && horizonsValidB S A O 1 r

/-! ### the last statement of every `operator>>`: assign the destination only after a complete, validated read -/

structure Loaded (α : Type) where
  dest : α
  sig : Option Sig      -- `none` = stream still good
  rest : Stream
  deriving Repr

def load {α} (rd : Rd α) (dest : α) (s : Stream) : Loaded α :=
  match rd s with
  | .ok y rest => ⟨y, none, rest⟩
  | .bad e => ⟨dest, some e, []⟩

/-! ### tokenizer: bytes → pending tokens -/

def isWs (c : Char) : Bool := c == ' ' || c == '\n' || c == '\t' || c == '\r' || c.toNat == 11 || c.toNat == 12

def tokenizeAux : List Char → Tok → Stream
  | [], cur => if cur.isEmpty then [] else [cur.reverse]
  | c :: cs, cur =>
    if isWs c then (if cur.isEmpty then tokenizeAux cs [] else cur.reverse :: tokenizeAux cs [])
    else tokenizeAux cs (c :: cur)

def tokenize (cs : List Char) : Stream := tokenizeAux cs []

end AITB.Codec
