/-
  AITB.Model.Factored — model of src/Factored/Utils/Core.cpp (index <-> factor conversions,
  enumerators, partial-factor merging/matching).  Core Lean only.

  `Factors` = `List Nat`; `PartialFactors` = keys × values (parallel lists, keys ascending).
  C++ loops with (result, multiplier) accumulators are modelled as such (`…Loop`) and proved
  equal to the structural definitions in `AITB.Props.C14`.
-/
namespace AITB.Factored

/-- `factorSpace(space)` (without the overflow clamp: `Nat` is unbounded; the clamp is
    outside the model and listed in the trusted base) -/
def space : List Nat → Nat
  | [] => 1
  | d :: ds => d * space ds

/-- structural mixed-radix value, first factor least significant -/
def toIndex : List Nat → List Nat → Nat
  | [], _ => 0
  | _, [] => 0
  | d :: ds, x :: xs => x + d * toIndex ds xs

/-- `toIndex(const Factors & space, const Factors & f)` as written: running result and multiplier -/
def toIndexLoop : List Nat → List Nat → Nat → Nat → Nat
  | d :: ds, x :: xs, result, mult => toIndexLoop ds xs (result + mult * x) (mult * d)
  | _, _, result, _ => result

/-- `toFactors(space, id)`: `f[i] = id % space[i]; id /= space[i]` -/
def toFactors : List Nat → Nat → List Nat
  | [], _ => []
  | d :: ds, id => (id % d) :: toFactors ds (id / d)

/-- a factor tuple is valid for a space: same length, each entry below its size -/
def Valid : List Nat → List Nat → Prop
  | [], [] => True
  | d :: ds, x :: xs => x < d ∧ Valid ds xs
  | _, _ => False

def validB : List Nat → List Nat → Bool
  | [], [] => true
  | d :: ds, x :: xs => decide (x < d) && validB ds xs
  | _, _ => false

/-- select the entries of `l` at `keys` (C++ `l[key]`; out-of-range reads are excluded by
    the precondition `keys` valid for the space, default 0 never used under it) -/
def sel (keys l : List Nat) : List Nat := keys.map (fun k => l.getD k 0)

/-- `toIndexPartial(ids, space, f)` (f a full Factors) -/
def toIndexPartial (keys sp f : List Nat) : Nat := toIndexLoop (sel keys sp) (sel keys f) 0 1

/-- `toIndexPartial(space, pf)` (pf partial factors: keys, values) -/
def toIndexPartialPF (sp keys vals : List Nat) : Nat := toIndexLoop (sel keys sp) vals 0 1

/-- `toFactorsPartial(ids, space, id)` -/
def toFactorsPartial (keys sp : List Nat) (id : Nat) : List Nat := toFactors (sel keys sp) id

/-- `factorSpacePartial(ids, space)` -/
def spacePartial (keys sp : List Nat) : Nat := space (sel keys sp)

/-- `toIndex(space, PartialFactors f)`: contribution of the named factors with the *full*
    space multipliers (loop with early break when the last key is consumed) -/
def toIndexPFLoop : Nat → List Nat → List Nat → List Nat → Nat → Nat → Nat
  -- position i, remaining space, remaining keys, remaining vals, result, multiplier
  | _, [], _, _, result, _ => result
  | _, _, [], _, result, _ => result
  | _, _, _, [], result, _ => result
  | i, d :: ds, k :: ks, v :: vs, result, mult =>
      if i = k then toIndexPFLoop (i+1) ds ks vs (result + mult * v) (mult * d)
      else toIndexPFLoop (i+1) ds (k :: ks) (v :: vs) result (mult * d)

def toIndexPF (sp keys vals : List Nat) : Nat := toIndexPFLoop 0 sp keys vals 0 1

/-- the loop of `toIndexPartialAndSkip(ids, space, f, toModify)`: (firstResult, multiplier, skipMultiplier) -/
def skipLoop (sp f : List Nat) (toModify : Nat) : List Nat → Nat → Nat → Nat → Nat × Nat
  | [], first, _, skipM => (first, skipM)
  | id :: ids, first, mult, skipM =>
      if id = toModify then skipLoop sp f toModify ids first (mult * sp.getD id 0) mult
      else skipLoop sp f toModify ids (first + mult * f.getD id 0) (mult * sp.getD id 0) skipM

/-- `toIndexPartialAndSkip`: the partial index with factor `toModify` read as 0, and that factor's multiplier -/
def toIndexPartialAndSkip (keys sp f : List Nat) (toModify : Nat) : Nat × Nat := skipLoop sp f toModify keys 0 1 1

/-- `merge(const PartialKeys & lhs, const PartialKeys & rhs, matches)`: the (i, j) positions of the common keys -/
def mergeMatches : Nat → Nat → List Nat → List Nat → List (Nat × Nat)
  | _, _, [], _ => []
  | _, _, _, [] => []
  | i, j, a :: l, b :: r =>
      if a = b then (i, j) :: mergeMatches (i+1) (j+1) l r
      else if a < b then mergeMatches (i+1) j l (b :: r)
      else mergeMatches i (j+1) (a :: l) r
termination_by _ _ l r => l.length + r.length

/-- `toFactors(F, pf)`: zero-filled full assignment carrying the named values (keys ascending); `i` = position of the head -/
def expandFrom : Nat → List Nat → List Nat → List Nat → List Nat
  | _, [], _, _ => []
  | i, _ :: ds, k :: ks, v :: vs =>
      if i = k then v :: expandFrom (i+1) ds ks vs else 0 :: expandFrom (i+1) ds (k :: ks) (v :: vs)
  | i, _ :: ds, _, _ => 0 :: expandFrom (i+1) ds [] []

/-- `removeFactor(pf, f)` -/
def removeFactor (f : Nat) : List (Nat × Nat) → List (Nat × Nat)
  | [] => []
  | (k, v) :: r => if k = f then r else (k, v) :: removeFactor f r

/-! ### PartialFactorsEnumerator

State: sizes `dims` of the enumerated keys (= `F[factors_.first[i]]`), current values
(`factors_.second`), `none` = cleared (invalid). `skip` = `factorToSkipId_` (an index into
the key list; `= length` means "skip nothing"). -/

/-- `advance()`; `pos` is the absolute position of the head of `dims`/`vals`. -/
def adv : Nat → Nat → List Nat → List Nat → Option (List Nat)
  | _, _, [], _ => none
  | _, _, _, [] => none
  | pos, skip, d :: ds, v :: vs =>
      if pos = skip then (adv (pos+1) skip ds vs).map (v :: ·)
      else if v + 1 = d then (adv (pos+1) skip ds vs).map (0 :: ·)
      else some ((v+1) :: vs)

def advance (skip : Nat) (dims : List Nat) : Option (List Nat) → Option (List Nat)
  | none => none
  | some vals => adv 0 skip dims vals

/-- state after `k` calls of `advance()` from the freshly constructed enumerator -/
def advanceN (skip : Nat) (dims : List Nat) : Nat → Option (List Nat)
  | 0 => if dims.isEmpty then none else some (dims.map (fun _ => 0))
  | k+1 => advance skip dims (advanceN skip dims k)

/-- the list of all values visited (fuel = upper bound on the number of steps) -/
def enumAll (skip : Nat) (dims : List Nat) (fuel : Nat) : List (List Nat) :=
  let rec go (st : Option (List Nat)) : Nat → List (List Nat)
    | 0 => []
    | f+1 => match st with
        | none => []
        | some v => v :: go (advance skip dims st) f
  go (advanceN skip dims 0) fuel

/-- remove the element whose absolute position is `skip` (head has position `pos`) -/
def er : Nat → Nat → List Nat → List Nat
  | _, _, [] => []
  | pos, skip, x :: xs => if pos = skip then xs else x :: er (pos+1) skip xs

/-- `PartialFactorsEnumerator::size()` -/
def enumSize (skip : Nat) (dims : List Nat) : Nat :=
  if dims.isEmpty then 0 else space (er 0 skip dims)

/-! ### PartialIndexEnumerator(F, fixedFactor, val)
  yields all indices of the full space whose `fixedFactor` has value `val`, ascending. -/
structure PIE where
  len : Nat     -- len_ (already decremented)
  skip : Nat
  offset : Nat
  max : Nat
  curr : Nat
  currLen : Nat
  deriving Repr

def pieInit (sp : List Nat) (fixed val : Nat) : PIE :=
  let len := space (sp.take fixed)
  let d := sp.getD fixed 1
  { len := len - 1, skip := len * d, offset := len * val, max := space sp, curr := len * val, currLen := 0 }

/-- `PartialIndexEnumerator(F, factors, fixedFactor, val, missing)`: the same walk over the sub-space
    spanned by `factors` (plus `fixedFactor` when `missing`) -/
def pieInitPK (sp keys : List Nat) (fixed val : Nat) (missing : Bool) : PIE :=
  let len := space (sel (keys.takeWhile (· < fixed)) sp)
  let d := sp.getD fixed 1
  let mx := spacePartial keys sp * (if missing then d else 1)
  { len := len - 1, skip := len * d, offset := len * val, max := mx, curr := len * val, currLen := 0 }

def PIE.value (p : PIE) : Nat := p.curr + p.currLen
def PIE.isValid (p : PIE) : Bool := decide (p.curr + p.currLen < p.max)
def PIE.advance (p : PIE) : PIE :=
  if p.currLen < p.len then { p with currLen := p.currLen + 1 }
  else { p with curr := p.curr + p.skip, currLen := 0 }

def pieAll (p : PIE) : Nat → List Nat
  | 0 => []
  | f+1 => if p.isValid then p.value :: pieAll p.advance f else []

/-! ### merge / match of partial factors -/

/-- `merge(lhs, rhs)` on PartialFactors: union of keys, ascending; on a common key the rhs value is taken -/
def mergePF : List (Nat × Nat) → List (Nat × Nat) → List (Nat × Nat)
  | [], r => r
  | l, [] => l
  | (lk, lv) :: ls, (rk, rv) :: rs =>
      if lk < rk then (lk, lv) :: mergePF ls ((rk, rv) :: rs)
      else if lk = rk then (rk, rv) :: mergePF ls rs
      else (rk, rv) :: mergePF ((lk, lv) :: ls) rs
termination_by l r => l.length + r.length

/-- `match(lhs, rhs)` on PartialFactors: no common key carries two different values -/
def matchPF : List (Nat × Nat) → List (Nat × Nat) → Bool
  | [], _ => true
  | _, [] => true
  | (lk, lv) :: ls, (rk, rv) :: rs =>
      if lk < rk then matchPF ls ((rk, rv) :: rs)
      else if lk = rk then (lv == rv) && matchPF ls rs
      else matchPF ((lk, lv) :: ls) rs
termination_by l r => l.length + r.length

/-- value of key `k` in a partial assignment -/
def lookup (k : Nat) : List (Nat × Nat) → Option Nat
  | [] => none
  | (k', v) :: r => if k = k' then some v else lookup k r

end AITB.Factored
