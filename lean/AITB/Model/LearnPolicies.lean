/-
  AITB.Model.LearnPolicies — the policy objects the learners of C11 are handed in practice (core Lean only).

  ExpectedSARSA, the *Evaluation trace learners, RetraceL and ImportanceSampling query a `PolicyInterface`
  through `getActionProbability(s, a)`.  The usual arguments are not a stored matrix (`MDP::Policy`) but
    MDP::QGreedyPolicy(q)                 -> Bandit::QGreedyPolicyWrapper::getActionProbability  (tolerance ties, `checkEqualGeneral`)
    MDP::EpsilonPolicy(QGreedyPolicy(q))  -> EpsilonPolicyInterface::getActionProbability       ((1-ε)·p + ε·(1/A))
  both of which READ A TABLE BY REFERENCE: for ExpectedSARSA the learner's own (caller-owned) table, so the
  target policy changes with every update.  The scans themselves are the C09 model (`AITB.Pol.GForm.prob` in the extracted form, `AITB.Pol.epsProb`);
  here they are lifted to `S×A` tables and plugged into the learners.
-/
import AITB.Model.Learners
import AITB.Model.Policies
namespace AITB.Learn

/-- `QGreedyPolicyWrapper::getActionProbability(a)` in the form the SOURCE has: the translator flag `Gen.C09.greedyMaxFirst`
    (C09's plug-in) says whether the wrapper takes `q_.maxCoeff()` first and tie-tests every entry against that true maximum
    (`GForm.repaired`: `1/count` on the entries `checkEqualGeneral` to the maximum, else 0 — repo 48b02c6) or scans with a running
    comparison against `q_[a]` (`GForm.asWritten` = `Pol.gProb`, the form found in rounds 1–3). -/
def gForm : AITB.Pol.GForm := if AITB.Gen.C09.greedyMaxFirst then AITB.Pol.GForm.repaired else AITB.Pol.GForm.asWritten

def gProbX (q : Nat → Rat) (n a : Nat) : Rat := gForm.prob q n a

/-- `QGreedyPolicy(tbl).getActionProbability(s, a)` -/
def greedyPol (A : Nat) (tbl : QF) : Nat → Nat → Rat := fun s a => gProbX (tbl s) A a

/-- `EpsilonPolicy(p, ε).getActionProbability(s, a)` -/
def epsPol (ε : Rat) (A : Nat) (p : Nat → Nat → Rat) : Nat → Nat → Rat := fun s a => AITB.Pol.epsProb ε (p s) A a

/-- policy object by kind: `0` stored matrix, `1` QGreedyPolicy over `tbl`, `2` EpsilonPolicy(QGreedyPolicy over `tbl`, ε) -/
def polOf (kind : Nat) (ε : Rat) (A : Nat) (mat : Nat → Nat → Rat) (tbl : QF) : Nat → Nat → Rat :=
  match kind with
  | 1 => greedyPol A tbl
  | 2 => epsPol ε A (greedyPol A tbl)
  | _ => mat

/-- ExpectedSARSA whose policy object reads the table the learner updates (`ExpectedSARSA(q, QGreedyPolicy(q))`):
    the probabilities are re-computed from the current table at every step -/
def esarsaStepP (pol : QF → Nat → Nat → Rat) (γ α : Rat) (A : Nat) (q : QF) (s a s1 : Nat) (r : Rat) : QF :=
  esarsaStep γ α A (pol q) q s a s1 r

/-! ## RLearning (src/MDP/Algorithms/RLearning.cpp) — modelled AS WRITTEN

    futureBestValue = q_.row(s1).maxCoeff();
    q_(s, a) += alpha_ * ( rew - rAvg_ + futureBestValue );
    currBestValue = q_.row(s).maxCoeff();
    if (checkEqualGeneral(q_(s, a), currBestValue)) rAvg_ += rho_ * ( rew + futureBestValue - currBestValue );

  (Schwartz's R-learning has `… + futureBestValue - q_(s,a)` and `… - currBestValue - rAvg_`… see `Props/C11Policies`.) -/

structure RL where
  q : QF
  ravg : Rat

def rlStep (α ρ : Rat) (A : Nat) (st : RL) (s a s1 : Nat) (r : Rat) : RL :=
  let fut := maxA A (st.q s1)
  let q' := upd st.q s a (st.q s a + α * (r - st.ravg + fut))
  let cur := maxA A (q' s)
  if AITB.Pol.ceG (q' s a) cur then ⟨q', st.ravg + ρ * (r + fut - cur)⟩ else ⟨q', st.ravg⟩

/-- the R-learning rule of the literature (Schwartz 1993; Sutton & Barto §10.3 form): both updates are increments TOWARDS a target -/
def rlStepDoc (α ρ : Rat) (A : Nat) (st : RL) (s a s1 : Nat) (r : Rat) : RL :=
  let fut := maxA A (st.q s1)
  let q' := upd st.q s a (st.q s a + α * (r - st.ravg + fut - st.q s a))
  let cur := maxA A (q' s)
  if AITB.Pol.ceG (q' s a) cur then ⟨q', st.ravg + ρ * (r + fut - cur - st.ravg)⟩ else ⟨q', st.ravg⟩

end AITB.Learn
