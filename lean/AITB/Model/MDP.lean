/-
  AITB.Model.MDP — executable model of the MDP planners (C01).  Core Lean only.

  Modelled code (all in /repo):
    include/AIToolbox/MDP/Utils.hpp        computeImmediateRewards, computeQFunction (Eigen form and generic triple loop)
    src/MDP/Utils.cpp                      makeValueFunction, makeQFunction, bellmanOperatorInplace (first maximum, loop bound actions.size())
    include/AIToolbox/MDP/Algorithms/ValueIteration.hpp       operator()
    include/AIToolbox/MDP/Algorithms/Utils/PolicyEvaluation.hpp  operator()
    include/AIToolbox/MDP/Algorithms/PolicyIteration.hpp      operator()  (goto loop; explicit fuel here, the C++ has none)
    include/AIToolbox/Bandit/Policies/Utils/QGreedyPolicyWrapper.hpp  getPolicy (tie handling by checkEqualGeneral)
    include/AIToolbox/MDP/Algorithms/LinearProgramming.hpp    constraint rows and the assembly of (V, Q, actions) from the LP solution
    include/AIToolbox/Utils/Core.hpp       checkEqualSmall / checkDifferentSmall / checkEqualGeneral

  Doubles are read as exact rationals (DESIGN §3).  Vectors and matrices are *data* (`Array`), so the
  compiled driver never re-evaluates a previous iterate; theorems see them through `Vec.get` / `Mat.get`.
-/
import AITB.Model.Num
import AITB.Gen.Constants
import AITB.Gen.C01Sites

namespace AITB.MDP

/-! ## sums, maxima (first maximum wins, as Eigen `maxCoeff(&idx)`) -/

/-- Σ_{i<n} f i, accumulated left to right from 0 -/
def sumTo : Nat → (Nat → Rat) → Rat
  | 0, _ => 0
  | n+1, f => sumTo n f + f n

/-- the C++ `acc += f(i)` loop for i = 0..n-1 starting from `init` -/
def accTo : Nat → Rat → (Nat → Rat) → Rat
  | 0, init, _ => init
  | n+1, init, f => accTo n init f + f n

/-- index of the first maximum among entries 0..n (n+1 entries) -/
def argmaxTo : Nat → (Nat → Rat) → Nat
  | 0, _ => 0
  | n+1, f => if f (argmaxTo n f) < f (n+1) then n+1 else argmaxTo n f

/-- maximum among entries 0..n (n+1 entries) -/
def maxTo : Nat → (Nat → Rat) → Rat
  | 0, f => f 0
  | n+1, f => if maxTo n f < f (n+1) then f (n+1) else maxTo n f

def absR (q : Rat) : Rat := if q < 0 then -q else q

/-! ## vectors and matrices as data -/

abbrev Vec := Array Rat
abbrev Mat := Array (Array Rat)

def Vec.get (v : Vec) (i : Nat) : Rat := v.getD i 0
def Mat.get (q : Mat) (i j : Nat) : Rat := (q.getD i #[]).getD j 0
def mkVec (n : Nat) (f : Nat → Rat) : Vec := (Array.range n).map f
def mkMat (n k : Nat) (f : Nat → Nat → Rat) : Mat := (Array.range n).map (fun i => (Array.range k).map (f i))
def mkNats (n : Nat) (f : Nat → Nat) : Array Nat := (Array.range n).map f
def natAt (a : Array Nat) (i : Nat) : Nat := a.getD i 0

/-- `(a - b).cwiseAbs().maxCoeff()` over n entries (n ≥ 1) -/
def maxAbsDiff (n : Nat) (a b : Nat → Rat) : Rat := maxTo (n - 1) (fun s => absR (a s - b s))

/-! ## library tolerance predicates (Utils/Core.hpp), constants regenerated from the source -/

def checkEqualSmall (a b : Rat) : Bool := decide (absR (a - b) ≤ AITB.Gen.equalToleranceSmall)
def checkDifferentSmall (a b : Rat) : Bool := !checkEqualSmall a b
def minR (a b : Rat) : Rat := if b < a then b else a
def checkEqualGeneral (a b : Rat) : Bool :=
  checkEqualSmall a b || decide (absR (a - b) ≤ minR (absR a) (absR b) * AITB.Gen.equalToleranceGeneral)

/-- largest absolute gap `checkEqualGeneral` tolerates between numbers of magnitude ≤ B -/
def tieSlack (B : Rat) : Rat := AITB.Gen.equalToleranceSmall + AITB.Gen.equalToleranceGeneral * B

/-! ## the MDP and its two access paths -/

structure MDP where
  S : Nat
  A : Nat
  /-- getTransitionProbability(s,a,s1) -/
  T : Nat → Nat → Nat → Rat
  /-- getExpectedReward(s,a,s1) -/
  R3 : Nat → Nat → Nat → Rat
  /-- getRewardFunction()(s,a) of an Eigen model -/
  R : Nat → Nat → Rat
  /-- getDiscount() -/
  γ : Rat

/-- which branch of `if constexpr (IsModelEigen<M>)` is instantiated -/
inductive Rep where
  | eigen
  | generic
  deriving BEq, Repr, DecidableEq

/-- `computeImmediateRewards` as a function of (s,a) -/
def immRewardFn (m : MDP) : Rep → Nat → Nat → Rat
  | .eigen => m.R
  | .generic => fun s a => accTo m.S 0 (fun s1 => m.T s a s1 * m.R3 s a s1)

/-- `computeImmediateRewards(model)` (a matrix) / `model.getRewardFunction()` -/
def immRewards (m : MDP) (rep : Rep) : Mat := mkMat m.S m.A (immRewardFn m rep)

/-- `computeQFunction(model, v, ir)` entry (s,a); `v` is whatever vector the caller passes (already discounted) -/
def computeQFn (m : MDP) (rep : Rep) (v : Nat → Rat) (ir : Nat → Nat → Rat) (s a : Nat) : Rat :=
  match rep with
  | .eigen => ir s a + sumTo m.S (fun s1 => m.T s a s1 * v s1)          -- ir.col(a) += T(a) * v
  | .generic => accTo m.S (ir s a) (fun s1 => m.T s a s1 * v s1)        -- ir(s,a) += T(s,a,s1) * v[s1]

def computeQ (m : MDP) (rep : Rep) (v : Vec) (ir : Mat) : Mat :=
  mkMat m.S m.A (computeQFn m rep v.get ir.get)

/-! ## value functions -/

structure VF where
  values : Vec
  actions : Array Nat

/-- `makeValueFunction(S)` -/
def makeVF (S : Nat) : VF := ⟨mkVec S (fun _ => 0), mkNats S (fun _ => 0)⟩
/-- `makeQFunction(S,A)` -/
def makeQ (S A : Nat) : Mat := mkMat S A (fun _ _ => 0)

/-- `bellmanOperatorInplace(q, &v)`: loop bound is `actions.size()`; entries past it keep their value -/
def bellmanInplace (A : Nat) (q : Mat) (v : VF) : VF :=
  { values := mkVec v.values.size (fun s => if s < v.actions.size then maxTo (A - 1) (q.get s) else v.values.get s),
    actions := mkNats v.actions.size (fun s => argmaxTo (A - 1) (q.get s)) }

/-! ## ValueIteration::operator() -/

structure VIState where
  vf : VF
  q : Mat
  variation : Rat
  timestep : Nat

/-- one pass through the body of the `while` -/
def viStep (m : MDP) (rep : Rep) (ir : Mat) (useTol : Bool) (st : VIState) : VIState :=
  let val0 := st.vf.values
  let val1 := mkVec val0.size (fun s => val0.get s * m.γ)             -- val1 *= model.getDiscount()
  let q := computeQ m rep val1 ir
  let vf := bellmanInplace m.A q ⟨val1, st.vf.actions⟩
  { vf := vf, q := q,
    variation := if useTol then maxAbsDiff m.S vf.values.get val0.get else st.variation,
    timestep := st.timestep + 1 }

/-- `while (timestep < horizon_ && (!useTolerance || variation > tolerance_))`; fuel = horizon_ − timestep -/
def viLoop (m : MDP) (rep : Rep) (ir : Mat) (useTol : Bool) (tol : Rat) : Nat → VIState → VIState
  | 0, st => st
  | fuel+1, st =>
    if useTol && !(decide (st.variation > tol)) then st
    else viLoop m rep ir useTol tol fuel (viStep m rep ir useTol st)

structure VIOut where
  variation : Rat
  vf : VF
  q : Mat
  timestep : Nat

def useTolerance (tol : Rat) : Bool := checkDifferentSmall tol 0

/-- the start-selection block of operator(): a supplied value function is used iff its `values` has S entries; whether its
    `actions` vector is then sized to S is a fact of the source (`Gen.C01.viResizesActions`, see fixes/C01-2) -/
def acceptWarm (S : Nat) (v : VF) : VF :=
  if v.values.size != S then makeVF S
  else if AITB.Gen.C01.viResizesActions then ⟨v.values, mkNats S (natAt v.actions)⟩ else v

/-- `ValueIteration(horizon, tol, vParameter)(model)`.  `vParam = none` is the default empty value function. -/
def valueIteration (m : MDP) (rep : Rep) (horizon : Nat) (tol : Rat) (vParam : Option VF) : VIOut :=
  let v1 : VF := match vParam with
    | none => makeVF m.S
    | some v => acceptWarm m.S v
  let ir := immRewards m rep
  let useTol := useTolerance tol
  let st := viLoop m rep ir useTol tol horizon ⟨v1, makeQ m.S m.A, tol * 2, 0⟩
  ⟨if useTol then st.variation else 0, st.vf, st.q, st.timestep⟩

/-! ## PolicyEvaluation::operator() -/

/-- `q.row(s) * p.row(s).transpose()` -/
def dotTo (n : Nat) (a b : Nat → Rat) : Rat := sumTo n (fun i => a i * b i)

structure PEState where
  v : Vec
  q : Mat
  variation : Rat
  timestep : Nat

def peStep (m : MDP) (rep : Rep) (ir : Mat) (useTol : Bool) (p : Mat) (st : PEState) : PEState :=
  let val0 := st.v
  let v1 := mkVec val0.size (fun s => val0.get s * m.γ)
  let q := computeQ m rep v1 ir
  let v1 := mkVec m.S (fun s => dotTo m.A (q.get s) (p.get s))
  { v := v1, q := q,
    variation := if useTol then maxAbsDiff m.S v1.get val0.get else st.variation,
    timestep := st.timestep + 1 }

def peLoop (m : MDP) (rep : Rep) (ir : Mat) (useTol : Bool) (tol : Rat) (p : Mat) : Nat → PEState → PEState
  | 0, st => st
  | fuel+1, st =>
    if useTol && !(decide (st.variation > tol)) then st
    else peLoop m rep ir useTol tol p fuel (peStep m rep ir useTol p st)

structure PEOut where
  variation : Rat
  v : Vec
  q : Mat
  timestep : Nat

/-- `PolicyEvaluation<M>(model, horizon, tol, vParameter)(policy)`; `p` = `policy.getPolicy()` -/
def policyEvaluation (m : MDP) (rep : Rep) (horizon : Nat) (tol : Rat) (vParam : Option Vec) (p : Mat) : PEOut :=
  let v1 : Vec := match vParam with
    | none => mkVec m.S (fun _ => 0)
    | some v => if v.size != m.S then mkVec m.S (fun _ => 0) else v
  let ir := immRewards m rep
  let useTol := useTolerance tol
  let st := peLoop m rep ir useTol tol p horizon ⟨v1, makeQ m.S m.A, tol * 2, 0⟩
  ⟨if useTol then st.variation else 0, st.v, st.q, st.timestep⟩

/-! ## QGreedyPolicy::getPolicy (Bandit::QGreedyPolicyWrapper::getPolicy) -/

/-- first loop: running (max, count) over actions 1..n -/
def greedyScan (q : Nat → Rat) : Nat → Rat × Nat
  | 0 => (q 0, 1)
  | n+1 =>
    let r := greedyScan q n
    if checkEqualGeneral (q (n+1)) r.1 then (r.1, r.2 + 1)
    else if r.1 < q (n+1) then (q (n+1), 1)
    else r

/-- one row of the policy matrix, as found: the ties are counted while the maximum is still moving and the second pass hands
    `1/count` to everything `checkEqualGeneral` to the final maximum -/
def greedyRowScan (A : Nat) (q : Nat → Rat) (a : Nat) : Rat :=
  let r := greedyScan q (A - 1)
  if checkEqualGeneral (q a) r.1 then 1 / ((r.2 : Nat) : Rat) else 0

/-- number of i < n with p i -/
def countTo : Nat → (Nat → Bool) → Nat
  | 0, _ => 0
  | n+1, p => countTo n p + (if p n then 1 else 0)

/-- one row of the policy matrix, repaired form (fixes/C01-3): the true maximum first (`if (q_[aa] > max) max = q_[aa]`), then the
    number of entries `checkEqualGeneral` to it, then `1/count` on exactly those entries -/
def greedyRowMax (A : Nat) (q : Nat → Rat) (a : Nat) : Rat :=
  let mx := maxTo (A - 1) q
  if checkEqualGeneral (q a) mx then 1 / ((countTo A (fun i => checkEqualGeneral (q i) mx) : Nat) : Rat) else 0

/-- `QGreedyPolicyWrapper::getPolicy`, whichever of the two shapes the translator found in the source -/
def greedyRow (A : Nat) (q : Nat → Rat) (a : Nat) : Rat :=
  if AITB.Gen.C01.greedyTrueMaxFirst then greedyRowMax A q a else greedyRowScan A q a

def greedyPolicy (S A : Nat) (q : Mat) : Mat := mkMat S A (fun s => greedyRow A (q.get s))

/-! ## PolicyIteration::operator() -/

/-- does any entry differ (checkDifferentSmall) — the double `for` with the `goto` -/
def matDiffers (S A : Nat) (x y : Mat) : Bool :=
  (List.range S).any (fun s => (List.range A).any (fun a => checkDifferentSmall (x.get s a) (y.get s a)))

structure PIState where
  qfun : Mat
  matrix : Mat
  vParam : Option Vec
  rounds : Nat

/-- one pass from `nextLoop:` given the result `out` of `eval(p)`; returns the new state and whether the loop jumps back -/
def piRoundWith (m : MDP) (out : PEOut) (st : PIState) : PIState × Bool :=
  let newMatrix := greedyPolicy m.S m.A out.q                 -- qfun = q; p.getPolicy()
  if matDiffers m.S m.A st.matrix newMatrix then
    (⟨out.q, newMatrix, some out.v, st.rounds + 1⟩, true)
  else
    (⟨out.q, st.matrix, some out.v, st.rounds + 1⟩, false)

/-- `auto [bound, v, q] = eval(p)` where `p` is the greedy policy of the current `qfun`, then the comparison -/
def piRound (m : MDP) (rep : Rep) (horizon : Nat) (tol : Rat) (st : PIState) : PIState × Bool :=
  piRoundWith m (policyEvaluation m rep horizon tol st.vParam (greedyPolicy m.S m.A st.qfun)) st

/-- the C++ loop has no bound; `none` = fuel exhausted -/
def piLoop (m : MDP) (rep : Rep) (horizon : Nat) (tol : Rat) : Nat → PIState → Option PIState
  | 0, _ => none
  | fuel+1, st =>
    let (st', again) := piRound m rep horizon tol st
    if again then piLoop m rep horizon tol fuel st' else some st'

def policyIteration (m : MDP) (rep : Rep) (horizon : Nat) (tol : Rat) (fuel : Nat) : Option PIState :=
  let q0 := makeQ m.S m.A
  piLoop m rep horizon tol fuel ⟨q0, greedyPolicy m.S m.A q0, none, 0⟩

/-! ## MDP::LinearProgramming::operator(): constraint system and result assembly (lp_solve itself is not modelled) -/

/-- coefficient of V(s1) in the constraint row of (s,a): `-γ T(s,a,s1)`, plus 1 at s1 = s -/
def lpCoeff (m : MDP) (s a s1 : Nat) : Rat := -m.γ * m.T s a s1 + (if s1 = s then 1 else 0)
/-- right-hand side of the row of (s,a) -/
def lpRhs (m : MDP) (rep : Rep) (s a : Nat) : Rat := immRewardFn m rep s a
/-- slack of the `>=` row of (s,a) at `V` (≥ 0 iff satisfied) -/
def lpSlack (m : MDP) (rep : Rep) (V : Nat → Rat) (s a : Nat) : Rat :=
  sumTo m.S (fun s1 => lpCoeff m s a s1 * V s1) - lpRhs m rep s a
/-- objective `Σ_s V(s) / S` -/
def lpObjective (m : MDP) (V : Nat → Rat) : Rat := sumTo m.S (fun s => (1 / (m.S : Rat)) * V s)

/-- what operator() builds from the solver's `values`: q = computeQFunction(model, γ·values, ir), actions = row argmax -/
def lpAssemble (m : MDP) (rep : Rep) (values : Vec) : Mat × Array Nat :=
  let q := computeQ m rep (mkVec values.size (fun s => m.γ * values.get s)) (immRewards m rep)
  (q, mkNats m.S (fun s => argmaxTo (m.A - 1) (q.get s)))

/-! ## independent definitions of "the h-step value" (specification side) -/

/-- one-step lookahead with the discount applied to the value first, as the code does -/
def qBackup (m : MDP) (v : Nat → Rat) (s a : Nat) : Rat :=
  m.R s a + sumTo m.S (fun s1 => m.T s a s1 * (v s1 * m.γ))

/-- Bellman optimality operator -/
def bellman (m : MDP) (v : Nat → Rat) (s : Nat) : Rat := maxTo (m.A - 1) (qBackup m v s)

/-- Bellman operator of a stochastic policy `p s a` -/
def bellmanPi (m : MDP) (p : Nat → Nat → Rat) (v : Nat → Rat) (s : Nat) : Rat :=
  sumTo m.A (fun a => qBackup m v s a * p s a)

/-- h-step dynamic programming values from the terminal value `v0` -/
def optFrom (m : MDP) (v0 : Nat → Rat) : Nat → Nat → Rat
  | 0 => v0
  | h+1 => bellman m (optFrom m v0 h)

/-- h-step optimal values (terminal value 0) -/
def optH (m : MDP) : Nat → Nat → Rat := optFrom m (fun _ => 0)

/-- h-step value of the stochastic policy `p` from terminal value `v0` -/
def evalFrom (m : MDP) (p : Nat → Nat → Rat) (v0 : Nat → Rat) : Nat → Nat → Rat
  | 0 => v0
  | h+1 => bellmanPi m p (evalFrom m p v0 h)

def evalPolicy (m : MDP) (p : Nat → Nat → Rat) : Nat → Nat → Rat := evalFrom m p (fun _ => 0)

/-- deterministic history-dependent h-step plans: an action now, and a continuation plan for every next state -/
def Plan : Nat → Type
  | 0 => Unit
  | h+1 => Nat × (Nat → Plan h)

/-- expected discounted return of a plan from state s -/
def evalPlan (m : MDP) : (h : Nat) → Plan h → Nat → Rat
  | 0, _, _ => 0
  | h+1, (a, k), s => m.R s a + sumTo m.S (fun s1 => m.T s a s1 * (evalPlan m h (k s1) s1 * m.γ))

/-- every action the plan can take is a legal action -/
def Plan.Valid (A : Nat) : (h : Nat) → Plan h → Prop
  | 0, _ => True
  | h+1, (a, k) => a < A ∧ ∀ s1, Plan.Valid A h (k s1)

/-- the plan that acts greedily w.r.t. the DP values -/
def greedyPlan (m : MDP) : (h : Nat) → Nat → Plan h
  | 0, _ => ()
  | h+1, s => (argmaxTo (m.A - 1) (qBackup m (optH m h) s), fun s1 => greedyPlan m h s1)

/-! ## executable (data) versions of the specification values, used by the driver's checkers -/

def bellmanVec (m : MDP) (v : Vec) : Vec := mkVec m.S (bellman m v.get)
def optIterFrom (m : MDP) (v0 : Vec) : Nat → Vec
  | 0 => v0
  | h+1 => bellmanVec m (optIterFrom m v0 h)
def optIter (m : MDP) : Nat → Vec
  | 0 => mkVec m.S (fun _ => 0)
  | h+1 => bellmanVec m (optIter m h)
def evalIter (m : MDP) (p : Mat) : Nat → Vec
  | 0 => mkVec m.S (fun _ => 0)
  | h+1 => let v := evalIter m p h; mkVec m.S (bellmanPi m p.get v.get)

/-- h sweeps of the policy operator from the supplied start vector (warm-started PolicyEvaluation, specification side) -/
def evalIterFrom (m : MDP) (p : Mat) (v0 : Vec) : Nat → Vec
  | 0 => v0
  | h+1 => let v := evalIterFrom m p v0 h; mkVec m.S (bellmanPi m p.get v.get)

/-! ## decidable checkers evaluated on the implementation's own output (L3) -/

def allLt (n : Nat) (p : Nat → Bool) : Bool := (List.range n).all p

/-- Bellman residual ‖B V − V‖∞ over the S states (S ≥ 1) -/
def residual (m : MDP) (V : Nat → Rat) : Rat := maxTo (m.S - 1) (fun s => absR (bellman m V s - V s))
def checkResidual (m : MDP) (V : Nat → Rat) (r : Rat) : Bool :=
  allLt m.S (fun s => decide (absR (bellman m V s - V s) ≤ r))
/-- `acts s` is a maximiser of row s of Q up to `slack` (ties allowed) and a legal action -/
def checkGreedy (S A : Nat) (Q : Nat → Nat → Rat) (acts : Nat → Nat) (slack : Rat) : Bool :=
  allLt S (fun s => decide (acts s < A) && allLt A (fun a => decide (Q s a ≤ Q s (acts s) + slack)))
/-- every LP row is satisfied up to δ -/
def checkLpFeasible (m : MDP) (rep : Rep) (V : Nat → Rat) (δ : Rat) : Bool :=
  allLt m.S (fun s => allLt m.A (fun a => decide (-δ ≤ lpSlack m rep V s a)))
/-- pointwise closeness -/
def checkClose (n : Nat) (a b : Nat → Rat) (d : Rat) : Bool := allLt n (fun s => decide (absR (a s - b s) ≤ d))
/-- transition rows are probability vectors -/
def checkValidT (m : MDP) : Bool :=
  allLt m.S (fun s => allLt m.A (fun a => allLt m.S (fun s1 => decide (0 ≤ m.T s a s1)) && decide (sumTo m.S (m.T s a) = 1)))
/-- rows of `p` are probability vectors over the A actions -/
def checkValidPi (m : MDP) (p : Nat → Nat → Rat) : Bool :=
  allLt m.S (fun s => allLt m.A (fun a => decide (0 ≤ p s a)) && decide (sumTo m.A (fun a => p s a) = 1))
def checkConsistentR (m : MDP) : Bool :=
  allLt m.S (fun s => allLt m.A (fun a => decide (m.R s a = sumTo m.S (fun s1 => m.T s a s1 * m.R3 s a s1))))


/-! ## the ValueIteration object: parameters and the internal vector carried between calls -/

/-- `tolerance_`, `horizon_`, `vParameter_` and the internal `v1_` (moved-from by every `return`: arbitrary content afterwards) -/
structure VIObj where
  tol : Rat
  horizon : Nat
  vParam : VF
  v1 : VF

inductive VIEvent where
  /-- `setTolerance(e)`: throws, leaving the object as it was, when e < 0 -/
  | setTolerance (e : Rat)
  | setHorizon (h : Nat)
  | setValueFunction (v : VF)
  /-- `operator()(model)`; `movedFrom` is whatever `std::move(v1_)` leaves behind -/
  | call (m : MDP) (rep : Rep) (movedFrom : VF)

/-- one event; a call also yields its return value.  operator() reads `vParameter_` only: `v1_` is assigned on both branches of the
    start-selection block before anything reads it (`Gen.C01.viStartSites`) -/
def VIObj.step (o : VIObj) : VIEvent → VIObj × Option VIOut
  | .setTolerance e => (if e < 0 then o else { o with tol := e }, none)
  | .setHorizon h => ({ o with horizon := h }, none)
  | .setValueFunction v => ({ o with vParam := v }, none)
  | .call m rep junk => ({ o with v1 := junk }, some (valueIteration m rep o.horizon o.tol (some o.vParam)))

def VIObj.run (o : VIObj) : List VIEvent → VIObj
  | [] => o
  | e :: es => (o.step e).1.run es

def VIEvent.isSetter : VIEvent → Bool
  | .call _ _ _ => false
  | _ => true


/-! ## `bellmanOperator(q)` (src/MDP/Utils.cpp): a fresh value function of `q.rows()` entries, then the in-place operator -/
def bellmanOp (S A : Nat) (q : Mat) : VF := bellmanInplace A q ⟨mkVec S (fun _ => 0), mkNats S (fun _ => 0)⟩

/-! ## the ONE `lp.row` buffer of LinearProgramming::operator(): filled with 1/S for the objective, then rewritten for every (s,a) -/

/-- write `f i` at every index i < n of the buffer, in order (the `for s1` loop of the generic path; the dense assignment of the Eigen path) -/
def writeTo : Nat → (Nat → Rat) → Vec → Vec
  | 0, _, b => b
  | n+1, f, b => (writeTo n f b).setIfInBounds n (f n)

/-- one (s,a) pass over the persistent buffer: all S coefficients rewritten, then `lp.row[s] += 1.0` -/
def lpRowPass (m : MDP) (s a : Nat) (buf : Vec) : Vec :=
  let b := writeTo m.S (fun s1 => -m.γ * m.T s a s1) buf
  b.setIfInBounds s (Vec.get b s + 1)

/-- the whole constraint-building double loop (k = s·A + a) over the one buffer: final buffer and the rows pushed so far, in order -/
def lpPushAll (m : MDP) : Nat → Vec → Vec × List Vec
  | 0, buf => (buf, [])
  | k+1, buf =>
    let (b, rows) := lpPushAll m k buf
    let b' := lpRowPass m (k / m.A) (k % m.A) b
    (b', rows ++ [b'])

/-! ## the PolicyEvaluation object (what PolicyIteration drives with `setValues` between evaluations) -/

/-- `PolicyEvaluation<M>`: the model is bound at construction; `tolerance_`, `horizon_`, `vParameter_`, and the internal `v1_` (moved-from by every return) -/
structure PEObj where
  tol : Rat
  horizon : Nat
  vParam : Vec
  v1 : Vec

inductive PEEvent where
  | setTolerance (e : Rat)
  | setHorizon (h : Nat)
  | setValues (v : Vec)
  | call (p : Mat) (movedFrom : Vec)

def PEObj.step (m : MDP) (rep : Rep) (o : PEObj) : PEEvent → PEObj × Option PEOut
  | .setTolerance e => (if e < 0 then o else { o with tol := e }, none)
  | .setHorizon h => ({ o with horizon := h }, none)
  | .setValues v => ({ o with vParam := v }, none)
  | .call p junk => ({ o with v1 := junk }, some (policyEvaluation m rep o.horizon o.tol (some o.vParam) p))

def PEObj.run (m : MDP) (rep : Rep) (o : PEObj) : List PEEvent → PEObj
  | [] => o
  | e :: es => PEObj.run m rep (o.step m rep e).1 es

def PEEvent.isSetter : PEEvent → Bool
  | .call _ _ => false
  | _ => true

end AITB.MDP
