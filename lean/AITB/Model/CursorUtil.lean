/-
  AITB.Model.CursorUtil — cursor models (C10b, round 4) of the shared index/iterator helpers that the
  anchored code relies on one level down the call graph.  CHECKED access everywhere: `none` = the code
  would read or write outside a container (or through an invalidated iterator).  Core Lean only.

    include/AIToolbox/Utils/Combinatorics.hpp   SubsetEnumerator::advance / isValid / reset   (used by findVerticesNaive)
    src/Utils/Combinatorics.cpp                 nChooseK
    include/AIToolbox/Utils/Core.hpp            set_union_inplace                              (FactorGraph::getVariables(list))
                                                sequential_sorted_contains(v, elems), sequential_sorted_find   (SARSOP, FactoredVector/Matrix2D ops)
                                                veccmp                                         (Polytope, QGreedyPolicy, …)
-/
namespace AITB.CursorUtil

/-! ## `SubsetEnumerator<size_t>` — ids_ is a `std::vector<size_t>` of `k` slots, `upperBound_ = U` -/

/-- `auto current = ids_.size() - 1; auto ub = upperBound_ - 1; while (current && ids_[current] == ub) --current, --ub;`
    Structural in `current`; when `current == 0` the `&&` short-circuits and `ids_[0]` is NOT read.
    Returns the final `(current, ub)`. -/
def scanDown (ids : List Nat) : Nat → Nat → Option (Nat × Nat)
  | 0, ub => some (0, ub)
  | c+1, ub =>
    match ids[c+1]? with
    | none => none
    | some v => if v == ub then scanDown ids c (ub - 1) else some (c+1, ub)

/-- `while (++current != ids_.size()) ids_[current] = ++ub;` with `n` = remaining iterations (`ids_.size() - current - 1`);
    the write is checked. `cur` is the value of `current` AFTER the pre-increment. -/
def fillUp : List Nat → Nat → Nat → Nat → Option (List Nat)
  | ids, _, _, 0 => some ids
  | ids, cur, ub, n+1 => if cur < ids.length then fillUp (ids.set cur (ub+1)) (cur+1) (ub+1) n else none

/-- `advance()`: returns the new `ids_` and `lowest`.  An empty `ids_` makes `ids_.size() - 1` wrap: `none`. -/
def advance (ids : List Nat) (U : Nat) : Option (List Nat × Nat) :=
  if ids.length = 0 then none else
  match scanDown ids (ids.length - 1) (U - 1) with
  | none => none
  | some (c, _) =>
    match ids[c]? with
    | none => none
    | some v =>                                      -- `ub = ++ids_[current];`
      match fillUp (ids.set c (v+1)) (c+1) (v+1) (ids.length - (c+1)) with
      | none => none
      | some out => some (out, c)

/-- `isValid()` : `ids_.back() < upperBound_` (checked `back()`) -/
def isValid (ids : List Nat) (U : Nat) : Option Bool := ids.getLast?.map (· < U)

/-- `reset()` : `std::iota(begin, end, lowerBound_)` -/
def reset (k lo : Nat) : List Nat := List.range' lo k

/-- strict lexicographic order on id vectors of equal length (the order the enumerator documents) -/
def lexLt : List Nat → List Nat → Bool
  | a :: x, b :: y => a < b || (a == b && lexLt x y)
  | _, _ => false

/-- strictly increasing and below `U` (decidable form, used by the driver on the implementation's subsets) -/
def validB (U : Nat) : List Nat → Bool
  | [] => true
  | [a] => a < U
  | a :: b :: t => a < b && validB U (b :: t)

/-- closed form of `advance` (proved equal in Props.C10Util): keep the first `c` slots, then count up from `ids[c]+1` -/
def advanceSpec (ids : List Nat) (c : Nat) : List Nat := ids.take c ++ List.range' (ids.getD c 0 + 1) (ids.length - c)

/-- the whole documented loop `reset(); while (isValid()) { visit(*e); advance(); }` with fuel; `none` = an access went wrong.
    Returns the visited subsets with the `lowest` reported by the advance that produced each of them (0 for the first). -/
def enumerate (k lo U : Nat) : Nat → List Nat → Nat → Option (List (List Nat × Nat))
  | 0, _, _ => some []
  | fuel+1, ids, low =>
    match isValid ids U with
    | none => none
    | some false => some []
    | some true =>
      match advance ids U with
      | none => none
      | some (ids', low') => (enumerate k lo U fuel ids' low').map ((ids, low) :: ·)

/-- `nChooseK(n, k)` of src/Utils/Combinatorics.cpp in ideal (non-wrapping) arithmetic.
    `for (i = 2; i <= k; ++i) { result *= (n-i+1); result /= i; }` -/
def chooseLoop (n : Nat) : Nat → Nat → Nat → Nat     -- fuel, i, result
  | 0, _, r => r
  | fuel+1, i, r => chooseLoop n fuel (i+1) (r * (n - i + 1) / i)

def nChooseK (n k : Nat) : Nat :=
  if k > n then 0 else
  let k := if k * 2 > n then n - k else k
  if k = 0 then 1 else chooseLoop n (k - 1) 2 n

/-- largest intermediate value the loop holds before dividing (for the 32-bit `unsigned` overflow clause) -/
def chooseLoopMax (n : Nat) : Nat → Nat → Nat → Nat → Nat
  | 0, _, _, m => m
  | fuel+1, i, r, m => chooseLoopMax n fuel (i+1) (r * (n - i + 1) / i) (max m (r * (n - i + 1)))

def nChooseKPeak (n k : Nat) : Nat :=
  if k > n then 0 else
  let k := if k * 2 > n then n - k else k
  if k = 0 then 1 else chooseLoopMax n (k - 1) 2 n n

/-! ## `set_union_inplace(lhs, rhs)` — `lhs.reserve(cap)`, `set_difference(rhs, lhs[0,mid)) → back_inserter(lhs)`, `inplace_merge`.
    The two read cursors of `set_difference` point INTO `lhs`; a `push_back` beyond the capacity reallocates and leaves
    them dangling. -/

/-- checked `push_back` while iterators into the vector are live -/
def pushLive (buf : List Nat) (cap : Nat) (x : Nat) : Option (List Nat) :=
  if buf.length < cap then some (buf ++ [x]) else none

/-- libstdc++ `std::set_difference(first1,last1, first2,last2, back_inserter(lhs))` with first1..last1 = rhs,
    first2..last2 = lhs[0, mid).  `i` indexes rhs, `j` indexes lhs. -/
def setDiffLoop (rhs : List Nat) (mid cap : Nat) : Nat → Nat → Nat → List Nat → Option (List Nat)
  | 0, _, _, _ => none
  | fuel+1, i, j, buf =>
    if i < rhs.length then
      if j < mid then
        match rhs[i]?, buf[j]? with
        | some a, some b =>
          if a < b then (pushLive buf cap a).bind (setDiffLoop rhs mid cap fuel (i+1) j)
          else if b < a then setDiffLoop rhs mid cap fuel i (j+1) buf
          else setDiffLoop rhs mid cap fuel (i+1) (j+1) buf
        | _, _ => none
      else                                            -- `std::copy(first1, last1, result)`
        match rhs[i]? with
        | some a => (pushLive buf cap a).bind (setDiffLoop rhs mid cap fuel (i+1) j)
        | none => none
    else some buf

/-- `std::inplace_merge(begin, begin+mid, end)` on two sorted runs (the standard algorithm is trusted: a stable merge) -/
def inplaceMerge (buf : List Nat) (mid : Nat) : List Nat := List.merge (buf.take mid) (buf.drop mid) (fun a b => a ≤ b)

/-- `set_union_inplace` with the capacity the source reserves passed in (`Gen.C10Sites.unionReserve`) -/
def setUnionInplace (lhs rhs : List Nat) (cap : Nat) : Option (List Nat) :=
  let cap := max cap lhs.length                       -- `reserve(n)` never shrinks
  (setDiffLoop rhs lhs.length cap (lhs.length + rhs.length + 1) 0 0 lhs).map (inplaceMerge · lhs.length)

/-! ## `sequential_sorted_contains(v, elems)` (two-vector overload) and `veccmp` -/

/-- `while (i < v.size() && v[i] < elems[j]) ++i;` -/
def skipLess (v : List Nat) (e : Nat) : Nat → Nat → Option Nat
  | 0, _ => none
  | fuel+1, i =>
    if i < v.length then
      match v[i]? with
      | some x => if x < e then skipLess v e fuel (i+1) else some i
      | none => none
    else some i

def containsLoop (v elems : List Nat) : Nat → Nat → Nat → Option Bool
  | 0, _, _ => none
  | fuel+1, i, j =>
    if j < elems.length then
      match elems[j]? with
      | none => none
      | some e =>
        match skipLess v e (v.length + 1) i with
        | none => none
        | some i' =>
          if i' = v.length then some false else
          match v[i']? with
          | none => none
          | some x => if x > e then some false else containsLoop v elems fuel (i'+1) (j+1)
    else some (j == elems.length)

/-- `veccmp(lhs, rhs)` : -1 / 0 / 1, reads `rhs[i]` for `i < lhs.size()` (the `assert` on equal sizes is the documented precondition) -/
def veccmpLoop (l r : List Nat) : Nat → Nat → Option Int
  | 0, _ => none
  | fuel+1, i =>
    if i < l.length then
      match l[i]?, r[i]? with
      | some a, some b => if a == b then veccmpLoop l r fuel (i+1) else some (if a > b then 1 else -1)
      | _, _ => none
    else some 0

def veccmp (l r : List Nat) : Option Int := veccmpLoop l r (l.length + 1) 0

/-- `sequential_sorted_contains(const V & v, const V & elems)`; precondition (asserted): `elems.size() <= v.size()` -/
def sortedContains (v elems : List Nat) : Option Bool :=
  if v.length = elems.length then (veccmp v elems).map (· == 0)
  else containsLoop v elems (elems.length + 1) 0 0

end AITB.CursorUtil

/-! ## specifications used by the driver's clauses on the implementation's own outputs -/
namespace AITB.CursorUtil

/-- all `k`-element sublists of a list, in lexicographic order of positions: the subsets a `SubsetEnumerator` must visit -/
def combos : Nat → List Nat → List (List Nat)
  | 0, _ => [[]]
  | _+1, [] => []
  | k+1, a :: t => (combos k t).map (a :: ·) ++ combos (k+1) t

/-- strictly increasing -/
def strictSorted : List Nat → Bool
  | a :: b :: t => a < b && strictSorted (b :: t)
  | _ => true

/-- `out` is the sorted duplicate-free union of `l` and `r` -/
def isSortedUnion (out l r : List Nat) : Bool :=
  strictSorted out && out.all (fun x => l.contains x || r.contains x) && (l ++ r).all out.contains

/-- `lowest` returned by the advance that led from `prev` to `cur`: leftmost changed slot -/
def lowestOk (prev cur : List Nat) (low : Nat) : Bool :=
  prev.take low == cur.take low && prev[low]? != cur[low]? && low < cur.length

/-- `veccmpSmall` / `veccmpGeneral` over exact rationals, `eq` = the tolerance predicate: -1 / 0 / 1 -/
def veccmpTol (eq : Rat → Rat → Bool) : List Rat → List Rat → Int
  | a :: x, b :: y => if eq a b then veccmpTol eq x y else if a < b then -1 else 1
  | _, _ => 0

/-- `max_element_unary`: index and value of the FIRST maximum (strict `>` update), `(len, 0)` on an empty range -/
def maxElementUnary (vals : List Rat) : Nat × Rat :=
  match vals with
  | [] => (0, 0)
  | v :: t => (t.foldl (fun (acc : Nat × Nat × Rat) x => let (i, bi, bv) := acc; if x > bv then (i+1, i, x) else (i+1, bi, bv)) (1, 0, v)).2

end AITB.CursorUtil

/-! ## `findVerticesNaive` (Utils/Polytope.hpp): the caller that relies on `advance()`'s return value -/
namespace AITB.CursorUtil

/-- `for (auto i = last; i < enumerator->size(); ++i) m.row(i + 1) = rowOf((*enumerator)[i]);` — rows below `last` are kept from the
    previous subset (`rows`), the others are recomputed from the new id vector; `f` = the row an id stands for (a plane or a simplex boundary) -/
def refreshRows {α : Type} (f : Nat → α) (rows : List α) (ids : List Nat) (last : Nat) : List α :=
  rows.take last ++ (ids.drop last).map f

end AITB.CursorUtil

namespace AITB.CursorUtil
/-- the scan of `sequential_sorted_contains(v, elems)` on the remaining suffixes (what the cursor loop computes; Props.C10Contains) -/
def recContains : List Nat → List Nat → Bool
  | _, [] => true
  | [], _ :: _ => false
  | x :: vs, e :: es => if x < e then recContains vs (e :: es) else if x > e then false else recContains vs es
end AITB.CursorUtil
