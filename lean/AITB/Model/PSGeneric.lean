/-
  AITB.Model.PSGeneric — the NON-Eigen branch of PrioritizedSweeping::stepUpdateQ as written (C11).  Core Lean only.

      double newQValue = 0;
      for ( size_t s1 = 0; s1 < S; ++s1 ) {
          const double probability = model_.getTransitionProbability(s,a,s1);
          if ( probability != 0.0 )
              newQValue += probability * ( model_.getExpectedReward(s,a,s1) + model_.getDiscount() * values[s1] );
      }
      qfun_(s, a) = newQValue;

  `R3 s a s1` is `getExpectedReward(s,a,s1)`.  Everything after the backup (value update, parent loop) is shared
  with the Eigen branch.  Operations mirror `PSOp`/`psRun` of AITB.Props.C11PS.
-/
import AITB.Model.Learners
namespace AITB.Learn

/-- the explicit loop over successor states, skipping exact zeros -/
def genericBackup (S : Nat) (γ : Rat) (T R3 v : Nat → Rat) : Rat :=
  sumTo S (fun s1 => if T s1 = 0 then 0 else T s1 * (R3 s1 + γ * v s1))

/-- PrioritizedSweeping::stepUpdateQ(s, a), generic-model branch -/
def psStepGen (m : MDP) (R3 : Nat → Nat → Nat → Rat) (θ : Rat) (st : PS) (s a : Nat) : PS :=
  let q' := upd st.q s a (genericBackup m.S m.γ (m.T s a) (R3 s a) st.v)
  let vs := maxA m.A (q' s)
  let p := absR (vs - st.v s)
  let v' := fun x => if x = s then vs else st.v x
  { q := q', v := v', queue := parentLoop m θ p s st.queue, done := (s, a) :: st.done }

/-- PrioritizedSweeping::batchUpdateQ, generic-model branch -/
def psBatchGen (m : MDP) (R3 : Nat → Nat → Nat → Rat) (θ : Rat) (sel : List QE → Nat) : Nat → PS → PS
  | 0, st => st
  | n+1, st =>
    match st.queue[sel st.queue]? with
    | none => st
    | some e => psBatchGen m R3 θ sel n (psStepGen m R3 θ { st with queue := removeAt st.queue (sel st.queue) } e.s e.a)

end AITB.Learn
