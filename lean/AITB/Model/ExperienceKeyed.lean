/-
  AITB.Model.ExperienceKeyed — the FACTORED experience classes at the level of their own API (property C07, round 3).

  `AITB.Model.Experience` models every class as a table of independent pairs addressed by a pair index.  For the flat
  classes the index is the Eigen subscript `(s, a)`; for the factored classes the library COMPUTES the index from the
  call's arguments with shared helpers one level below the anchored files:

    Factored::Bandit::Experience::record(a, rews)        aId = toIndexPartial(bases[i].tag, A, a)          (src/Factored/Utils/Core.cpp)
    CooperativeExperience::record(s, a, s1, rews)        id  = graph_.getId(i, s, a)                       (src/Factored/Utils/BayesianNetwork.cpp)
    CooperativeMaximumLikelihoodModel::sync(s, a)        j   = getGraph().getId(i, s, a);  sync(indeces): j = indeces[i]
    …::getTransitionProbability(s, a, s1)                Π_i transitions[i](getId(i, s, a), s1[i])
    …::getExpectedReward(s, a, ·)                        Σ_i rewards_[i][getId(i, s, a)]

  Here an operation carries the call's ARGUMENTS (the key); `KOp.toOp idx` resolves the key to a pair index with the index
  function of the code (`DDNGraph.getId` / `toIndexPartial` of AITB.Model.FactoredAlg / AITB.Model.Factored — the loop forms),
  while the specification side (`KOp.ctxProject ctx`) never computes an index: a record belongs to the table row of a query
  iff both have the same *context* (the values of the parent agents and of the parent features).  Core Lean only.
-/
import AITB.Model.Experience
import AITB.Model.FactoredAlg
namespace AITB.Exp
open AITB.Factored

/-! ### one table addressed by keys -/

/-- operation on one table of pairs, addressed by the call's arguments `K` -/
inductive KOp (K : Type) where
  | record (k : K) (s1 : Nat) (r : Rat)
  | syncAll
  /-- `sync(s, a)`: the row is found from the key -/
  | sync (k : K)
  /-- `sync(indeces)`: the row is given as a raw index `j`; `k` is ghost (the key whose `record` returned `j`) -/
  | syncAt (j : Nat) (k : K)
  | reset
  | ctor (b : Bool)
  deriving Repr, Inhabited

/-- what the code does: resolve the key with the library's index function -/
def KOp.toOp {K : Type} (idx : K → Nat) : KOp K → Op
  | .record k s1 r => .record (idx k) s1 r
  | .syncAll => .syncAll
  | .sync k => .sync (idx k)
  | .syncAt j _ => .sync j
  | .reset => .reset
  | .ctor b => .ctor b

/-- what the property says: the local history of the row of context `c` is made of the calls whose key has context `c` -/
def KOp.ctxProject {K C : Type} [DecidableEq C] (ctx : K → C) (c : C) : KOp K → LOp
  | .record k s1 r => if ctx k = c then .record s1 r else .nop
  | .syncAll => .sync
  | .sync k => if ctx k = c then .sync else .nop
  | .syncAt _ k => if ctx k = c then .sync else .nop
  | .reset => .reset
  | .ctor b => .ctor b

/-- the records (next value, reward) with context `c` since the last `reset`, by definition -/
def recsOf {K C : Type} [DecidableEq C] (ctx : K → C) (c : C) : List (KOp K) → List (Nat × Rat) → List (Nat × Rat)
  | [], acc => acc
  | .record k s1 r :: t, acc => recsOf ctx c t (if ctx k = c then acc ++ [(s1, r)] else acc)
  | .reset :: t, _ => recsOf ctx c t []
  | _ :: t, acc => recsOf ctx c t acc

/-- does the call record into row `j`? -/
def KOp.recordsAt {K : Type} (idx : K → Nat) (j : Nat) : KOp K → Bool
  | .record k _ _ => decide (idx k = j)
  | _ => false

/-- well-formed call: keys valid (`ok`), next value in range, a raw index is the one `record` returned for its key -/
def KOp.WF {K : Type} (idx : K → Nat) (ok : K → Prop) (w : Nat) : KOp K → Prop
  | .record k s1 _ => ok k ∧ s1 < w
  | .sync k => ok k
  | .syncAt j k => ok k ∧ j = idx k
  | _ => True

/-! ### the driver's oracle: the specification state of every context, maintained call by call

    The correspondence driver cannot afford to recompute `Ghost.init.run (h.map (ctxProject ctx c))` for every context after every
    call; it keeps one `Ghost` per context seen so far plus one for "a context no keyed call has touched yet" (which only sees the
    table-wide calls).  `AITB.Props.C07Keyed.oracle_sound` proves this bookkeeping computes exactly the specification state. -/

/-- what a call means for a context none of whose keys has been used yet -/
def KOp.globalLOp {K : Type} : KOp K → LOp
  | .syncAll => .sync
  | .reset => .reset
  | .ctor b => .ctor b
  | _ => .nop

def KOp.key? {K : Type} : KOp K → Option K
  | .record k _ _ => some k
  | .sync k => some k
  | .syncAt _ k => some k
  | _ => none

structure Oracle (C : Type) where
  entries : List (C × Ghost)
  fresh : Ghost
  deriving Inhabited

def Oracle.init {C : Type} : Oracle C := { entries := [], fresh := Ghost.init }

def Oracle.has {C : Type} [DecidableEq C] (o : Oracle C) (c : C) : Bool := o.entries.any (fun e => decide (e.1 = c))

def Oracle.ghostOf {C : Type} [DecidableEq C] (o : Oracle C) (c : C) : Ghost :=
  match o.entries.find? (fun e => decide (e.1 = c)) with
  | some e => e.2
  | none => o.fresh

def Oracle.step {K C : Type} [DecidableEq C] (ctx : K → C) (o : Oracle C) (op : KOp K) : Oracle C :=
  let es := match op.key? with
    | some k => if o.has (ctx k) then o.entries else o.entries ++ [(ctx k, o.fresh)]
    | none => o.entries
  { entries := es.map (fun e => (e.1, e.2.step (op.ctxProject ctx e.1))), fresh := o.fresh.step op.globalLOp }

def Oracle.run {K C : Type} [DecidableEq C] (ctx : K → C) (o : Oracle C) (h : List (KOp K)) : Oracle C := h.foldl (Oracle.step ctx) o

/-! ### Factored::MDP::Cooperative{Experience, MaximumLikelihoodModel} -/

/-- a call of the cooperative classes, with its arguments -/
inductive FOp where
  | record (s a s1 : List Nat) (rews : List Rat)
  | syncAll
  | syncSA (s a : List Nat)
  /-- `sync(indeces)` with the vector `record(s, a, …)` returned -/
  | syncIdx (ids : List Nat) (s a : List Nat)
  | reset
  | ctor (b : Bool)
  deriving Repr, Inhabited

/-- the part of a call that concerns feature `i`: `s1[i]`, `rew[i]`, `indeces[i]` -/
def FOp.toKOp (i : Nat) : FOp → KOp (List Nat × List Nat)
  | .record s a s1 rews => .record (s, a) (s1.getD i 0) (rews.getD i 0)
  | .syncAll => .syncAll
  | .syncSA s a => .sync (s, a)
  | .syncIdx ids s a => .syncAt (ids.getD i 0) (s, a)
  | .reset => .reset
  | .ctor b => .ctor b

/-- `graph_.getId(i, s, a)` (loop form: AITB.Model.FactoredAlg) -/
def coopIdx (g : DDNGraph) (i : Nat) (k : List Nat × List Nat) : Nat := g.getId i k.1 k.2

/-- the `indeces_` vector `record` returns -/
def coopIds (g : DDNGraph) (s a : List Nat) : List Nat := (List.range g.S.length).map (fun i => g.getId i s a)

/-- SPECIFICATION: the context of `(s, a)` for feature `i` — the actions of the feature's parent agents, and the values of the
    parent features that joint action selects (`features` lists one tag per joint action of the parent agents, first agent
    least significant: the structural mixed-radix value `toIndex`, no accumulator loop, no `startIds_`) -/
def ctxOf (g : DDNGraph) (i : Nat) (k : List Nat × List Nat) : List Nat × List Nat :=
  let av := sel (g.ps i).agents k.2
  (av, sel ((g.ps i).features.getD (toIndex (sel (g.ps i).agents g.A) av) []) k.1)

/-- what `DDNGraph::push` checks about the parent set of feature `i` (Boolean form of `AITB.Factored.ParentsOK`) -/
def parentsOKB (g : DDNGraph) (i : Nat) : Bool :=
  (g.ps i).agents.all (fun k => decide (k < g.A.length)) && (g.ps i).features.length == spacePartial (g.ps i).agents g.A &&
  (g.ps i).features.all (fun f => f.all (fun k => decide (k < g.S.length)))

/-- the arguments of a call are inside the documented preconditions (full state / joint action inside their spaces) -/
def FOp.validB (g : DDNGraph) : FOp → Bool
  | .record s a s1 _ => AITB.Factored.validB g.S s && AITB.Factored.validB g.A a && AITB.Factored.validB g.S s1
  | .syncSA s a => AITB.Factored.validB g.S s && AITB.Factored.validB g.A a
  | .syncIdx _ s a => AITB.Factored.validB g.S s && AITB.Factored.validB g.A a
  | _ => true

structure CoopWorld where
  /-- `timesteps_` -/
  ts : Nat
  /-- one table per state feature: `getSize(i)` rows of width `S[i]`; the default row is column 0 -/
  tables : List World
  deriving Repr, Inhabited

def CoopWorld.init (g : DDNGraph) : CoopWorld :=
  { ts := 0, tables := (List.range g.S.length).map (fun i => World.init (g.getSize i) (g.S.getD i 0) (fun _ => 0)) }

def CoopWorld.step (cfg : Cfg) (g : DDNGraph) (cw : CoopWorld) (op : FOp) : CoopWorld :=
  { ts := (match op with | .record .. => cw.ts + 1 | .reset => 0 | _ => cw.ts),
    tables := mapIdxFrom (fun i (w : World) => w.step cfg ((op.toKOp i).toOp (coopIdx g i))) 0 cw.tables }

def CoopWorld.run (cfg : Cfg) (g : DDNGraph) (cw : CoopWorld) (h : List FOp) : CoopWorld := h.foldl (CoopWorld.step cfg g) cw

def CoopWorld.pair (cw : CoopWorld) (i j : Nat) : Pair := (cw.tables.getD i default).pairs.getD j default

/-- `CooperativeMaximumLikelihoodModel::getTransitionProbability(s, a, s1)` = `DDN::getTransitionProbability`:
    `retval = 1.0; for i: retval *= transitions[i](graph.getId(i, s, a), s1[i])` -/
def coopTransProb (g : DDNGraph) (cw : CoopWorld) (s a s1 : List Nat) : Rat :=
  (List.range g.S.length).foldl (fun acc i => acc * nthQ (cw.pair i (g.getId i s a)).row (s1.getD i 0)) 1

/-- `getExpectedReward(s, a, ·)`: `retval = 0.0; for i: retval += rewards_[i][getId(i, s, a)]` -/
def coopExpReward (g : DDNGraph) (cw : CoopWorld) (s a : List Nat) : Rat :=
  (List.range g.S.length).foldl (fun acc i => acc + (cw.pair i (g.getId i s a)).rew) 0

/-! ### Factored::Bandit::Experience -/

/-- `toIndexPartial(qfun_.bases[i].tag, A, a)` -/
def fbIdx (A : List Nat) (dep : List Nat) (a : List Nat) : Nat := toIndexPartial dep A a

/-- SPECIFICATION: the local joint action of basis `i` -/
def fbCtx (dep : List Nat) (a : List Nat) : List Nat := sel dep a

/-- `record(a, rews)` for basis `i` (a bandit has no next state: column 0 of a zero-width row) -/
def fbRecord (i : Nat) (a : List Nat) (rews : List Rat) : KOp (List Nat) := .record a 0 (rews.getD i 0)

end AITB.Exp
