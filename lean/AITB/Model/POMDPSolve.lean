/-
  AITB.Model.POMDPSolve — round 3 additions to the C02 model.  Core Lean only.

  Modelled code (paths relative to the library root):
    src/POMDP/Utils.cpp                      makeValueFunction (one list holding the zero vector), weakBoundDistance (as written: for every NEW
                                             vector the distance to its closest OLD vector, start +inf / min; the largest of those, start 0 / max)
    include/AIToolbox/POMDP/Algorithms/{IncrementalPruning,Witness,LinearSupport}.hpp
                                             the outer loop shared by the three solvers:
                                               useTolerance = checkDifferentSmall(tolerance_, 0.0); variation = tolerance_ * 2;
                                               while ( timestep < horizon_ && ( !useTolerance || variation > tolerance_ ) ) { ++timestep; …;
                                                 v.emplace_back(w); if ( useTolerance ) variation = weakBoundDistance(v[timestep-1], v[timestep]); }
                                               return make_tuple(useTolerance ? variation : 0.0, v);
                                             (one timestep's work is the parameter `step`, which may depend on the timestep)
    include/AIToolbox/POMDP/Algorithms/LinearSupport.hpp   the acceptance test `diff > tolerance_ && checkDifferentGeneral(diff, tolerance_)`
    include/AIToolbox/POMDP/Algorithms/Witness.hpp         the `reserveSize` doubling bookkeeping (index arithmetic only)

  Checker for clause (ii) on ALL beliefs (`checkExactChain`): besides "every returned vector is a backup of the previous returned list"
  (`checkBackupStep`) it demands, for every vector β of the FULL backup of the previous list, multipliers λ ≥ 0, Σλ = 1 with Σ λ_i α_i ≥ β
  componentwise over the returned α_i.  The multipliers are found by an untrusted exact simplex in the driver; soundness
  (`AITB.POMDP.checkExactChain_sound`, Props/C02c.lean): accepted ⇒ the returned surface EQUALS expectimax at every belief.
-/
import AITB.Model.POMDP

namespace AITB.POMDP
open AITB.MDP (sumTo maxTo argmaxTo Vec mkVec absR)

/-! ## weakBoundDistance -/

/-- `(newVE.values - oldVE.values).cwiseAbs().maxCoeff()` (n ≥ 1 entries) -/
def vdist (n : Nat) (a b : Vec) : Rat := maxTo (n - 1) (fun s => absR (a.get s - b.get s))

/-- `closestDistance = std::min(closestDistance, distance)` over the old list; `none` = +infinity -/
def closestAcc (n : Nat) (nv : Vec) : List Vec → Option Rat → Option Rat
  | [], c => c
  | ov :: r, none => closestAcc n nv r (some (vdist n nv ov))
  | ov :: r, some x => closestAcc n nv r (some (if vdist n nv ov < x then vdist n nv ov else x))

/-- `distance = std::max(distance, closestDistance)` over the new list -/
def wbdAcc (n : Nat) (old : List Vec) : List Vec → Rat → Rat
  | [], d => d
  | nv :: r, d =>
    match closestAcc n nv old none with
    | none => wbdAcc n old r d                         -- unreachable for a non-empty old list
    | some c => wbdAcc n old r (if d < c then c else d)

/-- `weakBoundDistance(oldV, newV)` -/
def wbd (n : Nat) (old new : List Vec) : Rat :=
  if old.isEmpty then 0 else wbdAcc n old new 0

/-! ## the solvers' outer loop -/

/-- `while ( timestep < horizon_ && ( !useTolerance || variation > tolerance_ ) )`; fuel = horizon_ − timestep, `t` = timestep,
    `last` = v[timestep]; returns the lists appended and the final `variation` -/
def outerGo (n : Nat) (step : Nat → List Vec → List Vec) (useTol : Bool) (tol : Rat) :
    Nat → Nat → Rat → List Vec → List (List Vec) × Rat
  | 0, _, var, _ => ([], var)
  | f+1, t, var, last =>
    if !useTol || decide (tol < var) then
      let cur := step (t + 1) last
      let var' := if useTol then wbd n last cur else var
      let r := outerGo n step useTol tol f (t + 1) var' cur
      (cur :: r.1, r.2)
    else ([], var)

/-- `checkDifferentSmall(tolerance_, 0.0)` -/
def useTolerance (τ tol : Rat) : Bool := decide (τ < absR (tol - 0))

/-- the value both solvers' `operator()` return: (useTolerance ? variation : 0.0, v) with v[0] = makeValueFunction(S)[0] -/
def solveOuter (n : Nat) (step : Nat → List Vec → List Vec) (τ tol : Rat) (horizon : Nat) : Rat × List (List Vec) :=
  let r := outerGo n step (useTolerance τ tol) tol horizon 0 (tol * 2) [vzero n]
  (if useTolerance τ tol then r.2 else 0, [vzero n] :: r.1)

/-- the lists a tolerance-free run appends: step 1 .. step f from `last` -/
def iterFrom (step : Nat → List Vec → List Vec) : Nat → Nat → List Vec → List (List Vec)
  | 0, _, _ => []
  | f+1, t, last => step (t + 1) last :: iterFrom step f (t + 1) (step (t + 1) last)

/-- `diff > tolerance_ && checkDifferentGeneral(diff, tolerance_)` (LinearSupport's test for queueing a vertex) -/
def lsAccept (tol : Rat) (diff : Rat) : Bool := decide (tol < diff) && !(AITB.MDP.checkEqualGeneral diff tol)

/-! ## Witness: the LP row reservation (`reserveSize`, `counter`) — pure index arithmetic

  per timestep: `reserveSize = max(reserveSize, 2 * v[timestep-1].size())`; per action `counter = 0`, `lp.allocate(reserveSize)`; after every
  vector added: `if ( ++counter == reserveSize ) { reserveSize *= 2; lp.allocate(reserveSize); }`.
  `wReserveAction r k` = reserveSize after an action that adds k vectors, starting from reserveSize r (counter from 0). -/
def wReserveAction (r : Nat) : Nat → Nat → Nat
  | 0, _ => r
  | k+1, counter =>
    if counter + 1 == r then wReserveAction (2 * r) k (counter + 1) else wReserveAction r k (counter + 1)

/-! ## Witness' per-action loop with the repair of fixes/C02-4 as a flag (`guard = false`: as shipped = `wStep`) -/

/-- `wStep` with the repair of fixes/C02-4 when `guard`: a witness point whose best vector is already in U is treated like "no witness" -/
def wStepG (guard : Bool) (n k : Nat) (P : Nat → List Vec) (oracle : List Vec → Vec → Option Vec) (best : Vec → Choice) (st : WState) : WState :=
  match st.agenda with
  | [] => st
  | v :: rest =>
    match oracle (st.U.map (choiceSum n k P)) (choiceSum n k P v) with
    | some w =>
      if guard && (st.U.map (choiceSum n k P)).contains (choiceSum n k P (best w)) then ⟨st.U, rest, st.tried⟩
      else
        let r := addVars (allVars k P (best w)) (v :: rest) st.tried
        ⟨st.U ++ [best w], r.1, r.2⟩
    | none => ⟨st.U, rest, st.tried⟩

def wLoopG (guard : Bool) (n k : Nat) (P : Nat → List Vec) (oracle : List Vec → Vec → Option Vec) (best : Vec → Choice) : Nat → WState → WState
  | 0, st => st
  | f+1, st => wLoopG guard n k P oracle best f (wStepG guard n k P oracle best st)

/-! ## certificates of completeness: the returned list dominates every vector of the full backup -/

/-- Σ_i λ_i α_i(s) over the zipped lists -/
def mixAtS (lam : List Rat) (cur : List Vec) (s : Nat) : Rat := ((lam.zip cur).map (fun p => p.1 * p.2.get s)).sum

/-- λ ≥ 0, Σλ = 1, one multiplier per vector, Σ λ_i α_i ≥ β on the first n entries -/
def domBy (n : Nat) (cur : List Vec) (lam : List Rat) (β : Vec) : Bool :=
  lam.length == cur.length && lam.all (fun x => decide (0 ≤ x)) && decide (lam.sum = 1) &&
  allLt n (fun s => decide (β.get s ≤ mixAtS lam cur s))

/-- every vector of the full backup of `prev` (by position) has a certificate in `cert` (by the same position) -/
def coverStep (m : Model) (τ : Rat) (prev cur : List Vec) (cert : Nat → List Rat) : Bool :=
  let full := backupAll m τ prev
  allLt full.length (fun i => domBy m.S cur (cert i) (full.getD i (vzero m.S)))

/-- `checkChain` plus a cover certificate per timestep -/
def checkExactChain (m : Model) (τ : Rat) : List Vec → List (List Vec) → List (Nat → List Rat) → Bool
  | _, [], _ => true
  | _, _ :: _, [] => false
  | prev, cur :: rest, c :: cs => checkBackupStep m τ prev cur && coverStep m τ prev cur c && checkExactChain m τ cur rest cs

/-- ε-version for one LinearSupport timestep run with a positive tolerance: Σ λ_i α_i ≥ β − ε -/
def domByEps (n : Nat) (ε : Rat) (cur : List Vec) (lam : List Rat) (β : Vec) : Bool :=
  lam.length == cur.length && lam.all (fun x => decide (0 ≤ x)) && decide (lam.sum = 1) &&
  allLt n (fun s => decide (β.get s - ε ≤ mixAtS lam cur s))

end AITB.POMDP
