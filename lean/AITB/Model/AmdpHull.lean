/-
  AITB.Model.AmdpHull — checker for the rewards of an AMDP discretisation (property C06, round 3): the reward the library
  stores for (bucket s, action a) must lie between the smallest and the largest expected reward of the beliefs that
  contributed to that bucket (0 included: unvisited buckets keep R = 0, and discretizeSparse drops near-zero rewards).
  "Finite" (round 1) says the derived MDP has rewards; this says they are the POMDP's rewards, averaged.  Core Lean only.
-/
import AITB.Model.ModelState
namespace AITB.MS
open AITB

/-- the contributions `discretize*` accumulates into row (s, a): mass above the tolerance -/
def evsOf (evs : List Ev) (s a : Nat) : List Ev := evs.filter (fun e => e.keep && (e.a == a && e.s == s))

def minQ (x : Rat) (l : List Rat) : Rat := l.foldl (fun m y => if y < m then y else m) x
def maxQ (x : Rat) (l : List Rat) : Rat := l.foldl (fun m y => if m < y then y else m) x

/-- `r` is finite and within `slack` of the interval spanned by 0 and the contributing beliefs' expected rewards -/
def rewardHullB (slack : Rat) (evs : List Ev) (s a : Nat) (r : XRat) : Bool :=
  match r with
  | .fin q =>
      let rs := (evsOf evs s a).map (·.r)
      decide (minQ 0 rs - slack ≤ q) && decide (q ≤ maxQ 0 rs + slack)
  | _ => false

end AITB.MS
