/-
  AITB.Model.Trie — executable model of the rule indexes (C20).  Core Lean only.

    src/Factored/Utils/Trie.cpp         `Trie`       (namespace AITB.Trie, structure `T`)
    src/Factored/Utils/FasterTrie.cpp   `FasterTrie` (structure `FT`)
    include/.../FilterMap.hpp, IndexMap.hpp          (structure `FM`)
    and the specification they are proved against (`Spec`: a list of (id, partial assignment)).

  Representation is the code's: `ids_[factor][value]` sorted id lists with one extra last list per
  factor for the entries that do not name the factor ("unnamed", `ids_[factor].back()`), `counter_`.
  A `PartialFactors` (parallel key / value vectors) is a list of (key, value) pairs.

  Two places of the C++ read outside a container on some inputs (DESIGN §12 #9, #10).  They are
  modelled as written, controlled by flags which `tools/extract_c20.py` regenerates from the source
  text on every run (`AITB.Gen.C20`): functions that can hit such a read return `Option` and `none`
  means "undefined behaviour (out-of-bounds read)".
    * `firstBound = true` : `Trie::size` / `Trie::getAllIds` iterate `i < ids_[0].size()` over the
      lists of the *smallest* factor;   `false` : they iterate over that factor's own size.
    * `tailGuard = false` : the tail loop of `Trie::erase(id, pf)` tests `*it == id` without
      `it != end`;   `true` : the test is guarded like the ones in the main loop.
  `std::lower_bound`, `std::inplace_merge`, `std::upper_bound` are modelled by their specification
  on sorted ranges (linear scans); vectors are lists.
-/
namespace AITB.Trie

abbrev PF := List (Nat × Nat)
abbrev Row := List (List Nat)
abbrev Ids := List Row

/-- value a partial assignment gives to factor `i`, if it names it -/
def lookup : PF → Nat → Option Nat
  | [], _ => none
  | (k, v) :: r, i => if k = i then some v else lookup r i

/-! ### Specification: list of (id, key) in insertion order -/

abbrev Spec := List (Nat × PF)

/-- entry `e` does not contradict query `q` -/
def compatB (e q : PF) : Bool :=
  q.all (fun kv => match lookup e kv.1 with | none => true | some v => v == kv.2)

def specInsert (es : Spec) (id : Nat) (pf : PF) : Spec := es ++ [(id, pf)]
def specErase (es : Spec) (id : Nat) : Spec := List.filter (fun e => e.1 != id) es
def specFilter (es : Spec) (q : PF) : List Nat := (List.filter (fun e => compatB e.2 q) es).map (·.1)
def specIds (es : Spec) : List Nat := es.map (·.1)
def specRefine (es : Spec) (ids : List Nat) (q : PF) : List Nat :=
  if q.isEmpty then ids else List.filter (fun id => (specFilter es q).contains id) ids

/-- consecutive keys `offset, offset+1, …` for `Trie::filter(const Factors &, size_t offset)` -/
def prefixPF (offset : Nat) : List Nat → PF
  | [] => []
  | v :: vs => (offset, v) :: prefixPF (offset + 1) vs

/-- canonical form used by the driver to compare id answers as sets-with-multiplicity -/
def sortN (l : List Nat) : List Nat := l.mergeSort (fun a b => decide (a ≤ b))
/-- the clause "the answer is exactly the specification's id set, no id twice" as evaluated on the implementation's output -/
def sameIds (impl spec : List Nat) : Bool := sortN impl == sortN spec

/-! ### Trie -/

structure T where
  F : List Nat
  counter : Nat
  ids : Ids
deriving Repr, BEq

/-- `Trie::Trie(Factors)` (`none` = throws `invalid_argument`) -/
def T.mk? (F : List Nat) : Option T :=
  if F.length < 2 then none else some ⟨F, 0, F.map (fun d => List.replicate (d + 1) [])⟩

def row (ids : Ids) (i : Nat) : Row := ids.getD i []
def cell (ids : Ids) (i s : Nat) : List Nat := (row ids i).getD s []
/-- index of `ids_[i].back()` -/
def backIdx (ids : Ids) (i : Nat) : Nat := (row ids i).length - 1
/-- slot addressed by a visit: `some v` = `ids_[i][v]`, `none` = `ids_[i].back()` -/
def slotIdx (ids : Ids) (i : Nat) : Option Nat → Nat
  | some v => v
  | none => backIdx ids i

def modCell (ids : Ids) (i s : Nat) (f : List Nat → List Nat) : Ids :=
  ids.modify i (fun r => r.modify s f)

/-- The main loop shared by `insert` and `erase(id, pf)`:
    `for (i = 0; i < pf.size(); ++factor) { if (factor < pf.first[i]) {unnamed; continue;} value = pf.second[i++]; named at *factor* }`.
    Unrolled per key: unnamed visits for `factor .. k-1`, then a named visit at `max factor k`
    (= `k` for ascending keys).  Returns the visits in order and the value of `factor` at loop exit. -/
def walkKeys : Nat → PF → List (Nat × Option Nat) × Nat
  | factor, [] => ([], factor)
  | factor, (k, v) :: rest =>
      let gap := (List.range' factor (k - factor)).map (fun i => (i, (none : Option Nat)))
      let a := max factor k
      let r := walkKeys (a + 1) rest
      (gap ++ (a, some v) :: r.1, r.2)

/-- the tail loop `for ( ; factor < F.size(); ++factor )`: unnamed visits -/
def walkTail (n factor : Nat) : List (Nat × Option Nat) :=
  (List.range' factor (n - factor)).map (fun i => (i, (none : Option Nat)))

def pushAt (c : Nat) (ids : Ids) (vis : Nat × Option Nat) : Ids :=
  modCell ids vis.1 (slotIdx ids vis.1 vis.2) (fun l => l ++ [c])

/-- `Trie::insert` -/
def T.insert (t : T) (pf : PF) : T × Nat :=
  let w := walkKeys 0 pf
  let ids1 := w.1.foldl (pushAt t.counter) t.ids
  let ids2 := (walkTail t.F.length w.2).foldl (pushAt t.counter) ids1
  ({ t with ids := ids2, counter := t.counter + 1 }, t.counter)

/-- `it = lower_bound(l, id)`: the elements before `it` and the range starting at `it` -/
def lowerBound (id : Nat) : List Nat → List Nat × List Nat
  | [] => ([], [])
  | x :: xs => if x < id then let r := lowerBound id xs; (x :: r.1, r.2) else ([], x :: xs)

/-- `it = lower_bound(l,id); if (it != end && *it == id) l.erase(it)`; also tells whether it erased -/
def eraseLB (id : Nat) (l : List Nat) : List Nat × Bool :=
  match lowerBound id l with
  | (pre, x :: post) => if x = id then (pre ++ post, true) else (l, false)
  | (_, []) => (l, false)

/-- the tail-loop variant: `if (*it == id)` — with `guard = false` dereferencing `end` is UB (`none`) -/
def eraseLBTail (guard : Bool) (id : Nat) (l : List Nat) : Option (List Nat) :=
  match lowerBound id l with
  | (pre, x :: post) => if x = id then some (pre ++ post) else some l
  | (_, []) => if guard then some l else none

/-- one row of `Trie::erase(id)`: scan the lists from the last (unnamed) to the first, erase from
    the first list that contains the id and stop. Argument is the reversed row. -/
def eraseRowRev (id : Nat) : Row → Row
  | [] => []
  | c :: cs => let r := eraseLB id c; if r.2 then r.1 :: cs else c :: eraseRowRev id cs

/-- `Trie::erase(size_t id)` -/
def T.erase (t : T) (id : Nat) : T :=
  { t with ids := t.ids.map (fun r => (eraseRowRev id r.reverse).reverse) }

def eraseAt (id : Nat) (ids : Ids) (vis : Nat × Option Nat) : Ids :=
  modCell ids vis.1 (slotIdx ids vis.1 vis.2) (fun l => (eraseLB id l).1)

def eraseTailAt (guard : Bool) (id : Nat) (acc : Option Ids) (vis : Nat × Option Nat) : Option Ids :=
  match acc with
  | none => none
  | some ids =>
    let s := slotIdx ids vis.1 vis.2
    match eraseLBTail guard id (cell ids vis.1 s) with
    | none => none
    | some l => some (modCell ids vis.1 s (fun _ => l))

/-- `Trie::erase(size_t id, const PartialFactors & pf)`; `none` = UB (end iterator dereferenced) -/
def T.erasePF (tailGuard : Bool) (t : T) (id : Nat) (pf : PF) : Option T :=
  let w := walkKeys 0 pf
  let ids1 := w.1.foldl (eraseAt id) t.ids
  match (walkTail t.F.length w.2).foldl (eraseTailAt tailGuard id) (some ids1) with
  | none => none
  | some ids2 => some { t with ids := ids2 }

/-- `std::min_element(F) - begin(F)`: index of the first minimum -/
def minIdxGo : List Nat → Nat → Nat → Nat → Nat
  | [], _, _, best => best
  | x :: xs, i, bestV, best => if x < bestV then minIdxGo xs (i + 1) x i else minIdxGo xs (i + 1) bestV best
def minIdx : List Nat → Nat
  | [] => 0
  | x :: xs => minIdxGo xs 1 x 0

/-- number of lists the `size` / `getAllIds` loops run over -/
def loopBound (firstBound : Bool) (t : T) : Nat :=
  if firstBound then (row t.ids 0).length else (row t.ids (minIdx t.F)).length

/-- `Σ_{i in is} r[i].size()`, `none` if some `r[i]` is out of range -/
def sumCells (r : Row) : List Nat → Option Nat
  | [] => some 0
  | i :: is => match r[i]? with
      | none => none
      | some c => (sumCells r is).map (c.length + ·)

/-- `Trie::size` -/
def T.size (firstBound : Bool) (t : T) : Option Nat :=
  sumCells (row t.ids (minIdx t.F)) (List.range (loopBound firstBound t))

/-- merge of two ascending lists (`std::inplace_merge`; stable: left element first on ties) -/
def smerge : List Nat → List Nat → List Nat
  | [], ys => ys
  | xs, [] => xs
  | x :: xs, y :: ys => if y < x then y :: smerge (x :: xs) ys else x :: smerge xs (y :: ys)

def mergeCells (r : Row) : List Nat → Option (List Nat)
  | [] => some []
  | i :: is => match r[i]? with
      | none => none
      | some c => (mergeCells r is).map (fun acc => smerge c acc)

/-- `Trie::getAllIds` (the order in which the sorted lists are merged does not change the result;
    the model merges from the right) -/
def T.getAllIds (firstBound : Bool) (t : T) : Option (List Nat) :=
  mergeCells (row t.ids (minIdx t.F)) (List.range (loopBound firstBound t))

/-- `Filter`: the remaining named and unnamed ranges -/
structure Filt where
  named : List Nat
  unnamed : List Nat
deriving Repr, BEq

def Filt.size (f : Filt) : Nat := f.named.length + f.unnamed.length
def Filt.isValid (f : Filt) : Bool := decide (0 < f.size)
def Filt.has (f : Filt) (id : Nat) : Bool := f.named.contains id || f.unnamed.contains id
/-- the ids a filter yields by `getMin` / `stepAdvance` until exhausted -/
def Filt.merged (f : Filt) : List Nat := smerge f.named f.unnamed

/-- `filters.insert(std::upper_bound(begin, end, filter), filter)` with `operator<` = fewer ids -/
def insertBySize (f : Filt) : List Filt → List Filt
  | [] => [f]
  | g :: gs => if f.size < g.size then f :: g :: gs else g :: insertBySize f gs

/-- `applyFilters`, content level: the ids of the first (smallest) filter present in all others,
    ascending.  (The cursor-level loop is `applyCursor` below.) -/
def applyFilters : List Filt → List Nat
  | [] => []
  | f0 :: rest => f0.merged.filter (fun id => rest.all (fun g => g.has id))

/-- the loop building the filters; `none` = early `return {}` on an empty candidate range -/
def buildFilters (ids : Ids) : PF → List Filt → Option (List Filt)
  | [], acc => some acc
  | (k, v) :: q, acc =>
      let f : Filt := ⟨cell ids k v, cell ids k (backIdx ids k)⟩
      if f.isValid then buildFilters ids q (insertBySize f acc) else none

/-- `Trie::filter(const PartialFactors &)` (outer `none` = UB inside `getAllIds`) -/
def T.filter (firstBound : Bool) (t : T) (q : PF) : Option (List Nat) :=
  if q.isEmpty then t.getAllIds firstBound else
  match buildFilters t.ids q [] with
  | none => some []
  | some fs => some (applyFilters fs)

/-- `Trie::filter(const Factors & f, size_t offset)` -/
def T.filterF (firstBound : Bool) (t : T) (f : List Nat) (offset : Nat) : Option (List Nat) :=
  t.filter firstBound (prefixPF offset f)

/-- `Trie::refine` -/
def T.refine (t : T) (ids : List Nat) (q : PF) : List Nat :=
  if ids.isEmpty || q.isEmpty then ids else
  match buildFilters t.ids q [⟨[], ids⟩] with
  | none => []
  | some fs => applyFilters fs

/-! #### cursor-level `applyFilters` (the k-way intersection loop as written) -/

def dropLt (v : Nat) : List Nat → List Nat
  | [] => []
  | x :: xs => if x < v then dropLt v xs else x :: xs

/-- `Filter::advance(value)`: both ranges to their `lower_bound(value)` -/
def Filt.advance (f : Filt) (v : Nat) : Filt := ⟨dropLt v f.named, dropLt v f.unnamed⟩

/-- `Filter::stepAdvance` -/
def Filt.step (f : Filt) : Filt :=
  match f.named, f.unnamed with
  | [], u => ⟨[], u.drop 1⟩
  | n, [] => ⟨n.drop 1, []⟩
  | a :: n, b :: u => if a < b then ⟨n, b :: u⟩ else ⟨a :: n, u⟩

/-- `Filter::getMin` (0 when invalid: never used then) -/
def Filt.getMin (f : Filt) : Nat :=
  match f.named, f.unnamed with
  | [], [] => 0
  | [], b :: _ => b
  | a :: _, [] => a
  | a :: _, b :: _ => min a b

structure Cur where
  fs : List Filt
  lastMaxFound : Nat
  counter : Nat
  currentMax : Nat
  out : List Nat

/-- first half of an iteration of the `while (true)` loop of `applyFilters`:
    `if (counter == filters.size()) { push currentMax; filters[0].stepAdvance(); if (!valid) break; currentMax = …; counter = 1; lastMaxFound = 0; }`
    (second component `false` = `break`) -/
def Cur.matchPart (c : Cur) : Cur × Bool :=
  if c.counter = c.fs.length then
    let f0 := (c.fs.getD 0 ⟨[], []⟩).step
    let c1 : Cur := { c with fs := c.fs.set 0 f0, out := c.out ++ [c.currentMax] }
    if !f0.isValid then (c1, false)
    else ({ c1 with lastMaxFound := 0, counter := 1, currentMax := f0.getMin }, true)
  else (c, true)

/-- second half: `filters[counter].advance(currentMax); if (!valid) break; currentId = getMin;
    if (currentId > currentMax) {currentMax = currentId; lastMaxFound = counter; counter = 0;} else if (++counter == lastMaxFound) ++counter;` -/
def Cur.advPart (c : Cur) : Cur × Bool :=
  let fc := (c.fs.getD c.counter ⟨[], []⟩).advance c.currentMax
  let c1 : Cur := { c with fs := c.fs.set c.counter fc }
  if !fc.isValid then (c1, false) else
  let cid := fc.getMin
  if cid > c.currentMax then
    ({ c1 with currentMax := cid, lastMaxFound := c.counter, counter := 0 }, true)
  else
    let k := c.counter + 1
    ({ c1 with counter := if k = c.lastMaxFound then k + 1 else k }, true)

/-- one iteration of the loop (≥ 2 filters) -/
def Cur.iter (c : Cur) : Cur × Bool :=
  let r := c.matchPart
  if r.2 then r.1.advPart else r

def Cur.run : Nat → Cur → List Nat
  | 0, c => c.out
  | fuel + 1, c => let r := c.iter; if r.2 then Cur.run fuel r.1 else r.1.out

/-- `applyFilters` as written, with explicit fuel (every iteration consumes an id of some range or
    moves `counter`; `Σ sizes · (n+2) + n + 2` iterations suffice) -/
def applyCursor (fs : List Filt) : List Nat :=
  match fs with
  | [] => []
  | [f] => f.merged
  | f0 :: _ =>
    let total := (fs.map Filt.size).sum
    Cur.run ((total + 1) * (fs.length + 2) + 2)
      { fs := fs, lastMaxFound := 0, counter := 1, currentMax := f0.getMin, out := [] }

/-- `Trie::filter` with the cursor-level loop -/
def T.filterCursor (firstBound : Bool) (t : T) (q : PF) : Option (List Nat) :=
  if q.isEmpty then t.getAllIds firstBound else
  match buildFilters t.ids q [] with
  | none => some []
  | some fs => some (applyCursor fs)

def T.refineCursor (t : T) (ids : List Nat) (q : PF) : List Nat :=
  if ids.isEmpty || q.isEmpty then ids else
  match buildFilters t.ids q [⟨[], ids⟩] with
  | none => []
  | some fs => applyCursor fs

/-! ### FasterTrie -/

abbrev Entry := Nat × PF
abbrev Bucket := List Entry

structure FT where
  F : List Nat
  counter : Nat
  keys : List (List Bucket)
deriving Repr, BEq

def FT.new (F : List Nat) : FT := ⟨F, 0, F.map (fun d => List.replicate d [])⟩

def bucket (keys : List (List Bucket)) (i v : Nat) : Bucket := (keys.getD i []).getD v []

def modBucket (keys : List (List Bucket)) (i v : Nat) (f : Bucket → Bucket) : List (List Bucket) :=
  keys.modify i (fun r => r.modify v f)

/-- `FasterTrie::insert` (`none`: the key is empty — `pf.first[0]` is read unconditionally) -/
def FT.insert (t : FT) (pf : PF) : Option (FT × Nat) :=
  match pf with
  | [] => none
  | (k, v) :: _ =>
    some ({ t with keys := modBucket t.keys k v (fun b => b ++ [(t.counter, pf)]), counter := t.counter + 1 }, t.counter)

/-- `swap(keys[i], keys.back()); keys.pop_back()` at the first `i` with `keys[i].first == id` -/
def swapPop (id : Nat) : Bucket → Bucket
  | [] => []
  | e :: r =>
    if e.1 = id then
      match r.getLast? with
      | none => []
      | some l => l :: r.dropLast
    else e :: swapPop id r

/-- `FasterTrie::erase(id, pf)` -/
def FT.erase (t : FT) (id : Nat) (pf : PF) : Option FT :=
  match pf with
  | [] => none
  | (k, v) :: _ => some { t with keys := modBucket t.keys k v (swapPop id) }

/-- `FasterTrie::insert` on any key, with the source's handling of an empty one (`AITB.Gen.C20.ftEmptyKeyGuard`):
    outer `none` = undefined behaviour (`pf.first[0]` of an empty vector), inner `none` = throws `invalid_argument` -/
def FT.insertG (guard : Bool) (t : FT) (pf : PF) : Option (Option (FT × Nat)) :=
  match pf with
  | [] => if guard then some none else none
  | _ :: _ => (t.insert pf).map some

/-- `FasterTrie::erase(id, pf)` likewise: with the guard an empty key is a no-op -/
def FT.eraseG (guard : Bool) (t : FT) (id : Nat) (pf : PF) : Option FT :=
  match pf with
  | [] => if guard then some t else none
  | _ :: _ => t.erase id pf

/-- body of `matchPartial`'s loop over the keys after the first -/
def matchGo (f : List Nat) : PF → Bool
  | [] => true
  | (k, v) :: r => if f.length ≤ k then true else if f.getD k 0 != v then false else matchGo f r

/-- `matchPartial(f, pf, j)`: `for (i = 1; i < j && i < pf.size(); ++i)` -/
def matchPartial (f : List Nat) (pf : PF) (j : Nat) : Bool := matchGo f ((pf.drop 1).take (j - 1))

/-- `FasterTrie::filter(const Factors & f)` -/
def FT.filter (t : FT) (f : List Nat) : List Nat :=
  let part1 := (List.range f.length).flatMap (fun i =>
    ((bucket t.keys i (f.getD i 0)).filter (fun e => matchPartial f e.2 (f.length - i))).map (·.1))
  let part2 := (List.range' f.length (t.keys.length - f.length)).flatMap (fun i =>
    (t.keys.getD i []).flatMap (fun b => b.map (·.1)))
  part1 ++ part2

/-- `FasterTrie::size` -/
def FT.size (t : FT) : Nat :=
  (t.keys.map (fun r => (r.map List.length).sum)).sum

/-! #### reconstruct.  The three `std::shuffle`s are an external choice: an oracle (list of naturals)
    drives a selection permutation, so every shuffle outcome is reachable and every oracle gives a
    permutation. -/

def removeNth {α} : List α → Nat → List α
  | [], _ => []
  | _ :: xs, 0 => xs
  | x :: xs, n + 1 => x :: removeNth xs n

/-- selection shuffle: repeatedly take element `c % len` -/
def permute {α} [Inhabited α] : Nat → List Nat → List α → List α × List Nat
  | 0, o, _ => ([], o)
  | _ + 1, o, [] => ([], o)
  | fuel + 1, o, x :: xs =>
    let l := x :: xs
    let c := o.headD 0 % l.length
    let r := permute fuel (o.drop 1) (removeNth l c)
    (l.getD c default :: r.1, r.2)

def shuffle {α} [Inhabited α] (o : List Nat) (l : List α) : List α × List Nat := permute l.length o l

/-- entry key does not contradict the partially built assignment `f` (`f[i] = F[i]` means unset) -/
def entryMatches (F f : List Nat) (e : PF) : Bool :=
  e.all (fun kv => !(f.getD kv.1 0 < F.getD kv.1 0 && kv.2 != f.getD kv.1 0))

def assign (f : List Nat) (e : PF) : List Nat := e.foldl (fun f kv => f.set kv.1 kv.2) f

structure RState where
  f : List Nat
  entries : List Entry
  done : Bool

/-- scan of one (already shuffled) bucket without removal: left to right -/
def scanKeep (F : List Nat) : Bucket → RState → RState
  | [], s => s
  | e :: r, s =>
    if entryMatches F s.f e.2 then scanKeep F r { f := assign s.f e.2, entries := s.entries ++ [e], done := true }
    else scanKeep F r s

/-- scan with `remove = true`: a matching entry is moved out, the last element takes its place and
    is examined next.  `pre` = entries already examined and kept (reversed), `rest` = from `k` on. -/
def scanRemove (F : List Nat) : Nat → List Entry → Bucket → RState → Bucket × RState
  | 0, pre, rest, s => (pre.reverse ++ rest, s)
  | _ + 1, pre, [], s => (pre.reverse, s)
  | fuel + 1, pre, e :: r, s =>
    if entryMatches F s.f e.2 then
      let s' : RState := { f := assign s.f e.2, entries := s.entries ++ [e], done := true }
      match r.getLast? with
      | none => (pre.reverse, s')
      | some l => scanRemove F fuel pre (l :: r.dropLast) s'
    else scanRemove F fuel (e :: pre) r s

/-- the `do … while` over the values of factor `o` (in order `vals`) -/
def reconValues (F : List Nat) (remove : Bool) (o : Nat) :
    List Nat → List (List Bucket) → RState → List Nat → List (List Bucket) × RState × List Nat
  | [], keys, s, orc => (keys, s, orc)
  | v :: vs, keys, s, orc =>
    let sh := shuffle orc (bucket keys o v)
    let b := sh.1
    let r : Bucket × RState := if remove then scanRemove F (b.length + 1) [] b s else (b, scanKeep F b s)
    let keys' := modBucket keys o v (fun _ => r.1)
    if r.2.done then (keys', r.2, sh.2) else reconValues F remove o vs keys' r.2 sh.2

def reconFactors (F : List Nat) (remove : Bool) :
    List Nat → List (List Bucket) → RState → List Nat → List (List Bucket) × RState × List Nat
  | [], keys, s, orc => (keys, s, orc)
  | o :: os, keys, s, orc =>
    if s.f.getD o 0 < F.getD o 0 then
      let r := reconValues F remove o [s.f.getD o 0] keys { s with done := true } orc
      reconFactors F remove os r.1 { r.2.1 with done := false } r.2.2
    else
      let sh := shuffle orc (List.range (F.getD o 0))
      let r := reconValues F remove o sh.1 keys { s with done := false } sh.2
      reconFactors F remove os r.1 { r.2.1 with done := false } r.2.2

/-- `FasterTrie::reconstruct(pf, remove)` under oracle `orc` -/
def FT.reconstruct (t : FT) (q : PF) (remove : Bool) (orc : List Nat) : FT × List Entry × List Nat :=
  let f0 := assign t.F q
  let sh := shuffle orc (List.range t.F.length)
  let r := reconFactors t.F remove sh.1 t.keys { f := f0, entries := [], done := false } sh.2
  ({ t with keys := r.1 }, r.2.1.entries, r.2.1.f)

/-! ### FilterMap / IndexMap -/

/-- `FilterMap<T, Trie>`: the trie and the item container (items are naturals in the model) -/
structure FM where
  trie : T
  items : List Nat

def FM.emplace (m : FM) (pf : PF) (x : Nat) : FM := ⟨(m.trie.insert pf).1, m.items ++ [x]⟩
/-- iterating the `IndexMap` returned by `filter`: `items_[id]` for each returned id -/
def FM.filter (firstBound : Bool) (m : FM) (q : PF) : Option (List Nat) :=
  (m.trie.filter firstBound q).map (fun ids => ids.map (fun id => m.items.getD id 0))
def FM.size (m : FM) : Nat := m.items.length

structure FMF where
  trie : FT
  items : List Nat
def FMF.emplace (m : FMF) (pf : PF) (x : Nat) : Option FMF :=
  (m.trie.insert pf).map (fun r => ⟨r.1, m.items ++ [x]⟩)
def FMF.filter (m : FMF) (f : List Nat) : List Nat := (m.trie.filter f).map (fun id => m.items.getD id 0)

/-! #### the rest of FilterMap's interface -/

/-- `FilterMap(TrieType t, ItemsContainer c)`: outer `none` = UB inside `Trie::size`; inner `none` = throws `invalid_argument`
    (`ids_.size() != items_.size()`) -/
def FM.ofTrie (firstBound : Bool) (t : T) (items : List Nat) : Option (Option FM) :=
  (t.size firstBound).map (fun n => if n != items.length then none else some ⟨t, items⟩)
def FMF.ofTrie (t : FT) (items : List Nat) : Option FMF :=
  if t.size != items.length then none else some ⟨t, items⟩
/-- `operator[](id)`: `items_[id]` (`none` = outside the container) -/
def FM.get (m : FM) (id : Nat) : Option Nat := m.items[id]?
/-- `begin() … end()` / `getContainer()`: all items in emplacement order -/
def FM.all (m : FM) : List Nat := m.items
/-- reading the `IndexMap` a filter returns, with bounds: `none` where an id leaves the item container -/
def FM.filterChecked (firstBound : Bool) (m : FM) (q : PF) : Option (List (Option Nat)) :=
  (m.trie.filter firstBound q).map (fun ids => ids.map (fun id => m.items[id]?))

/-- `FilterMap(trie, items)` with the id-range test of fixes/C20-4 after the size test:
    `for (id : ids_.filter(Factors{})) if (id >= items_.size()) throw` -/
def FM.ofTrieChecked (firstBound : Bool) (t : T) (items : List Nat) : Option (Option FM) :=
  (t.size firstBound).bind (fun n =>
    if n != items.length then some none else
      (t.getAllIds firstBound).map (fun ids => if ids.all (fun id => decide (id < items.length)) then some ⟨t, items⟩ else none))
def FMF.ofTrieChecked (t : FT) (items : List Nat) : Option FMF :=
  if t.size != items.length then none else
  if (t.filter []).all (fun id => decide (id < items.length)) then some ⟨t, items⟩ else none

/-! ### the library's own vocabulary for "compatible" (src/Factored/Utils/Core.cpp), used by the callers of the indexes -/

/-- `match(lhsK, lhs, rhsK, rhs)`: two cursors over the ascending key lists (`i` on the longer list, `j` on the shorter one);
    `while (j < smaller.size() && i < bigger.size())`: `bigger[i] < smaller[j]` → `++i`; `>` → `++j`; equal keys: values differ → false, else both -/
def matchWalk : Nat → PF → PF → Bool
  | 0, _, _ => true
  | _ + 1, [], _ => true
  | _ + 1, _, [] => true
  | f + 1, (bk, bv) :: b, (sk, sv) :: s =>
    if bk < sk then matchWalk f b ((sk, sv) :: s)
    else if bk > sk then matchWalk f ((bk, bv) :: b) s
    else if bv != sv then false else matchWalk f b s

/-- `match(const PartialFactors & lhs, const PartialFactors & rhs)` (the shorter key list becomes `smaller`) -/
def matchPF (l r : PF) : Bool :=
  if l.length > r.length then matchWalk (l.length + r.length) l r else matchWalk (l.length + r.length) r l

/-- `match(const Factors & lhs, const PartialFactors & rhs)`: `lhs[k] == v` for every pair of `rhs` -/
def matchF (f : List Nat) (pf : PF) : Bool := pf.all (fun kv => f.getD kv.1 0 == kv.2)

/-- `merge(const PartialFactors & lhs, const PartialFactors & rhs)`: two-cursor merge of the key lists; on a shared key the right
    operand's pair is emitted and both cursors move; the unread tails are appended -/
def mergePF : Nat → PF → PF → PF
  | 0, l, r => l ++ r
  | _ + 1, [], r => r
  | _ + 1, l, [] => l
  | f + 1, (lk, lv) :: l, (rk, rv) :: r =>
    if lk < rk then (lk, lv) :: mergePF f l ((rk, rv) :: r)
    else (rk, rv) :: mergePF f (if lk = rk then l else (lk, lv) :: l) r

def mergePFs (l r : PF) : PF := mergePF (l.length + r.length) l r

end AITB.Trie
