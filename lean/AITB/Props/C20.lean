/-
  AITB.Props.C20 — property C20 "Rule indexes return exactly the matching entries".
  Main theorems about the models of Trie / FasterTrie / FilterMap (AITB.Model.Trie), for every factor
  space, every history, every query.  Helper layers: C20a (visits, cells), C20b (invariant), C20c (queries).
  Core Lean only; no Mathlib import is needed.
-/
import AITB.Props.C20c
import AITB.Gen.C20
namespace AITB.Trie

/-! ### Histories -/

inductive Op where
  | ins (pf : PF)
  | era (id : Nat)
  | erp (id : Nat) (pf : PF)

/-- specification side: stored entries and the next id -/
def specStep (s : Spec × Nat) : Op → Spec × Nat
  | .ins pf => (specInsert s.1 s.2 pf, s.2 + 1)
  | .era id => (specErase s.1 id, s.2)
  | .erp id _ => (specErase s.1 id, s.2)

def specRun (s : Spec × Nat) (ops : List Op) : Spec × Nat := ops.foldl specStep s

/-- model side (`tailGuard` as in the source); `none` = undefined behaviour was reached -/
def step (tailGuard : Bool) (st : Option T) : Op → Option T
  | .ins pf => st.map (fun t => (t.insert pf).1)
  | .era id => st.map (fun t => t.erase id)
  | .erp id pf => st.bind (fun t => t.erasePF tailGuard id pf)

def run (tailGuard : Bool) (t : T) (ops : List Op) : Option T := ops.foldl (step tailGuard) (some t)

/-- documented preconditions of one call: keys are valid partial assignments; `erase(id, key)` is
    given the key the id was stored with — or any key if the id is not stored (stale / never issued) -/
def OpOK (F : List Nat) (es : Spec) : Op → Prop
  | .ins pf => ValidPF F pf
  | .era _ => True
  | .erp id pf => ValidPF F pf ∧ ∀ e, (id, e) ∈ es → e = pf

def HistOK (F : List Nat) : Spec × Nat → List Op → Prop
  | _, [] => True
  | s, op :: ops => OpOK F s.1 op ∧ HistOK F (specStep s op) ops

theorem run_RI (F : List Nat) (ops : List Op) (t : T) (es : Spec) (h : RI t es) (hF : t.F = F)
    (hok : HistOK F (es, t.counter) ops) :
    ∃ t', run true t ops = some t' ∧ RI t' (specRun (es, t.counter) ops).1 ∧ t'.F = F ∧
      t'.counter = (specRun (es, t.counter) ops).2 := by
  induction ops generalizing t es with
  | nil => exact ⟨t, rfl, h, hF, rfl⟩
  | cons op ops ih =>
    obtain ⟨hop, hrest⟩ := hok
    cases op with
    | ins pf =>
      have hv : ValidPF t.F pf := by rw [hF]; exact hop
      obtain ⟨_, hF', hC', hR', _⟩ := insert_cells t pf h.shape hv
      have h' := RI_insert h hv
      rw [hR'] at h'
      have := ih (t.insert pf).1 _ h' (by rw [hF', hF]) (by rw [hC']; exact hrest)
      rw [hC'] at this
      exact this
    | era id =>
      exact ih (t.erase id) _ (RI_erase h id) hF hrest
    | erp id pf =>
      have hv : ValidPF t.F pf := by rw [hF]; exact hop.1
      obtain ⟨t', he, h'⟩ := RI_erasePF h id hv hop.2
      obtain ⟨_, he2, hF', hC', _, _⟩ := erasePF_cells t id pf h.shape hv
      rw [he] at he2; cases he2
      have := ih t' _ h' (by rw [hF', hF]) (by rw [hC']; exact hrest)
      rw [hC'] at this
      obtain ⟨t'', hr, rest⟩ := this
      refine ⟨t'', ?_, rest⟩
      simp only [run, List.foldl_cons, step, Option.bind_some, he]
      exact hr

theorem prefixPF_valid (F : List Nat) (f : List Nat) (off : Nat) (hlen : off + f.length ≤ F.length)
    (hv : ∀ j, j < f.length → f.getD j 0 < F.getD (off + j) 0) : ValidQ F (prefixPF off f) := by
  induction f generalizing off with
  | nil => intro kv hkv; cases hkv
  | cons v vs ih =>
    intro kv hkv
    simp only [prefixPF, List.mem_cons] at hkv
    simp only [List.length_cons] at hlen
    rcases hkv with rfl | hkv
    · exact ⟨by simp only; omega, by simpa using hv 0 (by simp)⟩
    · refine ih (off + 1) (by omega) (fun j hj => ?_) kv hkv
      have := hv (j + 1) (by simp only [List.length_cons]; omega)
      simp only [List.getD_cons_succ] at this
      rw [show off + 1 + j = off + (j + 1) by omega]
      exact this

/-- **C20, Trie** (`trie_refines_spec`).  For every factor space with ≥ 2 factors, every history of
    insert / erase(id) / erase(id, key) calls within the documented preconditions (stale and
    never-issued ids included), the model with the end-guarded `erase(id,key)` tail loop never reaches
    undefined behaviour, its state satisfies the representation invariant w.r.t. the specification's
    entry list, and every query returns *exactly* the specification's answer:
    * `filter` (any valid non-empty partial assignment, keys in any order) = ascending ids of the stored
      entries compatible with it; `filter(Factors, offset)` likewise;
    * `refine` of an ascending id list = its members whose stored entry is compatible;
    * with the loops of `size`/`getAllIds` bounded by the chosen factor's own list count:
      `size` = number of stored entries, `getAllIds` (empty query) = all stored ids. -/
theorem trie_refines_spec (F : List Nat) (t0 : T) (hmk : T.mk? F = some t0) (ops : List Op)
    (hok : HistOK F ([], 0) ops) :
    ∃ t, run true t0 ops = some t ∧ RI t (specRun ([], 0) ops).1 ∧
      (∀ fb q, ValidQ F q → q ≠ [] → t.filter fb q = some (specFilter (specRun ([], 0) ops).1 q)) ∧
      (∀ fb f off, f ≠ [] → off + f.length ≤ F.length → (∀ j, j < f.length → f.getD j 0 < F.getD (off + j) 0) →
          t.filterF fb f off = some (specFilter (specRun ([], 0) ops).1 (prefixPF off f))) ∧
      (∀ ids q, ids.Pairwise (· < ·) → ValidQ F q → t.refine ids q = specRefine (specRun ([], 0) ops).1 ids q) ∧
      t.size false = some (specRun ([], 0) ops).1.length ∧
      t.getAllIds false = some (specIds (specRun ([], 0) ops).1) ∧
      (∀ q, q = [] → t.filter false q = some (specFilter (specRun ([], 0) ops).1 q)) := by
  have h0 : RI t0 [] := RI_mk hmk
  have hF0 : t0.F = F ∧ t0.counter = 0 ∧ 2 ≤ F.length := by
    unfold T.mk? at hmk
    split at hmk
    · cases hmk
    · cases hmk; exact ⟨rfl, rfl, by omega⟩
  obtain ⟨t, hr, hRI, hF, _⟩ := run_RI F ops t0 [] h0 hF0.1 (by rw [hF0.2.1]; exact hok)
  rw [hF0.2.1] at hRI
  have hne : t.F ≠ [] := by rw [hF]; intro e; rw [e] at hF0; simp at hF0
  refine ⟨t, hr, hRI, ?_, ?_, ?_, size_spec hRI hne, getAllIds_spec hRI hne, ?_⟩
  · intro fb q hq hqne
    exact filter_spec hRI fb q (by rw [hF]; exact hq) hqne
  · intro fb f off hfne hlen hv
    have hq := prefixPF_valid F f off hlen hv
    have : prefixPF off f ≠ [] := by cases f with | nil => exact absurd rfl hfne | cons _ _ => simp [prefixPF]
    exact filter_spec hRI fb _ (by rw [hF]; exact hq) this
  · intro ids q hs hq
    exact refine_spec hRI ids hs q (by rw [hF]; exact hq)
  · intro q hq
    subst hq
    have : specFilter (specRun ([], 0) ops).1 [] = specIds (specRun ([], 0) ops).1 := by
      simp only [specFilter, specIds, compatB, List.all_nil]
      rw [List.filter_eq_self.mpr (fun _ _ => rfl)]
    rw [this]
    simpa [T.filter] using getAllIds_spec hRI hne

end AITB.Trie
