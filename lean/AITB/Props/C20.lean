/-
  AITB.Props.C20 — property C20 "Rule indexes return exactly the matching entries".
  Main theorems about the models of Trie / FasterTrie / FilterMap (AITB.Model.Trie), for every factor
  space, every history, every query.  Helper layers: C20a (visits, cells), C20b (invariant), C20c (queries).
  Core Lean only; no Mathlib import is needed.
-/
import AITB.Props.C20c
import AITB.Props.C20d
import AITB.Props.C20e
import AITB.Props.C20f
import AITB.Props.C20g
import AITB.Gen.C20
namespace AITB.Trie

/-! ### Histories -/

inductive Op where
  | ins (pf : PF)
  | era (id : Nat)
  | erp (id : Nat) (pf : PF)

/-- specification side: stored entries and the next id -/
def specStep (s : Spec × Nat) : Op → Spec × Nat
  | .ins pf => (specInsert s.1 s.2 pf, s.2 + 1)
  | .era id => (specErase s.1 id, s.2)
  | .erp id _ => (specErase s.1 id, s.2)

def specRun (s : Spec × Nat) (ops : List Op) : Spec × Nat := ops.foldl specStep s

/-- model side (`tailGuard` as in the source); `none` = undefined behaviour was reached -/
def step (tailGuard : Bool) (st : Option T) : Op → Option T
  | .ins pf => st.map (fun t => (t.insert pf).1)
  | .era id => st.map (fun t => t.erase id)
  | .erp id pf => st.bind (fun t => t.erasePF tailGuard id pf)

def run (tailGuard : Bool) (t : T) (ops : List Op) : Option T := ops.foldl (step tailGuard) (some t)

/-- documented preconditions of one call: keys are valid partial assignments; `erase(id, key)` is
    given the key the id was stored with — or any key if the id is not stored (stale / never issued) -/
def OpOK (F : List Nat) (es : Spec) : Op → Prop
  | .ins pf => ValidPF F pf
  | .era _ => True
  | .erp id pf => ValidPF F pf ∧ ∀ e, (id, e) ∈ es → e = pf

def HistOK (F : List Nat) : Spec × Nat → List Op → Prop
  | _, [] => True
  | s, op :: ops => OpOK F s.1 op ∧ HistOK F (specStep s op) ops

theorem run_RI (F : List Nat) (ops : List Op) (t : T) (es : Spec) (h : RI t es) (hF : t.F = F)
    (hok : HistOK F (es, t.counter) ops) :
    ∃ t', run true t ops = some t' ∧ RI t' (specRun (es, t.counter) ops).1 ∧ t'.F = F ∧
      t'.counter = (specRun (es, t.counter) ops).2 := by
  induction ops generalizing t es with
  | nil => exact ⟨t, rfl, h, hF, rfl⟩
  | cons op ops ih =>
    obtain ⟨hop, hrest⟩ := hok
    cases op with
    | ins pf =>
      have hv : ValidPF t.F pf := by rw [hF]; exact hop
      obtain ⟨_, hF', hC', hR', _⟩ := insert_cells t pf h.shape hv
      have h' := RI_insert h hv
      rw [hR'] at h'
      have := ih (t.insert pf).1 _ h' (by rw [hF', hF]) (by rw [hC']; exact hrest)
      rw [hC'] at this
      exact this
    | era id =>
      exact ih (t.erase id) _ (RI_erase h id) hF hrest
    | erp id pf =>
      have hv : ValidPF t.F pf := by rw [hF]; exact hop.1
      obtain ⟨t', he, h'⟩ := RI_erasePF h id hv hop.2
      obtain ⟨_, he2, hF', hC', _, _⟩ := erasePF_cells t id pf h.shape hv
      rw [he] at he2; cases he2
      have := ih t' _ h' (by rw [hF', hF]) (by rw [hC']; exact hrest)
      rw [hC'] at this
      obtain ⟨t'', hr, rest⟩ := this
      refine ⟨t'', ?_, rest⟩
      simp only [run, List.foldl_cons, step, Option.bind_some, he]
      exact hr

theorem prefixPF_valid (F : List Nat) (f : List Nat) (off : Nat) (hlen : off + f.length ≤ F.length)
    (hv : ∀ j, j < f.length → f.getD j 0 < F.getD (off + j) 0) : ValidQ F (prefixPF off f) := by
  induction f generalizing off with
  | nil => intro kv hkv; cases hkv
  | cons v vs ih =>
    intro kv hkv
    simp only [prefixPF, List.mem_cons] at hkv
    simp only [List.length_cons] at hlen
    rcases hkv with rfl | hkv
    · exact ⟨by simp only; omega, by simpa using hv 0 (by simp)⟩
    · refine ih (off + 1) (by omega) (fun j hj => ?_) kv hkv
      have := hv (j + 1) (by simp only [List.length_cons]; omega)
      simp only [List.getD_cons_succ] at this
      rw [show off + 1 + j = off + (j + 1) by omega]
      exact this

/-- **C20, Trie** (`trie_refines_spec`).  For every factor space with ≥ 2 factors, every history of
    insert / erase(id) / erase(id, key) calls within the documented preconditions (stale and
    never-issued ids included), the model with the end-guarded `erase(id,key)` tail loop never reaches
    undefined behaviour, its state satisfies the representation invariant w.r.t. the specification's
    entry list, and every query returns *exactly* the specification's answer:
    * `filter` (any valid non-empty partial assignment, keys in any order) = ascending ids of the stored
      entries compatible with it; `filter(Factors, offset)` likewise;
    * `refine` of an ascending id list = its members whose stored entry is compatible;
    * with the loops of `size`/`getAllIds` bounded by the chosen factor's own list count:
      `size` = number of stored entries, `getAllIds` (empty query) = all stored ids. -/
theorem trie_refines_spec (F : List Nat) (t0 : T) (hmk : T.mk? F = some t0) (ops : List Op)
    (hok : HistOK F ([], 0) ops) :
    ∃ t, run true t0 ops = some t ∧ RI t (specRun ([], 0) ops).1 ∧
      (∀ fb q, ValidQ F q → q ≠ [] → t.filter fb q = some (specFilter (specRun ([], 0) ops).1 q)) ∧
      (∀ fb f off, f ≠ [] → off + f.length ≤ F.length → (∀ j, j < f.length → f.getD j 0 < F.getD (off + j) 0) →
          t.filterF fb f off = some (specFilter (specRun ([], 0) ops).1 (prefixPF off f))) ∧
      (∀ ids q, ids.Pairwise (· < ·) → ValidQ F q → t.refine ids q = specRefine (specRun ([], 0) ops).1 ids q) ∧
      t.size false = some (specRun ([], 0) ops).1.length ∧
      t.getAllIds false = some (specIds (specRun ([], 0) ops).1) ∧
      (∀ q, q = [] → t.filter false q = some (specFilter (specRun ([], 0) ops).1 q)) := by
  have h0 : RI t0 [] := RI_mk hmk
  have hF0 : t0.F = F ∧ t0.counter = 0 ∧ 2 ≤ F.length := by
    unfold T.mk? at hmk
    split at hmk
    · cases hmk
    · cases hmk; exact ⟨rfl, rfl, by omega⟩
  obtain ⟨t, hr, hRI, hF, _⟩ := run_RI F ops t0 [] h0 hF0.1 (by rw [hF0.2.1]; exact hok)
  rw [hF0.2.1] at hRI
  have hne : t.F ≠ [] := by rw [hF]; intro e; rw [e] at hF0; simp at hF0
  refine ⟨t, hr, hRI, ?_, ?_, ?_, size_spec hRI hne, getAllIds_spec hRI hne, ?_⟩
  · intro fb q hq hqne
    exact filter_spec hRI fb q (by rw [hF]; exact hq) hqne
  · intro fb f off hfne hlen hv
    have hq := prefixPF_valid F f off hlen hv
    have : prefixPF off f ≠ [] := by cases f with | nil => exact absurd rfl hfne | cons _ _ => simp [prefixPF]
    exact filter_spec hRI fb _ (by rw [hF]; exact hq) this
  · intro ids q hs hq
    exact refine_spec hRI ids hs q (by rw [hF]; exact hq)
  · intro q hq
    subst hq
    have : specFilter (specRun ([], 0) ops).1 [] = specIds (specRun ([], 0) ops).1 := by
      simp only [specFilter, specIds, compatB, List.all_nil]
      rw [List.filter_eq_self.mpr (fun _ _ => rfl)]
    rw [this]
    simpa [T.filter] using getAllIds_spec hRI hne


/-! ### The code as written: unguarded tail loop of `erase(id, key)`, loop bound `ids_[0].size()` -/

theorem lowerBound_snd_of_mem (id : Nat) (l : List Nat) (h : id ∈ l) : ∃ x post, (lowerBound id l).2 = x :: post := by
  induction l with
  | nil => cases h
  | cons y ys ih =>
    simp only [lowerBound]
    split
    · rename_i hlt
      rcases List.mem_cons.mp h with rfl | h'
      · omega
      · exact ih h'
    · exact ⟨y, ys, rfl⟩

theorem eraseLBTail_of_mem (g : Bool) (id : Nat) (l : List Nat) (h : id ∈ l) : eraseLBTail g id l = eraseLBTail true id l := by
  obtain ⟨x, post, hx⟩ := lowerBound_snd_of_mem id l h
  unfold eraseLBTail
  cases hlb : lowerBound id l with
  | mk pre post' =>
    rw [hlb] at hx
    simp only at hx
    subst hx
    rfl

theorem walkKeys_bounds (pf : PF) (lo : Nat) (h : KeysAsc lo pf) :
    lo ≤ (walkKeys lo pf).2 ∧ (∀ i, (walkKeys lo pf).2 ≤ i → lookup pf i = none) ∧
    ∀ vis ∈ (walkKeys lo pf).1, vis.1 < (walkKeys lo pf).2 := by
  induction pf generalizing lo with
  | nil => exact ⟨Nat.le_refl _, fun i _ => rfl, fun vis hv => by cases hv⟩
  | cons kv r ih =>
    obtain ⟨k, v⟩ := kv
    simp only [KeysAsc] at h
    obtain ⟨i1, i2, i3⟩ := ih (k + 1) h.2
    have hmax : max lo k = k := Nat.max_eq_right h.1
    simp only [walkKeys, hmax]
    refine ⟨by omega, fun i hi => ?_, fun vis hv => ?_⟩
    · simp only [lookup]; rw [if_neg (by omega)]; exact i2 i hi
    · simp only [List.mem_append, List.mem_map, List.mem_cons, List.mem_range'_1] at hv
      rcases hv with ⟨j, hj, rfl⟩ | rfl | hv
      · simp only; omega
      · simp only; omega
      · exact i3 vis hv

theorem fold_applyAt_other (F : List Nat) (g : List Nat → List Nat) (vs : List (Nat × Option Nat)) (ids : Ids)
    (h : Shape F ids) (i : Nat) (hne : ∀ vis ∈ vs, vis.1 ≠ i) :
    Shape F (vs.foldl (applyAt g) ids) ∧ ∀ s, cell (vs.foldl (applyAt g) ids) i s = cell ids i s := by
  induction vs generalizing ids with
  | nil => exact ⟨h, fun _ => rfl⟩
  | cons v vs ih =>
    simp only [List.foldl_cons]
    obtain ⟨a, b⟩ := ih (applyAt g ids v) (shape_modCell h _ _ _) (fun vis hv => hne vis (List.mem_cons_of_mem _ hv))
    refine ⟨a, fun s => ?_⟩
    rw [b s]
    simp only [applyAt, cell_modCell]
    rw [if_neg (fun hh => hne v (List.mem_cons_self ..) hh.1)]

/-- the unguarded tail loop never dereferences `end` when the id is in every visited unnamed list -/
theorem fold_tail_unguarded (F : List Nat) (id : Nat) (m lo : Nat) (ids : Ids) (h : Shape F ids) (hm : lo + m ≤ F.length)
    (hin : ∀ i, lo ≤ i → i < lo + m → id ∈ cell ids i (F.getD i 0)) :
    ((List.range' lo m).map (fun i => (i, (none : Option Nat)))).foldl (eraseTailAt false id) (some ids) =
    ((List.range' lo m).map (fun i => (i, (none : Option Nat)))).foldl (eraseTailAt true id) (some ids) := by
  induction m generalizing lo ids with
  | zero => rfl
  | succ m ih =>
    simp only [List.range'_succ, List.map_cons, List.foldl_cons]
    have hlo : lo < F.length := by omega
    have hslot : slotIdx ids lo none = F.getD lo 0 := by rw [slotIdx_eq h hlo]; rfl
    have hstep : eraseTailAt false id (some ids) (lo, none) = eraseTailAt true id (some ids) (lo, none) := by
      simp only [eraseTailAt, hslot]
      rw [eraseLBTail_of_mem false id _ (hin lo (Nat.le_refl _) (by omega))]
    rw [hstep, eraseTailAt_true]
    apply ih (lo + 1) _ (shape_modCell h _ _ _) (by omega)
    intro i hi1 hi2
    simp only [cell_modCell]
    rw [if_neg (fun hh => by omega)]
    exact hin i (by omega) (by omega)

/-- **`erase(id, key)` as written** (`tailGuard = false`), partial form: when the id *is stored* with
    that key the unguarded tail loop behaves as the guarded one.
    Full-strength statement (`RI_erasePF`, any id not stored as well) holds for `tailGuard = true`
    only — see `erasePF_code_counterexample`. -/
theorem erasePF_code_partial {t : T} {es : Spec} (h : RI t es) (id : Nat) {pf : PF} (hv : ValidPF t.F pf)
    (hlive : (id, pf) ∈ es) : t.erasePF false id pf = t.erasePF true id pf := by
  obtain ⟨b1, b2, b3⟩ := walkKeys_bounds pf 0 hv.1
  have hnf : (walkKeys 0 pf).2 ≤ t.F.length ∨ t.F.length < (walkKeys 0 pf).2 := by omega
  have hmain := fun i (hi : (walkKeys 0 pf).2 ≤ i) => fold_applyAt_other t.F (fun l => (eraseLB id l).1) (walkKeys 0 pf).1 t.ids h.shape i
    (fun vis hvis => by have := b3 vis hvis; omega)
  have hS1 : Shape t.F ((walkKeys 0 pf).1.foldl (eraseAt id) t.ids) := by
    rw [eraseAt_eq]; exact (hmain _ (Nat.le_refl _)).1
  simp only [T.erasePF, walkTail]
  rcases hnf with hnf | hnf
  · rw [fold_tail_unguarded t.F id (t.F.length - (walkKeys 0 pf).2) (walkKeys 0 pf).2 _ hS1 (by omega)]
    intro i hi1 hi2
    rw [eraseAt_eq, (hmain i hi1).2]
    have hi : i < t.F.length := by omega
    apply (h.mem i _ id hi (Nat.le_refl _)).mpr
    exact ⟨pf, hlive, (slot_eq_unnamed hv i).mpr (b2 i hi1)⟩
  · have : t.F.length - (walkKeys 0 pf).2 = 0 := by omega
    rw [this]; rfl

/-- witness: shape {2,2}, one entry `{0:0}` with id 0; `erase(1, {0:0})` (id 1 was never issued)
    dereferences the end of factor 1's unnamed list -/
theorem erasePF_code_counterexample :
    ∃ t, T.mk? [2, 2] = some t ∧ ((t.insert [(0, 0)]).1.erasePF false 1 [(0, 0)]) = none := by
  refine ⟨_, rfl, ?_⟩
  decide

/-- witness: shape {3,2} (first factor not the smallest), one entry: `size()` and `getAllIds()` with
    the loop bound `ids_[0].size()` index the smaller factor's three lists up to 3 -/
theorem size_code_counterexample :
    ∃ t, T.mk? [3, 2] = some t ∧ (t.insert [(0, 1)]).1.size true = none ∧ (t.insert [(0, 1)]).1.getAllIds true = none := by
  refine ⟨_, rfl, ?_, ?_⟩ <;> decide

/-- the same states are fine with the repaired bounds / guard (test on literals) -/
example : ∃ t, T.mk? [3, 2] = some t ∧ (t.insert [(0, 1)]).1.size false = some 1 ∧
    ((t.insert [(0, 1)]).1.erasePF true 1 [(0, 1)]).isSome = true := by
  refine ⟨_, rfl, ?_, ?_⟩ <;> decide

/-- hypotheses of `trie_refines_spec` are satisfiable by a non-trivial history (insert, insert,
    erase with key, stale erase with key, erase of a never-issued id) -/
example : HistOK [3, 2] ([], 0) [.ins [(0, 1)], .ins [(0, 2), (1, 0)], .erp 0 [(0, 1)], .erp 0 [(0, 1)], .era 7, .ins []] := by
  simp [HistOK, OpOK, specStep, specInsert, specErase, ValidPF, KeysAsc]


/-! ### The model as the driver runs it: flags as extracted from the source *now*.
    Each statement is the full-strength one exactly when the extracted flag is the repaired form;
    otherwise it carries the hypothesis the code forces. -/

theorem size_as_extracted {t : T} {es : Spec} (h : RI t es) (x : Nat) (xs : List Nat) (hF : t.F = x :: xs)
    (hmin : Gen.C20.sizeFirstBound = true → ∀ y ∈ xs, x ≤ y) :
    t.size Gen.C20.sizeFirstBound = some es.length := by
  cases hfl : Gen.C20.sizeFirstBound with
  | false => exact size_spec h (by rw [hF]; simp)
  | true => exact (getAllIds_code_partial h x xs hF (hmin hfl)).2

theorem getAllIds_as_extracted {t : T} {es : Spec} (h : RI t es) (x : Nat) (xs : List Nat) (hF : t.F = x :: xs)
    (hmin : Gen.C20.allIdsFirstBound = true → ∀ y ∈ xs, x ≤ y) :
    t.getAllIds Gen.C20.allIdsFirstBound = some (specIds es) := by
  cases hfl : Gen.C20.allIdsFirstBound with
  | false => exact getAllIds_spec h (by rw [hF]; simp)
  | true => exact (getAllIds_code_partial h x xs hF (hmin hfl)).1

theorem erasePF_as_extracted {t : T} {es : Spec} (h : RI t es) (id : Nat) {pf : PF} (hv : ValidPF t.F pf)
    (hkey : ∀ e, (id, e) ∈ es → e = pf) (hlive : Gen.C20.eraseTailGuard = false → (id, pf) ∈ es) :
    ∃ t', t.erasePF Gen.C20.eraseTailGuard id pf = some t' ∧ RI t' (specErase es id) := by
  cases hfl : Gen.C20.eraseTailGuard with
  | true => exact RI_erasePF h id hv hkey
  | false => rw [erasePF_code_partial h id hv (hlive hfl)]; exact RI_erasePF h id hv hkey

/-! ### FilterMap<T, Trie> / IndexMap -/

/-- invariant of a FilterMap: the trie's ids are exactly the positions of the item container -/
def FMInv (m : FM) (es : Spec) : Prop :=
  RI m.trie es ∧ specIds es = List.range m.items.length ∧ m.trie.counter = m.items.length

theorem FMInv_new {F : List Nat} {t : T} (h : T.mk? F = some t) : FMInv ⟨t, []⟩ [] := by
  refine ⟨RI_mk h, rfl, ?_⟩
  unfold T.mk? at h
  split at h
  · cases h
  · cases h; rfl

theorem FMInv_emplace {m : FM} {es : Spec} (h : FMInv m es) {pf : PF} (hv : ValidPF m.trie.F pf) (x : Nat) :
    FMInv (m.emplace pf x) (specInsert es m.items.length pf) := by
  obtain ⟨hRI, hids, hc⟩ := h
  obtain ⟨_, _, hC', hR', _⟩ := insert_cells m.trie pf hRI.shape hv
  have := RI_insert hRI hv
  rw [hR', hc] at this
  refine ⟨this, ?_, ?_⟩
  · simp only [specIds, specInsert, List.map_append, List.map_cons, List.map_nil, FM.emplace, List.length_append,
      List.length_cons, List.length_nil, List.range_succ]
    rw [show List.map (fun x => x.fst) es = specIds es from rfl, hids]
  · simp only [FM.emplace, hC', hc, List.length_append, List.length_cons, List.length_nil]

/-- **FilterMap::filter**: iterating the returned IndexMap visits exactly the items emplaced with a key
    compatible with the query, in emplacement order; `size()` is the number of emplaced items -/
theorem filtermap_filter_spec {m : FM} {es : Spec} (h : FMInv m es) (fb : Bool) (q : PF) (hq : ValidQ m.trie.F q)
    (hne : q ≠ []) :
    m.filter fb q = some ((specFilter es q).map (fun id => m.items.getD id 0)) ∧
    (∀ id ∈ specFilter es q, id < m.items.length) ∧ m.size = es.length := by
  refine ⟨by simp only [FM.filter, filter_spec h.1 fb q hq hne, Option.map_some], ?_, ?_⟩
  · intro id hid
    obtain ⟨e, he, _⟩ := (mem_specFilter es q id).mp hid
    have := h.1.lt id e he
    rw [h.2.2] at this; exact this
  · have := congrArg List.length h.2.1
    simp only [specIds, List.length_map, List.length_range] at this
    simp only [FM.size, this]


/-! ### FasterTrie histories -/

inductive FOp where
  | ins (pf : PF)
  | erp (id : Nat) (pf : PF)

def fspecStep (s : Spec × Nat) : FOp → Spec × Nat
  | .ins pf => (specInsert s.1 s.2 pf, s.2 + 1)
  | .erp id _ => (specErase s.1 id, s.2)

def fstep (st : Option FT) : FOp → Option FT
  | .ins pf => st.bind (fun t => (t.insert pf).map (·.1))
  | .erp id pf => st.bind (fun t => t.erase id pf)

def FOpOK (F : List Nat) (es : Spec) : FOp → Prop
  | .ins pf => ValidPF F pf ∧ pf ≠ []
  | .erp id pf => ValidPF F pf ∧ pf ≠ [] ∧ ∀ e, (id, e) ∈ es → e = pf

def FHistOK (F : List Nat) : Spec × Nat → List FOp → Prop
  | _, [] => True
  | s, op :: ops => FOpOK F s.1 op ∧ FHistOK F (fspecStep s op) ops

theorem frun_RIF (F : List Nat) (ops : List FOp) (t : FT) (es : Spec) (h : RIF t es) (hF : t.F = F)
    (hok : FHistOK F (es, t.counter) ops) :
    ∃ t', ops.foldl fstep (some t) = some t' ∧ RIF t' (ops.foldl fspecStep (es, t.counter)).1 ∧ t'.F = F := by
  induction ops generalizing t es with
  | nil => exact ⟨t, rfl, h, hF⟩
  | cons op ops ih =>
    obtain ⟨hop, hrest⟩ := hok
    cases op with
    | ins pf =>
      obtain ⟨t', he, h'⟩ := RIF_insert h (by rw [hF]; exact hop.1) hop.2
      have hF' : t'.F = F := by
        cases pf with
        | nil => exact absurd rfl hop.2
        | cons kv r => simp only [FT.insert, Option.some.injEq, Prod.mk.injEq] at he; rw [← he.1]; exact hF
      have hC' : t'.counter = t.counter + 1 := by
        cases pf with
        | nil => exact absurd rfl hop.2
        | cons kv r => simp only [FT.insert, Option.some.injEq, Prod.mk.injEq] at he; rw [← he.1]
      obtain ⟨t'', hr, rest⟩ := ih t' _ h' hF' (by rw [hC']; exact hrest)
      refine ⟨t'', ?_, ?_⟩
      · simp only [List.foldl_cons, fstep, Option.bind_some, he, Option.map_some]; exact hr
      · rw [hC'] at rest; exact rest
    | erp id pf =>
      obtain ⟨t', he, h'⟩ := RIF_erase h id (by rw [hF]; exact hop.1) hop.2.1 hop.2.2
      have hFC : t'.F = F ∧ t'.counter = t.counter := by
        cases pf with
        | nil => exact absurd rfl hop.2.1
        | cons kv r => simp only [FT.erase, Option.some.injEq] at he; rw [← he]; exact ⟨hF, rfl⟩
      obtain ⟨t'', hr, rest⟩ := ih t' _ h' hFC.1 (by rw [hFC.2]; exact hrest)
      refine ⟨t'', ?_, ?_⟩
      · simp only [List.foldl_cons, fstep, Option.bind_some, he]; exact hr
      · rw [hFC.2] at rest; exact rest

/-- **C20, FasterTrie** (`fastertrie_refines_spec`): for every factor space, every history of
    insert / erase(id, key) calls within the preconditions (non-empty valid keys; stale or never-issued ids
    allowed in erase), the model never fails, and `filter(f)` for every full or prefix assignment `f` returns,
    as a set, exactly the ids of the stored entries compatible with `f`, each id once; `size()` is the
    number of stored entries; every stored key the reconstruction can meet is valid, so
    `reconstruct_compatible` applies in every reachable state. -/
theorem fastertrie_refines_spec (F : List Nat) (ops : List FOp) (hok : FHistOK F ([], 0) ops) :
    ∃ t, ops.foldl fstep (some (FT.new F)) = some t ∧ RIF t (ops.foldl fspecStep ([], 0)).1 ∧
      (∀ f id, f.length ≤ F.length → (∀ j, j < f.length → f.getD j 0 < F.getD j 0) →
        (id ∈ t.filter f ↔ id ∈ specFilter (ops.foldl fspecStep ([], 0)).1 (prefixPF 0 f))) ∧
      (∀ i v, ∀ e ∈ bucket t.keys i v, ValidPF t.F e.2) ∧
      (∀ f, (t.filter f).Nodup) ∧ t.size = (ops.foldl fspecStep ([], 0)).1.length := by
  obtain ⟨t, hr, hRI, hF⟩ := frun_RIF F ops (FT.new F) [] (RIF_new F) rfl hok
  refine ⟨t, hr, hRI, ?_, ?_, fun f => ft_filter_nodup hRI f, ft_size_spec hRI⟩
  · intro f id hlen hval
    exact ft_filter_mem hRI f (by rw [hF]; exact hlen) (by rw [hF]; exact hval) id
  · intro i v e he
    by_cases hi : i < t.F.length
    · by_cases hv : v < t.F.getD i 0
      · exact (hRI.valid e.1 e.2 ((hRI.mem i v e hi hv).mp he).1).1
      · have : bucket t.keys i v = [] := by
          show (t.keys.getD i []).getD v [] = []
          rw [List.getD_eq_getElem?_getD (l := t.keys.getD i []), List.getElem?_eq_none (by rw [hRI.shape.2 i hi]; omega)]; rfl
        rw [this] at he; cases he
    · have : bucket t.keys i v = [] := by
        show (t.keys.getD i []).getD v [] = []
        rw [List.getD_eq_getElem?_getD (l := t.keys), List.getElem?_eq_none (by rw [hRI.shape.1]; omega)]; rfl
      rw [this] at he; cases he

example : FHistOK [3, 2] ([], 0) [.ins [(0, 1)], .ins [(0, 2), (1, 0)], .erp 0 [(0, 1)], .erp 0 [(0, 1)], .erp 9 [(1, 1)]] := by
  simp [FHistOK, FOpOK, fspecStep, specInsert, specErase, ValidPF, KeysAsc]


/-- **C20, Trie, with the intersection loop as written**: in every reachable state the cursor-level
    `filter` / `refine` (the `applyFilters` loop with `counter`, `lastMaxFound`, `currentMax`, lower-bound
    advances) return the specification's answer too. -/
theorem trie_cursor_refines_spec (F : List Nat) (t0 : T) (hmk : T.mk? F = some t0) (ops : List Op)
    (hok : HistOK F ([], 0) ops) :
    ∃ t, run true t0 ops = some t ∧
      (∀ fb q, ValidQ F q → q ≠ [] → t.filterCursor fb q = some (specFilter (specRun ([], 0) ops).1 q)) ∧
      (∀ ids q, ids.Pairwise (· < ·) → ValidQ F q → t.refineCursor ids q = specRefine (specRun ([], 0) ops).1 ids q) := by
  obtain ⟨t, hr, hRI, hf, _, href, _⟩ := trie_refines_spec F t0 hmk ops hok
  have hF : t.F = F := by
    have h0 : RI t0 [] := RI_mk hmk
    have hF0 : t0.F = F ∧ t0.counter = 0 := by
      unfold T.mk? at hmk
      split at hmk
      · cases hmk
      · cases hmk; exact ⟨rfl, rfl⟩
    obtain ⟨t', hr', _, hF', _⟩ := run_RI F ops t0 [] h0 hF0.1 (by rw [hF0.2]; exact hok)
    rw [hr] at hr'; cases hr'; exact hF'
  refine ⟨t, hr, fun fb q hq hne => ?_, fun ids q hs hq => ?_⟩
  · rw [filterCursor_eq hRI fb q (by rw [hF]; exact hq)]; exact hf fb q hq hne
  · rw [refineCursor_eq hRI ids hs q (by rw [hF]; exact hq)]; exact href ids q hs hq


/-! ### FasterTrie histories that include reconstruct (any shuffle outcomes) -/

inductive FOp2 where
  | ins (pf : PF)
  | erp (id : Nat) (pf : PF)
  | recon (q : PF) (remove : Bool) (orc : List Nat)

/-- model and specification side by side; a reconstruction with removal takes the returned entries out of the store -/
def fstep2 (st : Option (FT × Spec)) : FOp2 → Option (FT × Spec)
  | .ins pf => st.bind (fun p => (p.1.insert pf).map (fun r => (r.1, specInsert p.2 r.2 pf)))
  | .erp id pf => st.bind (fun p => (p.1.erase id pf).map (fun t' => (t', specErase p.2 id)))
  | .recon q remove orc => st.map (fun p => ((p.1.reconstruct q remove orc).1, esAfter remove p.2 (p.1.reconstruct q remove orc).2.1))

def FOp2OK (F : List Nat) (es : Spec) : FOp2 → Prop
  | .ins pf => ValidPF F pf ∧ pf ≠ []
  | .erp id pf => ValidPF F pf ∧ pf ≠ [] ∧ ∀ e, (id, e) ∈ es → e = pf
  | .recon q _ _ => ValidPF F q

def FHist2OK (F : List Nat) : Option (FT × Spec) → List FOp2 → Prop
  | none, _ => False
  | some _, [] => True
  | some p, op :: ops => FOp2OK F p.2 op ∧ FHist2OK F (fstep2 (some p) op) ops

/-- **C20, FasterTrie, histories with reconstruct**: for every history of insert / erase(id,key) /
    reconstruct(q, remove) calls and *every* outcome of every shuffle, the index keeps holding exactly the
    specification's entries (those returned by a removing reconstruction are gone, nothing else is), so
    `ft_filter_mem`, `ft_filter_nodup`, `ft_size_spec` and `reconstruct_compatible` hold in every reachable state. -/
theorem fastertrie_refines_spec_reconstruct (F : List Nat) (ops : List FOp2) (t : FT) (es : Spec) (h : RIF t es) (hF : t.F = F)
    (hok : FHist2OK F (some (t, es)) ops) :
    ∃ t' es', ops.foldl fstep2 (some (t, es)) = some (t', es') ∧ RIF t' es' ∧ t'.F = F ∧
      (∀ f id, f.length ≤ F.length → (∀ j, j < f.length → f.getD j 0 < F.getD j 0) →
        (id ∈ t'.filter f ↔ id ∈ specFilter es' (prefixPF 0 f))) ∧
      (∀ f, (t'.filter f).Nodup) ∧ t'.size = es'.length ∧
      (∀ q remove orc, ValidPF F q →
        (∀ e ∈ (t'.reconstruct q remove orc).2.1, e ∈ es' ∧ compatB e.2 q = true) ∧
        (∀ e ∈ (t'.reconstruct q remove orc).2.1, ∀ e' ∈ (t'.reconstruct q remove orc).2.1, compatB e.2 e'.2 = true)) := by
  induction ops generalizing t es with
  | nil =>
    refine ⟨t, es, rfl, h, hF, ?_, fun f => ft_filter_nodup h f, ft_size_spec h, ?_⟩
    · intro f id hlen hval
      exact ft_filter_mem h f (by rw [hF]; exact hlen) (by rw [hF]; exact hval) id
    · intro q remove orc hq
      have hkeys : ∀ i v, ∀ e ∈ bucket t.keys i v, ValidPF t.F e.2 := by
        intro i v e he
        obtain ⟨hi, hv⟩ := bucket_in_range h.shape he
        exact (h.valid e.1 e.2 ((h.mem i v e hi hv).mp he).1).1
      obtain ⟨c1, c2, c3, _, _⟩ := reconstruct_compatible t q remove orc hkeys (by rw [hF]; exact hq)
      refine ⟨fun e he => ⟨?_, c2 e he⟩, c3⟩
      obtain ⟨i, v, hb⟩ := c1 e he
      obtain ⟨hi, hv⟩ := bucket_in_range h.shape hb
      exact ((h.mem i v e hi hv).mp hb).1
  | cons op ops ih =>
    obtain ⟨hop, hrest⟩ := hok
    cases op with
    | ins pf =>
      obtain ⟨t', he, h'⟩ := RIF_insert h (by rw [hF]; exact hop.1) hop.2
      have hF' : t'.F = F := by
        cases pf with
        | nil => exact absurd rfl hop.2
        | cons kv r => simp only [FT.insert, Option.some.injEq, Prod.mk.injEq] at he; rw [← he.1]; exact hF
      have hs : fstep2 (some (t, es)) (.ins pf) = some (t', specInsert es t.counter pf) := by
        simp only [fstep2, Option.bind_some, he, Option.map_some]
      rw [hs] at hrest
      simp only [List.foldl_cons, hs]
      exact ih t' _ h' hF' hrest
    | erp id pf =>
      obtain ⟨t', he, h'⟩ := RIF_erase h id (by rw [hF]; exact hop.1) hop.2.1 hop.2.2
      have hF' : t'.F = F := by
        cases pf with
        | nil => exact absurd rfl hop.2.1
        | cons kv r => simp only [FT.erase, Option.some.injEq] at he; rw [← he]; exact hF
      have hs : fstep2 (some (t, es)) (.erp id pf) = some (t', specErase es id) := by
        simp only [fstep2, Option.bind_some, he, Option.map_some]
      rw [hs] at hrest
      simp only [List.foldl_cons, hs]
      exact ih t' _ h' hF' hrest
    | recon q remove orc =>
      have h' := reconstruct_store h q remove orc
      have hs : fstep2 (some (t, es)) (.recon q remove orc) =
          some ((t.reconstruct q remove orc).1, esAfter remove es (t.reconstruct q remove orc).2.1) := rfl
      rw [hs] at hrest
      simp only [List.foldl_cons, hs]
      exact ih _ _ h' hF hrest


/-- the history theorem applies from the empty index, e.g. insert, insert, removing reconstruction -/
example : FHist2OK [3, 2] (some (FT.new [3, 2], [])) [.ins [(0, 1)], .ins [(0, 2), (1, 0)], .recon [(1, 0)] true [2, 1]] := by
  simp [FHist2OK, FOp2OK, fstep2, FT.insert, FT.new, specInsert, ValidPF, KeysAsc]


/-! ### FilterMap<T, FasterTrie> -/

def FMFInv (m : FMF) (es : Spec) : Prop :=
  RIF m.trie es ∧ specIds es = List.range m.items.length ∧ m.trie.counter = m.items.length

theorem FMFInv_new (F : List Nat) : FMFInv ⟨FT.new F, []⟩ [] := ⟨RIF_new F, rfl, rfl⟩

theorem FMFInv_emplace {m : FMF} {es : Spec} (h : FMFInv m es) {pf : PF} (hv : ValidPF m.trie.F pf) (hne : pf ≠ []) (x : Nat) :
    ∃ m', m.emplace pf x = some m' ∧ FMFInv m' (specInsert es m.items.length pf) := by
  obtain ⟨hRI, hids, hc⟩ := h
  obtain ⟨t', he, h'⟩ := RIF_insert hRI hv hne
  refine ⟨⟨t', m.items ++ [x]⟩, by simp only [FMF.emplace, he, Option.map_some], ?_, ?_, ?_⟩
  · rw [hc] at h'; exact h'
  · simp only [specIds, specInsert, List.map_append, List.map_cons, List.map_nil, List.length_append,
      List.length_cons, List.length_nil, List.range_succ]
    rw [show List.map (fun x => x.fst) es = specIds es from rfl, hids]
  · cases pf with
    | nil => exact absurd rfl hne
    | cons kv r =>
      simp only [FT.insert, Option.some.injEq, Prod.mk.injEq] at he
      rw [← he.1]
      simp only [List.length_append, List.length_cons, List.length_nil]
      rw [← hc]

/-- **FilterMap over FasterTrie**: iterating the result of `filter(f)` visits, each exactly once, the items
    emplaced with a key compatible with `f` -/
theorem filtermapF_filter_spec {m : FMF} {es : Spec} (h : FMFInv m es) (f : List Nat) (hlen : f.length ≤ m.trie.F.length)
    (hval : ∀ j, j < f.length → f.getD j 0 < m.trie.F.getD j 0) :
    ∃ ids : List Nat, m.filter f = ids.map (fun id => m.items.getD id 0) ∧ ids.Nodup ∧
      (∀ id, id ∈ ids ↔ id ∈ specFilter es (prefixPF 0 f)) ∧ ∀ id ∈ ids, id < m.items.length := by
  refine ⟨m.trie.filter f, rfl, ft_filter_nodup h.1 f, fun id => ft_filter_mem h.1 f hlen hval id, fun id hid => ?_⟩
  obtain ⟨e, he, _⟩ := (mem_specFilter es _ id).mp ((ft_filter_mem h.1 f hlen hval id).mp hid)
  have := h.1.lt id e he
  rw [h.2.2] at this; exact this


/-- **checker soundness** (L3): when the driver's `sameIds` accepts an implementation answer, that answer is a
    rearrangement of the specification's (duplicate-free) id list — no omission, no spurious id, no id twice -/
theorem sameIds_sound (impl spec : List Nat) (h : sameIds impl spec = true) : impl.Perm spec := by
  simp only [sameIds, beq_iff_eq, sortN] at h
  exact (List.mergeSort_perm impl _).symm.trans (h ▸ List.mergeSort_perm spec _)


/-! ### the assignment returned by reconstruct is the merge of the query and the returned entries, in order -/

def mergeAll (f0 : List Nat) (ents : List Entry) : List Nat := ents.foldl (fun f e => assign f e.2) f0

def FInv (f0 : List Nat) (s : RState) : Prop := s.f = mergeAll f0 s.entries

theorem FInv_step {f0 : List Nat} {s : RState} (h : FInv f0 s) (e : Entry) (d : Bool) :
    FInv f0 { f := assign s.f e.2, entries := s.entries ++ [e], done := d } := by
  unfold FInv mergeAll at *
  simp only [List.foldl_append, List.foldl_cons, List.foldl_nil]
  rw [← h]

theorem scanKeep_finv (F f0 : List Nat) (b : Bucket) (s : RState) (h : FInv f0 s) : FInv f0 (scanKeep F b s) := by
  induction b generalizing s with
  | nil => exact h
  | cons e r ih =>
    simp only [scanKeep]
    split
    · exact ih _ (FInv_step h e true)
    · exact ih _ h

theorem scanRemove_finv (F f0 : List Nat) (fuel : Nat) (pre rest : List Entry) (s : RState) (h : FInv f0 s) :
    FInv f0 (scanRemove F fuel pre rest s).2 := by
  induction fuel generalizing pre rest s with
  | zero => exact h
  | succ fuel ih =>
    cases rest with
    | nil => exact h
    | cons e r =>
      simp only [scanRemove]
      split
      · cases hl : r.getLast? with
        | none => exact FInv_step h e true
        | some l => exact ih _ _ _ (FInv_step h e true)
      · exact ih _ _ _ h

theorem reconValues_finv (F f0 : List Nat) (remove : Bool) (o : Nat) (vs : List Nat) (keys : List (List Bucket)) (s : RState)
    (orc : List Nat) (h : FInv f0 s) : FInv f0 (reconValues F remove o vs keys s orc).2.1 := by
  induction vs generalizing keys s orc with
  | nil => exact h
  | cons v vs ih =>
    cases remove with
    | true =>
      have hstep := scanRemove_finv F f0 ((shuffle orc (bucket keys o v)).1.length + 1) [] (shuffle orc (bucket keys o v)).1 s h
      simp only [reconValues, if_true]
      split
      · exact hstep
      · exact ih _ _ _ hstep
    | false =>
      have hstep := scanKeep_finv F f0 (shuffle orc (bucket keys o v)).1 s h
      simp only [reconValues, Bool.false_eq_true, if_false]
      split
      · exact hstep
      · exact ih _ _ _ hstep

theorem reconFactors_finv (F f0 : List Nat) (remove : Bool) (os : List Nat) (keys : List (List Bucket)) (s : RState)
    (orc : List Nat) (h : FInv f0 s) : FInv f0 (reconFactors F remove os keys s orc).2.1 := by
  induction os generalizing keys s orc with
  | nil => exact h
  | cons o os ih =>
    simp only [reconFactors]
    split
    · exact ih _ _ _ (show FInv f0 { (reconValues F remove o [s.f.getD o 0] keys { s with done := true } orc).2.1 with done := false }
        from reconValues_finv F f0 remove o _ keys { s with done := true } orc h)
    · exact ih _ _ _ (show FInv f0 { (reconValues F remove o (shuffle orc (List.range (F.getD o 0))).1 keys { s with done := false }
          (shuffle orc (List.range (F.getD o 0))).2).2.1 with done := false }
        from reconValues_finv F f0 remove o _ keys { s with done := false } _ h)

/-- **the returned Factors** are the space `F` ("unset" everywhere) overwritten by the query and then by the
    returned entries in the order they were collected — for every shuffle outcome -/
theorem reconstruct_factors (t : FT) (q : PF) (remove : Bool) (orc : List Nat) :
    (t.reconstruct q remove orc).2.2 = mergeAll (assign t.F q) (t.reconstruct q remove orc).2.1 :=
  reconFactors_finv t.F (assign t.F q) remove _ t.keys { f := assign t.F q, entries := [], done := false } _ rfl

end AITB.Trie
