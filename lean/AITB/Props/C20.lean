import AITB.Model.Trie
import AITB.Gen.C20
namespace AITB.Trie
end AITB.Trie
