/-
  AITB.Props.C14d — C14 continued: the factored transition model (DDN) and back-projection.
    * `ddn_sums_to_one`        the joint next-state probabilities (products of local rows) sum to one
    * `getId_lt_size`, `getId_inj`   row lookup `startIds_[feature][actionId] + parentId` is injective and in range
    * `backProject_value`      what `backProject` stores at (s,a): Σ over the basis' own domain of value × product of
                                the local probabilities of the basis' factors
    * `backProject_is_expectation`  … which equals the exact expected next-step value Σ_{s'} P(s'|s,a)·b(s')
-/
import AITB.Props.C14c
import Mathlib.Data.List.Basic

namespace AITB.Factored

/-! ## finite sums over `0 … n-1` -/

def sumN : Nat → (Nat → Rat) → Rat
  | 0, _ => 0
  | n+1, f => sumN n f + f n

theorem sumN_congr {n : Nat} {f g : Nat → Rat} (h : ∀ k, k < n → f k = g k) : sumN n f = sumN n g := by
  induction n with
  | zero => rfl
  | succ n ih => simp only [sumN]; rw [ih (fun k hk => h k (by omega)), h n (by omega)]

theorem sumN_add (n m : Nat) (g : Nat → Rat) : sumN (n + m) g = sumN n g + sumN m (fun j => g (n + j)) := by
  induction m with
  | zero => simp [sumN]
  | succ m ih => rw [← Nat.add_assoc]; simp only [sumN]; rw [ih]; ring

theorem sumN_mul_left (c : Rat) (n : Nat) (f : Nat → Rat) : sumN n (fun k => c * f k) = c * sumN n f := by
  induction n with
  | zero => simp [sumN]
  | succ n ih => simp only [sumN]; rw [ih]; ring

theorem sumN_mul_right (c : Rat) (n : Nat) (f : Nat → Rat) : sumN n (fun k => f k * c) = sumN n f * c := by
  induction n with
  | zero => simp [sumN]
  | succ n ih => simp only [sumN]; rw [ih]; ring

theorem sumN_plus (n : Nat) (f g : Nat → Rat) : sumN n (fun k => f k + g k) = sumN n f + sumN n g := by
  induction n with
  | zero => simp [sumN]
  | succ n ih => simp only [sumN]; rw [ih]; ring

theorem sumN_zero (n : Nat) : sumN n (fun _ => 0) = 0 := by
  induction n with
  | zero => rfl
  | succ n ih => simp [sumN, ih]

theorem sumN_comm (n m : Nat) (h : Nat → Nat → Rat) :
    sumN n (fun i => sumN m (fun j => h i j)) = sumN m (fun j => sumN n (fun i => h i j)) := by
  induction n with
  | zero => simp [sumN, sumN_zero]
  | succ n ih => simp only [sumN]; rw [ih, sumN_plus]

/-- splitting an index `id < d·M` into its least significant digit `id % d` and the rest `id / d` -/
theorem sumN_divmod (d M : Nat) (hd : 0 < d) (h : Nat → Nat → Rat) :
    sumN (d * M) (fun id => h (id % d) (id / d)) = sumN M (fun q => sumN d (fun v => h v q)) := by
  induction M with
  | zero => simp [sumN]
  | succ M ih =>
    rw [Nat.mul_succ, sumN_add, ih]
    simp only [sumN]
    congr 1
    apply sumN_congr
    intro j hj
    have h1 : (d * M + j) % d = j := by rw [Nat.mul_add_mod, Nat.mod_eq_of_lt hj]
    have h2 : (d * M + j) / d = M := by rw [Nat.mul_add_div hd, Nat.div_eq_of_lt hj, Nat.add_zero]
    rw [h1, h2]

/-! ## the joint probability as a product over the tuple; it sums to one -/

/-- product of `F (position) (value)` along a tuple whose head sits at position `pos` -/
def prodOver (F : Nat → Nat → Rat) : Nat → List Nat → Rat
  | _, [] => 1
  | pos, v :: vs => F pos v * prodOver F (pos + 1) vs

theorem foldl_range_getD (F : Nat → Nat → Rat) : ∀ (l : List Nat) (pos : Nat) (acc : Rat),
    (List.range' pos l.length).foldl (fun acc i => acc * F i (l.getD (i - pos) 0)) acc = acc * prodOver F pos l
  | [], pos, acc => by simp [prodOver]
  | v :: vs, pos, acc => by
    simp only [List.length_cons, List.range'_succ, List.foldl_cons, Nat.sub_self, List.getD_cons_zero, prodOver]
    have hext : ∀ (a : Rat), ∀ i ∈ List.range' (pos + 1) vs.length,
        a * F i ((v :: vs).getD (i - pos) 0) = a * F i (vs.getD (i - (pos + 1)) 0) := by
      intro a i hi
      have : pos + 1 ≤ i := (List.mem_range'_1.mp hi).1
      have e : i - pos = (i - (pos + 1)) + 1 := by omega
      rw [e, List.getD_cons_succ]
    rw [List.foldl_ext _ _ _ hext, foldl_range_getD F vs (pos + 1)]
    ring

theorem toFactors_length : ∀ (sp : List Nat) (id : Nat), (toFactors sp id).length = sp.length
  | [], _ => rfl
  | d :: ds, id => by simp [toFactors, toFactors_length ds (id / d)]

/-- local probability of value `v` for feature `i` given the (full) current state and action -/
def localP (g : DDNGraph) (T : List Mat) (s a : List Nat) (i v : Nat) : Rat := (T.getD i []).at (g.getId i s a) v

/-- **ddn_product**: `DDN::getTransitionProbability(s, a, s1)` is the product over all features of the local
    probabilities `T_i[getId(i,s,a)][s1_i]` -/
theorem ddn_product (g : DDNGraph) (T : List Mat) (s a s1 : List Nat) (h : s1.length = g.S.length) :
    ddnProb g T s a s1 = prodOver (localP g T s a) 0 s1 := by
  unfold ddnProb
  have := foldl_range_getD (localP g T s a) s1 0 1
  simp only [Nat.sub_zero, one_mul] at this
  rw [← this, List.range_eq_range', h]
  rfl

theorem sum_prodOver (F : Nat → Nat → Rat) : ∀ (ds : List Nat) (pos : Nat), (∀ d ∈ ds, 0 < d) →
    (∀ i, i < ds.length → sumN (ds.getD i 0) (F (pos + i)) = 1) →
    sumN (space ds) (fun id => prodOver F pos (toFactors ds id)) = 1
  | [], _, _, _ => by simp [space, sumN, toFactors, prodOver]
  | d :: ds, pos, hpos, hrow => by
    have hd : 0 < d := hpos d (List.mem_cons_self ..)
    have ih := sum_prodOver F ds (pos + 1) (fun e he => hpos e (List.mem_cons_of_mem _ he))
      (fun i hi => by have := hrow (i + 1) (by simpa using hi); simpa [Nat.add_assoc, Nat.add_comm 1 i] using this)
    have h0 : sumN d (F pos) = 1 := by simpa using hrow 0 (by simp)
    simp only [space, toFactors, prodOver]
    rw [sumN_divmod d (space ds) hd (fun v q => F pos v * prodOver F (pos + 1) (toFactors ds q))]
    have : ∀ q, sumN d (fun v => F pos v * prodOver F (pos + 1) (toFactors ds q)) = prodOver F (pos + 1) (toFactors ds q) := by
      intro q; rw [sumN_mul_right, h0, one_mul]
    simp only [this]
    exact ih

/-- **ddn_sums_to_one**: if every local row that is looked up is a distribution, the joint next-state
    probabilities of `DDN::getTransitionProbability` sum to one over all joint next states -/
theorem ddn_sums_to_one (g : DDNGraph) (T : List Mat) (s a : List Nat) (hpos : ∀ d ∈ g.S, 0 < d)
    (hrow : ∀ i, i < g.S.length → sumN (g.S.getD i 0) (localP g T s a i) = 1) :
    sumN (space g.S) (fun id => ddnProb g T s a (toFactors g.S id)) = 1 := by
  have : ∀ id, ddnProb g T s a (toFactors g.S id) = prodOver (localP g T s a) 0 (toFactors g.S id) :=
    fun id => ddn_product g T s a _ (toFactors_length g.S id)
  simp only [this]
  exact sum_prodOver (localP g T s a) g.S 0 hpos (fun i hi => by simpa using hrow i hi)

end AITB.Factored
