/-
  AITB.Props.C14d — C14 continued: the factored transition model (DDN) and back-projection.
    * `ddn_sums_to_one`        the joint next-state probabilities (products of local rows) sum to one
    * `getId_lt_size`, `getId_inj`   row lookup `startIds_[feature][actionId] + parentId` is injective and in range
    * `backProject_value`      what `backProject` stores at (s,a): Σ over the basis' own domain of value × product of
                                the local probabilities of the basis' factors
    * `backProject_is_expectation`  … which equals the exact expected next-step value Σ_{s'} P(s'|s,a)·b(s')
-/
import AITB.Props.C14c
import Mathlib.Data.List.Basic

namespace AITB.Factored

/-! ## finite sums over `0 … n-1` -/

def sumN : Nat → (Nat → Rat) → Rat
  | 0, _ => 0
  | n+1, f => sumN n f + f n

theorem sumN_congr {n : Nat} {f g : Nat → Rat} (h : ∀ k, k < n → f k = g k) : sumN n f = sumN n g := by
  induction n with
  | zero => rfl
  | succ n ih => simp only [sumN]; rw [ih (fun k hk => h k (by omega)), h n (by omega)]

theorem sumN_add (n m : Nat) (g : Nat → Rat) : sumN (n + m) g = sumN n g + sumN m (fun j => g (n + j)) := by
  induction m with
  | zero => simp [sumN]
  | succ m ih => rw [← Nat.add_assoc]; simp only [sumN]; rw [ih]; ring

theorem sumN_mul_left (c : Rat) (n : Nat) (f : Nat → Rat) : sumN n (fun k => c * f k) = c * sumN n f := by
  induction n with
  | zero => simp [sumN]
  | succ n ih => simp only [sumN]; rw [ih]; ring

theorem sumN_mul_right (c : Rat) (n : Nat) (f : Nat → Rat) : sumN n (fun k => f k * c) = sumN n f * c := by
  induction n with
  | zero => simp [sumN]
  | succ n ih => simp only [sumN]; rw [ih]; ring

theorem sumN_plus (n : Nat) (f g : Nat → Rat) : sumN n (fun k => f k + g k) = sumN n f + sumN n g := by
  induction n with
  | zero => simp [sumN]
  | succ n ih => simp only [sumN]; rw [ih]; ring

theorem sumN_zero (n : Nat) : sumN n (fun _ => 0) = 0 := by
  induction n with
  | zero => rfl
  | succ n ih => simp [sumN, ih]

theorem sumN_comm (n m : Nat) (h : Nat → Nat → Rat) :
    sumN n (fun i => sumN m (fun j => h i j)) = sumN m (fun j => sumN n (fun i => h i j)) := by
  induction n with
  | zero => simp [sumN, sumN_zero]
  | succ n ih => simp only [sumN]; rw [ih, sumN_plus]

/-- splitting an index `id < d·M` into its least significant digit `id % d` and the rest `id / d` -/
theorem sumN_divmod (d M : Nat) (hd : 0 < d) (h : Nat → Nat → Rat) :
    sumN (d * M) (fun id => h (id % d) (id / d)) = sumN M (fun q => sumN d (fun v => h v q)) := by
  induction M with
  | zero => simp [sumN]
  | succ M ih =>
    rw [Nat.mul_succ, sumN_add, ih]
    simp only [sumN]
    congr 1
    apply sumN_congr
    intro j hj
    have h1 : (d * M + j) % d = j := by rw [Nat.mul_add_mod, Nat.mod_eq_of_lt hj]
    have h2 : (d * M + j) / d = M := by rw [Nat.mul_add_div hd, Nat.div_eq_of_lt hj, Nat.add_zero]
    rw [h1, h2]

/-! ## the joint probability as a product over the tuple; it sums to one -/

/-- product of `F (position) (value)` along a tuple whose head sits at position `pos` -/
def prodOver (F : Nat → Nat → Rat) : Nat → List Nat → Rat
  | _, [] => 1
  | pos, v :: vs => F pos v * prodOver F (pos + 1) vs

theorem foldl_range_getD (F : Nat → Nat → Rat) : ∀ (l : List Nat) (pos : Nat) (acc : Rat),
    (List.range' pos l.length).foldl (fun acc i => acc * F i (l.getD (i - pos) 0)) acc = acc * prodOver F pos l
  | [], pos, acc => by simp [prodOver]
  | v :: vs, pos, acc => by
    simp only [List.length_cons, List.range'_succ, List.foldl_cons, Nat.sub_self, List.getD_cons_zero, prodOver]
    have hext : ∀ (a : Rat), ∀ i ∈ List.range' (pos + 1) vs.length,
        a * F i ((v :: vs).getD (i - pos) 0) = a * F i (vs.getD (i - (pos + 1)) 0) := by
      intro a i hi
      have : pos + 1 ≤ i := (List.mem_range'_1.mp hi).1
      have e : i - pos = (i - (pos + 1)) + 1 := by omega
      rw [e, List.getD_cons_succ]
    rw [List.foldl_ext _ _ _ hext, foldl_range_getD F vs (pos + 1)]
    ring

theorem toFactors_length : ∀ (sp : List Nat) (id : Nat), (toFactors sp id).length = sp.length
  | [], _ => rfl
  | d :: ds, id => by simp [toFactors, toFactors_length ds (id / d)]

/-- local probability of value `v` for feature `i` given the (full) current state and action -/
def localP (g : DDNGraph) (T : List Mat) (s a : List Nat) (i v : Nat) : Rat := (T.getD i []).at (g.getId i s a) v

/-- **ddn_product**: `DDN::getTransitionProbability(s, a, s1)` is the product over all features of the local
    probabilities `T_i[getId(i,s,a)][s1_i]` -/
theorem ddn_product (g : DDNGraph) (T : List Mat) (s a s1 : List Nat) (h : s1.length = g.S.length) :
    ddnProb g T s a s1 = prodOver (localP g T s a) 0 s1 := by
  unfold ddnProb
  have := foldl_range_getD (localP g T s a) s1 0 1
  simp only [Nat.sub_zero, one_mul] at this
  rw [← this, List.range_eq_range', h]
  rfl

theorem sum_prodOver (F : Nat → Nat → Rat) : ∀ (ds : List Nat) (pos : Nat), (∀ d ∈ ds, 0 < d) →
    (∀ i, i < ds.length → sumN (ds.getD i 0) (F (pos + i)) = 1) →
    sumN (space ds) (fun id => prodOver F pos (toFactors ds id)) = 1
  | [], _, _, _ => by simp [space, sumN, toFactors, prodOver]
  | d :: ds, pos, hpos, hrow => by
    have hd : 0 < d := hpos d (List.mem_cons_self ..)
    have ih := sum_prodOver F ds (pos + 1) (fun e he => hpos e (List.mem_cons_of_mem _ he))
      (fun i hi => by have := hrow (i + 1) (by simpa using hi); simpa [Nat.add_assoc, Nat.add_comm 1 i] using this)
    have h0 : sumN d (F pos) = 1 := by simpa using hrow 0 (by simp)
    simp only [space, toFactors, prodOver]
    rw [sumN_divmod d (space ds) hd (fun v q => F pos v * prodOver F (pos + 1) (toFactors ds q))]
    have : ∀ q, sumN d (fun v => F pos v * prodOver F (pos + 1) (toFactors ds q)) = prodOver F (pos + 1) (toFactors ds q) := by
      intro q; rw [sumN_mul_right, h0, one_mul]
    simp only [this]
    exact ih

/-- **ddn_sums_to_one**: if every local row that is looked up is a distribution, the joint next-state
    probabilities of `DDN::getTransitionProbability` sum to one over all joint next states -/
theorem ddn_sums_to_one (g : DDNGraph) (T : List Mat) (s a : List Nat) (hpos : ∀ d ∈ g.S, 0 < d)
    (hrow : ∀ i, i < g.S.length → sumN (g.S.getD i 0) (localP g T s a i) = 1) :
    sumN (space g.S) (fun id => ddnProb g T s a (toFactors g.S id)) = 1 := by
  have : ∀ id, ddnProb g T s a (toFactors g.S id) = prodOver (localP g T s a) 0 (toFactors g.S id) :=
    fun id => ddn_product g T s a _ (toFactors_length g.S id)
  simp only [this]
  exact sum_prodOver (localP g T s a) g.S 0 hpos (fun i hi => by simpa using hrow i hi)

/-! ## row lookup `startIds_[feature][actionId] + parentId` -/

theorem go_head (S : List Nat) : ∀ (fs : List (List Nat)) (acc : Nat), (startIdsOf.go S acc fs).getD 0 0 = acc
  | [], acc => by simp [startIdsOf.go]
  | f :: fs, acc => by simp [startIdsOf.go]

theorem go_succ (S : List Nat) : ∀ (fs : List (List Nat)) (acc k : Nat), k < fs.length →
    (startIdsOf.go S acc fs).getD (k + 1) 0 = (startIdsOf.go S acc fs).getD k 0 + spacePartial (fs.getD k []) S
  | [], _, _, h => by simp at h
  | f :: fs, acc, 0, _ => by
    have := go_head S fs (acc + spacePartial f S)
    simpa [startIdsOf.go] using this
  | f :: fs, acc, k + 1, h => by
    have ih := go_succ S fs (acc + spacePartial f S) k (by simpa using h)
    simpa [startIdsOf.go] using ih

theorem go_mono (S : List Nat) (fs : List (List Nat)) (acc : Nat) : ∀ (k' k : Nat), k ≤ k' → k' ≤ fs.length →
    (startIdsOf.go S acc fs).getD k 0 ≤ (startIdsOf.go S acc fs).getD k' 0 := by
  intro k'
  induction k' with
  | zero => intro k hk _; have : k = 0 := by omega
            subst this; exact Nat.le_refl _
  | succ k' ih =>
    intro k hk hk'
    rcases Nat.eq_or_lt_of_le hk with rfl | hlt
    · exact Nat.le_refl _
    · have := ih k (by omega) (by omega)
      rw [go_succ S fs acc k' (by omega)]
      omega

theorem go_length (S : List Nat) : ∀ (fs : List (List Nat)) (acc : Nat), (startIdsOf.go S acc fs).length = fs.length + 1
  | [], _ => by simp [startIdsOf.go]
  | f :: fs, acc => by simp [startIdsOf.go, go_length S fs]

theorem go_last (S : List Nat) (fs : List (List Nat)) (acc d : Nat) :
    (startIdsOf.go S acc fs).getLastD d = (startIdsOf.go S acc fs).getD fs.length 0 := by
  have hl := go_length S fs acc
  have hlt : fs.length < (startIdsOf.go S acc fs).length := by omega
  rw [List.getLastD_eq_getLast?, List.getLast?_eq_getElem?, hl]
  simp [List.getElem?_eq_getElem hlt]

/-- well-formed parent set of feature `i` (what `DDNGraph::push` checks) -/
def ParentsOK (g : DDNGraph) (i : Nat) : Prop :=
  (∀ k ∈ (g.ps i).agents, k < g.A.length) ∧ (g.ps i).features.length = spacePartial (g.ps i).agents g.A ∧
  ∀ f ∈ (g.ps i).features, ∀ k ∈ f, k < g.S.length

/-- the (actionId, parentId) pair of `DDNGraph::getIds` -/
def actionIdOf (g : DDNGraph) (i : Nat) (a : List Nat) : Nat := toIndexPartial (g.ps i).agents g.A a
def parentIdOf (g : DDNGraph) (i : Nat) (s a : List Nat) : Nat :=
  toIndexPartial ((g.ps i).features.getD (actionIdOf g i a) []) g.S s

theorem getId_eq (g : DDNGraph) (i : Nat) (s a : List Nat) :
    g.getId i s a = (g.startIds i).getD (actionIdOf g i a) 0 + parentIdOf g i s a := rfl

/-- the row of (s,a) lies inside the block of its action: `start[aid] ≤ getId < start[aid+1] ≤ getSize` -/
theorem getId_block (g : DDNGraph) (i : Nat) (s a : List Nat) (hs : Valid g.S s) (ha : Valid g.A a) (hok : ParentsOK g i) :
    (g.startIds i).getD (actionIdOf g i a) 0 ≤ g.getId i s a ∧
    g.getId i s a < (g.startIds i).getD (actionIdOf g i a + 1) 0 ∧
    (g.startIds i).getD (actionIdOf g i a + 1) 0 ≤ g.getSize i := by
  obtain ⟨hag, hlen, hfe⟩ := hok
  have haid : actionIdOf g i a < (g.ps i).features.length := by
    rw [hlen]; exact (toIndexPartial_spec g.A a _ ha hag).1
  have hmem : (g.ps i).features.getD (actionIdOf g i a) [] ∈ (g.ps i).features := by
    simp [List.getD_eq_getElem?_getD, List.getElem?_eq_getElem haid]
  have hpid : parentIdOf g i s a < spacePartial ((g.ps i).features.getD (actionIdOf g i a) []) g.S :=
    (toIndexPartial_spec g.S s _ hs (hfe _ hmem)).1
  have hsucc := go_succ g.S (g.ps i).features 0 (actionIdOf g i a) haid
  refine ⟨by rw [getId_eq]; omega, ?_, ?_⟩
  · rw [getId_eq]; unfold DDNGraph.startIds startIdsOf; rw [hsucc]; omega
  · unfold DDNGraph.getSize DDNGraph.startIds startIdsOf
    rw [go_last]
    exact go_mono g.S _ 0 _ _ (by omega) (Nat.le_refl _)

theorem getId_lt_size (g : DDNGraph) (i : Nat) (s a : List Nat) (hs : Valid g.S s) (ha : Valid g.A a) (hok : ParentsOK g i) :
    g.getId i s a < g.getSize i := by
  obtain ⟨_, h2, h3⟩ := getId_block g i s a hs ha hok
  omega

/-- **row lookup is injective**: two (state, action) pairs share a row of feature `i` only if they have the same
    action index and the same parent index -/
theorem getId_inj (g : DDNGraph) (i : Nat) (s a s' a' : List Nat) (hs : Valid g.S s) (ha : Valid g.A a)
    (hs' : Valid g.S s') (ha' : Valid g.A a') (hok : ParentsOK g i) (h : g.getId i s a = g.getId i s' a') :
    actionIdOf g i a = actionIdOf g i a' ∧ parentIdOf g i s a = parentIdOf g i s' a' := by
  obtain ⟨l1, u1, _⟩ := getId_block g i s a hs ha hok
  obtain ⟨l2, u2, _⟩ := getId_block g i s' a' hs' ha' hok
  obtain ⟨hag, hlen, _⟩ := hok
  have haid : actionIdOf g i a < (g.ps i).features.length := by
    rw [hlen]; exact (toIndexPartial_spec g.A a _ ha hag).1
  have haid' : actionIdOf g i a' < (g.ps i).features.length := by
    rw [hlen]; exact (toIndexPartial_spec g.A a' _ ha' hag).1
  have hmono := fun k k' (h1 : k ≤ k') (h2 : k' ≤ (g.ps i).features.length) => go_mono g.S (g.ps i).features 0 k' k h1 h2
  have heq : actionIdOf g i a = actionIdOf g i a' := by
    rcases Nat.lt_trichotomy (actionIdOf g i a) (actionIdOf g i a') with hlt | heq | hgt
    · have := hmono (actionIdOf g i a + 1) (actionIdOf g i a') (by omega) (by omega)
      unfold DDNGraph.startIds startIdsOf at l1 u1 l2 u2
      omega
    · exact heq
    · have := hmono (actionIdOf g i a' + 1) (actionIdOf g i a) (by omega) (by omega)
      unfold DDNGraph.startIds startIdsOf at l1 u1 l2 u2
      omega
  refine ⟨heq, ?_⟩
  rw [getId_eq, getId_eq, heq] at h
  omega

/-! ## back-projection: the stored value -/

/-- product of `P (factor) (value)` along a tag and a tuple over that tag -/
def prodTag (P : Nat → Nat → Rat) : List Nat → List Nat → Rat
  | d :: ds, v :: vs => P d v * prodTag P ds vs
  | _, _ => 1

theorem prodTag_congr (P P' : Nat → Nat → Rat) : ∀ (U vs : List Nat), (∀ d ∈ U, ∀ v, P d v = P' d v) →
    prodTag P U vs = prodTag P' U vs
  | [], _, _ => by simp [prodTag]
  | _ :: _, [], _ => by simp [prodTag]
  | d :: U, v :: vs, h => by
    simp only [prodTag]
    rw [h d (List.mem_cons_self ..) v, prodTag_congr P P' U vs (fun e he => h e (List.mem_cons_of_mem _ he))]

theorem ddnProbP_eq (g : DDNGraph) (T : List Mat) (sk sv ak av : List Nat) : ∀ (ns vs : List Nat) (acc : Rat),
    ddnProbP g T sk sv ak av ns vs acc
      = acc * prodTag (fun d v => (T.getD d []).at (g.getIdP d sk sv ak av) v) ns vs
  | [], _, acc => by simp [ddnProbP, prodTag]
  | _ :: _, [], acc => by simp [ddnProbP, prodTag]
  | n :: ns, v :: vs, acc => by
    simp only [ddnProbP, prodTag]
    rw [ddnProbP_eq g T sk sv ak av ns vs]
    ring

/-- on the tuples produced by the enumerators of the merged tags, the PartialFactors overload of `getId`
    finds the same row as the full-assignment overload -/
theorem getIdP_eq_getId (g : DDNGraph) (d : Nat) (tag atag s a : List Nat)
    (hag : (g.ps d).agents.Sublist atag) (hfe : ∀ f ∈ (g.ps d).features, f.Sublist tag) :
    g.getIdP d tag (sel tag s) atag (sel atag a) = g.getId d s a := by
  unfold DDNGraph.getIdP DDNGraph.getId
  simp only
  rw [kpf_eq_toIndexPartial g.A a atag _ hag]
  have hsub : ((g.ps d).features.getD (toIndexPartial (g.ps d).agents g.A a) []).Sublist tag := by
    rw [List.getD_eq_getElem?_getD]
    cases h : (g.ps d).features[toIndexPartial (g.ps d).agents g.A a]? with
    | none => simp
    | some f => simpa using hfe f (List.mem_of_getElem? h)
  rw [kpf_eq_toIndexPartial g.S s tag _ hsub]

theorem foldl_merge_sub : ∀ (fs : List (List Nat)) (t0 : List Nat),
    t0.Sublist (fs.foldl mergeKeys t0) ∧ ∀ f ∈ fs, f.Sublist (fs.foldl mergeKeys t0)
  | [], t0 => ⟨List.Sublist.refl _, by simp⟩
  | f :: fs, t0 => by
    obtain ⟨h1, h2⟩ := foldl_merge_sub fs (mergeKeys t0 f)
    simp only [List.foldl_cons]
    refine ⟨(sub_merge_left t0 f).trans h1, ?_⟩
    intro f' hf'
    rcases List.mem_cons.mp hf' with rfl | hf'
    · exact (sub_merge_right t0 f').trans h1
    · exact h2 f' hf'

theorem foldl_merge_mem : ∀ (fs : List (List Nat)) (t0 : List Nat) (k : Nat),
    k ∈ fs.foldl mergeKeys t0 → k ∈ t0 ∨ ∃ f ∈ fs, k ∈ f
  | [], t0, k, h => Or.inl (by simpa using h)
  | f :: fs, t0, k, h => by
    simp only [List.foldl_cons] at h
    rcases foldl_merge_mem fs (mergeKeys t0 f) k h with h' | ⟨f', hf', hk⟩
    · rcases mem_merge t0 f k h' with h'' | h''
      · exact Or.inl h''
      · exact Or.inr ⟨f, List.mem_cons_self .., h''⟩
    · exact Or.inr ⟨f', List.mem_cons_of_mem _ hf', hk⟩

theorem bpTags_sub (g : DDNGraph) : ∀ (U : List Nat) (t0 a0 : List Nat),
    t0.Sublist (bpTags g U (t0, a0)).1 ∧ a0.Sublist (bpTags g U (t0, a0)).2 ∧
    ∀ d ∈ U, (g.ps d).agents.Sublist (bpTags g U (t0, a0)).2 ∧
             ∀ f ∈ (g.ps d).features, f.Sublist (bpTags g U (t0, a0)).1
  | [], t0, a0 => by simp [bpTags]
  | d :: U, t0, a0 => by
    obtain ⟨h1, h2, h3⟩ := bpTags_sub g U ((g.ps d).features.foldl mergeKeys t0) (mergeKeys a0 (g.ps d).agents)
    obtain ⟨f1, f2⟩ := foldl_merge_sub (g.ps d).features t0
    simp only [bpTags]
    refine ⟨f1.trans h1, (sub_merge_left _ _).trans h2, ?_⟩
    intro d' hd'
    rcases List.mem_cons.mp hd' with rfl | hd'
    · exact ⟨(sub_merge_right _ _).trans h2, fun f hf => (f2 f hf).trans h1⟩
    · exact h3 d' hd'

theorem bpTags_mem (g : DDNGraph) : ∀ (U : List Nat) (t0 a0 : List Nat),
    (∀ k ∈ (bpTags g U (t0, a0)).1, k ∈ t0 ∨ ∃ d ∈ U, ∃ f ∈ (g.ps d).features, k ∈ f) ∧
    (∀ k ∈ (bpTags g U (t0, a0)).2, k ∈ a0 ∨ ∃ d ∈ U, k ∈ (g.ps d).agents)
  | [], t0, a0 => by simp [bpTags]
  | d :: U, t0, a0 => by
    obtain ⟨h1, h2⟩ := bpTags_mem g U ((g.ps d).features.foldl mergeKeys t0) (mergeKeys a0 (g.ps d).agents)
    simp only [bpTags]
    constructor
    · intro k hk
      rcases h1 k hk with h | ⟨d', hd', f, hf, hkf⟩
      · rcases foldl_merge_mem _ _ k h with h' | ⟨f, hf, hkf⟩
        · exact Or.inl h'
        · exact Or.inr ⟨d, List.mem_cons_self .., f, hf, hkf⟩
      · exact Or.inr ⟨d', List.mem_cons_of_mem _ hd', f, hf, hkf⟩
    · intro k hk
      rcases h2 k hk with h | ⟨d', hd', hka⟩
      · rcases mem_merge _ _ k h with h' | h'
        · exact Or.inl h'
        · exact Or.inr ⟨d, List.mem_cons_self .., h'⟩
      · exact Or.inr ⟨d', List.mem_cons_of_mem _ hd', hka⟩

/-- the parent sets of the features named by a basis tag are well-formed and non-empty -/
def BasisParentsOK (g : DDNGraph) (U : List Nat) : Prop :=
  ∀ d ∈ U, TagOK g.A (g.ps d).agents ∧ (g.ps d).features ≠ [] ∧ ∀ f ∈ (g.ps d).features, TagOK g.S f

theorem bpTags_ok (g : DDNGraph) (U : List Nat) (hU : U ≠ []) (hok : BasisParentsOK g U) :
    TagOK g.S (bpTags g U ([], [])).1 ∧ TagOK g.A (bpTags g U ([], [])).2 := by
  obtain ⟨_, _, hsub⟩ := bpTags_sub g U [] []
  obtain ⟨hm1, hm2⟩ := bpTags_mem g U [] []
  cases U with
  | nil => exact absurd rfl hU
  | cons d0 U' =>
    obtain ⟨hag0, hfe0⟩ := hsub d0 (List.mem_cons_self ..)
    obtain ⟨ok1, ok2, ok3⟩ := hok d0 (List.mem_cons_self ..)
    refine ⟨⟨?_, ?_⟩, ⟨?_, ?_⟩⟩
    · intro h
      cases hf : (g.ps d0).features with
      | nil => exact ok2 hf
      | cons f0 _ =>
        have hmem : f0 ∈ (g.ps d0).features := by rw [hf]; exact List.mem_cons_self ..
        have := hfe0 f0 hmem
        rw [h] at this
        exact (ok3 f0 hmem).1 (List.eq_nil_of_sublist_nil this)
    · intro k hk
      rcases hm1 k hk with h | ⟨d, hd, f, hf, hkf⟩
      · simp at h
      · exact ((hok d hd).2.2 f hf).2 k hkf
    · intro h
      rw [h] at hag0
      exact ok1.1 (List.eq_nil_of_sublist_nil hag0)
    · intro k hk
      rcases hm2 k hk with h | ⟨d, hd, hka⟩
      · simp at h
      · exact (hok d hd).1.2 k hka

theorem sumN_succ_left (n : Nat) (f : Nat → Rat) : sumN (n + 1) f = f 0 + sumN n (fun j => f (j + 1)) := by
  have := sumN_add 1 n f
  rw [Nat.add_comm] at this
  rw [this]
  simp only [sumN, zero_add]
  congr 1
  exact sumN_congr (fun j _ => by rw [Nat.add_comm])

theorem foldl_zip_range' (f : Nat → List Nat) (G : List Nat → Rat) : ∀ (vals : List Rat) (k : Nat) (acc : Rat),
    (((List.range' k vals.length).map f).zip vals).foldl (fun acc rv => acc + rv.2 * G rv.1) acc
      = acc + sumN vals.length (fun j => vals.getD j 0 * G (f (k + j)))
  | [], k, acc => by simp [sumN]
  | v :: vs, k, acc => by
    simp only [List.length_cons, List.range'_succ, List.map_cons, List.zip_cons_cons, List.foldl_cons]
    rw [foldl_zip_range' f G vs (k + 1), sumN_succ_left]
    simp only [List.getD_cons_zero, List.getD_cons_succ, Nat.add_zero]
    have : sumN vs.length (fun j => vs.getD j 0 * G (f (k + 1 + j))) = sumN vs.length (fun j => vs.getD j 0 * G (f (k + (j + 1)))) :=
      sumN_congr (fun j _ => by rw [Nat.add_assoc, Nat.add_comm 1 j])
    rw [this]; ring

/-- **what `backProject(ddn, rhs)` stores** — its value at every full (s, a) is the sum, over the joint values `r` of
    the basis' own tag, of `rhs.values[r]` times the product of the local probabilities of the tag's features -/
theorem backProject_value (g : DDNGraph) (T : List Mat) (rhs : BF) (s a : List Nat) (hs : Valid g.S s) (ha : Valid g.A a)
    (hrhs : rhs.WF g.S) (hok : BasisParentsOK g rhs.tag) :
    (backProject g T rhs).get g.S g.A s a
      = sumN (spacePartial rhs.tag g.S) (fun r => rhs.vals.getD r 0 *
          prodTag (localP g T s a) rhs.tag (toFactors (sel rhs.tag g.S) r)) := by
  obtain ⟨htag, hatag⟩ := bpTags_ok g rhs.tag hrhs.1.1 hok
  obtain ⟨_, _, hsub⟩ := bpTags_sub g rhs.tag [] []
  unfold backProject
  generalize hbp : bpTags g rhs.tag ([], []) = tags at htag hatag hsub
  obtain ⟨tag, atag⟩ := tags
  simp only at htag hatag hsub ⊢
  unfold BM.get
  conv_lhs => simp only [List.getD_eq_getElem?_getD, List.getElem?_map, enumTag_getD g.S s tag hs htag,
    enumTag_getD g.A a atag ha hatag, Option.map_some, Option.getD_some]
  rw [enumTag_eq g.S s rhs.tag hs hrhs.1, List.range_eq_range']
  have hlen : spacePartial rhs.tag g.S = rhs.vals.length := hrhs.2.symm
  rw [hlen, foldl_zip_range' (toFactors (sel rhs.tag g.S))
    (fun e => ddnProbP g T tag (sel tag s) atag (sel atag a) rhs.tag e 1) rhs.vals 0 0]
  simp only [zero_add]
  apply sumN_congr
  intro r _
  rw [ddnProbP_eq, one_mul]
  congr 1
  apply prodTag_congr
  intro d hd v
  unfold localP
  rw [getIdP_eq_getId g d tag atag s a (hsub d hd).1 (hsub d hd).2]

/-! ## marginalisation: summing the joint distribution over the factors outside a tag -/

/-- restriction of a suffix tuple (head at absolute position `pos`) to the keys `U` -/
def selRel (pos : Nat) (U xs : List Nat) : List Nat := U.map (fun k => xs.getD (k - pos) 0)

theorem selRel_zero (U xs : List Nat) : selRel 0 U xs = sel U xs := by simp [selRel, sel]

theorem selRel_cons_miss (pos v : Nat) (xs U : List Nat) (hU : ∀ k ∈ U, pos + 1 ≤ k) :
    selRel pos U (v :: xs) = selRel (pos + 1) U xs := by
  unfold selRel
  apply List.map_congr_left
  intro k hk
  have := hU k hk
  have e : k - pos = (k - (pos + 1)) + 1 := by omega
  rw [e, List.getD_cons_succ]

theorem selRel_cons_hit (pos v : Nat) (xs U : List Nat) (hU : ∀ k ∈ U, pos + 1 ≤ k) :
    selRel pos (pos :: U) (v :: xs) = v :: selRel (pos + 1) U xs := by
  have := selRel_cons_miss pos v xs U hU
  unfold selRel at this ⊢
  simp only [List.map_cons, Nat.sub_self, List.getD_cons_zero]
  rw [this]

theorem marginal (P : Nat → Nat → Rat) : ∀ (ds : List Nat) (pos : Nat) (U : List Nat) (G : List Nat → Rat),
    (∀ d ∈ ds, 0 < d) →
    (∀ i, i < ds.length → sumN (ds.getD i 0) (P (pos + i)) = 1) →
    U.Pairwise (· < ·) → (∀ k ∈ U, pos ≤ k ∧ k < pos + ds.length) →
    sumN (space ds) (fun id => prodOver P pos (toFactors ds id) * G (selRel pos U (toFactors ds id)))
      = sumN (space (selRel pos U ds)) (fun r =>
          prodTag P U (toFactors (selRel pos U ds) r) * G (toFactors (selRel pos U ds) r))
  | [], pos, U, G, _, _, _, hU => by
    have : U = [] := by
      cases U with
      | nil => rfl
      | cons k _ => have := hU k (List.mem_cons_self ..); simp at this; omega
    subst this
    simp [selRel, space, sumN, toFactors, prodOver, prodTag]
  | d :: ds, pos, U, G, hpos, hrow, hsorted, hU => by
    have hd : 0 < d := hpos d (List.mem_cons_self ..)
    have hpos' : ∀ e ∈ ds, 0 < e := fun e he => hpos e (List.mem_cons_of_mem _ he)
    have hrow' : ∀ i, i < ds.length → sumN (ds.getD i 0) (P (pos + 1 + i)) = 1 := fun i hi => by
      have := hrow (i + 1) (by simpa using hi); simpa [Nat.add_assoc, Nat.add_comm 1 i] using this
    have h0 : sumN d (P pos) = 1 := by simpa using hrow 0 (by simp)
    by_cases hhit : ∃ U', U = pos :: U'
    · obtain ⟨U', rfl⟩ := hhit
      have hU' : ∀ k ∈ U', pos + 1 ≤ k := by
        intro k hk
        have := (List.pairwise_cons.mp hsorted).1 k hk
        omega
      have hU'' : ∀ k ∈ U', pos + 1 ≤ k ∧ k < pos + 1 + ds.length := by
        intro k hk
        have := hU k (List.mem_cons_of_mem _ hk)
        simp at this
        exact ⟨hU' k hk, by omega⟩
      have hsorted' := (List.pairwise_cons.mp hsorted).2
      have hdims : selRel pos (pos :: U') (d :: ds) = d :: selRel (pos + 1) U' ds := selRel_cons_hit pos d ds U' hU'
      rw [hdims]
      simp only [space, toFactors, prodOver, prodTag]
      simp only [selRel_cons_hit pos _ _ U' hU']
      rw [sumN_divmod d (space ds) hd (fun v q => P pos v * prodOver P (pos + 1) (toFactors ds q) *
            G (v :: selRel (pos + 1) U' (toFactors ds q))),
          sumN_divmod d (space (selRel (pos + 1) U' ds)) hd (fun v q => P pos v * prodTag P U' (toFactors (selRel (pos + 1) U' ds) q) *
            G (v :: toFactors (selRel (pos + 1) U' ds) q)),
          sumN_comm, sumN_comm (space (selRel (pos + 1) U' ds))]
      apply sumN_congr
      intro v _
      have ih := marginal P ds (pos + 1) U' (fun t => G (v :: t)) hpos' hrow' hsorted' hU''
      have e1 : ∀ q, P pos v * prodOver P (pos + 1) (toFactors ds q) * G (v :: selRel (pos + 1) U' (toFactors ds q))
          = P pos v * (prodOver P (pos + 1) (toFactors ds q) * G (v :: selRel (pos + 1) U' (toFactors ds q))) := fun q => by ring
      have e2 : ∀ q, P pos v * prodTag P U' (toFactors (selRel (pos + 1) U' ds) q) * G (v :: toFactors (selRel (pos + 1) U' ds) q)
          = P pos v * (prodTag P U' (toFactors (selRel (pos + 1) U' ds) q) * G (v :: toFactors (selRel (pos + 1) U' ds) q)) := fun q => by ring
      simp only [e1, e2]
      rw [sumN_mul_left, sumN_mul_left, ih]
    · have hU' : ∀ k ∈ U, pos + 1 ≤ k := by
        intro k hk
        have hk' := hU k hk
        rcases Nat.eq_or_lt_of_le hk'.1 with heq | hlt
        · exfalso
          cases U with
          | nil => simp at hk
          | cons u U' =>
            rcases List.mem_cons.mp hk with rfl | hk2
            · exact hhit ⟨U', by rw [heq]⟩
            · have h1 := (List.pairwise_cons.mp hsorted).1 k hk2
              have h2 := (hU u (List.mem_cons_self ..)).1
              omega
        · omega
      have hU'' : ∀ k ∈ U, pos + 1 ≤ k ∧ k < pos + 1 + ds.length := by
        intro k hk
        have := hU k hk
        simp at this
        exact ⟨hU' k hk, by omega⟩
      have hdims : selRel pos U (d :: ds) = selRel (pos + 1) U ds := selRel_cons_miss pos d ds U hU'
      rw [hdims]
      simp only [space, toFactors, prodOver]
      simp only [selRel_cons_miss pos _ _ U hU']
      rw [sumN_divmod d (space ds) hd (fun v q => P pos v * prodOver P (pos + 1) (toFactors ds q) *
            G (selRel (pos + 1) U (toFactors ds q)))]
      have e1 : ∀ q, sumN d (fun v => P pos v * prodOver P (pos + 1) (toFactors ds q) * G (selRel (pos + 1) U (toFactors ds q)))
          = prodOver P (pos + 1) (toFactors ds q) * G (selRel (pos + 1) U (toFactors ds q)) := by
        intro q
        have : ∀ v, P pos v * prodOver P (pos + 1) (toFactors ds q) * G (selRel (pos + 1) U (toFactors ds q))
            = P pos v * (prodOver P (pos + 1) (toFactors ds q) * G (selRel (pos + 1) U (toFactors ds q))) := fun v => by ring
        simp only [this]
        rw [sumN_mul_right, h0, one_mul]
      simp only [e1]
      exact marginal P ds (pos + 1) U G hpos' hrow' hsorted hU''

/-- **backProject_is_expectation** — for every full state `s` and joint action `a`, the value of
    `backProject(ddn, b)` at (s, a) is the exact expected next-step value of the basis function `b`:
    `Σ_{s'} P(s' | s, a) · b(s')`, the sum ranging over ALL joint next states and `P` being
    `DDN::getTransitionProbability`.  Hypotheses: well-formed inputs and every looked-up local row is a distribution. -/
theorem backProject_is_expectation (g : DDNGraph) (T : List Mat) (rhs : BF) (s a : List Nat)
    (hs : Valid g.S s) (ha : Valid g.A a) (hrhs : rhs.WF g.S) (hsorted : rhs.tag.Pairwise (· < ·))
    (hok : BasisParentsOK g rhs.tag)
    (hrow : ∀ i, i < g.S.length → sumN (g.S.getD i 0) (localP g T s a i) = 1) :
    (backProject g T rhs).get g.S g.A s a
      = sumN (space g.S) (fun id => ddnProb g T s a (toFactors g.S id) * rhs.get g.S (toFactors g.S id)) := by
  rw [backProject_value g T rhs s a hs ha hrhs hok]
  have hpos := valid_pos g.S s hs
  have hm := marginal (localP g T s a) g.S 0 rhs.tag
      (fun t => rhs.vals.getD (toIndexLoop (sel rhs.tag g.S) t 0 1) 0) hpos (fun i hi => by simpa using hrow i hi) hsorted
      (fun k hk => ⟨Nat.zero_le _, by simpa using hrhs.1.2 k hk⟩)
  simp only [selRel_zero] at hm
  have e : ∀ id, ddnProb g T s a (toFactors g.S id) * rhs.get g.S (toFactors g.S id)
      = prodOver (localP g T s a) 0 (toFactors g.S id) *
        rhs.vals.getD (toIndexLoop (sel rhs.tag g.S) (sel rhs.tag (toFactors g.S id)) 0 1) 0 := by
    intro id
    rw [ddn_product g T s a _ (toFactors_length g.S id)]
    rfl
  simp only [e]
  rw [hm]
  apply sumN_congr
  intro r hr
  rw [toIndexLoop_toFactors (sel rhs.tag g.S) r hr]
  ring

/-! ## non-vacuity: a concrete DDN meeting every hypothesis of `backProject_is_expectation` (tests on literals) -/

def exG : DDNGraph := DDNGraph.mk [2, 2] [2] [ParentSet.mk [0] [[0], [0, 1]], ParentSet.mk [0] [[1], [1]]]
def exT : List Mat := [[[1/2, 1/2], [1, 0], [1/4, 3/4], [0, 1], [1/2, 1/2], [1/8, 7/8]], [[1, 0], [1/2, 1/2], [3/4, 1/4], [0, 1]]]
def exB : BF := { tag := [0, 1], vals := [1, 2, 4, 8] }

example : Valid exG.S [1, 0] ∧ Valid exG.A [1] ∧ exB.tag.Pairwise (· < ·) := by
  refine ⟨(validB_iff _ _).mp (by decide), (validB_iff _ _).mp (by decide), by decide⟩
example : exB.WF exG.S := ⟨⟨by decide, by decide⟩, by decide⟩
example : BasisParentsOK exG exB.tag := by
  intro d hd
  have : d = 0 ∨ d = 1 := by simpa [exB] using hd
  rcases this with rfl | rfl
  · exact ⟨⟨by decide, by decide⟩, by decide, by
      intro f hf
      have : f = [0] ∨ f = [0, 1] := by simpa [exG, DDNGraph.ps] using hf
      rcases this with rfl | rfl <;> exact ⟨by decide, by decide⟩⟩
  · exact ⟨⟨by decide, by decide⟩, by decide, by
      intro f hf
      have : f = [1] := by simpa [exG, DDNGraph.ps] using hf
      subst this; exact ⟨by decide, by decide⟩⟩
example : exG.getId 0 [1, 0] [1] = 3 ∧ exG.getSize 0 = 6 ∧ exG.startIds 0 = [0, 2, 6] := by decide
example : ∀ i, i < exG.S.length → sumN (exG.S.getD i 0) (localP exG exT [1, 0] [1] i) = 1 := by
  intro i hi
  have h0 : exG.getId 0 [1, 0] [1] = 3 := by decide
  have h1 : exG.getId 1 [1, 0] [1] = 2 := by decide
  have : i = 0 ∨ i = 1 := by simp [exG] at hi; omega
  rcases this with rfl | rfl
  · have hS : exG.S.getD 0 0 = 2 := by decide
    rw [hS]; simp only [sumN, localP, h0]; norm_num [exT, Mat.at]
  · have hS : exG.S.getD 1 0 = 2 := by decide
    rw [hS]; simp only [sumN, localP, h1]; norm_num [exT, Mat.at]

end AITB.Factored
