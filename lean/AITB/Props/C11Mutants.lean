/-
  AITB.Props.C11Mutants — why three realistic code changes are reported as correspondence breaks only.

  Round-1 mutation trials "trace decayed twice", "DoubleQLearning bootstraps from its own table" and "hysteretic rates
  swapped" were caught by the model/implementation comparison but by no clause checker.  That is correct: each mutant
  provably SATISFIES every clause of C11 that applies to it, so a `fail` verdict would be a false alarm.  The mutants are
  modelled here and the clauses proved for them (all histories).
-/
import AITB.Props.C11Check

namespace AITB.Learn

/-! ### mutant 1: `el *= traceDiscount * traceDiscount` in updateTraces -/

/-- the mutated loop is the original one run with the squared discount -/
def updateTracesTwice (s a : Nat) (err td tol : Rat) (tr : List Tr) (q : QF) : List Tr × QF :=
  updateTraces s a err (td * td) tol tr q

/-- clause 4 holds for the mutant: the squared discount is still in [0,1] -/
theorem mutant_decay_twice_ok (s a : Nat) (err td tol : Rat) (tr : List Tr) (q : QF)
    (h0 : 0 ≤ td) (h1 : td ≤ 1) (htol : tol ≤ 1) (h : TrOK tol tr) :
    TrOK tol (updateTracesTwice s a err td tol tr q).1 := by
  have hu := mul_unit h0 h1 h0 h1
  exact updateTraces_ok _ _ _ _ _ _ _ hu.1 hu.2 htol h

/-- clause 3 holds for the mutant: at trace discount 0 it is the one-step backup -/
theorem mutant_decay_twice_td0 (s a : Nat) (err tol : Rat) (tr : List Tr) (q : QF) (hnd : (tr.map key).Nodup) :
    (updateTracesTwice s a err 0 tol tr q).2 = upd q s a (q s a + err) := by
  unfold updateTracesTwice; rw [mul_zero]; exact updateTraces_td0 _ _ _ _ _ _ hnd

/-- clause 2 holds for the mutant: a zero error moves nothing -/
theorem mutant_decay_twice_err0 (s a : Nat) (td tol : Rat) (tr : List Tr) (q : QF) (hnd : (tr.map key).Nodup) :
    (updateTracesTwice s a 0 td tol tr q).2 = q := updateTraces_err0 s a _ tol tr q hnd

/-! ### mutant 2: DoubleQLearning's first branch bootstraps from `qa_(s1,a1)` instead of `qb = qc_ - qa_` -/

def dqStepMut (γ α : Rat) (A : Nat) (d : DQ) (coin : Bool) (s a s1 : Nat) (r : Rat) : DQ :=
  if coin then
    let a1 := argmaxA A (d.qa s1)
    let change := α * (r + γ * d.qa s1 a1 - d.qa s a)
    { qa := upd d.qa s a (d.qa s a + change), qc := upd d.qc s a (d.qc s a + change) }
  else dqStep γ α A d false s a s1 r

/-- clause 1 holds for the mutant (both tables) -/
theorem mutant_dq_Bdd (lo hi γ α : Rat) (A : Nat) (d : DQ) (coin : Bool) (s a s1 : Nat) (r : Rat)
    (hγ0 : 0 ≤ γ) (hα0 : 0 ≤ α) (hα1 : α ≤ 1) (hc : Closed lo hi γ r) (hd : DQBdd lo hi d) :
    DQBdd lo hi (dqStepMut γ α A d coin s a s1 r) := by
  cases coin with
  | false => simpa [dqStepMut] using dqStep_Bdd lo hi γ α A d false s a s1 r hγ0 hα0 hα1 hc hd
  | true =>
    obtain ⟨ha, hb⟩ := hd
    simp only [dqStepMut, if_true]
    have key := mix_in lo hi (d.qa s a) (r + γ * d.qa s1 (argmaxA A (d.qa s1))) α
      hα0 hα1 (ha s a) (target_in lo hi γ r _ hγ0 hc (ha s1 _))
    constructor
    · exact Bdd_upd lo hi _ s a _ ha key
    · intro s' a'
      have := hb s' a'
      simp only [DQ.qb, upd] at this ⊢
      split <;> rename_i h
      · obtain ⟨rfl, rfl⟩ := h
        constructor <;> linarith [this.1, this.2]
      · exact this

/-- clause 2 holds for the mutant -/
theorem mutant_dq_qstar_fixed (γ : Rat) (A : Nat) (next : Nat → Nat → Nat) (R : Nat → Nat → Rat) (q : QF)
    (hq : IsQStar γ A next R q) (α : Rat) (coin : Bool) (s a : Nat) :
    dqStepMut γ α A ⟨q, fun s a => q s a * 2⟩ coin s a (next s a) (R s a) = ⟨q, fun s a => q s a * 2⟩ := by
  cases coin with
  | false => simpa [dqStepMut] using dq_qstar_fixed γ A next R q hq α false s a
  | true =>
    simp only [dqStepMut, if_true]
    have hch : α * (R s a + γ * q (next s a) (argmaxA A (q (next s a))) - q s a) = 0 := by
      rw [argmaxA_spec A (q (next s a)), ← hq s a]; ring
    rw [hch]
    congr 1
    · apply upd_self; ring
    · exact upd_self (fun s a => q s a * 2) s a _ (by ring)

/-! ### mutant 3: HystereticQLearning with the two rates swapped (`delta < 0 ? alpha : beta`) -/

def hystStepMut (γ α β : Rat) (A : Nat) (q : QF) (s a s1 : Nat) (r : Rat) : QF :=
  let delta := r + γ * maxA A (q s1) - q s a
  if delta < 0 then upd q s a (q s a + α * delta) else upd q s a (q s a + β * delta)

/-- clause 1 holds for the mutant: both rates are in [0,1], whichever is used -/
theorem mutant_hyst_Bdd (lo hi γ α β : Rat) (A : Nat) (q : QF) (s a s1 : Nat) (r : Rat)
    (hγ0 : 0 ≤ γ) (hα0 : 0 ≤ α) (hα1 : α ≤ 1) (hβ0 : 0 ≤ β) (hβ1 : β ≤ 1)
    (hc : Closed lo hi γ r) (hq : Bdd lo hi q) :
    Bdd lo hi (hystStepMut γ α β A q s a s1 r) := by
  obtain ⟨i, hm⟩ := maxA_mem A (q s1)
  unfold hystStepMut; simp only [hm]
  split
  · exact backup_Bdd lo hi γ α r _ q s a hγ0 hα0 hα1 hc hq (hq s1 i)
  · exact backup_Bdd lo hi γ β r _ q s a hγ0 hβ0 hβ1 hc hq (hq s1 i)

/-- clause 2 holds for the mutant -/
theorem mutant_hyst_qstar_fixed (γ : Rat) (A : Nat) (next : Nat → Nat → Nat) (R : Nat → Nat → Rat) (q : QF)
    (hq : IsQStar γ A next R q) (α β : Rat) (s a : Nat) :
    hystStepMut γ α β A q s a (next s a) (R s a) = q := by
  unfold hystStepMut
  have : R s a + γ * maxA A (q (next s a)) - q s a = 0 := by rw [← hq s a]; ring
  simp only [this]
  split <;> (apply upd_self; ring)

end AITB.Learn
