/-
  AITB.Props.C15Clean — no generated row writes an LP column twice, so the sparse sum the theorems use (`lhs`) is the dense
  row lp_solve receives (`CRow.dense`: the last write to a column wins).  Invariant: all rule / final columns of the state
  are pairwise distinct, above `base`, and every new factor takes a fresh column.
-/
import AITB.Props.C15Mdp

namespace AITB.FLP
open AITB.Factored AITB.VE

def Clean (r : CRow) : Prop := (r.ent.map (·.1)).Nodup

theorem nodupB_iff : ∀ (l : List Nat), nodupB l = true ↔ l.Nodup
  | [] => by simp [nodupB]
  | c :: cs => by
    simp only [nodupB, Bool.and_eq_true, Bool.not_eq_true', List.nodup_cons, nodupB_iff cs]
    constructor <;> rintro ⟨h1, h2⟩ <;> refine ⟨?_, h2⟩ <;> simpa using h1

theorem cleanB_iff (r : CRow) : r.cleanB = true ↔ Clean r := nodupB_iff _

/-! ## what `Clean` buys: the dense row has exactly the written coefficients -/

theorem denseSet_of_mem : ∀ (ent : List (Nat × Rat)), (ent.map (·.1)).Nodup → ∀ e ∈ ent, denseSet ent e.1 = e.2
  | [], _, e, h => by simp at h
  | x :: xs, hn, e, h => by
    simp only [List.map_cons, List.nodup_cons] at hn
    rcases List.mem_cons.mp h with h | h
    · subst h; simp [denseSet]
    · have hne : x.1 ≠ e.1 := by
        intro hc; exact hn.1 (hc ▸ List.mem_map.mpr ⟨e, h, rfl⟩)
      simp only [denseSet, hne, if_false]
      exact denseSet_of_mem xs hn.2 e h

theorem denseSet_of_not_mem : ∀ (ent : List (Nat × Rat)) (c : Nat), c ∉ ent.map (·.1) → denseSet ent c = 0
  | [], _, _ => rfl
  | x :: xs, c, h => by
    simp only [List.map_cons, List.mem_cons, not_or] at h
    have : x.1 ≠ c := fun hc => h.1 hc.symm
    simp only [denseSet, this, if_false]
    exact denseSet_of_not_mem xs c h.2

/-- for a clean row the dense coefficient of every written column is the written value, and every other column is 0 -/
theorem dense_of_clean (r : CRow) (h : Clean r) :
    (∀ e ∈ r.ent, r.dense e.1 = e.2) ∧ ∀ c, c ∉ r.ent.map (·.1) → r.dense c = 0 := by
  have hrev : (r.ent.reverse.map (·.1)).Nodup := by
    rw [List.map_reverse]; unfold List.Nodup; rw [List.pairwise_reverse]
    exact List.Pairwise.imp (fun hne => Ne.symm hne) h
  constructor
  · intro e he
    exact denseSet_of_mem r.ent.reverse hrev e (List.mem_reverse.mpr he)
  · intro c hc
    apply denseSet_of_not_mem
    rw [List.map_reverse]; intro hm; exact hc (List.mem_reverse.mp hm)

/-! ## columns of a state -/

def gCols (g : List LNode) : List Nat := g.flatMap (fun nd => nd.rules.map (·.2))
def allCols (st : GenSt) : List Nat := gCols st.graph ++ st.finals

theorem hit_sublist (A a : List Nat) (nd : LNode) : (hit A a nd).Sublist (nd.rules.map (·.2)) :=
  List.Sublist.map _ List.filter_sublist

theorem hits_sublist (A a : List Nat) : ∀ (g : List LNode), (hits A a g).Sublist (gCols g)
  | [] => by simp [hits, gCols]
  | nd :: g => by
    simp only [hits, gCols, List.flatMap_cons]
    exact List.Sublist.append (hit_sublist A a nd) (hits_sublist A a g)

theorem gCols_filter_sublist (p : LNode → Bool) : ∀ (g : List LNode), (gCols (g.filter p)).Sublist (gCols g)
  | [] => by simp [gCols]
  | nd :: g => by
    simp only [List.filter]
    cases p nd with
    | true =>
      simp only [gCols, List.flatMap_cons]
      exact List.Sublist.append (List.Sublist.refl _) (gCols_filter_sublist p g)
    | false =>
      simp only [gCols, List.flatMap_cons]
      exact List.Sublist.trans (gCols_filter_sublist p g) (List.sublist_append_right _ _)

theorem gCols_addRules_perm (keys : List Nat) (rs : List (Nat × Nat)) : ∀ (g : List LNode),
    (gCols (addRules keys rs g)).Perm (rs.map (·.2) ++ gCols g)
  | [] => by simp [addRules, gCols]
  | nd :: g => by
    simp only [addRules]
    by_cases h : nd.keys = keys
    · subst h
      simp only [beq_self_eq_true, if_true, gCols, List.flatMap_cons, List.map_append, List.append_assoc]
      exact List.perm_append_comm_assoc _ _ _
    · have h' : (nd.keys == keys) = false := by simpa using h
      simp only [h', Bool.false_eq_true, if_false, gCols, List.flatMap_cons]
      have ih := gCols_addRules_perm keys rs g
      simp only [gCols] at ih
      exact (List.Perm.append_left _ ih).trans (List.perm_append_comm_assoc _ _ _)

theorem gCols_addRule_perm (keys : List Nat) (r : Nat × Nat) : ∀ (g : List LNode),
    (gCols (addRule keys r g)).Perm (r.2 :: gCols g)
  | [] => by simp [addRule, gCols]
  | nd :: g => by
    simp only [addRule]
    by_cases h : nd.keys = keys
    · subst h
      simp only [beq_self_eq_true, if_true, gCols, List.flatMap_cons, List.map_append, List.map_cons, List.map_nil,
                 List.append_assoc, List.singleton_append]
      exact List.perm_middle
    · have h' : (nd.keys == keys) = false := by simpa using h
      simp only [h', Bool.false_eq_true, if_false, gCols, List.flatMap_cons]
      have ih := gCols_addRule_perm keys r g
      simp only [gCols] at ih
      exact (List.Perm.append_left _ ih).trans List.perm_middle

/-! ## the invariant -/

structure NInv (base sides : Nat) (st : GenSt) : Prop where
  nodup : (allCols st).Nodup
  low : ∀ c ∈ allCols st, base ≤ c
  high : ∀ c ∈ allCols st, c + sides ≤ st.ncols

def RClean (st : GenSt) : Prop := ∀ r ∈ st.rows, Clean r

theorem nodup_map_add (pos : List Nat) (d : Nat) (hp : pos.Nodup) : (pos.map (fun c => c + d)).Nodup := by
  unfold List.Nodup at *
  rw [List.pairwise_map]
  exact List.Pairwise.imp (fun h => by omega) hp

theorem veRows_clean (sides : Nat) (pos : List Nat) (neg : Nat) (hp : pos.Nodup) (hn : ∀ c ∈ pos, c < neg) :
    ∀ r ∈ veRows sides pos neg, Clean r := by
  intro r hr
  simp only [veRows, List.mem_map, List.mem_range] at hr
  obtain ⟨d, _, rfl⟩ := hr
  simp only [Clean, List.map_cons, List.map_map, List.nodup_cons]
  refine ⟨?_, ?_⟩
  · intro hm
    simp only [List.mem_map, Function.comp] at hm
    obtain ⟨c, hc, e⟩ := hm
    have := hn c hc
    omega
  · have : (pos.map ((fun x : Nat × Rat => x.1) ∘ fun c => (c + d, (1 : Rat)))) = pos.map (fun c => c + d) := by
      apply List.map_congr_left; intro c _; rfl
    rw [this]; exact nodup_map_add pos d hp

section cl
variable (A : List Nat) (n : Nat) (sides : Nat)

theorem overValues_clean (nb jv : List Nat) (v : Nat) (factors : List LNode) (col : Nat)
    (hfN : (gCols factors).Nodup) (hfH : ∀ c ∈ gCols factors, c < col) : ∀ (cnt k0 : Nat),
    ∀ r ∈ overValues A n sides nb jv v factors col cnt k0, Clean r
  | 0, _, r, hr => by simp [overValues] at hr
  | cnt+1, k0, r, hr => by
    simp only [overValues, List.mem_append] at hr
    rcases hr with hr | hr
    · have hs := hits_sublist A (listOf n (jvAsg nb jv v k0)) factors
      exact veRows_clean sides _ col (List.Pairwise.sublist hs hfN) (fun c hc => hfH c (hs.subset hc)) r hr
    · exact overValues_clean nb jv v factors col hfN hfH cnt (k0+1) r hr

theorem removeLoop_clean (base : Nat) (hs : 0 < sides) (nb : List Nat) (v : Nat) (factors : List LNode)
    (hfN : (gCols factors).Nodup) : ∀ (cnt j : Nat) (st : GenSt),
    (∀ c ∈ gCols factors, c < st.ncols) → base ≤ st.ncols → NInv base sides st → RClean st →
    NInv base sides (removeLoop A n sides nb v factors cnt j st) ∧ RClean (removeLoop A n sides nb v factors cnt j st)
  | 0, _, st, _, _, hn, hr => ⟨hn, hr⟩
  | cnt+1, j, st, hfH, hb, hn, hr => by
    rw [removeLoop_succ]
    have hfresh : st.ncols ∉ allCols st := fun hm => by have := hn.high _ hm; omega
    have hrows : ∀ r ∈ st.rows ++ overValues A n sides nb (toFactors (sel nb A) j) v factors st.ncols (A.getD v 0) 0, Clean r := by
      intro r hr'
      rcases List.mem_append.mp hr' with h | h
      · exact hr r h
      · exact overValues_clean A n sides nb _ v factors st.ncols hfN hfH _ 0 r h
    have step : ∀ (st' : GenSt), (allCols st').Perm (st.ncols :: allCols st) → st'.ncols = st.ncols + sides →
        st'.rows = st.rows ++ overValues A n sides nb (toFactors (sel nb A) j) v factors st.ncols (A.getD v 0) 0 →
        NInv base sides (removeLoop A n sides nb v factors cnt (j+1) st') ∧ RClean (removeLoop A n sides nb v factors cnt (j+1) st') := by
      intro st' hperm hnc hrw
      refine removeLoop_clean base hs nb v factors hfN cnt (j+1) st' (fun c hc => by have := hfH c hc; omega) (by omega) ?_ ?_
      · refine ⟨hperm.nodup_iff.mpr (List.nodup_cons.mpr ⟨hfresh, hn.nodup⟩), ?_, ?_⟩
        · intro c hc
          rcases List.mem_cons.mp (hperm.mem_iff.mp hc) with h | h
          · omega
          · exact hn.low c h
        · intro c hc
          rcases List.mem_cons.mp (hperm.mem_iff.mp hc) with h | h
          · omega
          · have := hn.high c h; omega
      · intro r hr'; rw [hrw] at hr'; exact hrows r hr'
    by_cases he : nb.isEmpty = true
    · simp only [he, if_true]
      refine step _ ?_ rfl rfl
      simp only [allCols, ← List.append_assoc]
      exact List.perm_append_singleton _ _
    · have he' : nb.isEmpty = false := by simpa using he
      simp only [he', Bool.false_eq_true, if_false]
      refine step _ ?_ rfl rfl
      simp only [allCols]
      exact (List.Perm.append_right _ (gCols_addRule_perm nb (j, st.ncols) st.graph))

theorem removeVar_clean (base : Nat) (hs : 0 < sides) (v : Nat) (st : GenSt) (hb : base ≤ st.ncols)
    (hn : NInv base sides st) (hr : RClean st) :
    NInv base sides (removeVar A n sides v st) ∧ RClean (removeVar A n sides v st) := by
  simp only [removeVar]
  obtain ⟨g, hg⟩ : ∃ g, g = (if (nbrs n v (st.graph.map (·.keys))).isEmpty || st.graph.any (fun nd => nd.keys == nbrs n v (st.graph.map (·.keys))) then st.graph else st.graph ++ [⟨nbrs n v (st.graph.map (·.keys)), []⟩]) := ⟨_, rfl⟩
  rw [← hg]
  have hgc : gCols g = gCols st.graph := by
    rw [hg]; split
    · rfl
    · simp [gCols]
  have hn' : NInv base sides { st with graph := g } := by
    refine ⟨?_, ?_, ?_⟩ <;> simp only [allCols, hgc]
    · exact hn.nodup
    · exact hn.low
    · exact hn.high
  have hsub := gCols_filter_sublist (fun nd => nd.keys.contains v) st.graph
  have hgn : (gCols st.graph).Nodup := (List.nodup_append.mp hn.nodup).1
  obtain ⟨h1, h2⟩ := removeLoop_clean A n sides base hs (nbrs n v (st.graph.map (·.keys))) v
    (st.graph.filter (fun nd => nd.keys.contains v)) (List.Pairwise.sublist hsub hgn)
    (spacePartial (nbrs n v (st.graph.map (·.keys))) A) 0 { st with graph := g }
    (fun c hc => by
      have := hn.high c (List.mem_append.mpr (Or.inl (hsub.subset hc)))
      simp only; omega) hb hn' hr
  refine ⟨⟨?_, ?_, ?_⟩, h2⟩
  · have hsub2 : (allCols { (removeLoop A n sides (nbrs n v (st.graph.map (·.keys))) v (st.graph.filter (fun nd => nd.keys.contains v))
        (spacePartial (nbrs n v (st.graph.map (·.keys))) A) 0 { st with graph := g }) with
        graph := (removeLoop A n sides (nbrs n v (st.graph.map (·.keys))) v (st.graph.filter (fun nd => nd.keys.contains v))
        (spacePartial (nbrs n v (st.graph.map (·.keys))) A) 0 { st with graph := g }).graph.filter (fun nd => !nd.keys.contains v) }).Sublist
        (allCols (removeLoop A n sides (nbrs n v (st.graph.map (·.keys))) v (st.graph.filter (fun nd => nd.keys.contains v))
        (spacePartial (nbrs n v (st.graph.map (·.keys))) A) 0 { st with graph := g })) := by
      simp only [allCols]
      exact List.Sublist.append (gCols_filter_sublist _ _) (List.Sublist.refl _)
    exact List.Pairwise.sublist hsub2 h1.nodup
  · intro c hc
    simp only [allCols, List.mem_append] at hc
    rcases hc with hc | hc
    · exact h1.low c (List.mem_append.mpr (Or.inl ((gCols_filter_sublist _ _).subset hc)))
    · exact h1.low c (List.mem_append.mpr (Or.inr hc))
  · intro c hc
    simp only [allCols, List.mem_append] at hc
    rcases hc with hc | hc
    · exact h1.high c (List.mem_append.mpr (Or.inl ((gCols_filter_sublist _ _).subset hc)))
    · exact h1.high c (List.mem_append.mpr (Or.inr hc))

omit A n sides in
theorem removeVar_ncols_ge (A : List Nat) (n sides v : Nat) (st : GenSt) : st.ncols ≤ (removeVar A n sides v st).ncols := by
  simp only [removeVar]
  rw [(removeLoop_rows A n sides (fun _ => 0) _ v _ _ 0 _).1]
  exact Nat.le_add_right _ _

theorem genLoop_clean (base : Nat) (hs : 0 < sides) : ∀ (fuel : Nat) (active : List Nat) (st : GenSt),
    base ≤ st.ncols → NInv base sides st → RClean st →
    NInv base sides (genLoop A n sides fuel active st) ∧ RClean (genLoop A n sides fuel active st)
  | 0, _, st, _, hn, hr => ⟨hn, hr⟩
  | fuel+1, [], st, _, hn, hr => ⟨hn, hr⟩
  | fuel+1, x :: xs, st, hb, hn, hr => by
    simp only [genLoop]
    obtain ⟨h1, h2⟩ := removeVar_clean A n sides base hs (bestVar A n (x :: xs) (st.graph.map (·.keys))) st hb hn hr
    have hb' : base ≤ (removeVar A n sides (bestVar A n (x :: xs) (st.graph.map (·.keys))) st).ncols :=
      le_trans hb (removeVar_ncols_ge A n sides _ st)
    exact genLoop_clean base hs fuel _ _ hb' h1 h2

end cl

/-! ## setup loops -/

theorem ninv_add_cols (base sides : Nat) (st st' : GenSt) (new : List Nat)
    (hperm : (allCols st').Perm (new ++ allCols st)) (hn : NInv base sides st) (hb : base ≤ st.ncols)
    (hnew : new.Nodup) (hlo : ∀ c ∈ new, st.ncols ≤ c) (hhi : ∀ c ∈ new, c + sides ≤ st'.ncols) (hs : 0 < sides)
    (hnc : st.ncols ≤ st'.ncols) : NInv base sides st' := by
  refine ⟨hperm.nodup_iff.mpr (List.nodup_append.mpr ⟨hnew, hn.nodup, ?_⟩), ?_, ?_⟩
  · intro a ha b hb' e
    have h1 := hlo a ha
    have h2 := hn.high b hb'
    omega
  · intro c hc
    rcases List.mem_append.mp (hperm.mem_iff.mp hc) with h | h
    · have := hlo c h; omega
    · exact hn.low c h
  · intro c hc
    rcases List.mem_append.mp (hperm.mem_iff.mp hc) with h | h
    · exact hhi c h
    · have := hn.high c h; omega

theorem entryLoop_cols (mk : Nat → Rat → List CRow) : ∀ (vals : List Rat) (i col : Nat),
    ((entryLoop mk vals i col).1.map (·.2)).Nodup ∧
    ∀ c ∈ (entryLoop mk vals i col).1.map (·.2), col ≤ c ∧ c + 2 ≤ col + 2 * vals.length
  | [], _, _ => by simp [entryLoop]
  | q :: qs, i, col => by
    obtain ⟨h1, h2⟩ := entryLoop_cols mk qs (i+1) (col+2)
    simp only [entryLoop, List.map_cons, List.nodup_cons, List.mem_cons, List.length_cons]
    refine ⟨⟨fun hm => by have := h2 col hm; omega, h1⟩, ?_⟩
    intro c hc
    rcases hc with rfl | hc
    · omega
    · have := h2 c hc; omega

/-- rows of a maker never write a column twice -/
def MkClean (mk : Nat → Rat → List CRow) (base : Nat) : Prop := ∀ col q, base ≤ col → ∀ r ∈ mk col q, Clean r

theorem addBasis_clean (mk : Nat → Rat → List CRow) (base : Nat) (hmk : MkClean mk base) (tag : List Nat) (vals : List Rat)
    (st : GenSt) (hb : base ≤ st.ncols) (hn : NInv base 2 st) (hr : RClean st) :
    NInv base 2 (addBasis mk tag vals st) ∧ RClean (addBasis mk tag vals st) := by
  obtain ⟨c1, c2⟩ := entryLoop_cols mk vals 0 st.ncols
  refine ⟨ninv_add_cols base 2 st _ ((entryLoop mk vals 0 st.ncols).1.map (·.2)) ?_ hn hb c1
      (fun c hc => (c2 c hc).1) (fun c hc => by have := (c2 c hc).2; simp only [addBasis]; omega) (by omega)
      (by simp only [addBasis]; omega), ?_⟩
  · simp only [allCols, addBasis, ← List.append_assoc]
    exact List.Perm.append_right _ (gCols_addRules_perm tag _ st.graph)
  · intro r hr'
    simp only [addBasis, List.mem_append] at hr'
    rcases hr' with h | h
    · exact hr r h
    · obtain ⟨t, _, hm⟩ := entryLoop_rows_mem mk vals 0 st.ncols r h
      exact hmk _ _ (by omega) r hm

theorem setupLoop_clean (mkOf : Nat → Nat → Rat → List CRow) (base kmax : Nat) (hmk : ∀ k, k < kmax → MkClean (mkOf k) base) :
    ∀ (L : List Basis) (k : Nat) (st : GenSt), k + L.length ≤ kmax → base ≤ st.ncols → NInv base 2 st → RClean st →
      NInv base 2 (setupLoop mkOf L k st) ∧ RClean (setupLoop mkOf L k st) ∧ base ≤ (setupLoop mkOf L k st).ncols
  | [], _, st, _, hb, hn, hr => ⟨hn, hr, hb⟩
  | f :: fs, k, st, hk, hb, hn, hr => by
    obtain ⟨h1, h2⟩ := addBasis_clean (mkOf k) base (hmk k (by simp at hk; omega)) f.tag f.vals st hb hn hr
    exact setupLoop_clean mkOf base kmax hmk fs (k+1) _ (by simp at hk ⊢; omega) (by simp only [addBasis]; omega) h1 h2

theorem flpCRows_clean (addConst : Bool) (constId : Nat) (cc : Rat) (k base : Nat) (hk : k < base) (hcid : constId < base)
    (hkc : k ≠ constId) : MkClean (flpCRows addConst constId cc k) base := by
  intro col q hb r hr
  cases addConst <;>
    simp only [flpCRows, List.mem_cons, List.mem_nil_iff, or_false, List.append_nil, List.cons_append, List.nil_append,
               if_true, if_false, Bool.false_eq_true] at hr <;>
    rcases hr with rfl | rfl <;>
    simp only [Clean, List.map_cons, List.map_nil, List.nodup_cons, List.mem_cons, List.mem_nil_iff, or_false, not_or,
               List.nodup_nil, and_true, not_false_eq_true] <;>
    omega

theorem flpBRows_clean (base : Nat) : MkClean flpBRows base := by
  intro col q _ r hr
  simp only [flpBRows, List.mem_cons, List.mem_nil_iff, or_false] at hr
  rcases hr with rfl | rfl <;> simp [Clean]

theorem flpFinalRows_clean (phi : Nat) (finals : List Nat) (hN : finals.Nodup) (hlow : ∀ c ∈ finals, phi < c) :
    ∀ r ∈ flpFinalRows phi finals, Clean r := by
  intro r hr
  simp only [flpFinalRows, List.mem_cons, List.mem_nil_iff, or_false] at hr
  rcases hr with rfl | rfl
  · simp only [Clean, List.map_cons, List.map_map, List.nodup_cons]
    have : finals.map ((fun x : Nat × Rat => x.1) ∘ fun c => (c, (1 : Rat))) = finals := by
      have e : ((fun x : Nat × Rat => x.1) ∘ fun c => (c, (1 : Rat))) = id := by funext c; rfl
      rw [e, List.map_id]
    rw [this]
    exact ⟨fun hm => by have := hlow phi hm; omega, hN⟩
  · simp only [Clean, List.map_cons, List.map_map, List.nodup_cons]
    have : finals.map ((fun x : Nat × Rat => x.1) ∘ fun c => (c + 1, (1 : Rat))) = finals.map (fun c => c + 1) := by
      apply List.map_congr_left; intro c _; rfl
    rw [this]
    refine ⟨fun hm => ?_, nodup_map_add finals 1 hN⟩
    obtain ⟨c, hc, e⟩ := List.mem_map.mp hm
    have := hlow c hc; omega

/-- **every row of the LP FactoredLP builds writes each column at most once**: the dense row lp_solve receives has exactly
    the coefficients the theorems sum (`dense_of_clean`) -/
theorem flpGen_clean (S : List Nat) (C b : List Basis) (addConst : Bool) : ∀ r ∈ (flpGen S C b addConst).1, r.cleanB = true := by
  obtain ⟨phi, hphi⟩ : ∃ phi, phi = flpPhi C addConst := ⟨_, rfl⟩
  have hphiC : C.length ≤ phi := by rw [hphi]; simp only [flpPhi]; omega
  have init : NInv (phi + 1) 2 (⟨[], [], phi + 1, []⟩ : GenSt) :=
    ⟨by simp [allCols, gCols], fun c hc => by simp [allCols, gCols] at hc, fun c hc => by simp [allCols, gCols] at hc⟩
  have initr : RClean (⟨[], [], phi + 1, []⟩ : GenSt) := fun r hr => by simp at hr
  have hmkC : ∀ k, k < C.length → MkClean (flpCRows addConst (phi - 1) (constCoeff C) k) (phi + 1) := by
    intro k hk
    by_cases hc : addConst = true
    · have : phi = C.length + 1 := by rw [hphi]; simp [flpPhi, hc]
      exact flpCRows_clean addConst (phi - 1) (constCoeff C) k (phi + 1) (by omega) (by omega) (by omega)
    · have hc' : addConst = false := by simpa using hc
      subst hc'
      intro col q hb r hr
      simp only [flpCRows, List.mem_cons, List.mem_nil_iff, or_false, List.append_nil, if_false, Bool.false_eq_true] at hr
      rcases hr with rfl | rfl <;>
        simp only [Clean, List.map_cons, List.map_nil, List.nodup_cons, List.mem_cons, List.mem_nil_iff, or_false,
                   List.nodup_nil, and_true, not_false_eq_true] <;> omega
  obtain ⟨n1, r1, b1⟩ := setupLoop_clean _ (phi + 1) C.length hmkC C 0 ⟨[], [], phi + 1, []⟩ (by omega) (le_refl _) init initr
  obtain ⟨n2, r2, b2⟩ := setupLoop_clean (fun _ => flpBRows) (phi + 1) b.length (fun k _ => flpBRows_clean (phi + 1)) b 0 _ (by omega) b1 n1 r1
  have hst0 : flpSetup C b addConst = setupLoop (fun _ => flpBRows) b 0
      (setupLoop (flpCRows addConst (phi - 1) (constCoeff C)) C 0 ⟨[], [], phi + 1, []⟩) := by
    simp only [flpSetup, hphi]
    rw [flpSetupC_eq, flpSetupB_eq _ 0]
  obtain ⟨n3, r3⟩ := genLoop_clean S S.length 2 (phi + 1) (by omega) S.length (List.range S.length) _ b2 n2 r2
  intro r hr
  rw [cleanB_iff]
  have hgen : (flpGen S C b addConst).1 = (genRun S S.length 2 (flpSetup C b addConst)).rows
      ++ flpFinalRows (flpPhi C addConst) (genRun S S.length 2 (flpSetup C b addConst)).finals := rfl
  rw [hgen, hst0] at hr
  simp only [genRun] at hr
  rcases List.mem_append.mp hr with h | h
  · exact r3 r h
  · rw [← hphi] at h
    refine flpFinalRows_clean phi _ ?_ ?_ r h
    · exact (List.nodup_append.mp n3.nodup).2.1
    · intro c hc
      have := n3.low c (List.mem_append.mpr (Or.inr hc)); omega

/-! ## the factored-MDP LP -/

theorem consec_cols : ∀ (E : List (Nat × Nat × Rat)) (col : Nat), Consec col E →
    ((entRules E).map (·.2)).Nodup ∧ ∀ c ∈ (entRules E).map (·.2), col ≤ c ∧ c + 1 ≤ col + E.length
  | [], _, _ => by simp [entRules]
  | e :: es, col, hc => by
    obtain ⟨h1, h2⟩ := consec_cols es (col+1) hc.2
    simp only [entRules, List.map_cons, List.nodup_cons, List.mem_cons, List.length_cons] at h1 h2 ⊢
    refine ⟨⟨fun hm => by have := h2 _ hm; have := hc.1; omega, h1⟩, ?_⟩
    intro c hcm
    rcases hcm with rfl | hcm
    · have := hc.1; omega
    · have := h2 c hcm; omega

def MkClean1 (mk : Nat → Rat → CRow) (base : Nat) : Prop := ∀ c q, base ≤ c → Clean (mk c q)

theorem addEntries_clean (mk : Nat → Rat → CRow) (base : Nat) (hmk : MkClean1 mk base) (keys : List Nat)
    (E : List (Nat × Nat × Rat)) (st : GenSt) (hE : Consec st.ncols E) (hb : base ≤ st.ncols) (hn : NInv base 1 st) (hr : RClean st) :
    NInv base 1 (addEntries mk keys E st) ∧ RClean (addEntries mk keys E st) := by
  obtain ⟨c1, c2⟩ := consec_cols E st.ncols hE
  have hlen : (entRules E).length = E.length := by simp [entRules]
  refine ⟨ninv_add_cols base 1 st _ ((entRules E).map (·.2)) ?_ hn hb c1
      (fun c hc => (c2 c hc).1) (fun c hc => by have := (c2 c hc).2; simp only [addEntries, mdpApply, hlen]; omega) (by omega)
      (by simp only [addEntries, mdpApply]; omega), ?_⟩
  · simp only [allCols, addEntries, mdpApply, ← List.append_assoc]
    exact List.Perm.append_right _ (gCols_addRules_perm keys _ st.graph)
  · intro r hr'
    simp only [addEntries, mdpApply, List.mem_append, List.mem_map] at hr'
    rcases hr' with h | ⟨e, he, rfl⟩
    · exact hr r h
    · have := consec_bounds E st.ncols hE e he
      exact hmk _ _ (by omega)

theorem itemsLoop_clean (mkOf : Nat → Nat → Rat → CRow) (base kmax : Nat) (hmk : ∀ k, k < kmax → MkClean1 (mkOf k) base) :
    ∀ (L : List Item) (k : Nat) (st : GenSt), k + L.length ≤ kmax → base ≤ st.ncols → NInv base 1 st → RClean st →
      NInv base 1 (itemsLoop mkOf L k st) ∧ RClean (itemsLoop mkOf L k st) ∧ base ≤ (itemsLoop mkOf L k st).ncols
  | [], _, st, _, hb, hn, hr => ⟨hn, hr, hb⟩
  | it :: its, k, st, hk, hb, hn, hr => by
    obtain ⟨h1, h2⟩ := addEntries_clean (mkOf k) base (hmk k (by simp at hk; omega)) it.keys _ st
      (mdpEntries_consec it.idx it.vals 0 st.ncols) hb hn hr
    exact itemsLoop_clean mkOf base kmax hmk its (k+1) _ (by simp at hk ⊢; omega) (by simp only [addEntries, mdpApply]; omega) h1 h2

theorem mkH_clean (k base : Nat) (hk : k < base) : MkClean1 (mkH k) base := by
  intro c q hb
  simp only [Clean, mkH, List.map_cons, List.map_nil, List.nodup_cons, List.mem_cons, List.mem_nil_iff, or_false,
             List.nodup_nil, and_true, not_false_eq_true]
  omega

theorem mkG_clean (γ : Rat) (k base : Nat) (hk : k < base) : MkClean1 (mkG γ k) base := by
  intro c q hb
  simp only [Clean, mkG, List.map_cons, List.map_nil, List.nodup_cons, List.mem_cons, List.mem_nil_iff, or_false,
             List.nodup_nil, and_true, not_false_eq_true]
  omega

theorem mkR_clean (k base : Nat) : MkClean1 (mkR k) base := by
  intro c q _; simp [Clean, mkR]

theorem mdpFinalRows_clean (joined : Bool) (finals : List Nat) (hN : finals.Nodup) : ∀ r ∈ mdpFinalRows joined finals, Clean r := by
  intro r hr
  cases joined with
  | true =>
    simp only [mdpFinalRows, if_true, List.mem_cons, List.mem_nil_iff, or_false] at hr
    subst hr
    simp only [Clean, List.map_map]
    have e : ((fun x : Nat × Rat => x.1) ∘ fun c => (c, (1 : Rat))) = id := by funext c; rfl
    rw [e, List.map_id]; exact hN
  | false =>
    simp only [mdpFinalRows, Bool.false_eq_true, if_false, List.mem_map] at hr
    obtain ⟨c, _, rfl⟩ := hr
    simp [Clean]

/-- **every row of the LP `solveLP` builds writes each column at most once** (needs one back-projected matrix per basis) -/
theorem mdpGen_clean (joined : Bool) (S A : List Nat) (γ : Rat) (h : List Basis) (g R : List BasisM) (hgl : g.length = h.length) :
    ∀ r ∈ (mdpGen joined S A γ h g R).1, r.cleanB = true := by
  obtain ⟨K, hK⟩ : ∃ K, K = h.length := ⟨_, rfl⟩
  have init : NInv K 1 (⟨[], [], K, []⟩ : GenSt) :=
    ⟨by simp [allCols, gCols], fun c hc => by simp [allCols, gCols] at hc, fun c hc => by simp [allCols, gCols] at hc⟩
  have initr : RClean (⟨[], [], K, []⟩ : GenSt) := fun r hr => by simp at hr
  obtain ⟨n1, r1, b1⟩ := itemsLoop_clean mkH K h.length (fun k hk => mkH_clean k K (by omega)) (h.map itemH) 0 ⟨[], [], K, []⟩
    (by simp) (le_refl _) init initr
  obtain ⟨n2, r2, b2⟩ := itemsLoop_clean (mkG γ) K g.length (fun k hk => mkG_clean γ k K (by omega)) (g.map (itemM S A)) 0 _
    (by simp) b1 n1 r1
  obtain ⟨n3, r3, b3⟩ := itemsLoop_clean mkR K R.length (fun k _ => mkR_clean k K) (R.map (itemM S A)) 0 _ (by simp) b2 n2 r2
  have hst0 : mdpSetup S A γ h g R = itemsLoop mkR (R.map (itemM S A)) 0
      (itemsLoop (mkG γ) (g.map (itemM S A)) 0 (itemsLoop mkH (h.map itemH) 0 ⟨[], [], K, []⟩)) := by
    simp only [mdpSetup]
    rw [mdpSetupH_eq, mdpSetupG_eq, mdpSetupR_eq S A R 0, hK]
  obtain ⟨n4, r4⟩ := genLoop_clean (S ++ A) (S ++ A).length 1 K (by omega) (S ++ A).length (List.range (S ++ A).length) _ b3 n3 r3
  intro r hr
  rw [cleanB_iff]
  rw [mdpGen_rows, hst0] at hr
  simp only [genRun] at hr
  rcases List.mem_append.mp hr with hx | hx
  · exact r4 r hx
  · exact mdpFinalRows_clean joined _ (List.nodup_append.mp n4.nodup).2.1 r hx

end AITB.FLP
