/-
  AITB.Props.C03Qmdp — QMDP as run by the library (MDP value iteration from 0): after `h` steps the plane surface `max_a x·Q_h(:,a)`
  dominates the `h`-step POMDP optimum `H^h 0` at every belief (the clause `QMDP below_finite_horizon_optimum` of the driver), and
  the same from any start that dominates a sublinear sub-solution (infinite-horizon form).
-/
import AITB.Props.C03Refs
import AITB.Props.C03Anytime

namespace AITB.POMDP3
open AITB.MDP

/-- `max_a Q(s,a)` as a state-value vector -/
def rowMax (A : Nat) (Q : Nat → Nat → Rat) : Nat → Rat := fun s => maxTo (A - 1) (Q s)

theorem qmdpStep_eq (m : POMDP) (Q : Nat → Nat → Rat) (s a : Nat) : qmdpStep m Q s a = blindStep m a (rowMax m.A Q) s := rfl

/-- look-ahead on `x ↦ x · rowMax Q` is the plane surface of the next QMDP iterate -/
theorem Hop_linV_rowMax (m : POMDP) (hv : Valid m) (Q : Nat → Nat → Rat) (x : Nat → Rat) :
    Hop m (linV m.S (rowMax m.A Q)) x = basicVal m.S m.A (qmdpStep m Q) x := by
  unfold Hop basicVal
  refine maxTo_congr (fun a _ => ?_)
  rw [qval_linV m hv]
  rfl

theorem basicVal_le_linV_rowMax (m : POMDP) (hv : Valid m) (Q : Nat → Nat → Rat) (x : Nat → Rat) (hx : NN x) :
    basicVal m.S m.A Q x ≤ linV m.S (rowMax m.A Q) x := by
  unfold basicVal
  refine maxTo_le_of_le _ _ _ (fun a ha => ?_)
  exact sumTo_le (fun s _ => mul_le_mul_of_nonneg_left (maxTo_ge (m.A - 1) (Q s) a ha) (hx s))

/-- **qmdp_finite_upper**: `H^k V0 ≤ x·rowMax Q` implies `H^(k+n) V0 ≤ max_a x·(QMDP^n Q)(:,a)` for `n ≥ 1`; with `V0 = 0`, `Q = 0`:
    the `h`-step QMDP surface dominates the `h`-step POMDP optimum -/
theorem qmdp_iter_upper (m : POMDP) (hv : Valid m) (V0 : (Nat → Rat) → Rat) (n : Nat) :
    ∀ (k : Nat) (Q : Nat → Nat → Rat), (∀ x, NN x → iterH m V0 k x ≤ linV m.S (rowMax m.A Q) x) →
      ∀ x, NN x → iterH m V0 (k + (n + 1)) x ≤ basicVal m.S m.A (Nat.iterate (qmdpStep m) (n + 1) Q) x := by
  induction n with
  | zero =>
    intro k Q h x hx
    show Hop m (iterH m V0 k) x ≤ _
    refine le_trans (Hop_mono m hv _ _ h x hx) ?_
    rw [Hop_linV_rowMax m hv]
    exact le_refl _
  | succ n ih =>
    intro k Q h x hx
    have h1 : ∀ y, NN y → iterH m V0 (k + 1) y ≤ linV m.S (rowMax m.A (qmdpStep m Q)) y := by
      intro y hy
      show Hop m (iterH m V0 k) y ≤ _
      refine le_trans (Hop_mono m hv _ _ h y hy) ?_
      rw [Hop_linV_rowMax m hv]
      exact basicVal_le_linV_rowMax m hv _ y hy
    have := ih (k + 1) (qmdpStep m Q) h1 x hx
    have e : k + (n + 1 + 1) = k + 1 + (n + 1) := by omega
    rw [e]; exact this

theorem qmdp_finite_upper (m : POMDP) (hv : Valid m) (h : Nat) (x : Nat → Rat) (hx : NN x) :
    iterH m (fun _ => 0) (h + 1) x ≤ basicVal m.S m.A (Nat.iterate (qmdpStep m) (h + 1) (fun _ _ => 0)) x := by
  have := qmdp_iter_upper m hv (fun _ => 0) h 0 (fun _ _ => 0) (fun y hy => by
    show (0 : Rat) ≤ linV m.S (rowMax m.A (fun _ _ => 0)) y
    unfold linV dotS
    exact sumTo_nonneg (fun s _ => mul_nonneg (hy s) (by
      unfold rowMax
      exact le_trans (le_refl 0) (maxTo_ge (m.A - 1) (fun _ => (0 : Rat)) 0 (Nat.zero_le _))))) x hx
  rw [Nat.zero_add] at this; exact this

/-- a QMDP step preserves `QSound` (it dominates the FIB step, which does) -/
theorem qmdpStep_sound (m : POMDP) (hv : Valid m) (V : (Nat → Rat) → Rat) (hV : Sublin m.S V) (hsub : SubSol m V)
    (Q : Nat → Nat → Rat) (hQ : QSound m V Q) : QSound m V (qmdpStep m Q) := by
  intro s hs a ha
  exact le_trans (fibStep_sound m hv V hV hsub Q hQ s hs a ha) (qmdp_ge_fib_step m hv Q Q (fun _ _ _ _ => le_refl _) s hs a ha)

end AITB.POMDP3

namespace AITB.POMDP3
open AITB.MDP

/-- the sawtooth form: for a stored point `(p,u)` and a ratio `c ≥ 0` with `c·p ≤ x` componentwise,
    `x·cv + c·(u − p·cv)` is an interpolated value of the surface in the sense of `IsInterp` (corner weights `x − c·p`, weight `c` on `p`).
    C12's `sawtooth_repaired_cases` shows the modelled `sawtoothInterpolation` returns the plane value or exactly this form. -/
theorem sawtooth_form_isInterp (m : POMDP) (st : AState) (x p : Nat → Rat) (u c : Rat) (hP : st.P p u) (hc : 0 ≤ c)
    (hle : ∀ s, s < m.S → c * p s ≤ x s) :
    IsInterp m st x (dotS m.S x (cornerVal m.A st.Q) + c * (u - dotS m.S p (cornerVal m.A st.Q))) := by
  right
  refine ⟨1, fun _ => p, fun _ => u, fun s => x s - c * p s, fun _ => c, fun i _ => hP, fun s hs => by have := hle s hs; linarith,
    fun _ _ => hc, fun s _ => by simp [sumTo], ?_⟩
  unfold interpVal dotS
  simp only [sumTo, zero_add]
  have e : sumTo m.S (fun s => (x s - c * p s) * cornerVal m.A st.Q s)
      = sumTo m.S (fun s => x s * cornerVal m.A st.Q s) - c * sumTo m.S (fun s => p s * cornerVal m.A st.Q s) := by
    rw [← sumTo_mul_left, ← sumTo_sub]
    exact sumTo_congr (fun s _ => by ring)
  rw [e]; ring

end AITB.POMDP3
