/-
  AITB.Props.C04b — pruning moves whole entries (property C04, mechanism "pruning permutes whole VEntries").

  `extractDominated` and `Pruner::operator()` are modelled on an array of VEntries with `iter_swap` as the only
  write.  For every input list, every tolerance outcome and EVERY behaviour of the LP (an arbitrary oracle), the
  kept range is a sub-multiset of the input entries: values, action and links always travel together.
-/
import AITB.Model.PlanOps

namespace AITB.Plan

theorem swapIfInBounds_perm (arr : Array VEntry) (i j : Nat) : (arr.swapIfInBounds i j).Perm arr := by
  unfold Array.swapIfInBounds
  split
  · split
    · exact Array.swap_perm _ _
    · exact Array.Perm.refl _
  · exact Array.Perm.refl _

theorem xdInner_perm (S optEnd : Nat) : ∀ (k : Nat) (arr : Array VEntry) (target en : Nat),
    (xdInner S optEnd k arr target en).1.Perm arr
  | 0, arr, target, en => by simp [xdInner]
  | k+1, arr, target, en => by
    simp only [xdInner]
    split
    · exact (xdInner_perm S optEnd k _ _ _).trans (swapIfInBounds_perm _ _ _)
    · exact xdInner_perm S optEnd k _ _ _

theorem xdLoop_perm (S : Nat) : ∀ (f : Nat) (arr : Array VEntry) (optEnd en : Nat),
    (xdLoop S f arr optEnd en).1.Perm arr
  | 0, arr, optEnd, en => by simp [xdLoop]
  | f+1, arr, optEnd, en => by
    simp only [xdLoop]
    split
    · split
      · exact xdLoop_perm S f _ _ _
      · exact (xdLoop_perm S f _ _ _).trans ((swapIfInBounds_perm _ _ _).trans (xdInner_perm S optEnd _ _ _ _))
    · exact Array.Perm.refl _

theorem extractDominatedArr_perm (S : Nat) (arr : Array VEntry) (en : Nat) :
    (extractDominatedArr S arr en).1.Perm arr := by
  unfold extractDominatedArr
  split
  · exact Array.Perm.refl _
  · exact xdLoop_perm S _ _ _ _

theorem take_sub_of_perm {arr : Array VEntry} {l : VList} (h : arr.Perm l.toArray) (en : Nat) :
    ∃ rest, (arr.toList.take en ++ rest).Perm l :=
  ⟨arr.toList.drop en, by rw [List.take_append_drop]; simpa using h.toList⟩

/-- **prune_moves_whole_entries (extractDominated).**  The kept prefix together with some discarded entries is a
    permutation of the input: no entry is altered, split or duplicated. -/
theorem extractDominated_moves_whole_entries (S : Nat) (l : VList) :
    ∃ rest, (extractDominated S l ++ rest).Perm l :=
  take_sub_of_perm (extractDominatedArr_perm S l.toArray l.length) _

theorem cornersLoop_perm (S en : Nat) : ∀ (ss : List Nat) (arr : Array VEntry) (bound : Nat),
    (cornersLoop S en ss arr bound).1.Perm arr
  | [], arr, bound => by simp [cornersLoop]
  | s :: ss, arr, bound => by
    simp only [cornersLoop]
    split
    · exact (cornersLoop_perm S en ss _ _).trans (swapIfInBounds_perm _ _ _)
    · exact cornersLoop_perm S en ss _ _

theorem witnessLoop_perm (S : Nat) (wit : List VEntry → VEntry → Option (Nat → Rat)) :
    ∀ (f : Nat) (arr : Array VEntry) (bound en : Nat), (witnessLoop S wit f arr bound en).1.Perm arr
  | 0, arr, bound, en => by simp [witnessLoop]
  | f+1, arr, bound, en => by
    simp only [witnessLoop]
    split
    · split
      · exact (witnessLoop_perm S wit f _ _ _).trans (swapIfInBounds_perm _ _ _)
      · exact witnessLoop_perm S wit f _ _ _
    · exact Array.Perm.refl _

theorem prunerArr_perm (S : Nat) (wit : List VEntry → VEntry → Option (Nat → Rat)) (arr : Array VEntry) (en : Nat) :
    (prunerArr S wit arr en).1.Perm arr := by
  unfold prunerArr
  simp only []
  split
  · exact extractDominatedArr_perm S arr en
  · exact (witnessLoop_perm S wit _ _ _ _).trans ((cornersLoop_perm S _ _ _ _).trans (extractDominatedArr_perm S arr en))

/-- **prune_moves_whole_entries (Pruner).**  For EVERY answer sequence of the witness LP. -/
theorem pruner_moves_whole_entries (S : Nat) (wit : List VEntry → VEntry → Option (Nat → Rat)) (l : VList) :
    ∃ rest, (pruner S wit l ++ rest).Perm l :=
  take_sub_of_perm (prunerArr_perm S wit l.toArray l.length) _

/-- consequence used by the value-function theorems: every kept entry IS an input entry (same values, action, links) -/
theorem mem_of_mem_pruner (S : Nat) (wit : List VEntry → VEntry → Option (Nat → Rat)) (l : VList) (e : VEntry)
    (h : e ∈ pruner S wit l) : e ∈ l := by
  obtain ⟨rest, hp⟩ := pruner_moves_whole_entries S wit l
  exact hp.mem_iff.mp (List.mem_append_left _ h)

theorem mem_of_mem_extractDominated (S : Nat) (l : VList) (e : VEntry) (h : e ∈ extractDominated S l) : e ∈ l := by
  obtain ⟨rest, hp⟩ := extractDominated_moves_whole_entries S l
  exact hp.mem_iff.mp (List.mem_append_left _ h)

/-- the theorem's hypothesis-free statement instantiated on a concrete, non-trivial list -/
example : ∃ rest, (extractDominated 2 [⟨[1, 0], 7, [70]⟩, ⟨[0, 0], 8, [80]⟩, ⟨[0, 1], 9, [90]⟩] ++ rest).Perm
    [⟨[1, 0], 7, [70]⟩, ⟨[0, 0], 8, [80]⟩, ⟨[0, 1], 9, [90]⟩] := extractDominated_moves_whole_entries 2 _

-- TEST (compiled evaluation, not a proof): the middle entry is dominated and dropped; tags stay attached to their values
#guard (extractDominated 2 [⟨[1, 0], 7, [70]⟩, ⟨[0, 0], 8, [80]⟩, ⟨[0, 1], 9, [90]⟩]).map (fun e => (e.action, e.obs)) = [(9, [90]), (7, [70])]

end AITB.Plan
