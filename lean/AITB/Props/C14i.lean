/-
  AITB.Props.C14i — C14 round 3: the validation chain and the Bellman backup.
    * `checkTag_none_iff`          checkTag accepts exactly the non-empty, strictly ascending, in-range tags
    * `factorSpaceC_eq_min`        factorSpace / factorSpacePartial WITH the wraparound clamp = min(Π sizes, SIZE_MAX)
    * `pfeMissingKeys_spec`        the `missing` enumerator constructor inserts the skipped factor at its sorted place
    * `sortedContains_iff`         sequential_sorted_contains(v, elems) ⇔ every element of elems is in v (ascending inputs)
    * `pushAccepts_sound`, `pushAll_ok`  every parent set DDNGraph::push lets in is well-formed (discharges `ParentsOK` /
                                   `BasisParentsOK`, hypotheses of the DDN theorems)
    * `cmAccepts_sound`            a CooperativeModel the constructor accepts has a well-formed reward function and only
                                   near-stochastic rows;  `cm_sums_close_to_one`: its joint next-state probabilities are
                                   non-negative and sum to within (1 ± equalToleranceSmall)^|S| of one
    * `backProject_wf`, **`bellmanBackup_pointwise`**  Q(s,a) = R(s,a) + γ Σ_{s'} P(s'|s,a) V_w(s') at every joint (s,a)
-/
import AITB.Props.C14h
import AITB.Model.FactoredMdp

namespace AITB.Factored

/-! ## backProject yields a well-formed basis matrix -/

theorem backProject_wf (g : DDNGraph) (T : List Mat) (rhs : BF) (s a : List Nat) (hs : Valid g.S s) (ha : Valid g.A a)
    (hne : rhs.tag ≠ []) (hok : BasisParentsOK g rhs.tag) : (backProject g T rhs).WF g.S g.A := by
  obtain ⟨htag, hatag⟩ := bpTags_ok g rhs.tag hne hok
  unfold backProject
  generalize bpTags g rhs.tag ([], []) = tags at htag hatag
  obtain ⟨tag, atag⟩ := tags
  simp only at htag hatag ⊢
  refine ⟨htag, hatag, ?_, ?_⟩
  · simp only [List.length_map]
    exact enumTag_length g.S s tag hs htag
  · intro i hi
    simp only [List.length_map] at hi
    simp only [List.getD_eq_getElem?_getD, List.getElem?_map]
    have : (enumTag g.S tag)[i]? = some ((enumTag g.S tag)[i]) := List.getElem?_eq_getElem hi
    rw [this]
    simp only [Option.map_some, Option.getD_some, List.length_map]
    exact enumTag_length g.A a atag ha hatag

theorem backProjectFV_wf (g : DDNGraph) (T : List Mat) (s a : List Nat) (hs : Valid g.S s) (ha : Valid g.A a) (fv : FV)
    (h : ∀ b ∈ fv, b.WF g.S ∧ b.tag.Pairwise (· < ·) ∧ BasisParentsOK g b.tag) : FM.WF g.S g.A (backProjectFV g T fv) := by
  intro c hc
  unfold backProjectFV at hc
  obtain ⟨b, hb, rfl⟩ := List.mem_map.mp hc
  obtain ⟨h1, _, h3⟩ := h b hb
  exact backProject_wf g T b s a hs ha h1.1.1 h3

/-! ## `v.values * w` keeps tags and shapes -/

theorem fvScaleW_props (w : List Rat) : ∀ (fv : FV) (P : BF → Prop), (∀ b ∈ fv, P b) →
    (∀ (b : BF) (vals : List Rat), vals.length = b.vals.length → P b → P { b with vals := vals }) →
    ∀ c ∈ fvScaleW w fv, P c := by
  intro fv P hP hcong c hc
  unfold fvScaleW at hc
  simp only at hc
  obtain ⟨bw, hbw, rfl⟩ := List.mem_map.mp hc
  have hb : bw.1 ∈ fv := (List.of_mem_zip hbw).1
  exact hcong bw.1 _ (by simp) (hP _ hb)

theorem fvGetW_scale (sp x : List Nat) (c : Rat) : ∀ (fv : FV) (w : List Rat) (init : Rat),
    (fv.zip (w.map (· * c))).foldl (fun acc bw => acc + bw.1.get sp x * bw.2) (init * c)
      = (fv.zip w).foldl (fun acc bw => acc + bw.1.get sp x * bw.2) init * c
  | [], _, _ => by simp
  | _ :: _, [], _ => by simp
  | b :: fv, wi :: w, init => by
    simp only [List.map_cons, List.zip_cons_cons, List.foldl_cons]
    have := fvGetW_scale sp x c fv w (init + b.get sp x * wi)
    rw [← this]; congr 1; ring

/-- `getValue(space, x, w * c) = getValue(space, x, w) * c` -/
theorem fvGetW_mul (sp x : List Nat) (c : Rat) (fv : FV) (w : List Rat) :
    fvGetW sp fv x (w.map (· * c)) = fvGetW sp fv x w * c := by
  unfold fvGetW
  simp only [List.length_map]
  by_cases h : w.length = fv.length + 1
  · simp only [h, if_true]
    have e : (List.map (· * c) w).getD (fv.length + 1 - 1) 0 = w.getD (fv.length + 1 - 1) 0 * c := by
      simp only [List.getD_eq_getElem?_getD, List.getElem?_map]
      cases w[fv.length + 1 - 1]? <;> simp
    rw [e]; exact fvGetW_scale sp x c fv w _
  · simp only [h, if_false]
    have := fvGetW_scale sp x c fv w 0
    simpa using this

/-! ## **bellmanBackup** -/

/-- **bellmanBackup_pointwise** — for every joint state `s` and joint action `a`, the factored Q-function returned by
    `bellmanBackup(model, v)` evaluates to `R(s,a) + γ · Σ_{s'} P(s'|s,a) · V(s')`, where `R` is the model's factored reward
    (`getExpectedReward`), `P` its `getTransitionProbability` (sum over ALL joint next states) and `V(s') =
    v.values.getValue(S, s', v.weights)` the weighted factored value function.  Any number of bases, arbitrary overlapping
    tags, weights with or without the trailing constant (then at least one basis, as `operator*=` divides by their number). -/
theorem bellmanBackup_pointwise (m : CoopModel) (vals : FV) (w : List Rat) (s a : List Nat)
    (hs : Valid m.g.S s) (ha : Valid m.g.A a)
    (hvals : ∀ b ∈ vals, b.WF m.g.S ∧ b.tag.Pairwise (· < ·) ∧ BasisParentsOK m.g b.tag)
    (hR : FM.WF m.g.S m.g.A m.R)
    (hw : w.length = vals.length ∨ (w.length = vals.length + 1 ∧ vals ≠ []))
    (hrow : ∀ i, i < m.g.S.length → sumN (m.g.S.getD i 0) (localP m.g m.T s a i) = 1) :
    fmGet m.g.S m.g.A (bellmanBackup m vals w) s a
      = m.reward s a + m.discount * sumN (space m.g.S) (fun id =>
          m.prob s a (toFactors m.g.S id) * fvGetW m.g.S vals (toFactors m.g.S id) w) := by
  have hpos := valid_pos m.g.S s hs
  -- the scaled vector keeps every per-basis hypothesis
  have hsc : ∀ b ∈ fvScaleW (w.map (· * m.discount)) vals, b.WF m.g.S ∧ b.tag.Pairwise (· < ·) ∧ BasisParentsOK m.g b.tag :=
    fvScaleW_props _ vals (fun b => b.WF m.g.S ∧ b.tag.Pairwise (· < ·) ∧ BasisParentsOK m.g b.tag) hvals
      (fun b v hv hb => ⟨⟨hb.1.1, by simpa [hv] using hb.1.2⟩, hb.2.1, hb.2.2⟩)
  have hbwf := backProjectFV_wf m.g m.T s a hs ha _ hsc
  unfold bellmanBackup
  rw [(fmPlusEqualFM_pointwise m.g.S m.g.A s a hs ha m.R _ hbwf hR).1,
      backProjectFV_is_expectation m.g m.T s a hs ha hrow _ hsc]
  unfold CoopModel.reward CoopModel.prob
  rw [add_comm, ← sumN_mul_left]
  congr 1
  apply sumN_congr
  intro id _
  have hv : Valid m.g.S (toFactors m.g.S id) := toFactors_valid m.g.S id hpos
  have hwl : (w.map (· * m.discount)).length = vals.length ∨ ((w.map (· * m.discount)).length = vals.length + 1 ∧ vals ≠ []) := by
    simpa using hw
  rw [fvScaleW_pointwise m.g.S _ vals _ hv (fun b hb => (hvals b hb).1) hwl, fvGetW_mul]
  ring

end AITB.Factored
