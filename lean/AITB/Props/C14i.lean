/-
  AITB.Props.C14i — C14 round 3: the validation chain and the Bellman backup.
    * `checkTag_none_iff`          checkTag accepts exactly the non-empty, strictly ascending, in-range tags
    * `factorSpaceC_eq_min`        factorSpace / factorSpacePartial WITH the wraparound clamp = min(Π sizes, SIZE_MAX)
    * `pfeMissingKeys_spec`        the `missing` enumerator constructor inserts the skipped factor at its sorted place
    * `sortedContains_iff`         sequential_sorted_contains(v, elems) ⇔ every element of elems is in v (ascending inputs)
    * `pushAccepts_sound`, `pushAll_ok`  every parent set DDNGraph::push lets in is well-formed (discharges `ParentsOK` /
                                   `BasisParentsOK`, hypotheses of the DDN theorems)
    * `cmAccepts_sound`            a CooperativeModel the constructor accepts has a well-formed reward function and only
                                   near-stochastic rows;  `cm_sums_close_to_one`: its joint next-state probabilities are
                                   non-negative and sum to within (1 ± equalToleranceSmall)^|S| of one
    * `backProject_wf`, **`bellmanBackup_pointwise`**  Q(s,a) = R(s,a) + γ Σ_{s'} P(s'|s,a) V_w(s') at every joint (s,a)
-/
import AITB.Props.C14h
import AITB.Model.FactoredMdp

namespace AITB.Factored

/-! ## backProject yields a well-formed basis matrix -/

theorem backProject_wf (g : DDNGraph) (T : List Mat) (rhs : BF) (s a : List Nat) (hs : Valid g.S s) (ha : Valid g.A a)
    (hne : rhs.tag ≠ []) (hok : BasisParentsOK g rhs.tag) : (backProject g T rhs).WF g.S g.A := by
  obtain ⟨htag, hatag⟩ := bpTags_ok g rhs.tag hne hok
  unfold backProject
  generalize bpTags g rhs.tag ([], []) = tags at htag hatag
  obtain ⟨tag, atag⟩ := tags
  simp only at htag hatag ⊢
  refine ⟨htag, hatag, ?_, ?_⟩
  · simp only [List.length_map]
    exact enumTag_length g.S s tag hs htag
  · intro i hi
    simp only [List.length_map] at hi
    simp only [List.getD_eq_getElem?_getD, List.getElem?_map]
    have : (enumTag g.S tag)[i]? = some ((enumTag g.S tag)[i]) := List.getElem?_eq_getElem hi
    rw [this]
    simp only [Option.map_some, Option.getD_some, List.length_map]
    exact enumTag_length g.A a atag ha hatag

theorem backProjectFV_wf (g : DDNGraph) (T : List Mat) (s a : List Nat) (hs : Valid g.S s) (ha : Valid g.A a) (fv : FV)
    (h : ∀ b ∈ fv, b.WF g.S ∧ b.tag.Pairwise (· < ·) ∧ BasisParentsOK g b.tag) : FM.WF g.S g.A (backProjectFV g T fv) := by
  intro c hc
  unfold backProjectFV at hc
  obtain ⟨b, hb, rfl⟩ := List.mem_map.mp hc
  obtain ⟨h1, _, h3⟩ := h b hb
  exact backProject_wf g T b s a hs ha h1.1.1 h3

/-! ## `v.values * w` keeps tags and shapes -/

theorem fvScaleW_props (w : List Rat) : ∀ (fv : FV) (P : BF → Prop), (∀ b ∈ fv, P b) →
    (∀ (b : BF) (vals : List Rat), vals.length = b.vals.length → P b → P { b with vals := vals }) →
    ∀ c ∈ fvScaleW w fv, P c := by
  intro fv P hP hcong c hc
  unfold fvScaleW at hc
  simp only at hc
  obtain ⟨bw, hbw, rfl⟩ := List.mem_map.mp hc
  have hb : bw.1 ∈ fv := (List.of_mem_zip hbw).1
  exact hcong bw.1 _ (by simp) (hP _ hb)

theorem fvGetW_scale (sp x : List Nat) (c : Rat) : ∀ (fv : FV) (w : List Rat) (init : Rat),
    (fv.zip (w.map (· * c))).foldl (fun acc bw => acc + bw.1.get sp x * bw.2) (init * c)
      = (fv.zip w).foldl (fun acc bw => acc + bw.1.get sp x * bw.2) init * c
  | [], _, _ => by simp
  | _ :: _, [], _ => by simp
  | b :: fv, wi :: w, init => by
    simp only [List.map_cons, List.zip_cons_cons, List.foldl_cons]
    have := fvGetW_scale sp x c fv w (init + b.get sp x * wi)
    rw [← this]; congr 1; ring

/-- `getValue(space, x, w * c) = getValue(space, x, w) * c` -/
theorem fvGetW_mul (sp x : List Nat) (c : Rat) (fv : FV) (w : List Rat) :
    fvGetW sp fv x (w.map (· * c)) = fvGetW sp fv x w * c := by
  unfold fvGetW
  simp only [List.length_map]
  by_cases h : w.length = fv.length + 1
  · simp only [h, if_true]
    have e : (List.map (· * c) w).getD (fv.length + 1 - 1) 0 = w.getD (fv.length + 1 - 1) 0 * c := by
      simp only [List.getD_eq_getElem?_getD, List.getElem?_map]
      cases w[fv.length + 1 - 1]? <;> simp
    rw [e]; exact fvGetW_scale sp x c fv w _
  · simp only [h, if_false]
    have := fvGetW_scale sp x c fv w 0
    simpa using this

/-! ## **bellmanBackup** -/

/-- **bellmanBackup_pointwise** — for every joint state `s` and joint action `a`, the factored Q-function returned by
    `bellmanBackup(model, v)` evaluates to `R(s,a) + γ · Σ_{s'} P(s'|s,a) · V(s')`, where `R` is the model's factored reward
    (`getExpectedReward`), `P` its `getTransitionProbability` (sum over ALL joint next states) and `V(s') =
    v.values.getValue(S, s', v.weights)` the weighted factored value function.  Any number of bases, arbitrary overlapping
    tags, weights with or without the trailing constant (then at least one basis, as `operator*=` divides by their number). -/
theorem bellmanBackup_pointwise (m : CoopModel) (vals : FV) (w : List Rat) (s a : List Nat)
    (hs : Valid m.g.S s) (ha : Valid m.g.A a)
    (hvals : ∀ b ∈ vals, b.WF m.g.S ∧ b.tag.Pairwise (· < ·) ∧ BasisParentsOK m.g b.tag)
    (hR : FM.WF m.g.S m.g.A m.R)
    (hw : w.length = vals.length ∨ (w.length = vals.length + 1 ∧ vals ≠ []))
    (hrow : ∀ i, i < m.g.S.length → sumN (m.g.S.getD i 0) (localP m.g m.T s a i) = 1) :
    fmGet m.g.S m.g.A (bellmanBackup m vals w) s a
      = m.reward s a + m.discount * sumN (space m.g.S) (fun id =>
          m.prob s a (toFactors m.g.S id) * fvGetW m.g.S vals (toFactors m.g.S id) w) := by
  have hpos := valid_pos m.g.S s hs
  -- the scaled vector keeps every per-basis hypothesis
  have hsc : ∀ b ∈ fvScaleW (w.map (· * m.discount)) vals, b.WF m.g.S ∧ b.tag.Pairwise (· < ·) ∧ BasisParentsOK m.g b.tag :=
    fvScaleW_props _ vals (fun b => b.WF m.g.S ∧ b.tag.Pairwise (· < ·) ∧ BasisParentsOK m.g b.tag) hvals
      (fun b v hv hb => ⟨⟨hb.1.1, by simpa [hv] using hb.1.2⟩, hb.2.1, hb.2.2⟩)
  have hbwf := backProjectFV_wf m.g m.T s a hs ha _ hsc
  unfold bellmanBackup
  rw [(fmPlusEqualFM_pointwise m.g.S m.g.A s a hs ha m.R _ hbwf hR).1,
      backProjectFV_is_expectation m.g m.T s a hs ha hrow _ hsc]
  unfold CoopModel.reward CoopModel.prob
  rw [add_comm, ← sumN_mul_left]
  congr 1
  apply sumN_congr
  intro id _
  have hv : Valid m.g.S (toFactors m.g.S id) := toFactors_valid m.g.S id hpos
  have hwl : (w.map (· * m.discount)).length = vals.length ∨ ((w.map (· * m.discount)).length = vals.length + 1 ∧ vals ≠ []) := by
    simpa using hw
  rw [fvScaleW_pointwise m.g.S _ vals _ hv (fun b hb => (hvals b hb).1) hwl, fvGetW_mul]
  ring


/-! ## checkTag -/

theorem checkTagLoop_none_iff (n : Nat) : ∀ (r : List Nat) (prev t : Nat),
    (checkTagLoop n prev t r).1 = TagErr.none ↔ (prev :: r).Pairwise (· < ·) ∧ ∀ k ∈ r, k < n
  | [], prev, t => by simp [checkTagLoop]
  | v :: r, prev, t => by
    have ih := checkTagLoop_none_iff n r v (t + 1)
    unfold checkTagLoop
    split_ifs with h1 h2 h3
    · simp only [false_iff]
      rintro ⟨_, hlt⟩
      exact absurd (hlt v (List.mem_cons_self ..)) (by omega)
    · simp only [false_iff]
      rintro ⟨hp, _⟩
      have := (List.pairwise_cons.mp hp).1 v (List.mem_cons_self ..)
      omega
    · simp only [false_iff]
      rintro ⟨hp, _⟩
      have := (List.pairwise_cons.mp hp).1 v (List.mem_cons_self ..)
      omega
    · rw [ih]
      constructor
      · rintro ⟨hp, hlt⟩
        refine ⟨List.pairwise_cons.mpr ⟨?_, hp⟩, ?_⟩
        · intro k hk
          rcases List.mem_cons.mp hk with rfl | hk
          · omega
          · have := (List.pairwise_cons.mp hp).1 k hk
            omega
        · intro k hk
          rcases List.mem_cons.mp hk with rfl | hk
          · omega
          · exact hlt k hk
      · rintro ⟨hp, hlt⟩
        exact ⟨(List.pairwise_cons.mp hp).2, fun k hk => hlt k (List.mem_cons_of_mem _ hk)⟩

/-- a strictly ascending list of naturals below `n` has at most `n` entries (why `TooManyElements` is implied by the other tests) -/
theorem sorted_length_le (n : Nat) : ∀ (r : List Nat) (v : Nat), (v :: r).Pairwise (· < ·) → (∀ k ∈ v :: r, k < n) →
    r.length + v + 1 ≤ n
  | [], v, _, h => by have := h v (List.mem_cons_self ..); simp; omega
  | w :: r, v, hp, h => by
    have hvw : v < w := (List.pairwise_cons.mp hp).1 w (List.mem_cons_self ..)
    have ih := sorted_length_le n r w (List.pairwise_cons.mp hp).2 (fun k hk => h k (List.mem_cons_of_mem _ hk))
    simp only [List.length_cons]; omega

/-- **checkTag_none_iff** — `checkTag(space, tag)` reports `TagErrors::None` exactly for the non-empty, strictly ascending
    tags whose ids are all below `space.size()`: the precondition (`TagOK` + sortedness) of every algebra / DDN theorem -/
theorem checkTag_none_iff (sp tag : List Nat) :
    (checkTag sp tag).1 = TagErr.none ↔ tag ≠ [] ∧ tag.Pairwise (· < ·) ∧ ∀ k ∈ tag, k < sp.length := by
  cases tag with
  | nil => simp [checkTag]
  | cons v0 r =>
    unfold checkTag
    simp only
    split_ifs with h1 h2
    · simp only [false_iff]
      rintro ⟨_, hp, hlt⟩
      have := sorted_length_le sp.length r v0 hp hlt
      simp only [List.length_cons] at h1; omega
    · simp only [false_iff]
      rintro ⟨_, _, hlt⟩
      have := hlt v0 (List.mem_cons_self ..); omega
    · rw [checkTagLoop_none_iff]
      constructor
      · rintro ⟨hp, hlt⟩
        refine ⟨by simp, hp, ?_⟩
        intro k hk
        rcases List.mem_cons.mp hk with rfl | hk
        · omega
        · exact hlt k hk
      · rintro ⟨_, hp, hlt⟩
        exact ⟨hp, fun k hk => hlt k (List.mem_cons_of_mem _ hk)⟩

theorem tagAccepted_iff (sp tag : List Nat) :
    tagAccepted sp tag = true ↔ TagOK sp tag ∧ tag.Pairwise (· < ·) := by
  unfold tagAccepted TagOK
  rw [beq_iff_eq, checkTag_none_iff]
  tauto

example : tagAccepted [2, 3, 2] [0, 2] = true ∧ (checkTag [2, 3, 2] [2, 0]) = (TagErr.notSorted, 1)
    ∧ (checkTag [2, 3] [1, 1]) = (TagErr.duplicates, 1) ∧ (checkTag [2, 3] [0, 2]) = (TagErr.idTooHigh, 1)
    ∧ (checkTag [2, 3] [0, 1, 2]) = (TagErr.tooManyElements, 0) := by decide   -- test on literals

/-! ## factorSpace with the wraparound clamp -/

theorem spaceClamp_eq (M : Nat) : ∀ (sp : List Nat) (r : Nat), (∀ f ∈ sp, 0 < f) → r ≤ M →
    spaceClamp M sp r = min (r * space sp) M
  | [], r, _, hr => by simp only [spaceClamp, space]; omega
  | f :: fs, r, h, hr => by
    have hf := h f (List.mem_cons_self ..)
    have hsp : 0 < space fs := space_pos fs (fun d hd => h d (List.mem_cons_of_mem _ hd))
    unfold spaceClamp
    simp only [Nat.div_lt_iff_lt_mul hf]
    split_ifs with hlt
    · simp only [space]
      have h1 : r * f ≤ r * (f * space fs) := Nat.mul_le_mul_left r (Nat.le_mul_of_pos_right f hsp)
      omega
    · rw [spaceClamp_eq M fs (r * f) (fun d hd => h d (List.mem_cons_of_mem _ hd)) (by omega)]
      simp only [space]; rw [Nat.mul_assoc]

/-- **factorSpaceC_eq_min** — with every factor size ≥ 1, `factorSpace(space)` as written (early return of `SIZE_MAX` when
    `SIZE_MAX / f < retval`) is exactly `min(Π sizes, SIZE_MAX)`: the clamp never fires below the true product and the
    unclamped model `space` is the code whenever the product fits -/
theorem factorSpaceC_eq_min (M : Nat) (sp : List Nat) (h : ∀ f ∈ sp, 0 < f) (hM : 1 ≤ M) :
    factorSpaceC M sp = min (space sp) M := by
  unfold factorSpaceC; rw [spaceClamp_eq M sp 1 h hM]; simp

theorem factorSpacePartialC_eq_min (M : Nat) (keys sp : List Nat) (h : ∀ f ∈ sel keys sp, 0 < f) (hM : 1 ≤ M) :
    factorSpacePartialC M keys sp = min (spacePartial keys sp) M := by
  unfold factorSpacePartialC spacePartial; rw [spaceClamp_eq M _ 1 h hM]; simp

example : factorSpaceC 255 [4, 4, 4, 4, 3] = 255 ∧ factorSpaceC 255 [4, 4, 4, 3] = 192 ∧ factorSpaceC 255 [16, 16] = 255
    ∧ factorSpaceC 255 [5, 51] = 255 := by decide   -- test on literals (8-bit size_t)

/-! ## the `missing` constructor of PartialFactorsEnumerator -/

/-- **pfeMissingKeys_spec** — for ascending `factors` not containing `factorToSkip`, the key list the constructor builds is
    ascending, holds exactly `factorToSkip` and the given factors, and `factorToSkipId_` is the position of `factorToSkip` -/
theorem pfeMissingKeys_spec (skipF : Nat) : ∀ (fs : List Nat) (j : Nat), fs.Pairwise (· < ·) → skipF ∉ fs →
    (pfeMissingKeys skipF fs j).1.Pairwise (· < ·) ∧ (∀ k, k ∈ (pfeMissingKeys skipF fs j).1 ↔ k = skipF ∨ k ∈ fs) ∧
    j ≤ (pfeMissingKeys skipF fs j).2 ∧ (pfeMissingKeys skipF fs j).1.getD ((pfeMissingKeys skipF fs j).2 - j) 0 = skipF ∧
    (pfeMissingKeys skipF fs j).1.length = fs.length + 1
  | [], j, _, _ => by simp [pfeMissingKeys]
  | f :: fs, j, hp, hn => by
    unfold pfeMissingKeys
    by_cases hlt : skipF < f
    · simp only [hlt, if_true]
      refine ⟨List.pairwise_cons.mpr ⟨?_, hp⟩, by intro k; simp, Nat.le_refl _, by simp, by simp⟩
      intro k hk
      rcases List.mem_cons.mp hk with rfl | hk
      · exact hlt
      · have := (List.pairwise_cons.mp hp).1 k hk; omega
    · simp only [hlt, if_false]
      have hne : skipF ≠ f := fun e => hn (e ▸ List.mem_cons_self ..)
      have hfl : f < skipF := by omega
      obtain ⟨i1, i2, i3, i4, i5⟩ := pfeMissingKeys_spec skipF fs (j + 1) (List.pairwise_cons.mp hp).2
        (fun h => hn (List.mem_cons_of_mem _ h))
      refine ⟨List.pairwise_cons.mpr ⟨?_, i1⟩, ?_, by omega, ?_, by simp [i5]⟩
      · intro k hk
        rcases (i2 k).mp hk with rfl | hk
        · exact hfl
        · exact (List.pairwise_cons.mp hp).1 k hk
      · intro k
        simp only [List.mem_cons, i2 k]; tauto
      · have : (pfeMissingKeys skipF fs (j + 1)).2 - j = ((pfeMissingKeys skipF fs (j + 1)).2 - (j + 1)) + 1 := by omega
        rw [this]; simpa using i4

example : pfeMissingKeys 2 [0, 1, 3] 0 = ([0, 1, 2, 3], 2) ∧ pfeMissingKeys 5 [0, 3] 0 = ([0, 3, 5], 2)
    ∧ pfeMissingKeys 0 [1] 0 = ([0, 1], 0) := by decide   -- test on literals

/-! ## sequential_sorted_contains: completeness (the merge of `plusEqual` is taken whenever a tag is a subset of the other) -/

theorem containsScan_complete : ∀ (v e : List Nat), v.Pairwise (· < ·) → e.Pairwise (· < ·) → (∀ k ∈ e, k ∈ v) →
    containsScan v e = true := by
  intro v e
  induction v, e using containsScan.induct with
  | case1 v => intro _ _ _; simp [containsScan]
  | case2 e es => intro _ _ h; exact absurd (h e (List.mem_cons_self ..)) (by simp)
  | case3 a v e es hlt ih =>
    intro hv he h
    rw [containsScan]; simp only [hlt, if_true]
    apply ih (List.pairwise_cons.mp hv).2 he
    intro k hk
    rcases List.mem_cons.mp (h k hk) with rfl | hk'
    · rcases List.mem_cons.mp hk with rfl | hk2
      · omega
      · have := (List.pairwise_cons.mp he).1 k hk2; omega
    · exact hk'
  | case4 a v e es h1 h2 =>
    intro hv _ h
    rcases List.mem_cons.mp (h e (List.mem_cons_self ..)) with rfl | hk'
    · omega
    · have := (List.pairwise_cons.mp hv).1 e hk'; omega
  | case5 a v e es h1 h2 ih =>
    intro hv he h
    rw [containsScan]; simp only [h1, h2, if_false]
    have hae : a = e := by omega
    apply ih (List.pairwise_cons.mp hv).2 (List.pairwise_cons.mp he).2
    intro k hk
    have hek := (List.pairwise_cons.mp he).1 k hk
    rcases List.mem_cons.mp (h k (List.mem_cons_of_mem _ hk)) with rfl | hk'
    · omega
    · exact hk'

/-- **sortedContains_iff** — on strictly ascending inputs with `|elems| ≤ |v|` (what the callers guarantee),
    `sequential_sorted_contains(v, elems)` holds exactly when every element of `elems` occurs in `v` -/
theorem sortedContains_iff (v e : List Nat) (hv : v.Pairwise (· < ·)) (he : e.Pairwise (· < ·)) (_hl : e.length ≤ v.length) :
    sortedContains v e = true ↔ ∀ k ∈ e, k ∈ v := by
  constructor
  · intro h k hk; exact (sortedContains_sublist v e h).subset hk
  · intro h
    have hs := containsScan_sublist v e (containsScan_complete v e hv he h)
    unfold sortedContains
    by_cases hlen : v.length = e.length
    · simp only [hlen, if_true, beq_iff_eq]
      exact (hs.eq_of_length hlen.symm).symm
    · simp only [hlen, if_false]
      exact containsScan_complete v e hv he h

example : sortedContains [0, 2, 5] [2, 5] = true ∧ sortedContains [0, 2, 5] [2, 6] = false
    ∧ sortedContains [0, 1] [3] = false := by
  refine ⟨?_, ?_, ?_⟩ <;> simp [sortedContains, containsScan]   -- test on literals (a small tag with a key above the big one's largest)

/-! ## DDNGraph::push lets in well-formed parent sets only -/

/-- a parent set as `push` wants it -/
def PSOK (S A : List Nat) (ps : ParentSet) : Prop :=
  TagOK A ps.agents ∧ ps.agents.Pairwise (· < ·) ∧ ps.features.length = spacePartial ps.agents A ∧
  ∀ f ∈ ps.features, TagOK S f ∧ f.Pairwise (· < ·)

theorem pushAccepts_sound (S A : List Nat) (n : Nat) (ps : ParentSet) (h : pushAccepts S A n ps = true) :
    n ≠ S.length ∧ PSOK S A ps := by
  unfold pushAccepts at h
  simp only [Bool.and_eq_true, bne_iff_ne, ne_eq, beq_iff_eq, List.all_eq_true] at h
  obtain ⟨⟨⟨h1, h2⟩, h3⟩, h4⟩ := h
  obtain ⟨a1, a2⟩ := (tagAccepted_iff A ps.agents).mp h2
  exact ⟨h1, a1, a2, h3, fun f hf => (tagAccepted_iff S f).mp (h4 f hf)⟩

/-- **pushAll_ok** — whatever sequence of parent sets is offered to `push` (well-formed or not), the graph holds at most
    `|S|` nodes and every one of them is well-formed -/
theorem pushAll_ok (S A : List Nat) : ∀ (todo acc : List ParentSet), (∀ p ∈ acc, PSOK S A p) → acc.length ≤ S.length →
    (∀ p ∈ pushAll S A acc todo, PSOK S A p) ∧ (pushAll S A acc todo).length ≤ S.length
  | [], acc, h, hl => by simpa [pushAll] using ⟨h, hl⟩
  | p :: todo, acc, h, hl => by
    unfold pushAll
    by_cases hp : pushAccepts S A acc.length p = true
    · simp only [hp, if_true]
      obtain ⟨hn, hok⟩ := pushAccepts_sound S A acc.length p hp
      apply pushAll_ok S A todo (acc ++ [p])
      · intro q hq
        rcases List.mem_append.mp hq with hq | hq
        · exact h q hq
        · simp at hq; subst hq; exact hok
      · simp; omega
    · simp only [hp]
      exact pushAll_ok S A todo acc h hl

theorem getD_of_lt {α} (l : List α) (j : Nat) (d : α) (h : j < l.length) : l.getD j d = l[j] := by
  simp [List.getD_eq_getElem?_getD, List.getElem?_eq_getElem h]

theorem sel_pos (keys l : List Nat) (hk : ∀ k ∈ keys, k < l.length) (hl : ∀ d ∈ l, 0 < d) : ∀ d ∈ sel keys l, 0 < d := by
  intro d hd
  unfold sel at hd
  obtain ⟨k, hk', rfl⟩ := List.mem_map.mp hd
  have hlt := hk k hk'
  have : l.getD k 0 = l[k] := by simp [List.getD_eq_getElem?_getD, List.getElem?_eq_getElem hlt]
  rw [this]; exact hl _ (List.getElem_mem hlt)

/-- a graph all of whose nodes went through `push` meets the hypotheses `ParentsOK` / `BasisParentsOK` of the DDN theorems -/
theorem pushed_graph_ok (g : DDNGraph) (h : ∀ p ∈ g.parents, PSOK g.S g.A p) (hA : ∀ d ∈ g.A, 0 < d) :
    (∀ i, i < g.parents.length → ParentsOK g i) ∧ ∀ U : List Nat, (∀ d ∈ U, d < g.parents.length) → BasisParentsOK g U := by
  have key : ∀ i, i < g.parents.length → PSOK g.S g.A (g.ps i) := by
    intro i hi
    have : g.ps i = g.parents[i] := by
      unfold DDNGraph.ps; simp [List.getD_eq_getElem?_getD, List.getElem?_eq_getElem hi]
    rw [this]; exact h _ (List.getElem_mem hi)
  constructor
  · intro i hi
    obtain ⟨a1, _, a3, a4⟩ := key i hi
    exact ⟨a1.2, a3, fun f hf => (a4 f hf).1.2⟩
  · intro U hU d hd
    obtain ⟨a1, _, a3, a4⟩ := key d (hU d hd)
    refine ⟨a1, ?_, fun f hf => (a4 f hf).1⟩
    intro he
    have hpos : 0 < spacePartial (g.ps d).agents g.A := space_pos _ (sel_pos _ _ a1.2 hA)
    rw [he] at a3; simp at a3; omega

example : (pushAll [2, 2] [2] [] [ParentSet.mk [0] [[0], [0, 1]], ParentSet.mk [1] [[0]], ParentSet.mk [0] [[1, 0], [1]],
    ParentSet.mk [0] [[1], [1]], ParentSet.mk [0] [[1], [1]]]).map (fun p => (p.agents, p.features))
      = [([0], [[0], [0, 1]]), ([0], [[1], [1]])] := by
  decide   -- test on literals: agent id too high, unsorted feature tag and a third node are all refused

/-! ## CooperativeModel: what an accepted model guarantees -/

/-- a transition row as the constructor leaves it: right length, non-negative, sum within `equalToleranceSmall` of one -/
def RowOK (n : Nat) (row : List Rat) : Prop :=
  row.length = n ∧ (∀ v ∈ row, 0 ≤ v) ∧ absQ (sumList row - 1) ≤ AITB.Gen.equalToleranceSmall

theorem rewardBasisOK_wf (S A : List Nat) (r : BM) (h : rewardBasisOK S A r = true) : r.WF S A := by
  unfold rewardBasisOK at h
  simp only [Bool.and_eq_true, beq_iff_eq, List.all_eq_true] at h
  obtain ⟨⟨⟨h1, h2⟩, h3⟩, h4⟩ := h
  refine ⟨((tagAccepted_iff S r.tag).mp h2).1, ((tagAccepted_iff A r.atag).mp h1).1, h4, ?_⟩
  intro i hi
  have : r.vals.getD i [] = r.vals[i] := by simp [List.getD_eq_getElem?_getD, List.getElem?_eq_getElem hi]
  rw [this]; exact h3 _ (List.getElem_mem hi)

/-- **cmAccepts_sound** — a model the `CooperativeModel` constructor accepts has a discount in (0,1], one transition matrix
    per state factor with `getSize(i)` rows, every row of which is a near-distribution over `S[i]` values, and a well-formed
    factored reward (hypothesis `FM.WF` of `bellmanBackup_pointwise`) -/
theorem cmAccepts_sound (m : CoopModel) (h : cmAccepts m = true) :
    0 < m.discount ∧ m.discount ≤ 1 ∧ m.g.parents.length = m.g.S.length ∧ FM.WF m.g.S m.g.A m.R ∧
    ∀ i, i < m.g.S.length → (m.T.getD i []).length = m.g.getSize i ∧
      ∀ j, j < m.g.getSize i → RowOK (m.g.S.getD i 0) ((m.T.getD i []).getD j []) := by
  unfold cmAccepts at h
  simp only [Bool.and_eq_true, decide_eq_true_eq, beq_iff_eq, List.all_eq_true, List.mem_range] at h
  obtain ⟨⟨⟨⟨⟨⟨⟨d1, d2⟩, _⟩, _⟩, hp⟩, _⟩, hT⟩, hR⟩ := h
  refine ⟨d1, d2, hp, fun b hb => rewardBasisOK_wf _ _ b (hR b hb), ?_⟩
  intro i hi
  obtain ⟨⟨t1, t2⟩, t3⟩ := hT i hi
  refine ⟨t1, ?_⟩
  intro j hj
  have hjl : j < (m.T.getD i []).length := by omega
  rw [getD_of_lt (m.T.getD i []) j [] hjl]
  have hmem := List.getElem_mem hjl
  have hlen := t2 _ hmem
  have hprob := t3 _ hmem
  unfold isProbRow at hprob
  simp only [Bool.and_eq_true, List.all_eq_true, decide_eq_true_eq] at hprob
  have htake : List.take (m.g.S.getD i 0) (m.T.getD i [])[j] = (m.T.getD i [])[j] := List.take_of_length_le (by omega)
  rw [htake] at hprob
  exact ⟨hlen, hprob.1, hprob.2⟩


/-! ## the joint next-state distribution of an accepted model -/

/-- product of the local row sums -/
def prodRowSums (F : Nat → Nat → Rat) : Nat → List Nat → Rat
  | _, [] => 1
  | pos, d :: ds => sumN d (F pos) * prodRowSums F (pos + 1) ds

/-- the sum over all joint values of the product of local terms is the product of the local sums (no normalisation assumed) -/
theorem sum_prodOver_gen (F : Nat → Nat → Rat) : ∀ (ds : List Nat) (pos : Nat), (∀ d ∈ ds, 0 < d) →
    sumN (space ds) (fun id => prodOver F pos (toFactors ds id)) = prodRowSums F pos ds
  | [], _, _ => by simp [space, sumN, toFactors, prodOver, prodRowSums]
  | d :: ds, pos, hpos => by
    have hd : 0 < d := hpos d (List.mem_cons_self ..)
    have ih := sum_prodOver_gen F ds (pos + 1) (fun e he => hpos e (List.mem_cons_of_mem _ he))
    simp only [space, toFactors, prodOver, prodRowSums]
    rw [sumN_divmod d (space ds) hd (fun v q => F pos v * prodOver F (pos + 1) (toFactors ds q))]
    have : ∀ q, sumN d (fun v => F pos v * prodOver F (pos + 1) (toFactors ds q))
        = sumN d (F pos) * prodOver F (pos + 1) (toFactors ds q) := by
      intro q; rw [sumN_mul_right]
    simp only [this]
    rw [sumN_mul_left, ih]

theorem prodRowSums_bounds (F : Nat → Nat → Rat) (ε : Rat) (h0 : 0 ≤ ε) (h1 : ε ≤ 1) : ∀ (ds : List Nat) (pos : Nat),
    (∀ i, i < ds.length → 1 - ε ≤ sumN (ds.getD i 0) (F (pos + i)) ∧ sumN (ds.getD i 0) (F (pos + i)) ≤ 1 + ε) →
    (1 - ε) ^ ds.length ≤ prodRowSums F pos ds ∧ prodRowSums F pos ds ≤ (1 + ε) ^ ds.length
  | [], _, _ => by simp [prodRowSums]
  | d :: ds, pos, h => by
    obtain ⟨l0, u0⟩ : 1 - ε ≤ sumN d (F pos) ∧ sumN d (F pos) ≤ 1 + ε := by simpa using h 0 (by simp)
    obtain ⟨li, ui⟩ := prodRowSums_bounds F ε h0 h1 ds (pos + 1)
      (fun i hi => by have := h (i + 1) (by simpa using hi); simpa [Nat.add_assoc, Nat.add_comm 1 i] using this)
    simp only [prodRowSums, List.length_cons, pow_succ]
    have a : 0 ≤ 1 - ε := by linarith
    have b : 0 ≤ (1 - ε) ^ ds.length := pow_nonneg a _
    constructor
    · calc (1 - ε) ^ ds.length * (1 - ε) = (1 - ε) * (1 - ε) ^ ds.length := by ring
        _ ≤ sumN d (F pos) * prodRowSums F (pos + 1) ds := mul_le_mul l0 li b (by linarith)
    · calc sumN d (F pos) * prodRowSums F (pos + 1) ds ≤ (1 + ε) * (1 + ε) ^ ds.length :=
            mul_le_mul u0 ui (by linarith) (by linarith)
        _ = (1 + ε) ^ ds.length * (1 + ε) := by ring

theorem sumN_getD_eq_sumList : ∀ (row : List Rat), sumN row.length (fun v => row.getD v 0) = sumList row
  | [] => by simp [sumN, sumList]
  | x :: row => by
    have ih := sumN_getD_eq_sumList row
    simp only [List.length_cons]
    rw [sumN_succ_left]
    unfold sumList at ih ⊢
    simp only [List.foldl_cons, List.getD_cons_zero, List.getD_cons_succ]
    rw [foldl_sum_init row (0 + x), ih]; ring

/-- **cm_sums_close_to_one** — for a model the `CooperativeModel` constructor accepted over a graph built by `push`, and every
    joint state / action, the probabilities `getTransitionProbability(s, a, ·)` of ALL joint next states sum to within
    `(1 ± equalToleranceSmall)^|S|` of one: this is what "the local probabilities sum to one" means for accepted `double` input
    (and it is exactly one when the rows are exact distributions, `ddn_sums_to_one`). -/
theorem cm_sums_close_to_one (m : CoopModel) (hacc : cmAccepts m = true) (hg : ∀ p ∈ m.g.parents, PSOK m.g.S m.g.A p)
    (s a : List Nat) (hs : Valid m.g.S s) (ha : Valid m.g.A a) :
    (1 - AITB.Gen.equalToleranceSmall) ^ m.g.S.length ≤ sumN (space m.g.S) (fun id => m.prob s a (toFactors m.g.S id)) ∧
    sumN (space m.g.S) (fun id => m.prob s a (toFactors m.g.S id)) ≤ (1 + AITB.Gen.equalToleranceSmall) ^ m.g.S.length := by
  obtain ⟨_, _, hlen, _, hrows⟩ := cmAccepts_sound m hacc
  have hposS := valid_pos m.g.S s hs
  have hposA := valid_pos m.g.A a ha
  obtain ⟨hPOK, _⟩ := pushed_graph_ok m.g hg hposA
  have e : ∀ id, m.prob s a (toFactors m.g.S id) = prodOver (localP m.g m.T s a) 0 (toFactors m.g.S id) :=
    fun id => ddn_product m.g m.T s a _ (toFactors_length m.g.S id)
  simp only [e]
  rw [sum_prodOver_gen (localP m.g m.T s a) m.g.S 0 hposS]
  apply prodRowSums_bounds _ _ (by unfold AITB.Gen.equalToleranceSmall; norm_num) (by unfold AITB.Gen.equalToleranceSmall; norm_num)
  intro i hi
  obtain ⟨_, hrow⟩ := hrows i hi
  have hlt := getId_lt_size m.g i s a hs ha (hPOK i (by omega))
  obtain ⟨r1, _, r3⟩ := hrow _ hlt
  have hs' : sumN (m.g.S.getD i 0) (localP m.g m.T s a (0 + i)) = sumList ((m.T.getD i []).getD (m.g.getId i s a) []) := by
    rw [← r1, ← sumN_getD_eq_sumList]
    apply sumN_congr
    intro v _
    simp [localP, Mat.at]
  rw [hs']
  unfold absQ at r3
  split_ifs at r3 with hneg <;> constructor <;> linarith


/-! ## non-vacuity: a concrete two-factor model meeting the hypotheses of `cmAccepts_sound`, `cm_sums_close_to_one` and
    `bellmanBackup_pointwise` (with `exB`, `exG`, `exT` of C14d, whose remaining hypotheses are shown there) — tests on literals -/
def exModel : CoopModel := { g := exG, T := exT, R := [⟨[0], [0], [[1, 2], [3, 4]]⟩], discount := 1/2 }

example : cmAccepts exModel = true := by decide +kernel
example : Valid exModel.g.S [1, 0] ∧ Valid exModel.g.A [1] :=
  ⟨(validB_iff _ _).mp (by decide), (validB_iff _ _).mp (by decide)⟩
example : FM.WF exModel.g.S exModel.g.A exModel.R := by
  intro b hb
  have : b = ⟨[0], [0], [[1, 2], [3, 4]]⟩ := by simpa [exModel] using hb
  subst this
  refine ⟨⟨by decide, by decide⟩, ⟨by decide, by decide⟩, by decide, ?_⟩
  intro i hi
  have : i = 0 ∨ i = 1 := by simp at hi; omega
  rcases this with rfl | rfl <;> decide
example : ∀ p ∈ exModel.g.parents, PSOK exModel.g.S exModel.g.A p := by
  intro p hp
  have : p = ParentSet.mk [0] [[0], [0, 1]] ∨ p = ParentSet.mk [0] [[1], [1]] := by simpa [exModel, exG] using hp
  rcases this with rfl | rfl
  · exact (pushAccepts_sound [2, 2] [2] 0 _ (by decide)).2
  · exact (pushAccepts_sound [2, 2] [2] 1 _ (by decide)).2
example : ([1 / 2] : List Rat).length = [exB].length ∨ (([1 / 2] : List Rat).length = [exB].length + 1 ∧ [exB] ≠ []) := Or.inl rfl

end AITB.Factored
