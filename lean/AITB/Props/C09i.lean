/-
  C09 part i (round 3) — Monte-Carlo tables of ThompsonSamplingPolicy / TopTwoThompsonSamplingPolicy / T3CPolicy
  (`getPolicy`: count the sampled actions, divide by the sum; `getActionProbability`: hits / trials).
  Whatever the sampler does, as long as it returns legal actions, the table is a probability distribution that advertises
  exactly the empirical frequencies of the samples it was built from.
-/
import AITB.Props.C09a

namespace AITB.Pol

/-- the counts of the legal actions add up to the number of samples -/
theorem sum_count_eq_length (n : Nat) : ∀ (samples : List Nat), (∀ s ∈ samples, s < n) →
    sumTo n (fun a => ((samples.count a : Nat) : Rat)) = (samples.length : Rat) := by
  intro samples
  induction samples with
  | nil => intro _; simp [sumTo_const]
  | cons x xs ih =>
    intro h
    have hx : x < n := h x List.mem_cons_self
    have hxs : ∀ s ∈ xs, s < n := fun s hs => h s (List.mem_cons_of_mem _ hs)
    have e : ∀ a, a < n → (((x :: xs).count a : Nat) : Rat) = ((xs.count a : Nat) : Rat) + (if a = x then 1 else 0) := by
      intro a _
      rw [List.count_cons]
      by_cases hax : a = x
      · subst hax; simp
      · have : (x == a) = false := by simpa using fun e : x = a => hax e.symm
        simp [this, hax]
    rw [sumTo_congr e, sumTo_add, ih hxs, sumTo_ite_eq x hx]
    simp

/-- **mc_table_valid** — for every number of actions, every number of trials ≥ 1 and every sequence of legal samples:
    the table `getPolicy` builds is non-negative, sums to one, is exactly the empirical frequency `count a / trials`, and is
    positive exactly on the actions that were sampled; `getActionProbability` is a frequency in `[0,1]`. -/
theorem mc_table_valid (n : Nat) (samples : List Nat) (hne : samples ≠ []) (hin : ∀ s ∈ samples, s < n) :
    RowValid n (mcTable n (fun a => samples.count a)) ∧
    (∀ a, a < n → mcTable n (fun a => samples.count a) a = (samples.count a : Rat) / (samples.length : Rat)) ∧
    (∀ a, a < n → (0 < mcTable n (fun a => samples.count a) a ↔ a ∈ samples)) ∧
    (∀ a, 0 ≤ mcQuery samples.length (samples.count a) ∧ mcQuery samples.length (samples.count a) ≤ 1) := by
  have hlen : 0 < samples.length := List.length_pos_iff.mpr hne
  have hlq : (0 : Rat) < (samples.length : Rat) := by exact_mod_cast hlen
  have hsum := sum_count_eq_length n samples hin
  have hval : ∀ a, mcTable n (fun a => samples.count a) a = (samples.count a : Rat) / (samples.length : Rat) := by
    intro a; unfold mcTable; rw [hsum]
  refine ⟨⟨fun a _ => ?_, ?_⟩, fun a _ => hval a, fun a _ => ?_, fun a => ⟨?_, ?_⟩⟩
  · rw [hval a]; positivity
  · rw [sumTo_congr (fun a _ => hval a), sumTo_div, hsum]; field_simp
  · rw [hval a]
    constructor
    · intro h
      have hc : 0 < samples.count a := by
        by_contra hz
        have : samples.count a = 0 := by omega
        rw [this] at h; simp at h
      exact List.count_pos_iff.mp hc
    · intro h
      have hc : 0 < samples.count a := List.count_pos_iff.mpr h
      have : (0 : Rat) < (samples.count a : Rat) := by exact_mod_cast hc
      positivity
  · unfold mcQuery; positivity
  · unfold mcQuery
    rw [div_le_one hlq]
    exact_mod_cast List.count_le_length

example : (∀ s ∈ [2, 0, 2, 2], s < 3) ∧ mcTable 3 (fun a => [2, 0, 2, 2].count a) 2 = 3 / 4 := by
  constructor
  · intro s hs; simp at hs; omega
  · norm_num [mcTable, sumTo, List.count_cons]

/-! ### factored (joint-action) ε-mixture -/

theorem jointEps_sum_aux (eps : Rat) (N : Nat) (g : List Nat) : ∀ (l : List (List Nat)),
    (l.map (jointEps eps N g)).sum = (1 - eps) * (l.count g : Rat) + eps * (1 / (N : Rat)) * (l.length : Rat) := by
  intro l
  induction l with
  | nil => simp
  | cons a t ih =>
    rw [List.map_cons, List.sum_cons, ih, List.count_cons, List.length_cons]
    unfold jointEps
    by_cases h : a = g
    · subst h; simp; ring
    · have : (a == g) = false := by simpa using h
      simp [h, this]; ring

/-- **joint_eps_valid** — `Factored::Bandit::EpsilonPolicy` (and, with ε = 0 / ε = 1, the deterministic factored policies and
    `RandomPolicy`): over ANY joint action space (enumerated without repetition, containing the wrapped policy's action `g`) and any
    ε ∈ [0,1] the per-joint-action probabilities are non-negative and sum to one. -/
theorem joint_eps_valid (eps : Rat) (h0 : 0 ≤ eps) (h1 : eps ≤ 1) (space : List (List Nat)) (hnd : space.Nodup)
    (g : List Nat) (hg : g ∈ space) :
    (∀ a, 0 ≤ jointEps eps space.length g a) ∧ (space.map (jointEps eps space.length g)).sum = 1 := by
  have hlen : 0 < space.length := List.length_pos_of_mem hg
  have hlq : (0 : Rat) < (space.length : Rat) := by exact_mod_cast hlen
  constructor
  · intro a
    unfold jointEps
    have : (0 : Rat) ≤ (if a = g then 1 else 0) := by split <;> norm_num
    have h2 : 0 ≤ 1 - eps := by linarith
    positivity
  · rw [jointEps_sum_aux, List.count_eq_one_of_mem hnd hg]
    field_simp
    ring

example : ([[0, 0], [1, 0], [0, 1], [1, 1]] : List (List Nat)).Nodup ∧ [1, 0] ∈ ([[0, 0], [1, 0], [0, 1], [1, 1]] : List (List Nat)) := by
  decide

/-! ### `recommendAction` (Eigen `maxCoeff(&idx)`) -/

theorem recommend_aux (mean : Nat → Rat) : ∀ k, 0 < k →
    (List.range k).foldl (fun b i => if mean b < mean i then i else b) 0 < k ∧
    ∀ i, i < k → mean i ≤ mean ((List.range k).foldl (fun b i => if mean b < mean i then i else b) 0) := by
  intro k
  induction k with
  | zero => intro h; omega
  | succ k ih =>
    intro _
    rw [List.range_succ, List.foldl_append]
    simp only [List.foldl_cons, List.foldl_nil]
    rcases Nat.eq_zero_or_pos k with hk | hk
    · subst hk
      simp only [List.range_zero, List.foldl_nil, lt_self_iff_false, if_false]
      exact ⟨by omega, fun i hi => by obtain rfl : i = 0 := by omega
                                      exact le_refl _⟩
    · obtain ⟨hr, hmax⟩ := ih hk
      set r := (List.range k).foldl (fun b i => if mean b < mean i then i else b) 0 with hrdef
      by_cases hlt : mean r < mean k
      · rw [if_pos hlt]
        refine ⟨by omega, fun i hi => ?_⟩
        rcases Nat.lt_or_ge i k with h | h
        · exact le_of_lt (lt_of_le_of_lt (hmax i h) hlt)
        · obtain rfl : i = k := by omega
          exact le_refl _
      · rw [if_neg hlt]
        refine ⟨by omega, fun i hi => ?_⟩
        rcases Nat.lt_or_ge i k with h | h
        · exact hmax i h
        · obtain rfl : i = k := by omega
          exact not_lt.mp hlt

/-- **recommend_is_argmax** — the recommended arm is legal and maximises the reward estimates (any sign, any magnitude) -/
theorem recommend_is_argmax (mean : Nat → Rat) (n : Nat) (hn : 0 < n) :
    recommend mean n < n ∧ ∀ i, i < n → mean i ≤ mean (recommend mean n) := recommend_aux mean n hn

end AITB.Pol
