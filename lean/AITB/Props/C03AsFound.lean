/-
  AITB.Props.C03AsFound — history: bestConservativeAction as it was found (observations of probability ≤ 1e-6 from the query belief
  skipped, `conservativeAlphaOf true`).  Not the source any more (`src_cons_no_skip`); kept as the regression witness for fix 28e25a2.
-/
import AITB.Props.C03Cons

namespace AITB.POMDP3
open AITB.MDP

/-- **source as found, partial**: sound at the beliefs `x` where every observation that is skipped at the query belief `b` has
    non-negative reference value after `x` (in particular at `x = b` when the skipped observations have exactly zero mass).
    FULL STATEMENT `LBSound m V (conservativeAlphaOf true m b Γ a).get` is false: `conservative_skip_counterexample`. -/
theorem conservativeAlpha_sound_partial (m : POMDP) (hv : Valid m) (V : (Nat → Rat) → Rat) (hV : SuperSol m V) (b : Vec) (Γ : Array Vec)
    (hne : 0 < Γ.size) (hΓ : ∀ v, v ∈ Γ.toList → LBSound m V v.get) (a : Nat) (ha : a < m.A) (x : Nat → Rat) (hx : NN x)
    (hskip : ∀ o, o < m.O → checkEqualSmall (mass m.S (bstepV m b a o).get) 0 = true → 0 ≤ V (bstep m x a o)) :
    dotS m.S x (conservativeAlphaOf true m b Γ a).get ≤ V x := by
  have e : dotS m.S x (conservativeAlphaOf true m b Γ a).get = dotS m.S x (backupVec m a (fun o =>
      let nb := bstepV m b a o
      if true && checkEqualSmall (mass m.S nb.get) 0 then (fun _ => 0) else (Γ.getD (bestAt m.S nb Γ) #[]).get)) := by
    unfold dotS; exact sumTo_congr (fun s hs => by rw [conservativeAlphaOf_get true m b Γ a s hs])
  rw [e]
  refine pointBackup_skip_sound_partial m hv V hV a ha _ x hx (fun o ho => ?_)
  by_cases hc : checkEqualSmall (mass m.S (bstepV m b a o).get) 0 = true
  · right
    simp only [Bool.true_and, hc, if_true]
    exact ⟨fun _ => trivial, hskip o ho hc⟩
  · left
    simp only [Bool.true_and, hc]
    exact getD_get_mem Γ (fun v => LBSound m V v.get) hΓ hne _ (bestAt_le _ _ _ hne)

/-- the vector the source builds at `e_0` is `(−2, −1)`: at the corner `e_1` it claims −1 while the optimal value is −2 -/
theorem conservative_skip_witness_values :
    (conservativeAlphaOf true mW bW ΓW 0).get 0 = -2 ∧ (conservativeAlphaOf true mW bW ΓW 0).get 1 = -1 ∧
    (conservativeAlphaOf false mW bW ΓW 0).get 0 = -2 ∧ (conservativeAlphaOf false mW bW ΓW 0).get 1 = -2 := by
  decide +kernel

/-- **counterexample to the full-strength statement for the source as found**: all hypotheses of `conservativeAlpha_sound` hold
    (`mW_valid`, `mW_ref_superSol`, `ΓW_sound`), yet the α-vector built at `e_0` exceeds the optimal value at `e_1` -/
theorem conservative_skip_counterexample :
    ¬ LBSound mW (linV mW.S (fun _ => -2)) (conservativeAlphaOf true mW bW ΓW 0).get := by
  intro h
  have := h (unit 1) (NN_unit 1)
  revert this
  decide +kernel


end AITB.POMDP3
