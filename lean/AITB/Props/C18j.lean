/-
  AITB.Props.C18j — exactly which texts outside the strict grammar are accepted.
  `strictOf fl` is the source with the two repairs of fixes/C18-3 (whole-token conversions, exact token counts).
  Everything the current parser accepts is either accepted *identically* by the strict reading, or shows one of the
  enumerated leniencies: an index token or a value token of which only a prefix is converted (`LenientIndex`,
  `LenientValue` — this is also how a tab between two numbers shows up), tokens after the value of an entry line, or
  the same in a preamble line.  Conversely the strict reading rejects every such token.
-/
import AITB.Props.C18
namespace AITB.Cassandra
variable {fl : Flags}

/-- the source with whole-token conversions and exact token counts (fixes/C18-3-strict-tokens.diff) -/
def strictOf (fl : Flags) : Flags := { fl with strictNumbers := true, exactCounts := true }

/-- an index token of which `std::stoul` converts only a proper prefix (`1x`, `2.5`, `1<TAB>1`) -/
def LenientIndex (t : Str) : Prop := ∃ n, stoul t = .ok n ∧ stoulPos t ≠ t.length
/-- a value token of which `std::stod` converts only a proper prefix (`1.0junk`, `0.5,`, `0.5<TAB>0.25`) -/
def LenientValue (t : Str) : Prop := ∃ v, stod t = .ok v ∧ stodPos t ≠ t.length

/-! ### tokens -/

theorem stoulS_strict_iff (h : fl.strictNumbers = true) (t : Str) (n : Nat) :
    stoulS fl t = .ok n ↔ stoul t = .ok n ∧ stoulPos t = t.length := by
  unfold stoulS
  cases hs : stoul t with
  | error e => simp [bind, Except.bind]
  | ok v =>
    by_cases hp : stoulPos t = t.length
    · simp [bind, Except.bind, h, hp, pure, Except.pure]
    · simp [bind, Except.bind, h, hp]

theorem stodS_strict_iff (h : fl.strictNumbers = true) (t : Str) (v : XRat) :
    stodS fl t = .ok v ↔ stod t = .ok v ∧ stodPos t = t.length := by
  unfold stodS
  cases hs : stod t with
  | error e => simp [bind, Except.bind]
  | ok w =>
    by_cases hp : stodPos t = t.length
    · simp [bind, Except.bind, h, hp, pure, Except.pure]
    · simp [bind, Except.bind, h, hp]

/-- with the repair no lenient index token is converted … -/
theorem lenient_index_rejected_when_strict (h : fl.strictNumbers = true) {t : Str} (hl : LenientIndex t) (n : Nat) :
    stoulS fl t ≠ .ok n := by
  intro hs
  obtain ⟨m, _, hp⟩ := hl
  exact hp ((stoulS_strict_iff h t n).1 hs).2

/-- … and no lenient value token -/
theorem lenient_value_rejected_when_strict (h : fl.strictNumbers = true) {t : Str} (hl : LenientValue t) (v : XRat) :
    stodS fl t ≠ .ok v := by
  intro hs
  obtain ⟨w, _, hp⟩ := hl
  exact hp ((stodS_strict_iff h t v).1 hs).2

theorem stoulS_strict_or_lenient {t : Str} {n : Nat} (h : stoulS fl t = .ok n) :
    stoulS (strictOf fl) t = .ok n ∨ LenientIndex t := by
  unfold stoulS at h
  obtain ⟨v, hv, h2⟩ := bind_ok.1 h
  by_cases hp : stoulPos t = t.length
  · left
    have hn : v = n := by
      by_cases hc : (fl.strictNumbers && stoulPos t != t.length) = true
      · simp [hc] at h2
      · simp only [hc, Bool.false_eq_true, if_false] at h2; exact pure_ok.1 h2
    subst hn
    exact (stoulS_strict_iff (fl := strictOf fl) rfl t v).2 ⟨hv, hp⟩
  · right; exact ⟨v, hv, hp⟩

theorem stodS_strict_or_lenient {t : Str} {x : XRat} (h : stodS fl t = .ok x) :
    stodS (strictOf fl) t = .ok x ∨ LenientValue t := by
  unfold stodS at h
  obtain ⟨v, hv, h2⟩ := bind_ok.1 h
  by_cases hp : stodPos t = t.length
  · left
    have hn : v = x := by
      by_cases hc : (fl.strictNumbers && stodPos t != t.length) = true
      · simp [hc] at h2
      · simp only [hc, Bool.false_eq_true, if_false] at h2; exact pure_ok.1 h2
    subst hn
    exact (stodS_strict_iff (fl := strictOf fl) rfl t v).2 ⟨hv, hp⟩
  · right; exact ⟨v, hv, hp⟩

theorem Resolves_strict_or_lenient {map : IDMap} {max : Nat} {tok : Str} {sel : Sel} (h : Resolves fl map max tok sel) :
    Resolves (strictOf fl) map max tok sel ∨ LenientIndex tok := by
  rcases h with h | ⟨hs, h | ⟨hf, i, hi, hlt, hsel⟩⟩
  · exact Or.inl (Or.inl h)
  · exact Or.inl (Or.inr ⟨hs, Or.inl h⟩)
  · rcases stoulS_strict_or_lenient hi with h' | h'
    · exact Or.inl (Or.inr ⟨hs, Or.inr ⟨hf, i, h', hlt, hsel⟩⟩)
    · exact Or.inr h'

theorem mapM_stodS_strict_or_lenient (toks : List Str) (vs : List XRat) (h : toks.mapM (stodS fl) = .ok vs) :
    toks.mapM (stodS (strictOf fl)) = .ok vs ∨ ∃ t ∈ toks, LenientValue t := by
  induction toks generalizing vs with
  | nil => left; simpa using h
  | cons t r ih =>
    rw [List.mapM_cons] at h
    obtain ⟨y, hy, h2⟩ := bind_ok.1 h
    obtain ⟨ys, hys, h3⟩ := bind_ok.1 h2
    have := pure_ok.1 h3; subst this
    rcases stodS_strict_or_lenient hy with h1 | h1
    · rcases ih ys hys with h4 | ⟨u, hu, hl⟩
      · left; rw [List.mapM_cons]; simp [h1, h4, bind, Except.bind, pure, Except.pure]
      · right; exact ⟨u, List.mem_cons_of_mem _ hu, hl⟩
    · right; exact ⟨t, List.mem_cons_self, h1⟩

theorem parseVector_strict_or_lenient {l : Str} {N : Nat} {vs : List XRat} (h : parseVector fl l N = .ok vs) :
    parseVector (strictOf fl) l N = .ok vs ∨ ∃ t ∈ tokenize space l, LenientValue t := by
  unfold parseVector at h ⊢
  obtain ⟨hl, hm⟩ := (parseVectorToks_iff ..).1 h
  rcases mapM_stodS_strict_or_lenient _ _ hm with h1 | h1
  · exact Or.inl ((parseVectorToks_iff ..).2 ⟨hl, h1⟩)
  · exact Or.inr h1

theorem RowsDenote_strict_or_lenient {D3 : Nat} {ls : List Str} {rows : List (List XRat)} (h : RowsDenote fl D3 ls rows) :
    RowsDenote (strictOf fl) D3 ls rows ∨ ∃ l ∈ ls, ∃ t ∈ tokenize space l, LenientValue t := by
  induction ls generalizing rows with
  | nil => cases rows with
    | nil => left; trivial
    | cons _ _ => simp [RowsDenote] at h
  | cons l ls ih => cases rows with
    | nil => simp [RowsDenote] at h
    | cons r rs =>
      simp only [RowsDenote] at h
      rcases parseVector_strict_or_lenient h.1 with h1 | ⟨t, ht, hl⟩
      · rcases ih h.2 with h2 | ⟨l', hl', t, ht, hl⟩
        · left; exact ⟨h1, h2⟩
        · right; exact ⟨l', List.mem_cons_of_mem _ hl', t, ht, hl⟩
      · right; exact ⟨l, List.mem_cons_self, t, ht, hl⟩

/-! ### statement lines -/

/-- the leniencies of one statement line `line` with continuation lines `cont` -/
inductive LenientLine (line : Str) (cont : List Str) : Prop
  /-- an index token (action, state, end state / observation) of which only a prefix is a number -/
  | index {t : Str} : t ∈ tokenize colonSpace line → LenientIndex t → LenientLine line cont
  /-- a value token on the line itself of which only a prefix is a number -/
  | value {t : Str} : t ∈ tokenize colonSpace line → LenientValue t → LenientLine line cont
  /-- the same on a continuation line (next-line row, matrix rows) -/
  | contValue {l t : Str} : l ∈ cont → t ∈ tokenize space l → LenientValue t → LenientLine line cont
  /-- tokens after the value of a single-entry line -/
  | surplus : (countColon line = 3 ∧ (tokenize colonSpace line).length ≠ 5) ∨
              (countColon line = 4 ∧ (tokenize colonSpace line).length ≠ 6) → LenientLine line cont

theorem MatrixLine_strict_or_lenient {D1 D2 D3 : Nat} {amap d1map d3map : IDMap} {line : Str} {rest : List Str} {s : Stmt} {n : Nat}
    (h : MatrixLine fl D1 D2 D3 amap d1map d3map line rest s n) :
    MatrixLine (strictOf fl) D1 D2 D3 amap d1map d3map line rest s n ∨ LenientLine line (rest.take n) := by
  cases h with
  | @entry ta t1 t3 tv a d1 d3 v hc h1 h2 h3 h4 ra r1 r3 hv hex =>
    rcases Resolves_strict_or_lenient ra with ra' | hl
    · rcases Resolves_strict_or_lenient r1 with r1' | hl
      · rcases Resolves_strict_or_lenient r3 with r3' | hl
        · rcases stodS_strict_or_lenient hv with hv' | hl
          · by_cases hcnt : (tokenize colonSpace line).length = 5
            · exact Or.inl (.entry hc h1 h2 h3 h4 ra' r1' r3' hv' (fun _ => hcnt))
            · exact Or.inr (.surplus (Or.inl ⟨hc, hcnt⟩))
          · exact Or.inr (.value (List.mem_of_getElem? h4) hl)
        · exact Or.inr (.index (List.mem_of_getElem? h3) hl)
      · exact Or.inr (.index (List.mem_of_getElem? h2) hl)
    · exact Or.inr (.index (List.mem_of_getElem? h1) hl)
  | @rowInline ta t1 a d1 vs hc h1 h2 ra r1 hl hvs =>
    rcases Resolves_strict_or_lenient ra with ra' | hle
    · rcases Resolves_strict_or_lenient r1 with r1' | hle
      · rcases mapM_stodS_strict_or_lenient _ _ hvs with hvs' | ⟨t, ht, hle⟩
        · exact Or.inl (.rowInline hc h1 h2 ra' r1' hl hvs')
        · exact Or.inr (.value (List.mem_of_mem_drop ht) hle)
      · exact Or.inr (.index (List.mem_of_getElem? h2) hle)
    · exact Or.inr (.index (List.mem_of_getElem? h1) hle)
  | @rowNext ta t1 l a d1 vs hc h1 h2 ra r1 hl hD hr hv =>
    rcases Resolves_strict_or_lenient ra with ra' | hle
    · rcases Resolves_strict_or_lenient r1 with r1' | hle
      · rcases parseVector_strict_or_lenient hv with hv' | ⟨t, ht, hle⟩
        · exact Or.inl (.rowNext hc h1 h2 ra' r1' hl hD hr hv')
        · refine Or.inr (.contValue (l := l) ?_ ht hle)
          cases rest with
          | nil => simp at hr
          | cons x xs => simp at hr; subst hr; simp
      · exact Or.inr (.index (List.mem_of_getElem? h2) hle)
    · exact Or.inr (.index (List.mem_of_getElem? h1) hle)
  | @matrix ta a rows hc h1 ra hl hle hd =>
    rcases Resolves_strict_or_lenient ra with ra' | hlen
    · rcases RowsDenote_strict_or_lenient hd with hd' | ⟨l, hl', t, ht, hlen⟩
      · exact Or.inl (.matrix hc h1 ra' hl hle hd')
      · exact Or.inr (.contValue hl' ht hlen)
    · exact Or.inr (.index (List.mem_of_getElem? h1) hlen)

theorem RewardLine_strict_or_lenient {S A : Nat} {amap smap : IDMap} {line : Str} {s : Stmt}
    (h : RewardLine fl S A amap smap line s) :
    RewardLine (strictOf fl) S A amap smap line s ∨ LenientLine line [] := by
  cases h with
  | @entry ta t1 t3 tv a d1 d3 v hc h1 h2 h3 h4 ra r1 r3 hv hex =>
    rcases Resolves_strict_or_lenient ra with ra' | hl
    · rcases Resolves_strict_or_lenient r1 with r1' | hl
      · rcases Resolves_strict_or_lenient r3 with r3' | hl
        · rcases stodS_strict_or_lenient hv with hv' | hl
          · by_cases hcnt : (tokenize colonSpace line).length = 6
            · exact Or.inl (.entry hc h1 h2 h3 h4 ra' r1' r3' hv' (fun _ => hcnt))
            · exact Or.inr (.surplus (Or.inr ⟨hc, hcnt⟩))
          · exact Or.inr (.value (List.mem_of_getElem? h4) hl)
        · exact Or.inr (.index (List.mem_of_getElem? h3) hl)
      · exact Or.inr (.index (List.mem_of_getElem? h2) hl)
    · exact Or.inr (.index (List.mem_of_getElem? h1) hl)

/-- a line of the list with continuation lines taken from the list shows a leniency -/
def HasLenientLine (lines : List Str) : Prop :=
  ∃ line cont, line ∈ lines ∧ (∀ c ∈ cont, c ∈ lines) ∧ LenientLine line cont

theorem HasLenientLine.cons {l : Str} {rest : List Str} (h : HasLenientLine rest) : HasLenientLine (l :: rest) := by
  obtain ⟨line, cont, h1, h2, h3⟩ := h
  exact ⟨line, cont, List.mem_cons_of_mem _ h1, fun c hc => List.mem_cons_of_mem _ (h2 c hc), h3⟩

theorem FileDenotes_strict_or_lenient {k : Kind} {p : Pre} {lines : List Str} {skip : Nat} {sT sR sW : List Stmt}
    (h : FileDenotes fl k p lines skip sT sR sW) :
    FileDenotes (strictOf fl) k p lines skip sT sR sW ∨ HasLenientLine lines := by
  induction h with
  | nil => exact Or.inl .nil
  | skipped _ ih =>
    rcases ih with h | h
    · exact Or.inl (.skipped h)
    · exact Or.inr h.cons
  | @tline l rest s n sT sR sW hT hm _ ih =>
    rcases MatrixLine_strict_or_lenient hm with hm' | hl
    · rcases ih with h | h
      · exact Or.inl (.tline hT hm' h)
      · exact Or.inr h.cons
    · exact Or.inr ⟨l, rest.take n, List.mem_cons_self, fun c hc => List.mem_cons_of_mem _ (List.mem_of_mem_take hc), hl⟩
  | @oline l rest s n sT sR sW hT hk hO hm _ ih =>
    rcases MatrixLine_strict_or_lenient hm with hm' | hl
    · rcases ih with h | h
      · exact Or.inl (.oline hT hk hO hm' h)
      · exact Or.inr h.cons
    · exact Or.inr ⟨l, rest.take n, List.mem_cons_self, fun c hc => List.mem_cons_of_mem _ (List.mem_of_mem_take hc), hl⟩
  | @rline l rest s sT sR sW hT hO hR hm _ ih =>
    rcases RewardLine_strict_or_lenient hm with hm' | hl
    · rcases ih with h | h
      · exact Or.inl (.rline hT hO hR hm' h)
      · exact Or.inr h.cons
    · exact Or.inr ⟨l, [], List.mem_cons_self, (fun c hc => (by cases hc)), hl⟩
  | @other l rest sT sR sW hT hO hR _ ih =>
    rcases ih with h | h
    · exact Or.inl (.other hT hO hR h)
    · exact Or.inr h.cons

/-! ### preamble lines -/

/-- a size declaration `kw: <one token>` or a discount line whose number token is only partly converted -/
def LenientPre (l : Str) : Prop :=
  ∃ t, at? (tokenize colon l) 1 = .ok t ∧ ((∃ one, tokenize space t = [one] ∧ LenientIndex one) ∨ LenientValue t)

theorem extractIDs_strict_or_lenient {l : Str} {x : Nat × IDMap} (h : extractIDs fl l = .ok x) :
    extractIDs (strictOf fl) l = .ok x ∨ LenientPre l := by
  unfold extractIDs at h ⊢
  obtain ⟨t1, ht1, h2⟩ := bind_ok.1 h
  simp only [ht1, bind, Except.bind]
  simp only at h2
  split
  · rename_i one heq
    rw [heq] at h2
    simp only at h2
    cases hs : stoulS fl one with
    | ok n =>
      rcases stoulS_strict_or_lenient hs with h' | h'
      · left; rw [hs] at h2; rw [h']; exact h2
      · right; exact ⟨t1, ht1, Or.inl ⟨one, heq, h'⟩⟩
    | error e =>
      -- the name path; the strict helper fails as well (its lenient part already does)
      left
      rw [hs] at h2
      have : ∃ e', stoulS (strictOf fl) one = .error e' := by
        unfold stoulS at hs ⊢
        cases hst : stoul one with
        | error e0 => exact ⟨e0, by simp [bind, Except.bind]⟩
        | ok v =>
          rw [hst] at hs
          simp only [bind, Except.bind] at hs
          by_cases hc : (fl.strictNumbers && stoulPos one != one.length) = true
          · have hp : (stoulPos one != one.length) = true := by
              have := (Bool.and_eq_true_iff.1 hc).2; exact this
            exact ⟨.runtime, by simp [bind, Except.bind, strictOf, hp]⟩
          · simp [hc, pure, Except.pure] at hs
      obtain ⟨e', he'⟩ := this
      rw [he', heq]; exact h2
  · rename_i hne
    left
    split at h2
    · rename_i one heq; exact absurd heq (hne one)
    · exact h2

theorem preLine_strict_or_lenient (p : Pre) (l : Str) :
    (preLine fl p l = none ∧ preLine (strictOf fl) p l = none) ∨
    (∃ r r', preLine fl p l = some r ∧ preLine (strictOf fl) p l = some r' ∧ (∀ q, r = .ok q → r' = .ok q ∨ LenientPre l)) := by
  unfold preLine
  split
  · right; exact ⟨_, _, rfl, rfl, fun q hq => Or.inl hq⟩
  · split
    · right
      refine ⟨_, _, rfl, rfl, ?_⟩
      intro q hq
      obtain ⟨⟨n, m⟩, he, hp⟩ := bind_ok.1 hq
      rcases extractIDs_strict_or_lenient he with h' | h'
      · left; simp [h', bind, Except.bind]; exact hp
      · exact Or.inr h'
    · split
      · right
        refine ⟨_, _, rfl, rfl, ?_⟩
        intro q hq
        obtain ⟨⟨n, m⟩, he, hp⟩ := bind_ok.1 hq
        rcases extractIDs_strict_or_lenient he with h' | h'
        · left; simp [h', bind, Except.bind]; exact hp
        · exact Or.inr h'
      · split
        · right
          refine ⟨_, _, rfl, rfl, ?_⟩
          intro q hq
          obtain ⟨⟨n, m⟩, he, hp⟩ := bind_ok.1 hq
          rcases extractIDs_strict_or_lenient he with h' | h'
          · left; simp [h', bind, Except.bind]; exact hp
          · exact Or.inr h'
        · split
          · right
            refine ⟨_, _, rfl, rfl, ?_⟩
            intro q hq
            obtain ⟨t, ht, h2⟩ := bind_ok.1 hq
            obtain ⟨d, hd, h3⟩ := bind_ok.1 h2
            rcases stodS_strict_or_lenient hd with h' | h'
            · left; simp [ht, h', bind, Except.bind]; exact h3
            · exact Or.inr ⟨t, ht, Or.inr h'⟩
          · left; exact ⟨rfl, rfl⟩

theorem parseModelInfo_strict_or_lenient (raws : List Str) (p : Pre) (acc : List Str) (x : Pre × List Str)
    (h : parseModelInfo fl raws p acc = .ok x) :
    parseModelInfo (strictOf fl) raws p acc = .ok x ∨ ∃ raw ∈ raws, LenientPre (trim raw) := by
  induction raws generalizing p acc with
  | nil => left; exact h
  | cons raw rest ih =>
    simp only [parseModelInfo] at h ⊢
    split
    · rename_i he
      simp only [he, if_true] at h
      rcases ih p acc h with h' | ⟨r, hr, hl⟩
      · exact Or.inl h'
      · exact Or.inr ⟨r, List.mem_cons_of_mem _ hr, hl⟩
    · rename_i he
      simp only [he, Bool.false_eq_true, if_false] at h
      rcases preLine_strict_or_lenient (fl := fl) p (trim raw) with ⟨h1, h2⟩ | ⟨r, r', h1, h2, h3⟩
      · rw [h1] at h; rw [h2]
        rcases ih p _ h with h' | ⟨r, hr, hl⟩
        · exact Or.inl h'
        · exact Or.inr ⟨r, List.mem_cons_of_mem _ hr, hl⟩
      · rw [h1] at h; rw [h2]
        obtain ⟨q, hq, h4⟩ := bind_ok.1 h
        rcases h3 q hq with h5 | h5
        · rw [h5]; simp only [bind, Except.bind]
          rcases ih q acc h4 with h' | ⟨r, hr, hl⟩
          · exact Or.inl h'
          · exact Or.inr ⟨r, List.mem_cons_of_mem _ hr, hl⟩
        · exact Or.inr ⟨raw, List.mem_cons_self, h5⟩

/-! ### the whole text -/

/-- **Accepted ⇒ strictly well-formed, or lenient in an enumerated way.**  If the parser accepts a text, then EITHER the strict
    reading (whole-token conversions, exact token counts) has the same preamble, the line list is a well-formed file of the STRICT
    grammar and the tables are its specification semantics, OR a preamble line carries a partly converted number, OR a statement
    line (with its continuation lines) shows one of the four leniencies of `LenientLine`.  Nothing else outside the grammar gets in. -/
theorem parser_accepts_only_wellformed_or_lenient (hfl : fl.rowLenThrows = true) {k : Kind} {text : Str} {r : Parsed}
    (h : parse fl k text = .ok r) :
    (∃ lines sT sR sW, parseModelInfo (strictOf fl) (splitLines text) {} [] = .ok (r.pre, lines) ∧
        FileDenotes (strictOf fl) k r.pre lines 0 sT sR sW ∧
        ∀ d1 a d3,
          tableAt r.st.wT d1 a d3 = specAt sT r.pre.S r.pre.A r.pre.S d1 a d3 ∧
          tableAt r.st.wR d1 a d3 = specAt sR r.pre.S r.pre.A r.pre.S d1 a d3 ∧
          tableAt r.st.wW d1 a d3 = specAt sW r.pre.S r.pre.A r.pre.O d1 a d3) ∨
    (∃ raw ∈ splitLines text, LenientPre (trim raw)) ∨
    (∃ lines, parseModelInfo fl (splitLines text) {} [] = .ok (r.pre, lines) ∧ HasLenientLine lines) := by
  obtain ⟨lines, sT, sR, sW, hpre, _, _, _, hfile, htab⟩ := parser_accepts_only_wellformed hfl h
  rcases parseModelInfo_strict_or_lenient _ _ _ _ hpre with hpre' | hl
  · rcases FileDenotes_strict_or_lenient hfile with hfile' | hl
    · exact Or.inl ⟨lines, sT, sR, sW, hpre', hfile', htab⟩
    · exact Or.inr (Or.inr ⟨lines, hpre, hl⟩)
  · exact Or.inr (Or.inl hl)

/-- **The repair changes the outcome only on texts with a listed leniency.**  If the current parser accepts a text and neither a preamble
    line nor a statement line shows a leniency, the strict parser (fixes/C18-3) accepts it too, with the same sizes, discount, name tables
    and, cell by cell, the same three tables. -/
theorem strict_parse_agrees (hfl : fl.rowLenThrows = true) {k : Kind} {text : Str} {r : Parsed}
    (h : parse fl k text = .ok r)
    (hpre : ¬ ∃ raw ∈ splitLines text, LenientPre (trim raw))
    (hlines : ∀ lines, parseModelInfo fl (splitLines text) {} [] = .ok (r.pre, lines) → ¬ HasLenientLine lines) :
    ∃ r', parse (strictOf fl) k text = .ok r' ∧ r'.pre = r.pre ∧ ∀ d1 a d3,
      tableAt r'.st.wT d1 a d3 = tableAt r.st.wT d1 a d3 ∧
      tableAt r'.st.wR d1 a d3 = tableAt r.st.wR d1 a d3 ∧
      tableAt r'.st.wW d1 a d3 = tableAt r.st.wW d1 a d3 := by
  obtain ⟨lines0, _, hsz, hfit, _⟩ := parse_ok_inv h
  rcases parser_accepts_only_wellformed_or_lenient hfl h with ⟨lines, sT, sR, sW, hp, hfile, htab⟩ | hl | ⟨lines, hp, hl⟩
  · obtain ⟨r', hr', hpre', htab'⟩ := parser_refines_spec (strictOf fl) k text r.pre lines sT sR sW hp hsz hfit hfile
    refine ⟨r', hr', hpre', fun d1 a d3 => ?_⟩
    obtain ⟨a1, a2, a3⟩ := htab' d1 a d3
    obtain ⟨b1, b2, b3⟩ := htab d1 a d3
    exact ⟨by rw [a1, b1], by rw [a2, b2], by rw [a3, b3]⟩
  · exact absurd hl hpre
  · exact absurd hl (hlines lines hp)

/-- the witnesses of the open finding are lenient tokens in the sense above (kernel-evaluated tests on literals) -/
theorem lenient_witnesses :
    (match stoul "1x".toList with | .ok n => n == 1 && stoulPos "1x".toList != "1x".toList.length | .error _ => false) = true ∧
    (match stod "1.0junk".toList with | .ok _ => stodPos "1.0junk".toList == 3 | .error _ => false) = true ∧
    (match stod "0.5\t0.25".toList with | .ok _ => stodPos "0.5\t0.25".toList == 3 | .error _ => false) = true ∧
    stodPos "0x1p-1".toList = 6 ∧ stodPos "-1e5x".toList = 4 ∧ stodPos "infinity".toList = 8 ∧ stodPos "nan(ab)z".toList = 7 := by
  decide +kernel

end AITB.Cassandra
