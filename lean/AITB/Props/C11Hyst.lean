/-
  AITB.Props.C11Hyst — the two documented special cases of HystereticQLearning (round 3; header of HystereticQLearning.hpp:
  "If the beta parameter is equal to the alpha, this becomes standard QLearning.  When the beta parameter is zero, the
  algorithm becomes equivalent to Distributed QLearning" — i.e. an entry never decreases).
-/
import AITB.Props.C11

namespace AITB.Learn

/-- β = α: the hysteretic update IS the QLearning update, for every table and sample -/
theorem hyst_eq_ql_of_equal_rates (γ α : Rat) (A : Nat) (q : QF) (s a s1 : Nat) (r : Rat) :
    hystStep γ α α A q s a s1 r = qlStep γ α A q s a s1 r := by
  unfold hystStep qlStep
  simp only []
  split <;> rfl

/-- β = 0 (and α ≥ 0): no entry ever decreases in one step … -/
theorem hystStep_beta0_mono (γ α : Rat) (hα : 0 ≤ α) (A : Nat) (q : QF) (s a s1 : Nat) (r : Rat) (x y : Nat) :
    q x y ≤ hystStep γ α 0 A q s a s1 r x y := by
  unfold hystStep
  split
  · rename_i hd
    unfold upd
    split
    · rename_i hxy
      obtain ⟨rfl, rfl⟩ := hxy
      nlinarith [mul_nonneg hα hd]
    · exact le_refl _
  · unfold upd
    split
    · rename_i hxy
      obtain ⟨rfl, rfl⟩ := hxy
      simp
    · exact le_refl _

/-- … hence along every history (per-step α ≥ 0, β = 0 throughout): the table only grows ("Distributed QLearning") -/
theorem hyst_beta0_monotone (γ : Rat) (A : Nat) (evs : List Ev) (h : ∀ e ∈ evs, 0 ≤ e.α ∧ e.β = 0) (q0 : QF) (x y : Nat) :
    q0 x y ≤ hystRun γ A evs q0 x y := by
  unfold hystRun
  induction evs generalizing q0 with
  | nil => exact le_refl _
  | cons e es ih =>
    simp only [List.foldl_cons]
    have he := h e List.mem_cons_self
    refine le_trans ?_ (ih (fun e' he' => h e' (List.mem_cons_of_mem _ he')) _)
    rw [he.2]
    exact hystStep_beta0_mono γ e.α he.1 A q0 e.s e.a e.s1 e.r x y

/-- hypotheses satisfiable: a negative surprise (reward −3) leaves the table where it was, a positive one raises it -/
example : hystRun (1/2) 1 [⟨0, 0, 0, 0, 2, 1, 0, true⟩, ⟨0, 0, 0, 0, -3, 1, 0, true⟩] (fun _ _ => 0) 0 0 = 2 := by
  norm_num [hystRun, hystStep, upd, maxA, maxTo]

end AITB.Learn
