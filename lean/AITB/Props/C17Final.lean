/-
  AITB.Props.C17Final — round 3 of C17: the round-trip theorems WITHOUT the trusted numeric hypothesis, and the
  behaviour of consecutive loads on one stream.

  `AITB.Props.C17` proves  read (write x ++ rest) = ok x rest  under `RT io p d` (value d survives print-at-p then scan)
  for the values of the object; `Dbl17` ("17 digits identify a double") used to be taken on trust.  With
  `AITB.Props.C17Dbl` (numeric level) and `AITB.Props.C17DblText` (text level) that fact is now a theorem about the
  driver's own number codec (`ratIO`: printf %.{p}g, libstdc++ num_get + correctly rounded strtod):
      ratIO_RT : 17 ≤ p → IsDbl q → RT (ratIO tol) p q.
  Here it is plugged into every kind, at the precisions the translator finds in the source (`genPrec`), so the only
  remaining hypotheses are: the object is valid, its numbers are finite doubles (`IsDbl`: 0 or ± m·2^u, m < 2^53,
  −1074 ≤ u ≤ 971, normalised unless u = −1074), sizes fit `size_t`, and — for the two kinds that had a defect — the
  extracted fact that the fix is in (`decide`-true on the fixed source, see `roundtrip_*_or_defect` in Props.C17).

  `loadSeq`: several `operator>>` on one stream that nobody clears.  failbit is sticky: after the first failed load
  every later load fails too and leaves its destination alone; before it, every load yields what its reader returns.
-/
import AITB.Props.C17DblText

namespace AITB.Codec

/-! ### "all numbers of the object are finite doubles" -/

def DblSp (m : SpMat Rat) : Prop := ∀ x ∈ m, IsDbl x.v
def DblDModel (m : DModel Rat) : Prop := IsDbl m.discount ∧ AllMat3 IsDbl m.T ∧ AllMat IsDbl m.R
def DblSModel (m : SModel Rat) : Prop := IsDbl m.discount ∧ (∀ t ∈ m.T, DblSp t) ∧ DblSp m.R
def DblDExp (e : DExp Rat) : Prop := AllMat IsDbl e.rewards ∧ AllMat IsDbl e.m2
def DblSExp (e : SExp Rat) : Prop := DblSp e.rewards ∧ DblSp e.m2
def DblVF (vf : VF Rat) : Prop := ∀ l ∈ vf.drop 1, ∀ e ∈ l, ∀ d ∈ e.values, IsDbl d

/-- the former trusted fact, now a theorem: on finite doubles the driver's codec satisfies `RT` at every p ≥ 17 -/
theorem ratIO_Dbl17 (tol : Rat) : ∀ p, 17 ≤ p → ∀ d, IsDbl d → RT (ratIO tol) p d :=
  fun p hp d hd => ratIO_RT tol p hp d hd

/-- the predicate the driver evaluates on every number of every generated object is exactly `IsDbl` -/
theorem isDblB_iff_IsDbl (q : Rat) : isDblB q = true ↔ IsDbl q := by
  unfold isDblB IsDbl
  rcases lt_trichotomy q 0 with hq | hq | hq
  · have habs : absR q = -q := by unfold absR; simp [hq]
    have hne : (q == 0) = false := by simpa using ne_of_lt hq
    rw [habs, hne, Bool.false_or, isDoubleB_iff_IsPosDbl (-q) (by linarith)]
    constructor
    · exact fun h => Or.inr (Or.inr h)
    · rintro (h | h | h)
      · exact absurd h (ne_of_lt hq)
      · exact absurd h.pos (by linarith)
      · exact h
  · subst hq; simp
  · have habs : absR q = q := by unfold absR; simp [not_lt.2 (le_of_lt hq)]
    have hne : (q == 0) = false := by simpa using ne_of_gt hq
    rw [habs, hne, Bool.false_or, isDoubleB_iff_IsPosDbl q hq]
    constructor
    · exact fun h => Or.inr (Or.inl h)
    · rintro (h | h | h)
      · exact absurd h (ne_of_gt hq)
      · exact h
      · exact absurd h.pos (by linarith)

/-! ### every kind, at the source's precisions, no numeric assumption -/

theorem roundtrip_dmodel_final (tol : Rat) (S A : Nat) (m : DModel Rat) (hv : dmodelValidB (ratIO tol) S A m = true)
    (hd : DblDModel m) : RoundTrips (rdDModel (ratIO tol) S A) (wrDModel (ratIO tol) genPrec) m :=
  roundtrip_dmodel (ratIO tol) genPrec S A m hv (ratIO_RT tol _ IOPrec_utils_ge_17.1 _ hd.1)
    (fun t ht r hr x hx => ratIO_RT tol _ IOPrec_utils_ge_17.2.2.1 _ (hd.2.1 t ht r hr x hx))
    (fun r hr x hx => ratIO_RT tol _ IOPrec_utils_ge_17.2.2.1 _ (hd.2.2 r hr x hx))

theorem roundtrip_smodel_final (tol : Rat) (S A : Nat) (m : SModel Rat) (hv : smodelValidB (ratIO tol) S A m = true)
    (hdimS : S * S < two64) (hdimA : S * A < two64) (hd : DblSModel m) :
    RoundTrips (rdSModel (ratIO tol) S A) (wrSModel (ratIO tol) genPrec) m :=
  roundtrip_smodel (ratIO tol) genPrec S A m hv hdimS hdimA (ratIO_RT tol _ IOPrec_utils_ge_17.1 _ hd.1)
    (fun t ht x hx => ratIO_RT tol _ IOPrec_utils_ge_17.2.2.2 _ (hd.2.1 t ht x hx))
    (fun x hx => ratIO_RT tol _ IOPrec_utils_ge_17.2.2.2 _ (hd.2.2 x hx))

theorem roundtrip_dexp_final (tol : Rat) (S A : Nat) (e : DExp Rat) (hv : dexpValidB S A e = true) (hd : DblDExp e) :
    RoundTrips (rdDExp (ratIO tol) S A) (wrDExp (ratIO tol) genPrec) e :=
  roundtrip_dexp (ratIO tol) genPrec S A e hv
    (fun r hr x hx => ratIO_RT tol _ IOPrec_utils_ge_17.2.2.1 _ (hd.1 r hr x hx))
    (fun r hr x hx => ratIO_RT tol _ IOPrec_utils_ge_17.2.2.1 _ (hd.2 r hr x hx))

/-- `hfix` = the extracted fact that `read(is, SparseTable2D&)` reads counts as integers (fix C17-2; `decide`-true now) -/
theorem roundtrip_sexp_final (tol : Rat) (hfix : AITB.Gen.IOPrec.sparseTableViaDouble = false)
    (S A : Nat) (e : SExp Rat) (hv : sexpValidB S A e = true) (hdimS : S * S < two64) (hdimA : S * A < two64)
    (hd : DblSExp e) :
    RoundTrips (rdSExp (ratIO tol) AITB.Gen.IOPrec.sparseTableViaDouble S A) (wrSExp (ratIO tol) genPrec) e := by
  have hv' := hv
  simp only [sexpValidB, Bool.and_eq_true, List.all_eq_true, decide_eq_true_eq] at hv'
  refine roundtrip_sexp (ratIO tol) genPrec _ S A e hv hdimS hdimA ?_
    (fun x hx => ratIO_RT tol _ IOPrec_utils_ge_17.2.2.2 _ (hd.1 x hx))
    (fun x hx => ratIO_RT tol _ IOPrec_utils_ge_17.2.2.2 _ (hd.2 x hx))
  intro t ht x hx
  exact ⟨hv'.1.1.1.2 t ht x hx, fun h => by rw [hfix] at h; cases h⟩

theorem roundtrip_mpol_final (tol : Rat) (S A : Nat) (m : Mat Rat) (hv : mpolValidB (ratIO tol) S A m = true)
    (hd : AllMat IsDbl m) : RoundTrips (rdMPol (ratIO tol) S A) (wrMPol (ratIO tol) genPrec) m :=
  roundtrip_mpol (ratIO tol) genPrec S A m hv (fun r hr x hx => ratIO_RT tol _ IOPrec_utils_ge_17.2.2.1 _ (hd r hr x hx))

/-- `hfix` = the extracted fact that the POMDP policy writer prints at ≥ 17 digits (fix C17-1; `decide`-true now) -/
theorem roundtrip_ppol_final (tol : Rat) (hfix : 17 ≤ AITB.Gen.IOPrec.pomdpPolicy)
    (S A O : Nat) (vf : VF Rat) (hv : ppolValidB (ratIO tol) S A O vf = true) (hA : A ≤ two64)
    (hlen : ∀ l ∈ vf, l.length ≤ two64) (hd : DblVF vf) :
    RoundTrips (rdPPol (ratIO tol) S A O) (wrPPol (ratIO tol) genPrec) vf :=
  roundtrip_ppol (ratIO tol) (ratIO_noAt tol) genPrec S A O vf hv hA hlen
    (fun l hl e he d hdv => ratIO_RT tol _ hfix _ (hd l hl e he d hdv))

/-- POMDP::Model<M> over any underlying MDP codec that round-trips -/
theorem roundtrip_pd_final {M} (tol : Rat) (rdM : Rd M) (wrM : M → Stream) (vM : M → Bool) (S A O : Nat)
    (x : M × List (Mat Rat)) (hv : pdValidB (ratIO tol) vM S A O x = true) (hM : RoundTrips rdM wrM x.1)
    (hd : AllMat3 IsDbl x.2) : RoundTrips (rdPD (ratIO tol) rdM S A O) (wrPD (ratIO tol) genPrec wrM) x :=
  roundtrip_pd (ratIO tol) genPrec rdM wrM vM S A O x hv hM
    (fun t ht r hr y hy => ratIO_RT tol _ IOPrec_utils_ge_17.2.2.1 _ (hd t ht r hr y hy))

theorem roundtrip_ps_final {M} (tol : Rat) (rdM : Rd M) (wrM : M → Stream) (vM : M → Bool) (S A O : Nat)
    (x : M × List (SpMat Rat)) (hv : psValidB (ratIO tol) vM S A O x = true) (hdim : S * O < two64)
    (hM : RoundTrips rdM wrM x.1) (hd : ∀ t ∈ x.2, DblSp t) :
    RoundTrips (rdPS (ratIO tol) rdM S A O) (wrPS (ratIO tol) genPrec wrM) x :=
  roundtrip_ps (ratIO tol) genPrec rdM wrM vM S A O x hv hdim hM
    (fun t ht e he => ratIO_RT tol _ IOPrec_utils_ge_17.2.2.2 _ (hd t ht e he))

/-- POMDP::Model<MDP::Model>: the whole dense POMDP, end to end -/
theorem roundtrip_pdd_final (tol : Rat) (S A O : Nat) (x : DModel Rat × List (Mat Rat))
    (hv : pdValidB (ratIO tol) (dmodelValidB (ratIO tol) S A) S A O x = true) (hd : DblDModel x.1) (ho : AllMat3 IsDbl x.2) :
    RoundTrips (rdPD (ratIO tol) (rdDModel (ratIO tol) S A) S A O) (wrPD (ratIO tol) genPrec (wrDModel (ratIO tol) genPrec)) x := by
  have hv' := hv
  simp only [pdValidB, Bool.and_eq_true] at hv'
  exact roundtrip_pd_final tol _ _ _ S A O x hv (roundtrip_dmodel_final tol S A x.1 hv'.1.1 hd) ho

theorem roundtrip_vec_final (tol : Rat) (n : Nat) (v : List Rat) (hl : v.length = n) (hd : ∀ d ∈ v, IsDbl d) :
    RoundTrips (rdVec (ratIO tol) n) (wrVec (ratIO tol) genPrec.vector) v :=
  roundtrip_vec (ratIO tol) genPrec n v hl (fun d hdv => ratIO_RT tol _ IOPrec_utils_ge_17.2.1 _ (hd d hdv))

/-- loading the written bytes: destination = the saved object, stream good, the rest unread — dense model instance -/
theorem load_dmodel_final (tol : Rat) (S A : Nat) (m dest : DModel Rat) (hv : dmodelValidB (ratIO tol) S A m = true)
    (hd : DblDModel m) (rest : Stream) :
    load (rdDModel (ratIO tol) S A) dest (wrDModel (ratIO tol) genPrec m ++ rest) = ⟨m, none, rest⟩ :=
  load_roundtrip _ _ m (roundtrip_dmodel_final tol S A m hv hd) dest rest

/-! satisfiability: a concrete non-trivial dense model (discount 1/2, one state staying put, reward = the double nearest
    1/3) meets every hypothesis of `roundtrip_dmodel_final` -/

theorem isDbl_half : IsDbl (1 / 2) :=
  Or.inr (Or.inl ⟨2 ^ 52, -53, by rw [pow2Q_eq]; norm_num, by norm_num, by norm_num, by norm_num, by norm_num, Or.inl (by norm_num)⟩)
theorem isDbl_one : IsDbl 1 :=
  Or.inr (Or.inl ⟨2 ^ 52, -52, by rw [pow2Q_eq]; norm_num, by norm_num, by norm_num, by norm_num, by norm_num, Or.inl (by norm_num)⟩)
theorem isDbl_third : IsDbl third :=
  Or.inr (Or.inl ⟨6004799503160661, -54, by rw [pow2Q_eq]; norm_num [third], by norm_num, by norm_num, by norm_num, by norm_num,
    Or.inl (by norm_num)⟩)

def exModel : DModel Rat := ⟨1 / 2, [[[1]]], [[third]]⟩

example : dmodelValidB (ratIO (1 / 1000000)) 1 1 exModel = true := by decide +kernel
example : DblDModel exModel := by
  refine ⟨isDbl_half, ?_, ?_⟩
  · intro t ht r hr x hx
    simp only [exModel, List.mem_singleton] at ht hr hx
    subst ht; simp only [List.mem_singleton] at hr; subst hr; simp only [List.mem_singleton] at hx; subst hx
    exact isDbl_one
  · intro r hr x hx
    simp only [exModel, List.mem_singleton] at hr hx
    subst hr; simp only [List.mem_singleton] at hx; subst hx
    exact isDbl_third

/-! ### finding C17-4: the same 17 "digits" in `std::fixed` notation do not identify a double

  FULL STATEMENT (what the property needs, for every formatting state of the caller's stream):
      ∀ q, IsDbl q → scan (text of `os << q` under the writers' precision) = some (q, []).
  It holds for the default notation (`scanDQ_printDQ`).  In fixed notation it is false; the writers must select the
  default notation themselves (fixes/C17-4). -/

/-- the double nearest 1/3, scaled by 2^-24 (≈ 1.99e-8): exact in binary, needs 24 digits after the point in fixed notation -/
def smallThird : Rat := 6004799503160661 * pow2Q (-78)

theorem isDbl_smallThird : IsDbl smallThird :=
  Or.inr (Or.inl ⟨6004799503160661, -78, by norm_num [smallThird], by norm_num, by norm_num, by norm_num, by norm_num,
    Or.inl (by norm_num)⟩)

/-- witness: written with 17 digits in fixed notation the value reads back as ANOTHER double, and the scan succeeds
    (the load does not fail: the change is silent) -/
theorem fixed17_counterexample :
    ((scanDQ (printFixedQ 17 smallThird)).map (·.2) = some [] ∧ scanDQ (printFixedQ 17 smallThird) ≠ some (smallThird, [])) ∧
    scanDQ (printDQ 17 smallThird) = some (smallThird, []) :=
  ⟨⟨by decide +kernel, by decide +kernel⟩, scanDQ_printDQ_17 _ isDbl_smallThird⟩

/-- witness: values below 5e-18 are written as 0.00000000000000000 -/
theorem fixed17_tiny_counterexample : scanDQ (printFixedQ 17 (1 * pow2Q (-60))) = some (0, []) := by decide +kernel

/-- test: the fixed text of 1/3·2^-24 -/
example : printFixedQ 17 smallThird = "0.00000001986821493".toList := by decide +kernel

/-! ### the helper one level down: what `isProbability` (dense / sparse) guarantees about a loaded object -/

theorem sumQ_foldl (l : List Rat) (a : Rat) : l.foldl (· + ·) a = a + sumQ l := by
  induction l generalizing a with
  | nil => simp [sumQ]
  | cons x xs ih => simp only [sumQ, List.foldl_cons] at ih ⊢; rw [ih (a + x), ih (0 + x)]; ring

theorem sumQ_cons (x : Rat) (l : List Rat) : sumQ (x :: l) = x + sumQ l := by
  simp only [sumQ, List.foldl_cons]; rw [sumQ_foldl]; simp [sumQ]

theorem absR_eq_abs (x : Rat) : absR x = |x| := by
  unfold absR; split
  · rw [abs_of_neg ‹_›]
  · rw [abs_of_nonneg (not_lt.1 ‹_›)]

/-- Σ|x| − Σx dominates |x| − x of every entry -/
theorem abs_excess_le (l : List Rat) : ∀ x ∈ l, |x| - x ≤ sumQ (l.map absR) - sumQ l ∧ 0 ≤ sumQ (l.map absR) - sumQ l := by
  induction l with
  | nil => intro x hx; cases hx
  | cons y ys ih =>
    have hy : 0 ≤ |y| - y := by linarith [le_abs_self y]
    have hrest : 0 ≤ sumQ (ys.map absR) - sumQ ys := by
      cases ys with
      | nil => simp [sumQ]
      | cons z zs => exact (ih z (List.mem_cons_self)).2
    intro x hx
    simp only [List.map_cons, sumQ_cons, absR_eq_abs]
    rcases List.mem_cons.1 hx with rfl | hx
    · constructor <;> linarith
    · have := (ih x hx).1
      constructor <;> linarith

/-- what `isProbability(SparseMatrix2D)` guarantees about one row ("Eigen sparse does not implement minCoeff … we force
    the matrix to its abs"): every stored entry is at least −tol and at most 1 + tol, for tol ≥ 0 -/
theorem sparseRowOk_bounds (tol : Rat) (r : List Rat) (h : (ratIO tol).sparseRowOk r = true) :
    ∀ x ∈ r, -tol ≤ x ∧ x ≤ 1 + tol := by
  simp only [ratIO, Bool.and_eq_true, decide_eq_true_eq, absR_eq_abs] at h
  obtain ⟨h1, h2⟩ := h
  have h1' := abs_le.1 h1
  have h2' := abs_le.1 h2
  intro x hx
  have hex := (abs_excess_le r x hx).1
  have hxa : x ≤ |x| := le_abs_self x
  -- |x| ≤ Σ|·|
  have hle : |x| ≤ sumQ (r.map absR) := by
    clear h1 h2 h1' h2' hex
    induction r with
    | nil => cases hx
    | cons y ys ih =>
      have hnn : ∀ l : List Rat, 0 ≤ sumQ (l.map absR) := by
        intro l; induction l with
        | nil => simp [sumQ]
        | cons z zs ihz => simp only [List.map_cons, sumQ_cons, absR_eq_abs]; linarith [abs_nonneg z]
      simp only [List.map_cons, sumQ_cons, absR_eq_abs]
      rcases List.mem_cons.1 hx with rfl | hx
      · linarith [hnn ys]
      · linarith [ih hx, abs_nonneg y]
  constructor
  · by_contra hc
    have hneg : x < 0 := by
      have := abs_nonneg (sumQ r - 1); linarith
    rw [abs_of_neg hneg] at hex
    linarith
  · linarith

/-- what `isProbability(Matrix2D)` guarantees about one row: every entry lies in [0, 1 + tol] -/
theorem rowOk_bounds (tol : Rat) (r : List Rat) (h : (ratIO tol).rowOk r = true) : ∀ x ∈ r, 0 ≤ x ∧ x ≤ 1 + tol := by
  simp only [ratIO, Bool.and_eq_true, Bool.not_eq_true', List.any_eq_false, decide_eq_true_eq, absR_eq_abs] at h
  obtain ⟨hn, hs⟩ := h
  have hs' := abs_le.1 hs
  have hnn : ∀ x ∈ r, 0 ≤ x := fun x hx => by simpa using hn x hx
  intro x hx
  refine ⟨hnn x hx, ?_⟩
  have hle : x ≤ sumQ r := by
    clear hs hs' hn
    induction r with
    | nil => cases hx
    | cons y ys ih =>
      have hsum : ∀ l : List Rat, (∀ z ∈ l, 0 ≤ z) → 0 ≤ sumQ l := by
        intro l hl; induction l with
        | nil => simp [sumQ]
        | cons z zs ihz => rw [sumQ_cons]; linarith [hl z (List.mem_cons_self), ihz (fun w hw => hl w (List.mem_cons_of_mem _ hw))]
      rw [sumQ_cons]
      rcases List.mem_cons.1 hx with rfl | hx
      · linarith [hsum ys (fun w hw => hnn w (List.mem_cons_of_mem _ hw))]
      · linarith [ih (fun w hw => hnn w (List.mem_cons_of_mem _ hw)) hx, hnn y (List.mem_cons_self)]
  linarith

/-- every load that succeeds — on ANY input — leaves a dense model whose transition probabilities lie in [0, 1 + tol]
    and whose discount is in (0, 1] (`rdDModel_ok` read through the helper contracts above) -/
theorem loaded_dmodel_probabilities (tol : Rat) (S A : Nat) (s s' : Stream) (m : DModel Rat)
    (h : rdDModel (ratIO tol) S A s = .ok m s') :
    (0 < m.discount ∧ m.discount ≤ 1) ∧ ∀ t ∈ m.T, ∀ r ∈ t, ∀ x ∈ r, 0 ≤ x ∧ x ≤ 1 + tol := by
  have hv := rdDModel_ok (ratIO tol) S A s s' m h
  simp only [dmodelValidB, Bool.and_eq_true, isProbMat3, isProbMat, List.all_eq_true] at hv
  obtain ⟨⟨⟨hd, _⟩, hp⟩, _⟩ := hv
  refine ⟨?_, fun t ht r hr => rowOk_bounds tol r (hp t ht r hr)⟩
  simp only [ratIO, Bool.not_eq_true', Bool.or_eq_false_iff, decide_eq_false_iff_not, not_le, not_lt] at hd
  exact hd

/-- the sparse loader: stored transition entries lie in [−tol, 1 + tol] — the |·| trick of
    `isProbability(SparseMatrix2D)` bounds negative entries by the tolerance, it does not exclude them -/
theorem loaded_smodel_probabilities (tol : Rat) (S A : Nat) (s s' : Stream) (m : SModel Rat)
    (h : rdSModel (ratIO tol) S A s = .ok m s') :
    ∀ t ∈ m.T, ∀ i < S, ∀ x ∈ spRow t i, -tol ≤ x ∧ x ≤ 1 + tol := by
  have hv := rdSModel_ok (ratIO tol) S A s s' m h
  simp only [smodelValidB, Bool.and_eq_true, isProbSp3, isProbSp, List.all_eq_true, List.mem_range] at hv
  obtain ⟨⟨_, hp⟩, _⟩ := hv
  exact fun t ht i hi => sparseRowOk_bounds tol _ (hp t ht i hi)

/-- witness that the sparse bound is tight in kind: a row (1 + 1/2000000, −1/2000000) passes the sparse check at
    tol = 1e-6 and is rejected by the dense one (test by evaluation) -/
example : (ratIO (1 / 1000000)).sparseRowOk [1 + 1 / 2000000, -1 / 2000000] = true ∧
    (ratIO (1 / 1000000)).rowOk [1 + 1 / 2000000, -1 / 2000000] = false := by decide +kernel

/-! ### consecutive loads on one stream (failbit is sticky) -/

/-- the stream between two `operator>>`: its unread tokens, or failed (`none`); nobody calls `clear()` -/
abbrev SState := Option Stream

/-- one `is >> dest` on a stream in state `st`: a failed stream fails every extraction at once -/
def loadOn {α} (rd : Rd α) (dest : α) : SState → Loaded α × SState
  | none => (⟨dest, some .failbit, []⟩, none)
  | some s =>
    match rd s with
    | .ok y rest => (⟨y, none, rest⟩, some rest)
    | .bad e => (⟨dest, some e, []⟩, none)

/-- `is >> d1 >> d2 >> …` : readers paired with their destinations (one sum type covers mixed kinds) -/
def loadSeq {α} : List (Rd α × α) → SState → List (Loaded α)
  | [], _ => []
  | (rd, d) :: r, st => (loadOn rd d st).1 :: loadSeq r (loadOn rd d st).2

theorem loadOn_good {α} (rd : Rd α) (dest : α) (s : Stream) : (loadOn rd dest (some s)).1 = load rd dest s := by
  simp only [loadOn, load]; cases rd s <;> rfl

/-- on a failed stream every load fails and leaves its destination exactly as it was -/
theorem loadSeq_failed {α} : ∀ (l : List (Rd α × α)), loadSeq l none = l.map (fun p => ⟨p.2, some .failbit, []⟩)
  | [] => rfl
  | (rd, d) :: r => by simp [loadSeq, loadOn, loadSeq_failed r]

theorem loadSeq_length {α} : ∀ (l : List (Rd α × α)) (st : SState), (loadSeq l st).length = l.length
  | [], _ => rfl
  | (rd, d) :: r, st => by simp [loadSeq, loadSeq_length r]

/-- what one load of a sequence may do to its destination `p.2`, for the reader `p.1` -/
def AtomicLoad {α} (p : Rd α × α) (L : Loaded α) : Prop :=
  (L.sig = none ∧ ∃ s s', p.1 s = .ok L.dest s') ∨ (L.sig ≠ none ∧ L.dest = p.2)

/-- ATOMICITY OF EVERY LOAD IN A SEQUENCE — any readers, any input, any stream state (good or already failed): each
    destination is either what its reader returned on the input left by the loads before it (stream good afterwards),
    or exactly what it was (failure signalled) -/
theorem loadSeq_atomic {α} : ∀ (l : List (Rd α × α)) (st : SState), List.Forall₂ AtomicLoad l (loadSeq l st)
  | [], _ => .nil
  | (rd, d) :: r, st => by
    refine .cons ?_ (loadSeq_atomic r _)
    cases st with
    | none => exact Or.inr ⟨by simp [loadOn], rfl⟩
    | some s =>
      simp only [loadOn]
      cases h : rd s with
      | ok y rest => exact Or.inl ⟨rfl, s, rest, h⟩
      | bad e => exact Or.inr ⟨by simp, rfl⟩

/-- STICKINESS: a sequence of loads is a run of successes followed by a run of failures — once one load has signalled
    failure every later one does too (and, by `loadSeq_atomic`, leaves its destination alone) -/
theorem loadSeq_sticky {α} : ∀ (l : List (Rd α × α)) (st : SState),
    ∃ n, (∀ L ∈ (loadSeq l st).take n, L.sig = none) ∧ (∀ L ∈ (loadSeq l st).drop n, L.sig ≠ none)
  | [], _ => ⟨0, by simp [loadSeq], by simp [loadSeq]⟩
  | (rd, d) :: r, none => ⟨0, by simp, by
      intro L hL
      rw [List.drop_zero, loadSeq_failed] at hL
      obtain ⟨p, _, rfl⟩ := List.mem_map.1 hL
      simp⟩
  | (rd, d) :: r, some s => by
    cases h : rd s with
    | ok y rest =>
      obtain ⟨n, h1, h2⟩ := loadSeq_sticky r (some rest)
      refine ⟨n + 1, ?_, ?_⟩
      · intro L hL
        simp only [loadSeq, loadOn, h, List.take_succ_cons, List.mem_cons] at hL
        rcases hL with rfl | hL
        · rfl
        · exact h1 L hL
      · intro L hL
        simp only [loadSeq, loadOn, h, List.drop_succ_cons] at hL
        exact h2 L hL
    | bad e =>
      refine ⟨0, by simp, ?_⟩
      intro L hL
      simp only [List.drop_zero, loadSeq, loadOn, h, List.mem_cons] at hL
      rcases hL with rfl | hL
      · simp
      · rw [loadSeq_failed] at hL
        obtain ⟨p, _, rfl⟩ := List.mem_map.1 hL
        simp

/-- ROUND TRIP OF A SEQUENCE: objects written one after the other (each by a writer whose reader round-trips; one sum
    type covers mixed kinds) are all loaded back in order, whatever the destinations held: every destination ends up
    holding the saved object and no load signals anything.  `l` lists ((reader, destination), saved object). -/
theorem loadSeq_roundtrip {α} (wr : α → Stream) :
    ∀ (l : List ((Rd α × α) × α)) (rest : Stream), (∀ p ∈ l, RoundTrips p.1.1 wr p.2) →
      (loadSeq (l.map (·.1)) (some (l.flatMap (fun p => wr p.2) ++ rest))).map (fun L => (L.dest, L.sig))
        = l.map (fun p => (p.2, none))
  | [], _, _ => rfl
  | p :: r, rest, h => by
    have hp := h p (List.mem_cons_self)
    have ih := loadSeq_roundtrip wr r rest (fun q hq => h q (List.mem_cons_of_mem _ hq))
    simp only [List.map_cons, List.flatMap_cons, List.append_assoc, loadSeq, loadOn, hp _]
    rw [ih]


/-- every load of a sequence either yields an object its reader's validity theorem vouches for (stream good), or signals
    failure and leaves the destination alone: `failed_read_atomic` for each member of `is >> a >> b >> …`.
    `V` is any predicate the readers establish (`rd*_ok`), e.g. `validObj`. -/
theorem loadSeq_valid {α} (V : α → Prop) (l : List (Rd α × α)) (st : SState)
    (hV : ∀ p ∈ l, ∀ s y s', p.1 s = .ok y s' → V y) :
    List.Forall₂ (fun (p : Rd α × α) (L : Loaded α) => (L.sig = none ∧ V L.dest) ∨ (L.sig ≠ none ∧ L.dest = p.2)) l (loadSeq l st) := by
  induction l generalizing st with
  | nil => exact .nil
  | cons p l' ih =>
    have h := loadSeq_atomic (p :: l') st
    simp only [loadSeq] at h ⊢
    cases h with
    | cons hpl _ =>
      refine .cons ?_ (ih _ (fun q hq => hV q (List.mem_cons_of_mem _ hq)))
      rcases hpl with ⟨hs, s, s', hr⟩ | h
      · exact Or.inl ⟨hs, hV p (List.mem_cons_self) s _ s' hr⟩
      · exact Or.inr h

/-- instance: a dense MDP model followed by anything — whatever the bytes, the model destination ends up valid or untouched -/
example (tol : Rat) (S A : Nat) (d1 d2 : DModel Rat) (st : SState) :
    List.Forall₂ (fun (p : Rd (DModel Rat) × DModel Rat) (L : Loaded (DModel Rat)) =>
        (L.sig = none ∧ dmodelValidB (ratIO tol) S A L.dest = true) ∨ (L.sig ≠ none ∧ L.dest = p.2))
      [(rdDModel (ratIO tol) S A, d1), (rdDModel (ratIO tol) S A, d2)]
      (loadSeq [(rdDModel (ratIO tol) S A, d1), (rdDModel (ratIO tol) S A, d2)] st) :=
  loadSeq_valid (fun m => dmodelValidB (ratIO tol) S A m = true)
    [(rdDModel (ratIO tol) S A, d1), (rdDModel (ratIO tol) S A, d2)] st (by
    intro p hp s y s' h
    have hp' : p.1 = rdDModel (ratIO tol) S A := by
      rcases List.mem_cons.1 hp with rfl | hp
      · rfl
      · rcases List.mem_cons.1 hp with rfl | hp
        · rfl
        · cases hp
    rw [hp'] at h
    exact rdDModel_ok _ S A s s' y h)

/-- test: two vectors on one stream, then a third load at end of input fails and keeps its destination -/
example : (loadSeq [(rdVec (ratIO 0) 1, [7]), (rdVec (ratIO 0) 2, [8, 8]), (rdVec (ratIO 0) 1, [9])]
      (some ["1".toList, "2".toList, "0.5".toList])).map (fun L => (L.dest, L.sig))
    = [([1], none), ([2, 1 / 2], none), ([9], some .failbit)] := by decide +kernel

end AITB.Codec
