/-
  AITB.Props.C08Vose — correctness of the repaired Vose alias-table construction
  (`voseBuildFixed`, fixes/C08-3) of AITB.Model.Sampling (property C08, alias part).
  Unbounded: any list, any length.
-/
import AITB.Model.Sampling
import Mathlib.Algebra.Order.Field.Rat
import Mathlib.Algebra.BigOperators.Group.List.Basic
import Mathlib.Algebra.BigOperators.Ring.Finset
import Mathlib.Algebra.Order.BigOperators.Group.Finset
import Mathlib.Tactic.Linarith
import Mathlib.Tactic.Ring
import Mathlib.Tactic.NormNum
import Mathlib.Tactic.FieldSimp

namespace AITB.Sampling

/-! ## list facts (never unfold lists after this section) -/

theorem vf_getD_set {α : Type} (l : List α) (i j : Nat) (v d : α) :
    (l.set i v).getD j d = if i = j ∧ i < l.length then v else l.getD j d := by
  simp only [List.getD_eq_getElem?_getD, List.getElem?_set]
  by_cases h : i = j
  · subst h
    by_cases h2 : i < l.length
    · simp [h2]
    · simp [h2]
  · simp [h]

theorem vf_getD_replicate (n i : Nat) (v d : Nat) (h : i < n) :
    (List.replicate n v).getD i d = v := by
  simp [List.getD_eq_getElem?_getD, h]

theorem vf_getD_range_map {α : Type} (n i : Nat) (f : Nat → α) (d : α) (h : i < n) :
    ((List.range n).map f).getD i d = f i := by
  simp [List.getD_eq_getElem?_getD, h]

theorem vf_sum_range_map (f : Nat → Rat) : ∀ n : Nat,
    ((List.range n).map f).sum = ∑ i ∈ Finset.range n, f i
  | 0 => by simp
  | n + 1 => by
    rw [List.range_succ, List.map_append, List.sum_append, Finset.sum_range_succ,
      vf_sum_range_map f n]
    simp

theorem vf_sum_getD : ∀ p : List Rat, p.sum = ∑ j ∈ Finset.range p.length, p.getD j 0
  | [] => by simp
  | x :: xs => by
    rw [List.length_cons, Finset.sum_range_succ', List.sum_cons, vf_sum_getD xs]
    simp [add_comm]

theorem vf_getD_mem (p : List Rat) (i : Nat) (h : i < p.length) : p.getD i 0 ∈ p := by
  rw [List.getD_eq_getElem?_getD, List.getElem?_eq_getElem h]
  simp

/-! ## the scan -/

theorem vf_scan (cond : Nat → Bool) (n : Nat) : ∀ (fuel i : Nat), n - i ≤ fuel →
    i ≤ scanFrom cond n fuel i ∧ (i ≤ n → scanFrom cond n fuel i ≤ n) ∧
    (∀ k, i ≤ k → k < scanFrom cond n fuel i → cond k = true) ∧
    (scanFrom cond n fuel i < n → cond (scanFrom cond n fuel i) = false)
  | 0, i, h => by
    simp only [scanFrom]
    refine ⟨le_refl _, fun h => h, fun k h1 h2 => by omega, fun h2 => by omega⟩
  | fuel + 1, i, h => by
    simp only [scanFrom]
    by_cases hc : (decide (i < n) && cond i) = true
    · rw [if_pos hc]
      have hc' : i < n ∧ cond i = true := by simpa using hc
      obtain ⟨a, b, c, d⟩ := vf_scan cond n fuel (i + 1) (by omega)
      refine ⟨by omega, fun _ => b (by omega), fun k h1 h2 => ?_, d⟩
      by_cases hk : k = i
      · subst hk; exact hc'.2
      · exact c k (by omega) h2
    · rw [if_neg hc]
      refine ⟨le_refl _, fun h => h, fun k h1 h2 => by omega, fun h2 => ?_⟩
      simp only [Bool.and_eq_true, decide_eq_true_eq, not_and, Bool.not_eq_true] at hc
      exact hc h2

/-! ## (A) aliases are always in range -/

theorem vf_loop_alias_le (n : Nat) (avg : Rat) : ∀ (fuel : Nat) (st : Vose),
    (∀ i, i < n → al st i ≤ n) → ∀ i, i < n → al (voseLoopFixed n avg fuel st) i ≤ n
  | 0, st, h => by simpa [voseLoopFixed] using h
  | fuel + 1, st, h => by
    simp only [voseLoopFixed]
    by_cases hc : (decide (st.small < n) && decide (st.large < n)) = true
    · rw [if_pos hc]
      have hc' : st.small < n ∧ st.large < n := by simpa using hc
      apply vf_loop_alias_le n avg fuel
      intro i hi
      have : (voseStepFixed n avg st).alias = st.alias.set st.small st.large := by
        unfold voseStepFixed; simp only []; split <;> rfl
      unfold al
      rw [this, vf_getD_set]
      split
      · omega
      · exact h i hi
    · rw [if_neg hc]; exact h

/-- the state before the first iteration -/
def vf_init (p : List Rat) (avg : Rat) : Vose :=
  ⟨p, List.replicate p.length p.length,
    scanFrom (fun i => p.getD i 0 ≥ avg) p.length p.length 0,
    scanFrom (fun i => p.getD i 0 < avg) p.length p.length 0,
    scanFrom (fun i => p.getD i 0 ≥ avg) p.length p.length 0⟩

/-- the state after the main loop -/
def vf_exit (p : List Rat) (avg : Rat) : Vose :=
  voseLoopFixed p.length avg (2 * p.length + 1) (vf_init p avg)

theorem vf_build_eq (p : List Rat) (avg : Rat) :
    voseBuildFixed p avg =
      (((List.range p.length).map
          (fun x => if al (vf_exit p avg) x == p.length then 1 else pr (vf_exit p avg) x)).map
            (· * (p.length : Rat)),
       (List.range p.length).map
          (fun x => if al (vf_exit p avg) x == p.length then x else al (vf_exit p avg) x)) := rfl

theorem vf_init_al (p : List Rat) (avg : Rat) (i : Nat) (hi : i < p.length) :
    al (vf_init p avg) i = p.length := by
  show (List.replicate p.length p.length).getD i 0 = p.length
  exact vf_getD_replicate _ _ _ _ hi

theorem vose_fixed_lengths (p : List Rat) (avg : Rat) :
    (voseBuildFixed p avg).1.length = p.length ∧ (voseBuildFixed p avg).2.length = p.length := by
  simp [vf_build_eq]

theorem vose_fixed_alias_in_range (p : List Rat) (avg : Rat) :
    ∀ a ∈ (voseBuildFixed p avg).2, a < p.length := by
  intro a ha
  simp only [vf_build_eq, List.mem_map, List.mem_range] at ha
  obtain ⟨x, hx, rfl⟩ := ha
  have h := vf_loop_alias_le p.length avg (2 * p.length + 1) (vf_init p avg)
    (fun i hi => by rw [vf_init_al p avg i hi]) x hx
  change al (vf_exit p avg) x ≤ p.length at h
  split
  · exact hx
  · rename_i hne
    have : ¬ (al (vf_exit p avg) x = p.length) := by simpa using hne
    omega

/-! ## one iteration, as facts about `pr`, `al` and the cursors -/

theorem vf_step_if_eq (n : Nat) (avg : Rat) (st : Vose)
    (h : pr st st.large + pr st st.small - avg < avg) :
    voseStepFixed n avg st =
      ⟨st.prob.set st.large (pr st st.large + pr st st.small - avg),
       st.alias.set st.small st.large, st.large,
       scanFrom (fun i => decide ((st.prob.set st.large
          (pr st st.large + pr st st.small - avg)).getD i 0 < avg)) n n (st.large + 1),
       st.cp⟩ := by
  unfold voseStepFixed
  exact if_pos h

theorem vf_step_else_eq (n : Nat) (avg : Rat) (st : Vose)
    (h : ¬ pr st st.large + pr st st.small - avg < avg) :
    voseStepFixed n avg st =
      ⟨st.prob.set st.large (pr st st.large + pr st st.small - avg),
       st.alias.set st.small st.large,
       scanFrom (fun i => decide ((st.prob.set st.large
          (pr st st.large + pr st st.small - avg)).getD i 0 ≥ avg) ||
          (st.alias.set st.small st.large).getD i 0 != n) n n (st.cp + 1),
       st.large,
       scanFrom (fun i => decide ((st.prob.set st.large
          (pr st st.large + pr st st.small - avg)).getD i 0 ≥ avg) ||
          (st.alias.set st.small st.large).getD i 0 != n) n n (st.cp + 1)⟩ := by
  unfold voseStepFixed
  exact if_neg h

/-- everything the invariant proof needs to know about one iteration -/
theorem vf_step_facts (n : Nat) (avg : Rat) (st : Vose)
    (hlp : st.prob.length = n) (hla : st.alias.length = n)
    (hs : st.small < n) (hL : st.large < n) :
    (voseStepFixed n avg st).prob.length = n ∧ (voseStepFixed n avg st).alias.length = n ∧
    (∀ i, pr (voseStepFixed n avg st) i =
        if i = st.large then pr st st.large + pr st st.small - avg else pr st i) ∧
    (∀ i, al (voseStepFixed n avg st) i = if i = st.small then st.large else al st i) ∧
    ((pr st st.large + pr st st.small - avg < avg ∧
        (voseStepFixed n avg st).small = st.large ∧ (voseStepFixed n avg st).cp = st.cp ∧
        (voseStepFixed n avg st).large =
          scanFrom (fun i => decide (pr (voseStepFixed n avg st) i < avg)) n n (st.large + 1)) ∨
     (avg ≤ pr st st.large + pr st st.small - avg ∧
        (voseStepFixed n avg st).large = st.large ∧
        (voseStepFixed n avg st).cp = (voseStepFixed n avg st).small ∧
        (voseStepFixed n avg st).small =
          scanFrom (fun i => decide (pr (voseStepFixed n avg st) i ≥ avg) ||
            al (voseStepFixed n avg st) i != n) n n (st.cp + 1))) := by
  have hprob : (voseStepFixed n avg st).prob =
      st.prob.set st.large (pr st st.large + pr st st.small - avg) := by
    by_cases h : pr st st.large + pr st st.small - avg < avg
    · rw [vf_step_if_eq n avg st h]
    · rw [vf_step_else_eq n avg st h]
  have halias : (voseStepFixed n avg st).alias = st.alias.set st.small st.large := by
    by_cases h : pr st st.large + pr st st.small - avg < avg
    · rw [vf_step_if_eq n avg st h]
    · rw [vf_step_else_eq n avg st h]
  refine ⟨by rw [hprob, List.length_set, hlp], by rw [halias, List.length_set, hla], ?_, ?_, ?_⟩
  · intro i
    show (voseStepFixed n avg st).prob.getD i 0 = _
    rw [hprob, vf_getD_set]
    by_cases h : i = st.large
    · rw [if_pos h, if_pos ⟨h.symm, by omega⟩]
    · rw [if_neg h, if_neg (fun hh => h hh.1.symm)]; rfl
  · intro i
    show (voseStepFixed n avg st).alias.getD i 0 = _
    rw [halias, vf_getD_set]
    by_cases h : i = st.small
    · rw [if_pos h, if_pos ⟨h.symm, by omega⟩]
    · rw [if_neg h, if_neg (fun hh => h hh.1.symm)]; rfl
  · by_cases h : pr st st.large + pr st st.small - avg < avg
    · left
      refine ⟨h, ?_, ?_, ?_⟩ <;> (rw [vf_step_if_eq n avg st h]; try rfl)
    · right
      refine ⟨not_lt.mp h, ?_, ?_, ?_⟩ <;> (rw [vf_step_else_eq n avg st h]; try rfl)

/-! ## the loop invariant -/

structure vf_Inv (p : List Rat) (n : Nat) (avg : Rat) (st : Vose) : Prop where
  lp : st.prob.length = n
  la : st.alias.length = n
  i1 : ∀ j, j < n → p.getD j 0 =
        pr st j + ∑ i ∈ Finset.range n, (if al st i = j then avg - pr st i else 0)
  i2 : ∀ i, i < n → al st i ≠ n → al st i < n ∧ pr st i < avg
  i0 : ∀ i, i < n → 0 ≤ pr st i
  i4 : ∀ i, i < st.large → i < n → pr st i < avg
  i5 : ∀ i, i < n → al st i = n → pr st i < avg → i = st.small ∨ st.cp < i
  i7 : st.small < n → al st st.small = n ∧ pr st st.small < avg
  i8 : st.large < n → avg ≤ pr st st.large
  bl : st.large ≤ n
  bc : st.cp ≤ n
  b9 : n ≤ st.small → n ≤ st.cp
  b10 : st.small < n → st.cp < n

theorem vf_step_inv (p : List Rat) (n : Nat) (avg : Rat) (st : Vose)
    (hn : vf_Inv p n avg st) (hs : st.small < n) (hL : st.large < n) :
    vf_Inv p n avg (voseStepFixed n avg st) ∧
    (n - (voseStepFixed n avg st).large) + (n - (voseStepFixed n avg st).cp) <
      (n - st.large) + (n - st.cp) := by
  obtain ⟨hlp', hla', hpr, hal, hbr⟩ := vf_step_facts n avg st hn.lp hn.la hs hL
  generalize voseStepFixed n avg st = st' at *
  obtain ⟨h7a, h7p⟩ := hn.i7 hs
  have h8 := hn.i8 hL
  have h0s := hn.i0 _ hs
  have hLun : al st st.large = n := by
    by_contra h
    have := (hn.i2 _ hL h).2
    linarith
  have hsL : st.small ≠ st.large := by
    intro h; rw [h] at h7p; linarith
  have hcp := hn.b10 hs
  have hpl0 : 0 ≤ pr st st.large + pr st st.small - avg := by linarith
  -- clauses common to both branches
  have c1 : ∀ j, j < n → p.getD j 0 =
        pr st' j + ∑ i ∈ Finset.range n, (if al st' i = j then avg - pr st' i else 0) := by
    intro j hj
    have hterm : ∀ i ∈ Finset.range n, (if al st' i = j then avg - pr st' i else 0) =
        (if al st i = j then avg - pr st i else 0) +
          (if i = st.small then (if st.large = j then avg - pr st st.small else 0) else 0) := by
      intro i _
      rw [hal i, hpr i]
      by_cases his : i = st.small
      · subst his
        rw [if_pos rfl, if_pos rfl, if_neg hsL, h7a, if_neg (by omega : ¬ n = j), zero_add]
      · rw [if_neg his, if_neg his, add_zero]
        by_cases hiL : i = st.large
        · subst hiL
          rw [hLun, if_neg (by omega : ¬ n = j), if_neg (by omega : ¬ n = j)]
        · rw [if_neg hiL]
    rw [Finset.sum_congr rfl hterm, Finset.sum_add_distrib, Finset.sum_ite_eq',
      if_pos (Finset.mem_range.mpr hs), hn.i1 j hj, hpr j]
    by_cases hjL : j = st.large
    · rw [if_pos hjL, if_pos hjL.symm, hjL]; ring
    · rw [if_neg hjL, if_neg (fun h => hjL h.symm)]; ring
  have c2 : ∀ i, i < n → al st' i ≠ n → al st' i < n ∧ pr st' i < avg := by
    intro i hi
    rw [hal i, hpr i]
    by_cases his : i = st.small
    · subst his
      rw [if_pos rfl, if_neg hsL]
      exact fun _ => ⟨hL, h7p⟩
    · rw [if_neg his]
      intro h
      have hiL : i ≠ st.large := by
        intro h'; subst h'; exact h hLun
      rw [if_neg hiL]
      exact hn.i2 i hi h
  have c0 : ∀ i, i < n → 0 ≤ pr st' i := by
    intro i hi
    rw [hpr i]
    split
    · exact hpl0
    · exact hn.i0 i hi
  have hals : al st' st.small = st.large := by rw [hal, if_pos rfl]
  have halL : al st' st.large = n := by rw [hal, if_neg (fun h => hsL h.symm), hLun]
  have hprL : pr st' st.large = pr st st.large + pr st st.small - avg := by rw [hpr, if_pos rfl]
  rcases hbr with ⟨hlt, hsm, hc, hlg⟩ | ⟨hge, hlg, hc, hsm⟩
  · -- if-branch
    obtain ⟨s1, s2, s3, s4⟩ :=
      vf_scan (fun i => decide (pr st' i < avg)) n n (st.large + 1) (by omega)
    rw [← hlg] at s1 s2 s3 s4
    have s2' := s2 (by omega)
    refine ⟨⟨hlp', hla', c1, c2, c0, ?_, ?_, ?_, ?_, s2', by rw [hc]; exact hn.bc, ?_, ?_⟩, ?_⟩
    · intro i hi hin
      by_cases h1 : i < st.large
      · rw [hpr, if_neg (by omega)]; exact hn.i4 i h1 hin
      · by_cases h2 : i = st.large
        · rw [h2, hprL]; exact hlt
        · simpa using s3 i (by omega) hi
    · intro i hi hai hpi
      rw [hsm, hc]
      by_cases h2 : i = st.large
      · exact Or.inl h2
      · right
        have his : i ≠ st.small := by
          intro h; rw [h, hals] at hai; omega
        rw [hal, if_neg his] at hai
        rw [hpr, if_neg h2] at hpi
        rcases hn.i5 i hi hai hpi with h | h
        · exact absurd h his
        · exact h
    · intro _
      rw [hsm]
      exact ⟨halL, by rw [hprL]; exact hlt⟩
    · intro h
      have := s4 h
      simpa using this
    · intro h; rw [hsm] at h; omega
    · intro _; rw [hc]; exact hcp
    · rw [hc]; omega
  · -- else-branch
    obtain ⟨s1, s2, s3, s4⟩ :=
      vf_scan (fun i => decide (pr st' i ≥ avg) || al st' i != n) n n (st.cp + 1) (by omega)
    rw [← hsm] at s1 s2 s3 s4
    have s2' := s2 (by omega)
    refine ⟨⟨hlp', hla', c1, c2, c0, ?_, ?_, ?_, ?_, by rw [hlg]; exact hn.bl,
      by rw [hc]; exact s2', ?_, ?_⟩, ?_⟩
    · intro i hi hin
      rw [hlg] at hi
      rw [hpr, if_neg (by omega)]; exact hn.i4 i hi hin
    · intro i hi hai hpi
      rw [hc]
      by_contra hcon
      have hlt : i < st'.small := by omega
      have his : i ≠ st.small := by
        intro h; rw [h, hals] at hai; omega
      have hiL : i ≠ st.large := by
        intro h; rw [h, hprL] at hpi; linarith
      have hai' := hai
      rw [hal, if_neg his] at hai'
      have hpi' := hpi
      rw [hpr, if_neg hiL] at hpi'
      rcases hn.i5 i hi hai' hpi' with h | h
      · exact his h
      · have := s3 i (by omega) hlt
        simp only [Bool.or_eq_true, decide_eq_true_eq, bne_iff_ne] at this
        rcases this with h' | h'
        · linarith
        · exact h' hai
    · intro h
      have := s4 h
      simp only [Bool.or_eq_false_iff, decide_eq_false_iff_not, bne_eq_false_iff_eq] at this
      exact ⟨this.2, not_le.mp this.1⟩
    · intro _
      rw [hlg, hprL]; exact hge
    · intro h; rw [hc]; exact h
    · intro h; rw [hc]; exact h
    · rw [hlg, hc]; omega

/-! ## the invariant holds initially, and the loop reaches an exit state that satisfies it -/

theorem vf_init_inv (p : List Rat) (avg : Rat) (hnn : ∀ x ∈ p, 0 ≤ x) :
    vf_Inv p p.length avg (vf_init p avg) := by
  have hpr : ∀ i, pr (vf_init p avg) i = p.getD i 0 := fun _ => rfl
  have hal := vf_init_al p avg
  have hsm : (vf_init p avg).small =
      scanFrom (fun i => decide (p.getD i 0 ≥ avg)) p.length p.length 0 := rfl
  have hcp : (vf_init p avg).cp = (vf_init p avg).small := rfl
  have hlg : (vf_init p avg).large =
      scanFrom (fun i => decide (p.getD i 0 < avg)) p.length p.length 0 := rfl
  obtain ⟨_, a2, a3, a4⟩ :=
    vf_scan (fun i => decide (p.getD i 0 ≥ avg)) p.length p.length 0 (by omega)
  obtain ⟨_, b2, b3, b4⟩ :=
    vf_scan (fun i => decide (p.getD i 0 < avg)) p.length p.length 0 (by omega)
  rw [← hsm] at a2 a3 a4
  rw [← hlg] at b2 b3 b4
  refine ⟨rfl, by simp [vf_init], ?_, ?_, ?_, ?_, ?_, ?_, ?_, b2 (Nat.zero_le _),
    by rw [hcp]; exact a2 (Nat.zero_le _), by rw [hcp]; exact id, by rw [hcp]; exact id⟩
  · intro j hj
    rw [Finset.sum_eq_zero, add_zero, hpr]
    intro i hi
    rw [hal i (Finset.mem_range.mp hi), if_neg (by omega)]
  · intro i hi h
    exact absurd (hal i hi) h
  · intro i hi
    rw [hpr]; exact hnn _ (vf_getD_mem p i hi)
  · intro i hi _
    rw [hpr]
    simpa using b3 i (Nat.zero_le _) hi
  · intro i hi _ hpi
    rw [hcp]
    by_contra hcon
    have := a3 i (Nat.zero_le _) (by omega)
    rw [hpr] at hpi
    simp only [ge_iff_le, decide_eq_true_eq] at this
    linarith
  · intro h
    refine ⟨hal _ h, ?_⟩
    have := a4 h
    rw [hpr]
    simpa using this
  · intro h
    have := b4 h
    rw [hpr]
    simpa using this

theorem vf_loop_inv (p : List Rat) (n : Nat) (avg : Rat) : ∀ (fuel : Nat) (st : Vose),
    vf_Inv p n avg st → (n - st.large) + (n - st.cp) < fuel →
    vf_Inv p n avg (voseLoopFixed n avg fuel st) ∧
    ¬ ((voseLoopFixed n avg fuel st).small < n ∧ (voseLoopFixed n avg fuel st).large < n)
  | 0, st, _, h => by omega
  | fuel + 1, st, hn, h => by
    simp only [voseLoopFixed]
    by_cases hc : (decide (st.small < n) && decide (st.large < n)) = true
    · rw [if_pos hc]
      have hc' : st.small < n ∧ st.large < n := by simpa using hc
      obtain ⟨h1, h2⟩ := vf_step_inv p n avg st hn hc'.1 hc'.2
      exact vf_loop_inv p n avg fuel _ h1 (by omega)
    · rw [if_neg hc]
      refine ⟨hn, ?_⟩
      simpa using hc

/-! ## at exit every unassigned entry holds exactly `avg` -/

theorem vf_exit_unassigned (p : List Rat) (avg : Rat) (st : Vose)
    (hn : vf_Inv p p.length avg st)
    (hex : ¬ (st.small < p.length ∧ st.large < p.length))
    (hsum : p.sum = 1) (havg : (p.length : Rat) * avg = 1) :
    ∀ i, i < p.length → al st i = p.length → pr st i = avg := by
  have hS : ∑ j ∈ Finset.range p.length, p.getD j 0 = 1 := by rw [← vf_sum_getD]; exact hsum
  have h1 : ∑ j ∈ Finset.range p.length, p.getD j 0 =
      ∑ j ∈ Finset.range p.length, pr st j +
        ∑ j ∈ Finset.range p.length, ∑ i ∈ Finset.range p.length,
          (if al st i = j then avg - pr st i else 0) := by
    rw [← Finset.sum_add_distrib]
    exact Finset.sum_congr rfl (fun j hj => hn.i1 j (Finset.mem_range.mp hj))
  rw [Finset.sum_comm] at h1
  have h2 : ∀ i ∈ Finset.range p.length,
      ∑ j ∈ Finset.range p.length, (if al st i = j then avg - pr st i else 0) =
        if al st i = p.length then 0 else avg - pr st i := by
    intro i hi
    rw [Finset.sum_ite_eq]
    by_cases h : al st i = p.length
    · rw [if_pos h, h, if_neg Finset.notMem_range_self]
    · rw [if_neg h, if_pos (Finset.mem_range.mpr (hn.i2 i (Finset.mem_range.mp hi) h).1)]
  rw [Finset.sum_congr rfl h2, hS] at h1
  have hT : ∑ i ∈ Finset.range p.length,
      (if al st i = p.length then avg - pr st i else 0) = 0 := by
    have : ∀ i ∈ Finset.range p.length, (if al st i = p.length then avg - pr st i else 0) =
        avg - pr st i - (if al st i = p.length then 0 else avg - pr st i) := by
      intro i _
      split <;> ring
    rw [Finset.sum_congr rfl this, Finset.sum_sub_distrib, Finset.sum_sub_distrib,
      Finset.sum_const, Finset.card_range, nsmul_eq_mul, havg]
    linarith
  by_cases hl : st.large < p.length
  · have hs : p.length ≤ st.small := by omega
    have hc := hn.b9 hs
    have hall := (Finset.sum_eq_zero_iff_of_nonpos (by
      intro i hi
      have hi' := Finset.mem_range.mp hi
      split
      · rename_i ha
        by_contra hcon
        have hlt : pr st i < avg := by linarith
        rcases hn.i5 i hi' ha hlt with h | h <;> omega
      · exact le_refl _)).mp hT
    intro i hi ha
    have := hall i (Finset.mem_range.mpr hi)
    rw [if_pos ha] at this
    linarith
  · have hall := (Finset.sum_eq_zero_iff_of_nonneg (by
      intro i hi
      have hi' := Finset.mem_range.mp hi
      split
      · have := hn.i4 i (by omega) hi'
        linarith
      · exact le_refl _)).mp hT
    intro i hi ha
    have := hall i (Finset.mem_range.mpr hi)
    rw [if_pos ha] at this
    linarith

/-! ## (B) the table gives every index exactly its probability -/

theorem vf_clamp_id (t : Rat) (h0 : 0 ≤ t) (h1 : t ≤ 1) : clamp01 t = t := by
  unfold clamp01
  rw [if_neg (not_lt.mpr h0), if_neg (not_lt.mpr h1)]

theorem vf_clamp_ge (t : Rat) (h1 : 1 ≤ t) : clamp01 t = 1 := by
  unfold clamp01
  rw [if_neg (not_lt.mpr (by linarith))]
  split
  · rfl
  · linarith

theorem vose_correct (p : List Rat) (hne : p ≠ []) (hnn : ∀ x ∈ p, 0 ≤ x) (hsum : p.sum = 1) :
    ∀ j, j < p.length →
      aliasMass (voseBuildFixed p (1 / (p.length : Rat))).1
        (voseBuildFixed p (1 / (p.length : Rat))).2 j = p.getD j 0 := by
  intro j hj
  have hlen : 0 < p.length := List.length_pos_of_ne_nil hne
  have hnq : (0 : Rat) < (p.length : Rat) := by exact_mod_cast hlen
  have hn0 : (p.length : Rat) ≠ 0 := ne_of_gt hnq
  have hn1 : (1 : Rat) ≤ (p.length : Rat) := by exact_mod_cast hlen
  generalize havg : 1 / (p.length : Rat) = avg
  have havg' : (p.length : Rat) * avg = 1 := by rw [← havg]; field_simp
  obtain ⟨hn, hex⟩ := vf_loop_inv p p.length avg (2 * p.length + 1) (vf_init p avg)
    (vf_init_inv p avg hnn) (by omega)
  change vf_Inv p p.length avg (vf_exit p avg) at hn
  change ¬ ((vf_exit p avg).small < p.length ∧ (vf_exit p avg).large < p.length) at hex
  have hE := vf_exit_unassigned p avg _ hn hex hsum havg'
  rw [vf_build_eq]
  generalize vf_exit p avg = st at hn hex hE
  unfold aliasMass
  simp only [List.map_map, List.length_map, List.length_range]
  rw [vf_sum_range_map]
  have hterm : ∀ i ∈ Finset.range p.length,
      ((if i = j then clamp01 (((List.range p.length).map
          ((fun x => x * (p.length : Rat)) ∘
            fun x => if (al st x == p.length) = true then 1 else pr st x)).getD i 0) else 0) +
       (if ((List.range p.length).map
          (fun x => if (al st x == p.length) = true then x else al st x)).getD i 0 = j
        then 1 - clamp01 (((List.range p.length).map
          ((fun x => x * (p.length : Rat)) ∘
            fun x => if (al st x == p.length) = true then 1 else pr st x)).getD i 0) else 0)) =
      ((if i = j then pr st i else 0) + (if al st i = j then avg - pr st i else 0)) *
        (p.length : Rat) := by
    intro i hi
    have hi' := Finset.mem_range.mp hi
    rw [vf_getD_range_map _ _ _ _ hi', vf_getD_range_map _ _ _ _ hi']
    simp only [Function.comp_apply, beq_iff_eq]
    by_cases ha : al st i = p.length
    · rw [if_pos ha, if_pos ha, vf_clamp_ge _ (by linarith), ha, if_neg (by omega : ¬ p.length = j),
        hE i hi' ha]
      split_ifs <;> linarith
    · obtain ⟨_, hlt⟩ := hn.i2 i hi' ha
      have h0 := hn.i0 i hi'
      have hm0 : 0 ≤ pr st i * (p.length : Rat) := mul_nonneg h0 (le_of_lt hnq)
      have hm1 : pr st i * (p.length : Rat) ≤ 1 := by
        have := mul_le_mul_of_nonneg_right (le_of_lt hlt) (le_of_lt hnq)
        linarith
      rw [if_neg ha, if_neg ha, vf_clamp_id _ hm0 hm1]
      split_ifs <;> linarith
  rw [Finset.sum_congr rfl hterm, ← Finset.sum_mul, Finset.sum_add_distrib, Finset.sum_ite_eq',
    if_pos (Finset.mem_range.mpr hj), ← hn.i1 j hj, mul_div_assoc, div_self hn0, mul_one]

/-- test: the statement's conclusion evaluated on two concrete distributions -/
example : (List.range 3).map (aliasMass
      (voseBuildFixed [1/2, 1/4, 1/4] (1 / (([1/2, 1/4, 1/4] : List Rat).length : Rat))).1
      (voseBuildFixed [1/2, 1/4, 1/4] (1 / (([1/2, 1/4, 1/4] : List Rat).length : Rat))).2) =
    [1/2, 1/4, 1/4] := by decide +kernel

example : (List.range 4).map (aliasMass
      (voseBuildFixed [0, 1/4, 1/4, 1/2] (1 / (([0, 1/4, 1/4, 1/2] : List Rat).length : Rat))).1
      (voseBuildFixed [0, 1/4, 1/4, 1/2] (1 / (([0, 1/4, 1/4, 1/2] : List Rat).length : Rat))).2) =
    [0, 1/4, 1/4, 1/2] := by decide +kernel

/-! ## (C) the constructor as it is: wrong masses, but sizes and alias range are always fine -/

/-- sizes are `n` and every alias entry is `< n` -/
def vf_Shape (n : Nat) (prob : List Rat) (als : List Nat) : Prop :=
  prob.length = n ∧ als.length = n ∧ ∀ a ∈ als, a < n

theorem vf_shape_set (n : Nat) (prob : List Rat) (als : List Nat) (h : vf_Shape n prob als)
    (i k v : Nat) (q : Rat) (hv : v < n) : vf_Shape n (prob.set i q) (als.set k v) := by
  obtain ⟨h1, h2, h3⟩ := h
  refine ⟨by rw [List.length_set, h1], by rw [List.length_set, h2], fun a ha => ?_⟩
  rcases List.mem_or_eq_of_mem_set ha with h | h
  · exact h3 a h
  · rw [h]; exact hv

theorem vf_step_cur (n : Nat) (avg : Rat) (st : Vose) :
    (voseStep n avg st).prob = st.prob.set st.large (pr st st.large + pr st st.small - avg) ∧
    (voseStep n avg st).alias = st.alias.set st.small st.large := by
  unfold voseStep
  simp only []
  split <;> exact ⟨rfl, rfl⟩

theorem vf_loop_cur (n : Nat) (avg : Rat) : ∀ (fuel : Nat) (st : Vose),
    vf_Shape n st.prob st.alias →
    vf_Shape n (voseLoop n avg fuel st).prob (voseLoop n avg fuel st).alias
  | 0, st, h => by simpa [voseLoop] using h
  | fuel + 1, st, h => by
    simp only [voseLoop]
    by_cases hc : (decide (st.small < n) && decide (st.large < n)) = true
    · rw [if_pos hc]
      have hc' : st.small < n ∧ st.large < n := by simpa using hc
      apply vf_loop_cur n avg fuel
      rw [(vf_step_cur n avg st).1, (vf_step_cur n avg st).2]
      exact vf_shape_set n _ _ h _ _ _ _ hc'.2
    · rw [if_neg hc]; exact h

theorem vf_sweep_cur (n : Nat) : ∀ (fuel x : Nat) (prob : List Rat) (als : List Nat),
    vf_Shape n prob als →
    vf_Shape n (voseSweep n fuel x prob als).1 (voseSweep n fuel x prob als).2
  | 0, x, prob, als, h => by simpa [voseSweep] using h
  | fuel + 1, x, prob, als, h => by
    simp only [voseSweep]
    by_cases hx : x < n
    · rw [if_pos hx]
      exact vf_sweep_cur n fuel _ _ _ (vf_shape_set n _ _ h _ _ _ _ hx)
    · rw [if_neg hx]; exact h

/-- the state after the main loop of the constructor as it is -/
def vf_exit_cur (p : List Rat) (avg : Rat) : Vose :=
  voseLoop p.length avg (2 * p.length + 1)
    ⟨p, List.replicate p.length 0,
      scanFrom (fun i => p.getD i 0 ≥ avg) p.length p.length 0,
      scanFrom (fun i => p.getD i 0 < avg) p.length p.length 0,
      scanFrom (fun i => p.getD i 0 ≥ avg) p.length p.length 0⟩

theorem vf_build_cur_eq (p : List Rat) (avg : Rat) :
    voseBuild p avg =
      ((voseSweep p.length (p.length + 1)
          (min (vf_exit_cur p avg).large (vf_exit_cur p avg).small)
          (vf_exit_cur p avg).prob (vf_exit_cur p avg).alias).1.map (· * (p.length : Rat)),
       (voseSweep p.length (p.length + 1)
          (min (vf_exit_cur p avg).large (vf_exit_cur p avg).small)
          (vf_exit_cur p avg).prob (vf_exit_cur p avg).alias).2) := rfl

theorem vf_build_cur (p : List Rat) (avg : Rat) (hne : p ≠ []) :
    vf_Shape p.length (voseBuild p avg).1 (voseBuild p avg).2 := by
  have hlen : 0 < p.length := List.length_pos_of_ne_nil hne
  have h0 : vf_Shape p.length p (List.replicate p.length 0) :=
    ⟨rfl, List.length_replicate, fun a ha => by rw [List.eq_of_mem_replicate ha]; exact hlen⟩
  have h1 : vf_Shape p.length (vf_exit_cur p avg).prob (vf_exit_cur p avg).alias :=
    vf_loop_cur p.length avg (2 * p.length + 1) _ h0
  obtain ⟨a, b, c⟩ := vf_sweep_cur p.length (p.length + 1)
    (min (vf_exit_cur p avg).large (vf_exit_cur p avg).small) _ _ h1
  rw [vf_build_cur_eq]
  exact ⟨by rw [List.length_map]; exact a, b, c⟩

theorem vose_current_lengths (p : List Rat) (avg : Rat) :
    (voseBuild p avg).1.length = p.length ∧ (voseBuild p avg).2.length = p.length := by
  by_cases hne : p = []
  · subst hne; exact ⟨rfl, rfl⟩
  · exact ⟨(vf_build_cur p avg hne).1, (vf_build_cur p avg hne).2.1⟩

theorem vose_current_alias_in_range (p : List Rat) (avg : Rat) (hne : p ≠ []) :
    ∀ a ∈ (voseBuild p avg).2, a < p.length :=
  (vf_build_cur p avg hne).2.2

/-! ## (D) every well-shaped table has total mass one -/

theorem vf_getD_mem_nat (l : List Nat) (i : Nat) (h : i < l.length) : l.getD i 0 ∈ l := by
  rw [List.getD_eq_getElem?_getD, List.getElem?_eq_getElem h]
  simp

theorem aliasMass_total (prob : List Rat) (als : List Nat) (hlen : als.length = prob.length)
    (hne : prob ≠ []) (hr : ∀ a ∈ als, a < prob.length) :
    ((List.range prob.length).map (aliasMass prob als)).sum = 1 := by
  have hpos : 0 < prob.length := List.length_pos_of_ne_nil hne
  have hn0 : (prob.length : Rat) ≠ 0 := by exact_mod_cast (Nat.pos_iff_ne_zero.mp hpos)
  rw [vf_sum_range_map]
  unfold aliasMass
  simp only [vf_sum_range_map]
  simp only [div_eq_mul_inv]
  rw [← Finset.sum_mul, Finset.sum_comm]
  have hin : ∀ i ∈ Finset.range prob.length,
      ∑ j ∈ Finset.range prob.length,
        ((if i = j then clamp01 (prob.getD i 0) else 0) +
         (if als.getD i 0 = j then 1 - clamp01 (prob.getD i 0) else 0)) = 1 := by
    intro i hi
    have hi' := Finset.mem_range.mp hi
    have ha : als.getD i 0 ∈ Finset.range prob.length :=
      Finset.mem_range.mpr (hr _ (vf_getD_mem_nat als i (by omega)))
    rw [Finset.sum_add_distrib, Finset.sum_ite_eq, Finset.sum_ite_eq, if_pos hi, if_pos ha]
    ring
  rw [Finset.sum_congr rfl hin, Finset.sum_const, Finset.card_range, nsmul_eq_mul, mul_one,
    mul_inv_cancel₀ hn0]

/-! ## (E) corollaries for the repaired constructor -/

/-- whatever `avg` is used (e.g. the rounded `1.0/n`) and whether or not the input sums to one
    exactly (`isProb` only checks it to a tolerance): right sizes, aliases in range, total mass one -/
theorem vose_correct_isProb_in_range (p : List Rat) (avg : Rat) (hne : p ≠ [])
    (_h : isProb p = true) :
    (voseBuildFixed p avg).1.length = p.length ∧ (voseBuildFixed p avg).2.length = p.length ∧
    (∀ a ∈ (voseBuildFixed p avg).2, a < p.length) ∧
    ((List.range p.length).map
      (aliasMass (voseBuildFixed p avg).1 (voseBuildFixed p avg).2)).sum = 1 := by
  obtain ⟨h1, h2⟩ := vose_fixed_lengths p avg
  have h3 := vose_fixed_alias_in_range p avg
  refine ⟨h1, h2, h3, ?_⟩
  have := aliasMass_total (voseBuildFixed p avg).1 (voseBuildFixed p avg).2 (by rw [h1, h2])
    (by intro h; rw [h] at h1; exact hne (List.length_eq_zero_iff.mp h1.symm))
    (by rw [h1]; exact h3)
  rwa [h1] at this

/-- for an exact distribution the decidable table checker accepts the repaired table at tolerance 0 -/
theorem vose_correct_tableOk (p : List Rat) (hne : p ≠ []) (hnn : ∀ x ∈ p, 0 ≤ x)
    (hsum : p.sum = 1) :
    aliasTableOk 0 p (voseBuildFixed p (1 / (p.length : Rat))).1
      (voseBuildFixed p (1 / (p.length : Rat))).2 = true := by
  obtain ⟨h1, h2⟩ := vose_fixed_lengths p (1 / (p.length : Rat))
  have h3 := vose_fixed_alias_in_range p (1 / (p.length : Rat))
  have h4 := vose_correct p hne hnn hsum
  unfold aliasTableOk
  simp only [Bool.and_eq_true, beq_iff_eq, List.all_eq_true, decide_eq_true_eq, List.mem_range]
  refine ⟨⟨⟨h1, h2⟩, h3⟩, fun j hj => ?_⟩
  rw [h4 j hj, sub_self]
  simp [absQ]

/-! ## (F) inputs whose sum is only approximately one: the error is bounded by the slack -/

/-- what an unassigned entry is short of (or above) `avg` at exit; 0 for assigned entries -/
def vf_T (n : Nat) (avg : Rat) (st : Vose) (i : Nat) : Rat :=
  if al st i = n then avg - pr st i else 0

/-- the table's mass is the input plus the exit residue of that index (needs no exit condition) -/
theorem vf_mass_eq (p : List Rat) (avg : Rat) (hlen : 0 < p.length)
    (havg : (p.length : Rat) * avg = 1) (hn : vf_Inv p p.length avg (vf_exit p avg)) :
    ∀ j, j < p.length →
      aliasMass (voseBuildFixed p avg).1 (voseBuildFixed p avg).2 j =
        p.getD j 0 + vf_T p.length avg (vf_exit p avg) j := by
  intro j hj
  have hnq : (0 : Rat) < (p.length : Rat) := by exact_mod_cast hlen
  have hn0 : (p.length : Rat) ≠ 0 := ne_of_gt hnq
  have hn1 : (1 : Rat) ≤ (p.length : Rat) := by exact_mod_cast hlen
  rw [vf_build_eq]
  generalize vf_exit p avg = st at hn
  unfold aliasMass
  simp only [List.map_map, List.length_map, List.length_range]
  rw [vf_sum_range_map]
  have hterm : ∀ i ∈ Finset.range p.length,
      ((if i = j then clamp01 (((List.range p.length).map
          ((fun x => x * (p.length : Rat)) ∘
            fun x => if (al st x == p.length) = true then 1 else pr st x)).getD i 0) else 0) +
       (if ((List.range p.length).map
          (fun x => if (al st x == p.length) = true then x else al st x)).getD i 0 = j
        then 1 - clamp01 (((List.range p.length).map
          ((fun x => x * (p.length : Rat)) ∘
            fun x => if (al st x == p.length) = true then 1 else pr st x)).getD i 0) else 0)) =
      ((if i = j then pr st i else 0) + (if al st i = j then avg - pr st i else 0) +
        (if i = j then vf_T p.length avg st i else 0)) * (p.length : Rat) := by
    intro i hi
    have hi' := Finset.mem_range.mp hi
    rw [vf_getD_range_map _ _ _ _ hi', vf_getD_range_map _ _ _ _ hi']
    simp only [Function.comp_apply, beq_iff_eq, vf_T]
    by_cases ha : al st i = p.length
    · rw [if_pos ha, if_pos ha, if_pos ha, vf_clamp_ge _ (by linarith), ha,
        if_neg (by omega : ¬ p.length = j)]
      split_ifs <;> linarith
    · obtain ⟨_, hlt⟩ := hn.i2 i hi' ha
      have h0 := hn.i0 i hi'
      have hm0 : 0 ≤ pr st i * (p.length : Rat) := mul_nonneg h0 (le_of_lt hnq)
      have hm1 : pr st i * (p.length : Rat) ≤ 1 := by
        have := mul_le_mul_of_nonneg_right (le_of_lt hlt) (le_of_lt hnq)
        linarith
      rw [if_neg ha, if_neg ha, if_neg ha, vf_clamp_id _ hm0 hm1]
      split_ifs <;> linarith
  rw [Finset.sum_congr rfl hterm, ← Finset.sum_mul, Finset.sum_add_distrib,
    Finset.sum_add_distrib, Finset.sum_ite_eq', Finset.sum_ite_eq',
    if_pos (Finset.mem_range.mpr hj), if_pos (Finset.mem_range.mpr hj), ← hn.i1 j hj,
    mul_div_assoc, div_self hn0, mul_one]

/-- at exit the residues sum to the slack `1 - Σp` and all have one sign -/
theorem vf_exit_T (p : List Rat) (avg : Rat) (st : Vose)
    (hn : vf_Inv p p.length avg st)
    (hex : ¬ (st.small < p.length ∧ st.large < p.length))
    (havg : (p.length : Rat) * avg = 1) :
    ∑ i ∈ Finset.range p.length, vf_T p.length avg st i = 1 - p.sum ∧
    ((∀ i ∈ Finset.range p.length, 0 ≤ vf_T p.length avg st i) ∨
     (∀ i ∈ Finset.range p.length, vf_T p.length avg st i ≤ 0)) := by
  have hS : ∑ j ∈ Finset.range p.length, p.getD j 0 = p.sum := (vf_sum_getD p).symm
  have h1 : ∑ j ∈ Finset.range p.length, p.getD j 0 =
      ∑ j ∈ Finset.range p.length, pr st j +
        ∑ j ∈ Finset.range p.length, ∑ i ∈ Finset.range p.length,
          (if al st i = j then avg - pr st i else 0) := by
    rw [← Finset.sum_add_distrib]
    exact Finset.sum_congr rfl (fun j hj => hn.i1 j (Finset.mem_range.mp hj))
  rw [Finset.sum_comm] at h1
  have h2 : ∀ i ∈ Finset.range p.length,
      ∑ j ∈ Finset.range p.length, (if al st i = j then avg - pr st i else 0) =
        if al st i = p.length then 0 else avg - pr st i := by
    intro i hi
    rw [Finset.sum_ite_eq]
    by_cases h : al st i = p.length
    · rw [if_pos h, h, if_neg Finset.notMem_range_self]
    · rw [if_neg h, if_pos (Finset.mem_range.mpr (hn.i2 i (Finset.mem_range.mp hi) h).1)]
  rw [Finset.sum_congr rfl h2, hS] at h1
  refine ⟨?_, ?_⟩
  · have : ∀ i ∈ Finset.range p.length, vf_T p.length avg st i =
        avg - pr st i - (if al st i = p.length then 0 else avg - pr st i) := by
      intro i _
      unfold vf_T
      split <;> ring
    rw [Finset.sum_congr rfl this, Finset.sum_sub_distrib, Finset.sum_sub_distrib,
      Finset.sum_const, Finset.card_range, nsmul_eq_mul, havg]
    linarith
  · by_cases hl : st.large < p.length
    · right
      have hs : p.length ≤ st.small := by omega
      have hc := hn.b9 hs
      intro i hi
      have hi' := Finset.mem_range.mp hi
      unfold vf_T
      split
      · rename_i ha
        by_contra hcon
        have hlt : pr st i < avg := by linarith
        rcases hn.i5 i hi' ha hlt with h | h <;> omega
      · exact le_refl _
    · left
      intro i hi
      have hi' := Finset.mem_range.mp hi
      unfold vf_T
      split
      · have := hn.i4 i (by omega) hi'
        linarith
      · exact le_refl _

theorem vf_abs_single (n : Nat) (f : Nat → Rat) (j : Nat) (hj : j < n)
    (h : (∀ i ∈ Finset.range n, 0 ≤ f i) ∨ (∀ i ∈ Finset.range n, f i ≤ 0)) :
    absQ (f j) ≤ absQ (∑ i ∈ Finset.range n, f i) := by
  have hjm := Finset.mem_range.mpr hj
  rcases h with h | h
  · have h1 := Finset.single_le_sum h hjm
    have h2 := h j hjm
    unfold absQ
    split_ifs <;> linarith
  · have h1 := Finset.single_le_sum (f := fun i => - f i)
      (fun i hi => by have := h i hi; linarith) hjm
    rw [Finset.sum_neg_distrib] at h1
    have h2 := h j hjm
    unfold absQ
    split_ifs <;> linarith

/-- sign and size of the mass error of the repaired table, for any non-negative input:
    `mass_j - p_j` are all `≥ 0` or all `≤ 0`, and they sum to `1 - Σp` -/
theorem vose_mass_error_sign_and_sum (p : List Rat) (hne : p ≠ []) (hnn : ∀ x ∈ p, 0 ≤ x) :
    ∑ j ∈ Finset.range p.length,
      (aliasMass (voseBuildFixed p (1 / (p.length : Rat))).1
        (voseBuildFixed p (1 / (p.length : Rat))).2 j - p.getD j 0) = 1 - p.sum ∧
    ((∀ j, j < p.length → 0 ≤ aliasMass (voseBuildFixed p (1 / (p.length : Rat))).1
        (voseBuildFixed p (1 / (p.length : Rat))).2 j - p.getD j 0) ∨
     (∀ j, j < p.length → aliasMass (voseBuildFixed p (1 / (p.length : Rat))).1
        (voseBuildFixed p (1 / (p.length : Rat))).2 j - p.getD j 0 ≤ 0)) := by
  have hlen : 0 < p.length := List.length_pos_of_ne_nil hne
  have hn0 : (p.length : Rat) ≠ 0 := by exact_mod_cast (Nat.pos_iff_ne_zero.mp hlen)
  generalize havg : 1 / (p.length : Rat) = avg
  have havg' : (p.length : Rat) * avg = 1 := by rw [← havg]; field_simp
  obtain ⟨hn, hex⟩ := vf_loop_inv p p.length avg (2 * p.length + 1) (vf_init p avg)
    (vf_init_inv p avg hnn) (by omega)
  change vf_Inv p p.length avg (vf_exit p avg) at hn
  change ¬ ((vf_exit p avg).small < p.length ∧ (vf_exit p avg).large < p.length) at hex
  have hm := vf_mass_eq p avg hlen havg' hn
  obtain ⟨hsumT, hsign⟩ := vf_exit_T p avg _ hn hex havg'
  have herr : ∀ j, j < p.length →
      aliasMass (voseBuildFixed p avg).1 (voseBuildFixed p avg).2 j - p.getD j 0 =
        vf_T p.length avg (vf_exit p avg) j := by
    intro j hj; rw [hm j hj]; ring
  refine ⟨?_, ?_⟩
  · rw [Finset.sum_congr rfl (fun j hj => herr j (Finset.mem_range.mp hj))]
    exact hsumT
  · rcases hsign with h | h
    · left; intro j hj; rw [herr j hj]; exact h j (Finset.mem_range.mpr hj)
    · right; intro j hj; rw [herr j hj]; exact h j (Finset.mem_range.mpr hj)

theorem vose_correct_slack (p : List Rat) (hne : p ≠ []) (hnn : ∀ x ∈ p, 0 ≤ x) :
    ∀ j, j < p.length →
      absQ (aliasMass (voseBuildFixed p (1 / (p.length : Rat))).1
        (voseBuildFixed p (1 / (p.length : Rat))).2 j - p.getD j 0) ≤ absQ (1 - p.sum) := by
  intro j hj
  obtain ⟨hs, hsign⟩ := vose_mass_error_sign_and_sum p hne hnn
  rw [← hs]
  apply vf_abs_single p.length (fun j => aliasMass (voseBuildFixed p (1 / (p.length : Rat))).1
        (voseBuildFixed p (1 / (p.length : Rat))).2 j - p.getD j 0) j hj
  rcases hsign with h | h
  · exact Or.inl (fun i hi => h i (Finset.mem_range.mp hi))
  · exact Or.inr (fun i hi => h i (Finset.mem_range.mp hi))

theorem vf_absQ_sub_comm (a b : Rat) : absQ (a - b) = absQ (b - a) := by
  unfold absQ
  split_ifs <;> linarith

theorem vose_correct_valid (p : List Rat) (hne : p ≠ []) (hp : isProb p = true) :
    ∀ j, j < p.length →
      absQ (aliasMass (voseBuildFixed p (1 / (p.length : Rat))).1
        (voseBuildFixed p (1 / (p.length : Rat))).2 j - p.getD j 0) ≤
        AITB.Gen.equalToleranceSmall := by
  intro j hj
  simp only [isProb, eqSmall, Bool.and_eq_true, List.all_eq_true, Bool.not_eq_true',
    decide_eq_false_iff_not, not_lt, decide_eq_true_eq] at hp
  have := vose_correct_slack p hne hp.1 j hj
  rw [vf_absQ_sub_comm 1 p.sum] at this
  exact le_trans this hp.2

/-! ## (G) fuel adequacy: the fuel never cuts the modelled loops short -/

/-- cursor bounds that make `(n - large) + (n - cp)` a termination measure -/
def vf_J (n : Nat) (st : Vose) : Prop :=
  st.large ≤ n ∧ st.cp ≤ n ∧ (st.small < n → st.cp < n)

/-- one iteration of either loop (as it is / repaired), seen through the cursors only -/
theorem vf_meas_step (n : Nat) (st st' : Vose) (hJ : vf_J n st)
    (hs : st.small < n) (hL : st.large < n)
    (h : (st'.small = st.large ∧ st'.cp = st.cp ∧
            ∃ cond, st'.large = scanFrom cond n n (st.large + 1)) ∨
         (st'.large = st.large ∧ st'.cp = st'.small ∧
            ∃ cond, st'.small = scanFrom cond n n (st.cp + 1))) :
    vf_J n st' ∧ (n - st'.large) + (n - st'.cp) < (n - st.large) + (n - st.cp) := by
  obtain ⟨j1, j2, j3⟩ := hJ
  have hcp := j3 hs
  rcases h with ⟨a, b, cond, c⟩ | ⟨a, b, cond, c⟩
  · obtain ⟨s1, s2, _, _⟩ := vf_scan cond n n (st.large + 1) (by omega)
    rw [← c] at s1 s2
    have := s2 (by omega)
    exact ⟨⟨this, by omega, fun _ => by omega⟩, by omega⟩
  · obtain ⟨s1, s2, _, _⟩ := vf_scan cond n n (st.cp + 1) (by omega)
    rw [← c] at s1 s2
    have := s2 (by omega)
    exact ⟨⟨by omega, by omega, fun h => by omega⟩, by omega⟩

theorem vf_cur_step_shape (n : Nat) (avg : Rat) (st : Vose) :
    ((voseStep n avg st).small = st.large ∧ (voseStep n avg st).cp = st.cp ∧
        ∃ cond, (voseStep n avg st).large = scanFrom cond n n (st.large + 1)) ∨
    ((voseStep n avg st).large = st.large ∧ (voseStep n avg st).cp = (voseStep n avg st).small ∧
        ∃ cond, (voseStep n avg st).small = scanFrom cond n n (st.cp + 1)) := by
  unfold voseStep
  simp only []
  split
  · exact Or.inl ⟨rfl, rfl, _, rfl⟩
  · exact Or.inr ⟨rfl, rfl, _, rfl⟩

theorem vf_fixed_step_shape (n : Nat) (avg : Rat) (st : Vose) :
    ((voseStepFixed n avg st).small = st.large ∧ (voseStepFixed n avg st).cp = st.cp ∧
        ∃ cond, (voseStepFixed n avg st).large = scanFrom cond n n (st.large + 1)) ∨
    ((voseStepFixed n avg st).large = st.large ∧
      (voseStepFixed n avg st).cp = (voseStepFixed n avg st).small ∧
        ∃ cond, (voseStepFixed n avg st).small = scanFrom cond n n (st.cp + 1)) := by
  unfold voseStepFixed
  simp only []
  split
  · exact Or.inl ⟨rfl, rfl, _, rfl⟩
  · exact Or.inr ⟨rfl, rfl, _, rfl⟩

theorem vf_cur_loop_exits (n : Nat) (avg : Rat) : ∀ (fuel : Nat) (st : Vose),
    vf_J n st → (n - st.large) + (n - st.cp) < fuel →
    ¬ ((voseLoop n avg fuel st).small < n ∧ (voseLoop n avg fuel st).large < n)
  | 0, st, _, h => by omega
  | fuel + 1, st, hJ, h => by
    simp only [voseLoop]
    by_cases hc : (decide (st.small < n) && decide (st.large < n)) = true
    · rw [if_pos hc]
      have hc' : st.small < n ∧ st.large < n := by simpa using hc
      obtain ⟨h1, h2⟩ := vf_meas_step n st _ hJ hc'.1 hc'.2 (vf_cur_step_shape n avg st)
      exact vf_cur_loop_exits n avg fuel _ h1 (by omega)
    · rw [if_neg hc]
      simpa using hc

theorem vf_fixed_loop_exits (n : Nat) (avg : Rat) : ∀ (fuel : Nat) (st : Vose),
    vf_J n st → (n - st.large) + (n - st.cp) < fuel →
    ¬ ((voseLoopFixed n avg fuel st).small < n ∧ (voseLoopFixed n avg fuel st).large < n)
  | 0, st, _, h => by omega
  | fuel + 1, st, hJ, h => by
    simp only [voseLoopFixed]
    by_cases hc : (decide (st.small < n) && decide (st.large < n)) = true
    · rw [if_pos hc]
      have hc' : st.small < n ∧ st.large < n := by simpa using hc
      obtain ⟨h1, h2⟩ := vf_meas_step n st _ hJ hc'.1 hc'.2 (vf_fixed_step_shape n avg st)
      exact vf_fixed_loop_exits n avg fuel _ h1 (by omega)
    · rw [if_neg hc]
      simpa using hc

theorem vf_J_init (n : Nat) (c1 c2 : Nat → Bool) (prob : List Rat) (als : List Nat) :
    vf_J n ⟨prob, als, scanFrom c1 n n 0, scanFrom c2 n n 0, scanFrom c1 n n 0⟩ := by
  obtain ⟨_, a2, _, _⟩ := vf_scan c1 n n 0 (by omega)
  obtain ⟨_, b2, _, _⟩ := vf_scan c2 n n 0 (by omega)
  exact ⟨b2 (Nat.zero_le _), a2 (Nat.zero_le _), id⟩

/-- the main loop of the constructor as it is always runs to its exit condition
    (`vf_exit_cur p avg` is the loop state used by `voseBuild`, see `vf_build_cur_eq`) -/
theorem vose_current_loop_exits (p : List Rat) (avg : Rat) :
    ¬ ((vf_exit_cur p avg).small < p.length ∧ (vf_exit_cur p avg).large < p.length) := by
  have hJ := vf_J_init p.length (fun i => p.getD i 0 ≥ avg) (fun i => p.getD i 0 < avg) p
    (List.replicate p.length 0)
  exact vf_cur_loop_exits p.length avg (2 * p.length + 1) _ hJ (by
    show (p.length - scanFrom _ p.length p.length 0) + (p.length - scanFrom _ p.length p.length 0)
      < 2 * p.length + 1
    omega)

/-- same for the repaired loop (`vf_exit p avg` is the loop state used by `voseBuildFixed`,
    see `vf_build_eq`); no hypothesis on `p` or `avg` -/
theorem vose_fixed_loop_exits (p : List Rat) (avg : Rat) :
    ¬ ((vf_exit p avg).small < p.length ∧ (vf_exit p avg).large < p.length) := by
  have hJ := vf_J_init p.length (fun i => p.getD i 0 ≥ avg) (fun i => p.getD i 0 < avg) p
    (List.replicate p.length p.length)
  exact vf_fixed_loop_exits p.length avg (2 * p.length + 1) _ hJ (by
    show (p.length - scanFrom _ p.length p.length 0) + (p.length - scanFrom _ p.length p.length 0)
      < 2 * p.length + 1
    omega)

theorem vf_sweep_fuel (n : Nat) : ∀ (fuel x : Nat) (prob : List Rat) (als : List Nat) (k : Nat),
    n + 1 - x ≤ fuel → voseSweep n (fuel + k) x prob als = voseSweep n fuel x prob als
  | 0, x, prob, als, k, h => by
    cases k with
    | zero => rfl
    | succ k =>
      simp only [voseSweep]
      rw [if_neg (by omega)]
  | fuel + 1, x, prob, als, k, h => by
    rw [Nat.add_right_comm]
    simp only [voseSweep]
    by_cases hx : x < n
    · rw [if_pos hx, if_pos hx]
      apply vf_sweep_fuel n fuel
      obtain ⟨s1, _, _, _⟩ := vf_scan (fun i => (als.set x x).getD i 0 != 0) n n (x + 1) (by omega)
      omega
    · rw [if_neg hx, if_neg hx]

/-- extra fuel changes nothing in the final sweep; `voseBuild` passes `n + 1 ≥ n + 1 - x` -/
theorem vose_current_sweep_fuel (n x : Nat) (prob : List Rat) (als : List Nat) (k : Nat) :
    voseSweep n (n + 1 - x + k) x prob als = voseSweep n (n + 1 - x) x prob als :=
  vf_sweep_fuel n (n + 1 - x) x prob als k (le_refl _)

/-! ## (H) arbitrary `avg` (the code uses the double `1.0/n`): error bound linear in `|avg - 1/n|` -/

theorem vf_absQ_eq_abs (q : Rat) : absQ q = |q| := by
  unfold absQ
  split
  · rename_i h; rw [abs_of_neg h]
  · rename_i h; rw [abs_of_nonneg (not_lt.mp h)]

/-- own-column error of the final table beyond the exit residue (`w` stands for `1/n`) -/
def vf_d (n : Nat) (avg w : Rat) (st : Vose) (i : Nat) : Rat :=
  if al st i = n then -(avg - w) else clamp01 (pr st i * (n : Rat)) * w - pr st i

/-- error of what column `i` passes on to its alias -/
def vf_e (n : Nat) (avg w : Rat) (st : Vose) (i : Nat) : Rat :=
  if al st i = n then 0 else (1 - clamp01 (pr st i * (n : Rat))) * w - (avg - pr st i)

/-- exact mass of the final table for any `avg` (no exit condition needed) -/
theorem vf_mass_eq_any (p : List Rat) (avg w : Rat) (hlen : 0 < p.length)
    (hw : (p.length : Rat) * w = 1) (hn : vf_Inv p p.length avg (vf_exit p avg)) :
    ∀ j, j < p.length →
      aliasMass (voseBuildFixed p avg).1 (voseBuildFixed p avg).2 j =
        p.getD j 0 + vf_T p.length avg (vf_exit p avg) j + vf_d p.length avg w (vf_exit p avg) j +
          ∑ i ∈ Finset.range p.length,
            (if al (vf_exit p avg) i = j then vf_e p.length avg w (vf_exit p avg) i else 0) := by
  intro j hj
  have hnq : (0 : Rat) < (p.length : Rat) := by exact_mod_cast hlen
  have hn0 : (p.length : Rat) ≠ 0 := ne_of_gt hnq
  have hn1 : (1 : Rat) ≤ (p.length : Rat) := by exact_mod_cast hlen
  have hwn : w * (p.length : Rat) = 1 := by rw [mul_comm]; exact hw
  rw [vf_build_eq]
  generalize vf_exit p avg = st at hn
  unfold aliasMass
  simp only [List.map_map, List.length_map, List.length_range]
  rw [vf_sum_range_map]
  have hterm : ∀ i ∈ Finset.range p.length,
      ((if i = j then clamp01 (((List.range p.length).map
          ((fun x => x * (p.length : Rat)) ∘
            fun x => if (al st x == p.length) = true then 1 else pr st x)).getD i 0) else 0) +
       (if ((List.range p.length).map
          (fun x => if (al st x == p.length) = true then x else al st x)).getD i 0 = j
        then 1 - clamp01 (((List.range p.length).map
          ((fun x => x * (p.length : Rat)) ∘
            fun x => if (al st x == p.length) = true then 1 else pr st x)).getD i 0) else 0)) =
      ((if i = j then pr st i else 0) + (if al st i = j then avg - pr st i else 0) +
        (if i = j then vf_T p.length avg st i else 0) +
        (if i = j then vf_d p.length avg w st i else 0) +
        (if al st i = j then vf_e p.length avg w st i else 0)) * (p.length : Rat) := by
    intro i hi
    have hi' := Finset.mem_range.mp hi
    rw [vf_getD_range_map _ _ _ _ hi', vf_getD_range_map _ _ _ _ hi']
    simp only [Function.comp_apply, beq_iff_eq, vf_T, vf_d, vf_e]
    by_cases ha : al st i = p.length
    · simp only [if_pos ha]
      rw [vf_clamp_ge _ (by linarith), ha, if_neg (by omega : ¬ p.length = j),
        if_neg (by omega : ¬ p.length = j)]
      split_ifs <;> linarith
    · simp only [if_neg ha]
      generalize clamp01 (pr st i * (p.length : Rat)) = c
      have h1 : c * w * (p.length : Rat) = c := by rw [mul_assoc, hwn, mul_one]
      split_ifs <;> linarith
  rw [Finset.sum_congr rfl hterm, ← Finset.sum_mul]
  simp only [Finset.sum_add_distrib, Finset.sum_ite_eq', Finset.mem_range, hj, if_true]
  rw [hn.i1 j hj, mul_div_assoc, div_self hn0, mul_one]

/-- exit residues for any `avg`: they sum to `n·avg - Σp` and all have one sign -/
theorem vf_exit_T_any (p : List Rat) (avg : Rat) (st : Vose)
    (hn : vf_Inv p p.length avg st)
    (hex : ¬ (st.small < p.length ∧ st.large < p.length)) :
    ∑ i ∈ Finset.range p.length, vf_T p.length avg st i = (p.length : Rat) * avg - p.sum ∧
    ((∀ i ∈ Finset.range p.length, 0 ≤ vf_T p.length avg st i) ∨
     (∀ i ∈ Finset.range p.length, vf_T p.length avg st i ≤ 0)) := by
  have hS : ∑ j ∈ Finset.range p.length, p.getD j 0 = p.sum := (vf_sum_getD p).symm
  have h1 : ∑ j ∈ Finset.range p.length, p.getD j 0 =
      ∑ j ∈ Finset.range p.length, pr st j +
        ∑ j ∈ Finset.range p.length, ∑ i ∈ Finset.range p.length,
          (if al st i = j then avg - pr st i else 0) := by
    rw [← Finset.sum_add_distrib]
    exact Finset.sum_congr rfl (fun j hj => hn.i1 j (Finset.mem_range.mp hj))
  rw [Finset.sum_comm] at h1
  have h2 : ∀ i ∈ Finset.range p.length,
      ∑ j ∈ Finset.range p.length, (if al st i = j then avg - pr st i else 0) =
        if al st i = p.length then 0 else avg - pr st i := by
    intro i hi
    rw [Finset.sum_ite_eq]
    by_cases h : al st i = p.length
    · rw [if_pos h, h, if_neg Finset.notMem_range_self]
    · rw [if_neg h, if_pos (Finset.mem_range.mpr (hn.i2 i (Finset.mem_range.mp hi) h).1)]
  rw [Finset.sum_congr rfl h2, hS] at h1
  refine ⟨?_, ?_⟩
  · have : ∀ i ∈ Finset.range p.length, vf_T p.length avg st i =
        avg - pr st i - (if al st i = p.length then 0 else avg - pr st i) := by
      intro i _
      unfold vf_T
      split <;> ring
    rw [Finset.sum_congr rfl this, Finset.sum_sub_distrib, Finset.sum_sub_distrib,
      Finset.sum_const, Finset.card_range, nsmul_eq_mul]
    linarith
  · by_cases hl : st.large < p.length
    · right
      have hs : p.length ≤ st.small := by omega
      have hc := hn.b9 hs
      intro i hi
      have hi' := Finset.mem_range.mp hi
      unfold vf_T
      split
      · rename_i ha
        by_contra hcon
        have hlt : pr st i < avg := by linarith
        rcases hn.i5 i hi' ha hlt with h | h <;> omega
      · exact le_refl _
    · left
      intro i hi
      have hi' := Finset.mem_range.mp hi
      unfold vf_T
      split
      · have := hn.i4 i (by omega) hi'
        linarith
      · exact le_refl _

/-- both per-column errors are at most `|avg - 1/n|` -/
theorem vf_de_bound (p : List Rat) (avg w : Rat) (st : Vose) (hlen : 0 < p.length)
    (hw : (p.length : Rat) * w = 1) (hn : vf_Inv p p.length avg st) (i : Nat)
    (hi : i < p.length) :
    |vf_d p.length avg w st i| ≤ |avg - w| ∧ |vf_e p.length avg w st i| ≤ |avg - w| := by
  have hnq : (0 : Rat) < (p.length : Rat) := by exact_mod_cast hlen
  have hwn : w * (p.length : Rat) = 1 := by rw [mul_comm]; exact hw
  unfold vf_d vf_e
  by_cases ha : al st i = p.length
  · rw [if_pos ha, if_pos ha, abs_neg, abs_zero]
    exact ⟨le_refl _, abs_nonneg _⟩
  · rw [if_neg ha, if_neg ha]
    obtain ⟨_, hlt⟩ := hn.i2 i hi ha
    have h0 := hn.i0 i hi
    have hm0 : 0 ≤ pr st i * (p.length : Rat) := mul_nonneg h0 (le_of_lt hnq)
    by_cases hc : pr st i * (p.length : Rat) ≤ 1
    · rw [vf_clamp_id _ hm0 hc]
      have e1 : pr st i * (p.length : Rat) * w - pr st i = 0 := by
        rw [mul_assoc, mul_comm (p.length : Rat) w, hwn]; ring
      have e2 : (1 - pr st i * (p.length : Rat)) * w - (avg - pr st i) = -(avg - w) := by
        have : pr st i * (p.length : Rat) * w = pr st i := by
          rw [mul_assoc, mul_comm (p.length : Rat) w, hwn, mul_one]
        linarith
      rw [e1, e2, abs_zero, abs_neg]
      exact ⟨abs_nonneg _, le_refl _⟩
    · have hc' : 1 < pr st i * (p.length : Rat) := not_le.mp hc
      rw [vf_clamp_ge _ (le_of_lt hc')]
      have hwlt : w < pr st i := by
        have : w * (p.length : Rat) < pr st i * (p.length : Rat) := by rw [hwn]; exact hc'
        exact lt_of_mul_lt_mul_right this (le_of_lt hnq)
      have hpos : 0 < avg - w := by linarith
      rw [abs_of_pos hpos]
      constructor
      · rw [abs_le]; constructor <;> linarith
      · rw [abs_le]; constructor <;> linarith

theorem vose_correct_any_avg (p : List Rat) (avg : Rat) (hne : p ≠ []) (hnn : ∀ x ∈ p, 0 ≤ x) :
    ∀ j, j < p.length →
      absQ (aliasMass (voseBuildFixed p avg).1 (voseBuildFixed p avg).2 j - p.getD j 0) ≤
        absQ (1 - p.sum) + ((2 * p.length + 1 : Nat) : Rat) * absQ (avg - 1 / (p.length : Rat)) := by
  intro j hj
  have hlen : 0 < p.length := List.length_pos_of_ne_nil hne
  have hnq : (0 : Rat) < (p.length : Rat) := by exact_mod_cast hlen
  have hn0 : (p.length : Rat) ≠ 0 := ne_of_gt hnq
  generalize hwdef : 1 / (p.length : Rat) = w
  have hw : (p.length : Rat) * w = 1 := by rw [← hwdef]; field_simp
  obtain ⟨hn, hex⟩ := vf_loop_inv p p.length avg (2 * p.length + 1) (vf_init p avg)
    (vf_init_inv p avg hnn) (by omega)
  change vf_Inv p p.length avg (vf_exit p avg) at hn
  change ¬ ((vf_exit p avg).small < p.length ∧ (vf_exit p avg).large < p.length) at hex
  have hm := vf_mass_eq_any p avg w hlen hw hn j hj
  obtain ⟨hsumT, hsign⟩ := vf_exit_T_any p avg _ hn hex
  have hTj := vf_abs_single p.length (vf_T p.length avg (vf_exit p avg)) j hj hsign
  rw [vf_absQ_eq_abs, vf_absQ_eq_abs, hsumT] at hTj
  have hd := (vf_de_bound p avg w _ hlen hw hn j hj).1
  have hE : |∑ i ∈ Finset.range p.length,
      (if al (vf_exit p avg) i = j then vf_e p.length avg w (vf_exit p avg) i else 0)| ≤
      (p.length : Rat) * |avg - w| := by
    refine le_trans (Finset.abs_sum_le_sum_abs _ _) ?_
    have := Finset.sum_le_card_nsmul (Finset.range p.length)
      (fun i => |if al (vf_exit p avg) i = j then vf_e p.length avg w (vf_exit p avg) i else 0|)
      |avg - w| (by
        intro i hi
        show |if al (vf_exit p avg) i = j then vf_e p.length avg w (vf_exit p avg) i else 0| ≤ _
        split
        · exact (vf_de_bound p avg w _ hlen hw hn i (Finset.mem_range.mp hi)).2
        · rw [abs_zero]; exact abs_nonneg _)
    rw [Finset.card_range, nsmul_eq_mul] at this
    exact this
  have hslack : |(p.length : Rat) * avg - p.sum| ≤ |1 - p.sum| + (p.length : Rat) * |avg - w| := by
    have e : (p.length : Rat) * avg - p.sum = (1 - p.sum) + (p.length : Rat) * (avg - w) := by
      rw [mul_sub, hw]; ring
    rw [e]
    refine le_trans (abs_add_le _ _) ?_
    have hmul : |(p.length : Rat) * (avg - w)| = (p.length : Rat) * |avg - w| := by
      rcases le_total 0 (avg - w) with h | h
      · rw [abs_of_nonneg h, abs_of_nonneg (mul_nonneg (le_of_lt hnq) h)]
      · rw [abs_of_nonpos h, abs_of_nonpos (mul_nonpos_of_nonneg_of_nonpos (le_of_lt hnq) h),
          mul_neg]
    rw [hmul]
  rw [vf_absQ_eq_abs, vf_absQ_eq_abs, vf_absQ_eq_abs, hm]
  have e : p.getD j 0 + vf_T p.length avg (vf_exit p avg) j + vf_d p.length avg w (vf_exit p avg) j +
      ∑ i ∈ Finset.range p.length,
        (if al (vf_exit p avg) i = j then vf_e p.length avg w (vf_exit p avg) i else 0) - p.getD j 0 =
      vf_T p.length avg (vf_exit p avg) j + vf_d p.length avg w (vf_exit p avg) j +
      ∑ i ∈ Finset.range p.length,
        (if al (vf_exit p avg) i = j then vf_e p.length avg w (vf_exit p avg) i else 0) := by ring
  rw [e]
  have t1 := abs_add_le (vf_T p.length avg (vf_exit p avg) j + vf_d p.length avg w (vf_exit p avg) j)
    (∑ i ∈ Finset.range p.length,
        (if al (vf_exit p avg) i = j then vf_e p.length avg w (vf_exit p avg) i else 0))
  have t2 := abs_add_le (vf_T p.length avg (vf_exit p avg) j) (vf_d p.length avg w (vf_exit p avg) j)
  push_cast
  linarith

/-- for the value the code uses: `avg` within `2^-53` of `1/n` (true of the double `1.0/n`)
    and an input accepted by `isProbability` -/
theorem vose_correct_double_avg (p : List Rat) (avg : Rat) (hne : p ≠ []) (hp : isProb p = true)
    (havg : absQ (avg - 1 / (p.length : Rat)) ≤ 1 / 2 ^ 53) :
    ∀ j, j < p.length →
      absQ (aliasMass (voseBuildFixed p avg).1 (voseBuildFixed p avg).2 j - p.getD j 0) ≤
        AITB.Gen.equalToleranceSmall + ((2 * p.length + 1 : Nat) : Rat) / 2 ^ 53 := by
  intro j hj
  simp only [isProb, eqSmall, Bool.and_eq_true, List.all_eq_true, Bool.not_eq_true',
    decide_eq_false_iff_not, not_lt, decide_eq_true_eq] at hp
  have h1 := vose_correct_any_avg p avg hne hp.1 j hj
  have h2 : absQ (1 - p.sum) ≤ AITB.Gen.equalToleranceSmall := by
    rw [vf_absQ_sub_comm 1 p.sum]; exact hp.2
  have hC : (0 : Rat) ≤ ((2 * p.length + 1 : Nat) : Rat) := Nat.cast_nonneg _
  have h3 := mul_le_mul_of_nonneg_left havg hC
  rw [mul_one_div] at h3
  linarith

/-- test: the bound of `vose_correct_any_avg` evaluated for an `avg` above and below `1/3` -/
example : (List.range 3).all (fun j => decide (
    absQ (aliasMass (voseBuildFixed [1/2, 1/4, 1/4] (1/3 + 1/1000)).1
      (voseBuildFixed [1/2, 1/4, 1/4] (1/3 + 1/1000)).2 j - ([1/2, 1/4, 1/4] : List Rat).getD j 0) ≤
    absQ (1 - ([1/2, 1/4, 1/4] : List Rat).sum) + ((2 * 3 + 1 : Nat) : Rat) * absQ ((1/3 + 1/1000) - 1 / 3))) = true := by
  decide +kernel

example : (List.range 3).all (fun j => decide (
    absQ (aliasMass (voseBuildFixed [1/2, 1/4, 1/4] (1/3 - 1/1000)).1
      (voseBuildFixed [1/2, 1/4, 1/4] (1/3 - 1/1000)).2 j - ([1/2, 1/4, 1/4] : List Rat).getD j 0) ≤
    absQ (1 - ([1/2, 1/4, 1/4] : List Rat).sum) + ((2 * 3 + 1 : Nat) : Rat) * absQ ((1/3 - 1/1000) - 1 / 3))) = true := by
  decide +kernel

end AITB.Sampling
