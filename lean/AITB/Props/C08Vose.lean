/-
  AITB.Props.C08Vose — correctness of the repaired Vose alias-table construction
  (`voseBuildFixed`, fixes/C08-3) of AITB.Model.Sampling (property C08, alias part).
  Unbounded: any list, any length.
-/
import AITB.Model.Sampling
import Mathlib.Algebra.Order.Field.Rat
import Mathlib.Algebra.BigOperators.Group.List.Basic
import Mathlib.Algebra.BigOperators.Ring.Finset
import Mathlib.Algebra.Order.BigOperators.Group.Finset
import Mathlib.Tactic.Linarith
import Mathlib.Tactic.Ring
import Mathlib.Tactic.NormNum
import Mathlib.Tactic.FieldSimp

namespace AITB.Sampling

/-! ## list facts (never unfold lists after this section) -/

theorem vf_getD_set {α : Type} (l : List α) (i j : Nat) (v d : α) :
    (l.set i v).getD j d = if i = j ∧ i < l.length then v else l.getD j d := by
  simp only [List.getD_eq_getElem?_getD, List.getElem?_set]
  by_cases h : i = j
  · subst h
    by_cases h2 : i < l.length
    · simp [h2]
    · simp [h2]
  · simp [h]

theorem vf_getD_replicate (n i : Nat) (v d : Nat) (h : i < n) :
    (List.replicate n v).getD i d = v := by
  simp [List.getD_eq_getElem?_getD, h]

theorem vf_getD_range_map {α : Type} (n i : Nat) (f : Nat → α) (d : α) (h : i < n) :
    ((List.range n).map f).getD i d = f i := by
  simp [List.getD_eq_getElem?_getD, h]

theorem vf_sum_range_map (f : Nat → Rat) : ∀ n : Nat,
    ((List.range n).map f).sum = ∑ i ∈ Finset.range n, f i
  | 0 => by simp
  | n + 1 => by
    rw [List.range_succ, List.map_append, List.sum_append, Finset.sum_range_succ,
      vf_sum_range_map f n]
    simp

theorem vf_sum_getD : ∀ p : List Rat, p.sum = ∑ j ∈ Finset.range p.length, p.getD j 0
  | [] => by simp
  | x :: xs => by
    rw [List.length_cons, Finset.sum_range_succ', List.sum_cons, vf_sum_getD xs]
    simp [add_comm]

theorem vf_getD_mem (p : List Rat) (i : Nat) (h : i < p.length) : p.getD i 0 ∈ p := by
  rw [List.getD_eq_getElem?_getD, List.getElem?_eq_getElem h]
  simp

/-! ## the scan -/

theorem vf_scan (cond : Nat → Bool) (n : Nat) : ∀ (fuel i : Nat), n - i ≤ fuel →
    i ≤ scanFrom cond n fuel i ∧ (i ≤ n → scanFrom cond n fuel i ≤ n) ∧
    (∀ k, i ≤ k → k < scanFrom cond n fuel i → cond k = true) ∧
    (scanFrom cond n fuel i < n → cond (scanFrom cond n fuel i) = false)
  | 0, i, h => by
    simp only [scanFrom]
    refine ⟨le_refl _, fun h => h, fun k h1 h2 => by omega, fun h2 => by omega⟩
  | fuel + 1, i, h => by
    simp only [scanFrom]
    by_cases hc : (decide (i < n) && cond i) = true
    · rw [if_pos hc]
      have hc' : i < n ∧ cond i = true := by simpa using hc
      obtain ⟨a, b, c, d⟩ := vf_scan cond n fuel (i + 1) (by omega)
      refine ⟨by omega, fun _ => b (by omega), fun k h1 h2 => ?_, d⟩
      by_cases hk : k = i
      · subst hk; exact hc'.2
      · exact c k (by omega) h2
    · rw [if_neg hc]
      refine ⟨le_refl _, fun h => h, fun k h1 h2 => by omega, fun h2 => ?_⟩
      simp only [Bool.and_eq_true, decide_eq_true_eq, not_and, Bool.not_eq_true] at hc
      exact hc h2

/-! ## (A) aliases are always in range -/

theorem vf_loop_alias_le (n : Nat) (avg : Rat) : ∀ (fuel : Nat) (st : Vose),
    (∀ i, i < n → al st i ≤ n) → ∀ i, i < n → al (voseLoopFixed n avg fuel st) i ≤ n
  | 0, st, h => by simpa [voseLoopFixed] using h
  | fuel + 1, st, h => by
    simp only [voseLoopFixed]
    by_cases hc : (decide (st.small < n) && decide (st.large < n)) = true
    · rw [if_pos hc]
      have hc' : st.small < n ∧ st.large < n := by simpa using hc
      apply vf_loop_alias_le n avg fuel
      intro i hi
      have : (voseStepFixed n avg st).alias = st.alias.set st.small st.large := by
        unfold voseStepFixed; simp only []; split <;> rfl
      unfold al
      rw [this, vf_getD_set]
      split
      · omega
      · exact h i hi
    · rw [if_neg hc]; exact h

/-- the state before the first iteration -/
def vf_init (p : List Rat) (avg : Rat) : Vose :=
  ⟨p, List.replicate p.length p.length,
    scanFrom (fun i => p.getD i 0 ≥ avg) p.length p.length 0,
    scanFrom (fun i => p.getD i 0 < avg) p.length p.length 0,
    scanFrom (fun i => p.getD i 0 ≥ avg) p.length p.length 0⟩

/-- the state after the main loop -/
def vf_exit (p : List Rat) (avg : Rat) : Vose :=
  voseLoopFixed p.length avg (2 * p.length + 1) (vf_init p avg)

theorem vf_build_eq (p : List Rat) (avg : Rat) :
    voseBuildFixed p avg =
      (((List.range p.length).map
          (fun x => if al (vf_exit p avg) x == p.length then 1 else pr (vf_exit p avg) x)).map
            (· * (p.length : Rat)),
       (List.range p.length).map
          (fun x => if al (vf_exit p avg) x == p.length then x else al (vf_exit p avg) x)) := rfl

theorem vf_init_al (p : List Rat) (avg : Rat) (i : Nat) (hi : i < p.length) :
    al (vf_init p avg) i = p.length := by
  show (List.replicate p.length p.length).getD i 0 = p.length
  exact vf_getD_replicate _ _ _ _ hi

theorem vose_fixed_lengths (p : List Rat) (avg : Rat) :
    (voseBuildFixed p avg).1.length = p.length ∧ (voseBuildFixed p avg).2.length = p.length := by
  simp [vf_build_eq]

theorem vose_fixed_alias_in_range (p : List Rat) (avg : Rat) :
    ∀ a ∈ (voseBuildFixed p avg).2, a < p.length := by
  intro a ha
  simp only [vf_build_eq, List.mem_map, List.mem_range] at ha
  obtain ⟨x, hx, rfl⟩ := ha
  have h := vf_loop_alias_le p.length avg (2 * p.length + 1) (vf_init p avg)
    (fun i hi => by rw [vf_init_al p avg i hi]) x hx
  change al (vf_exit p avg) x ≤ p.length at h
  split
  · exact hx
  · rename_i hne
    have : ¬ (al (vf_exit p avg) x = p.length) := by simpa using hne
    omega

end AITB.Sampling
