/-
  AITB.Props.C04d — `crossSum_links`: IncrementalPruning's reverse-binary-tree merge schedule lays the observation
  links out in observation order, for EVERY number of observations O ≥ 1 (both directions of the `order` flag).

  The schedule (`mergeSchedule`, literal copy of the integer bookkeeping front/back/stepsize/diff/elements/oddOld) is
  run on abstract slots with an abstract merge `mrg x y order`.  `I lo hi x` reads "slot content x covers exactly
  the observation block [lo, hi) in ascending order"; the two hypotheses say a merge of adjacent blocks in the
  direction announced by `order` covers the union.  Conclusion: what ends up in `projs[a][0]` covers [0, O).
-/
import AITB.Model.PlanOps
import Mathlib.Tactic.Ring
import Mathlib.Tactic.Linarith

namespace AITB.Plan

set_option linter.unusedSectionVars false
variable {α : Type} [Inhabited α]

/-! ## slots -/

theorem slotGet_nat (sl : List α) (p : Nat) : slotGet sl (p : Int) = sl.getD p default := by
  unfold slotGet
  rw [if_neg (by omega)]; simp

theorem slotSet_nat (sl : List α) (p : Nat) (x : α) : slotSet sl (p : Int) x = sl.set p x := by
  unfold slotSet
  rw [if_neg (by omega)]; simp

theorem getD_set_ne (sl : List α) (p q : Nat) (x d : α) (h : p ≠ q) : (sl.set p x).getD q d = sl.getD q d := by
  simp [List.getD_eq_getElem?_getD, List.getElem?_set_ne h]

theorem getD_set_eq (sl : List α) (p : Nat) (x d : α) (h : p < sl.length) : (sl.set p x).getD p d = x := by
  simp [List.getD_eq_getElem?_getD, List.getElem?_set_self h]

/-! ## live positions (arithmetic progressions) and chains of adjacent blocks -/

/-- `AP p δ n = [p, p+δ, …, p+(n-1)δ]` -/
def AP (p δ : Nat) : Nat → List Nat
  | 0 => []
  | n+1 => p :: AP (p + δ) δ n

/-- the contents of the slots at positions `live` (ascending) cover adjacent blocks from `lo` to `hi` -/
def Chain (I : Nat → Nat → α → Prop) (sl : List α) : List Nat → Nat → Nat → Prop
  | [], lo, hi => lo = hi
  | p :: ps, lo, hi => ∃ mid, I lo mid (sl.getD p default) ∧ Chain I sl ps mid hi

theorem AP_ge (δ : Nat) : ∀ (n p q : Nat), q ∈ AP p δ n → p ≤ q
  | 0, _, _, h => by simp [AP] at h
  | n+1, p, q, h => by
    simp only [AP, List.mem_cons] at h
    rcases h with h | h
    · omega
    · have := AP_ge δ n (p + δ) q h; omega

theorem AP_snoc (δ : Nat) : ∀ (n p : Nat), AP p δ (n+1) = AP p δ n ++ [p + n * δ]
  | 0, p => by simp [AP]
  | n+1, p => by
    have e : p + δ + n * δ = p + (n + 1) * δ := by ring
    rw [AP, AP_snoc δ n (p + δ), e]
    simp [AP]

theorem Chain_congr (I : Nat → Nat → α → Prop) (sl sl' : List α) : ∀ (live : List Nat) (lo hi : Nat),
    (∀ p ∈ live, sl'.getD p default = sl.getD p default) → Chain I sl live lo hi → Chain I sl' live lo hi
  | [], _, _, _, h => h
  | p :: ps, lo, hi, hc, h => by
    obtain ⟨mid, h1, h2⟩ := h
    refine ⟨mid, ?_, Chain_congr I sl sl' ps mid hi (fun q hq => hc q (List.mem_cons_of_mem _ hq)) h2⟩
    rw [hc p (List.mem_cons_self ..)]; exact h1

theorem Chain_append (I : Nat → Nat → α → Prop) (sl : List α) : ∀ (l1 l2 : List Nat) (lo hi : Nat),
    Chain I sl (l1 ++ l2) lo hi ↔ ∃ mid, Chain I sl l1 lo mid ∧ Chain I sl l2 mid hi
  | [], l2, lo, hi => by
    simp only [List.nil_append, Chain]
    constructor
    · intro h; exact ⟨lo, rfl, h⟩
    · rintro ⟨mid, rfl, h⟩; exact h
  | p :: l1, l2, lo, hi => by
    simp only [List.cons_append, Chain]
    constructor
    · rintro ⟨m1, h1, h2⟩
      obtain ⟨m2, h3, h4⟩ := (Chain_append I sl l1 l2 m1 hi).mp h2
      exact ⟨m2, ⟨m1, h1, h3⟩, h4⟩
    · rintro ⟨m2, ⟨m1, h1, h3⟩, h4⟩
      exact ⟨m1, h1, (Chain_append I sl l1 l2 m1 hi).mpr ⟨m2, h3, h4⟩⟩

/-! ## one forward pass -/

theorem AP_le_one (p δ δ' c : Nat) (hc : c ≤ 1) : AP p δ c = AP p δ' c := by
  rcases Nat.le_one_iff_eq_zero_or_eq_one.mp hc with h | h <;> subst h <;> simp [AP]

theorem fwd_pass (mrg : α → α → Bool → α) (I : Nat → Nat → α → Prop)
    (hF : ∀ lo mid hi x y, I lo mid x → I mid hi y → I lo hi (mrg x y true)) (δ : Nat) (hδ : 0 < δ) (c : Nat) (hc : c ≤ 1) :
    ∀ (r : Nat) (sl : List α) (p0 el fuel lo hi : Nat), r ≤ fuel →
      Chain I sl (AP p0 δ (2 * r + c)) lo hi → (∀ q ∈ AP p0 δ (2 * r + c), q < sl.length) →
      (passLoop mrg ((2 * δ : Nat) : Int) ((δ : Nat) : Int) ((p0 + 2 * r * δ : Nat) : Int) fuel sl (p0 : Int) el).2 = el - r ∧
      (passLoop mrg ((2 * δ : Nat) : Int) ((δ : Nat) : Int) ((p0 + 2 * r * δ : Nat) : Int) fuel sl (p0 : Int) el).1.length = sl.length ∧
      Chain I (passLoop mrg ((2 * δ : Nat) : Int) ((δ : Nat) : Int) ((p0 + 2 * r * δ : Nat) : Int) fuel sl (p0 : Int) el).1
        (AP p0 (2 * δ) (r + c)) lo hi ∧
      (∀ q ∈ AP p0 (2 * δ) (r + c), q < sl.length) ∧
      (∀ q, q < p0 → (passLoop mrg ((2 * δ : Nat) : Int) ((δ : Nat) : Int) ((p0 + 2 * r * δ : Nat) : Int) fuel sl (p0 : Int) el).1.getD q default
          = sl.getD q default)
  | 0, sl, p0, el, fuel, lo, hi, _, hch, hin => by
    have hres : passLoop mrg ((2 * δ : Nat) : Int) ((δ : Nat) : Int) ((p0 + 2 * 0 * δ : Nat) : Int) fuel sl (p0 : Int) el = (sl, el) := by
      cases fuel with
      | zero => rfl
      | succ f => simp [passLoop]
    rw [hres]
    have e0 : 2 * 0 + c = c := by omega
    have e1 : 0 + c = c := by omega
    rw [e0] at hch hin
    rw [e1, AP_le_one p0 (2 * δ) δ c hc]
    exact ⟨by omega, rfl, hch, hin, fun _ _ => rfl⟩
  | r+1, sl, p0, el, fuel, lo, hi, hf, hch, hin => by
    obtain ⟨f, rfl⟩ : ∃ f, fuel = f + 1 := ⟨fuel - 1, by omega⟩
    have e2 : 2 * (r + 1) + c = (2 * r + c) + 1 + 1 := by ring
    rw [e2] at hch hin
    simp only [AP, Chain, List.mem_cons] at hch hin
    obtain ⟨mid1, h1, mid2, h2, hrest⟩ := hch
    have hp0 : p0 < sl.length := hin p0 (Or.inl rfl)
    have hne : ((p0 : Nat) : Int) ≠ ((p0 + 2 * (r + 1) * δ : Nat) : Int) := by
      have : 0 < 2 * (r + 1) * δ := Nat.mul_pos (by omega) hδ
      omega
    have hstep : passLoop mrg ((2 * δ : Nat) : Int) ((δ : Nat) : Int) ((p0 + 2 * (r + 1) * δ : Nat) : Int) (f + 1) sl (p0 : Int) el =
        passLoop mrg ((2 * δ : Nat) : Int) ((δ : Nat) : Int) ((p0 + 2 * δ + 2 * r * δ : Nat) : Int) f
          (sl.set p0 (mrg (sl.getD p0 default) (sl.getD (p0 + δ) default) true)) ((p0 + 2 * δ : Nat) : Int) (el - 1) := by
      rw [passLoop, if_neg hne]
      have e3 : ((p0 : Nat) : Int) + ((δ : Nat) : Int) = ((p0 + δ : Nat) : Int) := by push_cast; ring
      have e4 : ((p0 : Nat) : Int) + ((2 * δ : Nat) : Int) = ((p0 + 2 * δ : Nat) : Int) := by push_cast; ring
      have e5 : p0 + 2 * (r + 1) * δ = p0 + 2 * δ + 2 * r * δ := by ring
      have e6 : decide (((2 * δ : Nat) : Int) > 0) = true := by simp; omega
      have e7 : (true == Gen.C04.orderWhenForward) = true := rfl
      simp only [e3, e4, e5, e6, e7, slotGet_nat, slotSet_nat]
    rw [hstep]
    set merged := mrg (sl.getD p0 default) (sl.getD (p0 + δ) default) true with hm
    set sl1 := sl.set p0 merged with hsl1
    have hmerged : I lo mid2 merged := hF lo mid1 mid2 _ _ h1 h2
    have hrest_ge : ∀ q ∈ AP (p0 + δ + δ) δ (2 * r + c), p0 + δ + δ ≤ q := fun q hq => AP_ge δ _ _ q hq
    have hrest1 : Chain I sl1 (AP (p0 + 2 * δ) δ (2 * r + c)) mid2 hi := by
      have e : p0 + 2 * δ = p0 + δ + δ := by ring
      rw [e]
      apply Chain_congr I sl sl1 _ _ _ _ hrest
      intro q hq
      have := hrest_ge q hq
      exact getD_set_ne sl p0 q merged default (by omega)
    have hin1 : ∀ q ∈ AP (p0 + 2 * δ) δ (2 * r + c), q < sl1.length := by
      have e : p0 + 2 * δ = p0 + δ + δ := by ring
      rw [e]
      intro q hq
      rw [hsl1, List.length_set]
      exact hin q (Or.inr (Or.inr hq))
    obtain ⟨i1, i2, i3, i4, i5⟩ := fwd_pass mrg I hF δ hδ c hc r sl1 (p0 + 2 * δ) (el - 1) f mid2 hi (by omega) hrest1 hin1
    have hlen : sl1.length = sl.length := by rw [hsl1, List.length_set]
    refine ⟨by rw [i1]; omega, by rw [i2, hlen], ?_, ?_, ?_⟩
    · have e : r + 1 + c = (r + c) + 1 := by ring
      rw [e]
      simp only [AP, Chain]
      refine ⟨mid2, ?_, ?_⟩
      · rw [i5 p0 (by omega), hsl1, getD_set_eq sl p0 merged default hp0]; exact hmerged
      · have e' : p0 + 2 * δ = p0 + 2 * δ := rfl
        exact i3
    · have e : r + 1 + c = (r + c) + 1 := by ring
      rw [e]
      simp only [AP, List.mem_cons]
      intro q hq
      rcases hq with hq | hq
      · omega
      · have := i4 q hq; omega
    · intro q hq
      rw [i5 q (by omega), hsl1]
      exact getD_set_ne sl p0 q merged default (by omega)

/-! ## one backward pass -/

theorem AP_lt (δ : Nat) (hδ : 0 < δ) : ∀ (n p q : Nat), q ∈ AP p δ n → q < p + n * δ
  | 0, _, _, h => by simp [AP] at h
  | n+1, p, q, h => by
    simp only [AP, List.mem_cons] at h
    have e : p + (n + 1) * δ = p + δ + n * δ := by ring
    rcases h with h | h
    · have : 0 < (n + 1) * δ := Nat.mul_pos (by omega) hδ
      omega
    · have := AP_lt δ hδ n (p + δ) q h; omega

theorem bwd_pass (mrg : α → α → Bool → α) (I : Nat → Nat → α → Prop)
    (hB : ∀ lo mid hi x y, I mid hi x → I lo mid y → I lo hi (mrg x y false)) (δ : Nat) (hδ : 0 < δ) (c : Nat) (hc : c ≤ 1) :
    ∀ (r : Nat) (sl : List α) (p0 el fuel lo hi : Nat), r ≤ fuel →
      Chain I sl (AP p0 δ (c + 2 * r)) lo hi → (∀ q ∈ AP p0 δ (c + 2 * r), q < sl.length) →
      (passLoop mrg (-((2 * δ : Nat) : Int)) (-((δ : Nat) : Int)) (((p0 + c * δ : Nat) : Int) - (δ : Int)) fuel sl
          (((p0 + (c + 2 * r) * δ : Nat) : Int) - (δ : Int)) el).2 = el - r ∧
      (passLoop mrg (-((2 * δ : Nat) : Int)) (-((δ : Nat) : Int)) (((p0 + c * δ : Nat) : Int) - (δ : Int)) fuel sl
          (((p0 + (c + 2 * r) * δ : Nat) : Int) - (δ : Int)) el).1.length = sl.length ∧
      Chain I (passLoop mrg (-((2 * δ : Nat) : Int)) (-((δ : Nat) : Int)) (((p0 + c * δ : Nat) : Int) - (δ : Int)) fuel sl
          (((p0 + (c + 2 * r) * δ : Nat) : Int) - (δ : Int)) el).1
        (AP p0 δ c ++ AP (p0 + c * δ + δ) (2 * δ) r) lo hi ∧
      (∀ q ∈ AP p0 δ c ++ AP (p0 + c * δ + δ) (2 * δ) r, q < sl.length) ∧
      (∀ q, p0 + (c + 2 * r) * δ ≤ q →
        (passLoop mrg (-((2 * δ : Nat) : Int)) (-((δ : Nat) : Int)) (((p0 + c * δ : Nat) : Int) - (δ : Int)) fuel sl
          (((p0 + (c + 2 * r) * δ : Nat) : Int) - (δ : Int)) el).1.getD q default = sl.getD q default)
  | 0, sl, p0, el, fuel, lo, hi, _, hch, hin => by
    have e0 : c + 2 * 0 = c := by omega
    rw [e0] at hch hin ⊢
    have hres : passLoop mrg (-((2 * δ : Nat) : Int)) (-((δ : Nat) : Int)) (((p0 + c * δ : Nat) : Int) - (δ : Int)) fuel sl
          (((p0 + c * δ : Nat) : Int) - (δ : Int)) el = (sl, el) := by
      cases fuel with
      | zero => rfl
      | succ f => simp [passLoop]
    rw [hres]
    have hnil : AP (p0 + c * δ + δ) (2 * δ) 0 = [] := rfl
    rw [hnil, List.append_nil]
    exact ⟨by omega, rfl, hch, hin, fun _ _ => rfl⟩
  | r+1, sl, p0, el, fuel, lo, hi, hf, hch, hin => by
    obtain ⟨f, rfl⟩ : ∃ f, fuel = f + 1 := ⟨fuel - 1, by omega⟩
    -- x = position of the second-highest live slot of this step, y = x + δ the highest
    set x := p0 + (c + 2 * r) * δ with hx
    have e2 : c + 2 * (r + 1) = (c + 2 * r) + 1 + 1 := by ring
    have hsplit : AP p0 δ (c + 2 * (r + 1)) = AP p0 δ (c + 2 * r) ++ [x] ++ [x + δ] := by
      rw [e2, AP_snoc, AP_snoc]
      have : p0 + (c + 2 * r + 1) * δ = x + δ := by rw [hx]; ring
      rw [this]
    rw [hsplit] at hch hin
    obtain ⟨m2, hc12, hcy⟩ := (Chain_append I sl _ _ lo hi).mp hch
    obtain ⟨m1, hc1, hcx⟩ := (Chain_append I sl _ _ lo m2).mp hc12
    simp only [Chain] at hcx hcy
    obtain ⟨mx, hIx0, hmx⟩ := hcx
    obtain ⟨my, hIy0, hmy⟩ := hcy
    have hIx : I m1 m2 (sl.getD x default) := hmx ▸ hIx0
    have hIy : I m2 hi (sl.getD (x + δ) default) := hmy ▸ hIy0
    have hylen : x + δ < sl.length := hin (x + δ) (by simp)
    have hfront : ((p0 + (c + 2 * (r + 1)) * δ : Nat) : Int) - (δ : Int) = ((x + δ : Nat) : Int) := by
      rw [hx]; push_cast; ring
    have hxge : p0 + c * δ ≤ x := by
      rw [hx]
      have : (c + 2 * r) * δ = c * δ + 2 * r * δ := by ring
      omega
    have hne : ((x + δ : Nat) : Int) ≠ ((p0 + c * δ : Nat) : Int) - (δ : Int) := by omega
    have hstep : passLoop mrg (-((2 * δ : Nat) : Int)) (-((δ : Nat) : Int)) (((p0 + c * δ : Nat) : Int) - (δ : Int)) (f + 1) sl
          (((p0 + (c + 2 * (r + 1)) * δ : Nat) : Int) - (δ : Int)) el =
        passLoop mrg (-((2 * δ : Nat) : Int)) (-((δ : Nat) : Int)) (((p0 + c * δ : Nat) : Int) - (δ : Int)) f
          (sl.set (x + δ) (mrg (sl.getD (x + δ) default) (sl.getD x default) false))
          (((x : Nat) : Int) - (δ : Int)) (el - 1) := by
      rw [hfront, passLoop, if_neg hne]
      have e3 : ((x + δ : Nat) : Int) + -((δ : Nat) : Int) = ((x : Nat) : Int) := by push_cast; ring
      have e4 : ((x + δ : Nat) : Int) + -((2 * δ : Nat) : Int) = ((x : Nat) : Int) - (δ : Int) := by push_cast; ring
      have e6 : decide (-((2 * δ : Nat) : Int) > 0) = false := by simp
      have e7 : (false == Gen.C04.orderWhenForward) = false := rfl
      simp only [e3, e4, e6, e7, slotGet_nat, slotSet_nat]
    rw [hstep]
    set merged := mrg (sl.getD (x + δ) default) (sl.getD x default) false with hm
    set sl1 := sl.set (x + δ) merged with hsl1
    have hmerged : I m1 hi merged := hB m1 m2 hi _ _ hIy hIx
    have hlow : ∀ q ∈ AP p0 δ (c + 2 * r), q < x := fun q hq => by
      have := AP_lt δ hδ _ _ q hq; rw [hx]; exact this
    have hc1' : Chain I sl1 (AP p0 δ (c + 2 * r)) lo m1 := by
      apply Chain_congr I sl sl1 _ _ _ _ hc1
      intro q hq
      have := hlow q hq
      exact getD_set_ne sl (x + δ) q merged default (by omega)
    have hin1 : ∀ q ∈ AP p0 δ (c + 2 * r), q < sl1.length := by
      intro q hq
      rw [hsl1, List.length_set]
      exact hin q (by simp [hq])
    obtain ⟨i1, i2, i3, i4, i5⟩ := bwd_pass mrg I hB δ hδ c hc r sl1 p0 (el - 1) f lo m1 (by omega) hc1' hin1
    have hlen : sl1.length = sl.length := by rw [hsl1, List.length_set]
    have hy : p0 + c * δ + δ + r * (2 * δ) = x + δ := by rw [hx]; ring
    have hAP : AP p0 δ c ++ AP (p0 + c * δ + δ) (2 * δ) (r + 1) = (AP p0 δ c ++ AP (p0 + c * δ + δ) (2 * δ) r) ++ [x + δ] := by
      rw [AP_snoc, hy, List.append_assoc]
    refine ⟨by rw [i1]; omega, by rw [i2, hlen], ?_, ?_, ?_⟩
    · rw [hAP]
      apply (Chain_append I _ _ _ lo hi).mpr
      refine ⟨m1, i3, ?_⟩
      simp only [Chain]
      refine ⟨hi, ?_, rfl⟩
      rw [i5 (x + δ) (by omega), hsl1, getD_set_eq sl (x + δ) merged default hylen]
      exact hmerged
    · rw [hAP]
      intro q hq
      rcases List.mem_append.mp hq with hq | hq
      · have := i4 q hq; omega
      · simp at hq; omega
    · intro q hq
      have hq' : x + δ + δ ≤ q := by
        have : p0 + (c + 2 * (r + 1)) * δ = x + δ + δ := by rw [hx]; ring
        omega
      rw [i5 q (by omega), hsl1]
      exact getD_set_ne sl (x + δ) q merged default (by omega)

/-! ## the whole schedule -/

def fwdState (p0 δ n : Nat) : Sched :=
  ⟨(p0 : Int), ((p0 + 2 * (n / 2) * δ : Nat) : Int), ((2 * δ : Nat) : Int), ((δ : Nat) : Int), n, n % 2 == 1⟩

def bwdState (p0 δ n : Nat) : Sched :=
  ⟨((p0 + n * δ : Nat) : Int) - (δ : Int), ((p0 + (n % 2) * δ : Nat) : Int) - (δ : Int),
   -((2 * δ : Nat) : Int), -((δ : Nat) : Int), n, n % 2 == 1⟩

/-- bookkeeping after a forward pass over `n = 2r + c` live slots: the literal update yields the backward state on
    `r + c` slots of spacing `2δ` with the same lowest position -/
theorem fwd_next (p0 δ r c : Nat) (hc : c ≤ 1) :
    (⟨((p0 + 2 * r * δ : Nat) : Int) - (if (c == 1) then 0 else ((2 * δ : Nat) : Int)),
      (p0 : Int) - (if ((r + c) % 2 == 1) then 0 else ((2 * δ : Nat) : Int)),
      ((2 * δ : Nat) : Int) * Gen.C04.stepMul, ((δ : Nat) : Int) * Gen.C04.diffMul, r + c, (r + c) % 2 == 1⟩ : Sched) =
    bwdState p0 (2 * δ) (r + c) := by
  simp only [bwdState, Sched.mk.injEq, show Gen.C04.stepMul = -2 from rfl, show Gen.C04.diffMul = -2 from rfl]
  refine ⟨?_, ?_, by push_cast; ring, by push_cast; ring, trivial, trivial⟩
  · rcases Nat.le_one_iff_eq_zero_or_eq_one.mp hc with h | h <;> subst h <;> simp <;> ring
  · rcases Nat.mod_two_eq_zero_or_one (r + c) with h | h <;> simp [h]

/-- bookkeeping after a backward pass over `n = c + 2r` live slots -/
theorem bwd_next (p0 δ r c : Nat) (hc : c ≤ 1) :
    (⟨(((p0 + c * δ : Nat) : Int) - (δ : Int)) - (if (c == 1) then 0 else -((2 * δ : Nat) : Int)),
      (((p0 + (c + 2 * r) * δ : Nat) : Int) - (δ : Int)) - (if ((r + c) % 2 == 1) then 0 else -((2 * δ : Nat) : Int)),
      -((2 * δ : Nat) : Int) * Gen.C04.stepMul, -((δ : Nat) : Int) * Gen.C04.diffMul, r + c, (r + c) % 2 == 1⟩ : Sched) =
    fwdState (p0 + (1 - c) * δ) (2 * δ) (r + c) := by
  simp only [fwdState, Sched.mk.injEq, show Gen.C04.stepMul = -2 from rfl, show Gen.C04.diffMul = -2 from rfl]
  obtain ⟨r', c', hc', hn'⟩ : ∃ r' c', c' ≤ 1 ∧ r + c = 2 * r' + c' :=
    ⟨(r + c) / 2, (r + c) % 2, by omega, by omega⟩
  have hdiv : (r + c) / 2 = r' := by omega
  have hmod : (r + c) % 2 = c' := by omega
  rw [hdiv, hmod]
  refine ⟨?_, ?_, by push_cast; ring, by push_cast; ring, trivial, trivial⟩
  · rcases Nat.le_one_iff_eq_zero_or_eq_one.mp hc with h | h <;> subst h <;> simp <;> ring
  · rcases Nat.le_one_iff_eq_zero_or_eq_one.mp hc with h | h <;>
    rcases Nat.le_one_iff_eq_zero_or_eq_one.mp hc' with h' | h' <;> subst h <;> subst h'
    · have : r = 2 * r' := by omega
      subst this; simp; ring
    · have : r = 2 * r' + 1 := by omega
      subst this; simp; ring
    · obtain ⟨k, rfl⟩ : ∃ k, r' = k + 1 := ⟨r' - 1, by omega⟩
      have : r = 2 * k + 1 := by omega
      subst this; simp; ring
    · have : r = 2 * r' := by omega
      subst this; simp; ring

theorem schedLoop_succ (mrg : α → α → Bool → α) (f : Nat) (sl : List α) (st : Sched) :
    schedLoop mrg (f+1) sl st =
      if st.elements > 1 then
        schedLoop mrg f (passLoop mrg st.stepsize st.diff st.back st.elements sl st.front st.elements).1
          ⟨st.back - (if st.oddOld then 0 else st.stepsize),
           st.front - (if ((passLoop mrg st.stepsize st.diff st.back st.elements sl st.front st.elements).2 % 2 == 1) then 0 else st.stepsize),
           st.stepsize * Gen.C04.stepMul, st.diff * Gen.C04.diffMul,
           (passLoop mrg st.stepsize st.diff st.back st.elements sl st.front st.elements).2,
           (passLoop mrg st.stepsize st.diff st.back st.elements sl st.front st.elements).2 % 2 == 1⟩
      else (sl, st) := rfl

theorem schedLoop_done (mrg : α → α → Bool → α) (fuel : Nat) (sl : List α) (st : Sched) (h : st.elements = 1) :
    schedLoop mrg fuel sl st = (sl, st) := by
  cases fuel with
  | zero => rfl
  | succ f => rw [schedLoop_succ, if_neg (by omega)]

theorem bwd_live (p0 δ r c : Nat) (hc : c ≤ 1) :
    AP p0 δ c ++ AP (p0 + c * δ + δ) (2 * δ) r = AP (p0 + (1 - c) * δ) (2 * δ) (r + c) := by
  rcases Nat.le_one_iff_eq_zero_or_eq_one.mp hc with h | h <;> subst h
  · simp [AP]
  · have e : p0 + δ + δ = p0 + 2 * δ := by ring
    simp [AP, e]

/-- **schedule_invariant.**  From any state of the schedule (forward or backward, `n` live slots of spacing `δ`
    starting at `p0`, covering adjacent blocks of [0, O) in position order) the loop ends with a slot covering [0, O)
    at `front`. -/
theorem sched_correct (mrg : α → α → Bool → α) (I : Nat → Nat → α → Prop)
    (hF : ∀ lo mid hi x y, I lo mid x → I mid hi y → I lo hi (mrg x y true))
    (hB : ∀ lo mid hi x y, I mid hi x → I lo mid y → I lo hi (mrg x y false)) (O : Nat) :
    ∀ (fuel n : Nat) (fwd : Bool) (sl : List α) (p0 δ : Nat), 1 ≤ n → n ≤ fuel + 1 → 0 < δ →
      Chain I sl (AP p0 δ n) 0 O → (∀ q ∈ AP p0 δ n, q < sl.length) →
      I 0 O (slotGet (schedLoop mrg fuel sl (if fwd then fwdState p0 δ n else bwdState p0 δ n)).1
                     (schedLoop mrg fuel sl (if fwd then fwdState p0 δ n else bwdState p0 δ n)).2.front) := by
  intro fuel
  induction fuel with
  | zero =>
    intro n fwd sl p0 δ h1 h2 hδ hch hin
    have hn : n = 1 := by omega
    subst hn
    simp only [AP, Chain] at hch
    obtain ⟨mid, hI, hmid⟩ := hch
    subst hmid
    rw [schedLoop_done mrg 0 sl _ (by cases fwd <;> rfl)]
    cases fwd
    · have : (bwdState p0 δ 1).front = (p0 : Int) := by simp only [bwdState]; push_cast; ring
      simp only [Bool.false_eq_true, if_false, this, slotGet_nat]; exact hI
    · simp only [if_true, fwdState, slotGet_nat]; exact hI
  | succ f ih =>
    intro n fwd sl p0 δ h1 h2 hδ hch hin
    rcases Nat.lt_or_ge n 2 with hlt | hge
    · have hn : n = 1 := by omega
      subst hn
      simp only [AP, Chain] at hch
      obtain ⟨mid, hI, hmid⟩ := hch
      subst hmid
      rw [schedLoop_done mrg (f+1) sl _ (by cases fwd <;> rfl)]
      cases fwd
      · have : (bwdState p0 δ 1).front = (p0 : Int) := by simp only [bwdState]; push_cast; ring
        simp only [Bool.false_eq_true, if_false, this, slotGet_nat]; exact hI
      · simp only [if_true, fwdState, slotGet_nat]; exact hI
    · obtain ⟨r, c, hc, hn, hr⟩ : ∃ r c, c ≤ 1 ∧ n = 2 * r + c ∧ 1 ≤ r := ⟨n / 2, n % 2, by omega, by omega, by omega⟩
      have hdiv : n / 2 = r := by omega
      have hmod : n % 2 = c := by omega
      cases fwd
      · -- backward pass
        simp only [Bool.false_eq_true, if_false]
        rw [schedLoop_succ, if_pos (by simp only [bwdState]; omega)]
        simp only [bwdState, hmod]
        have hn2 : p0 + n * δ = p0 + (c + 2 * r) * δ := by rw [hn]; ring
        rw [hn2]
        have hn3 : n = c + 2 * r := by omega
        rw [hn3] at hch hin
        obtain ⟨i1, i2, i3, i4, _⟩ := bwd_pass mrg I hB δ hδ c hc r sl p0 n n 0 O (by omega) hch hin
        rw [bwd_live p0 δ r c hc] at i3 i4
        have hel : n - r = r + c := by omega
        rw [hel] at i1
        rw [i1]
        have hodd : (c == 1) = (c == 1) := rfl
        rw [bwd_next p0 δ r c hc]
        have := ih (r + c) true _ (p0 + (1 - c) * δ) (2 * δ) (by omega) (by omega) (by omega) i3
          (fun q hq => by rw [i2]; exact i4 q hq)
        simpa using this
      · -- forward pass
        simp only [if_true]
        rw [schedLoop_succ, if_pos (by simp only [fwdState]; omega)]
        simp only [fwdState, hdiv, hmod]
        rw [hn] at hch hin
        obtain ⟨i1, i2, i3, i4, _⟩ := fwd_pass mrg I hF δ hδ c hc r sl p0 n n 0 O (by omega) hch hin
        have hel : n - r = r + c := by omega
        rw [hel] at i1
        rw [i1]
        rw [fwd_next p0 δ r c hc]
        have := ih (r + c) false _ p0 (2 * δ) (by omega) (by omega) (by omega) i3
          (fun q hq => by rw [i2]; exact i4 q hq)
        simpa using this

theorem chain_init (I : Nat → Nat → α → Prop) (sl : List α) : ∀ (n p : Nat),
    (∀ k, k < n → I (p + k) (p + k + 1) (sl.getD (p + k) default)) → Chain I sl (AP p 1 n) p (p + n)
  | 0, p, _ => by simp [AP, Chain]
  | n+1, p, h => by
    simp only [AP, Chain]
    refine ⟨p + 1, by simpa using h 0 (by omega), ?_⟩
    have e : p + (n + 1) = (p + 1) + n := by ring
    rw [e]
    apply chain_init I sl n (p + 1)
    intro k hk
    have := h (k + 1) (by omega)
    have e1 : p + (k + 1) = p + 1 + k := by ring
    rw [e1] at this; exact this

/-- **crossSum_links (abstract form).**  For EVERY number of slots `O ≥ 1`: if slot `o` initially covers the block
    `[o, o+1)` and merging adjacent blocks in the announced direction covers their union, the schedule's result
    (what is moved to `projs[a][0]`) covers `[0, O)`. -/
theorem mergeSchedule_covers (mrg : α → α → Bool → α) (I : Nat → Nat → α → Prop)
    (hF : ∀ lo mid hi x y, I lo mid x → I mid hi y → I lo hi (mrg x y true))
    (hB : ∀ lo mid hi x y, I mid hi x → I lo mid y → I lo hi (mrg x y false))
    (slots : List α) (hO : 1 ≤ slots.length)
    (hinit : ∀ o, o < slots.length → I o (o + 1) (slots.getD o default)) :
    I 0 slots.length (mergeSchedule mrg slots) := by
  unfold mergeSchedule
  simp only []
  have hst : (⟨0, (slots.length : Int) - (if (slots.length % 2 == 1) then 1 else 0), Gen.C04.stepsize0, Gen.C04.diff0,
      slots.length, slots.length % 2 == 1⟩ : Sched) = fwdState 0 1 slots.length := by
    simp only [fwdState, Sched.mk.injEq, show Gen.C04.stepsize0 = 2 from rfl, show Gen.C04.diff0 = 1 from rfl]
    refine ⟨rfl, ?_, rfl, rfl, trivial, trivial⟩
    rcases Nat.mod_two_eq_zero_or_one slots.length with h | h <;> simp [h] <;> omega
  rw [hst]
  have hch : Chain I slots (AP 0 1 slots.length) 0 slots.length := by
    have := chain_init I slots slots.length 0 (fun k hk => by simpa using hinit k hk)
    simpa using this
  have hin : ∀ q ∈ AP 0 1 slots.length, q < slots.length := by
    intro q hq
    have := AP_lt 1 (by omega) _ _ q hq
    omega
  have := sched_correct mrg I hF hB slots.length slots.length slots.length true slots 0 1 hO (by omega) (by omega) hch hin
  simpa using this

/-- **crossSum_links (link order).**  Run on observation indices, the schedule returns `[0, 1, …, O-1]` for every
    `O ≥ 1`: cross-summed link vectors are always in observation order. -/
theorem scheduleOrder_eq_range (O : Nat) (hO : 1 ≤ O) : scheduleOrder O = List.range O := by
  unfold scheduleOrder
  have hlen : ((List.range O).map (fun o => [o])).length = O := by simp
  have h := mergeSchedule_covers mrgSym (fun lo hi l => lo ≤ hi ∧ l = List.range' lo (hi - lo))
    (by
      rintro lo mid hi x y ⟨h1, rfl⟩ ⟨h2, rfl⟩
      refine ⟨by omega, ?_⟩
      simp only [mrgSym, if_true]
      have e : lo + (mid - lo) = mid := by omega
      have := @List.range'_append_1 lo (mid - lo) (hi - mid)
      rw [e] at this
      rw [this]; congr 1; omega)
    (by
      rintro lo mid hi x y ⟨h1, rfl⟩ ⟨h2, rfl⟩
      refine ⟨by omega, ?_⟩
      simp only [mrgSym, Bool.false_eq_true, if_false]
      have e : lo + (mid - lo) = mid := by omega
      have := @List.range'_append_1 lo (mid - lo) (hi - mid)
      rw [e] at this
      rw [this]; congr 1; omega)
    ((List.range O).map (fun o => [o])) (by rw [hlen]; exact hO)
    (by
      intro o ho
      rw [hlen] at ho
      refine ⟨by omega, ?_⟩
      rw [List.getD_eq_getElem?_getD]
      simp [ho])
  rw [hlen] at h
  rw [h.2, List.range_eq_range']
  simp

end AITB.Plan
