/-
  AITB.Props.C06 — "Model objects always describe a valid (PO)MDP".
  Theorems about the executable model AITB.Model.ModelState / AITB.Model.Guard, whose guard
  conditions, statement order facts and tolerances are regenerated from the library source
  (AITB.Gen.Guards, AITB.Gen.Constants) on every run.
-/
import Mathlib.Algebra.Order.Field.Rat
import Mathlib.Tactic.Linarith
import Mathlib.Tactic.NormNum
import Mathlib.Tactic.Ring
import AITB.Model.ModelState

set_option linter.unusedTactic false
set_option linter.unreachableTactic false
set_option linter.unusedVariables false
set_option linter.unusedSimpArgs false

namespace AITB.Guard
open AITB

/-- a legitimate discount: a finite number in (0,1] -/
def DiscOK (d : XRat) : Prop := ∃ q : Rat, d = .fin q ∧ 0 < q ∧ q ≤ 1

theorem cmp_eval_rep (c : Cmp) (lit : Rat) (h : lit = 0 ∨ lit = 1) (d : XRat) :
    c.eval d lit = c.eval (cls d).rep lit := by
  cases d with
  | nan => rfl
  | pinf => rfl
  | ninf => rfl
  | fin q =>
    rcases lt_trichotomy q 0 with h0 | h0 | h0
    · have hc : cls (.fin q) = .neg := by simp [cls, h0]
      rw [hc]; rcases h with rfl | rfl <;> cases c <;>
        simp [Cmp.eval, Cls.rep, XRat.lt, XRat.le, eqI] <;> first | linarith | (intro hh; linarith) | (constructor <;> intro hh <;> first | linarith | (exfalso; linarith) | (norm_num at hh))
    · subst h0
      have hc : cls (.fin 0) = .zero := by simp [cls]
      rw [hc]; rfl
    · have hn : ¬ q < 0 := not_lt.mpr (le_of_lt h0)
      have hz : ¬ q = 0 := ne_of_gt h0
      rcases lt_trichotomy q 1 with h1 | h1 | h1
      · have hc : cls (.fin q) = .mid := by simp [cls, hn, hz, h1]
        rw [hc]; rcases h with rfl | rfl <;> cases c <;>
          simp [Cmp.eval, Cls.rep, XRat.lt, XRat.le, eqI] <;> first | linarith | (intro hh; linarith) | (constructor <;> intro hh <;> first | linarith | (exfalso; linarith) | (norm_num at hh))
      · subst h1
        have hc : cls (.fin 1) = .one := by simp [cls]
        rw [hc]; rfl
      · have h1n : ¬ q < 1 := not_lt.mpr (le_of_lt h1)
        have h1e : ¬ q = 1 := ne_of_gt h1
        have hc : cls (.fin q) = .big := by simp [cls, hn, hz, h1n, h1e]
        rw [hc]; rcases h with rfl | rfl <;> cases c <;>
          simp [Cmp.eval, Cls.rep, XRat.lt, XRat.le, eqI] <;> first | linarith | (intro hh; linarith) | (constructor <;> intro hh <;> first | linarith | (exfalso; linarith) | (norm_num at hh))

theorem eval_rep (g : GExpr) (h : g.litsIn01 = true) (d : XRat) : g.eval d = g.eval (cls d).rep := by
  induction g with
  | cmp c lit =>
      simp only [GExpr.litsIn01, Bool.or_eq_true, decide_eq_true_eq] at h
      exact cmp_eval_rep c lit h d
  | or a b iha ihb =>
      simp only [GExpr.litsIn01, Bool.and_eq_true] at h
      simp only [GExpr.eval, iha h.1, ihb h.2]
  | and a b iha ihb =>
      simp only [GExpr.litsIn01, Bool.and_eq_true] at h
      simp only [GExpr.eval, iha h.1, ihb h.2]
  | not a iha =>
      simp only [GExpr.litsIn01] at h
      simp only [GExpr.eval, iha h]

theorem cls_inUnit (d : XRat) (h : (cls d).inUnit = true) : DiscOK d := by
  cases d with
  | nan => simp [cls, Cls.inUnit] at h
  | pinf => simp [cls, Cls.inUnit] at h
  | ninf => simp [cls, Cls.inUnit] at h
  | fin q =>
    refine ⟨q, rfl, ?_⟩
    simp only [cls] at h
    split_ifs at h with h1 h2 h3 h4 <;> simp [Cls.inUnit] at h
    · exact ⟨lt_of_le_of_ne (not_lt.mp h1) (Ne.symm h2), le_of_lt h3⟩
    · subst h4; exact ⟨by norm_num, le_refl _⟩

theorem inUnit_of_DiscOK (d : XRat) (h : DiscOK d) : (cls d).inUnit = true := by
  obtain ⟨q, rfl, h0, h1⟩ := h
  have hn : ¬ q < 0 := not_lt.mpr (le_of_lt h0)
  have hz : ¬ q = 0 := ne_of_gt h0
  simp only [cls, hn, hz, if_false]
  split_ifs <;> first | rfl | (exfalso; rcases lt_or_eq_of_le h1 with h | h <;> contradiction)

theorem mem_all (c : Cls) : c ∈ Cls.all := by cases c <;> simp [Cls.all]

/-- **Guard soundness (full strength).** If the decision procedure accepts the guard, then whatever the guard
    lets through — among ALL doubles, nan and ±inf included — is a number in (0,1]. -/
theorem discountOK_sound (g : GExpr) (h : g.discountOK = true) (d : XRat) (hd : g.eval d = false) : DiscOK d := by
  simp only [GExpr.discountOK, Bool.and_eq_true, List.all_eq_true] at h
  have := h.2 (cls d) (mem_all _)
  rw [← eval_rep g h.1 d, hd] at this
  exact cls_inUnit d (by simpa using this)

/-- the same for every double except nan (what holds of the guard `d <= 0.0 || d > 1.0`) -/
theorem discountOKfinite_sound (g : GExpr) (h : g.discountOKfinite = true) (d : XRat) (hn : d ≠ .nan)
    (hd : g.eval d = false) : DiscOK d := by
  simp only [GExpr.discountOKfinite, Bool.and_eq_true, List.all_eq_true] at h
  have := h.2 (cls d) (mem_all _)
  rw [← eval_rep g h.1 d, hd] at this
  have hc : (cls d == Cls.nan) = false := by
    cases d with
    | nan => exact absurd rfl hn
    | pinf => rfl
    | ninf => rfl
    | fin q => simp only [cls]; split_ifs <;> rfl
  rw [hc] at this
  exact cls_inUnit d (by simpa using this)

/-- **Guard completeness.** A guard that passes `discountComplete` rejects no legitimate discount. -/
theorem discountComplete_sound (g : GExpr) (h : g.discountComplete = true) (d : XRat) (hd : DiscOK d) : g.eval d = false := by
  simp only [GExpr.discountComplete, Bool.and_eq_true, List.all_eq_true] at h
  have := h.2 (cls d) (mem_all _)
  rw [inUnit_of_DiscOK d hd, ← eval_rep g h.1 d] at this
  simpa using this

/-- **General characterisation of every 0/1-literal guard**: the doubles it lets through are exactly those whose order
    class (nan, −inf, <0, 0, (0,1), 1, >1, +inf) is in the finite list `acceptedClasses g` computed by evaluation at the
    eight representatives.  Applies to all numeric guards of the library (`all_guards_litsIn01`). -/
theorem guard_accepts_iff (g : GExpr) (h : g.litsIn01 = true) (d : XRat) :
    g.eval d = false ↔ cls d ∈ g.acceptedClasses := by
  rw [eval_rep g h d]
  simp [GExpr.acceptedClasses, mem_all]

end AITB.Guard

namespace AITB.MS
open AITB AITB.Guard

/-- the guarded `setDiscount` definitions of the library (14 on the tree this was written against) -/
def discountSites : List Site := AITB.Gen.Guards.sites.filter (fun s => s.fn == "setDiscount")

/-- does every one of them reject nan?  (closed Boolean term over the generated table) -/
def nanRejectedEverywhere : Bool := discountSites.all (fun s => s.g.eval .nan)

/-- OBLIGATION over the generated table (re-checked whenever a guard in the source changes):
    every setDiscount guard, nan aside, lets through exactly the interval (0,1]. -/
theorem discount_guard_table_ok :
    discountSites.all (fun s => s.g.discountOKfinite && s.g.discountComplete) = true := by decide +kernel

/-- OBLIGATION over the generated table: every translated guard of the library compares with 0 or 1 only, so the
    eight-class analysis (`guard_accepts_iff`) decides each of them -/
theorem all_guards_litsIn01 : AITB.Gen.Guards.sites.all (fun s => s.g.litsIn01) = true := by decide +kernel

/-- observation recorded for the other properties that read this table: how many guards let nan through -/
def nanAcceptingSites : List Site := AITB.Gen.Guards.sites.filter (fun s => !(s.g.eval .nan))

theorem mem_discountSites {s : Site} (hs : s ∈ discountSites) :
    s.g.discountOKfinite = true ∧ s.g.discountComplete = true := by
  have h := discount_guard_table_ok
  rw [List.all_eq_true] at h
  have := h s hs
  simpa [Bool.and_eq_true] using this

/-- `Guards.*`, the part that holds on the code as it is: what any `X::setDiscount` guard lets through, other than
    nan, is a number in (0,1].
    FULL STATEMENT (see `discount_guards_sound_of`): the same without `d ≠ nan`. -/
theorem discount_guards_partial (s : Site) (hs : s ∈ discountSites) (d : XRat) (hn : d ≠ .nan)
    (hd : s.g.eval d = false) : DiscOK d :=
  discountOKfinite_sound s.g (mem_discountSites hs).1 d hn hd

/-- no guard rejects a legitimate discount -/
theorem discount_guards_complete (s : Site) (hs : s ∈ discountSites) (d : XRat) (hd : DiscOK d) :
    s.g.eval d = false :=
  discountComplete_sound s.g (mem_discountSites hs).2 d hd

/-- `Guards.*` at full strength: for EVERY double d (nan, ±inf included), `¬ rejects d → 0 < d ∧ d ≤ 1`, for every
    setDiscount sibling — provided each guard rejects nan (`nanRejectedEverywhere` is a closed term over the
    generated table: it is `true` exactly when the source has the `!(d > 0.0 && d <= 1.0)` form everywhere). -/
theorem discount_guards_sound_of (h : nanRejectedEverywhere = true) (s : Site) (hs : s ∈ discountSites) (d : XRat)
    (hd : s.g.eval d = false) : DiscOK d := by
  by_cases hn : d = .nan
  · subst hn
    simp only [nanRejectedEverywhere, List.all_eq_true] at h
    have := h s hs
    rw [hd] at this; exact absurd this (by simp)
  · exact discount_guards_partial s hs d hn hd

/-- hypotheses are satisfiable: 1/2 passes the guard of MDP::Model::setDiscount, 0 and 2 and -inf do not (test on literals) -/
example : (discGuard .dense).eval (.fin (1/2)) = false ∧ (discGuard .dense).eval (.fin 0) = true ∧
    (discGuard .dense).eval (.fin 2) = true ∧ (discGuard .sparse).eval .ninf = true := by decide +kernel

/-! ## sums over XRat -/

theorem xadd_eq_fin {x y : XRat} {c : Rat} (h : xadd x y = .fin c) : ∃ a b, x = .fin a ∧ y = .fin b ∧ c = a + b := by
  cases x <;> cases y <;> simp [xadd] at h
  exact ⟨_, _, rfl, rfl, h.symm⟩

theorem foldl_xadd_fin (qs : List Rat) (acc : Rat) :
    (qs.map XRat.fin).foldl xadd (.fin acc) = .fin (acc + sumQ qs) := by
  induction qs generalizing acc with
  | nil => simp [sumQ]
  | cons q r ih => simp only [List.map, List.foldl, xadd, ih, sumQ]; congr 1; ring

theorem sumX_fin (qs : List Rat) : sumX (qs.map .fin) = .fin (sumQ qs) := by
  simp [sumX, foldl_xadd_fin]

theorem foldl_xadd_eq_fin (l : List XRat) (acc : XRat) (q : Rat) (h : l.foldl xadd acc = .fin q) :
    ∃ a qs, acc = .fin a ∧ l = qs.map .fin ∧ q = a + sumQ qs := by
  induction l generalizing acc with
  | nil => exact ⟨q, [], h, rfl, by simp [sumQ]⟩
  | cons v r ih =>
      obtain ⟨a', qs, ha, hr, hq⟩ := ih (xadd acc v) h
      obtain ⟨a, b, hacc, hv, hab⟩ := xadd_eq_fin ha
      exact ⟨a, b :: qs, hacc, by simp [hv, hr], by simp only [sumQ]; rw [hq, hab]; ring⟩

/-- a row sums to a finite value exactly when every entry is finite (nan and ±inf are absorbing) -/
theorem sumX_eq_fin (l : List XRat) (q : Rat) (h : sumX l = .fin q) : ∃ qs, l = qs.map .fin ∧ q = sumQ qs := by
  obtain ⟨a, qs, ha, hl, hq⟩ := foldl_xadd_eq_fin l (.fin 0) q h
  cases ha
  exact ⟨qs, hl, by simpa using hq⟩

theorem eqSmall_one_iff (x : XRat) :
    eqSmall x (.fin 1) = true ↔ ∃ s, x = .fin s ∧ -tol ≤ s - 1 ∧ s - 1 ≤ tol := by
  cases x with
  | nan => simp [eqSmall, xsub, xneg, xadd, xabs, XRat.le]
  | pinf => simp [eqSmall, xsub, xneg, xadd, xabs, XRat.le]
  | ninf => simp [eqSmall, xsub, xneg, xadd, xabs, XRat.le]
  | fin s =>
      simp only [eqSmall, xsub, xneg, xadd, xabs, XRat.le, decide_eq_true_eq]
      constructor
      · intro h
        refine ⟨s, rfl, ?_⟩
        split_ifs at h with hneg <;> constructor <;> linarith
      · rintro ⟨s', hs', h1, h2⟩
        cases hs'
        split_ifs with hneg <;> linarith

/-- a row of finite numbers `qs`, each at least `lo`, summing to within `slack` of one -/
def RowDist (lo slack : Rat) (row : List XRat) : Prop :=
  ∃ qs : List Rat, row = qs.map .fin ∧ (∀ q ∈ qs, lo ≤ q) ∧ -slack ≤ sumQ qs - 1 ∧ sumQ qs - 1 ≤ slack

theorem isProbLoopAux_eq (row : List XRat) (p : XRat) :
    isProbLoopAux row p = if anyNeg row then none else some (row.foldl xadd p) := by
  induction row generalizing p with
  | nil => simp [isProbLoopAux, anyNeg]
  | cons v r ih =>
      simp only [isProbLoopAux, anyNeg, List.any_cons, List.foldl]
      by_cases hv : XRat.lt v (.fin 0) = true
      · simp [hv]
      · simp only [hv, Bool.false_or, if_false]
        have := ih (xadd p v)
        simpa [anyNeg] using this

/-- the dense-row implementation (`minCoeff() < 0 || sum != 1`) and the template loop compute the same predicate -/
theorem isProbDense_eq_loop (row : List XRat) : isProbDense row = isProbLoop row := by
  simp only [isProbDense, isProbLoop, isProbLoopAux_eq, sumX]
  by_cases h : anyNeg row = true
  · simp [h]
  · simp [h]

theorem anyNeg_fin (qs : List Rat) : anyNeg (qs.map .fin) = false ↔ ∀ q ∈ qs, 0 ≤ q := by
  simp [anyNeg, XRat.lt]

/-- **isProbability (template loop / dense row) decides exactly "finite, non-negative, sums to one within the tolerance"**,
    for every row of doubles including nan and ±inf entries. -/
theorem isProbLoop_iff (row : List XRat) : isProbLoop row = true ↔ RowDist 0 tol row := by
  rw [← isProbDense_eq_loop]
  simp only [isProbDense, Bool.not_eq_true', Bool.or_eq_false_iff, diffSmall, Bool.not_eq_false']
  constructor
  · rintro ⟨hneg, hsum⟩
    obtain ⟨s, hs, h1, h2⟩ := (eqSmall_one_iff _).1 hsum
    obtain ⟨qs, hrow, hq⟩ := sumX_eq_fin row s hs
    subst hrow
    exact ⟨qs, rfl, (anyNeg_fin qs).1 hneg, by rw [← hq]; exact h1, by rw [← hq]; exact h2⟩
  · rintro ⟨qs, hrow, hge, h1, h2⟩
    subst hrow
    exact ⟨(anyNeg_fin qs).2 hge, (eqSmall_one_iff _).2 ⟨sumQ qs, sumX_fin qs, h1, h2⟩⟩

theorem isProbDense_iff (row : List XRat) : isProbDense row = true ↔ RowDist 0 tol row := by
  rw [isProbDense_eq_loop]; exact isProbLoop_iff row

example : isProbLoop [.fin (1/4), .fin (3/4)] = true ∧ isProbLoop [.fin (1/2), .nan] = false ∧
    isProbDense [.pinf, .ninf] = false ∧ isProbSparse [.fin (3/2), .fin (-1/2)] = false ∧
    isProbSparseAbs [.fin (3/2), .fin (-1/2)] = false := by decide +kernel

/-! ## storage threshold of the sparse classes -/

theorem tol_pos : 0 < tol := by unfold tol AITB.Gen.equalToleranceSmall; norm_num

/-- what `if ( checkDifferentSmall(0.0, p) ) insert(p)` keeps of a finite p -/
def spQ (q : Rat) : Rat := if (if 0 + -q < 0 then -(0 + -q) else 0 + -q) ≤ tol then 0 else q

theorem sparsify_fin (q : Rat) : sparsify (.fin q) = .fin (spQ q) := by
  have key : diffSmall (.fin 0) (.fin q) = !decide ((if 0 + -q < 0 then -(0 + -q) else 0 + -q) ≤ tol) := rfl
  unfold sparsify spQ
  rw [key]
  by_cases h : (if 0 + -q < 0 then -(0 + -q) else 0 + -q) ≤ tol
  · rw [if_pos h, decide_eq_true h]; rfl
  · rw [if_neg h, decide_eq_false h]; rfl

theorem spQ_bounds {q : Rat} (h : 0 ≤ q) : 0 ≤ spQ q ∧ spQ q ≤ q ∧ q - spQ q ≤ tol := by
  unfold spQ
  have ht := tol_pos
  split_ifs with h1 h2 h2 <;> refine ⟨?_, ?_, ?_⟩ <;> linarith

/-- entries that survive the threshold differ from the supplied ones by at most the tolerance, whatever their sign -/
theorem spQ_close (q : Rat) : -tol ≤ q - spQ q ∧ q - spQ q ≤ tol := by
  unfold spQ
  have ht := tol_pos
  split_ifs with h1 h2 h2 <;> constructor <;> linarith

theorem sumQ_spQ (qs : List Rat) (h : ∀ q ∈ qs, 0 ≤ q) :
    sumQ qs - tol * qs.length ≤ sumQ (qs.map spQ) ∧ sumQ (qs.map spQ) ≤ sumQ qs := by
  induction qs with
  | nil => simp [sumQ]
  | cons q r ih =>
      have hq := spQ_bounds (h q (by simp))
      have hr := ih (fun x hx => h x (by simp [hx]))
      simp only [List.map, sumQ, List.length_cons, Nat.cast_succ]
      constructor <;> nlinarith [hq.1, hq.2.1, hq.2.2, hr.1, hr.2]

/-- strict row validity (dense classes): finite, non-negative, sum within the tolerance of one -/
def RowS (row : List XRat) : Prop := RowDist 0 tol row
/-- row validity of the sparse classes: finite, entries ≥ -tol, sum within (1 + length)·tol of one -/
def RowW (row : List XRat) : Prop := RowDist (-tol) (tol * (1 + row.length)) row

theorem RowS.toW {row : List XRat} (h : RowS row) : RowW row := by
  obtain ⟨qs, hrow, hge, h1, h2⟩ := h
  have ht := tol_pos
  have hl : (0 : Rat) ≤ (row.length : Rat) := Nat.cast_nonneg _
  refine ⟨qs, hrow, fun q hq => by have := hge q hq; linarith, ?_, ?_⟩ <;> nlinarith

/-- **Sparse storage keeps rows normalised up to length·tolerance**: a row accepted by the template test, stored
    through the threshold, has non-negative entries and a sum within (1+n)·1e-6 of one. -/
theorem sparsified_row (row : List XRat) (h : RowS row) : RowW (row.map sparsify) := by
  obtain ⟨qs, hrow, hge, h1, h2⟩ := h
  subst hrow
  have hs := sumQ_spQ qs hge
  have ht := tol_pos
  refine ⟨qs.map spQ, by simp [List.map_map, Function.comp_def, sparsify_fin], ?_, ?_, ?_⟩
  · intro q hq
    obtain ⟨q0, hq0, rfl⟩ := List.mem_map.1 hq
    have := (spQ_bounds (hge q0 hq0)).1
    linarith
  · simp only [List.length_map]; nlinarith [hs.1, hs.2]
  · simp only [List.length_map]
    have hl : (0 : Rat) ≤ (qs.length : Rat) := Nat.cast_nonneg _
    nlinarith [hs.1, hs.2]

/-- the bound of `sparsified_row` is attained up to the last term: [1-2.7e-6, 9e-7, 9e-7, 9e-7] is accepted by the
    template test and stored as a row whose sum is 2.7e-6 short of one — a row the library's own
    isProbability(SparseMatrix2D) rejects (test on literals) -/
example : isProbLoop [.fin (1 - 27/10000000), .fin (9/10000000), .fin (9/10000000), .fin (9/10000000)] = true ∧
    isProbSparse ([XRat.fin (1 - 27/10000000), .fin (9/10000000), .fin (9/10000000), .fin (9/10000000)].map sparsify) = false := by
  decide +kernel

theorem xabs_fin (q : Rat) : xabs (.fin q) = .fin (if q < 0 then -q else q) := rfl

theorem sumQ_abs_sub (qs : List Rat) (q : Rat) (hq : q ∈ qs) :
    (if q < 0 then -q else q) - q ≤ sumQ (qs.map fun x => if x < 0 then -x else x) - sumQ qs := by
  induction qs with
  | nil => cases hq
  | cons x r ih =>
      have hnn : ∀ l : List Rat, 0 ≤ sumQ (l.map fun x => if x < 0 then -x else x) - sumQ l := by
        intro l
        induction l with
        | nil => simp [sumQ]
        | cons y t iht => simp only [List.map, sumQ]; split_ifs with hy <;> linarith
      simp only [List.map, sumQ]
      rcases List.mem_cons.1 hq with rfl | hmem
      · have := hnn r; linarith
      · have := ih hmem
        have hx : 0 ≤ (if x < 0 then -x else x) - x := by split_ifs with hx <;> linarith
        linarith

/-- AS-FOUND FORM (sum and |.|-sum): **sound only up to the tolerance**: an accepted row is finite, has entries ≥ -tol
    and sums to one within the tolerance.  (NOT as strict as the dense test: [1+4e-7, -4e-7] is accepted, see
    `isProbSparseAbs_accepts_negative`; that witness belongs to this form only.) -/
theorem isProbSparseAbs_sound (row : List XRat) (h : isProbSparseAbs row = true) : RowDist (-tol) tol row := by
  simp only [isProbSparseAbs, Bool.not_eq_true', Bool.or_eq_false_iff, diffSmall, Bool.not_eq_false'] at h
  obtain ⟨s, hs, h1, h2⟩ := (eqSmall_one_iff _).1 h.1
  obtain ⟨qs, hrow, hq⟩ := sumX_eq_fin row s hs
  subst hrow
  have habs : (qs.map XRat.fin).map xabs = (qs.map fun x => if x < 0 then -x else x).map XRat.fin := by
    simp [List.map_map, Function.comp_def, xabs_fin]
  rw [habs] at h
  obtain ⟨s', hs', h1', h2'⟩ := (eqSmall_one_iff _).1 h.2
  rw [sumX_fin] at hs'
  cases hs'
  refine ⟨qs, rfl, ?_, by rw [← hq]; exact h1, by rw [← hq]; exact h2⟩
  intro q hmem
  have := sumQ_abs_sub qs q hmem
  split_ifs at this with hneg
  · rw [← hq] at this; linarith
  · have ht := tol_pos; linarith [not_lt.1 hneg]

/-- the as-found sparse test accepts a row with a negative entry that the dense test rejects — and the repaired one
    (sign test on the stored values) rejects it too -/
theorem isProbSparseAbs_accepts_negative :
    isProbSparseAbs [.fin (1 + 4/10000000), .fin (-4/10000000)] = true ∧
    isProbDense [.fin (1 + 4/10000000), .fin (-4/10000000)] = false ∧
    isProbSparseSign [.fin (1 + 4/10000000), .fin (-4/10000000)] = false := by decide +kernel

/-- REPAIRED FORM (fixes/C05-2): the sparse test IS the dense test, row by row … -/
theorem isProbSparseSign_eq_dense (row : List XRat) : isProbSparseSign row = isProbDense row := rfl

/-- … hence **exact**: it accepts precisely the rows that are finite, non-negative and sum to one within the tolerance -/
theorem isProbSparseSign_iff (row : List XRat) : isProbSparseSign row = true ↔ RowDist 0 tol row :=
  isProbDense_iff row

/-- whichever of the two forms the source has: an accepted row is finite, ≥ -tol, sums to one within the tolerance -/
theorem isProbSparse_sound (row : List XRat) (h : isProbSparse row = true) : RowDist (-tol) tol row := by
  unfold isProbSparse at h
  split_ifs at h
  · obtain ⟨qs, hq, hge, h1, h2⟩ := (isProbSparseSign_iff row).1 h
    exact ⟨qs, hq, fun q hq' => by have := hge q hq'; have := tol_pos; linarith, h1, h2⟩
  · exact isProbSparseAbs_sound row h

/-! ## the setter state machine: validate-then-commit -/

theorem exec_setter_true (ok : St → Bool) (f : St → St) (s : St) :
    exec (setter true ok f) s = if ok s then (f s, false) else (s, true) := by
  simp only [setter, if_true, exec]

theorem exec_setter_false (ok : St → Bool) (f : St → St) (s : St) :
    exec (setter false ok f) s = (f s, !(ok (f s))) := by
  show exec [.assign f, .check ok] s = _
  simp only [exec]
  by_cases h : ok (f s) = true <;> simp [h]

/-- the ten order facts, unpacked -/
theorem vf_unpack (h : allValidateFirst = true) :
    (∀ r, vfDiscount r = true) ∧ (∀ r, vfT3D r = true) ∧ (∀ r, vfTEigen r = true) ∧ (∀ r, vfO3D r = true) ∧ (∀ r, vfOEigen r = true) := by
  simp only [allValidateFirst, Bool.and_eq_true] at h
  obtain ⟨⟨⟨⟨⟨⟨⟨⟨⟨h1, h2⟩, h3⟩, h4⟩, h5⟩, h6⟩, h7⟩, h8⟩, h9⟩, h10⟩ := h
  refine ⟨?_, ?_, ?_, ?_, ?_⟩ <;> intro r <;> cases r <;> assumption

/-- **A rejected call leaves the object unchanged** — for every class, every setter, every argument (nan, inf,
    malformed tables …) and every prior state, valid or not.  Hypothesis: in the source every `throw` of every
    setter precedes its first write (`allValidateFirst`, recomputed from the source text on every run). -/
theorem step_rejected_unchanged (h : allValidateFirst = true) (k : Kind) (s : St) (op : Op)
    (hr : (step k s op).2 = true) : (step k s op).1 = s := by
  obtain ⟨hd, ht3, hte, ho3, hoe⟩ := vf_unpack h
  cases op <;> simp only [step, prog, hd, ht3, hte, ho3, hoe, exec_setter_true, exec] at hr ⊢ <;>
    first
    | (split at hr <;> simp_all)
    | simp at hr

/-- … and the converse reading of the order facts: were a setter to write before validating, a rejected call WOULD
    change the object (so the hypothesis of `step_rejected_unchanged` is not decoration). -/
theorem commit_before_validate_is_observable (ok : St → Bool) (f : St → St) (s : St)
    (hbad : ok (f s) = false) (hchg : f s ≠ s) :
    (exec (setter false ok f) s).2 = true ∧ (exec (setter false ok f) s).1 ≠ s := by
  rw [exec_setter_false]; simp [hbad, hchg]

/-- over whole histories: a call that threw can be deleted from the history without changing what follows -/
theorem run_rejected_noop (h : allValidateFirst = true) (k : Kind) (s : St) (op : Op) (rest : List Op)
    (hr : (step k s op).2 = true) : run k s (op :: rest) = run k s rest := by
  simp only [run, step_rejected_unchanged h k s op hr]

/-! ## validity -/

def RowsOK (P : List XRat → Prop) (t : Tab3) : Prop := ∀ m ∈ t, ∀ row ∈ m, P row

/-- the row predicate each representation guarantees -/
def rowP : Rep → List XRat → Prop
  | .dense => RowS
  | .sparse => RowW

/-- "the object describes a valid (PO)MDP": discount in (0,1], every transition and observation row a distribution
    (strict for dense storage, up to the storage threshold for sparse storage) -/
structure Valid (k : Kind) (s : St) : Prop where
  disc : DiscOK s.disc
  T : RowsOK (rowP k.base) s.T
  Om : RowsOK (rowP k.obs) s.Om

theorem rowsOK_mk3 (P : List XRat → Prop) (X Y Z : Nat) (f : Nat → Nat → Nat → XRat)
    (h : ∀ x < X, ∀ y < Y, P ((List.range Z).map (f x y))) : RowsOK P (mk3 X Y Z f) := by
  intro m hm row hrow
  simp only [mk3, List.mem_map, List.mem_range] at hm
  obtain ⟨x, hx, rfl⟩ := hm
  simp only [List.mem_map, List.mem_range] at hrow
  obtain ⟨y, hy, rfl⟩ := hrow
  exact h x hx y hy

theorem check3D_iff (X Y n : Nat) (t : Tab3) :
    check3D X Y n t = true ↔ ∀ x < X, ∀ y < Y, isProbLoop (rowOf t x y n) = true := by
  simp [check3D, List.all_eq_true]

theorem stored_row (r : Rep) (row : List XRat) (h : isProbLoop row = true) : rowP r (row.map (storeP r)) := by
  have hs : RowS row := (isProbLoop_iff row).1 h
  cases r with
  | dense =>
      have : storeP Rep.dense = id := by funext p; rfl
      simpa [rowP, this] using hs
  | sparse => exact sparsified_row row hs

theorem eigen_rows (r : Rep) (t : Tab3) (h : checkEigen r t = true) : RowsOK (rowP r) t := by
  intro m hm row hrow
  simp only [checkEigen, List.all_eq_true] at h
  have := h m hm row hrow
  cases r with
  | dense => exact (isProbDense_iff row).1 this
  | sparse =>
      obtain ⟨qs, hq, hge, h1, h2⟩ := isProbSparse_sound row this
      have ht := tol_pos
      have hl : (0 : Rat) ≤ (row.length : Rat) := Nat.cast_nonneg _
      refine ⟨qs, hq, hge, ?_, ?_⟩ <;> nlinarith

/-- what the discount guard of the two MDP classes lets through (nan aside) is a discount: from the generated table -/
theorem discGuard_ok (r : Rep) : (discGuard r).discountOKfinite = true ∧ (discGuard r).discountComplete = true := by
  cases r <;> decide +kernel

/-- both `MDP::Model::setDiscount` and `MDP::SparseModel::setDiscount` reject nan (closed term over the generated table) -/
def discNanSafe : Bool := (discGuard .dense).eval .nan && (discGuard .sparse).eval .nan

/-- common core of `step_valid_of` / `step_valid_partial` -/
theorem step_valid_core (h : allValidateFirst = true) (k : Kind) (s : St) (op : Op) (hv : Valid k s)
    (hd : ∀ d, op = .setDiscount d → (discGuard k.base).eval d = false → DiscOK d) :
    Valid k (step k s op).1 := by
  obtain ⟨hvd, ht3, hte, ho3, hoe⟩ := vf_unpack h
  cases op with
  | setDiscount d =>
      simp only [step, prog, hvd, exec_setter_true]
      by_cases hg : (discGuard k.base).eval d = true
      · simpa [hg] using hv
      · have hg' : (discGuard k.base).eval d = false := by simpa using hg
        simp only [hg', Bool.not_false, if_true]
        exact ⟨hd d rfl hg', hv.T, hv.Om⟩
  | setT3D t =>
      simp only [step, prog, ht3, exec_setter_true]
      by_cases hc' : okT3D k.base s t = true
      · have hc : check3D s.S s.A s.S t = true := by
          simp only [okT3D, Bool.and_eq_true] at hc'; exact hc'.1
        simp only [hc', if_true]
        refine ⟨hv.disc, ?_, hv.Om⟩
        apply rowsOK_mk3
        intro a ha x hx
        have := (check3D_iff _ _ _ _).1 hc x hx a ha
        have hst := stored_row k.base _ this
        simpa [rowOf, List.map_map, Function.comp_def] using hst
      · simpa [hc'] using hv
  | setTEigen t =>
      simp only [step, prog, hte, exec_setter_true]
      by_cases hc : checkEigen k.base t = true
      · simp only [hc, if_true]; exact ⟨hv.disc, eigen_rows _ _ hc, hv.Om⟩
      · simpa [hc] using hv
  | setR3D r => simp only [step, prog, exec]; exact ⟨hv.disc, hv.T, hv.Om⟩
  | setREigen r => simp only [step, prog, exec]; exact ⟨hv.disc, hv.T, hv.Om⟩
  | setO3D o =>
      simp only [step, prog, ho3, exec_setter_true]
      by_cases hc' : okO3D k.obs s o = true
      · have hc : check3D s.S s.A s.O o = true := by
          simp only [okO3D, Bool.and_eq_true] at hc'; exact hc'.1
        simp only [hc', if_true]
        refine ⟨hv.disc, hv.T, ?_⟩
        apply rowsOK_mk3
        intro a ha x hx
        have := (check3D_iff _ _ _ _).1 hc x hx a ha
        have hst := stored_row k.obs _ this
        simpa [rowOf, List.map_map, Function.comp_def] using hst
      · simpa [hc'] using hv
  | setOEigen o =>
      simp only [step, prog, hoe, exec_setter_true]
      by_cases hc : checkEigen k.obs o = true
      · simp only [hc, if_true]; exact ⟨hv.disc, hv.T, eigen_rows _ _ hc⟩
      · simpa [hc] using hv

/-- **step_valid_of (full strength)**: a valid object stays valid under EVERY call of EVERY setter with ANY argument,
    accepted or rejected — provided the setDiscount guards reject nan (`discNanSafe`, a closed term over the
    generated guard table; `false` on the tree as first read). -/
theorem step_valid_of (h : allValidateFirst = true) (hn : discNanSafe = true) (k : Kind) (s : St) (op : Op)
    (hv : Valid k s) : Valid k (step k s op).1 := by
  apply step_valid_core h k s op hv
  intro d _ hg
  by_cases hnan : d = .nan
  · subst hnan
    simp only [discNanSafe, Bool.and_eq_true] at hn
    cases hk : k.base <;> rw [hk] at hg <;> simp_all
  · exact discountOKfinite_sound _ (discGuard_ok k.base).1 d hnan hg

/-- **step_valid_partial** (what holds of the code as first read): the same for every call except `setDiscount(nan)`. -/
theorem step_valid_partial (h : allValidateFirst = true) (k : Kind) (s : St) (op : Op)
    (hop : op ≠ .setDiscount .nan) (hv : Valid k s) : Valid k (step k s op).1 := by
  apply step_valid_core h k s op hv
  intro d hd hg
  have hnan : d ≠ .nan := by rintro rfl; exact hop hd
  exact discountOKfinite_sound _ (discGuard_ok k.base).1 d hnan hg

/-- the excluded call really breaks validity when the guard lets nan through: after `setDiscount(nan)` the discount
    is nan, for every object and class -/
theorem setDiscount_nan_counterexample (h : allValidateFirst = true) (k : Kind) (s : St)
    (hn : (discGuard k.base).eval .nan = false) : ¬ Valid k (step k s (.setDiscount .nan)).1 := by
  obtain ⟨hvd, _⟩ := vf_unpack h
  intro hv
  have := hv.disc
  simp only [step, prog, hvd, exec_setter_true, hn, Bool.not_false, if_true] at this
  obtain ⟨q, hq, _⟩ := this
  cases hq

/-- **histories**: validity is an invariant of every sequence of calls, failing ones included -/
theorem run_valid_of (h : allValidateFirst = true) (hn : discNanSafe = true) (k : Kind) (ops : List Op) (s : St)
    (hv : Valid k s) : Valid k (run k s ops) := by
  induction ops generalizing s with
  | nil => exact hv
  | cons op r ih => exact ih _ (step_valid_of h hn k s op hv)

theorem run_valid_partial (h : allValidateFirst = true) (k : Kind) (ops : List Op) (s : St)
    (hops : ∀ op ∈ ops, op ≠ .setDiscount .nan) (hv : Valid k s) : Valid k (run k s ops) := by
  induction ops generalizing s with
  | nil => exact hv
  | cons op r ih =>
      exact ih _ (fun o ho => hops o (by simp [ho])) (step_valid_partial h k s op (hops op (by simp)) hv)

/-! ## expected rewards -/

theorem getD_map_range {α} (n : Nat) (f : Nat → α) (i : Nat) (d : α) (h : i < n) :
    ((List.range n).map f).getD i d = f i := by
  simp [List.getD, h]

theorem get2_mk2 (X Y : Nat) (f : Nat → Nat → XRat) (x y : Nat) (hx : x < X) (hy : y < Y) :
    get2 (mk2 X Y f) x y = f x y := by
  simp only [get2, mk2]
  rw [getD_map_range X _ x [] hx, getD_map_range Y _ y _ hy]

theorem get3_mk3 (X Y Z : Nat) (f : Nat → Nat → Nat → XRat) (x y z : Nat) (hx : x < X) (hy : y < Y) (hz : z < Z) :
    get3 (mk3 X Y Z f) x y z = f x y z := by
  simp only [get3, mk3]
  rw [getD_map_range X _ x [] hx, getD_map_range Y _ y [] hy, getD_map_range Z _ z _ hz]

theorem foldl_reward_fin (l : List Nat) (f g : Nat → Rat) (acc : Rat) :
    l.foldl (fun acc i => xadd acc (xmul (.fin (f i)) (.fin (g i)))) (.fin acc)
      = .fin (acc + sumQ (l.map fun i => f i * g i)) := by
  induction l generalizing acc with
  | nil => simp [sumQ]
  | cons i r ih =>
      simp only [List.foldl, List.map, sumQ]
      have e : xadd (.fin acc) (xmul (.fin (f i)) (.fin (g i))) = .fin (acc + f i * g i) := rfl
      rw [e, ih]; congr 1; ring

/-- on finite tables the modelled accumulation loop is the expectation `Σ_{s1<S} r(s,a,s1)·T(s,a,s1)` -/
theorem expReward_fin (S : Nat) (r T : Tab3) (s a : Nat) (rq tq : Nat → Rat)
    (hr : ∀ s1 < S, get3 r s a s1 = .fin (rq s1)) (hT : ∀ s1 < S, get3 T a s s1 = .fin (tq s1)) :
    expReward S r T s a = .fin (sumQ ((List.range S).map fun s1 => rq s1 * tq s1)) := by
  unfold expReward
  have : ∀ l : List Nat, (∀ i ∈ l, i < S) → ∀ acc,
      l.foldl (fun acc s1 => xadd acc (xmul (get3 r s a s1) (get3 T a s s1))) acc
        = l.foldl (fun acc i => xadd acc (xmul (.fin (rq i)) (.fin (tq i)))) acc := by
    intro l hl
    induction l with
    | nil => intro acc; rfl
    | cons i t ih =>
        intro acc
        simp only [List.foldl]
        rw [hr i (hl i (by simp)), hT i (hl i (by simp))]
        exact ih (fun j hj => hl j (by simp [hj])) _
  rw [this _ (fun i hi => List.mem_range.1 hi), foldl_reward_fin]
  simp

/-- **rewards_are_expected**: after `setRewardFunction(r)` (3D container; never rejected) the exposed R(s,a) is the
    expectation of the supplied r under the object's CURRENT transition table — exactly for dense storage, and for
    sparse storage exactly unless its magnitude is at most the tolerance, in which case 0 is stored; T, Ω and the
    discount are untouched. -/
theorem rewards_are_expected (k : Kind) (s : St) (r : Tab3) (x a : Nat) (hx : x < s.S) (ha : a < s.A) :
    (step k s (.setR3D r)).2 = false ∧
    get2 (step k s (.setR3D r)).1.R x a = storeR k.base (expReward s.S r s.T x a) ∧
    (step k s (.setR3D r)).1.T = s.T ∧ (step k s (.setR3D r)).1.Om = s.Om ∧ (step k s (.setR3D r)).1.disc = s.disc := by
  simp only [step, prog, exec, get2_mk2 _ _ _ _ _ hx ha, and_self]

theorem storeR_close (q : Rat) : ∃ q', storeR .sparse (.fin q) = .fin q' ∧ -tol ≤ q - q' ∧ q - q' ≤ tol := by
  have e : storeR .sparse (.fin q) =
      if (!decide ((if q + -0 < 0 then -(q + -0) else q + -0) ≤ tol)) = true then .fin q else .fin 0 := rfl
  rw [e]
  have ht := tol_pos
  by_cases h : (if q + -0 < 0 then -(q + -0) else q + -0) ≤ tol
  · rw [decide_eq_true h]
    refine ⟨0, rfl, ?_⟩
    split_ifs at h with hneg <;> constructor <;> linarith
  · rw [decide_eq_false h]
    exact ⟨q, rfl, by linarith, by linarith⟩

theorem setREigen_exact (k : Kind) (s : St) (r : Tab2) :
    (step k s (.setREigen r)).2 = false ∧ (step k s (.setREigen r)).1.R = r ∧ (step k s (.setREigen r)).1.T = s.T := by
  simp [step, prog, exec]

/-- accepted tables are the supplied ones: dense storage stores `t[s][a][s1]` at `T[a](s,s1)` exactly -/
theorem accepted_table_is_supplied (h : allValidateFirst = true) (k : Kind) (s : St) (t : Tab3)
    (hacc : (step k s (.setT3D t)).2 = false) (a x x1 : Nat) (ha : a < s.A) (hx : x < s.S) (hx1 : x1 < s.S) :
    get3 (step k s (.setT3D t)).1.T a x x1 = storeP k.base (get3 t x a x1) := by
  obtain ⟨_, ht3, _⟩ := vf_unpack h
  simp only [step, prog, ht3, exec_setter_true] at hacc ⊢
  by_cases hc : okT3D k.base s t = true
  · simp only [hc, if_true]; exact get3_mk3 _ _ _ _ _ _ _ ha hx hx1
  · simp [hc] at hacc

/-- … and every accepted row is a distribution (strict for dense storage, `RowW` for sparse storage) -/
theorem accepted_tables_are_distributions_of (h : allValidateFirst = true) (k : Kind) (s : St) (t : Tab3)
    (hacc : (step k s (.setT3D t)).2 = false) : RowsOK (rowP k.base) (step k s (.setT3D t)).1.T := by
  obtain ⟨_, ht3, _⟩ := vf_unpack h
  simp only [step, prog, ht3, exec_setter_true] at hacc ⊢
  by_cases hc' : okT3D k.base s t = true
  · have hc : check3D s.S s.A s.S t = true := by
      simp only [okT3D, Bool.and_eq_true] at hc'; exact hc'.1
    simp only [hc', if_true]
    apply rowsOK_mk3
    intro a ha x hx
    have := (check3D_iff _ _ _ _).1 hc x hx a ha
    have hst := stored_row k.base _ this
    simpa [rowOf, List.map_map, Function.comp_def] using hst
  · simp [hc'] at hacc

/-- when the source re-validates what it stores (`recheckT`, true after fix C06-5), an accepted sparse table has rows
    within the plain tolerance: the storage threshold can no longer push a row sum away from one -/
theorem sparse_rows_tight_when_rechecked (h : allValidateFirst = true) (hre : recheckT = true) (ko : Rep) (s : St) (t : Tab3)
    (hacc : (step ⟨.sparse, ko⟩ s (.setT3D t)).2 = false) :
    RowsOK (RowDist (-tol) tol) (step ⟨.sparse, ko⟩ s (.setT3D t)).1.T := by
  obtain ⟨_, ht3, _⟩ := vf_unpack h
  simp only [step, prog, ht3, exec_setter_true] at hacc ⊢
  by_cases hc' : okT3D .sparse s t = true
  · simp only [hc', if_true]
    simp only [okT3D, hre, Bool.not_true, Bool.false_or, Bool.and_eq_true] at hc'
    intro m hm row hrow
    have h2 := hc'.2
    simp only [checkEigen, List.all_eq_true] at h2
    exact isProbSparse_sound row (h2 m hm row hrow)
  · simp [hc'] at hacc

/-! ## constructors -/

theorem sumQ_append (a b : List Rat) : sumQ (a ++ b) = sumQ a + sumQ b := by
  induction a with
  | nil => simp [sumQ]
  | cons x r ih => simp only [List.cons_append, sumQ, ih]; ring

theorem sumQ_indicator (n i : Nat) :
    sumQ ((List.range n).map fun j => if j = i then (1 : Rat) else 0) = if i < n then 1 else 0 := by
  induction n with
  | zero => simp [sumQ]
  | succ n ih =>
      rw [List.range_succ, List.map_append, sumQ_append, ih]
      simp only [List.map, sumQ]
      by_cases h1 : i < n
      · have : n ≠ i := by omega
        have h2 : i < n + 1 := by omega
        simp [h1, h2, this]
      · by_cases h3 : n = i
        · subst h3; simp
        · have h2 : ¬ i < n + 1 := by omega
          simp [h1, h2, h3]

theorem identRow_ok (n i : Nat) (h : i < n) : RowS (identRow n i) := by
  refine ⟨(List.range n).map (fun j => if j = i then (1 : Rat) else 0), ?_, ?_, ?_, ?_⟩
  · simp only [identRow, List.map_map]
    apply List.map_congr_left
    intro j _; simp only [Function.comp]; split_ifs <;> rfl
  · intro q hq
    obtain ⟨j, _, rfl⟩ := List.mem_map.1 hq
    split_ifs <;> norm_num
  · rw [sumQ_indicator]; simp [h]; exact le_of_lt tol_pos
  · rw [sumQ_indicator]; simp [h]; exact le_of_lt tol_pos

theorem rowP_of_RowS (r : Rep) {row : List XRat} (h : RowS row) : rowP r row := by
  cases r with
  | dense => exact h
  | sparse => exact h.toW

/-- `Model(s, a, discount)` / `SparseModel(s, a, discount)`: when the constructor validates its discount (after fix
    C06-2; `ctorChecks` is read from the source) every object it returns is valid, for ALL sizes and discounts. -/
theorem ctorBasic_valid_of (k : Rep) (hc : ctorChecks k = true) (hn : discNanSafe = true) (S A : Nat) (d : XRat) (s : St)
    (h : ctorBasic k S A d = some s) : Valid ⟨k, k⟩ s := by
  simp only [ctorBasic, hc, Bool.true_and] at h
  by_cases hg : (discGuard k).eval d = true
  · simp [hg] at h
  · have hg' : (discGuard k).eval d = false := by simpa using hg
    simp only [hg', Bool.false_eq_true, if_false, Option.some.injEq] at h
    subst h
    refine ⟨?_, ?_, ?_⟩
    · show DiscOK d
      by_cases hnan : d = .nan
      · subst hnan
        simp only [discNanSafe, Bool.and_eq_true] at hn
        cases k <;> simp_all
      · exact discountOKfinite_sound _ (discGuard_ok k).1 d hnan hg'
    · intro m hm row hrow
      simp only [List.mem_map, List.mem_range] at hm
      obtain ⟨_, _, rfl⟩ := hm
      simp only [List.mem_map, List.mem_range] at hrow
      obtain ⟨x, hx, rfl⟩ := hrow
      exact rowP_of_RowS k (identRow_ok S x hx)
    · intro m hm; cases hm

/-- NO_CHECK constructors store what they are given: the object is valid exactly when the arguments are -/
theorem ctorNoCheck_valid_iff (k : Rep) (S A : Nat) (t : Tab3) (r : Tab2) (d : XRat) :
    Valid ⟨k, k⟩ (ctorNoCheck S A t r d) ↔ DiscOK d ∧ RowsOK (rowP k) t := by
  constructor
  · intro h; exact ⟨h.disc, h.T⟩
  · rintro ⟨h1, h2⟩; exact ⟨h1, h2, by intro m hm; cases hm⟩

/-! ## conversions between representations -/

/-- **convert_preserves (to dense)**: `MDP::Model(const M&)` from ANY source model seen through the generic interface.
    If it accepts: the discount is the source's, every transition entry is copied exactly, R(s,a) is the expectation
    of the source's reward under the copied row, and every row passed the probability test.  Otherwise no object. -/
theorem copyDense_preserves (m : Src) (s : St) (h : copyDense m = some s) :
    s.S = m.S ∧ s.A = m.A ∧ s.disc = m.disc ∧ (discGuard .dense).eval m.disc = false ∧
    (∀ a < m.A, ∀ x < m.S, ∀ x1 < m.S, get3 s.T a x x1 = get3 m.T x a x1) ∧
    (∀ x < m.S, ∀ a < m.A, get2 s.R x a = expReward m.S m.R s.T x a) ∧
    RowsOK RowS s.T := by
  unfold copyDense at h
  by_cases hg : (discGuard .dense).eval m.disc = true
  · simp [hg] at h
  · have hg' : (discGuard .dense).eval m.disc = false := by simpa using hg
    simp only [hg', Bool.false_eq_true, if_false] at h
    split at h
    · rename_i hall
      simp only [Option.some.injEq] at h
      subst h
      refine ⟨rfl, rfl, rfl, hg', ?_, ?_, ?_⟩
      · intro a ha x hx x1 hx1; exact get3_mk3 _ _ _ _ _ _ _ ha hx hx1
      · intro x hx a ha; exact get2_mk2 _ _ _ _ _ hx ha
      · apply rowsOK_mk3
        intro a ha x hx
        simp only [List.all_eq_true, List.mem_range] at hall
        have := hall a ha x hx
        exact (isProbLoop_iff _).1 (by simpa [srcRow, rowOf] using this)
    · cases h

example : ((copyDense ⟨1, 1, .fin (1/2), [[[.fin 1]]], [[[.fin 3]]]⟩).map (fun s => get2 s.R 0 0) == some (.fin 3)) = true := by
  decide +kernel

/-! ## AMDP: the derived model is a valid finite MDP -/

theorem keep_pos (e : Ev) (h0 : 0 ≤ e.p) (hk : e.keep = true) : tol < e.p := by
  have key : e.keep = !decide ((if 0 + -e.p < 0 then -(0 + -e.p) else 0 + -e.p) ≤ tol) := rfl
  rw [key] at hk
  simp only [Bool.not_eq_true', decide_eq_false_iff_not, not_le] at hk
  split_ifs at hk with hneg <;> linarith

theorem eqSmall_zero_iff (x : Rat) : eqSmall (.fin x) (.fin 0) = true ↔ -tol ≤ x ∧ x ≤ tol := by
  have key : eqSmall (.fin x) (.fin 0) = decide ((if x + -0 < 0 then -(x + -0) else x + -0) ≤ tol) := rfl
  rw [key, decide_eq_true_eq]
  constructor
  · intro h; split_ifs at h with hneg <;> constructor <;> linarith
  · rintro ⟨h1, h2⟩; split_ifs with hneg <;> linarith

/-- an accumulated transition entry is either untouched (0) or carries more than the tolerance -/
theorem accT_zero_or_big (evs : List Ev) (hp : ∀ e ∈ evs, 0 ≤ e.p) (a s s1 : Nat) :
    accT evs a s s1 = 0 ∨ tol < accT evs a s s1 := by
  induction evs with
  | nil => left; rfl
  | cons e r ih =>
      have ihr := ih (fun x hx => hp x (by simp [hx]))
      unfold accT at ihr ⊢
      simp only [List.filter_cons]
      split
      · rename_i hm
        simp only [Bool.and_eq_true] at hm
        have := keep_pos e (hp e (by simp)) hm.1
        right
        simp only [List.map, sumQ]
        have ht := tol_pos
        rcases ihr with h0 | hb <;> linarith
      · exact ihr

theorem le_sumQ_range (n : Nat) (f : Nat → Rat) (hf : ∀ j < n, 0 ≤ f j) (i : Nat) (hi : i < n) :
    f i ≤ sumQ ((List.range n).map f) ∧ 0 ≤ sumQ ((List.range n).map f) := by
  induction n with
  | zero => omega
  | succ n ih =>
      rw [List.range_succ, List.map_append, sumQ_append]
      simp only [List.map, sumQ, add_zero]
      have hn := hf n (by omega)
      have hnn : 0 ≤ sumQ ((List.range n).map f) := by
        clear ih hi
        induction n with
        | zero => simp [sumQ]
        | succ m ihm =>
            rw [List.range_succ, List.map_append, sumQ_append]
            simp only [List.map, sumQ, add_zero]
            have := ihm (fun j hj => hf j (by omega)) (hf m (by omega))
            have := hf m (by omega)
            linarith
      by_cases h : i < n
      · have := (ih (fun j hj => hf j (by omega)) h).1
        constructor <;> linarith
      · have : i = n := by omega
        subst this
        constructor <;> linarith

theorem sumQ_map_div (l : List Nat) (f : Nat → Rat) (c : Rat) :
    sumQ (l.map fun x => f x / c) = sumQ (l.map f) / c := by
  induction l with
  | nil => simp [sumQ]
  | cons x r ih => simp only [List.map, sumQ, ih]; ring

theorem accT_nonneg (evs : List Ev) (hp : ∀ e ∈ evs, 0 ≤ e.p) (a s s1 : Nat) : 0 ≤ accT evs a s s1 := by
  have ht := tol_pos
  rcases accT_zero_or_big evs hp a s s1 with h | h <;> linarith

/-- **amdp_valid, transition part** (both discretizeDense and discretizeSparse): for every contribution list with
    non-negative masses, every bucket count n, action a and bucket s < n, the normalised row sums to exactly one and
    has non-negative entries — visited or not. -/
theorem amdp_rows_are_distributions (evs : List Ev) (hp : ∀ e ∈ evs, 0 ≤ e.p) (n a s : Nat) (hs : s < n) :
    sumQ ((List.range n).map (amdpT evs n a s)) = 1 ∧ ∀ s1 < n, 0 ≤ amdpT evs n a s s1 := by
  have ht := tol_pos
  have hnn : ∀ j < n, 0 ≤ accT evs a s j := fun j _ => accT_nonneg evs hp a s j
  have hsum := le_sumQ_range n (accT evs a s) hnn
  by_cases hz : eqSmall (.fin (rowSumT evs n a s)) (.fin 0) = true
  · -- nobody reached this bucket: every accumulated entry is 0 and the row becomes the unit vector at s
    have hle := ((eqSmall_zero_iff _).1 hz).2
    have hzero : ∀ j < n, accT evs a s j = 0 := by
      intro j hj
      rcases accT_zero_or_big evs hp a s j with h | h
      · exact h
      · have := (hsum j hj).1; unfold rowSumT at hle; linarith
    have hrow : (List.range n).map (amdpT evs n a s) = (List.range n).map (fun j => if j = s then (1 : Rat) else 0) := by
      apply List.map_congr_left
      intro j hj
      have hj' := List.mem_range.1 hj
      simp only [amdpT, hz, if_true]
      split_ifs
      · rfl
      · exact hzero j hj'
    constructor
    · rw [hrow, sumQ_indicator]; simp [hs]
    · intro j hj
      simp only [amdpT, hz, if_true]
      split_ifs
      · norm_num
      · rw [hzero j hj]
  · have hne : ¬ (-tol ≤ rowSumT evs n a s ∧ rowSumT evs n a s ≤ tol) := fun h => hz ((eqSmall_zero_iff _).2 h)
    have hpos : 0 < rowSumT evs n a s := by
      have h0 : 0 ≤ rowSumT evs n a s := by
        unfold rowSumT
        cases n with
        | zero => omega
        | succ m => exact (hsum 0 (by omega)).2
      by_contra hcon
      apply hne
      constructor <;> linarith
    have hrow : (List.range n).map (amdpT evs n a s) = (List.range n).map (fun j => accT evs a s j / rowSumT evs n a s) := by
      apply List.map_congr_left
      intro j _
      simp only [amdpT, hz, Bool.false_eq_true, if_false]
    constructor
    · rw [hrow, sumQ_map_div]
      unfold rowSumT at hpos ⊢
      exact div_self (ne_of_gt hpos)
    · intro j hj
      simp only [amdpT, hz, Bool.false_eq_true, if_false]
      exact div_nonneg (hnn j hj) (le_of_lt hpos)

/-- **amdp_valid, reward part, dense** — with the division guarded (after fix C06-4; `guarded` is read from the source)
    every R(s,a) is finite, visited or not -/
theorem amdp_dense_reward_finite (evs : List Ev) (n s a : Nat) :
    isFin (amdpRDense true evs n s a) = true := by
  unfold amdpRDense
  by_cases hz : eqSmall (.fin (rowSumT evs n a s)) (.fin 0) = true
  · simp [hz, isFin]
  · simp only [Bool.true_and, hz, Bool.false_eq_true, if_false, qdivX]
    have hne : rowSumT evs n a s ≠ 0 := by
      intro h0
      apply hz
      rw [h0]
      exact (eqSmall_zero_iff 0).2 ⟨by linarith [tol_pos], by linarith [tol_pos]⟩
    simp [hne, isFin]

theorem mem_le_accT (evs : List Ev) (hp : ∀ e ∈ evs, 0 ≤ e.p) (e : Ev) (he : e ∈ evs) (hk : e.keep = true) :
    e.p ≤ accT evs e.a e.s e.s1 := by
  induction evs with
  | nil => cases he
  | cons x r ih =>
      have hr : ∀ y ∈ r, 0 ≤ y.p := fun y hy => hp y (by simp [hy])
      have hnn := accT_nonneg r hr e.a e.s e.s1
      have hx := hp x (by simp)
      unfold accT at hnn ⊢
      simp only [List.filter_cons]
      rcases List.mem_cons.1 he with rfl | hmem
      · simp only [hk, beq_self_eq_true, Bool.and_self, if_true, List.map, sumQ]
        linarith
      · have := ih hr hmem
        unfold accT at this
        split
        · simp only [List.map, sumQ]; linarith
        · exact this

theorem accR_ne_zero_mem (sp : Bool) (evs : List Ev) (s a : Nat) (h : accR sp evs s a ≠ 0) :
    ∃ e ∈ evs, e.keep = true ∧ e.a = a ∧ e.s = s := by
  unfold accR at h
  cases hf : evs.filter (fun e => e.keep && (e.a == a && e.s == s && (!sp || diffSmall (.fin 0) (.fin e.r)))) with
  | nil => rw [hf] at h; simp [sumQ] at h
  | cons e t =>
      have hm : e ∈ evs.filter (fun e => e.keep && (e.a == a && e.s == s && (!sp || diffSmall (.fin 0) (.fin e.r)))) := by
        rw [hf]; simp
      obtain ⟨hmem, hP⟩ := List.mem_filter.1 hm
      simp only [Bool.and_eq_true, beq_iff_eq] at hP
      exact ⟨e, hmem, hP.1, hP.2.1.1, hP.2.1.2⟩

/-- **amdp_valid, reward part, sparse** (`discretizeSparse`, the code as it is): every R(s,a) is finite — a non-zero
    accumulated reward implies a kept contribution in that row, hence a row sum above the tolerance -/
theorem amdp_sparse_reward_finite (evs : List Ev) (hp : ∀ e ∈ evs, 0 ≤ e.p) (n s a : Nat)
    (hs1 : ∀ e ∈ evs, e.keep = true → e.s1 < n) : isFin (amdpRSparse evs n s a) = true := by
  unfold amdpRSparse
  by_cases hd : diffSmall (.fin 0) (.fin (accR true evs s a)) = true
  · simp only [hd, if_true, qdivX]
    have hne : accR true evs s a ≠ 0 := by
      intro h0
      rw [h0] at hd
      have : eqSmall (.fin 0) (.fin 0) = true := (eqSmall_zero_iff 0).2 ⟨by linarith [tol_pos], by linarith [tol_pos]⟩
      simp [diffSmall, this] at hd
    obtain ⟨e, he, hk, rfl, rfl⟩ := accR_ne_zero_mem true evs _ _ hne
    have h1 := mem_le_accT evs hp e he hk
    have h2 := keep_pos e (hp e he) hk
    have h3 := (le_sumQ_range n (accT evs e.a e.s) (fun j _ => accT_nonneg evs hp e.a e.s j) e.s1 (hs1 e he hk)).1
    have hpos : 0 < rowSumT evs n e.a e.s := by unfold rowSumT; linarith [tol_pos]
    simp [ne_of_gt hpos, isFin]
  · simp [hd, isFin]

/-- FULL STATEMENT: `∀ evs n s a, isFin (amdpRDense AITB.Gen.Guards.amdpDenseGuardedDivide evs n s a)`.
    False of the code as first read (`R(s,a) /= T[a].row(s).sum()` unconditionally): for EVERY bucket nobody visited
    the reward is 0/0 = nan. -/
theorem amdp_dense_unvisited_nan_counterexample (evs : List Ev) (n s a : Nat)
    (hT : rowSumT evs n a s = 0) (hR : accR false evs s a = 0) :
    amdpRDense false evs n s a = .nan := by
  simp [amdpRDense, hT, hR, qdivX]

example : (amdpRDense false [] 2 0 0 == .nan) = true ∧ (amdpRDense true [] 2 0 0 == .fin 0) = true ∧
    (amdpRSparse [] 2 0 0 == .fin 0) = true := by decide +kernel

/-- bucket index of `makeDiscretizer` stays inside the augmented state space, whatever the entropy term `k` -/
theorem discretize_lt (S buckets maxS k : Nat) (hm : maxS < S) (hb : 0 < buckets) :
    discretize S buckets maxS k < S * buckets := by
  unfold discretize
  obtain ⟨b, rfl⟩ : ∃ b, buckets = b + 1 := ⟨buckets - 1, by omega⟩
  have h1 : S * min k (b + 1 - 1) ≤ S * b := Nat.mul_le_mul_left S (by simp)
  have h2 : S * (b + 1) = S * b + S := Nat.mul_succ S b
  omega

/-! ## sparse conversion -/

theorem eqSmall_one_left_iff (x : XRat) :
    eqSmall (.fin 1) x = true ↔ ∃ s, x = .fin s ∧ -tol ≤ 1 - s ∧ 1 - s ≤ tol := by
  cases x with
  | nan => simp [eqSmall, xsub, xneg, xadd, xabs, XRat.le]
  | pinf => simp [eqSmall, xsub, xneg, xadd, xabs, XRat.le]
  | ninf => simp [eqSmall, xsub, xneg, xadd, xabs, XRat.le]
  | fin s =>
      have key : eqSmall (.fin 1) (.fin s) = decide ((if 1 + -s < 0 then -(1 + -s) else 1 + -s) ≤ tol) := rfl
      rw [key, decide_eq_true_eq]
      constructor
      · intro h
        refine ⟨s, rfl, ?_⟩
        split_ifs at h with hneg <;> constructor <;> linarith
      · rintro ⟨s', hs', h1, h2⟩
        cases hs'
        split_ifs with hneg <;> linarith

theorem sparsify_eq_fin (p : XRat) (q' : Rat) (h : sparsify p = .fin q') : ∃ q, p = .fin q ∧ q' = spQ q := by
  cases p with
  | nan => simp [sparsify, diffSmall, eqSmall, xsub, xneg, xadd, xabs, XRat.le] at h
  | pinf => simp [sparsify, diffSmall, eqSmall, xsub, xneg, xadd, xabs, XRat.le] at h
  | ninf => simp [sparsify, diffSmall, eqSmall, xsub, xneg, xadd, xabs, XRat.le] at h
  | fin q => rw [sparsify_fin] at h; cases h; exact ⟨q, rfl, rfl⟩

/-- OBLIGATION over the generated table: the per-entry guard of the sparse converting constructors
    (`p < 0.0 || p > 1.0`) lets through, among finite numbers, exactly [0,1] -/
theorem sparseEntryGuard_ok :
    sparseEntryGuard.litsIn01 = true ∧ sparseObsEntryGuard.litsIn01 = true ∧
    Cls.all.all (fun c => sparseEntryGuard.eval c.rep || c == .zero || c == .mid || c == .one || c == .nan) = true ∧
    Cls.all.all (fun c => sparseObsEntryGuard.eval c.rep || c == .zero || c == .mid || c == .one || c == .nan) = true := by
  decide +kernel

theorem cls_fin_unit (q : Rat) (h : cls (.fin q) = .zero ∨ cls (.fin q) = .mid ∨ cls (.fin q) = .one) : 0 ≤ q ∧ q ≤ 1 := by
  simp only [cls] at h
  split_ifs at h with h1 h2 h3 h4 <;> simp at h
  · subst h2; norm_num
  · exact ⟨not_lt.1 h1, le_of_lt h3⟩
  · subst h4; norm_num

theorem entryGuard_fin (g : GExpr) (hl : g.litsIn01 = true)
    (hall : Cls.all.all (fun c => g.eval c.rep || c == .zero || c == .mid || c == .one || c == .nan) = true)
    (q : Rat) (h : g.eval (.fin q) = false) : 0 ≤ q ∧ q ≤ 1 := by
  rw [List.all_eq_true] at hall
  have := hall (cls (.fin q)) (mem_all _)
  rw [← eval_rep g hl, h] at this
  apply cls_fin_unit
  have hnn : (cls (.fin q) == Cls.nan) = false := by simp only [cls]; split_ifs <;> rfl
  simp only [Bool.false_or, hnn, Bool.or_false, Bool.or_eq_true, beq_iff_eq] at this
  tauto

/-- a row that passed the sparse converting constructor's two tests, as stored: strict distribution -/
theorem sparse_copy_row (g : GExpr) (hl : g.litsIn01 = true)
    (hall : Cls.all.all (fun c => g.eval c.rep || c == .zero || c == .mid || c == .one || c == .nan) = true)
    (row : List XRat) (hent : row.all (fun p => !(g.eval p)) = true)
    (hsum : diffSmall (.fin 1) (sumX (row.map sparsify)) = false) : RowDist 0 tol (row.map sparsify) := by
  simp only [diffSmall, Bool.not_eq_false'] at hsum
  obtain ⟨s, hs, h1, h2⟩ := (eqSmall_one_left_iff _).1 hsum
  obtain ⟨qs, hrow, hq⟩ := sumX_eq_fin _ s hs
  refine ⟨qs, hrow, ?_, by rw [← hq]; linarith, by rw [← hq]; linarith⟩
  intro q' hq'
  have hmem : XRat.fin q' ∈ row.map sparsify := by rw [hrow]; exact List.mem_map.2 ⟨q', hq', rfl⟩
  obtain ⟨p, hp, hpe⟩ := List.mem_map.1 hmem
  obtain ⟨q, rfl, rfl⟩ := sparsify_eq_fin p q' hpe
  rw [List.all_eq_true] at hent
  have := hent _ hp
  have hb := entryGuard_fin g hl hall q (by simpa using this)
  exact (spQ_bounds hb.1).1

/-- **convert_preserves (to sparse)**: `MDP::SparseModel(const M&)` from ANY source model.  If it accepts: same
    discount; every transition entry is the source's unless its magnitude is at most the tolerance, in which case
    it is dropped (so entries differ by ≤ 1e-6); every stored row is a strict distribution (non-negative, within the
    tolerance of one — the row test runs on what is stored); R(s,a) accumulates `r·p` over the successors whose
    reward differs from 0. -/
theorem copySparse_preserves (m : Src) (s : St) (h : copySparse m = some s) :
    s.S = m.S ∧ s.A = m.A ∧ s.disc = m.disc ∧ (discGuard .sparse).eval m.disc = false ∧
    (∀ a < m.A, ∀ x < m.S, ∀ x1 < m.S, get3 s.T a x x1 = sparsify (get3 m.T x a x1)) ∧
    (∀ x < m.S, ∀ a < m.A, get2 s.R x a = expRewardSparseCopy m x a) ∧
    RowsOK (RowDist 0 tol) s.T := by
  unfold copySparse at h
  by_cases hg : (discGuard .sparse).eval m.disc = true
  · simp [hg] at h
  · have hg' : (discGuard .sparse).eval m.disc = false := by simpa using hg
    simp only [hg', Bool.false_eq_true, if_false] at h
    split at h
    · rename_i hall
      simp only [Option.some.injEq] at h
      subst h
      refine ⟨rfl, rfl, rfl, hg', ?_, ?_, ?_⟩
      · intro a ha x hx x1 hx1; exact get3_mk3 _ _ _ _ _ _ _ ha hx hx1
      · intro x hx a ha; exact get2_mk2 _ _ _ _ _ hx ha
      · apply rowsOK_mk3
        intro a ha x hx
        simp only [List.all_eq_true, List.mem_range, Bool.and_eq_true] at hall
        obtain ⟨h1, h2⟩ := hall x hx a ha
        have := sparse_copy_row sparseEntryGuard sparseEntryGuard_ok.1 sparseEntryGuard_ok.2.2.1 (srcRow m x a)
          (by rw [List.all_eq_true]; exact h1) (by simpa using h2)
        simpa [srcRow, rowOf, List.map_map, Function.comp_def] using this
    · cases h

theorem sparsify_close (q : Rat) : ∃ q', sparsify (.fin q) = .fin q' ∧ -tol ≤ q - q' ∧ q - q' ≤ tol :=
  ⟨spQ q, sparsify_fin q, (spQ_close q).1, (spQ_close q).2⟩

/-! ## DDNGraph::push -/

/-- strictly increasing from a lower bound -/
def IncFrom : Nat → List Nat → Prop
  | _, [] => True
  | p, v :: r => p < v ∧ IncFrom v r

theorem checkTagLoop_none (n prev : Nat) (l : List Nat) (h : checkTagLoop n prev l = .none) :
    (∀ v ∈ l, v < n) ∧ IncFrom prev l := by
  induction l generalizing prev with
  | nil => exact ⟨by simp, trivial⟩
  | cons v r ih =>
      simp only [checkTagLoop] at h
      split_ifs at h with h1 h2 h3
      obtain ⟨ha, hb⟩ := ih v h
      refine ⟨?_, ?_, hb⟩
      · intro x hx
        rcases List.mem_cons.1 hx with rfl | hx
        · omega
        · exact ha x hx
      · omega

/-- `checkTag` accepts exactly well-formed tags: non-empty, no longer than the space, ids in range, strictly increasing -/
theorem checkTag_none (space tag : List Nat) (h : checkTag space tag = .none) :
    tag ≠ [] ∧ tag.length ≤ space.length ∧ (∀ v ∈ tag, v < space.length) ∧
    (match tag with | [] => True | v0 :: r => IncFrom v0 r) := by
  cases tag with
  | nil => simp [checkTag] at h
  | cons v0 r =>
      simp only [checkTag] at h
      split_ifs at h with h1 h2
      obtain ⟨ha, hb⟩ := checkTagLoop_none _ _ _ h
      refine ⟨by simp, by omega, ?_, hb⟩
      intro x hx
      rcases List.mem_cons.1 hx with rfl | hx
      · omega
      · exact ha x hx

/-- validate-then-commit for `DDNGraph::push`: a rejected push leaves the graph as it was; an accepted one appends
    exactly the given parent set, which is well formed -/
theorem push_spec (hvf : AITB.Gen.Guards.vf_DDNGraph_push = true) (g : Graph) (p : PSet) :
    ((push AITB.Gen.Guards.vf_DDNGraph_push g p).2 ≠ .none → (push AITB.Gen.Guards.vf_DDNGraph_push g p).1 = g) ∧
    ((push AITB.Gen.Guards.vf_DDNGraph_push g p).2 = .none →
        (push AITB.Gen.Guards.vf_DDNGraph_push g p).1 = pushCommit g p ∧ pushCheck g p = .none ∧
        g.parents.length ≠ g.S.length) := by
  rw [hvf]
  simp only [push, if_true]
  cases hc : pushCheck g p <;> simp
  unfold pushCheck at hc
  split_ifs at hc with h1
  exact h1

theorem push_accepted_wellformed (g : Graph) (p : PSet) (h : pushCheck g p = .none) :
    checkTag g.A p.agents = .none ∧ p.features.length = spacePartial g.A p.agents ∧
    ∀ f ∈ p.features, checkTag g.S f = .none := by
  unfold pushCheck at h
  split_ifs at h with h1 h2 h3 h4
  refine ⟨by simpa using h2, by simpa using h3, ?_⟩
  intro f hf
  simp only [List.any_eq_true, not_exists, not_and] at h4
  have := h4 f hf
  simpa using this

/-! ## the table constructors, statement by statement -/

theorem exec_append (p q : List Stmt) (s : St) :
    exec (p ++ q) s = if (exec p s).2 = true then exec p s else exec q (exec p s).1 := by
  induction p generalizing s with
  | nil => simp [exec]
  | cons st r ih =>
      cases st with
      | check ok =>
          simp only [List.cons_append, exec]
          by_cases hok : ok s = true
          · simp only [hok, if_true]; exact ih s
          · simp [hok]
      | assign f =>
          simp only [List.cons_append, exec]
          exact ih (f s)

theorem firstRow_ok (n : Nat) (h : 0 < n) : RowS (firstRow n) := by
  have : firstRow n = identRow n 0 := rfl
  rw [this]; exact identRow_ok n 0 h

/-- `POMDP::Model(o, params…)` / `POMDP::SparseModel(o, params…)`: on top of a valid MDP part the default observation
    function (everything emits observation 0) is valid, for every O ≥ 1 -/
theorem pomdpBasic_valid (kb ko : Rep) (base : St) (O : Nat) (hO : 0 < O) (hv : Valid ⟨kb, kb⟩ base) :
    Valid ⟨kb, ko⟩ (pomdpBasic base O) := by
  refine ⟨hv.disc, hv.T, ?_⟩
  intro m hm row hrow
  simp only [pomdpBasic, List.mem_map, List.mem_range] at hm
  obtain ⟨_, _, rfl⟩ := hm
  simp only [List.mem_map, List.mem_range] at hrow
  obtain ⟨_, _, rfl⟩ := hrow
  exact rowP_of_RowS ko (firstRow_ok O hO)

/-- `Model(s, a, t, r, d)` / `SparseModel(s, a, t, r, d)` = setDiscount; setTransitionFunction; setRewardFunction on a
    fresh object: if no step throws the result is valid, for all sizes, tables and discounts (nan aside unless guarded) -/
theorem ctor3D_valid_of (h : allValidateFirst = true) (k : Rep) (S A : Nat) (t r : Tab3) (d : XRat) (s : St)
    (hd : discNanSafe = true ∨ d ≠ .nan) (hc : ctor3D k S A t r d = some s) : Valid ⟨k, k⟩ s := by
  obtain ⟨hvd, ht3, _⟩ := vf_unpack h
  unfold ctor3D at hc
  simp only [exec_append] at hc
  -- step 1: setDiscount
  have e1 : exec (prog ⟨k, k⟩ (.setDiscount d)) (blank S A 0) =
      if (discGuard k).eval d = true then (blank S A 0, true) else ({ blank S A 0 with disc := d }, false) := by
    simp only [prog, hvd, exec_setter_true]
    by_cases hg : (discGuard k).eval d = true <;> simp [hg]
  by_cases hg : (discGuard k).eval d = true
  · simp [e1, hg] at hc
  · have hg' : (discGuard k).eval d = false := by simpa using hg
    have hdisc : DiscOK d := by
      by_cases hnan : d = .nan
      · rcases hd with hn | hne
        · subst hnan
          simp only [discNanSafe, Bool.and_eq_true] at hn
          cases k <;> simp_all
        · exact absurd hnan hne
      · exact discountOKfinite_sound _ (discGuard_ok k).1 d hnan hg'
    simp only [e1, hg', Bool.false_eq_true, if_false] at hc
    -- step 2: setTransitionFunction
    set s1 : St := { blank S A 0 with disc := d } with hs1
    have e2 : exec (prog ⟨k, k⟩ (.setT3D t)) s1 = step ⟨k, k⟩ s1 (.setT3D t) := rfl
    rw [e2] at hc
    by_cases hacc : (step ⟨k, k⟩ s1 (.setT3D t)).2 = true
    · simp [hacc] at hc
    · have hacc' : (step ⟨k, k⟩ s1 (.setT3D t)).2 = false := by simpa using hacc
      simp only [hacc', Bool.false_eq_true, if_false] at hc
      have hrows := accepted_tables_are_distributions_of h ⟨k, k⟩ s1 t hacc'
      have hkeep : (step ⟨k, k⟩ s1 (.setT3D t)).1.disc = d ∧ (step ⟨k, k⟩ s1 (.setT3D t)).1.Om = [] := by
        simp only [step, prog, ht3, exec_setter_true]
        split <;> simp [s1, blank]
      -- step 3: setRewardFunction never throws and touches only R
      simp only [prog, exec] at hc
      simp only [Bool.false_eq_true, if_false, Option.some.injEq] at hc
      subst hc
      exact ⟨by simpa [hkeep.1] using hdisc, hrows, by intro m hm; simp [hkeep.2] at hm⟩

/-- observation part of the converting constructors: accepted rows are distributions and every entry is the source's
    (exactly for dense storage, through the threshold for sparse storage) -/
theorem copyObs_preserves (k : Rep) (base : St) (O : Nat) (om : Tab3) (s : St) (h : copyObs k base O om = some s) :
    s.T = base.T ∧ s.R = base.R ∧ s.disc = base.disc ∧
    (∀ a < base.A, ∀ x < base.S, ∀ o < O, get3 s.Om a x o = storeP k (get3 om x a o)) ∧
    RowsOK (match k with | .dense => RowS | .sparse => RowDist 0 tol) s.Om := by
  cases k with
  | dense =>
      simp only [copyObs] at h
      split at h
      · rename_i hall
        simp only [Option.some.injEq] at h
        subst h
        refine ⟨rfl, rfl, rfl, ?_, ?_⟩
        · intro a ha x hx o ho; exact get3_mk3 _ _ _ _ _ _ _ ha hx ho
        · apply rowsOK_mk3
          intro a ha x hx
          simp only [List.all_eq_true, List.mem_range] at hall
          exact (isProbLoop_iff _).1 (by simpa [rowOf] using hall a ha x hx)
      · cases h
  | sparse =>
      simp only [copyObs] at h
      split at h
      · rename_i hall
        simp only [Option.some.injEq] at h
        subst h
        refine ⟨rfl, rfl, rfl, ?_, ?_⟩
        · intro a ha x hx o ho; exact get3_mk3 _ _ _ _ _ _ _ ha hx ho
        · apply rowsOK_mk3
          intro a ha x hx
          simp only [List.all_eq_true, List.mem_range, Bool.and_eq_true] at hall
          obtain ⟨h1, h2⟩ := hall a ha x hx
          have := sparse_copy_row sparseObsEntryGuard sparseEntryGuard_ok.2.1 sparseEntryGuard_ok.2.2.2 (rowOf om x a O)
            (by rw [List.all_eq_true]; exact h1) (by simpa using h2)
          simpa [rowOf, List.map_map, Function.comp_def] using this
      · cases h

/-- the as-found sparse test accepts every strictly valid row (complete for the dense notion, sound only up to −tol) -/
theorem isProbSparseAbs_complete (row : List XRat) (h : RowDist 0 tol row) : isProbSparseAbs row = true := by
  obtain ⟨qs, hrow, hge, h1, h2⟩ := h
  subst hrow
  have habs : (qs.map XRat.fin).map xabs = qs.map XRat.fin := by
    rw [List.map_map]
    apply List.map_congr_left
    intro q hq
    have := hge q hq
    simp only [Function.comp, xabs_fin]
    rw [if_neg (not_lt.2 this)]
  have hs := (eqSmall_one_iff (sumX (qs.map XRat.fin))).2 ⟨sumQ qs, sumX_fin qs, h1, h2⟩
  simp only [isProbSparseAbs, habs, diffSmall, hs, Bool.not_true, Bool.or_self, Bool.not_false]

/-- whichever form the source has, a strictly valid row is accepted -/
theorem isProbSparse_complete (row : List XRat) (h : RowDist 0 tol row) : isProbSparse row = true := by
  unfold isProbSparse
  split_ifs
  · exact (isProbSparseSign_iff row).2 h
  · exact isProbSparseAbs_complete row h

/-! ## soundness of the checkers the driver evaluates on the implementation's output (L3) -/

theorem inUnitB_iff (d : XRat) : inUnitB d = true ↔ DiscOK d := by
  cases d with
  | nan => simp [inUnitB, DiscOK]
  | pinf => simp [inUnitB, DiscOK]
  | ninf => simp [inUnitB, DiscOK]
  | fin q =>
      simp only [inUnitB, Bool.and_eq_true, decide_eq_true_eq]
      constructor
      · intro h; exact ⟨q, rfl, h.1, h.2⟩
      · rintro ⟨q', hq, h0, h1⟩; cases hq; exact ⟨h0, h1⟩

/-- a row that passes the driver's clause IS a distribution up to the stated slack: finite entries in [-tol, 1+tol]
    whose sum differs from one by at most `slack` -/
theorem rowDistB_sound (slack : Rat) (row : List XRat) (h : rowDistB slack row = true) :
    ∃ qs : List Rat, row = qs.map .fin ∧ (∀ q ∈ qs, -tol ≤ q ∧ q ≤ 1 + tol) ∧
      -slack ≤ sumQ qs - 1 ∧ sumQ qs - 1 ≤ slack := by
  simp only [rowDistB, Bool.and_eq_true, List.all_eq_true] at h
  obtain ⟨hent, hsum⟩ := h
  cases hs : sumX row with
  | nan => simp [hs] at hsum
  | pinf => simp [hs] at hsum
  | ninf => simp [hs] at hsum
  | fin s =>
      obtain ⟨qs, hrow, hq⟩ := sumX_eq_fin row s hs
      subst hrow
      refine ⟨qs, rfl, ?_, ?_⟩
      · intro q hmem
        have := hent (.fin q) (List.mem_map.2 ⟨q, hmem, rfl⟩)
        simpa [Bool.and_eq_true] using this
      · simp only [hs, absQ] at hsum
        rw [← hq]
        split_ifs at hsum with hneg <;> simp only [decide_eq_true_eq] at hsum <;> constructor <;> linarith

/-! ## POMDP constructors -/

theorem accepted_obs_are_distributions_of (h : allValidateFirst = true) (k : Kind) (s : St) (o : Tab3)
    (hacc : (step k s (.setO3D o)).2 = false) :
    RowsOK (rowP k.obs) (step k s (.setO3D o)).1.Om ∧ (step k s (.setO3D o)).1.T = s.T ∧
    (step k s (.setO3D o)).1.disc = s.disc := by
  obtain ⟨_, _, _, ho3, _⟩ := vf_unpack h
  simp only [step, prog, ho3, exec_setter_true] at hacc ⊢
  by_cases hc' : okO3D k.obs s o = true
  · have hc : check3D s.S s.A s.O o = true := by
      simp only [okO3D, Bool.and_eq_true] at hc'; exact hc'.1
    simp only [hc', if_true, and_true]
    apply rowsOK_mk3
    intro a ha x hx
    have := (check3D_iff _ _ _ _).1 hc x hx a ha
    have hst := stored_row k.obs _ this
    simpa [rowOf, List.map_map, Function.comp_def] using hst
  · simp [hc'] at hacc

/-- `POMDP::Model(o, of, params…)` / `POMDP::SparseModel(o, of, params…)`: a valid MDP part plus an accepted observation
    table is a valid POMDP; a rejected table means no object -/
theorem pomdp3D_valid_of (h : allValidateFirst = true) (k : Kind) (base : St) (O : Nat) (o : Tab3) (s : St)
    (hv : Valid ⟨k.base, k.base⟩ base) (hc : pomdp3D k base O o = some s) : Valid k s := by
  unfold pomdp3D at hc
  set s0 : St := { base with O := O, Om := mk3 base.A base.S O (fun _ _ _ => .fin 0) } with hs0
  have e : exec (prog k (.setO3D o)) s0 = step k s0 (.setO3D o) := rfl
  rw [e] at hc
  by_cases hacc : (step k s0 (.setO3D o)).2 = true
  · simp [hacc] at hc
  · have hacc' : (step k s0 (.setO3D o)).2 = false := by simpa using hacc
    simp only [hacc', Bool.false_eq_true, if_false, Option.some.injEq] at hc
    subst hc
    obtain ⟨h1, h2, h3⟩ := accepted_obs_are_distributions_of h k s0 o hacc'
    exact ⟨by rw [h3]; exact hv.disc, by rw [h2]; exact hv.T, h1⟩

/-- **conversion of a whole POMDP** (`POMDP::Model(const PM&)`, `POMDP::SparseModel(const PM&)` over either MDP class,
    from ANY source model): if it accepts, the result is a valid POMDP in the target representation -/
theorem pomdp_copy_valid_of (kb ko : Rep) (m : Src) (O : Nat) (om : Tab3) (s : St)
    (hn : discNanSafe = true ∨ m.disc ≠ .nan)
    (h : (copyBase kb m).bind (fun b => copyObs ko b O om) = some s) : Valid ⟨kb, ko⟩ s := by
  cases hb : copyBase kb m with
  | none => simp [hb] at h
  | some b =>
      simp only [hb, Option.bind] at h
      have hbase : DiscOK b.disc ∧ RowsOK RowS b.T := by
        cases kb with
        | dense =>
            obtain ⟨_, _, hd, hg, _, _, hrows⟩ := copyDense_preserves m b hb
            refine ⟨?_, hrows⟩
            rw [hd]
            by_cases hnan : m.disc = .nan
            · rcases hn with hs | hne
              · simp only [discNanSafe, Bool.and_eq_true] at hs
                rw [hnan] at hg; simp_all
              · exact absurd hnan hne
            · exact discountOKfinite_sound _ (discGuard_ok .dense).1 _ hnan hg
        | sparse =>
            obtain ⟨_, _, hd, hg, _, _, hrows⟩ := copySparse_preserves m b hb
            refine ⟨?_, hrows⟩
            rw [hd]
            by_cases hnan : m.disc = .nan
            · rcases hn with hs | hne
              · simp only [discNanSafe, Bool.and_eq_true] at hs
                rw [hnan] at hg; simp_all
              · exact absurd hnan hne
            · exact discountOKfinite_sound _ (discGuard_ok .sparse).1 _ hnan hg
      obtain ⟨hT, _, hdisc, _, hOm⟩ := copyObs_preserves ko b O om s h
      refine ⟨by rw [hdisc]; exact hbase.1, ?_, ?_⟩
      · rw [hT]; intro mm hm row hrow; exact rowP_of_RowS kb (hbase.2 mm hm row hrow)
      · intro mm hm row hrow
        have := hOm mm hm row hrow
        cases ko with
        | dense => exact this
        | sparse => exact rowP_of_RowS .sparse this

/-! ## CooperativeModel constructor -/

/-- whatever `Factored::MDP::CooperativeModel(graph, transitions, rewards, discount)` accepts is well formed: non-empty
    spaces, one parent set and one transition matrix per state feature with the shape the graph dictates, every
    transition row a strict distribution, every reward basis with well-formed tags and the matching shape, and the
    constructor's discount test (if the source has one) did not fire. -/
theorem coop_accepted_wellformed (rej : Bool) (g : Graph) (mats : List Mat) (bases : List Basis)
    (h : coopAccepts rej g mats bases = true) :
    rej = false ∧ g.S.length ≠ 0 ∧ g.A.length ≠ 0 ∧ g.parents.length = g.S.length ∧ mats.length = g.S.length ∧
    (∀ i < g.S.length, (mats.getD i default).rows = g.sizes.getD i 0 ∧ (mats.getD i default).cols = g.S.getD i 0 ∧
        ∀ j < (mats.getD i default).rows,
          RowS ((List.range (mats.getD i default).cols).map (fun x => get2 (mats.getD i default).ent j x))) ∧
    (∀ b ∈ bases, checkTag g.A b.actionTag = .none ∧ checkTag g.S b.tag = .none ∧
        b.cols = spacePartial g.A b.actionTag ∧ b.rows = spacePartial g.S b.tag) := by
  simp only [coopAccepts, Bool.and_eq_true, Bool.not_eq_true', bne_iff_ne, ne_eq, beq_iff_eq,
    List.all_eq_true, List.mem_range] at h
  obtain ⟨⟨⟨⟨⟨⟨hd, hS⟩, hA⟩, hP⟩, hM⟩, hT⟩, hB⟩ := h
  refine ⟨hd, hS, hA, hP, hM, ?_, ?_⟩
  · intro i hi
    obtain ⟨⟨h1, h2⟩, h3⟩ := hT i hi
    exact ⟨h1, h2, fun j hj => (isProbLoop_iff _).1 (h3 j hj)⟩
  · intro b hb
    obtain ⟨⟨⟨h1, h2⟩, h3⟩, h4⟩ := hB b hb
    exact ⟨h1, h2, h3, h4⟩

/-- … and when that test is a guard passing the decision procedure (true of `!(discount_ > 0.0 && discount_ <= 1.0)`,
    fix C06-3), the accepted discount is in (0,1] — nan included -/
theorem coop_accepted_discount (gd : GExpr) (hg : gd.discountOK = true) (g : Graph) (mats : List Mat) (bases : List Basis)
    (d : XRat) (h : coopAccepts (gd.eval d) g mats bases = true) : DiscOK d :=
  discountOK_sound gd hg d (coop_accepted_wellformed _ g mats bases h).1

/-! ## OBLIGATIONS over the generated order facts (re-opened by any reordering in the source) -/

/-- in every setter of the four model classes, every `throw` precedes the first write -/
theorem all_validate_first : allValidateFirst = true := by decide

theorem push_validates_first : AITB.Gen.Guards.vf_DDNGraph_push = true := by decide

/-- hence, unconditionally: a rejected call leaves the object unchanged -/
theorem rejected_unchanged (k : Kind) (s : St) (op : Op) (hr : (step k s op).2 = true) : (step k s op).1 = s :=
  step_rejected_unchanged all_validate_first k s op hr

end AITB.MS
