/-
  AITB.Props.C06 — "Model objects always describe a valid (PO)MDP".
  Theorems about the executable model AITB.Model.ModelState / AITB.Model.Guard, whose guard
  conditions, statement order facts and tolerances are regenerated from the library source
  (AITB.Gen.Guards, AITB.Gen.Constants) on every run.
-/
import Mathlib.Algebra.Order.Field.Rat
import Mathlib.Tactic.Linarith
import Mathlib.Tactic.NormNum
import Mathlib.Tactic.Ring
import AITB.Model.ModelState

set_option linter.unusedTactic false
set_option linter.unreachableTactic false
set_option linter.unusedVariables false
set_option linter.unusedSimpArgs false

namespace AITB.Guard
open AITB

/-- a legitimate discount: a finite number in (0,1] -/
def DiscOK (d : XRat) : Prop := ∃ q : Rat, d = .fin q ∧ 0 < q ∧ q ≤ 1

theorem cmp_eval_rep (c : Cmp) (lit : Rat) (h : lit = 0 ∨ lit = 1) (d : XRat) :
    c.eval d lit = c.eval (cls d).rep lit := by
  cases d with
  | nan => rfl
  | pinf => rfl
  | ninf => rfl
  | fin q =>
    rcases lt_trichotomy q 0 with h0 | h0 | h0
    · have hc : cls (.fin q) = .neg := by simp [cls, h0]
      rw [hc]; rcases h with rfl | rfl <;> cases c <;>
        simp [Cmp.eval, Cls.rep, XRat.lt, XRat.le, eqI] <;> first | linarith | (intro hh; linarith) | (constructor <;> intro hh <;> first | linarith | (exfalso; linarith) | (norm_num at hh))
    · subst h0
      have hc : cls (.fin 0) = .zero := by simp [cls]
      rw [hc]; rfl
    · have hn : ¬ q < 0 := not_lt.mpr (le_of_lt h0)
      have hz : ¬ q = 0 := ne_of_gt h0
      rcases lt_trichotomy q 1 with h1 | h1 | h1
      · have hc : cls (.fin q) = .mid := by simp [cls, hn, hz, h1]
        rw [hc]; rcases h with rfl | rfl <;> cases c <;>
          simp [Cmp.eval, Cls.rep, XRat.lt, XRat.le, eqI] <;> first | linarith | (intro hh; linarith) | (constructor <;> intro hh <;> first | linarith | (exfalso; linarith) | (norm_num at hh))
      · subst h1
        have hc : cls (.fin 1) = .one := by simp [cls]
        rw [hc]; rfl
      · have h1n : ¬ q < 1 := not_lt.mpr (le_of_lt h1)
        have h1e : ¬ q = 1 := ne_of_gt h1
        have hc : cls (.fin q) = .big := by simp [cls, hn, hz, h1n, h1e]
        rw [hc]; rcases h with rfl | rfl <;> cases c <;>
          simp [Cmp.eval, Cls.rep, XRat.lt, XRat.le, eqI] <;> first | linarith | (intro hh; linarith) | (constructor <;> intro hh <;> first | linarith | (exfalso; linarith) | (norm_num at hh))

theorem eval_rep (g : GExpr) (h : g.litsIn01 = true) (d : XRat) : g.eval d = g.eval (cls d).rep := by
  induction g with
  | cmp c lit =>
      simp only [GExpr.litsIn01, Bool.or_eq_true, decide_eq_true_eq] at h
      exact cmp_eval_rep c lit h d
  | or a b iha ihb =>
      simp only [GExpr.litsIn01, Bool.and_eq_true] at h
      simp only [GExpr.eval, iha h.1, ihb h.2]
  | and a b iha ihb =>
      simp only [GExpr.litsIn01, Bool.and_eq_true] at h
      simp only [GExpr.eval, iha h.1, ihb h.2]
  | not a iha =>
      simp only [GExpr.litsIn01] at h
      simp only [GExpr.eval, iha h]

theorem cls_inUnit (d : XRat) (h : (cls d).inUnit = true) : DiscOK d := by
  cases d with
  | nan => simp [cls, Cls.inUnit] at h
  | pinf => simp [cls, Cls.inUnit] at h
  | ninf => simp [cls, Cls.inUnit] at h
  | fin q =>
    refine ⟨q, rfl, ?_⟩
    simp only [cls] at h
    split_ifs at h with h1 h2 h3 h4 <;> simp [Cls.inUnit] at h
    · exact ⟨lt_of_le_of_ne (not_lt.mp h1) (Ne.symm h2), le_of_lt h3⟩
    · subst h4; exact ⟨by norm_num, le_refl _⟩

theorem inUnit_of_DiscOK (d : XRat) (h : DiscOK d) : (cls d).inUnit = true := by
  obtain ⟨q, rfl, h0, h1⟩ := h
  have hn : ¬ q < 0 := not_lt.mpr (le_of_lt h0)
  have hz : ¬ q = 0 := ne_of_gt h0
  simp only [cls, hn, hz, if_false]
  split_ifs <;> first | rfl | (exfalso; rcases lt_or_eq_of_le h1 with h | h <;> contradiction)

theorem mem_all (c : Cls) : c ∈ Cls.all := by cases c <;> simp [Cls.all]

/-- **Guard soundness (full strength).** If the decision procedure accepts the guard, then whatever the guard
    lets through — among ALL doubles, nan and ±inf included — is a number in (0,1]. -/
theorem discountOK_sound (g : GExpr) (h : g.discountOK = true) (d : XRat) (hd : g.eval d = false) : DiscOK d := by
  simp only [GExpr.discountOK, Bool.and_eq_true, List.all_eq_true] at h
  have := h.2 (cls d) (mem_all _)
  rw [← eval_rep g h.1 d, hd] at this
  exact cls_inUnit d (by simpa using this)

/-- the same for every double except nan (what holds of the guard `d <= 0.0 || d > 1.0`) -/
theorem discountOKfinite_sound (g : GExpr) (h : g.discountOKfinite = true) (d : XRat) (hn : d ≠ .nan)
    (hd : g.eval d = false) : DiscOK d := by
  simp only [GExpr.discountOKfinite, Bool.and_eq_true, List.all_eq_true] at h
  have := h.2 (cls d) (mem_all _)
  rw [← eval_rep g h.1 d, hd] at this
  have hc : (cls d == Cls.nan) = false := by
    cases d with
    | nan => exact absurd rfl hn
    | pinf => rfl
    | ninf => rfl
    | fin q => simp only [cls]; split_ifs <;> rfl
  rw [hc] at this
  exact cls_inUnit d (by simpa using this)

/-- **Guard completeness.** A guard that passes `discountComplete` rejects no legitimate discount. -/
theorem discountComplete_sound (g : GExpr) (h : g.discountComplete = true) (d : XRat) (hd : DiscOK d) : g.eval d = false := by
  simp only [GExpr.discountComplete, Bool.and_eq_true, List.all_eq_true] at h
  have := h.2 (cls d) (mem_all _)
  rw [inUnit_of_DiscOK d hd, ← eval_rep g h.1 d] at this
  simpa using this

end AITB.Guard

namespace AITB.MS
open AITB AITB.Guard

/-- the guarded `setDiscount` definitions of the library (14 on the tree this was written against) -/
def discountSites : List Site := AITB.Gen.Guards.sites.filter (fun s => s.fn == "setDiscount")

/-- does every one of them reject nan?  (closed Boolean term over the generated table) -/
def nanRejectedEverywhere : Bool := discountSites.all (fun s => s.g.eval .nan)

/-- OBLIGATION over the generated table (re-checked whenever a guard in the source changes):
    every setDiscount guard, nan aside, lets through exactly the interval (0,1]. -/
theorem discount_guard_table_ok :
    discountSites.all (fun s => s.g.discountOKfinite && s.g.discountComplete) = true := by decide +kernel

theorem mem_discountSites {s : Site} (hs : s ∈ discountSites) :
    s.g.discountOKfinite = true ∧ s.g.discountComplete = true := by
  have h := discount_guard_table_ok
  rw [List.all_eq_true] at h
  have := h s hs
  simpa [Bool.and_eq_true] using this

/-- `Guards.*`, the part that holds on the code as it is: what any `X::setDiscount` guard lets through, other than
    nan, is a number in (0,1].
    FULL STATEMENT (see `discount_guards_sound`): the same without `d ≠ nan`. -/
theorem discount_guards_partial (s : Site) (hs : s ∈ discountSites) (d : XRat) (hn : d ≠ .nan)
    (hd : s.g.eval d = false) : DiscOK d :=
  discountOKfinite_sound s.g (mem_discountSites hs).1 d hn hd

/-- no guard rejects a legitimate discount -/
theorem discount_guards_complete (s : Site) (hs : s ∈ discountSites) (d : XRat) (hd : DiscOK d) :
    s.g.eval d = false :=
  discountComplete_sound s.g (mem_discountSites hs).2 d hd

/-- `Guards.*` at full strength: for EVERY double d (nan, ±inf included), `¬ rejects d → 0 < d ∧ d ≤ 1`, for every
    setDiscount sibling — provided each guard rejects nan (`nanRejectedEverywhere` is a closed term over the
    generated table: it is `true` exactly when the source has the `!(d > 0.0 && d <= 1.0)` form everywhere). -/
theorem discount_guards_sound (h : nanRejectedEverywhere = true) (s : Site) (hs : s ∈ discountSites) (d : XRat)
    (hd : s.g.eval d = false) : DiscOK d := by
  by_cases hn : d = .nan
  · subst hn
    simp only [nanRejectedEverywhere, List.all_eq_true] at h
    have := h s hs
    rw [hd] at this; exact absurd this (by simp)
  · exact discount_guards_partial s hs d hn hd

/-- … and when it is `false` (the tree as first read: `d <= 0.0 || d > 1.0`), nan is a counterexample:
    some setDiscount accepts it, and nan is not a discount. -/
theorem discount_guards_nan_counterexample (h : nanRejectedEverywhere = false) :
    ∃ s ∈ discountSites, s.g.eval .nan = false ∧ ¬ DiscOK .nan := by
  simp only [nanRejectedEverywhere, List.all_eq_false] at h
  obtain ⟨s, hs, he⟩ := h
  refine ⟨s, hs, by simpa using he, ?_⟩
  rintro ⟨q, hq, _⟩
  cases hq

/-- hypotheses are satisfiable: 1/2 passes the guard of MDP::Model::setDiscount, 0 and 2 and -inf do not (test on literals) -/
example : (discGuard .dense).eval (.fin (1/2)) = false ∧ (discGuard .dense).eval (.fin 0) = true ∧
    (discGuard .dense).eval (.fin 2) = true ∧ (discGuard .sparse).eval .ninf = true := by decide +kernel

/-! ## sums over XRat -/

theorem xadd_eq_fin {x y : XRat} {c : Rat} (h : xadd x y = .fin c) : ∃ a b, x = .fin a ∧ y = .fin b ∧ c = a + b := by
  cases x <;> cases y <;> simp [xadd] at h
  exact ⟨_, _, rfl, rfl, h.symm⟩

theorem foldl_xadd_fin (qs : List Rat) (acc : Rat) :
    (qs.map XRat.fin).foldl xadd (.fin acc) = .fin (acc + sumQ qs) := by
  induction qs generalizing acc with
  | nil => simp [sumQ]
  | cons q r ih => simp only [List.map, List.foldl, xadd, ih, sumQ]; congr 1; ring

theorem sumX_fin (qs : List Rat) : sumX (qs.map .fin) = .fin (sumQ qs) := by
  simp [sumX, foldl_xadd_fin]

theorem foldl_xadd_eq_fin (l : List XRat) (acc : XRat) (q : Rat) (h : l.foldl xadd acc = .fin q) :
    ∃ a qs, acc = .fin a ∧ l = qs.map .fin ∧ q = a + sumQ qs := by
  induction l generalizing acc with
  | nil => exact ⟨q, [], h, rfl, by simp [sumQ]⟩
  | cons v r ih =>
      obtain ⟨a', qs, ha, hr, hq⟩ := ih (xadd acc v) h
      obtain ⟨a, b, hacc, hv, hab⟩ := xadd_eq_fin ha
      exact ⟨a, b :: qs, hacc, by simp [hv, hr], by simp only [sumQ]; rw [hq, hab]; ring⟩

/-- a row sums to a finite value exactly when every entry is finite (nan and ±inf are absorbing) -/
theorem sumX_eq_fin (l : List XRat) (q : Rat) (h : sumX l = .fin q) : ∃ qs, l = qs.map .fin ∧ q = sumQ qs := by
  obtain ⟨a, qs, ha, hl, hq⟩ := foldl_xadd_eq_fin l (.fin 0) q h
  cases ha
  exact ⟨qs, hl, by simpa using hq⟩

theorem eqSmall_one_iff (x : XRat) :
    eqSmall x (.fin 1) = true ↔ ∃ s, x = .fin s ∧ -tol ≤ s - 1 ∧ s - 1 ≤ tol := by
  cases x with
  | nan => simp [eqSmall, xsub, xneg, xadd, xabs, XRat.le]
  | pinf => simp [eqSmall, xsub, xneg, xadd, xabs, XRat.le]
  | ninf => simp [eqSmall, xsub, xneg, xadd, xabs, XRat.le]
  | fin s =>
      simp only [eqSmall, xsub, xneg, xadd, xabs, XRat.le, decide_eq_true_eq]
      constructor
      · intro h
        refine ⟨s, rfl, ?_⟩
        split_ifs at h with hneg <;> constructor <;> linarith
      · rintro ⟨s', hs', h1, h2⟩
        cases hs'
        split_ifs with hneg <;> linarith

/-- a row of finite numbers `qs`, each at least `lo`, summing to within `slack` of one -/
def RowDist (lo slack : Rat) (row : List XRat) : Prop :=
  ∃ qs : List Rat, row = qs.map .fin ∧ (∀ q ∈ qs, lo ≤ q) ∧ -slack ≤ sumQ qs - 1 ∧ sumQ qs - 1 ≤ slack

theorem isProbLoopAux_eq (row : List XRat) (p : XRat) :
    isProbLoopAux row p = if anyNeg row then none else some (row.foldl xadd p) := by
  induction row generalizing p with
  | nil => simp [isProbLoopAux, anyNeg]
  | cons v r ih =>
      simp only [isProbLoopAux, anyNeg, List.any_cons, List.foldl]
      by_cases hv : XRat.lt v (.fin 0) = true
      · simp [hv]
      · simp only [hv, Bool.false_or, if_false]
        have := ih (xadd p v)
        simpa [anyNeg] using this

/-- the dense-row implementation (`minCoeff() < 0 || sum != 1`) and the template loop compute the same predicate -/
theorem isProbDense_eq_loop (row : List XRat) : isProbDense row = isProbLoop row := by
  simp only [isProbDense, isProbLoop, isProbLoopAux_eq, sumX]
  by_cases h : anyNeg row = true
  · simp [h]
  · simp [h]

theorem anyNeg_fin (qs : List Rat) : anyNeg (qs.map .fin) = false ↔ ∀ q ∈ qs, 0 ≤ q := by
  simp [anyNeg, XRat.lt]

/-- **isProbability (template loop / dense row) decides exactly "finite, non-negative, sums to one within the tolerance"**,
    for every row of doubles including nan and ±inf entries. -/
theorem isProbLoop_iff (row : List XRat) : isProbLoop row = true ↔ RowDist 0 tol row := by
  rw [← isProbDense_eq_loop]
  simp only [isProbDense, Bool.not_eq_true', Bool.or_eq_false_iff, diffSmall, Bool.not_eq_false']
  constructor
  · rintro ⟨hneg, hsum⟩
    obtain ⟨s, hs, h1, h2⟩ := (eqSmall_one_iff _).1 hsum
    obtain ⟨qs, hrow, hq⟩ := sumX_eq_fin row s hs
    subst hrow
    exact ⟨qs, rfl, (anyNeg_fin qs).1 hneg, by rw [← hq]; exact h1, by rw [← hq]; exact h2⟩
  · rintro ⟨qs, hrow, hge, h1, h2⟩
    subst hrow
    exact ⟨(anyNeg_fin qs).2 hge, (eqSmall_one_iff _).2 ⟨sumQ qs, sumX_fin qs, h1, h2⟩⟩

theorem isProbDense_iff (row : List XRat) : isProbDense row = true ↔ RowDist 0 tol row := by
  rw [isProbDense_eq_loop]; exact isProbLoop_iff row

example : isProbLoop [.fin (1/4), .fin (3/4)] = true ∧ isProbLoop [.fin (1/2), .nan] = false ∧
    isProbDense [.pinf, .ninf] = false ∧ isProbSparse [.fin (3/2), .fin (-1/2)] = false := by decide +kernel

end AITB.MS
