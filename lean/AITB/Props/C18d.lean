/-
  AITB.Props.C18d — the lexical layer: `split` / `tokenize` / `trim` / `countColon` on rendered lines.
  A line written as tokens separated by runs of delimiters tokenises back to its tokens, whatever the
  amount of blank space around ':' and between values.  This discharges the token-level hypotheses of
  `MatrixLine` for lines *as characters* (`entry_line_denotes`, `row_inline_line_denotes`, `vector_line_parses`).
-/
import AITB.Props.C18c
namespace AITB.Cassandra
variable {fl : Flags}

/-! ### splitting -/

def AllD (isD : Char → Bool) (s : Str) : Prop := ∀ c ∈ s, isD c = true
def NoD (isD : Char → Bool) (s : Str) : Prop := ∀ c ∈ s, isD c = false

def curOut (cur : Str) : List Str := if cur.isEmpty then [] else [cur.reverse]

theorem splitAux_delims (isD : Char → Bool) (sep rest cur : Str) (h : AllD isD sep) (hne : sep ≠ []) :
    splitAux isD (sep ++ rest) cur = curOut cur ++ splitAux isD rest [] := by
  induction sep generalizing cur with
  | nil => exact absurd rfl hne
  | cons d t ih =>
    have hd : isD d = true := h d List.mem_cons_self
    have ht : AllD isD t := fun c hc => h c (List.mem_cons_of_mem _ hc)
    simp only [List.cons_append, splitAux, hd, if_true]
    by_cases htn : t = []
    · subst htn
      cases cur <;> simp [curOut]
    · cases cur with
      | nil => simp [curOut, ih [] ht htn]
      | cons x xs => simp [curOut, ih [] ht htn]

theorem splitAux_all_delims (isD : Char → Bool) (s cur : Str) (h : AllD isD s) :
    splitAux isD s cur = curOut cur := by
  by_cases hs : s = []
  · subst hs; simp [splitAux, curOut]
  · have := splitAux_delims isD s [] cur h hs
    simpa [splitAux] using this

theorem splitAux_token (isD : Char → Bool) (t rest cur : Str) (h : NoD isD t) :
    splitAux isD (t ++ rest) cur = splitAux isD rest (t.reverse ++ cur) := by
  induction t generalizing cur with
  | nil => rfl
  | cons c t ih =>
    have hc : isD c = false := h c List.mem_cons_self
    have ht : NoD isD t := fun x hx => h x (List.mem_cons_of_mem _ hx)
    simp only [List.cons_append, splitAux, hc, Bool.false_eq_true, if_false, ih _ ht, List.reverse_cons, List.append_assoc,
      List.singleton_append, List.nil_append]
    try simp

/-- tokens each preceded by a separator, then a trailing run of delimiters -/
def renderToks : List (Str × Str) → Str → Str
  | [], trail => trail
  | (sep, t) :: r, trail => sep ++ t ++ renderToks r trail

def GoodPair (isD : Char → Bool) (p : Str × Str) : Prop := AllD isD p.1 ∧ p.1 ≠ [] ∧ NoD isD p.2 ∧ p.2 ≠ []

theorem splitAux_render (isD : Char → Bool) (l : List (Str × Str)) (trail cur : Str)
    (hl : ∀ p ∈ l, GoodPair isD p) (ht : AllD isD trail) :
    splitAux isD (renderToks l trail) cur = curOut cur ++ l.map (·.2) := by
  induction l generalizing cur with
  | nil => simp [renderToks, splitAux_all_delims isD trail cur ht]
  | cons p r ih =>
    obtain ⟨sep, t⟩ := p
    obtain ⟨h1, h2, h3, h4⟩ := hl (sep, t) List.mem_cons_self
    have hr : ∀ q ∈ r, GoodPair isD q := fun q hq => hl q (List.mem_cons_of_mem _ hq)
    simp only [renderToks, List.append_assoc]
    rw [splitAux_delims isD sep _ cur h1 h2, splitAux_token isD t _ [] h3, ih _ hr]
    have h4' : t ≠ [] := h4
    simp [curOut, h4']

/-- a first token followed by separated tokens splits into exactly those tokens -/
theorem split_line (delims : Str) (t0 : Str) (l : List (Str × Str)) (trail : Str)
    (h0 : NoD (fun c => delims.contains c) t0) (h0n : t0 ≠ [])
    (hl : ∀ p ∈ l, GoodPair (fun c => delims.contains c) p) (ht : AllD (fun c => delims.contains c) trail) :
    split delims (t0 ++ renderToks l trail) = t0 :: l.map (·.2) := by
  unfold split
  rw [splitAux_token _ t0 _ [] h0, splitAux_render _ l trail _ hl ht]
  simp [curOut, h0n]

/-! ### trimming -/

/-- a token of the grammar: non-empty, no ':' and no white space inside -/
def Tok (t : Str) : Prop := t ≠ [] ∧ ∀ c ∈ t, c ≠ ':' ∧ isSpace c = false

theorem dropWhile_noSpace (t : Str) (h : ∀ c ∈ t, isSpace c = false) : t.dropWhile isSpace = t := by
  cases t with
  | nil => rfl
  | cons c r => simp [List.dropWhile, h c List.mem_cons_self]

theorem trim_tok (t : Str) (h : ∀ c ∈ t, isSpace c = false) : trim t = t := by
  unfold trim
  rw [dropWhile_noSpace t h, dropWhile_noSpace t.reverse (fun c hc => h c (by simpa using hc)), List.reverse_reverse]

theorem Tok.noD {t : Str} (h : Tok t) : NoD (fun c => colonSpace.contains c) t := by
  intro c hc
  obtain ⟨h1, h2⟩ := h.2 c hc
  have h3 : c ≠ ' ' := by
    intro e; subst e; simp [isSpace] at h2
  simp [colonSpace, h1, h3]

theorem Tok.noSpaceD {t : Str} (h : Tok t) : NoD (fun c => space.contains c) t := by
  intro c hc
  obtain ⟨_, h2⟩ := h.2 c hc
  have h3 : c ≠ ' ' := by
    intro e; subst e; simp [isSpace] at h2
  simp [space, h3]

theorem Tok.count {t : Str} (h : Tok t) : t.count ':' = 0 := by
  rw [List.count_eq_zero]
  intro hc
  exact (h.2 ':' hc).1 rfl

/-- a separator around a colon: blanks, exactly one ':' -/
def ColonSep (s : Str) : Prop := (∀ c ∈ s, c = ':' ∨ c = ' ') ∧ s.count ':' = 1
/-- a separator between values: one or more blanks -/
def SpaceSep (s : Str) : Prop := s ≠ [] ∧ ∀ c ∈ s, c = ' '

theorem ColonSep.allD {s : Str} (h : ColonSep s) : AllD (fun c => colonSpace.contains c) s := by
  intro c hc
  rcases h.1 c hc with rfl | rfl <;> simp [colonSpace]

theorem ColonSep.ne {s : Str} (h : ColonSep s) : s ≠ [] := by
  intro e; have := h.2; rw [e] at this; simp at this

theorem SpaceSep.allD {s : Str} (h : SpaceSep s) : AllD (fun c => colonSpace.contains c) s := by
  intro c hc
  rw [h.2 c hc]; simp [colonSpace]

theorem SpaceSep.allS {s : Str} (h : SpaceSep s) : AllD (fun c => space.contains c) s := by
  intro c hc
  rw [h.2 c hc]; simp [space]

theorem SpaceSep.count {s : Str} (h : SpaceSep s) : s.count ':' = 0 := by
  rw [List.count_eq_zero]
  intro hc
  have := h.2 ':' hc
  cases this

theorem blanks_count {s : Str} (h : ∀ c ∈ s, c = ' ') : s.count ':' = 0 := by
  rw [List.count_eq_zero]
  intro hc
  have := h ':' hc
  cases this

/-! ### the single-entry form, as characters -/

/-- **`X: a : d1 : d3 v` with any blank layout denotes the entry statement.**  `t0` is the table letter token,
    `c1 c2 c3` the three colon separators, `sp` the blanks before the value, `trail` trailing blanks. -/
theorem entry_line_denotes (D1 D2 D3 : Nat) (amap d1map d3map : IDMap) (rest : List Str)
    (t0 ta t1 t3 tv c1 c2 c3 sp trail : Str) (a d1 d3 : Sel) (v : XRat)
    (h0 : Tok t0) (ha : Tok ta) (h1 : Tok t1) (h3 : Tok t3) (hv : Tok tv)
    (hc1 : ColonSep c1) (hc2 : ColonSep c2) (hc3 : ColonSep c3) (hsp : SpaceSep sp) (htr : ∀ c ∈ trail, c = ' ')
    (ra : Resolves fl amap D2 ta a) (r1 : Resolves fl d1map D1 t1 d1) (r3 : Resolves fl d3map D3 t3 d3) (hval : stodS fl tv = .ok v) :
    MatrixLine fl D1 D2 D3 amap d1map d3map
      (t0 ++ renderToks [(c1, ta), (c2, t1), (c3, t3), (sp, tv)] trail) rest ⟨a, d1, .entry d3 v⟩ 0 := by
  have htrD : AllD (fun c => colonSpace.contains c) trail := by
    intro c hc; rw [htr c hc]; simp [colonSpace]
  have hsplit : split colonSpace (t0 ++ renderToks [(c1, ta), (c2, t1), (c3, t3), (sp, tv)] trail) = [t0, ta, t1, t3, tv] := by
    rw [split_line colonSpace t0 _ trail h0.noD h0.1 _ htrD]
    · rfl
    · intro p hp
      simp only [List.mem_cons, List.mem_nil_iff, or_false] at hp
      rcases hp with rfl | rfl | rfl | rfl
      · exact ⟨hc1.allD, hc1.ne, ha.noD, ha.1⟩
      · exact ⟨hc2.allD, hc2.ne, h1.noD, h1.1⟩
      · exact ⟨hc3.allD, hc3.ne, h3.noD, h3.1⟩
      · exact ⟨hsp.allD, hsp.1, hv.noD, hv.1⟩
  have htok : tokenize colonSpace (t0 ++ renderToks [(c1, ta), (c2, t1), (c3, t3), (sp, tv)] trail) = [t0, ta, t1, t3, tv] := by
    unfold tokenize
    rw [hsplit]
    simp [trim_tok _ (fun c hc => (h0.2 c hc).2), trim_tok _ (fun c hc => (ha.2 c hc).2), trim_tok _ (fun c hc => (h1.2 c hc).2),
      trim_tok _ (fun c hc => (h3.2 c hc).2), trim_tok _ (fun c hc => (hv.2 c hc).2)]
  have hcount : countColon (t0 ++ renderToks [(c1, ta), (c2, t1), (c3, t3), (sp, tv)] trail) = 3 := by
    simp only [countColon, renderToks, List.count_append, h0.count, ha.count, h1.count, h3.count, hv.count,
      hc1.2, hc2.2, hc3.2, hsp.count, blanks_count htr]
  refine .entry hcount ?_ ?_ ?_ ?_ ra r1 r3 hval (fun _ => by rw [htok]; rfl) <;> rw [htok] <;> rfl

/-! ### vectors, as characters -/

theorem mapM_trim_toks (l : List (Str × Str)) (h : ∀ p ∈ l, Tok p.2) : (l.map (·.2)).map trim = l.map (·.2) := by
  induction l with
  | nil => rfl
  | cons p r ih =>
    simp only [List.map_cons]
    rw [trim_tok _ (fun c hc => ((h p List.mem_cons_self).2 c hc).2), ih (fun q hq => h q (List.mem_cons_of_mem _ hq))]

/-- **a line of D3 blank-separated numbers parses to those numbers** (next-line rows, matrix rows) -/
theorem vector_line_parses (t0 : Str) (l : List (Str × Str)) (trail : Str) (N : Nat) (vs : List XRat)
    (h0 : Tok t0) (hl : ∀ p ∈ l, SpaceSep p.1 ∧ Tok p.2) (htr : ∀ c ∈ trail, c = ' ')
    (hN : l.length + 1 = N) (hvs : (t0 :: l.map (·.2)).mapM (stodS fl) = .ok vs) :
    parseVector fl (t0 ++ renderToks l trail) N = .ok vs := by
  have htrD : AllD (fun c => space.contains c) trail := by
    intro c hc; rw [htr c hc]; simp [space]
  have hsplit : split space (t0 ++ renderToks l trail) = t0 :: l.map (·.2) := by
    apply split_line space t0 l trail h0.noSpaceD h0.1 _ htrD
    intro p hp
    exact ⟨(hl p hp).1.allS, (hl p hp).1.1, (hl p hp).2.noSpaceD, (hl p hp).2.1⟩
  unfold parseVector tokenize
  rw [hsplit, List.map_cons, trim_tok _ (fun c hc => (h0.2 c hc).2), mapM_trim_toks l (fun p hp => (hl p hp).2)]
  exact (parseVectorToks_iff _ _ _).2 ⟨by simp [hN], hvs⟩

/-! ### the row form with inline values, as characters -/

theorem count_renderToks_spaces (l : List (Str × Str)) (trail : Str)
    (hl : ∀ p ∈ l, SpaceSep p.1 ∧ Tok p.2) (htr : ∀ c ∈ trail, c = ' ') : (renderToks l trail).count ':' = 0 := by
  induction l with
  | nil => exact blanks_count htr
  | cons p r ih =>
    obtain ⟨sep, t⟩ := p
    have := hl (sep, t) List.mem_cons_self
    simp only [renderToks, List.count_append, this.1.count, this.2.count, ih (fun q hq => hl q (List.mem_cons_of_mem _ hq))]

/-- **`X: a : d1 v_0 … v_{D3-1}` with any blank layout denotes the row statement** -/
theorem row_inline_line_denotes (D1 D2 D3 : Nat) (amap d1map d3map : IDMap) (rest : List Str)
    (t0 ta t1 c1 c2 trail : Str) (vals : List (Str × Str)) (a d1 : Sel) (vs : List XRat)
    (h0 : Tok t0) (ha : Tok ta) (h1 : Tok t1) (hc1 : ColonSep c1) (hc2 : ColonSep c2)
    (hvals : ∀ p ∈ vals, SpaceSep p.1 ∧ Tok p.2) (htr : ∀ c ∈ trail, c = ' ')
    (ra : Resolves fl amap D2 ta a) (r1 : Resolves fl d1map D1 t1 d1)
    (hN : vals.length = D3) (hvs : (vals.map (·.2)).mapM (stodS fl) = .ok vs) :
    MatrixLine fl D1 D2 D3 amap d1map d3map
      (t0 ++ renderToks ((c1, ta) :: (c2, t1) :: vals) trail) rest ⟨a, d1, .row vs⟩ 0 := by
  have htrD : AllD (fun c => colonSpace.contains c) trail := by
    intro c hc; rw [htr c hc]; simp [colonSpace]
  have hsplit : split colonSpace (t0 ++ renderToks ((c1, ta) :: (c2, t1) :: vals) trail) = t0 :: ta :: t1 :: vals.map (·.2) := by
    rw [split_line colonSpace t0 _ trail h0.noD h0.1 _ htrD]
    · rfl
    · intro p hp
      simp only [List.mem_cons] at hp
      rcases hp with rfl | rfl | hp
      · exact ⟨hc1.allD, hc1.ne, ha.noD, ha.1⟩
      · exact ⟨hc2.allD, hc2.ne, h1.noD, h1.1⟩
      · exact ⟨(hvals p hp).1.allD, (hvals p hp).1.1, (hvals p hp).2.noD, (hvals p hp).2.1⟩
  have htok : tokenize colonSpace (t0 ++ renderToks ((c1, ta) :: (c2, t1) :: vals) trail) = t0 :: ta :: t1 :: vals.map (·.2) := by
    unfold tokenize
    rw [hsplit]
    simp only [List.map_cons]
    rw [trim_tok _ (fun c hc => (h0.2 c hc).2), trim_tok _ (fun c hc => (ha.2 c hc).2), trim_tok _ (fun c hc => (h1.2 c hc).2),
      mapM_trim_toks vals (fun p hp => (hvals p hp).2)]
  have hcount : countColon (t0 ++ renderToks ((c1, ta) :: (c2, t1) :: vals) trail) = 2 := by
    simp only [countColon, renderToks, List.count_append, h0.count, ha.count, h1.count, hc1.2, hc2.2,
      count_renderToks_spaces vals trail hvals htr]
  refine .rowInline hcount ?_ ?_ ra r1 ?_ ?_
  · rw [htok]; rfl
  · rw [htok]; rfl
  · rw [htok]; simp [hN]; omega
  · rw [htok]; simpa using hvs

/-! ### the row form with the values on the next line, and the matrix form, as characters -/

theorem header_tokens (t0 : Str) (l : List (Str × Str)) (trail : Str) (h0 : Tok t0)
    (hl : ∀ p ∈ l, ColonSep p.1 ∧ Tok p.2) (htr : ∀ c ∈ trail, c = ' ') :
    tokenize colonSpace (t0 ++ renderToks l trail) = t0 :: l.map (·.2) ∧
    countColon (t0 ++ renderToks l trail) = l.length := by
  have htrD : AllD (fun c => colonSpace.contains c) trail := by
    intro c hc; rw [htr c hc]; simp [colonSpace]
  constructor
  · unfold tokenize
    rw [split_line colonSpace t0 l trail h0.noD h0.1 _ htrD]
    · rw [List.map_cons, trim_tok _ (fun c hc => (h0.2 c hc).2), mapM_trim_toks l (fun p hp => (hl p hp).2)]
    · intro p hp
      exact ⟨(hl p hp).1.allD, (hl p hp).1.ne, (hl p hp).2.noD, (hl p hp).2.1⟩
  · have : ∀ (l : List (Str × Str)), (∀ p ∈ l, ColonSep p.1 ∧ Tok p.2) → (renderToks l trail).count ':' = l.length := by
      intro l
      induction l with
      | nil => intro _; exact blanks_count htr
      | cons p r ih =>
        intro hl
        obtain ⟨sep, t⟩ := p
        have hp := hl (sep, t) List.mem_cons_self
        simp only [renderToks, List.count_append, hp.1.2, hp.2.count, ih (fun q hq => hl q (List.mem_cons_of_mem _ hq)), List.length_cons]
        omega
    simp only [countColon, List.count_append, h0.count, this l hl]
    omega

/-- **`X: a : d1` followed by a line of D3 numbers denotes the row statement** -/
theorem row_next_line_denotes (D1 D2 D3 : Nat) (amap d1map d3map : IDMap) (rest : List Str)
    (t0 ta t1 c1 c2 trail vline : Str) (a d1 : Sel) (vs : List XRat)
    (h0 : Tok t0) (ha : Tok ta) (h1 : Tok t1) (hc1 : ColonSep c1) (hc2 : ColonSep c2) (htr : ∀ c ∈ trail, c = ' ')
    (ra : Resolves fl amap D2 ta a) (r1 : Resolves fl d1map D1 t1 d1) (hD : D3 ≠ 0)
    (hv : parseVector fl vline D3 = .ok vs) :
    MatrixLine fl D1 D2 D3 amap d1map d3map (t0 ++ renderToks [(c1, ta), (c2, t1)] trail) (vline :: rest) ⟨a, d1, .row vs⟩ 1 := by
  obtain ⟨htok, hcount⟩ := header_tokens t0 [(c1, ta), (c2, t1)] trail h0
    (by intro p hp; simp only [List.mem_cons, List.mem_nil_iff, or_false] at hp; rcases hp with rfl | rfl; exact ⟨hc1, ha⟩; exact ⟨hc2, h1⟩) htr
  refine .rowNext hcount ?_ ?_ ra r1 ?_ hD rfl hv
  · rw [htok]; rfl
  · rw [htok]; rfl
  · rw [htok]; rfl

/-- **`X: a` followed by D1 lines of D3 numbers denotes the matrix statement** -/
theorem matrix_lines_denote (D1 D2 D3 : Nat) (amap d1map d3map : IDMap) (rest : List Str)
    (t0 ta c1 trail : Str) (a : Sel) (rows : List (List XRat))
    (h0 : Tok t0) (ha : Tok ta) (hc1 : ColonSep c1) (htr : ∀ c ∈ trail, c = ' ')
    (ra : Resolves fl amap D2 ta a) (hl : rows.length = D1) (hle : D1 ≤ rest.length) (hrows : RowsDenote fl D3 (rest.take D1) rows) :
    MatrixLine fl D1 D2 D3 amap d1map d3map (t0 ++ renderToks [(c1, ta)] trail) rest ⟨a, .all, .matrix rows⟩ D1 := by
  obtain ⟨htok, hcount⟩ := header_tokens t0 [(c1, ta)] trail h0
    (by intro p hp; simp only [List.mem_cons, List.mem_nil_iff, or_false] at hp; subst hp; exact ⟨hc1, ha⟩) htr
  refine .matrix hcount ?_ ra hl hle hrows
  rw [htok]; rfl

/-! ### numbers -/

/-- a token made of decimal digits denotes its decimal value (below 2^64) -/
theorem stoul_digits (ds : Str) (hne : ds ≠ []) (hd : ∀ c ∈ ds, isDigit c = true) (hlt : digitsVal ds < two64) :
    stoul ds = .ok (digitsVal ds) := by
  have hns : ∀ c ∈ ds, isSpace c = false := by
    intro c hc
    have := hd c hc
    simp only [isDigit, Bool.and_eq_true, decide_eq_true_eq] at this
    have h1 : '0'.toNat ≤ c.toNat := this.1
    have hc32 : c ≠ ' ' := by intro e; subst e; revert h1; decide
    have hc9 : c ≠ '\t' := by intro e; subst e; revert h1; decide
    have hc10 : c ≠ '\n' := by intro e; subst e; revert h1; decide
    have hc11 : c ≠ '\x0b' := by intro e; subst e; revert h1; decide
    have hc12 : c ≠ '\x0c' := by intro e; subst e; revert h1; decide
    have hc13 : c ≠ '\r' := by intro e; subst e; revert h1; decide
    simp [isSpace, hc32, hc9, hc10, hc11, hc12, hc13]
  unfold stoul
  rw [dropWhile_noSpace ds hns]
  cases ds with
  | nil => exact absurd rfl hne
  | cons c r =>
    have hcd := hd c List.mem_cons_self
    have hsign : takeSign (c :: r) = (false, c :: r) := by
      have hm : c ≠ '-' := by intro e; subst e; revert hcd; decide
      have hp : c ≠ '+' := by intro e; subst e; revert hcd; decide
      unfold takeSign
      split
      · rename_i heq; injection heq with h1 _; exact absurd h1 hm
      · rename_i heq; injection heq with h1 _; exact absurd h1 hp
      · rfl
    rw [hsign]
    have htwg : ∀ (l : Str), (∀ x ∈ l, isDigit x = true) → l.takeWhile isDigit = l := by
      intro l
      induction l with
      | nil => intro _; rfl
      | cons x t ih =>
        intro hx
        simp [List.takeWhile, hx x List.mem_cons_self, ih (fun y hy => hx y (List.mem_cons_of_mem _ hy))]
    have htw : (c :: r).takeWhile isDigit = c :: r := htwg _ hd
    simp only [htw]
    have : ¬ (digitsVal (c :: r) ≥ two64) := by omega
    simp [this]

/-- … and it is converted whole: `pos` is the token length, so the strict helper accepts it too -/
theorem stoulPos_digits (ds : Str) (hne : ds ≠ []) (hd : ∀ c ∈ ds, isDigit c = true) : stoulPos ds = ds.length := by
  have hns : ∀ c ∈ ds, isSpace c = false := by
    intro c hc
    have := hd c hc
    simp only [isDigit, Bool.and_eq_true, decide_eq_true_eq] at this
    have h1 : '0'.toNat ≤ c.toNat := this.1
    have hc32 : c ≠ ' ' := by intro e; subst e; revert h1; decide
    have hc9 : c ≠ '\t' := by intro e; subst e; revert h1; decide
    have hc10 : c ≠ '\n' := by intro e; subst e; revert h1; decide
    have hc11 : c ≠ '\x0b' := by intro e; subst e; revert h1; decide
    have hc12 : c ≠ '\x0c' := by intro e; subst e; revert h1; decide
    have hc13 : c ≠ '\r' := by intro e; subst e; revert h1; decide
    simp [isSpace, hc32, hc9, hc10, hc11, hc12, hc13]
  unfold stoulPos
  rw [dropWhile_noSpace ds hns]
  cases ds with
  | nil => exact absurd rfl hne
  | cons c r =>
    have hcd := hd c List.mem_cons_self
    have hcs : isSpace c = false := hns c List.mem_cons_self
    have hm : c ≠ '-' := by intro e; subst e; revert hcd; decide
    have hp : c ≠ '+' := by intro e; subst e; revert hcd; decide
    have hsl : signLen (c :: r) = 0 := by
      unfold signLen
      split
      · rename_i heq; injection heq with h1 _; exact absurd h1 hm
      · rename_i heq; injection heq with h1 _; exact absurd h1 hp
      · rfl
    have hsign : takeSign (c :: r) = (false, c :: r) := by
      unfold takeSign
      split
      · rename_i heq; injection heq with h1 _; exact absurd h1 hm
      · rename_i heq; injection heq with h1 _; exact absurd h1 hp
      · rfl
    have htwg : ∀ (l : Str), (∀ x ∈ l, isDigit x = true) → l.takeWhile isDigit = l := by
      intro l
      induction l with
      | nil => intro _; rfl
      | cons x t ih =>
        intro hx
        simp [List.takeWhile, hx x List.mem_cons_self, ih (fun y hy => hx y (List.mem_cons_of_mem _ hy))]
    simp only [hsl, hsign, htwg (c :: r) hd]
    simp [List.takeWhile, hcs]

theorem stoulS_digits (fl : Flags) (ds : Str) (hne : ds ≠ []) (hd : ∀ c ∈ ds, isDigit c = true) (hlt : digitsVal ds < two64) :
    stoulS fl ds = .ok (digitsVal ds) := by
  unfold stoulS
  simp [stoul_digits ds hne hd hlt, stoulPos_digits ds hne hd, bind, Except.bind, pure, Except.pure]

end AITB.Cassandra
