/-
  AITB.Props.C04g — `execReturn` IS the expectation over observation histories.

  `execReturn` is defined by recursion (take the action, branch on the observation).  Here it is shown equal to the
  explicit sum over ALL observation histories: for every prefix length k < h the discounted reward collected after
  each history of length k, plus the discounted terminal value after each history of length h — each weighted by
  the probability of that history (carried by the unnormalised belief).  The entries visited along a history are
  exactly those `Policy::sampleAction(id, o, h)` returns (`follow`).
-/
import AITB.Props.C04c

namespace AITB.Plan
open Finset

/-- all observation histories of length `k` -/
def allHists (O : Nat) : Nat → List (List Nat)
  | 0 => [[]]
  | k+1 => (List.range O).flatMap (fun o => (allHists O k).map (fun os => o :: os))

/-- where the execution stands after observing `os` from `(h, id, b)`: remaining horizon, entry id, unnormalised
    belief (its mass is the probability of `os`) -/
def reach (m : Pomdp) (vf : VF) : Nat → Nat → (Nat → Rat) → List Nat → Nat × Nat × (Nat → Rat)
  | h, id, b, [] => (h, id, b)
  | 0, id, b, _ :: _ => (0, id, b)
  | h+1, id, b, o :: os => reach m vf h (link (entry vf (h+1) id) o) (tau m b (entry vf (h+1) id).action o) os

/-- probability-weighted reward of the action taken after history `os` -/
def stepReward (m : Pomdp) (vf : VF) (h id : Nat) (b : Nat → Rat) (os : List Nat) : Rat :=
  let r := reach m vf h id b os
  rewardB m r.2.2 (entry vf r.1 r.2.1).action

/-- probability-weighted terminal value after history `os` -/
def termValue (m : Pomdp) (vf : VF) (h id : Nat) (b : Nat → Rat) (os : List Nat) : Rat :=
  let r := reach m vf h id b os
  dot m.S r.2.2 (val (entry vf r.1 r.2.1))

theorem follow_nil (vf : VF) (h id : Nat) : follow vf h id [] = [] := by cases h <;> rfl

/-- the entry ids visited along a history are the ones the Policy replay reports -/
theorem reach_id_eq_follow (m : Pomdp) (vf : VF) : ∀ (h id : Nat) (b : Nat → Rat) (os : List Nat), os ≠ [] → os.length ≤ h →
    some (reach m vf h id b os).2.1 = ((follow vf h id os).getLast?).map (·.2)
  | _, _, _, [], hne, _ => absurd rfl hne
  | 0, _, _, _ :: _, _, hl => by simp at hl
  | h+1, id, b, [o], _, _ => by simp [reach, follow, sampleActionIdO, follow_nil, policyLinkLevel_eq]
  | h+1, id, b, o :: o' :: os, _, hl => by
    have ih := reach_id_eq_follow m vf h (link (entry vf (h+1) id) o) (tau m b (entry vf (h+1) id).action o) (o' :: os)
      (by simp) (by simpa using hl)
    rw [reach, ih]
    cases h with
    | zero => simp at hl
    | succ h => simp [follow, sampleActionIdO, policyLinkLevel_eq]

theorem sum_map_flatMap {α β : Type} (l : List α) (g : α → List β) (F : β → Rat) :
    ((l.flatMap g).map F).sum = (l.map (fun x => ((g x).map F).sum)).sum := by
  induction l with
  | nil => simp
  | cons x xs ih => simp [List.flatMap_cons, ih]

theorem sum_allHists_succ (O k : Nat) (F : List Nat → Rat) :
    ((allHists O (k+1)).map F).sum = sumTo O (fun o => ((allHists O k).map (fun os => F (o :: os))).sum) := by
  rw [allHists, sum_map_flatMap, sum_map_range]
  apply sumTo_congr
  intro o _
  rw [List.map_map]; rfl

theorem sumTo_succ' (n : Nat) (f : Nat → Rat) : sumTo (n+1) f = f 0 + sumTo n (fun k => f (k+1)) := by
  rw [sumTo_eq, sumTo_eq, Finset.sum_range_succ']; ring

/-- **execReturn_eq_history_sum.**  For every POMDP, value function, horizon, start entry and belief (no
    consistency assumed): the recursive `execReturn` equals the explicit probability-weighted sum over all
    observation histories of the discounted rewards and of the terminal value. -/
theorem execReturn_eq_history_sum (m : Pomdp) (vf : VF) : ∀ (h id : Nat) (b : Nat → Rat),
    execReturn m vf h id b =
      sumTo h (fun k => m.disc ^ k * ((allHists m.O k).map (stepReward m vf h id b)).sum) +
      m.disc ^ h * ((allHists m.O h).map (termValue m vf h id b)).sum := by
  intro h
  induction h with
  | zero => intro id b; simp [execReturn, sumTo, allHists, termValue, reach]
  | succ h ih =>
    intro id b
    rw [execReturn_succ, sumTo_succ']
    have hstep : ∀ k, ((allHists m.O (k+1)).map (stepReward m vf (h+1) id b)).sum =
        sumTo m.O (fun o => ((allHists m.O k).map
          (stepReward m vf h (link (entry vf (h+1) id) o) (tau m b (entry vf (h+1) id).action o))).sum) := by
      intro k; rw [sum_allHists_succ]; rfl
    have hterm : ((allHists m.O (h+1)).map (termValue m vf (h+1) id b)).sum =
        sumTo m.O (fun o => ((allHists m.O h).map
          (termValue m vf h (link (entry vf (h+1) id) o) (tau m b (entry vf (h+1) id).action o))).sum) := by
      rw [sum_allHists_succ]; rfl
    have h0 : ((allHists m.O 0).map (stepReward m vf (h+1) id b)).sum = rewardB m b (entry vf (h+1) id).action := by
      simp [allHists, stepReward, reach]
    have e1 : sumTo h (fun k => m.disc ^ (k+1) * ((allHists m.O (k+1)).map (stepReward m vf (h+1) id b)).sum) =
        sumTo h (fun k => m.disc ^ (k+1) * sumTo m.O (fun o => ((allHists m.O k).map
          (stepReward m vf h (link (entry vf (h+1) id) o) (tau m b (entry vf (h+1) id).action o))).sum)) :=
      sumTo_congr (fun k _ => by rw [hstep k])
    have e2 : sumTo m.O (fun o => execReturn m vf h (link (entry vf (h+1) id) o) (tau m b (entry vf (h+1) id).action o)) =
        sumTo m.O (fun o =>
          sumTo h (fun k => m.disc ^ k * ((allHists m.O k).map
            (stepReward m vf h (link (entry vf (h+1) id) o) (tau m b (entry vf (h+1) id).action o))).sum) +
          m.disc ^ h * ((allHists m.O h).map
            (termValue m vf h (link (entry vf (h+1) id) o) (tau m b (entry vf (h+1) id).action o))).sum) :=
      sumTo_congr (fun o _ => ih _ _)
    rw [h0, hterm, e1, e2]
    simp only [sumTo_eq]
    simp only [Finset.mul_sum, Finset.sum_add_distrib, mul_add, pow_zero, one_mul]
    rw [Finset.sum_comm, ← add_assoc]
    congr 1
    · congr 1
      apply Finset.sum_congr rfl; intro k _
      apply Finset.sum_congr rfl; intro o _
      ring
    · apply Finset.sum_congr rfl; intro o _
      ring

end AITB.Plan
