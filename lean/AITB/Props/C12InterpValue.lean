/-
  AITB.Props.C12InterpValue — the defects of the as-found source text of `sawtoothInterpolation` /
  `LPInterpolation` concern the returned WEIGHTS (and crashes on an empty point set), never the returned VALUE.

  1. `sawtooth_value_variant_independent`: whenever two readings both return, they return the same value
     (the value is `min (basicV, point·cv + minCF)` in every reading).
  2. `lpInterp_value_tail_independent`: where the LP solution is stored (`lpTail`) does not influence the value
     (nor whether a value is returned).
  3. `sawtooth_defined_of_nonempty` / `sawtooth_asFound_defined_of_helpful`: with a non-empty point set every
     reading returns; the as-found `none` (index into an empty point set) needs `pts = []`.
-/
import AITB.Props.C12Interp
import Mathlib.Algebra.Order.Field.Rat
import Mathlib.Tactic.Linarith

namespace AITB.Interp
open AITB.Prune

/-! ## 1. sawtooth: the value does not depend on the reading -/

/-- in every reading the returned value is the smaller of the corner-only value `basicV` and
    `v = point·cv + minCF`: it is one of the two and it is below the other -/
theorem sawtooth_value_cases (V : Variant) (point : Vec) (ubQ : List Vec) (A : Nat) (pts : List Vec) (vals : Vec)
    (o : Out) (h : sawtooth V point ubQ A pts vals = some o) :
    (o.value = basicV point ubQ A ∧
        basicV point ubQ A ≤ dot point (cornerVals ubQ) + (sawLoop point (cornerVals ubQ) pts vals 0 {}).minCF) ∨
    (o.value = dot point (cornerVals ubQ) + (sawLoop point (cornerVals ubQ) pts vals 0 {}).minCF ∧
        dot point (cornerVals ubQ) + (sawLoop point (cornerVals ubQ) pts vals 0 {}).minCF ≤ basicV point ubQ A) := by
  rw [sawtooth_eq] at h
  cases hV : V.sawStrict
  · simp only [hV, Bool.false_eq_true, if_false] at h
    by_cases hc : basicV point ubQ A ≤
        dot point (cornerVals ubQ) + (sawLoop point (cornerVals ubQ) pts vals 0 {}).minCF
    · rw [if_pos (decide_eq_true hc)] at h
      cases h
      exact Or.inl ⟨rfl, hc⟩
    · rw [if_neg (by simpa using hc)] at h
      exact Or.inr ⟨sawTail_value h, le_of_lt (not_le.mp hc)⟩
  · simp only [hV, if_true] at h
    by_cases hc : basicV point ubQ A <
        dot point (cornerVals ubQ) + (sawLoop point (cornerVals ubQ) pts vals 0 {}).minCF
    · rw [if_pos (decide_eq_true hc)] at h
      cases h
      exact Or.inl ⟨rfl, le_of_lt hc⟩
    · rw [if_neg (by simpa using hc)] at h
      exact Or.inr ⟨sawTail_value h, not_lt.mp hc⟩

/-- 1: two readings of `sawtoothInterpolation` that both return on an input return the same value.
    The only reading-dependent decision is `basicV < v` vs `basicV ≤ v`; they differ only when `basicV = v`,
    where both branches return the same number.  `sawNoOffset` only occurs in the weights. -/
theorem sawtooth_value_variant_independent (V1 V2 : Variant) (point : Vec) (ubQ : List Vec) (A : Nat)
    (pts : List Vec) (vals : Vec) (o1 o2 : Out)
    (h1 : sawtooth V1 point ubQ A pts vals = some o1) (h2 : sawtooth V2 point ubQ A pts vals = some o2) :
    o1.value = o2.value := by
  rcases sawtooth_value_cases V1 point ubQ A pts vals o1 h1 with ⟨e1, l1⟩ | ⟨e1, l1⟩ <;>
    rcases sawtooth_value_cases V2 point ubQ A pts vals o2 h2 with ⟨e2, l2⟩ | ⟨e2, l2⟩ <;>
    rw [e1, e2] <;> linarith

/-- test: 1 on the harness input where the readings' weights differ (value 11/4 in both) -/
example : (sawtooth asFound [1/2,1/4,1/4] [[4],[5],[6]] 1 [[1/4,1/2,1/4]] [1]).map (·.value) = some (11/4) ∧
    (sawtooth repaired [1/2,1/4,1/4] [[4],[5],[6]] 1 [[1/4,1/2,1/4]] [1]).map (·.value) = some (11/4) := by
  decide +kernel

/-- test: 1 on the harness input with `basicV = v`, where the readings take different branches
    (as-found: uninitialised weights; repaired: early exit) and still return the same value 19/4 -/
example : (sawtooth asFound [1/2,1/4,1/4] [[4],[5],[6]] 1 [[1/4,1/2,1/4]] [100]).map (·.value) = some (19/4) ∧
    (sawtooth repaired [1/2,1/4,1/4] [[4],[5],[6]] 1 [[1/4,1/2,1/4]] [100]).map (·.value) = some (19/4) := by
  decide +kernel

/-! ## 2. LPInterpolation: the value does not depend on where the LP solution is stored -/

/-- 2: `lpTail` only occurs in the weights: the two placements return on the same inputs, with the same value -/
theorem lpInterp_value_tail_independent (t1 t2 r a b : Bool) (lp : LpIn → Option (Rat × Vec)) (point : Vec)
    (ubQ : List Vec) (A : Nat) (pts : List Vec) (vals : Vec) :
    (lpInterp ⟨t1, r, a, b⟩ lp point ubQ A pts vals).map (·.value) =
      (lpInterp ⟨t2, r, a, b⟩ lp point ubQ A pts vals).map (·.value) := by
  rw [lpInterp_eq, lpInterp_eq]
  by_cases hc : (lpCompat point pts).isEmpty = true
  · rw [if_pos hc, if_pos hc]
  · rw [if_neg hc, if_neg hc]
    cases lpSol r lp point (cornerVals ubQ) pts vals (lpCompat point pts) with
    | none => rfl
    | some s => rfl

/-- test: 2 on the harness input of the slot witnesses (weights differ, value 3/2 in both) -/
example :
    (lpInterp asFound (fun _ => some (-3, [1/2, 1/2])) [1/2, 1/2, 0] [[4,2],[3,5],[1,6]] 2
        [[1/4,3/4,0],[3/4,1/4,0],[1/4,1/4,1/2]] [2,1,0]).map (·.value) = some (3/2) ∧
    (lpInterp ⟨false, true, true, true⟩ (fun _ => some (-3, [1/2, 1/2])) [1/2, 1/2, 0] [[4,2],[3,5],[1,6]] 2
        [[1/4,3/4,0],[3/4,1/4,0],[1/4,1/4,1/2]] [2,1,0]).map (·.value) = some (3/2) := by
  decide +kernel

/-! ## 3. sawtooth: with a non-empty point set every reading returns -/

/-- one loop step records the current index or keeps the old one -/
theorem sawStep_minI (point cv : Vec) (acc : SawAcc) (i : Nat) (p : Vec) (val : Rat) :
    (sawStep point cv acc i p val).minI = acc.minI ∨ (sawStep point cv acc i p val).minI = i := by
  rcases sawStep_cases point cv acc i p val with h | ⟨c0, _, _, h⟩
  · exact Or.inl (by rw [h])
  · exact Or.inr (by rw [h])

/-- the recorded index stays below any bound `n` that covers the start value and every visited index -/
theorem sawLoop_minI_lt (point cv : Vec) (n : Nat) : ∀ (ps : List Vec) (vs : Vec) (i : Nat) (acc : SawAcc),
    acc.minI < n → i + ps.length ≤ n → (sawLoop point cv ps vs i acc).minI < n
  | [], _, _, _, h, _ => by simpa [sawLoop] using h
  | _ :: _, [], _, _, h, _ => by simpa [sawLoop] using h
  | p :: ps, v :: vs, i, acc, h, hn => by
    rw [sawLoop]
    simp only [List.length_cons] at hn
    apply sawLoop_minI_lt point cv n ps vs (i+1) _ _ (by omega)
    rcases sawStep_minI point cv acc i p v with e | e <;> rw [e] <;> omega

/-- with a non-empty point set the recorded index always names an existing stored point
    (it starts at 0 and is only ever overwritten by the index of a visited point) -/
theorem sawLoop_minI_lt_length (point cv : Vec) (pts : List Vec) (vals : Vec) (hne : pts ≠ []) :
    (sawLoop point cv pts vals 0 {}).minI < pts.length := by
  apply sawLoop_minI_lt point cv pts.length pts vals 0 {}
  · exact List.length_pos_iff.mpr hne
  · omega

/-- 3 (general form): with a non-empty point set EVERY reading returns — the only `none` of the model
    (`pts[minI]` does not exist) needs `pts = []`.  Neither `vals.length = pts.length` nor the repaired reading's
    definedness is needed. -/
theorem sawtooth_defined_of_nonempty (V : Variant) (point : Vec) (ubQ : List Vec) (A : Nat) (pts : List Vec)
    (vals : Vec) (hne : pts ≠ []) : (sawtooth V point ubQ A pts vals).isSome = true := by
  have hT : (sawTail V point (cornerVals ubQ) pts (sawLoop point (cornerVals ubQ) pts vals 0 {})).isSome = true := by
    have hlt := sawLoop_minI_lt_length point (cornerVals ubQ) pts vals hne
    unfold sawTail
    rw [List.getElem?_eq_getElem hlt]
    simp only
    cases (sawLoop point (cornerVals ubQ) pts vals 0 {}).minC <;> rfl
  rw [sawtooth_eq]
  generalize (if V.sawStrict then
      decide (basicV point ubQ A < dot point (cornerVals ubQ) + (sawLoop point (cornerVals ubQ) pts vals 0 {}).minCF)
    else
      decide (basicV point ubQ A ≤ dot point (cornerVals ubQ) + (sawLoop point (cornerVals ubQ) pts vals 0 {}).minCF)) = c
  cases c
  · simpa using hT
  · rfl

/-- 3 (as requested; the hypothesis `vals.length = pts.length` is dropped as unnecessary, and the hypothesis on
    the repaired reading is not used either — see `sawtooth_defined_of_nonempty`): the as-found reading returns
    whenever the repaired one does and the point set is non-empty -/
theorem sawtooth_asFound_defined_of_helpful (point : Vec) (ubQ : List Vec) (A : Nat) (pts : List Vec) (vals : Vec)
    (hne : pts ≠ []) (_h : (sawtooth repaired point ubQ A pts vals).isSome = true) :
    (sawtooth asFound point ubQ A pts vals).isSome = true :=
  sawtooth_defined_of_nonempty asFound point ubQ A pts vals hne

/-- contrapositive of 3: in any reading, "no value" (`none`, the source indexes a stored point that does not
    exist) happens on the empty point set only.  (On the empty point set the repaired reading is defined under the
    well-formedness hypotheses of `sawtooth_repaired_total`; the as-found one is not,
    `sawtooth_asFound_crash_witness`.) -/
theorem sawtooth_none_only_if_empty (V : Variant) (point : Vec) (ubQ : List Vec) (A : Nat) (pts : List Vec)
    (vals : Vec) (h : sawtooth V point ubQ A pts vals = none) : pts = [] := by
  by_contra hne
  have := sawtooth_defined_of_nonempty V point ubQ A pts vals hne
  rw [h] at this
  cases this

/-- test: the non-emptiness hypothesis of 3 cannot be dropped (`sawtooth_asFound_crash_witness`), while the
    repaired reading returns on that input -/
example : (sawtooth repaired [1/2,1/4,1/4] [[4],[5],[6]] 1 [] []).isSome = true ∧
    (sawtooth asFound [1/2,1/4,1/4] [[4],[5],[6]] 1 [] []).isSome = false := by decide +kernel

end AITB.Interp
