/-
  AITB.Props.C06Loader — property C06, round 3: loading a model from a stream either leaves the object unchanged (stream failure
  or exception) or replaces it by a valid model holding exactly the tables read — for every class, prior object (valid or not),
  and every stream content (truncated anywhere, any discount incl. nan/inf, any tables).
-/
import AITB.Model.Loader
import AITB.Props.C06Full

set_option linter.unusedTactic false
set_option linter.unreachableTactic false
set_option linter.unusedVariables false
set_option linter.unusedSimpArgs false

namespace AITB.MS
open AITB AITB.Guard

/-- the reader's default object always exists (discount 1.0 passes the constructor's own guard) -/
theorem load_default_exists (k : Rep) (S A : Nat) : ∃ s, ctorBasic k S A (.fin 1) = some s := by
  cases h : ctorBasic k S A (.fin 1) with
  | some s => exact ⟨s, rfl⟩
  | none => exact absurd ⟨1, rfl, by norm_num, by norm_num⟩ ((ctorBasic_rejects_iff k S A (.fin 1)).1 h)

/-- **a failed load leaves the object unchanged** — whatever was in the stream and whatever the object held -/
theorem loadFrom_failed_unchanged (kk : Kind) (m in0 : St) (p : Parsed) (h : (loadFrom kk m in0 p).2 ≠ .loaded) :
    (loadFrom kk m in0 p).1 = m := by
  cases p with
  | nothing => rfl
  | disc d => simp only [loadFrom]; split_ifs <;> rfl
  | discT d t => simp only [loadFrom]; split_ifs <;> rfl
  | all d t r =>
    simp only [loadFrom] at h ⊢
    split_ifs at h ⊢ with h1 h2
    · rfl
    · rfl
    · exact absurd rfl h

theorem load_failed_unchanged (k : Rep) (m : St) (p : Parsed) (h : (load k m p).2 ≠ .loaded) : (load k m p).1 = m := by
  unfold load at h ⊢
  cases hc : ctorBasic k m.S m.A (.fin 1) with
  | none => rfl
  | some in0 =>
    simp only [hc] at h ⊢
    exact loadFrom_failed_unchanged _ m in0 p h

/-- **a successful load yields a valid model with exactly the tables read**: discount in (0,1] (nan excluded), every row a
    distribution, T and R as in the stream, the sizes of the old object -/
theorem load_loaded_valid (k : Rep) (m : St) (p : Parsed) (h : (load k m p).2 = .loaded) :
    ValidT ⟨k, k⟩ (load k m p).1 ∧
    ∃ d t r, p = .all d t r ∧ (load k m p).1.disc = d ∧ (load k m p).1.T = t ∧ (load k m p).1.R = r ∧
      (load k m p).1.S = m.S ∧ (load k m p).1.A = m.A := by
  obtain ⟨hvd, _, hte, _, _⟩ := vf_unpack all_validate_first
  unfold load at h ⊢
  cases hc : ctorBasic k m.S m.A (.fin 1) with
  | none => simp [hc] at h
  | some in0 =>
    have hv0 := ctorBasic_valid k _ _ _ in0 hc
    have hS : in0.S = m.S ∧ in0.A = m.A := by
      simp only [ctorBasic] at hc
      split_ifs at hc
      cases hc; exact ⟨rfl, rfl⟩
    simp only [hc] at h ⊢
    cases p with
    | nothing => simp [loadFrom] at h
    | disc d => simp only [loadFrom] at h; split_ifs at h <;> simp at h
    | discT d t => simp only [loadFrom] at h; split_ifs at h <;> simp at h
    | all d t r =>
      simp only [loadFrom] at h ⊢
      split_ifs at h ⊢ with h1 h2
      have hv1 := step_valid ⟨k, k⟩ in0 (.setDiscount d) hv0
      have hv2 := step_valid ⟨k, k⟩ _ (.setTEigen t) hv1
      have hv3 := step_valid ⟨k, k⟩ _ (.setREigen r) hv2
      refine ⟨hv3, d, t, r, rfl, ?_⟩
      -- unfold the three accepted calls
      have e1 : step ⟨k, k⟩ in0 (.setDiscount d) = ({ in0 with disc := d }, false) := by
        have := h1
        simp only [step, prog, hvd, exec_setter_true] at this ⊢
        split_ifs at this ⊢ <;> simp_all
      rw [e1] at h2 ⊢
      have e2 : step ⟨k, k⟩ { in0 with disc := d } (.setTEigen t) = ({ in0 with disc := d, T := t }, false) := by
        have := h2
        simp only [step, prog, hte, exec_setter_true] at this ⊢
        split_ifs at this ⊢ <;> simp_all
      rw [e2]
      simp [step, prog, exec, hS.1, hS.2]

/-- the hypotheses are satisfiable, and both outcomes occur: a complete stream with valid content is loaded; the same stream
    with discount 2, with a sign-flipped row (|.|-sum one), or cut before the rewards leaves the object as it was -/
example :
    let m : St := { S := 2, A := 1, O := 0, disc := .fin (1/2), T := [[[.fin 1, .fin 0], [.fin 0, .fin 1]]], R := [[.fin 0], [.fin 0]], Om := [] }
    let t : Tab3 := [[[.fin (1/4), .fin (3/4)], [.fin 1, .fin 0]]]
    let bad : Tab3 := [[[.fin (-1/4), .fin (3/4)], [.fin 1, .fin 0]]]
    let r : Tab2 := [[.fin 3], [.fin (-1)]]
    (load .dense m (.all (.fin (3/4)) t r)).2 = .loaded ∧ (load .sparse m (.all (.fin (3/4)) t r)).2 = .loaded ∧
    (load .dense m (.all (.fin 2) t r)).2 = .threw ∧ (load .dense m (.all (.fin (3/4)) bad r)).2 = .failbit ∧
    (load .sparse m (.all (.fin (3/4)) bad r)).2 = .failbit ∧ (load .dense m (.discT (.fin (3/4)) t)).2 = .failbit ∧
    (load .dense m (.all .nan t r)).2 = .threw := by
  decide +kernel

end AITB.MS
