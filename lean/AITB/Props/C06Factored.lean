/-
  AITB.Props.C06Factored — property C06, round 3: an accepted `Factored::MDP::CooperativeModel` describes a valid factored MDP.
  Round 1 proved what the constructor validates (`coop_accepted_wellformed`); here: what the object then DOES with the tables
  (AITB.Model.CoopDyn) — for every graph reachable by any history of `DDNGraph::push` calls, every accepted constructor
  argument, every state and joint action of the spaces:

    * the row id `graph.getId(i, s, a)` is inside the i-th transition matrix (no out-of-range read) and that row is a
      distribution (`coop_rows_read`);
    * `s1 ↦ getTransitionProbability(s, a, s1)` over the whole state space is a distribution: entries ≥ 0, sum = product of the
      row sums, within [(1-tol)^n, (1+tol)^n], exactly 1 when the rows sum to exactly 1 (`joint_row_sum`,
      `coop_joint_distribution`, `coop_joint_sum_exact`); the enumeration lists exactly the tuples of the space
      (`mem_enumN_iff`, `enumN_length`);
    * `getIds(feature, j)` inverts `getId(feature, parentId, actionId)` and `getPartialSize` is the block length
      (`ddnIdsOfRow_getId`, `ddnPartialSize_eq`);
    * the expected reward reads only inside the supplied value matrices and is the sum of the supplied entries
      (`coop_reward_in_range`, `coopReward_eq_sum`);
    * reachable graphs satisfy the invariant the above needs (`graphOK_push`, `reachable_graphOK`).

  The index facts `cd_…` are those of AITB.Props.C14 / C08Models re-proved (those oleans are not part of this build).
-/
import Mathlib.Algebra.Order.Field.Rat
import Mathlib.Tactic.Linarith
import Mathlib.Tactic.NormNum
import Mathlib.Tactic.Ring
import Mathlib.Tactic.Positivity
import Mathlib.Data.List.GetD
import AITB.Model.CoopDyn
import AITB.Props.C06

set_option linter.unusedTactic false
set_option linter.unreachableTactic false
set_option linter.unusedVariables false
set_option linter.unusedSimpArgs false

namespace AITB.MS
open AITB AITB.Factored AITB.Sampling

/-! ## OBLIGATIONS over the regenerated source facts -/

/-- the translator found all 30 functions of this round (tolerance helpers, isProbability family, index helpers, DDN row ids,
    dynamics, rewards, copy constructor, the two stream loaders) in exactly the text the model was written from -/
theorem sites_all_listed : AITB.Gen.C06Sites.asModelled.length = 30 := by decide

/-- the tolerance every row test uses is the documented 1e-6 (a larger `equalToleranceSmall` would silently widen every
    acceptance condition AND the slack of the checkers, which are stated in terms of `tol`) -/
theorem tolerance_is_documented : tol = 1 / 1000000 := by
  unfold tol AITB.Gen.equalToleranceSmall; norm_num

/-! ## index arithmetic (re-proved) -/

theorem cd_getD_map_range {β : Type} (f : Nat → β) (d : β) (n i : Nat) (h : i < n) :
    ((List.range n).map f).getD i d = f i := by
  simp [List.getD_eq_getElem?_getD, h]

theorem cd_getD_eq_getElem {β : Type} (l : List β) (d : β) (n : Nat) (hn : n < l.length) :
    l.getD n d = l[n] := by
  simp [List.getD_eq_getElem?_getD, hn]

theorem cd_startIds_getD (S : List Nat) (ps : ParentSet) (i : Nat) (hi : i ≤ ps.features.length) :
    (ddnStartIds S ps).getD i 0 = ((ps.features.take i).map (fun f => Factored.spacePartial f S)).sum := by
  unfold ddnStartIds
  rw [cd_getD_map_range _ _ _ _ (by omega)]

theorem cd_startIds_length (S : List Nat) (ps : ParentSet) :
    (ddnStartIds S ps).length = ps.features.length + 1 := by
  simp [ddnStartIds]

theorem cd_sum_take_add_lt : ∀ (l : List Nat) (k : Nat) (hk : k < l.length) (x : Nat), x < l[k] →
    (l.take k).sum + x < l.sum
  | [], k, hk, _, _ => by simp at hk
  | y :: l, 0, _, x, hx => by simp at hx ⊢; omega
  | y :: l, k + 1, hk, x, hx => by
    have := cd_sum_take_add_lt l k (by simpa using hk) x (by simpa using hx)
    simp only [List.take_succ_cons, List.sum_cons]; omega

theorem cd_getId_lt_size (S A : List Nat) (ps : ParentSet) (s a : List Nat) :
    let actionId := toIndexPartial ps.agents A a
    actionId < ps.features.length →
    toIndexPartial (ps.features.getD actionId []) S s < Factored.spacePartial (ps.features.getD actionId []) S →
    ddnGetId S A ps s a < ddnSize S ps := by
  intro actionId hA hP
  show (ddnStartIds S ps).getD actionId 0 + toIndexPartial (ps.features.getD actionId []) S s < ddnSize S ps
  rw [cd_startIds_getD S ps actionId (le_of_lt hA), List.map_take]
  unfold ddnSize
  rw [cd_getD_eq_getElem _ _ _ hA] at hP ⊢
  apply cd_sum_take_add_lt _ actionId (by simpa using hA)
  simpa using hP

theorem cd_toIndexLoop_eq : ∀ (ds xs : List Nat) (r m : Nat),
    toIndexLoop ds xs r m = r + m * toIndex ds xs
  | [], xs, r, m => by cases xs <;> simp [toIndexLoop, toIndex]
  | d :: ds, [], r, m => by simp [toIndexLoop, toIndex]
  | d :: ds, x :: xs, r, m => by
    simp only [toIndexLoop, toIndex]
    rw [cd_toIndexLoop_eq ds xs]
    rw [Nat.mul_add, Nat.mul_assoc, Nat.add_assoc]

theorem cd_toIndex_lt : ∀ (sp xs : List Nat), Factored.Valid sp xs → toIndex sp xs < space sp
  | [], [], _ => by simp [toIndex, space]
  | [], _ :: _, h => by simp [Factored.Valid] at h
  | _ :: _, [], h => by simp [Factored.Valid] at h
  | d :: ds, x :: xs, h => by
    obtain ⟨hx, hv⟩ := h
    have ih := cd_toIndex_lt ds xs hv
    simp only [toIndex, space]
    calc x + d * toIndex ds xs < d + d * toIndex ds xs := by omega
      _ = d * (toIndex ds xs + 1) := by rw [Nat.mul_add, Nat.mul_one, Nat.add_comm]
      _ ≤ d * space ds := Nat.mul_le_mul_left d ih

theorem cd_valid_getD : ∀ (ds xs : List Nat) (k : Nat), Factored.Valid ds xs → k < ds.length → xs.getD k 0 < ds.getD k 0
  | [], [], _, _, hk => by simp at hk
  | [], _ :: _, _, h, _ => by simp [Factored.Valid] at h
  | _ :: _, [], _, h, _ => by simp [Factored.Valid] at h
  | d :: ds, x :: xs, 0, h, _ => by simpa using h.1
  | d :: ds, x :: xs, k+1, h, hk => by
    simpa using cd_valid_getD ds xs k h.2 (by simpa using hk)

theorem cd_valid_length : ∀ (ds xs : List Nat), Factored.Valid ds xs → xs.length = ds.length
  | [], [], _ => rfl
  | [], _ :: _, h => by simp [Factored.Valid] at h
  | _ :: _, [], h => by simp [Factored.Valid] at h
  | d :: ds, x :: xs, h => by simp [cd_valid_length ds xs h.2]

theorem cd_valid_sel (sp x : List Nat) (hx : Factored.Valid sp x) : ∀ (T : List Nat), (∀ k ∈ T, k < sp.length) →
    Factored.Valid (sel T sp) (sel T x)
  | [], _ => by simp [sel, Factored.Valid]
  | k :: T, h => by
    simp only [sel, List.map_cons, Factored.Valid]
    exact ⟨cd_valid_getD sp x k hx (h k (List.mem_cons_self ..)),
           cd_valid_sel sp x hx T (fun j hj => h j (List.mem_cons_of_mem _ hj))⟩

theorem cd_toIndexPartial_lt (sp x T : List Nat) (hx : Factored.Valid sp x) (hT : ∀ k ∈ T, k < sp.length) :
    toIndexPartial T sp x < Factored.spacePartial T sp := by
  unfold toIndexPartial Factored.spacePartial
  rw [cd_toIndexLoop_eq]
  simpa using cd_toIndex_lt _ _ (cd_valid_sel sp x hx T hT)

theorem cd_getId_lt_size_valid (S A : List Nat) (ps : ParentSet) (s a : List Nat)
    (hs : Factored.Valid S s) (ha : Factored.Valid A a) (hag : ∀ k ∈ ps.agents, k < A.length)
    (hlen : ps.features.length = Factored.spacePartial ps.agents A)
    (hfe : ∀ f ∈ ps.features, ∀ k ∈ f, k < S.length) :
    ddnGetId S A ps s a < ddnSize S ps := by
  have hA : toIndexPartial ps.agents A a < ps.features.length := by
    rw [hlen]; exact cd_toIndexPartial_lt A a ps.agents ha hag
  refine cd_getId_lt_size S A ps s a hA (cd_toIndexPartial_lt S s _ hs ?_)
  rw [cd_getD_eq_getElem _ _ _ hA]
  exact hfe _ (List.getElem_mem _)

/-! ## the two `factorSpacePartial` models agree on in-range tags (MS: left fold with default 1; Factored: product of the selection) -/

theorem spacePartial_foldl (sp : List Nat) : ∀ (tag : List Nat) (init : Nat), (∀ k ∈ tag, k < sp.length) →
    tag.foldl (fun acc k => acc * sp.getD k 1) init = init * space (sel tag sp)
  | [], init, _ => by simp [sel, space]
  | k :: r, init, h => by
    have hk : k < sp.length := h k (List.mem_cons_self ..)
    simp only [List.foldl_cons, sel, List.map_cons, space]
    rw [spacePartial_foldl sp r _ (fun j hj => h j (List.mem_cons_of_mem _ hj))]
    have : sp.getD k 1 = sp.getD k 0 := by simp [List.getD_eq_getElem?_getD, hk]
    rw [this, sel, Nat.mul_assoc]

theorem spacePartial_bridge (sp tag : List Nat) (h : ∀ k ∈ tag, k < sp.length) :
    MS.spacePartial sp tag = Factored.spacePartial tag sp := by
  unfold MS.spacePartial Factored.spacePartial
  rw [spacePartial_foldl sp tag 1 h, Nat.one_mul]

theorem sizes_foldl (S : List Nat) : ∀ (fs : List (List Nat)) (init : Nat), (∀ f ∈ fs, ∀ k ∈ f, k < S.length) →
    fs.foldl (fun acc f => acc + MS.spacePartial S f) init = init + (fs.map (fun f => Factored.spacePartial f S)).sum
  | [], init, _ => by simp
  | f :: r, init, h => by
    simp only [List.foldl_cons, List.map_cons, List.sum_cons]
    rw [sizes_foldl S r _ (fun x hx => h x (List.mem_cons_of_mem _ hx)),
      spacePartial_bridge S f (h f (List.mem_cons_self ..))]
    omega

/-! ## graphs reachable by `push` -/

/-- the invariant as propositions -/
theorem graphOK_iff (g : Graph) : graphOK g = true ↔
    g.sizes = g.parents.map (fun p => ddnSize g.S p.toPS) ∧
    ∀ p ∈ g.parents, checkTag g.A p.agents = .none ∧ p.features.length = MS.spacePartial g.A p.agents ∧
      ∀ f ∈ p.features, checkTag g.S f = .none := by
  simp only [graphOK, wfPSet, Bool.and_eq_true, beq_iff_eq, List.all_eq_true]
  constructor
  · rintro ⟨h1, h2⟩
    exact ⟨h1, fun p hp => ⟨(h2 p hp).1.1, (h2 p hp).1.2, (h2 p hp).2⟩⟩
  · rintro ⟨h1, h2⟩
    exact ⟨h1, fun p hp => ⟨⟨(h2 p hp).1, (h2 p hp).2.1⟩, (h2 p hp).2.2⟩⟩

theorem graphOK_empty (S A : List Nat) : graphOK (emptyGraph S A) = true := by
  rw [graphOK_iff]; simp [emptyGraph]

/-- one `push` call — accepted or rejected, whatever the argument — keeps the invariant -/
theorem graphOK_push (g : Graph) (p : PSet) (h : graphOK g = true) :
    graphOK (push AITB.Gen.Guards.vf_DDNGraph_push g p).1 = true := by
  have hs := push_spec push_validates_first g p
  by_cases he : (push AITB.Gen.Guards.vf_DDNGraph_push g p).2 = .none
  · obtain ⟨hc, hchk, _⟩ := hs.2 he
    rw [hc]
    obtain ⟨hag, hlen, hfe⟩ := push_accepted_wellformed g p hchk
    obtain ⟨h1, h2⟩ := (graphOK_iff g).1 h
    rw [graphOK_iff]
    have hin : ∀ f ∈ p.features, ∀ k ∈ f, k < g.S.length := fun f hf => (checkTag_none _ _ (hfe f hf)).2.2.1
    refine ⟨?_, ?_⟩
    · simp only [pushCommit, List.map_append, List.map_cons, List.map_nil, h1]
      congr 2
      rw [sizes_foldl g.S p.features 0 hin, Nat.zero_add]; rfl
    · intro q hq
      simp only [pushCommit, List.mem_append, List.mem_singleton] at hq ⊢
      rcases hq with hq | rfl
      · exact h2 q hq
      · exact ⟨hag, hlen, hfe⟩
  · rw [hs.1 he]; exact h

theorem graphOK_pushAll : ∀ (ps : List PSet) (g : Graph), graphOK g = true →
    graphOK (pushAll AITB.Gen.Guards.vf_DDNGraph_push g ps) = true
  | [], _, h => h
  | p :: r, g, h => graphOK_pushAll r _ (graphOK_push g p h)

/-- every graph a program can hold: the empty one after any history of `push` calls (failing ones included) -/
theorem reachable_graphOK (S A : List Nat) (ps : List PSet) :
    graphOK (pushAll AITB.Gen.Guards.vf_DDNGraph_push (emptyGraph S A) ps) = true :=
  graphOK_pushAll ps _ (graphOK_empty S A)

theorem pushAll_spaces : ∀ (ps : List PSet) (g : Graph),
    (pushAll AITB.Gen.Guards.vf_DDNGraph_push g ps).S = g.S ∧ (pushAll AITB.Gen.Guards.vf_DDNGraph_push g ps).A = g.A
  | [], _ => ⟨rfl, rfl⟩
  | p :: r, g => by
    have := pushAll_spaces r (push AITB.Gen.Guards.vf_DDNGraph_push g p).1
    have hs := push_spec push_validates_first g p
    by_cases he : (push AITB.Gen.Guards.vf_DDNGraph_push g p).2 = .none
    · rw [(hs.2 he).1] at this; simpa [pushAll, (hs.2 he).1, pushCommit] using this
    · rw [hs.1 he] at this; simpa [pushAll, hs.1 he] using this

/-- the hypotheses are satisfiable: two features (2 and 3 values), one agent with 2 actions; feature 0 depends on {0} under
    action 0 and on {0,1} under action 1 (2 + 6 = 8 rows), a failing push in between is ignored, feature 1 on {1},{1} (6 rows) -/
example : (pushAll AITB.Gen.Guards.vf_DDNGraph_push (emptyGraph [2, 3] [2])
      [⟨[0], [[0], [0, 1]]⟩, ⟨[0], [[1, 0], [1]]⟩, ⟨[0], [[1], [1]]⟩]).sizes = [8, 6] := by decide

/-! ## rows the dynamics read -/

/-- **every row `getTransitionProbability` / `sampleSR` read exists and is a distribution**: accepted constructor arguments on a
    reachable graph, any state and joint action of the spaces -/
theorem coop_rows_read (rej : Bool) (g : Graph) (mats : List Mat) (bases : List Basis)
    (h : coopAccepts rej g mats bases = true) (hg : graphOK g = true)
    (s a : List Nat) (hs : Factored.Valid g.S s) (ha : Factored.Valid g.A a) :
    ∀ i < g.S.length, rowId g i s a < (mats.getD i default).rows ∧
      RowS ((List.range (g.S.getD i 0)).map (fun x => get2 (mats.getD i default).ent (rowId g i s a) x)) := by
  obtain ⟨_, _, _, hP, _, hT, _⟩ := coop_accepted_wellformed rej g mats bases h
  obtain ⟨h1, h2⟩ := (graphOK_iff g).1 hg
  intro i hi
  obtain ⟨hr, hc, hrow⟩ := hT i hi
  have hip : i < g.parents.length := by omega
  have hmem : g.parents.getD i default ∈ g.parents := by
    rw [cd_getD_eq_getElem _ _ _ hip]; exact List.getElem_mem _
  obtain ⟨hag, hlen, hfe⟩ := h2 _ hmem
  have hagIn := (checkTag_none _ _ hag).2.2.1
  have hsz : g.sizes.getD i 0 = ddnSize g.S (g.parents.getD i default).toPS := by
    rw [h1, cd_getD_eq_getElem _ _ _ (by simpa using hip), cd_getD_eq_getElem _ _ _ hip]; simp
  have hlt : rowId g i s a < (mats.getD i default).rows := by
    rw [hr, hsz]
    refine cd_getId_lt_size_valid g.S g.A _ s a hs ha hagIn ?_ ?_
    · show (g.parents.getD i default).features.length = _
      rw [hlen]; exact spacePartial_bridge _ _ hagIn
    · intro f hf; exact (checkTag_none _ _ (hfe f hf)).2.2.1
  refine ⟨hlt, ?_⟩
  have := hrow _ hlt
  rwa [hc] at this

/-! ## the joint row -/

theorem jointProbLoop_eq (g : Graph) (mats : List Mat) (s a s1 : List Nat) :
    jointProbLoop g mats s a s1 = jointProb g mats s a s1 := by
  unfold jointProbLoop jointProb
  generalize g.S.length = n
  induction n with
  | zero => rfl
  | succ n ih => rw [List.range_succ, List.foldl_append, ih]; rfl

/-- the PartialFactors overload asked about every feature is the full joint probability -/
theorem marginal_full_eq_joint (g : Graph) (mats : List Mat) (s a s1 : List Nat) :
    marginalProb g mats s a ((List.range g.S.length).map (fun i => (i, s1.getD i 0))) = jointProb g mats s a s1 := by
  rw [← jointProbLoop_eq]
  unfold marginalProb jointProbLoop
  rw [List.foldl_map]

theorem prodIdx_congr (f f' : Nat → Rat) : ∀ n, (∀ i < n, f i = f' i) → prodIdx f n = prodIdx f' n
  | 0, _ => rfl
  | n+1, h => by
    simp only [prodIdx]
    rw [prodIdx_congr f f' n (fun i hi => h i (by omega)), h n (by omega)]

theorem prodIdx_nonneg (f : Nat → Rat) : ∀ n, (∀ i < n, 0 ≤ f i) → 0 ≤ prodIdx f n
  | 0, _ => by simp [prodIdx]
  | n+1, h => by
    simp only [prodIdx]
    exact mul_nonneg (prodIdx_nonneg f n (fun i hi => h i (by omega))) (h n (by omega))

theorem prodIdx_bounds (f : Nat → Rat) (lo hi : Rat) (hlo : 0 ≤ lo) : ∀ n, (∀ i < n, lo ≤ f i ∧ f i ≤ hi) →
    lo ^ n ≤ prodIdx f n ∧ prodIdx f n ≤ hi ^ n
  | 0, _ => by simp [prodIdx]
  | n+1, h => by
    obtain ⟨h1, h2⟩ := prodIdx_bounds f lo hi hlo n (fun i hi => h i (by omega))
    obtain ⟨h3, h4⟩ := h n (by omega)
    have hp : 0 ≤ prodIdx f n := le_trans (pow_nonneg hlo n) h1
    simp only [prodIdx, pow_succ]
    constructor
    · exact mul_le_mul h1 h3 hlo hp
    · exact mul_le_mul h2 h4 (le_trans hlo h3) (le_trans hp h2)

theorem prodIdx_one : ∀ n, prodIdx (fun _ => 1) n = 1
  | 0 => rfl
  | n+1 => by simp [prodIdx, prodIdx_one n]

theorem enumN_length_of_mem (dims : Nat → Nat) : ∀ (n : Nat) (t : List Nat), t ∈ enumN dims n → t.length = n
  | 0, t, h => by simp [enumN] at h; simp [h]
  | n+1, t, h => by
    simp only [enumN, List.mem_flatMap, List.mem_map, List.mem_range] at h
    obtain ⟨u, hu, x, _, rfl⟩ := h
    simp [enumN_length_of_mem dims n u hu]

/-- the enumeration lists exactly the tuples of the space … -/
theorem mem_enumN_iff (dims : Nat → Nat) : ∀ (n : Nat) (t : List Nat),
    t ∈ enumN dims n ↔ t.length = n ∧ ∀ i < n, t.getD i 0 < dims i
  | 0, t => by
    simp only [enumN, List.mem_singleton]
    constructor
    · rintro rfl; exact ⟨rfl, fun i hi => by omega⟩
    · rintro ⟨h, _⟩; exact List.length_eq_zero_iff.1 h
  | n+1, t => by
    simp only [enumN, List.mem_flatMap, List.mem_map, List.mem_range]
    constructor
    · rintro ⟨u, hu, x, hx, rfl⟩
      obtain ⟨hl, hb⟩ := (mem_enumN_iff dims n u).1 hu
      refine ⟨by simp [hl], ?_⟩
      intro i hi
      by_cases hin : i < n
      · rw [List.getD_append _ _ _ _ (by omega)]; exact hb i hin
      · have : i = n := by omega
        subst this
        rw [List.getD_append_right _ _ _ _ (by omega)]; simpa [hl] using hx
    · rintro ⟨hl, hb⟩
      rcases List.eq_nil_or_concat t with rfl | ⟨u, x, ht⟩
      · simp at hl
      · rw [List.concat_eq_append] at ht
        subst ht
        have hul : u.length = n := by simpa using hl
        refine ⟨u, (mem_enumN_iff dims n u).2 ⟨hul, ?_⟩, x, ?_, rfl⟩
        · intro i hi
          have := hb i (by omega)
          rwa [List.getD_append _ _ _ _ (by omega)] at this
        · have := hb n (by omega)
          rw [List.getD_append_right _ _ _ _ (by omega)] at this
          simpa [hul] using this

/-- … each once: the list has as many elements as the space has tuples (with `mem_enumN_iff`: no repetition) -/
theorem enumN_length (dims : Nat → Nat) : ∀ n, (enumN dims n).length = (List.range n).foldl (fun acc i => acc * dims i) 1
  | 0 => rfl
  | n+1 => by
    rw [List.range_succ, List.foldl_append, ← enumN_length dims n]
    simp only [enumN, List.length_flatMap, List.length_map, List.length_range, List.foldl_cons, List.foldl_nil]
    generalize enumN dims n = l
    induction l with
    | nil => simp
    | cons a r ih => simp only [List.map_cons, List.sum_cons, List.length_cons, ih]; rw [Nat.add_mul, Nat.one_mul, Nat.add_comm]

theorem sum_map_flatMap {α β : Type} (l : List α) (f : α → List β) (w : β → Rat) :
    ((l.flatMap f).map w).sum = (l.map (fun a => ((f a).map w).sum)).sum := by
  induction l with
  | nil => simp
  | cons a r ih => simp [List.flatMap_cons, List.map_append, List.sum_append, ih]

theorem sum_map_mul_left {α : Type} (c : Rat) (w : α → Rat) (l : List α) :
    (l.map (fun x => c * w x)).sum = c * (l.map w).sum := by
  induction l with
  | nil => simp
  | cons a r ih => simp only [List.map_cons, List.sum_cons, ih]; ring

theorem sum_map_mul_right {α : Type} (c : Rat) (w : α → Rat) (l : List α) :
    (l.map (fun x => w x * c)).sum = (l.map w).sum * c := by
  induction l with
  | nil => simp
  | cons a r ih => simp only [List.map_cons, List.sum_cons, ih]; ring

/-- generalised distributivity: summing a product of per-factor entries over the whole space = product of the per-factor sums -/
theorem sum_enumN_prod (dims : Nat → Nat) (e : Nat → Nat → Rat) : ∀ n,
    ((enumN dims n).map (fun t => prodIdx (fun i => e i (t.getD i 0)) n)).sum
      = prodIdx (fun i => ((List.range (dims i)).map (e i)).sum) n
  | 0 => by simp [enumN, prodIdx]
  | n+1 => by
    simp only [enumN, prodIdx]
    rw [sum_map_flatMap, ← sum_enumN_prod dims e n, ← sum_map_mul_right]
    apply congrArg
    apply List.map_congr_left
    intro t ht
    have hl := enumN_length_of_mem dims n t ht
    rw [List.map_map, ← sum_map_mul_left]
    apply congrArg
    apply List.map_congr_left
    intro x _
    simp only [Function.comp]
    have h1 : (t ++ [x]).getD n 0 = x := by
      rw [List.getD_append_right _ _ _ _ (by omega)]; simp [hl]
    rw [h1]
    congr 1
    apply prodIdx_congr
    intro i hi
    rw [List.getD_append _ _ _ _ (by omega)]

/-- **a product of distributions is a distribution**: per-factor entries that sum to exactly one (the learned cooperative models'
    rows: `learned_rows_are_distributions`; dyadic supplied tables) give a joint that sums to exactly one over the whole space,
    whatever the number of factors and their sizes -/
theorem product_of_distributions (dims : Nat → Nat) (e : Nat → Nat → Rat) (n : Nat)
    (h : ∀ i < n, ((List.range (dims i)).map (e i)).sum = 1) :
    ((enumN dims n).map (fun t => prodIdx (fun i => e i (t.getD i 0)) n)).sum = 1 := by
  rw [sum_enumN_prod, prodIdx_congr _ (fun _ => 1) _ h, prodIdx_one]

/-- **the joint row sums to the product of the sums of the rows it is built from** (any graph, any matrices) -/
theorem joint_row_sum (g : Graph) (mats : List Mat) (s a : List Nat) :
    (jointRow g mats s a).sum =
      prodIdx (fun i => ((List.range (g.S.getD i 0)).map (dynEntry g mats s a i)).sum) g.S.length := by
  unfold jointRow enumSpace jointProb
  exact sum_enumN_prod (fun i => g.S.getD i 0) (dynEntry g mats s a) g.S.length

theorem sumQ_eq_sum : ∀ qs : List Rat, sumQ qs = qs.sum
  | [] => rfl
  | q :: r => by simp [sumQ, sumQ_eq_sum r]

theorem xq_row (c : Nat) (F : Nat → XRat) (qs : List Rat) (h : (List.range c).map F = qs.map XRat.fin) :
    (List.range c).map (fun x => xq (F x)) = qs := by
  have := congrArg (List.map xq) h
  simpa [List.map_map, Function.comp_def, xq] using this

/-- **the dynamics of an accepted model are a distribution over the state space**, for every reachable graph, accepted
    argument, state and joint action: every `getTransitionProbability(s, a, s1)` is ≥ 0 and they sum to within
    [(1-tol)^n, (1+tol)^n] of one (n state features; the slack is the constructor's own row tolerance, compounded) -/
theorem coop_joint_distribution (rej : Bool) (g : Graph) (mats : List Mat) (bases : List Basis)
    (h : coopAccepts rej g mats bases = true) (hg : graphOK g = true)
    (s a : List Nat) (hs : Factored.Valid g.S s) (ha : Factored.Valid g.A a) :
    (∀ q ∈ jointRow g mats s a, 0 ≤ q) ∧
    (1 - tol) ^ g.S.length ≤ (jointRow g mats s a).sum ∧ (jointRow g mats s a).sum ≤ (1 + tol) ^ g.S.length := by
  have hrows := coop_rows_read rej g mats bases h hg s a hs ha
  -- per feature: the entries read are the rationals of a distribution
  have hq : ∀ i < g.S.length, ∃ qs : List Rat,
      (List.range (g.S.getD i 0)).map (dynEntry g mats s a i) = qs ∧ (∀ q ∈ qs, 0 ≤ q) ∧
      1 - tol ≤ qs.sum ∧ qs.sum ≤ 1 + tol := by
    intro i hi
    obtain ⟨qs, hrow, hge, h1, h2⟩ := (hrows i hi).2
    refine ⟨qs, xq_row _ _ qs hrow, hge, ?_, ?_⟩ <;> rw [← sumQ_eq_sum] <;> linarith
  refine ⟨?_, ?_⟩
  · intro q hqm
    simp only [jointRow, enumSpace, List.mem_map] at hqm
    obtain ⟨t, ht, rfl⟩ := hqm
    obtain ⟨_, hb⟩ := (mem_enumN_iff _ _ t).1 ht
    apply prodIdx_nonneg
    intro i hi
    obtain ⟨qs, hrow, hge, _, _⟩ := hq i hi
    apply hge
    have hx := hb i hi
    have : dynEntry g mats s a i (t.getD i 0) = ((List.range (g.S.getD i 0)).map (dynEntry g mats s a i)).getD (t.getD i 0) 0 := by
      rw [cd_getD_map_range _ _ _ _ hx]
    rw [this, hrow, cd_getD_eq_getElem _ _ _ (by rw [← hrow]; simpa using hx)]
    exact List.getElem_mem _
  · rw [joint_row_sum]
    have ht : (0 : Rat) ≤ 1 - tol := by unfold tol AITB.Gen.equalToleranceSmall; norm_num
    apply prodIdx_bounds _ _ _ ht
    intro i hi
    obtain ⟨qs, hrow, _, h1, h2⟩ := hq i hi
    rw [hrow]; exact ⟨h1, h2⟩

/-- … and exactly one when the supplied rows sum to exactly one (dyadic tables: what the harness mostly draws) -/
theorem coop_joint_sum_exact (g : Graph) (mats : List Mat) (s a : List Nat)
    (h : ∀ i < g.S.length, ((List.range (g.S.getD i 0)).map (dynEntry g mats s a i)).sum = 1) :
    (jointRow g mats s a).sum = 1 := by
  rw [joint_row_sum, prodIdx_congr _ (fun _ => 1) _ h, prodIdx_one]

/-! ## `getIds(feature, j)` inverts `getId(feature, parentId, actionId)` -/

theorem cd_sum_take_le : ∀ (l : List Nat) (i k : Nat), i ≤ k → (l.take i).sum ≤ (l.take k).sum
  | [], _, _, _ => by simp
  | y :: l, 0, _, _ => by simp
  | y :: l, i+1, 0, h => by omega
  | y :: l, i+1, k+1, h => by
    simp only [List.take_succ_cons, List.sum_cons]
    have := cd_sum_take_le l i k (by omega); omega

theorem idsDown_eq (st : List Nat) (j aid K : Nat) (hlo : st.getD aid 0 ≤ j)
    (hhi : ∀ k, aid < k → k ≤ K → j < st.getD k 0) : ∀ k, aid ≤ k → k ≤ K → idsDown st j k = aid
  | 0, h, _ => by simp [idsDown]; omega
  | k+1, h, hK => by
    simp only [idsDown]
    by_cases he : aid = k + 1
    · subst he; rw [if_neg (by omega)]
    · rw [if_pos (hhi (k+1) (by omega) hK)]
      exact idsDown_eq st j aid K hlo hhi k (by omega) (by omega)

/-- the block of action id `aid` has the size of its parent set's partial space -/
theorem ddnPartialSize_eq (S : List Nat) (ps : ParentSet) (aid : Nat) (ha : aid < ps.features.length) :
    ddnPartialSize S ps aid = Factored.spacePartial (ps.features.getD aid []) S := by
  unfold ddnPartialSize
  rw [cd_startIds_getD S ps aid (le_of_lt ha), cd_startIds_getD S ps (aid + 1) ha,
    List.take_succ_eq_append_getElem ha, cd_getD_eq_getElem _ _ _ ha]
  simp only [List.map_append, List.sum_append, List.map_cons, List.map_nil, List.sum_cons, List.sum_nil]
  omega

/-- **round trip**: for every parent-set index and every parent id inside its block, the downward search of
    `getIds(feature, j)` returns the pair `getId(feature, parentId, actionId)` was computed from -/
theorem ddnIdsOfRow_getId (S : List Nat) (ps : ParentSet) (aid pid : Nat) (ha : aid < ps.features.length)
    (hp : pid < Factored.spacePartial (ps.features.getD aid []) S) :
    ddnIdsOfRow S ps ((ddnStartIds S ps).getD aid 0 + pid) = (pid, aid) := by
  have hdown : idsDown (ddnStartIds S ps) ((ddnStartIds S ps).getD aid 0 + pid) ((ddnStartIds S ps).length - 2) = aid := by
    apply idsDown_eq _ _ aid (ps.features.length - 1) (Nat.le_add_right _ _)
    · intro k hk hK
      have h1 : (ddnStartIds S ps).getD aid 0 + pid < (ddnStartIds S ps).getD (aid + 1) 0 := by
        have := ddnPartialSize_eq S ps aid ha
        unfold ddnPartialSize at this
        omega
      have h2 : (ddnStartIds S ps).getD (aid + 1) 0 ≤ (ddnStartIds S ps).getD k 0 := by
        rw [cd_startIds_getD S ps (aid + 1) ha, cd_startIds_getD S ps k (by omega)]
        simp only [List.map_take]
        exact cd_sum_take_le _ _ _ hk
      omega
    · have := cd_startIds_length S ps; omega
    · have := cd_startIds_length S ps; omega
  unfold ddnIdsOfRow
  simp only [hdown]
  congr 1
  omega

/-- test: S = (2,3), parent sets {0} (2 rows) and {0,1} (6 rows): row 5 is parent id 3 of action id 1; row 1 is (1, 0) -/
example : ddnIdsOfRow [2, 3] ⟨[0], [[0], [0, 1]]⟩ 5 = (3, 1) ∧ ddnIdsOfRow [2, 3] ⟨[0], [[0], [0, 1]]⟩ 1 = (1, 0) ∧
    ddnPartialSize [2, 3] ⟨[0], [[0], [0, 1]]⟩ 1 = 6 := by decide

/-! ## expected rewards -/

theorem cd_foldl_add {β : Type} (f : β → Rat) : ∀ (l : List β) (init : Rat),
    l.foldl (fun acc b => acc + f b) init = init + (l.map f).sum
  | [], init => by simp
  | b :: l, init => by
    simp only [List.foldl_cons, List.map_cons, List.sum_cons]
    rw [cd_foldl_add f l]; ring

/-- `getExpectedReward(s, a, ·)` is the sum over the bases of the supplied entry at (state index, action index) -/
theorem coopReward_eq_sum (g : Graph) (bs : List BasisV) (s a : List Nat) :
    coopReward g bs s a = (bs.map (fun b => (b.values.getD (toIndexPartial b.tag g.S s) []).getD (toIndexPartial b.actionTag g.A a) 0)).sum := by
  unfold coopReward factoredReward
  rw [cd_foldl_add]; simp [List.map_map, Function.comp_def, basisValue, BasisV.to2D]

/-- … and both indices are inside the value matrix the constructor accepted (no out-of-range read), for every state and
    joint action of the spaces -/
theorem coop_reward_in_range (rej : Bool) (g : Graph) (mats : List Mat) (bs : List BasisV)
    (h : coopAccepts rej g mats (bs.map BasisV.shape) = true)
    (s a : List Nat) (hs : Factored.Valid g.S s) (ha : Factored.Valid g.A a) :
    ∀ b ∈ bs, toIndexPartial b.tag g.S s < b.rows ∧ toIndexPartial b.actionTag g.A a < b.cols := by
  obtain ⟨_, _, _, _, _, _, hB⟩ := coop_accepted_wellformed rej g mats _ h
  intro b hb
  obtain ⟨h1, h2, h3, h4⟩ := hB b.shape (List.mem_map_of_mem hb)
  have hA := (checkTag_none _ _ h1).2.2.1
  have hS := (checkTag_none _ _ h2).2.2.1
  constructor
  · show _ < b.shape.rows
    rw [h4, spacePartial_bridge _ _ hS]; exact cd_toIndexPartial_lt g.S s _ hs hS
  · show _ < b.shape.cols
    rw [h3, spacePartial_bridge _ _ hA]; exact cd_toIndexPartial_lt g.A a _ ha hA

/-! ## the checker the driver evaluates on the implementation's own joint row is sound -/

theorem jointDistB_sound (slack : Rat) (row : List Rat) (h : jointDistB slack row = true) :
    (∀ q ∈ row, 0 ≤ q ∧ q ≤ 1 + slack) ∧ -slack ≤ row.sum - 1 ∧ row.sum - 1 ≤ slack := by
  simp only [jointDistB, Bool.and_eq_true, List.all_eq_true, decide_eq_true_eq] at h
  exact ⟨h.1.1, h.1.2, h.2⟩

/-- the hypotheses of `coop_joint_distribution` are satisfiable and its conclusion is tight on a concrete model:
    S = (2,2), one agent with 2 actions, feature 0 ← {0} / {0,1}, feature 1 ← {1} / {1}; the joint row of
    state (1,0), action (1) is [3/8, 3/8, 1/8, 1/8] -/
example :
    let g := pushAll AITB.Gen.Guards.vf_DDNGraph_push (emptyGraph [2, 2] [2]) [⟨[0], [[0], [0, 1]]⟩, ⟨[0], [[1], [1]]⟩]
    let h : XRat := .fin (1/2); let q : XRat := .fin (1/4); let t : XRat := .fin (3/4)
    let mats : List Mat := [⟨6, 2, [[h, h], [q, t], [h, h], [t, q], [q, t], [h, h]]⟩, ⟨4, 2, [[h, h], [q, t], [h, h], [t, q]]⟩]
    coopAccepts false g mats [⟨[0], [0], 2, 2⟩] = true ∧ graphOK g = true ∧
    jointRow g mats [1, 0] [1] = [3/8, 3/8, 1/8, 1/8] ∧ (jointRow g mats [1, 0] [1]).sum = 1 := by
  decide +kernel

end AITB.MS
