/-
  AITB.Props.C12Cert — soundness of the decidable certificate checkers of AITB.Model.C12Check.

  Every theorem is unbounded (any dimension, any number of vectors).  Fully proved, kernel-checked only,
  standard logical foundations only; literal tests use `decide +kernel`.

  Remarks on the statements
  * All vectors are lists and every model function (`dot`, `domAbs`, `mixAt`, ...) truncates to the shorter
    argument.  Several theorems are therefore true with fewer length hypotheses than requested; in these
    cases a primed/`_core` version without the superfluous hypotheses is proved first and the theorem with
    the requested signature is derived from it.
  * Where a length hypothesis is indispensable the counterexample is given next to the theorem.
-/
import AITB.Props.C12Defs
import AITB.Model.C12Check
import Mathlib.Algebra.Order.Field.Rat
import Mathlib.Tactic.Ring
import Mathlib.Tactic.Linarith

namespace AITB.C12Check
open AITB.Prune AITB.Interp

/-! ## 0. Finite sums -/

/-- `Σ_{s<n} f s` -/
def rsum (n : Nat) (f : Nat → Rat) : Rat := sumL ((List.range n).map f)

theorem sumL_map_add {α : Type} (f g : α → Rat) :
    ∀ l : List α, sumL (l.map fun s => f s + g s) = sumL (l.map f) + sumL (l.map g)
  | [] => by simp [sumL]
  | a :: l => by
    simp only [List.map, sumL, sumL_map_add f g l]; ring

theorem sumL_map_mul_left {α : Type} (c : Rat) (f : α → Rat) :
    ∀ l : List α, sumL (l.map fun s => c * f s) = c * sumL (l.map f)
  | [] => by simp [sumL]
  | a :: l => by
    simp only [List.map, sumL, sumL_map_mul_left c f l]; ring

theorem sumL_map_le {α : Type} (f g : α → Rat) :
    ∀ l : List α, (∀ s ∈ l, f s ≤ g s) → sumL (l.map f) ≤ sumL (l.map g)
  | [], _ => by simp [sumL]
  | a :: l, h => by
    have h1 := h a (List.mem_cons_self ..)
    have h2 := sumL_map_le f g l (fun s hs => h s (List.mem_cons_of_mem _ hs))
    simp only [List.map, sumL]; linarith

theorem sumL_map_zero {α : Type} : ∀ l : List α, sumL (l.map fun _ => (0 : Rat)) = 0
  | [] => by simp [sumL]
  | a :: l => by simp only [List.map, sumL, sumL_map_zero l]; ring

theorem rsum_zero (n : Nat) : rsum n (fun _ => 0) = 0 := sumL_map_zero _

theorem rsum_add (n : Nat) (f g : Nat → Rat) : rsum n (fun s => f s + g s) = rsum n f + rsum n g :=
  sumL_map_add f g _

theorem rsum_mul_left (n : Nat) (c : Rat) (f : Nat → Rat) : rsum n (fun s => c * f s) = c * rsum n f :=
  sumL_map_mul_left c f _

theorem rsum_le (n : Nat) (f g : Nat → Rat) (h : ∀ s, s < n → f s ≤ g s) : rsum n f ≤ rsum n g :=
  sumL_map_le f g _ (fun s hs => h s (List.mem_range.mp hs))

theorem rsum_congr (n : Nat) (f g : Nat → Rat) (h : ∀ s, s < n → f s = g s) : rsum n f = rsum n g := by
  unfold rsum
  rw [List.map_congr_left (fun s hs => h s (List.mem_range.mp hs))]

theorem rsum_succ' (n : Nat) (f : Nat → Rat) : rsum (n+1) f = f 0 + rsum n (fun s => f (s+1)) := by
  simp [rsum, List.range_succ_eq_map, sumL, List.map_map, Function.comp_def]

theorem dot_nil_left (b : Vec) : dot [] b = 0 := by simp [dot]
theorem dot_nil_right (a : Vec) : dot a [] = 0 := by cases a <;> simp [dot]
theorem dot_cons (x y : Rat) (a b : Vec) : dot (x :: a) (y :: b) = x * y + dot a b := by simp [dot]

/-- `dot` as a sum over the index range (the `getD` default 0 makes the truncation harmless) -/
theorem dot_eq_rsum : ∀ (n : Nat) (a b : Vec), a.length ≤ n →
    dot a b = rsum n (fun s => a.getD s 0 * b.getD s 0)
  | 0, a, b, h => by
    have : a = [] := List.eq_nil_of_length_eq_zero (by omega)
    subst this
    simp [dot_nil_left, rsum, sumL]
  | n+1, [], b, _ => by
    simp [dot_nil_left, rsum_zero]
  | n+1, x :: a, [], _ => by
    simp [dot_nil_right, rsum_zero]
  | n+1, x :: a, y :: b, h => by
    rw [dot_cons, rsum_succ', dot_eq_rsum n a b (by simpa using h)]
    simp

theorem dot_eq_rsum_right (n : Nat) (a b : Vec) (h : b.length ≤ n) :
    dot a b = rsum n (fun s => a.getD s 0 * b.getD s 0) := by
  have hc : ∀ (a b : Vec), dot a b = dot b a := by
    intro a
    induction a with
    | nil => intro b; rw [dot_nil_left, dot_nil_right]
    | cons x a ih =>
      intro b
      cases b with
      | nil => rw [dot_nil_left, dot_nil_right]
      | cons y b => rw [dot_cons, dot_cons, ih b]; ring
  rw [hc, dot_eq_rsum n b a h]
  exact rsum_congr _ _ _ (fun s _ => by ring)

theorem sumL_eq_rsum : ∀ (n : Nat) (a : Vec), a.length ≤ n → sumL a = rsum n (fun s => a.getD s 0)
  | 0, a, h => by
    have : a = [] := List.eq_nil_of_length_eq_zero (by omega)
    subst this
    simp [rsum, sumL]
  | n+1, [], _ => by simp [sumL, rsum_zero]
  | n+1, x :: a, h => by
    rw [rsum_succ', sumL, sumL_eq_rsum n a (by simpa using h)]
    simp

theorem getD_nonneg (v : Vec) (h : ∀ x ∈ v, 0 ≤ x) (s : Nat) : 0 ≤ v.getD s 0 := by
  rw [List.getD_eq_getElem?_getD]
  cases hs : v[s]? with
  | none => simp
  | some x => simpa using h x (List.mem_of_getElem? hs)

theorem mixAt_nil_left (ps : List Vec) (s : Nat) : mixAt [] ps s = 0 := by simp [mixAt, sumL]
theorem mixAt_nil_right (ws : Vec) (s : Nat) : mixAt ws [] s = 0 := by simp [mixAt, sumL]
theorem mixAt_cons (w : Rat) (ws : Vec) (p : Vec) (ps : List Vec) (s : Nat) :
    mixAt (w :: ws) (p :: ps) s = w * p.getD s 0 + mixAt ws ps s := by simp [mixAt, sumL]

/-- exchange of the two finite sums: `Σ_s b_s (Σ_i w_i p_i[s]) = Σ_i w_i (b · p_i)` -/
theorem rsum_mixAt (n : Nat) (b : Vec) (hb : b.length ≤ n) : ∀ (ws : Vec) (ps : List Vec),
    rsum n (fun s => b.getD s 0 * mixAt ws ps s) = dot ws (ps.map (dot b))
  | [], ps => by simp [mixAt_nil_left, rsum_zero, dot_nil_left]
  | w :: ws, [] => by simp [mixAt_nil_right, rsum_zero, dot_nil_right]
  | w :: ws, p :: ps => by
    have h1 : rsum n (fun s => b.getD s 0 * mixAt (w :: ws) (p :: ps) s)
        = rsum n (fun s => w * (b.getD s 0 * p.getD s 0) + b.getD s 0 * mixAt ws ps s) :=
      rsum_congr _ _ _ (fun s _ => by rw [mixAt_cons]; ring)
    rw [h1, rsum_add, rsum_mul_left, rsum_mixAt n b hb ws ps, ← dot_eq_rsum n b p hb]
    simp [dot_cons]

/-! ## 1. `isBeliefB` decides `IsBelief` -/

theorem isBeliefB_iff (n : Nat) (b : Vec) : isBeliefB n b = true ↔ IsBelief n b := by
  simp [isBeliefB, nonneg, IsBelief, and_assoc]

/-! ## 5. witnesses of violation / need, pairwise test -/

theorem violationOK_sound (n : Nat) (eps : Rat) (G : List Vec) (b r : Vec)
    (h : violationOK n eps G b r = true) : IsBelief n b ∧ ∀ g ∈ G, dot b g + eps < dot b r := by
  simp only [violationOK, Bool.and_eq_true, List.all_eq_true, decide_eq_true_eq] at h
  exact ⟨(isBeliefB_iff n b).mp h.1, h.2⟩

theorem neededOK_sound (n : Nat) (G : List Vec) (b k : Vec)
    (h : neededOK n G b k = true) : IsBelief n b ∧ ∀ g ∈ G, dot b g ≤ dot b k := by
  simp only [neededOK, Bool.and_eq_true, List.all_eq_true, decide_eq_true_eq] at h
  exact ⟨(isBeliefB_iff n b).mp h.1, h.2⟩

/-! ## 2. pointwise slack gives value slack -/

/-- general form: for `b ≥ 0` pointwise, `b·r ≤ b·l + eps * Σ b`.
    The three lengths must agree: with `l` shorter than `r` the test `domAbs` sees fewer coordinates than
    `dot b r` (`b = [1], l = [], r = [5]`, `eps = 0`), and with `b` longer than `l, r` and `eps < 0` the
    right-hand side picks up `eps * b_s` for coordinates that were never tested. -/
theorem domAbs_dot (eps : Rat) : ∀ (b l r : Vec), (∀ x ∈ b, 0 ≤ x) → l.length = b.length → r.length = b.length →
    domAbs eps l r = true → dot b r ≤ dot b l + eps * sumL b
  | [], _, _, _, _, _, _ => by simp [dot_nil_left, sumL]
  | c :: cs, [], _, _, hl, _, _ => by simp at hl
  | c :: cs, _ :: _, [], _, _, hr, _ => by simp at hr
  | c :: cs, x :: l, y :: r, hb, hl, hr, h => by
    simp only [domAbs, Bool.and_eq_true, decide_eq_true_eq] at h
    have hc : 0 ≤ c := hb c (List.mem_cons_self ..)
    have ih := domAbs_dot eps cs l r (fun x hx => hb x (List.mem_cons_of_mem _ hx))
      (by simpa using hl) (by simpa using hr) h.2
    have h1 : 0 ≤ c * (x - y + eps) := mul_nonneg hc (by linarith [h.1])
    simp only [dot_cons, sumL]
    linarith

example : domAbs 0 [] [5] = true ∧ ¬ (dot [1] [5] ≤ dot [1] [] + 0) := by decide +kernel

theorem domAbs_value (n : Nat) (eps : Rat) (b l r : Vec) (hb : IsBelief n b) (hl : l.length = n) (hr : r.length = n)
    (h : domAbs eps l r = true) : dot b r ≤ dot b l + eps := by
  have := domAbs_dot eps b l r hb.2.1 (by rw [hl, hb.1]) (by rw [hr, hb.1]) h
  rw [hb.2.2] at this
  linarith

theorem pairwiseOK_sound (n : Nat) (eps : Rat) (G : List Vec) (r : Vec) (hG : ∀ g ∈ G, g.length = n)
    (hr : r.length = n) (h : pairwiseOK eps G r = true) : ∀ b, IsBelief n b → ∃ g ∈ G, dot b r ≤ dot b g + eps := by
  simp only [pairwiseOK, List.any_eq_true] at h
  obtain ⟨g, hg, hd⟩ := h
  exact fun b hb => ⟨g, hg, domAbs_value n eps b g r hb (hG g hg) hr hd⟩

/-! ## 3. the library's `dominates` -/

theorem le_maxQ_left (a b : Rat) : a ≤ maxQ a b := by
  unfold maxQ; split <;> linarith
theorem le_maxQ_right (a b : Rat) : b ≤ maxQ a b := by
  unfold maxQ; split <;> linarith

theorem le_absQ (x : Rat) : x ≤ absQ x := by
  unfold absQ; split <;> linarith

theorem domAbs_mono (e e' : Rat) (he : e ≤ e') : ∀ (l r : Vec), domAbs e l r = true → domAbs e' l r = true
  | [], _, _ => by simp [domAbs]
  | _ :: _, [], _ => by simp [domAbs]
  | x :: l, y :: r, h => by
    simp only [domAbs, Bool.and_eq_true, decide_eq_true_eq] at h ⊢
    exact ⟨by linarith [h.1], domAbs_mono e e' he l r h.2⟩

/-- the relative clause alone: a deficit is only allowed where `min a b ≥ 0`, and then it is at most
    `min a b * tolG ≤ M * tolG`; where `min a b < 0` the clause demands a surplus -/
theorem domRel_domAbs (tolG M e : Rat) (hG : 0 ≤ tolG) (he0 : 0 ≤ e) (heM : M * tolG ≤ e) :
    ∀ (l r : Vec), (∀ x ∈ l, absQ x ≤ M) → domRel tolG l r = true → domAbs e l r = true
  | [], _, _, _ => by simp [domAbs]
  | _ :: _, [], _, _ => by simp [domAbs]
  | x :: l, y :: r, hl, h => by
    simp only [domRel, Bool.and_eq_true, decide_eq_true_eq] at h
    simp only [domAbs, Bool.and_eq_true, decide_eq_true_eq]
    refine ⟨?_, domRel_domAbs tolG M e hG he0 heM l r (fun z hz => hl z (List.mem_cons_of_mem _ hz)) h.2⟩
    have hxM : x ≤ M := le_trans (le_absQ x) (hl x (List.mem_cons_self ..))
    have hmin : minQ x y ≤ x := by unfold minQ; split <;> linarith
    rcases le_or_gt 0 (minQ x y) with hm | hm
    · have : minQ x y * tolG ≤ M * tolG := mul_le_mul_of_nonneg_right (le_trans hmin hxM) hG
      linarith [h.1]
    · have : 0 ≤ (-(minQ x y)) * tolG := mul_nonneg (by linarith) hG
      linarith [h.1]

/-- `hlen`, `hr` and `hS` are not needed (both tests truncate in the same way, and `|l_s| ≤ M` already
    bounds `min l_s r_s` from above); they are kept in `dominatesT_domAbs` below as requested. -/
theorem dominatesT_domAbs' (tolS tolG M : Rat) (hS : 0 ≤ tolS) (hG : 0 ≤ tolG) (l r : Vec)
    (hl : ∀ x ∈ l, absQ x ≤ M) (h : dominatesT tolS tolG l r = true) :
    domAbs (maxQ tolS (M * tolG)) l r = true := by
  simp only [dominatesT, Bool.or_eq_true] at h
  rcases h with h | h
  · exact domAbs_mono _ _ (le_maxQ_left _ _) l r h
  · exact domRel_domAbs tolG M _ hG (le_trans hS (le_maxQ_left _ _)) (le_maxQ_right _ _) l r hl h

theorem dominatesT_domAbs (tolS tolG M : Rat) (hS : 0 ≤ tolS) (hG : 0 ≤ tolG) (l r : Vec)
    (_hlen : l.length = r.length) (hl : ∀ x ∈ l, absQ x ≤ M) (_hr : ∀ x ∈ r, absQ x ≤ M)
    (h : dominatesT tolS tolG l r = true) : domAbs (maxQ tolS (M * tolG)) l r = true :=
  dominatesT_domAbs' tolS tolG M hS hG l r hl h

theorem tolSmall_nonneg : (0 : Rat) ≤ Gen.equalToleranceSmall := by decide +kernel
theorem tolGeneral_nonneg : (0 : Rat) ≤ Gen.equalToleranceGeneral := by decide +kernel

theorem dominates_value (n : Nat) (M : Rat) (b l r : Vec) (hb : IsBelief n b) (hl : l.length = n) (hr : r.length = n)
    (hlM : ∀ x ∈ l, absQ x ≤ M) (hrM : ∀ x ∈ r, absQ x ≤ M) (h : dominates l r = true) :
    dot b r ≤ dot b l + linkSlack M :=
  domAbs_value n _ b l r hb hl hr
    (dominatesT_domAbs _ _ M tolSmall_nonneg tolGeneral_nonneg l r (by rw [hl, hr]) hlM hrM h)

theorem domExact_value (n : Nat) (b l r : Vec) (hb : IsBelief n b) (hl : l.length = n) (hr : r.length = n)
    (h : domExact l r = true) : dot b r ≤ dot b l := by
  have := domAbs_value n 0 b l r hb hl hr h
  linarith

/-- Transitivity needs the middle vector to be at least as long as the shorter of the outer two: the
    zip-truncating test is vacuous on `[]`, so `domExact [1] [] = domExact [] [2] = true` but
    `domExact [1] [2] = false`.  The two length hypotheses are kept. -/
theorem domExact_trans : ∀ (a b c : Vec), a.length = b.length → b.length = c.length →
    domExact a b = true → domExact b c = true → domExact a c = true
  | [], _, _, _, _, _, _ => by simp [domExact, domAbs]
  | _ :: _, [], _, hab, _, _, _ => by simp at hab
  | _ :: _, _ :: _, [], _, hbc, _, _ => by simp at hbc
  | x :: a, y :: b, z :: c, hab, hbc, h1, h2 => by
    simp only [domExact, domAbs, Bool.and_eq_true, decide_eq_true_eq] at h1 h2 ⊢
    exact ⟨by linarith [h1.1, h2.1],
      domExact_trans a b c (by simpa using hab) (by simpa using hbc) h1.2 h2.2⟩

/-- the counterexample to transitivity without length hypotheses -/
example : domExact [1] [] = true ∧ domExact [] [2] = true ∧ domExact [1] [2] = false := by decide +kernel

/-! ## 4. Farkas / convex-dominance certificate -/

theorem exists_max : ∀ (xs : List Rat), xs ≠ [] → ∃ x ∈ xs, ∀ y ∈ xs, y ≤ x
  | [], h => absurd rfl h
  | [x], _ => ⟨x, by simp, by simp⟩
  | x :: y :: xs, _ => by
    obtain ⟨m, hm, hmax⟩ := exists_max (y :: xs) (by simp)
    rcases le_total x m with hx | hx
    · refine ⟨m, List.mem_cons_of_mem _ hm, ?_⟩
      intro z hz
      rcases List.mem_cons.mp hz with rfl | hz
      · exact hx
      · exact hmax z hz
    · refine ⟨x, List.mem_cons_self .., ?_⟩
      intro z hz
      rcases List.mem_cons.mp hz with rfl | hz
      · exact le_refl _
      · exact le_trans (hmax z hz) hx

/-- a non-negative combination is at most (total weight) × (any upper bound of the entries) -/
theorem dot_le_mul_sumL (m : Rat) : ∀ (l xs : Vec), (∀ w ∈ l, 0 ≤ w) → l.length = xs.length →
    (∀ x ∈ xs, x ≤ m) → dot l xs ≤ m * sumL l
  | [], _, _, _, _ => by simp [dot_nil_left, sumL]
  | _ :: _, [], _, hlen, _ => by simp at hlen
  | w :: l, x :: xs, hl, hlen, hx => by
    have ih := dot_le_mul_sumL m l xs (fun w hw => hl w (List.mem_cons_of_mem _ hw)) (by simpa using hlen)
      (fun x hx' => hx x (List.mem_cons_of_mem _ hx'))
    have h1 : 0 ≤ w * (m - x) :=
      mul_nonneg (hl w (List.mem_cons_self ..)) (by linarith [hx x (List.mem_cons_self ..)])
    simp only [dot_cons, sumL]
    linarith

/-- a convex combination of numbers is at most one of them.
    (`l.length = xs.length` is needed: `l = [1], xs = []` has no entry to pick.) -/
theorem exists_ge_of_convex (l xs : Vec) (hl : IsBelief xs.length l) : ∃ x ∈ xs, dot l xs ≤ x := by
  have hne : xs ≠ [] := by
    intro h
    have h0 : l = [] := List.eq_nil_of_length_eq_zero (by rw [hl.1, h]; rfl)
    have := hl.2.2
    rw [h0] at this
    simp [sumL] at this
  obtain ⟨m, hm, hmax⟩ := exists_max xs hne
  refine ⟨m, hm, ?_⟩
  have := dot_le_mul_sumL m l xs hl.2.1 hl.1 hmax
  rw [hl.2.2] at this
  linarith

/-- core of the Farkas argument; none of the length hypotheses on `G` and `r` is needed because every
    coordinate access is a `getD` with default 0 and `b` has exactly `n` coordinates -/
theorem convex_core (n : Nat) (eps : Rat) (G : List Vec) (l r : Vec) (hl : IsBelief G.length l)
    (hdom : ∀ s, s < n → r.getD s 0 ≤ comboAt l G s + eps) :
    ∀ b, IsBelief n b → ∃ g ∈ G, dot b r ≤ dot b g + eps := by
  intro b hb
  have hbn : b.length ≤ n := le_of_eq hb.1
  -- `b·r ≤ Σ_s b_s (mix_s + eps) = Σ_i l_i (b·g_i) + eps`
  have h1 : dot b r ≤ rsum n (fun s => b.getD s 0 * mixAt l G s + eps * b.getD s 0) := by
    rw [dot_eq_rsum n b r hbn]
    refine rsum_le _ _ _ (fun s hs => ?_)
    have h0 := getD_nonneg b hb.2.1 s
    have hd := hdom s hs
    unfold comboAt at hd
    have : 0 ≤ b.getD s 0 * (mixAt l G s + eps - r.getD s 0) := mul_nonneg h0 (by linarith)
    linarith
  rw [rsum_add, rsum_mul_left, rsum_mixAt n b hbn, ← sumL_eq_rsum n b hbn, hb.2.2] at h1
  obtain ⟨x, hx, hle⟩ := exists_ge_of_convex l (G.map (dot b)) (by simpa using hl)
  obtain ⟨g, hg, rfl⟩ := List.mem_map.mp hx
  exact ⟨g, hg, by linarith⟩

theorem farkasOK_sound' (n : Nat) (eps : Rat) (G : List Vec) (l r : Vec)
    (h : farkasOK n eps G l r = true) : ∀ b, IsBelief n b → ∃ g ∈ G, dot b r ≤ dot b g + eps := by
  simp only [farkasOK, Bool.and_eq_true, List.all_eq_true, decide_eq_true_eq, List.mem_range] at h
  exact convex_core n eps G l r ((isBeliefB_iff _ _).mp h.1) h.2

theorem farkasOK_sound (n : Nat) (eps : Rat) (G : List Vec) (l r : Vec) (_hG : ∀ g ∈ G, g.length = n)
    (_hr : r.length = n) (h : farkasOK n eps G l r = true) :
    ∀ b, IsBelief n b → ∃ g ∈ G, dot b r ≤ dot b g + eps :=
  farkasOK_sound' n eps G l r h

/-- the brief's name for the keep-side certificate -/
theorem farkas_keep_sound (n : Nat) (eps : Rat) (G : List Vec) (l r : Vec) (hG : ∀ g ∈ G, g.length = n)
    (hr : r.length = n) (h : farkasOK n eps G l r = true) :
    ∀ b, IsBelief n b → ∃ g ∈ G, dot b r ≤ dot b g + eps :=
  farkasOK_sound n eps G l r hG hr h

theorem convex_dominance_sound (n : Nat) (G : List Vec) (l r : Vec) (_hG : ∀ g ∈ G, g.length = n)
    (_hr : r.length = n) (hl : IsBelief G.length l) (hdom : ∀ s, s < n → r.getD s 0 ≤ comboAt l G s) :
    ∀ b, IsBelief n b → ∃ g ∈ G, dot b r ≤ dot b g := by
  intro b hb
  obtain ⟨g, hg, h⟩ := convex_core n 0 G l r hl (fun s hs => by linarith [hdom s hs]) b hb
  exact ⟨g, hg, by linarith⟩

/-- test: a Farkas certificate on literals (`r` is below the midpoint of the two rows but below neither row) -/
example : farkasOK 2 0 [[4, 0], [0, 4]] [1/2, 1/2] [2, 2] = true ∧
    pairwiseOK 0 [[4, 0], [0, 4]] [2, 2] = false := by decide +kernel

/-! ## 6. weak duality for the interpolation LP -/

theorem getD_map_dot (h : Vec) (pts : List Vec) (j : Nat) :
    (pts.map (dot h)).getD j 0 = dot h (pts.getD j []) := by
  rw [List.getD_eq_getElem?_getD, List.getD_eq_getElem?_getD, List.getElem?_map]
  cases pts[j]? with
  | none => simp [dot_nil_right]
  | some p => simp

/-- only `hcv` of the three length hypotheses is used (and `h.length = cv.length`, `wc.length = point.length`,
    `wp.length = pts.length` checked by the two tests) -/
theorem weak_duality_sound' (point cv wc wp vals h : Vec) (pts : List Vec)
    (hp : primalOK point wc wp pts = true) (hd : dualOK cv pts vals h = true)
    (hcv : cv.length = point.length) : dot h point ≤ weightedValue cv wc wp vals := by
  simp only [primalOK, nonneg, reconAt, dualOK, Bool.and_eq_true, List.all_eq_true, decide_eq_true_eq,
    beq_iff_eq, List.mem_range] at hp hd
  obtain ⟨⟨⟨⟨hwc, hwp⟩, hwcl⟩, hwpl⟩, hrec⟩ := hp
  obtain ⟨⟨hhl, hcorner⟩, hpt⟩ := hd
  have hhn : h.length ≤ point.length := by omega
  -- `h·point = h·wc + Σ_j wp_j (h·p_j)`
  have e1 : dot h point = dot h wc + dot wp (pts.map (dot h)) := by
    rw [dot_eq_rsum point.length h point hhn, dot_eq_rsum point.length h wc hhn,
      ← rsum_mixAt point.length h hhn wp pts, ← rsum_add]
    refine rsum_congr _ _ _ (fun s hs => ?_)
    have := hrec s hs
    have e : point.getD s 0 = wc.getD s 0 + mixAt wp pts s := by linarith
    rw [e]; ring
  -- corners
  have e2 : dot h wc ≤ dot wc cv := by
    rw [dot_eq_rsum point.length h wc hhn, dot_eq_rsum point.length wc cv (le_of_eq hwcl)]
    refine rsum_le _ _ _ (fun s hs => ?_)
    have h0 := getD_nonneg wc hwc s
    have h1 := hcorner s (by omega)
    have : 0 ≤ wc.getD s 0 * (cv.getD s 0 - h.getD s 0) := mul_nonneg h0 (by linarith)
    linarith
  -- stored points
  have e3 : dot wp (pts.map (dot h)) ≤ dot wp vals := by
    rw [dot_eq_rsum pts.length wp _ (le_of_eq hwpl), dot_eq_rsum pts.length wp vals (le_of_eq hwpl)]
    refine rsum_le _ _ _ (fun j hj => ?_)
    have h0 := getD_nonneg wp hwp j
    have h1 := hpt j hj
    rw [getD_map_dot]
    have : 0 ≤ wp.getD j 0 * (vals.getD j 0 - dot h (pts.getD j [])) := mul_nonneg h0 (by linarith)
    linarith
  unfold weightedValue
  linarith

theorem weak_duality_sound (point cv wc wp vals h : Vec) (pts : List Vec)
    (hp : primalOK point wc wp pts = true) (hd : dualOK cv pts vals h = true)
    (hcv : cv.length = point.length) (_hpts : ∀ p ∈ pts, p.length = point.length)
    (_hvals : vals.length = pts.length) : dot h point ≤ weightedValue cv wc wp vals :=
  weak_duality_sound' point cv wc wp vals h pts hp hd hcv

/-- the brief's second name -/
theorem interp_sound (point cv wc wp vals h : Vec) (pts : List Vec)
    (hp : primalOK point wc wp pts = true) (hd : dualOK cv pts vals h = true)
    (hcv : cv.length = point.length) (hpts : ∀ p ∈ pts, p.length = point.length)
    (hvals : vals.length = pts.length) : dot h point ≤ weightedValue cv wc wp vals :=
  weak_duality_sound point cv wc wp vals h pts hp hd hcv hpts hvals

/-- test: dimension 2, one stored point `p = (1/2, 1/2)` of value 1, corner values `(4, 4)`;
    query `(3/4, 1/4) = (1/2, 0) + 1/2 · p`; hyperplane `h = (4, -2)`.
    Primal and dual tests hold simultaneously and here the two values coincide (`5/2`): the pair is optimal. -/
example : primalOK [3/4, 1/4] [1/2, 0] [1/2] [[1/2, 1/2]] = true ∧
    dualOK [4, 4] [[1/2, 1/2]] [1] [4, -2] = true ∧
    dot [4, -2] [3/4, 1/4] = 5/2 ∧ weightedValue [4, 4] [1/2, 0] [1/2] [1] = 5/2 := by decide +kernel

end AITB.C12Check
