/-
  AITB.Props.C16Rng — C16 for the objects that carry a random engine, and the clauses the driver evaluates.

  * obligations over `AITB.Gen.C16Rng` (regenerated on every run by tools/extract_c16.py from include/ + src/):
      `engines_seeded_from_root`   every constructor of every class owning a `RandomEngine` seeds it with `Seeder::getSeed()`
                                   (or delegates to one that does) — except the constructors listed in `knownUnseeded`
                                   (finding C16-4, open: those engines are default-constructed, the same stream for every
                                   object and every root seed)
      `seeder_as_modelled`         `Seeder::getSeed` / `setRootSeed` have the bodies `runSeeder`/`stepW` model
      `seeder_used_only_to_seed`   the library never touches `Seeder` except to seed an engine in an initialiser
      `sampling_helpers_stateless` the helpers of Utils/Probability that take an engine own no `static`/`thread_local` state
      `engine_classes_covered`     every class owning an engine is exercised by a named harness subject (or named as covered)
  * `sameB_iff`, `firstDiff_sound`, `streamsDifferB_false_iff`: the `same` / `differ` clauses of the driver decide what they say
  * instances of the world model for `MDP::Model::sampleSR` and `POMDP::Model::sampleSOR` (C08's models of the samplers):
    `mdp_sampler_history_free`, `pomdp_sampler_history_free`
  Core Lean only.
-/
import AITB.Gen.C16Rng
import AITB.Model.C16Check
import AITB.Props.C16World
namespace AITB.Hidden
open AITB

/-! ### obligations over the regenerated engine inventory -/

/-- constructors that leave the engine default-constructed (finding C16-4, fixes/C16-4-unseeded-engines.diff).
    With the fix applied the generated table has no "unseeded" row and this list is simply unused. -/
def knownUnseeded : List (String × String) := [
  ("AIToolbox::POMDP::Model", "NoCheck, size_t o, ObservationMatrix && ot, Args&&... params"),
  ("AIToolbox::POMDP::SparseModel", "NoCheck, size_t o, ObservationMatrix && ot, Args&&... params"),
  ("AIToolbox::MDP::DoubleQLearning", "const size_t ss, const size_t aa, const double discount, const double alpha"),
  ("AIToolbox::Factored::MDP::CooperativeMaximumLikelihoodModel", "const CooperativeExperience & exp, const double discount, const bool toSync"),
  ("AIToolbox::Factored::MDP::CooperativeThompsonModel", "const CooperativeExperience & exp, const double discount"),
  ("AIToolbox::Factored::Bandit::MiningBandit", "Action aa, std::vector<unsigned> workersPerVillage, std::vector<double> pPerMine, bool normalizeToOne") ]

/-- the one hand-written copy constructor of a class owning an engine: it copies the engine (`rand_(other.rand_)`), which is
    what the implicit copy constructors of all the other classes do (`WOp.copy`) -/
def copyCtors : List (String × String) := [
  ("AIToolbox::Factored::MDP::CooperativeModel", "const CooperativeModel & other") ]

/-- **engines_seeded_from_root** — every user-written constructor of every class that owns a `RandomEngine` initialises it
    from `Seeder::getSeed()` (so `WOp.construct` is what construction does), apart from the recorded finding and the copy
    constructor.  A new constructor that forgets the engine, or a removed initialiser, re-opens this obligation. -/
theorem engines_seeded_from_root :
    ∀ c ∈ AITB.Gen.C16Rng.ctors, c.2.2 = "unseeded" → (knownUnseeded ++ copyCtors).contains (c.1, c.2.1) = true := by
  decide +kernel

/-- every class owning an engine has at least one constructor in the table (no class escaped the scan) -/
theorem engine_classes_have_ctors :
    ∀ e ∈ AITB.Gen.C16Rng.engines, (AITB.Gen.C16Rng.ctors.map (·.1)).contains e.1 = true := by
  decide +kernel

theorem seeder_as_modelled : AITB.Gen.C16Rng.getSeedAsModelled = true ∧ AITB.Gen.C16Rng.setRootSeedAsModelled = true := by
  decide +kernel

/-- the Seeder is only ever used to seed an engine being constructed: no library code reseeds the root or draws a seed for any
    other purpose.  (A member function may still CONSTRUCT an engine-owning helper and so advance the Seeder: those are listed
    by `calls_that_draw_seeds_accounted`; for all other classes `WOp.call` does not touch `World.seeder`.) -/
theorem seeder_used_only_to_seed : AITB.Gen.C16Rng.usesOutsideInit = [] ∧ 30 ≤ AITB.Gen.C16Rng.seederUses := by
  decide +kernel

/-- no sampling helper of Utils/Probability owns state (a function-local `static` distribution would be shared by all objects:
    seeded change C16-3), and those that draw take the caller's engine by reference -/
theorem sampling_helpers_stateless :
    ∀ h ∈ AITB.Gen.C16Rng.samplingHelpers, h.2.2.2 = false := by
  decide +kernel

/-- harness subject (harness/c16.cpp) exercising each engine-owning class; `via:` = reached through the named subject's object -/
def engineCoverage : List (String × String) := [
  ("AIToolbox::PolicyInterface", "MDP::QGreedyPolicy::sampleAction, MDP::QSoftmaxPolicy::sampleAction, MDP::EpsilonPolicy(QGreedy)::sampleAction, MDP::RandomPolicy::sampleAction, MDP::Policy(matrix)::sampleAction"),
  ("AIToolbox::PolicyInterface<void,void,Action>", "not exercised (Bandit policies; same constructor pattern, pinned by engines_seeded_from_root)"),
  ("AIToolbox::Bandit::Model", "Bandit::Model<bernoulli>"),
  ("AIToolbox::Factored::Bandit::LocalSearch", "LocalSearch(object)"),
  ("AIToolbox::Factored::Bandit::ReusingIterativeLocalSearch", "ReusingIterativeLocalSearch(object)"),
  ("AIToolbox::Factored::Bandit::MiningBandit", "MiningBandit"),
  ("AIToolbox::Factored::MDP::CooperativeMaximumLikelihoodModel", "not exercised (pinned by engines_seeded_from_root; listed in C16-4)"),
  ("AIToolbox::Factored::MDP::CooperativeModel", "not exercised (pinned by engines_seeded_from_root)"),
  ("AIToolbox::Factored::MDP::CooperativeThompsonModel", "not exercised (pinned by engines_seeded_from_root; listed in C16-4)"),
  ("AIToolbox::Factored::MDP::CooperativePrioritizedSweeping", "not exercised (pinned by engines_seeded_from_root)"),
  ("AIToolbox::Factored::MDP::TigerAntelope", "not exercised (environment; pinned by engines_seeded_from_root)"),
  ("AIToolbox::MDP::MaximumLikelihoodModel", "MaximumLikelihoodModel::sampleSR"),
  ("AIToolbox::MDP::Model", "MDP::Model::sampleSR"),
  ("AIToolbox::MDP::SparseMaximumLikelihoodModel", "not exercised (same code shape as MaximumLikelihoodModel; pinned by engines_seeded_from_root)"),
  ("AIToolbox::MDP::SparseModel", "MDP::SparseModel::sampleSR"),
  ("AIToolbox::MDP::ThompsonModel", "ThompsonModel::sync"),
  ("AIToolbox::MDP::DoubleQLearning", "DoubleQLearning"),
  ("AIToolbox::MDP::DynaQ", "DynaQ"),
  ("AIToolbox::MDP::MCTS", "MCTS"),
  ("AIToolbox::POMDP::Model", "POMDP::Model(checked)::sampleSOR, POMDP::Model(NO_CHECK)::observations"),
  ("AIToolbox::POMDP::SparseModel", "POMDP::SparseModel(NO_CHECK)::observations"),
  ("AIToolbox::POMDP::PBVI", "PBVI(object)"),
  ("AIToolbox::POMDP::PERSEUS", "PERSEUS(object)"),
  ("AIToolbox::POMDP::POMCP", "POMCP"),
  ("AIToolbox::POMDP::rPOMCP", "rPOMCP"),
  ("AIToolbox::POMDP::BeliefGenerator", "BeliefGenerator") ]

/-- **engine_classes_covered** — a new class owning an engine must be given a harness subject (or an explicit "not exercised") -/
theorem engine_classes_covered :
    ∀ e ∈ AITB.Gen.C16Rng.engines, (engineCoverage.map (·.1)).contains e.1 = true := by
  decide +kernel

/-! ### the driver's clauses decide what they say -/

theorem bitEq_iff (x y : XRat) : bitEq x y = true ↔ x = y := by
  cases x <;> cases y <;> simp [bitEq]

theorem firstDiff_none_iff : ∀ (a b : List XRat) (i : Nat), firstDiff a b i = none ↔ a = b
  | [], [], _ => by simp [firstDiff]
  | [], _ :: _, _ => by simp [firstDiff]
  | _ :: _, [], _ => by simp [firstDiff]
  | x :: xs, y :: ys, i => by
    simp only [firstDiff]
    by_cases h : bitEq x y = true
    · simp only [h, if_true, firstDiff_none_iff xs ys (i + 1)]
      have := (bitEq_iff x y).1 h
      subst this; simp
    · simp only [h]
      have : x ≠ y := fun e => h ((bitEq_iff x y).2 e)
      simp [this]

/-- **sameB_iff** — the `same` clause accepts exactly the pairs of identical outputs -/
theorem sameB_iff (a b : List XRat) : sameB a b = true ↔ a = b := by
  unfold sameB
  rw [Option.isNone_iff_eq_none]
  exact firstDiff_none_iff a b 0

/-- the index reported with a failing `same` is a position where the outputs really differ (or one of them has ended) -/
theorem firstDiff_sound : ∀ (a b : List XRat) (i k : Nat), firstDiff a b i = some k →
    i ≤ k ∧ (a[k - i]? ≠ b[k - i]?)
  | [], [], _, _ => by simp [firstDiff]
  | [], _ :: _, i, k => by
    intro h; simp only [firstDiff, Option.some.injEq] at h; subst h; simp
  | _ :: _, [], i, k => by
    intro h; simp only [firstDiff, Option.some.injEq] at h; subst h; simp
  | x :: xs, y :: ys, i, k => by
    intro h
    simp only [firstDiff] at h
    by_cases hb : bitEq x y = true
    · simp only [hb, if_true] at h
      obtain ⟨h1, h2⟩ := firstDiff_sound xs ys (i + 1) k h
      refine ⟨by omega, ?_⟩
      have : k - i = (k - (i + 1)) + 1 := by omega
      rw [this]; simpa using h2
    · simp only [hb] at h
      simp only [Bool.false_eq_true, if_false, Option.some.injEq] at h
      subst h
      have : x ≠ y := fun e => hb ((bitEq_iff x y).2 e)
      simp [this]

/-- **streamsDifferB_false_iff** — the `differ` clause rejects exactly: two identical streams of at least `minStream` values -/
theorem streamsDifferB_false_iff (a b : List XRat) : streamsDifferB a b = false ↔ (minStream ≤ a.length ∧ a = b) := by
  unfold streamsDifferB
  rw [Bool.or_eq_false_iff]
  constructor
  · rintro ⟨h1, h2⟩
    refine ⟨by simpa using h1, ?_⟩
    have : sameB a b = true := by simpa using h2
    exact (sameB_iff a b).1 this
  · rintro ⟨h1, h2⟩
    refine ⟨by simpa using h1, ?_⟩
    have : sameB a b = true := (sameB_iff a b).2 h2
    simp [this]

-- test on literals
example : firstDiff [.fin 1, .nan, .fin 3] [.fin 1, .nan, .fin 4] 0 = some 2 := by decide
example : sameB [.fin 1, .pinf] [.fin 1, .pinf] = true := by decide

/-! ### instances: the model classes' samplers are objects of the world model -/

/-- **mdp_sampler_history_free** — `MDP::Model::sampleSR` (C08's model of the code): in any program, the samples returned by a
    model object created after `setRootSeed s` … `q1` are those of a lone object whose engine was seeded with the word of the
    root stream at the Seeder position `q1` leaves, whatever ran before the reseed (`p`, the initial world `w`) and whatever
    other objects are constructed, copied or called in between (`q2`). -/
theorem mdp_sampler_history_free (uniformOf : Nat → Nat → Rat) (stream : Nat → Nat → Nat)
    (w : World DrawEng MdpCfg) (p q1 q2 : List (WOp MdpCfg (Nat × Nat))) (s : Nat) (c : MdpCfg) :
    outputsOf (runW (mdpModelSampler uniformOf) stream w (p ++ WOp.setRoot s :: q1)).2.objs.length
        (runW (mdpModelSampler uniformOf) stream w ((p ++ WOp.setRoot s :: q1) ++ WOp.construct c :: q2)).1
      = objTrace (mdpModelSampler uniformOf)
          (c, ⟨uniformOf (stream (seederAfter 1 ⟨s, 0⟩ q1).root (seederAfter 1 ⟨s, 0⟩ q1).pos), 0⟩)
          (inputsOf (runW (mdpModelSampler uniformOf) stream w (p ++ WOp.setRoot s :: q1)).2.objs.length q2) := by
  have h := fresh_object_outputs (mdpModelSampler uniformOf) stream w p q1 q2 s c
  rw [h]
  simp [mdpModelSampler, seedsAt]

/-- **pomdp_sampler_history_free** — the same for `POMDP::Model<MDP::Model>::sampleSOR`, an object with TWO engines (the base
    class's, seeded first, draws s'; the derived class's draws o): both are functions of two consecutive words of the root stream. -/
theorem pomdp_sampler_history_free (uniformOf : Nat → Nat → Rat) (stream : Nat → Nat → Nat)
    (w : World (DrawEng × DrawEng) PomdpCfg) (p q1 q2 : List (WOp PomdpCfg (Nat × Nat))) (s : Nat) (c : PomdpCfg) :
    outputsOf (runW (pomdpModelSampler uniformOf) stream w (p ++ WOp.setRoot s :: q1)).2.objs.length
        (runW (pomdpModelSampler uniformOf) stream w ((p ++ WOp.setRoot s :: q1) ++ WOp.construct c :: q2)).1
      = objTrace (pomdpModelSampler uniformOf)
          (c, (⟨uniformOf (stream (seederAfter 2 ⟨s, 0⟩ q1).root (seederAfter 2 ⟨s, 0⟩ q1).pos), 0⟩,
               ⟨uniformOf (stream (seederAfter 2 ⟨s, 0⟩ q1).root ((seederAfter 2 ⟨s, 0⟩ q1).pos + 1)), 0⟩))
          (inputsOf (runW (pomdpModelSampler uniformOf) stream w (p ++ WOp.setRoot s :: q1)).2.objs.length q2) := by
  have h := fresh_object_outputs (pomdpModelSampler uniformOf) stream w p q1 q2 s c
  rw [h]
  simp [pomdpModelSampler, seedsAt, List.range_succ]

-- test on literals: two POMDP model objects, calls interleaved; object 0's samples are those of a lone object
example :
    let S := pomdpModelSampler (fun seed k => ((seed + 3 * k) % 8 : Nat) / 8)
    let cfg : PomdpCfg := ⟨fun _ _ => [1/2, 1/2], fun _ _ => [1/4, 3/4], fun s a => s + a⟩
    outputsOf 0 (runW S (fun r k => r + k) ⟨⟨0, 0⟩, []⟩
        [.setRoot 1, .construct cfg, .construct cfg, .call 0 (0, 0), .call 1 (0, 0), .call 0 (1, 0), .call 1 (1, 1)]).1
      = objTrace S (cfg, S.seedEngine [1, 2]) [(0, 0), (1, 0)] := by
  decide +kernel

end AITB.Hidden
