/-
  AITB.Props.C12InterpOpt — ordering / optimality theorems for the repaired readings of
  `sawtoothInterpolation` and `LPInterpolation` (model: AITB.Model.Interp).

  1. `sawtooth_bounds`   : min(LP optimum, per-action linear bound) ≤ sawtooth value ≤ corner-only bound, the LP
                           optimum being represented by an arbitrary dual-feasible hyperplane (weak duality).
  2. `lpinterp_optimal`  : with an LP oracle that returns an OPTIMAL point (`LpOptimal`), the value returned by the
                           repaired `LPInterpolation` is below the value of EVERY exact primal-feasible
                           reconstruction of the query, as soon as one stored point shares the query's support.
                           All branches are covered (single-point shortcut, LP).  The hypothesis "the point-weights
                           vanish outside the compatible set" is NOT needed: it is proved (`weight_zero_of_not_compat`).
                           One hypothesis is ADDED with respect to `lpinterp_weights`: the query and the stored
                           points have the same positive mass (`hmass`, `hsum`; beliefs: all sums are 1).  It is
                           only used by the single-point shortcut, which starts its running minimum at 1, and it
                           cannot be dropped: `lpinterp_optimal_needs_mass`.

  Literal tests use `decide +kernel`.
-/
import AITB.Props.C12Interp
import AITB.Props.C12Cert
import Mathlib.Algebra.Order.Field.Rat
import Mathlib.Tactic.Ring
import Mathlib.Tactic.Linarith
import Mathlib.Tactic.NormNum

namespace AITB.Interp
open AITB.Prune AITB.C12Check

/-! ## 1. sawtooth lies between min(LP optimum, linear bound) and the corner-only bound -/

theorem cornerVals_length (ubQ : List Vec) : (cornerVals ubQ).length = ubQ.length := by
  simp [cornerVals]

/-- the repaired sawtooth value `v` satisfies `min(h·point, basicV) ≤ v ≤ point·cornerVals` for every
    dual-feasible hyperplane `h` (by LP duality the LP optimum is the largest such `h·point`) -/
theorem sawtooth_bounds {point : Vec} {ubQ : List Vec} {A : Nat} {pts : List Vec} {vals : Vec}
    (hpt : ∀ x ∈ point, 0 ≤ x) (hrows : ubQ.length = point.length ∧ ∀ row ∈ ubQ, row.length = A) (hA : 0 < A)
    (hlen : vals.length = pts.length) (hpts : ∀ p ∈ pts, ∀ x ∈ p, 0 ≤ x)
    (hz : ∀ p ∈ pts, ∀ s, isZeroS (p.getD s 0) = true → p.getD s 0 = 0)
    (hptlen : ∀ p ∈ pts, p.length = point.length)
    {h : Vec} (hd : dualOK (cornerVals ubQ) pts vals h = true) {v : Rat} {w : Vec}
    (hs : sawtooth repaired point ubQ A pts vals = some ⟨v, some w⟩) :
    minQ (dot h point) (basicV point ubQ A) ≤ v ∧ v ≤ dot point (cornerVals ubQ) := by
  refine ⟨?_, sawtooth_le_corner_bound repaired point ubQ A pts vals ⟨v, some w⟩ hs⟩
  rcases sawtooth_repaired_value hpt hrows hA hlen hpts hz hptlen hs with hv | ⟨wc, wp, hp, hv⟩
  · rw [hv]; exact minQ_le_right _ _
  · have := weak_duality_sound' point (cornerVals ubQ) wc wp vals h pts hp hd
      (by rw [cornerVals_length]; exact hrows.1)
    rw [hv] at this
    exact le_trans (minQ_le_left _ _) this

/-- test: the hypotheses of `sawtooth_bounds` are satisfiable (harness input; `h = (1/2, 5/2, -3/2)` is the optimal
    dual hyperplane, `h·point = 3/2`, `basicV = 7/2`, sawtooth value `7/3`, corner bound `9/2`) -/
example : minQ (dot [1/2, 5/2, -3/2] [1/2, 1/2, 0]) (basicV [1/2, 1/2, 0] [[4,2],[3,5],[1,6]] 2) ≤ (7/3 : Rat) ∧
    (7/3 : Rat) ≤ dot [1/2, 1/2, 0] (cornerVals [[4,2],[3,5],[1,6]]) :=
  sawtooth_bounds (point := [1/2, 1/2, 0]) (ubQ := [[4,2],[3,5],[1,6]]) (A := 2)
    (pts := [[1/4,3/4,0],[3/4,1/4,0],[1/4,1/4,1/2]]) (vals := [2,1,0]) (h := [1/2, 5/2, -3/2])
    (w := [0, 1/3, 0, 0, 2/3, 0])
    (by decide +kernel) (by decide) (by decide) (by decide) (by decide +kernel)
    (by
      intro p hp s hs
      simp only [List.mem_cons, List.not_mem_nil, or_false] at hp
      rcases hp with rfl | rfl | rfl <;> rcases s with _ | _ | _ | s <;>
        first | rfl | (revert hs; decide +kernel))
    (by decide) (by decide +kernel) (by decide +kernel)

/-- test: the numbers quoted above -/
example : dot [1/2, 5/2, -3/2] [1/2, 1/2, 0] = 3/2 ∧ basicV [1/2, 1/2, 0] [[4,2],[3,5],[1,6]] 2 = 7/2 ∧
    dot [1/2, 1/2, 0] (cornerVals [[4,2],[3,5],[1,6]]) = 9/2 := by decide +kernel

/-! ## 2. LPInterpolation returns the LP optimum -/

/-- the stronger contract of the LP oracle: feasible, objective correctly reported, and no feasible point of the
    LP posed has a smaller objective -/
def LpOptimal (inp : LpIn) (sol : Rat × Vec) : Prop :=
  LpFeasible inp sol ∧ ∀ c : Vec, c.length = inp.gains.length → (∀ x ∈ c, 0 ≤ x) →
    (∀ row ∈ inp.rows, dot row.1 c ≤ row.2) → sol.1 ≤ dot c inp.gains

theorem LpOptimal.feasible {inp : LpIn} {sol : Rat × Vec} (h : LpOptimal inp sol) : LpFeasible inp sol := h.1

/-! ### auxiliary facts -/

theorem mixAt_nonneg (s : Nat) : ∀ (ws : Vec) (ps : List Vec), (∀ x ∈ ws, 0 ≤ x) → (∀ p ∈ ps, ∀ x ∈ p, 0 ≤ x) →
    0 ≤ mixAt ws ps s
  | [], ps, _, _ => by rw [mixAt_nil_left]
  | _ :: _, [], _, _ => by rw [mixAt_nil_right]
  | w :: ws, p :: ps, hw, hp => by
    rw [mixAt_cons]
    have h1 : 0 ≤ w * p.getD s 0 :=
      mul_nonneg (hw w (List.mem_cons_self ..)) (getD_nonneg (hp p (List.mem_cons_self ..)) s)
    have h2 := mixAt_nonneg s ws ps (fun x hx => hw x (List.mem_cons_of_mem _ hx))
      (fun q hq => hp q (List.mem_cons_of_mem _ hq))
    linarith

/-- one term of a non-negative mixture is below the mixture -/
theorem mixAt_ge_term (s : Nat) : ∀ (ws : Vec) (ps : List Vec) (j : Nat), (∀ x ∈ ws, 0 ≤ x) →
    (∀ p ∈ ps, ∀ x ∈ p, 0 ≤ x) → ws.getD j 0 * (ps.getD j []).getD s 0 ≤ mixAt ws ps s
  | [], ps, j, _, _ => by rw [mixAt_nil_left]; simp
  | _ :: _, [], j, _, _ => by rw [mixAt_nil_right]; simp
  | w :: ws, p :: ps, 0, hw, hp => by
    rw [mixAt_cons]
    have := mixAt_nonneg s ws ps (fun x hx => hw x (List.mem_cons_of_mem _ hx))
      (fun q hq => hp q (List.mem_cons_of_mem _ hq))
    simp only [List.getD_cons_zero]
    linarith
  | w :: ws, p :: ps, j+1, hw, hp => by
    rw [mixAt_cons]
    have h1 : 0 ≤ w * p.getD s 0 :=
      mul_nonneg (hw w (List.mem_cons_self ..)) (getD_nonneg (hp p (List.mem_cons_self ..)) s)
    have h2 := mixAt_ge_term s ws ps j (fun x hx => hw x (List.mem_cons_of_mem _ hx))
      (fun q hq => hp q (List.mem_cons_of_mem _ hq))
    simp only [List.getD_cons_succ]
    linarith

theorem getD_mem_of_lt {pts : List Vec} {j : Nat} (hj : j < pts.length) : pts.getD j [] ∈ pts := by
  have he : pts.getD j [] = pts[j] := by
    simp [List.getD_eq_getElem?_getD, List.getElem?_eq_getElem hj]
  rw [he]
  exact List.getElem_mem hj

theorem getD_eq_zero_of_le {l : Vec} {j : Nat} (h : l.length ≤ j) : l.getD j 0 = 0 := by
  simp [List.getD_eq_getElem?_getD, List.getElem?_eq_none h]

theorem getD_map_dot_right (cv : Vec) (pts : List Vec) (j : Nat) :
    (pts.map (fun p => dot p cv)).getD j 0 = dot (pts.getD j []) cv := by
  rw [List.getD_eq_getElem?_getD, List.getD_eq_getElem?_getD, List.getElem?_map]
  cases pts[j]? with
  | none => simp [dot_nil_left]
  | some p => simp

/-- a stored point outside the compatible set is positive (not "zero") at a state where the query is "zero" -/
theorem not_mem_lpCompat {point : Vec} {pts : List Vec} {j : Nat} (hj : j < pts.length)
    (h : j ∉ lpCompat point pts) :
    ∃ s, s < point.length ∧ isZeroS (point.getD s 0) = true ∧ ¬ isZeroS ((pts.getD j []).getD s 0) = true := by
  by_cases he : (idxWhere isZeroS point).isEmpty = true
  · have hc : lpCompat point pts = List.range pts.length := by unfold lpCompat; rw [if_pos he]
    rw [hc] at h
    exact absurd (List.mem_range.mpr hj) h
  · have hc : lpCompat point pts = (List.range pts.length).filter
        (fun i => (idxWhere isZeroS point).all (fun s => isZeroS ((pts.getD i []).getD s 0))) := by
      unfold lpCompat; rw [if_neg he]
    rw [hc] at h
    have hall : ¬ (idxWhere isZeroS point).all (fun s => isZeroS ((pts.getD j []).getD s 0)) = true := by
      intro ha
      exact h (List.mem_filter.mpr ⟨List.mem_range.mpr hj, ha⟩)
    rw [List.all_eq_true] at hall
    have : ∃ s, s ∈ idxWhere isZeroS point ∧ ¬ isZeroS ((pts.getD j []).getD s 0) = true := by
      by_contra hn
      apply hall
      intro s hs
      by_contra hz
      exact hn ⟨s, hs, hz⟩
    obtain ⟨s, hs, hnz⟩ := this
    obtain ⟨hs1, hs2⟩ := List.mem_filter.mp hs
    exact ⟨s, List.mem_range.mp hs1, hs2, hnz⟩

/-- under the exact-zeros hypotheses, every exact reconstruction of the query puts weight 0 on the stored points
    outside the compatible set (they have a positive coordinate where the query is 0) -/
theorem weight_zero_of_not_compat {point : Vec} {pts : List Vec} {wc wp : Vec}
    (hpts : ∀ p ∈ pts, ∀ x ∈ p, 0 ≤ x)
    (hzpt : ∀ s, isZeroS (point.getD s 0) = true → point.getD s 0 = 0)
    (hwc : ∀ x ∈ wc, 0 ≤ x) (hwp : ∀ x ∈ wp, 0 ≤ x) (hwpl : wp.length = pts.length)
    (hrec : ∀ s, s < point.length → reconAt point wc wp pts s = 0) :
    ∀ j, j ∉ lpCompat point pts → wp.getD j 0 = 0 := by
  intro j hj
  rcases Nat.lt_or_ge j pts.length with hlt | hge
  · obtain ⟨s, hs, hzs, hnz⟩ := not_mem_lpCompat hlt hj
    have hpos : 0 < (pts.getD j []).getD s 0 :=
      pos_of_not_isZeroS (getD_nonneg (hpts _ (getD_mem_of_lt hlt)) s) hnz
    have h1 := mixAt_ge_term s wp pts j hwp hpts
    have h2 := hrec s hs
    simp only [reconAt] at h2
    rw [hzpt s hzs] at h2
    have h3 := getD_nonneg hwc s
    have h4 := getD_nonneg hwp j
    rcases lt_or_eq_of_le h4 with h5 | h5
    · have := mul_pos h5 hpos
      linarith
    · exact h5.symm
  · exact getD_eq_zero_of_le (by omega)

/-- a sum over the compatible indices equals the sum over all indices when the summand vanishes outside -/
theorem sumL_lpCompat (point : Vec) (pts : List Vec) (F : Nat → Rat) (h : ∀ j, j ∉ lpCompat point pts → F j = 0) :
    sumL ((lpCompat point pts).map F) = sumL ((List.range pts.length).map F) := by
  by_cases he : (idxWhere isZeroS point).isEmpty = true
  · have hc : lpCompat point pts = List.range pts.length := by unfold lpCompat; rw [if_pos he]
    rw [hc]
  · have hc : lpCompat point pts = (List.range pts.length).filter
        (fun i => (idxWhere isZeroS point).all (fun s => isZeroS ((pts.getD i []).getD s 0))) := by
      unfold lpCompat; rw [if_neg he]
    rw [hc] at h ⊢
    apply sumL_filter
    intro x _ hq
    apply h
    intro hm
    have := (List.mem_filter.mp hm).2
    rw [hq] at this
    cases this

theorem dot_lpCompat {point : Vec} {pts : List Vec} {wp : Vec} (hwpl : wp.length = pts.length)
    (hvan : ∀ j, j ∉ lpCompat point pts → wp.getD j 0 = 0) (X : Vec) :
    dot wp X = dot ((lpCompat point pts).map (fun i => wp.getD i 0)) ((lpCompat point pts).map (fun i => X.getD i 0)) := by
  rw [dot_map_map, sumL_lpCompat point pts (fun i => wp.getD i 0 * X.getD i 0)
    (fun j hj => by simp only [hvan j hj, zero_mul]), ← dot_eq_sumL_range pts.length wp X (le_of_eq hwpl)]

/-- with equal positive masses, no weight of an exact reconstruction exceeds 1 -/
theorem weight_le_one {point : Vec} {pts : List Vec} {wc wp : Vec}
    (hpts : ∀ p ∈ pts, ∀ x ∈ p, 0 ≤ x) (hptlen : ∀ p ∈ pts, p.length = point.length)
    (hmass : 0 < sumL point) (hsum : ∀ p ∈ pts, sumL p = sumL point)
    (hwc : ∀ x ∈ wc, 0 ≤ x) (hwp : ∀ x ∈ wp, 0 ≤ x)
    (hrec : ∀ s, s < point.length → reconAt point wc wp pts s = 0)
    (j : Nat) (hj : j < pts.length) : wp.getD j 0 ≤ 1 := by
  have hm : pts.getD j [] ∈ pts := getD_mem_of_lt hj
  have h1 : rsum point.length (fun s => wp.getD j 0 * (pts.getD j []).getD s 0) ≤
      rsum point.length (fun s => point.getD s 0) := by
    refine rsum_le _ _ _ (fun s hs => ?_)
    have a := mixAt_ge_term s wp pts j hwp hpts
    have b := hrec s hs
    simp only [reconAt] at b
    have c := getD_nonneg hwc s
    linarith
  rw [rsum_mul_left, ← sumL_eq_rsum _ _ (le_of_eq (hptlen _ hm)), ← sumL_eq_rsum _ _ (le_refl _), hsum _ hm] at h1
  by_contra hcon
  have hcon := not_le.mp hcon
  have := mul_pos (sub_pos.mpr hcon) hmass
  linarith

theorem le_foldl_minQ (f : Nat → Rat) (c : Rat) : ∀ (l : List Nat) (m : Rat), c ≤ m → (∀ s ∈ l, c ≤ f s) →
    c ≤ l.foldl (fun m s => minQ m (f s)) m
  | [], m, hm, _ => by simpa using hm
  | t :: l, m, hm, hf => by
    rw [List.foldl_cons]
    exact le_foldl_minQ f c l _ (le_minQ hm (hf t (List.mem_cons_self ..)))
      (fun s hs => hf s (List.mem_cons_of_mem _ hs))

/-! ### the unscaled objective is minimal among the feasible weightings of the compatible points -/

section opt
variable {lp : LpIn → Option (Rat × Vec)} {point cv : Vec} {pts : List Vec} {vals : Vec} {compat : List Nat}

theorem lp_case_opt (hptlen : ∀ p ∈ pts, p.length = point.length)
    (hz : ∀ p ∈ pts, ∀ s, isZeroS (p.getD s 0) = true → p.getD s 0 = 0)
    (hlp : ∀ inp sol, lp inp = some sol → LpOptimal inp sol)
    (hc : ∀ i ∈ compat, i < pts.length ∧ ∀ s, s < point.length → isZeroS (point.getD s 0) = true →
      isZeroS ((pts.getD i []).getD s 0) = true)
    {c : Vec} (hc0 : ∀ x ∈ c, 0 ≤ x) (hcl : c.length = compat.length)
    (hfeas : ∀ s ∈ lpNonZero point, mixAt c (compat.map (fun i => pts.getD i [])) s ≤ point.getD s 0)
    {sol : Rat × Vec}
    (h : lp ⟨(lpNonZero point).map (fun s => ((compat.map (fun i => pts.getD i [])).map (fun p => p.getD s 0), point.getD s 0)),
      compat.map (fun i => vals.getD i 0 - dot (sel (lpNonZero point) (pts.getD i [])) (sel (lpNonZero point) cv))⟩ = some sol) :
    sol.1 ≤ dot c (compat.map (fun i => vals.getD i 0 - dot (pts.getD i []) cv)) := by
  have hopt := (hlp _ _ h).2 c (by simpa using hcl) hc0 (by
    intro row hrow
    obtain ⟨s, hs, rfl⟩ := List.mem_map.mp hrow
    simp only
    rw [dot_comm, ← mixAt_eq_dot]
    exact hfeas s hs)
  simp only at hopt
  have hg : compat.map (fun i => vals.getD i 0 - dot (sel (lpNonZero point) (pts.getD i [])) (sel (lpNonZero point) cv)) =
      compat.map (fun i => vals.getD i 0 - dot (pts.getD i []) cv) := by
    apply List.map_congr_left
    intro i hi
    have hm : pts.getD i [] ∈ pts := compat_getD_mem (fun j hj => (hc j hj).1) hi
    rw [dot_sel_nonZero cv (le_of_eq (hptlen _ hm)) (fun s hs hzs => hz _ hm s ((hc i hi).2 s hs hzs))]
  rw [hg] at hopt
  exact hopt

theorem lpSol_opt (hpts : ∀ p ∈ pts, ∀ x ∈ p, 0 ≤ x)
    (hptlen : ∀ p ∈ pts, p.length = point.length)
    (hz : ∀ p ∈ pts, ∀ s, isZeroS (p.getD s 0) = true → p.getD s 0 = 0)
    (hlp : ∀ inp sol, lp inp = some sol → LpOptimal inp sol)
    (hc : ∀ i ∈ compat, i < pts.length ∧ ∀ s, s < point.length → isZeroS (point.getD s 0) = true →
      isZeroS ((pts.getD i []).getD s 0) = true)
    (hne : compat ≠ [])
    {c : Vec} (hc0 : ∀ x ∈ c, 0 ≤ x) (hcl : c.length = compat.length)
    (hfeas : ∀ s ∈ lpNonZero point, mixAt c (compat.map (fun i => pts.getD i [])) s ≤ point.getD s 0)
    (h1 : ∀ x ∈ c, x ≤ 1)
    {sol : Rat × Vec} (h : lpSol false lp point cv pts vals compat = some sol) :
    sol.1 ≤ dot c (compat.map (fun i => vals.getD i 0 - dot (pts.getD i []) cv)) := by
  rcases compat with _ | ⟨i, _ | ⟨i2, t⟩⟩
  · exact absurd rfl hne
  · -- the single-point shortcut
    have hcp : ∀ x ∈ pts.getD i [], 0 ≤ x :=
      hpts _ (compat_getD_mem (fun j hj => (hc j hj).1) (List.mem_singleton.mpr rfl))
    obtain ⟨c0, rfl⟩ := List.length_eq_one_iff.mp (by simpa using hcl)
    have hc0' : 0 ≤ c0 := hc0 c0 (List.mem_singleton.mpr rfl)
    have hc1 : c0 ≤ 1 := h1 c0 (List.mem_singleton.mpr rfl)
    have hdef : lpSol false lp point cv pts vals [i] =
        if decide (vals.getD i 0 - dot (pts.getD i []) cv < 0) = true then
          some (((lpNonZero point).filter (fun s => decide (0 < (pts.getD i []).getD s 0))).foldl
              (fun m s => minQ m (point.getD s 0 / (pts.getD i []).getD s 0)) 1 *
              (vals.getD i 0 - dot (pts.getD i []) cv),
            [((lpNonZero point).filter (fun s => decide (0 < (pts.getD i []).getD s 0))).foldl
              (fun m s => minQ m (point.getD s 0 / (pts.getD i []).getD s 0)) 1])
        else some (0, [0]) := rfl
    rw [hdef] at h
    simp only [List.map_cons, List.map_nil, dot_cons, dot_nil_left, add_zero]
    split at h
    · rename_i hg
      have hg := of_decide_eq_true hg
      cases h
      simp only
      apply mul_le_mul_of_nonpos_right _ (le_of_lt hg)
      apply le_foldl_minQ _ _ _ _ hc1
      intro s hs
      obtain ⟨hs1, hs2⟩ := List.mem_filter.mp hs
      have hpos := of_decide_eq_true hs2
      have := hfeas s hs1
      simp only [List.map_cons, List.map_nil, mixAt_cons, mixAt_nil_left, add_zero] at this
      exact (le_div_iff₀ hpos).mpr this
    · rename_i hg
      cases h
      have hg' : ¬ (vals.getD i 0 - dot (pts.getD i []) cv < 0) := by simpa using hg
      exact mul_nonneg hc0' (not_lt.mp hg')
  · exact lp_case_opt hptlen hz hlp hc hc0 hcl hfeas h

end opt

set_option linter.unusedVariables false in
/-- the value returned by the repaired `LPInterpolation` is the LP optimum whenever a stored point shares the
    query's support: it is below the value of EVERY exact primal-feasible reconstruction `(wc, wp)` of the query
    (and by `lpinterp_weights` it is itself the value of one, up to the clean-up).  Both the single-point shortcut
    and the LP branch are covered.  No "weights vanish outside the compatible set" hypothesis is needed
    (`weight_zero_of_not_compat`).  `hmass`/`hsum` (query and stored points have the same positive mass — 1 for
    beliefs) are used by the single-point shortcut only; see `lpinterp_optimal_needs_mass`.
    `hlen` and `hub` are not needed. -/
theorem lpinterp_optimal {lp : LpIn → Option (Rat × Vec)} {point : Vec} {ubQ : List Vec} {A : Nat}
    {pts : List Vec} {vals : Vec}
    (hpt : ∀ x ∈ point, 0 ≤ x) (hpts : ∀ p ∈ pts, ∀ x ∈ p, 0 ≤ x)
    (hptlen : ∀ p ∈ pts, p.length = point.length) (hlen : vals.length = pts.length)
    (hub : ubQ.length = point.length)
    (hzpt : ∀ s, isZeroS (point.getD s 0) = true → point.getD s 0 = 0)
    (hz : ∀ p ∈ pts, ∀ s, isZeroS (p.getD s 0) = true → p.getD s 0 = 0)
    (hmass : 0 < sumL point) (hsum : ∀ p ∈ pts, sumL p = sumL point)
    (hlp : ∀ inp sol, lp inp = some sol → LpOptimal inp sol)
    (hne : lpCompat point pts ≠ [])
    {wc wp : Vec} (hprim : primalOK point wc wp pts = true)
    {v : Rat} {w' : Vec} (h : lpInterp repaired lp point ubQ A pts vals = some ⟨v, some w'⟩) :
    v ≤ weightedValue (cornerVals ubQ) wc wp vals := by
  obtain ⟨hwc, hwp, hwcl, hwpl, hrec⟩ := (primalOK_iff ..).mp hprim
  have hvan := weight_zero_of_not_compat hpts hzpt hwc hwp hwpl hrec
  rw [lpInterp_eq] at h
  simp only [repaired] at h
  rw [if_neg (by simpa [List.isEmpty_iff] using hne)] at h
  cases hsol : lpSol false lp point (cornerVals ubQ) pts vals (lpCompat point pts) with
  | none => rw [hsol] at h; cases h
  | some sol =>
    obtain ⟨u, r⟩ := sol
    rw [hsol] at h
    simp only [Option.some.injEq, Out.mk.injEq] at h
    obtain ⟨rfl, _⟩ := h
    have hc := fun i (hi : i ∈ lpCompat point pts) => lpCompat_spec hi
    -- the mixture of all stored points is the mixture of the compatible ones
    have hmix : ∀ s, mixAt wp pts s = mixAt ((lpCompat point pts).map (fun i => wp.getD i 0))
        ((lpCompat point pts).map (fun i => pts.getD i [])) s := by
      intro s
      rw [mixAt_eq_dot, dot_lpCompat hwpl hvan, mixAt_eq_dot, List.map_map]
      congr 1
      apply List.map_congr_left
      intro i _
      exact getD_map_getD pts s i
    have hopt := lpSol_opt (cv := cornerVals ubQ) (vals := vals) hpts hptlen hz hlp hc hne
      (c := (lpCompat point pts).map (fun i => wp.getD i 0))
      (by
        intro x hx
        obtain ⟨i, _, rfl⟩ := List.mem_map.mp hx
        exact getD_nonneg hwp i)
      (by simp)
      (by
        intro s hs
        rw [← hmix s]
        have h2 := hrec s (mem_lpNonZero.mp hs).1
        simp only [reconAt] at h2
        have h3 := getD_nonneg hwc s
        linarith)
      (by
        intro x hx
        obtain ⟨i, hi, rfl⟩ := List.mem_map.mp hx
        exact weight_le_one hpts hptlen hmass hsum hwc hwp hrec i (hc i hi).1)
      hsol
    simp only at hopt
    -- the value of (wc, wp) in terms of the point weights only
    have hW : weightedValue (cornerVals ubQ) wc wp vals =
        dot point (cornerVals ubQ) - dot wp (pts.map (fun p => dot p (cornerVals ubQ))) + dot wp vals := by
      simp only [weightedValue]
      rw [dot_eq_sumL_range point.length wc (cornerVals ubQ) (le_of_eq hwcl)]
      have h1 : sumL ((List.range point.length).map (fun s => wc.getD s 0 * (cornerVals ubQ).getD s 0)) =
          sumL ((List.range point.length).map (fun s => point.getD s 0 * (cornerVals ubQ).getD s 0)) -
          sumL ((List.range point.length).map (fun s => mixAt wp pts s * (cornerVals ubQ).getD s 0)) := by
        rw [← sumL_map_sub]
        apply sumL_map_congr
        intro s hs
        have h2 := hrec s (List.mem_range.mp hs)
        simp only [reconAt] at h2
        have e : wc.getD s 0 = point.getD s 0 - mixAt wp pts s := by linarith
        rw [e]; ring
      rw [h1, ← dot_eq_sumL_range point.length point (cornerVals ubQ) (le_refl _),
        sum_mixAt_mul point.length (cornerVals ubQ) wp pts (fun p hp => le_of_eq (hptlen p hp))]
    rw [hW, dot_lpCompat hwpl hvan (pts.map (fun p => dot p (cornerVals ubQ))), dot_lpCompat hwpl hvan vals]
    rw [dot_map_sub] at hopt
    have e : (lpCompat point pts).map (fun i => (pts.map (fun p => dot p (cornerVals ubQ))).getD i 0) =
        (lpCompat point pts).map (fun i => dot (pts.getD i []) (cornerVals ubQ)) :=
      List.map_congr_left (fun i _ => getD_map_dot_right _ pts i)
    rw [e]
    linarith

/-! ### tests on literals -/

/-- an oracle that answers only the LP posed for the harness input (two compatible points, rows for the two non-zero
    states), with its optimum `(-3, [1/2, 1/2])` -/
def exLp : LpIn → Option (Rat × Vec) := fun inp =>
  if inp.rows = [([1/4, 3/4], 1/2), ([3/4, 1/4], 1/2)] ∧ inp.gains = [-11/4, -13/4] then some (-3, [1/2, 1/2]) else none

/-- the oracle `exLp` satisfies the `LpOptimal` contract (dual multipliers 7/2 and 5/2 on the two rows) -/
theorem exLp_optimal : ∀ inp sol, exLp inp = some sol → LpOptimal inp sol := by
  intro inp sol h
  obtain ⟨rows, gains⟩ := inp
  unfold exLp at h
  split at h
  · rename_i hq
    simp only at hq
    obtain ⟨rfl, rfl⟩ := hq
    cases h
    refine ⟨by decide +kernel, fun c hcl hc0 hrows => ?_⟩
    match c, hcl with
    | [c0, c1], _ =>
      have r1 := hrows ([1/4, 3/4], 1/2) (List.mem_cons_self ..)
      have r2 := hrows ([3/4, 1/4], 1/2) (List.mem_cons_of_mem _ (List.mem_cons_self ..))
      simp only [dot_cons, dot_nil_left] at r1 r2 ⊢
      linarith
  · cases h

/-- test (LP branch): the hypotheses of `lpinterp_optimal` are satisfiable — harness input, the oracle `exLp`;
    the returned value 3/2 is below the value of every exact reconstruction -/
example : lpInterp repaired exLp [1/2, 1/2, 0] [[4,2],[3,5],[1,6]] 2
      [[1/4,3/4,0],[3/4,1/4,0],[1/4,1/4,1/2]] [2,1,0] = some ⟨3/2, some [0,0,0, 1/2,1/2,0]⟩ ∧
    ∀ wc wp, primalOK [1/2, 1/2, 0] wc wp [[1/4,3/4,0],[3/4,1/4,0],[1/4,1/4,1/2]] = true →
      (3/2 : Rat) ≤ weightedValue (cornerVals [[4,2],[3,5],[1,6]]) wc wp [2,1,0] := by
  have hrun : lpInterp repaired exLp [1/2, 1/2, 0] [[4,2],[3,5],[1,6]] 2
      [[1/4,3/4,0],[3/4,1/4,0],[1/4,1/4,1/2]] [2,1,0] = some ⟨3/2, some [0,0,0, 1/2,1/2,0]⟩ := by decide +kernel
  refine ⟨hrun, fun wc wp hp => ?_⟩
  exact lpinterp_optimal (lp := exLp)
    (point := [1/2, 1/2, 0]) (ubQ := [[4,2],[3,5],[1,6]]) (A := 2)
    (pts := [[1/4,3/4,0],[3/4,1/4,0],[1/4,1/4,1/2]]) (vals := [2,1,0])
    (by decide +kernel) (by decide +kernel) (by decide) (by decide) (by decide)
    (by
      intro s hs
      rcases s with _ | _ | _ | s
      · revert hs; decide +kernel
      · revert hs; decide +kernel
      · rfl
      · rfl)
    (by
      intro p hp s hs
      simp only [List.mem_cons, List.not_mem_nil, or_false] at hp
      rcases hp with rfl | rfl | rfl <;> rcases s with _ | _ | _ | s <;>
        first | rfl | (revert hs; decide +kernel))
    (by decide +kernel) (by decide +kernel) exLp_optimal (by decide +kernel) hp hrun

/-- test: the bound of the previous test is attained — weights 1/2, 1/2 on the first two stored points are an exact
    reconstruction of value 3/2 (so 3/2 is the LP optimum), while the corner-only reconstruction has value 9/2 -/
example : primalOK [1/2, 1/2, 0] [0,0,0] [1/2,1/2,0] [[1/4,3/4,0],[3/4,1/4,0],[1/4,1/4,1/2]] = true ∧
    weightedValue (cornerVals [[4,2],[3,5],[1,6]]) [0,0,0] [1/2,1/2,0] [2,1,0] = 3/2 ∧
    primalOK [1/2, 1/2, 0] [1/2,1/2,0] [0,0,0] [[1/4,3/4,0],[3/4,1/4,0],[1/4,1/4,1/2]] = true ∧
    weightedValue (cornerVals [[4,2],[3,5],[1,6]]) [1/2,1/2,0] [0,0,0] [2,1,0] = 9/2 := by decide +kernel

/-- test (single-point shortcut): one compatible point, the LP is never called (the oracle that never answers
    satisfies the contract vacuously); value 3 = weight 2/3 on the stored point, 1/3 on corner 1 -/
example : lpInterp repaired (fun _ => none) [0, 1/2, 1/2] [[4,2],[3,5],[1,6]] 2 [[0, 1/4, 3/4]] [2] =
      some ⟨3, some [0, 1/3, 0, 2/3]⟩ ∧
    ∀ wc wp, primalOK [0, 1/2, 1/2] wc wp [[0, 1/4, 3/4]] = true →
      (3 : Rat) ≤ weightedValue (cornerVals [[4,2],[3,5],[1,6]]) wc wp [2] := by
  have hrun : lpInterp repaired (fun _ => none) [0, 1/2, 1/2] [[4,2],[3,5],[1,6]] 2 [[0, 1/4, 3/4]] [2] =
      some ⟨3, some [0, 1/3, 0, 2/3]⟩ := by decide +kernel
  refine ⟨hrun, fun wc wp hp => ?_⟩
  exact lpinterp_optimal (lp := fun _ => none)
    (point := [0, 1/2, 1/2]) (ubQ := [[4,2],[3,5],[1,6]]) (A := 2) (pts := [[0, 1/4, 3/4]]) (vals := [2])
    (by decide +kernel) (by decide +kernel) (by decide) (by decide) (by decide)
    (by
      intro s hs
      rcases s with _ | _ | _ | s
      · rfl
      · revert hs; decide +kernel
      · revert hs; decide +kernel
      · rfl)
    (by
      intro p hp s hs
      simp only [List.mem_singleton] at hp
      subst hp
      rcases s with _ | _ | _ | s <;> first | rfl | (revert hs; decide +kernel))
    (by decide +kernel) (by decide +kernel) (fun _ _ h => by cases h) (by decide +kernel) hp hrun

/-- why `hmass`/`hsum` are needed (witness): the single-point shortcut never uses a weight above 1 (its running
    minimum starts at 1).  With a stored point of half the query's mass, weight 2 on it is an exact reconstruction
    (value 0), but the shortcut stops at weight 1 (value 2).  Every other hypothesis of `lpinterp_optimal` holds. -/
theorem lpinterp_optimal_needs_mass (lp : LpIn → Option (Rat × Vec)) :
    lpInterp repaired lp [1/2, 1/2] [[4],[4]] 1 [[1/4, 1/4]] [0] = some ⟨2, some [1/4, 1/4, 1]⟩ ∧
    lpCompat [1/2, 1/2] [[1/4, 1/4]] ≠ [] ∧
    primalOK [1/2, 1/2] [0, 0] [2] [[1/4, 1/4]] = true ∧
    weightedValue (cornerVals [[4],[4]]) [0, 0] [2] [0] = 0 := by
  rw [lpInterp_single_lp_irrelevant repaired lp (fun _ => none) _ _ _ _ _ 0 (by decide +kernel)]
  decide +kernel

end AITB.Interp
