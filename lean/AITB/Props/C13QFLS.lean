/-
  AITB.Props.C13QFLS — `MakeGraphImpl / UpdateGraphImpl<LocalSearch, QFunction>` (the graph LocalSearch, MaxPlus and
  ReusingIterativeLocalSearch maximise over when the payoff is a QFunction) build literally the same dense tables as the
  rule overloads on the cell-by-cell expansion; hence the three approximate maximisers return what they claim on it.
-/
import AITB.Props.C13QF
import AITB.Props.C13LS

namespace AITB.VE
open AITB.Factored

/-! ### MakeGraph -/

theorem any_append_self (g : List Node) (keys : List Nat) (t : List Rat) :
    (g ++ [(⟨keys, t⟩ : Node)]).any (fun nd => nd.keys == keys) = true := by simp [List.any_append]

theorem lsMake_basis (A keys dims : List Nat) (rest : List Rule) : ∀ (qs : List Rat) (i : Nat) (g : List Node), qs ≠ [] →
    lsMake A (basisRulesFrom keys dims i qs ++ rest) g
      = lsMake A rest (if g.any (fun nd => nd.keys == keys) then g else g ++ [⟨keys, List.replicate (spacePartial keys A) 0⟩])
  | [], _, _, h => absurd rfl h
  | [q], i, g, _ => by
    simp only [basisRulesFrom, List.cons_append, List.nil_append, lsMake]
    split <;> rfl
  | q :: q' :: qs, i, g, _ => by
    rw [show basisRulesFrom keys dims i (q :: q' :: qs)
      = ⟨keys, toFactors dims i, q⟩ :: basisRulesFrom keys dims (i+1) (q' :: qs) from rfl]
    simp only [List.cons_append, lsMake]
    split
    · rename_i h
      rw [lsMake_basis A keys dims rest (q' :: qs) (i+1) g (by simp)]
      simp [h]
    · rename_i h
      rw [lsMake_basis A keys dims rest (q' :: qs) (i+1) _ (by simp), any_append_self]
      simp

theorem lsMakeQF_eq (A : List Nat) : ∀ (bases : List Basis) (g : List Node), (∀ b ∈ bases, b.WF A) →
    lsMakeQF bases g = lsMake A (qfRules A bases) g
  | [], g, _ => by simp [lsMakeQF, qfRules, lsMake]
  | b :: bs, g, h => by
    have hb := h b (List.mem_cons_self ..)
    have hne : b.vals ≠ [] := by intro e; have := hb.2; simp [e] at this
    simp only [lsMakeQF, qfRules]
    rw [lsMake_basis A b.keys _ _ b.vals 0 g hne, hb.1]
    split <;> exact lsMakeQF_eq A bs _ (fun b' hb' => h b' (List.mem_cons_of_mem _ hb'))

/-! ### UpdateGraph -/

/-- apply `f` to the table of the first node with key set `keys` -/
def modTable (keys : List Nat) (f : List Rat → List Rat) : List Node → List Node
  | [] => []
  | nd :: g => if nd.keys == keys then ⟨nd.keys, f nd.table⟩ :: g else nd :: modTable keys f g

theorem lsAdd_eq_modTable (A : List Nat) (r : Rule) : ∀ (g : List Node),
    lsAdd A r g = modTable r.keys (fun t => addAt t (toIndexPartialPF A r.keys r.vals) r.value) g
  | [] => rfl
  | nd :: g => by simp only [lsAdd, modTable]; split <;> simp [lsAdd_eq_modTable A r g]

theorem lsAddQF_eq_modTable (b : Basis) : ∀ (g : List Node), lsAddQF b g = modTable b.keys (fun t => vecAddQ t b.vals) g
  | [] => rfl
  | nd :: g => by simp only [lsAddQF, modTable]; split <;> simp [lsAddQF_eq_modTable b g]

theorem modTable_modTable (keys : List Nat) (f f' : List Rat → List Rat) : ∀ (g : List Node),
    modTable keys f (modTable keys f' g) = modTable keys (fun t => f (f' t)) g
  | [] => rfl
  | nd :: g => by
    by_cases h : (nd.keys == keys) = true
    · simp [modTable, h]
    · have h' : (nd.keys == keys) = false := by simpa using h
      simp [modTable, h', modTable_modTable keys f f' g]

theorem modTable_id (keys : List Nat) : ∀ (g : List Node), modTable keys (fun t => t) g = g
  | [] => rfl
  | nd :: g => by simp only [modTable]; split <;> simp [modTable_id keys g]

/-- what `UpdateGraphImpl<LocalSearch, rules>` does to one table when fed cells `i, i+1, …` of a basis -/
def addFrom (A keys dims : List Nat) : Nat → List Rat → List Rat → List Rat
  | _, [], t => t
  | i, q :: qs, t => addFrom A keys dims (i+1) qs (addAt t (toIndexPartialPF A keys (toFactors dims i)) q)

theorem lsUpdate_basis (A keys dims : List Nat) (rest : List Rule) : ∀ (qs : List Rat) (i : Nat) (g : List Node),
    lsUpdate A (basisRulesFrom keys dims i qs ++ rest) g = lsUpdate A rest (modTable keys (addFrom A keys dims i qs) g)
  | [], i, g => by
    have : addFrom A keys dims i [] = fun t => t := by funext t; simp [addFrom]
    simp [basisRulesFrom, this, modTable_id]
  | q :: qs, i, g => by
    have : addFrom A keys dims i (q :: qs) = fun t => addFrom A keys dims (i+1) qs
        (addAt t (toIndexPartialPF A keys (toFactors dims i)) q) := by funext t; simp [addFrom]
    rw [this]
    simp only [basisRulesFrom, List.cons_append, lsUpdate]
    rw [lsUpdate_basis A keys dims rest qs (i+1), lsAdd_eq_modTable, modTable_modTable]

/-- positional version of the same fold -/
def addPos : Nat → List Rat → List Rat → List Rat
  | _, [], t => t
  | i, q :: qs, t => addPos (i+1) qs (addAt t i q)

theorem addFrom_eq_addPos (A keys : List Nat) : ∀ (qs : List Rat) (i : Nat) (t : List Rat),
    i + qs.length ≤ spacePartial keys A → addFrom A keys (sel keys A) i qs t = addPos i qs t
  | [], _, _, _ => rfl
  | q :: qs, i, t, h => by
    have hidx : toIndexPartialPF A keys (toFactors (sel keys A) i) = i :=
      toIndexPartial_toFactorsPartial keys A i (by simp at h; omega)
    simp only [addFrom, addPos, hidx]
    exact addFrom_eq_addPos A keys qs (i+1) _ (by simp at h ⊢; omega)

theorem addPos_nil : ∀ (qs : List Rat) (i : Nat), addPos i qs [] = []
  | [], _ => rfl
  | q :: qs, i => by simp [addPos, addAt, addPos_nil qs (i+1)]

theorem addPos_cons_succ : ∀ (qs : List Rat) (i : Nat) (x : Rat) (t : List Rat),
    addPos (i+1) qs (x :: t) = x :: addPos i qs t
  | [], _, _, _ => rfl
  | q :: qs, i, x, t => by simp only [addPos, addAt]; exact addPos_cons_succ qs (i+1) x _

theorem addPos_zero : ∀ (qs t : List Rat), addPos 0 qs t = vecAddQ t qs
  | [], t => by cases t <;> simp [addPos, vecAddQ]
  | q :: qs, [] => by simp [addPos_nil, vecAddQ]
  | q :: qs, x :: t => by
    simp only [addPos, addAt, vecAddQ]
    rw [addPos_cons_succ, addPos_zero qs t]

theorem lsUpdateQF_eq (A : List Nat) : ∀ (bases : List Basis) (g : List Node), (∀ b ∈ bases, b.WF A) →
    lsUpdateQF bases g = lsUpdate A (qfRules A bases) g
  | [], g, _ => by simp [lsUpdateQF, qfRules, lsUpdate]
  | b :: bs, g, h => by
    have hb := h b (List.mem_cons_self ..)
    simp only [lsUpdateQF, qfRules]
    rw [lsUpdate_basis, lsAddQF_eq_modTable]
    have : addFrom A b.keys (sel b.keys A) 0 b.vals = fun t => vecAddQ t b.vals := by
      funext t
      rw [addFrom_eq_addPos A b.keys b.vals 0 t (by rw [hb.1.symm]; omega), addPos_zero]
    rw [this]
    exact lsUpdateQF_eq A bs _ (fun b' hb' => h b' (List.mem_cons_of_mem _ hb'))

/-- **`Make/UpdateGraphImpl<LocalSearch, QFunction>` = the rule overloads on the cell-by-cell expansion** (same nodes in the
    same order, same tables) -/
theorem lsGraphQF_eq (A : List Nat) (bases : List Basis) (h : ∀ b ∈ bases, b.WF A) :
    lsGraphQF bases = lsGraph A (qfRules A bases) := by
  unfold lsGraphQF lsGraph
  rw [lsMakeQF_eq A bases [] h, lsUpdateQF_eq A bases _ h]

/-- `LocalSearch::evaluateGraph` on the QFunction graph = `FactoredVector::getValue` -/
theorem evalGraphQF_eq_payoff (A : List Nat) (bases : List Basis) (a : List Nat) (hA : ∀ d ∈ A, 0 < d)
    (hwf : ∀ b ∈ bases, b.WF A ∧ b.keys ≠ [] ∧ ∀ k ∈ b.keys, k < A.length) (ha : Valid A a) :
    evalGraph A a (lsGraphQF bases) = qfPayoff A bases a := by
  rw [lsGraphQF_eq A bases (fun b hb => (hwf b hb).1),
      evalGraph_eq_payoff A _ a (fun r hr => (qfRules_WF A hA bases hwf r hr).1) ha,
      payoff_qfRules A a ha hA bases (fun b hb => ⟨(hwf b hb).1, (hwf b hb).2.2⟩)]

/-- **LocalSearch and MaxPlus on a QFunction return what they claim**: in-range action, reported value = its `getValue`,
    never above the value of any joint action — for every outcome of the shuffles / every number of iterations. -/
theorem approxQF_claims (A : List Nat) (bases : List Basis) (orders : List (List Nat)) (start : List Nat) (iters : Nat)
    (hA : ∀ d ∈ A, 0 < d) (hwf : ∀ b ∈ bases, b.WF A ∧ b.keys ≠ [] ∧ ∀ k ∈ b.keys, k < A.length)
    (ho : ∀ o ∈ orders, ∀ v ∈ o, v < A.length) (hs : Valid A start) :
    let ls := lsResult A (lsGraphQF bases) orders start
    let mp := mpFull A (lsGraphQF bases) iters
    (Valid A ls.1 ∧ ls.2 = qfPayoff A bases ls.1 ∧ ls.2 ≤ bruteMax A (qfRules A bases)) ∧
    (Valid A mp.1 ∧ mp.2 = qfPayoff A bases mp.1 ∧ mp.2 ≤ bruteMax A (qfRules A bases)) := by
  have hr := qfRules_WF A hA bases hwf
  have hw : ∀ b ∈ bases, b.WF A ∧ ∀ k ∈ b.keys, k < A.length := fun b hb => ⟨(hwf b hb).1, (hwf b hb).2.2⟩
  have e := lsGraphQF_eq A bases (fun b hb => (hwf b hb).1)
  simp only
  rw [e]
  obtain ⟨l1, l2, l3⟩ := ls_claims A (qfRules A bases) orders start hA (fun r h => (hr r h).1) ho hs
  have m := maxplus_claims A (qfRules A bases) (qfRules A bases) iters hA (fun r h => (hr r h).1) (fun r h => ⟨r, h, rfl⟩)
  simp only at m
  obtain ⟨m1, m2, m3⟩ := m
  have e2 : lsGraph A (qfRules A bases) = lsUpdate A (qfRules A bases) (lsMake A (qfRules A bases) []) := rfl
  rw [e2] at l1 l2 l3 ⊢
  refine ⟨⟨l1, ?_, l3⟩, ⟨m1, ?_, m3⟩⟩
  · rw [l2, payoff_qfRules A _ l1 hA bases hw]
  · rw [m2, payoff_qfRules A _ m1 hA bases hw]

end AITB.VE
