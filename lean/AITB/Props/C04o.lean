/-
  AITB.Props.C04o — what a PASS of the run-time checker means.

  The driver decides every returned value function with `consistentB (closeQ tol)` (tol = 1e-9, relative-or-absolute):
  structural clauses exactly, values against the exact-rational one-step derivation up to `tol`.  `approxCheck_sound`:
  a pass implies `ApproxConsistent (tol · max 1 M)` in the POMDP as the Projecter sees it, `M` any bound on the stored
  values and their derivations; with `approx_consistent_exec` this bounds the gap between what executing the stored plan
  earns and what the value function promises (`checked_exec_bound`), for every horizon, entry and belief.
-/
import AITB.Props.C04i
import AITB.Props.C04x

namespace AITB.Plan

theorem absQ_eq_abs (x : Rat) : absQ x = |x| := by
  unfold absQ
  split
  · rename_i h; rw [abs_of_neg h]
  · rename_i h; rw [abs_of_nonneg (not_lt.mp h)]

theorem closeQ_bound {tol a b M : Rat} (htol : 0 ≤ tol) (ha : |a| ≤ M) (hb : |b| ≤ M) (h : closeQ tol a b = true) :
    |a - b| ≤ tol * max 1 M := by
  unfold closeQ at h
  simp only [Bool.or_eq_true, decide_eq_true_eq, absQ_eq_abs] at h
  rcases h with h | h
  · calc |a - b| ≤ tol := h
      _ = tol * 1 := (mul_one _).symm
      _ ≤ tol * max 1 M := mul_le_mul_of_nonneg_left (le_max_left _ _) htol
  · refine le_trans h (mul_le_mul_of_nonneg_left ?_ htol)
    split
    · exact le_trans hb (le_max_right _ _)
    · exact le_trans ha (le_max_right _ _)

/-- every stored value and every derived value is bounded by `M` -/
def BoundedVF (M : Rat) (m : Pomdp) (vf : VF) : Prop :=
  ∀ h, h + 1 < vf.length → ∀ id, id < (vlist vf (h+1)).length → ∀ s, s < m.S →
    |val (entry vf (h+1) id) s| ≤ M ∧ |oneStep m (vlist vf h) (entry vf (h+1) id) s| ≤ M

theorem levelB_close {tol : Rat} (m : Pomdp) (prev cur : VList) (h : levelB (closeQ tol) m prev cur = true) :
    ∀ id, id < cur.length →
      (entryAt cur id).action < m.A ∧ (∀ o, o < m.O → link (entryAt cur id) o < prev.length) ∧
      ∀ s, s < m.S → closeQ tol (val (entryAt cur id) s) (oneStep m prev (entryAt cur id) s) = true := by
  intro id hid
  unfold levelB at h
  rw [List.all_eq_true] at h
  have hm : entryAt cur id ∈ cur := by
    unfold entryAt; rw [getD_eq_getElem' _ _ hid]; exact List.getElem_mem hid
  have := h _ hm
  rw [Bool.and_eq_true, entryShapeB_iff] at this
  obtain ⟨⟨h1, _, _, h4⟩, h5⟩ := this
  refine ⟨h1, h4, ?_⟩
  intro s hs
  unfold entryValsB at h5
  rw [List.all_eq_true] at h5
  exact h5 s (List.mem_range.mpr hs)

theorem consistentFrom_close {tol : Rat} (m : Pomdp) : ∀ (prev : VList) (rest : List VList),
    consistentFrom (closeQ tol) m prev rest = true →
    ∀ h, h + 1 < (prev :: rest).length → ∀ id, id < (vlist (prev :: rest) (h+1)).length →
      (entry (prev :: rest) (h+1) id).action < m.A ∧
      (∀ o, o < m.O → link (entry (prev :: rest) (h+1) id) o < (vlist (prev :: rest) h).length) ∧
      ∀ s, s < m.S → closeQ tol (val (entry (prev :: rest) (h+1) id) s)
        (oneStep m (vlist (prev :: rest) h) (entry (prev :: rest) (h+1) id) s) = true
  | prev, [] => by intro _ h hh; simp at hh
  | prev, cur :: rest => by
    intro hc h hh id hid
    rw [consistentFrom, Bool.and_eq_true] at hc
    cases h with
    | zero => exact levelB_close m prev cur hc.1 id hid
    | succ h => exact consistentFrom_close m cur rest hc.2 h (by simpa using hh) id hid

/-- **approxCheck_sound.**  If the run-time checker `consistentB (closeQ tol)` accepts a value function whose stored and
    derived values are bounded by `M`, the value function is `ApproxConsistent` with `ε = tol · max 1 M` in the POMDP as the
    Projecter sees it: all links in range, every stored value within `ε` of the true one-step expectation. -/
theorem approxCheck_sound {tol M : Rat} (htol : 0 ≤ tol) {m : Pomdp} {vf : VF} (hB : BoundedVF M m vf)
    (hchk : consistentB (closeQ tol) m vf = true) : ApproxConsistent (tol * max 1 M) (cutModel m) vf := by
  cases vf with
  | nil => simp [consistentB] at hchk
  | cons v0 rest =>
    intro h hh id hid
    obtain ⟨ha, hl, hv⟩ := consistentFrom_close m v0 rest hchk h hh id hid
    refine ⟨hl, ?_⟩
    intro s hs
    have hs' : s < m.S := hs
    obtain ⟨b1, b2⟩ := hB h hh id hid s hs'
    rw [← oneStep_eq_exact (zeroBelow_cutModel m) _ _ ha, oneStep_cutModel]
    exact closeQ_bound htol b1 b2 (hv s hs')

/-- the Projecter's view of a sub-stochastic POMDP is sub-stochastic -/
theorem subStoch_cutModel {m : Pomdp} (hs : SubStoch m) : SubStoch (cutModel m) := by
  refine ⟨hs.T_nonneg, ?_, ?_⟩
  · intro a s o
    show 0 ≤ (if possible m a o then m.Ob a s o else 0)
    split
    · exact hs.Ob_nonneg a s o
    · exact le_refl 0
  · intro a s hs'
    refine le_trans ?_ (hs.le_one a s hs')
    apply sumTo_le
    intro s1 _
    apply sumTo_le
    intro o _
    show m.T a s s1 * (if possible m a o then m.Ob a s1 o else 0) ≤ m.T a s s1 * m.Ob a s1 o
    split
    · exact le_refl _
    · rw [mul_zero]; exact mul_nonneg (hs.T_nonneg a s s1) (hs.Ob_nonneg a s1 o)

/-- **checked_exec_bound.**  What `ok` of the driver's value-function clause guarantees: for a sub-stochastic POMDP with
    `0 ≤ γ`, EVERY stored horizon `h`, entry `id` and non-negative belief `b`, executing the stored plan (in the POMDP as the
    Projecter sees it) earns `b · values` up to `tol · max 1 M · mass(b) · (1 + γ + … + γ^(h-1))`. -/
theorem checked_exec_bound {tol M : Rat} (htol : 0 ≤ tol) {m : Pomdp} {vf : VF} (hγ : 0 ≤ m.disc) (hs : SubStoch m)
    (hB : BoundedVF M m vf) (hchk : consistentB (closeQ tol) m vf = true)
    (h id : Nat) (b : Nat → Rat) (hb : ∀ s, 0 ≤ b s) (hh : h < vf.length) (hid : id < (vlist vf h).length) :
    |execReturn (cutModel m) vf h id b - dot m.S b (val (entry vf h id))| ≤ tol * max 1 M * mass m.S b * geo m.disc h := by
  have hε : 0 ≤ tol * max 1 M := mul_nonneg htol (le_trans zero_le_one (le_max_left _ _))
  have hγ' : 0 ≤ (cutModel m).disc := hγ
  exact approx_consistent_exec (m := cutModel m) hε hγ' (subStoch_cutModel hs) (approxCheck_sound htol hB hchk) h id b hb hh hid

/-- TEST: hypotheses satisfiable — the chain value function passes the checker at tol = 1e-9 and is bounded by 6 -/
example : consistentB (closeQ (1/1000000000)) chain chainVF = true := by
  norm_num [consistentB, consistentFrom, levelB, entryShapeB, entryValsB, closeQ, oneStep, possible, differentSmall0,
    sumTo, chain, chainVF, val, link, entryAt, r1, r2, absQ, Gen.equalToleranceSmall]

end AITB.Plan
