/-
  AITB.Props.C12WitnessLP — theorems about the model of `class WitnessLP` (AITB.Model.WitnessLP), round 3.

  * `witnessScale_pow2`, `witnessScale_pos`         the factor is an exact positive power of two
  * `posed_witnessOracle`                           after `reset()` + `addOptimalRow…` every row and the question carry ONE factor
  * `feasible_scale`, `optimum_scale`, `witness_scale`
                                                    invariance of the witness LP / question under a common positive factor
  * `witnessOracle_some`, `witnessOracle_none`      the oracle contract of `pruner_spec` from a contract on the LP solver (`SolverOK`)
  * `inv_witnessScale_le`, `inv_scaleOf_le`         `1/scale ≤ max(1, magnitude)` (uses `std::ilogb` from below: `pow2_ilogb_le`)
  * `prunerLoop_oracle_congr`, `pruner_oracle_congr` the oracle is only asked about members of the input
  * `pruner_lp_spec`                                `Pruner::operator()` with the modelled WitnessLP: permutation, envelope, needed
  Full-strength statement not proved here: that a TOTAL solver meeting `SolverOK` exists (LP duality / compactness is not
  formalised); per instance the driver decides the witness question with an exact rational simplex and reports where lp_solve
  falls short of the contract (open finding C12-witnesslp-mixed-magnitudes).
-/
import AITB.Model.WitnessLP
import AITB.Props.C12Spec
import Mathlib.Algebra.Order.Field.Rat
import Mathlib.Tactic.Ring
import Mathlib.Tactic.Linarith
import Mathlib.Tactic.Positivity

namespace AITB.WitnessLP
open AITB AITB.Prune AITB.C12Check

/-! ## the scale is an exact, positive power of two -/

theorem pow2_pos (e : Int) : 0 < AITB.pow2 e := by
  unfold AITB.pow2
  split
  · exact_mod_cast Nat.pos_of_ne_zero (by positivity)
  · apply div_pos one_pos
    exact_mod_cast Nat.pos_of_ne_zero (by positivity)

/-- `witnessScale v` is `2^k` or `1/2^k` for a natural `k`: multiplying a double by it is exact (barring overflow/underflow) -/
theorem scaleOfExp_pow2 (e : Int) : ∃ k : Nat, scaleOfExp e = (2 : Rat) ^ k ∨ scaleOfExp e = 1 / (2 : Rat) ^ k := by
  unfold scaleOfExp
  split
  · unfold AITB.pow2
    split
    · exact ⟨_, Or.inl (by push_cast; rfl)⟩
    · exact ⟨_, Or.inr (by push_cast; rfl)⟩
  · exact ⟨0, Or.inl (by simp)⟩

theorem witnessScale_pow2 (v : Vec) : ∃ k : Nat, witnessScale v = (2 : Rat) ^ k ∨ witnessScale v = 1 / (2 : Rat) ^ k := by
  unfold witnessScale
  simp only
  split
  · exact ⟨0, Or.inl (by simp)⟩
  · exact scaleOfExp_pow2 _

theorem witnessScale_pos (v : Vec) : 0 < witnessScale v := by
  obtain ⟨k, h | h⟩ := witnessScale_pow2 v <;> rw [h] <;> positivity

theorem witnessScale_ne_zero (v : Vec) : witnessScale v ≠ 0 := ne_of_gt (witnessScale_pos v)

/-! ## scaling a vector scales every value -/

theorem dot_scaleVec (s : Rat) : ∀ (b v : Vec), dot b (scaleVec s v) = s * dot b v
  | [], v => by simp [dot, scaleVec]
  | _ :: _, [] => by simp [dot, scaleVec]
  | x :: b, y :: v => by
    have ih := dot_scaleVec s b v
    simp only [scaleVec, List.map_cons, dot] at ih ⊢
    rw [ih]; ring

/-! ## the state reached by `reset(); addOptimalRow(g) …` -/

/-- the common factor of an LP whose first optimal row is `best.head`: chosen once, from the first row -/
def scaleOf (best : List Vec) (v : Vec) : Rat :=
  match best with
  | [] => witnessScale v
  | g :: _ => witnessScale g

theorem addRows_from (s : Rat) (hs : s ≠ 0) : ∀ (gs : List Vec) (rows : List Vec),
    gs.foldl addOptimalRow ⟨s, rows⟩ = ⟨s, rows ++ gs.map (scaleVec s)⟩
  | [], rows => by simp
  | g :: gs, rows => by
    have hb : (s == 0) = false := by simpa using hs
    simp only [List.foldl_cons, addOptimalRow, hb, Bool.false_eq_true, if_false]
    rw [addRows_from s hs gs]
    simp

/-- **one common factor.**  After `reset()` and `addOptimalRow` for every vector of `best`, every stored row is its vector
    times ONE factor, the power of two chosen from the first row; `findWitness(v)` multiplies `v` by the same factor. -/
theorem posed_witnessOracle (best : List Vec) (v : Vec) :
    posed (best.foldl addOptimalRow reset) v = ⟨best.map (scaleVec (scaleOf best v)), scaleVec (scaleOf best v) v⟩ := by
  cases best with
  | nil => simp [posed, usedScale, reset, scaleOf]
  | cons g gs =>
    have h0 : (List.foldl addOptimalRow reset (g :: gs)) = gs.foldl addOptimalRow ⟨witnessScale g, [scaleVec (witnessScale g) g]⟩ := by
      simp [reset, addOptimalRow]
    rw [h0, addRows_from _ (witnessScale_ne_zero g)]
    have hb : (witnessScale g != 0) = true := by simpa using witnessScale_ne_zero g
    simp [posed, usedScale, hb, scaleOf]

theorem scaleOf_pos (best : List Vec) (v : Vec) : 0 < scaleOf best v := by
  cases best <;> simp [scaleOf, witnessScale_pos]

/-! ## the witness question and its invariance under a common positive factor -/

/-- feasible points of the LP `findWitness` poses (columns `b`, `K`, `delta`): `b` in the simplex, `wit·b − K = 0`,
    `g·b − K + delta ≤ 0` for every optimal row, and — unless `delta` is made a free variable (`free`, both readings of the
    constructor; which one the source has is `WitnessLP.deltaFree`) — lp_solve's default bound `delta ≥ 0` -/
def Feasible (free : Bool) (n : Nat) (P : Posed) (b : Vec) (K δ : Rat) : Prop :=
  IsBelief n b ∧ dot b P.wit - K = 0 ∧ (∀ g ∈ P.rows, dot b g - K + δ ≤ 0) ∧ (free = true ∨ 0 ≤ δ)

def scalePosed (c : Rat) (P : Posed) : Posed := ⟨P.rows.map (scaleVec c), scaleVec c P.wit⟩

/-- **invariance of the witness LP under a common positive factor**: `(b, K, δ)` is feasible for the LP of `(rows, v)` iff
    `(b, c·K, c·δ)` is feasible for the LP of `(c·rows, c·v)` — same beliefs, objective multiplied by `c` -/
theorem feasible_scale (free : Bool) (n : Nat) (c : Rat) (hc : 0 < c) (P : Posed) (b : Vec) (K δ : Rat) :
    Feasible free n (scalePosed c P) b (c * K) (c * δ) ↔ Feasible free n P b K δ := by
  unfold Feasible scalePosed
  simp only [dot_scaleVec, List.mem_map, forall_exists_index, and_imp, forall_apply_eq_imp_iff₂]
  constructor
  · rintro ⟨hb, h1, h2, h3⟩
    refine ⟨hb, ?_, ?_, ?_⟩
    · have : c * (dot b P.wit - K) = 0 := by linarith
      rcases mul_eq_zero.mp this with h | h
      · exact absurd h (ne_of_gt hc)
      · exact h
    · intro g hg
      have := h2 g hg
      have h' : c * (dot b g - K + δ) ≤ 0 := by linarith
      by_contra hcon
      push Not at hcon
      have := mul_pos hc hcon
      linarith
    · rcases h3 with h3 | h3
      · exact Or.inl h3
      · right
        by_contra hcon
        push Not at hcon
        have := mul_neg_of_pos_of_neg hc hcon
        linarith
  · rintro ⟨hb, h1, h2, h3⟩
    refine ⟨hb, ?_, ?_, ?_⟩
    · have : c * (dot b P.wit - K) = 0 := by rw [h1]; ring
      linarith
    · intro g hg
      have := h2 g hg
      have h' : c * (dot b g - K + δ) ≤ 0 := mul_nonpos_of_nonneg_of_nonpos (le_of_lt hc) this
      linarith
    · rcases h3 with h3 | h3
      · exact Or.inl h3
      · exact Or.inr (mul_nonneg (le_of_lt hc) h3)

/-- the optimum scales with the factor: `δ` is the largest feasible objective of `P` iff `c·δ` is that of `c·P`;
    in particular its SIGN — the answer of `findWitness` — does not change -/
theorem optimum_scale (free : Bool) (n : Nat) (c : Rat) (hc : 0 < c) (P : Posed) (δ : Rat) :
    ((∃ b K, Feasible free n P b K δ) ∧ ∀ b K δ', Feasible free n P b K δ' → δ' ≤ δ) ↔
    ((∃ b K, Feasible free n (scalePosed c P) b K (c * δ)) ∧ ∀ b K δ', Feasible free n (scalePosed c P) b K δ' → δ' ≤ c * δ) := by
  have hc' : c ≠ 0 := ne_of_gt hc
  constructor
  · rintro ⟨⟨b, K, hf⟩, hmax⟩
    refine ⟨⟨b, c * K, (feasible_scale free n c hc P b K δ).mpr hf⟩, ?_⟩
    intro b K δ' hf'
    have h := (feasible_scale free n c hc P b (K / c) (δ' / c)).mp (by
      rw [mul_div_cancel₀ _ hc', mul_div_cancel₀ _ hc']; exact hf')
    have := hmax b (K / c) (δ' / c) h
    rw [div_le_iff₀ hc] at this
    linarith
  · rintro ⟨⟨b, K, hf⟩, hmax⟩
    refine ⟨⟨b, K / c, (feasible_scale free n c hc P b (K / c) δ).mp (by rw [mul_div_cancel₀ _ hc']; exact hf)⟩, ?_⟩
    intro b K δ' hf'
    have := hmax b (c * K) (c * δ') ((feasible_scale free n c hc P b K δ').mpr hf')
    exact le_of_mul_le_mul_left this hc

/-- a belief is a (strict) witness for `(best, v)` iff it is one for the scaled question -/
theorem witness_scale (c : Rat) (hc : 0 < c) (best : List Vec) (v w : Vec) :
    (∀ g ∈ best.map (scaleVec c), dot w g < dot w (scaleVec c v)) ↔ (∀ g ∈ best, dot w g < dot w v) := by
  simp only [List.mem_map, forall_exists_index, and_imp, forall_apply_eq_imp_iff₂, dot_scaleVec]
  constructor
  · intro h g hg; exact lt_of_mul_lt_mul_left (h g hg) (le_of_lt hc)
  · intro h g hg; exact mul_lt_mul_of_pos_left (h g hg) hc

/-! ## from the LP solver's contract to the oracle contract of `pruner_spec` -/

/-- contract of the LP solver on the LPs `findWitness` poses: an answer is a feasible point with the reported objective;
    "no answer" or an objective `≤ 0` is given only when no feasible point has an objective above `ε'` -/
def SolverOK (free : Bool) (n : Nat) (ε' : Rat) (solver : Posed → Option (Rat × Vec)) : Prop :=
  (∀ P δ b, solver P = some (δ, b) → ∃ K, Feasible free n P b K δ) ∧
  (∀ P, (solver P = none ∨ ∃ δ b, solver P = some (δ, b) ∧ δ ≤ 0) → ∀ b K δ', Feasible free n P b K δ' → δ' ≤ ε')

theorem exists_margin (s ε' : Rat) (b v : Vec) : ∀ (best : List Vec),
    (∀ g ∈ best, ε' < s * (dot b v - dot b g)) → ∃ δ', ε' < δ' ∧ ∀ g ∈ best, δ' ≤ s * (dot b v - dot b g)
  | [], _ => ⟨ε' + 1, by linarith, by simp⟩
  | g :: gs, h => by
    obtain ⟨d, hd1, hd2⟩ := exists_margin s ε' b v gs (fun g' hg' => h g' (List.mem_cons_of_mem _ hg'))
    have hg := h g (List.mem_cons_self)
    by_cases hle : d ≤ s * (dot b v - dot b g)
    · exact ⟨d, hd1, by intro g' hg'; rcases List.mem_cons.mp hg' with rfl | h'; exact hle; exact hd2 g' h'⟩
    · push Not at hle
      exact ⟨s * (dot b v - dot b g), hg, by
        intro g' hg'; rcases List.mem_cons.mp hg' with rfl | h'
        · exact le_refl _
        · exact le_trans (le_of_lt hle) (hd2 g' h')⟩

theorem exists_lower (K : Rat) (b : Vec) : ∀ (rows : List Vec), ∃ δ : Rat, ∀ g ∈ rows, dot b g - K + δ ≤ 0
  | [] => ⟨0, by simp⟩
  | g :: gs => by
    obtain ⟨d, hd⟩ := exists_lower K b gs
    by_cases h : dot b g - K + d ≤ 0
    · exact ⟨d, by intro g' hg'; rcases List.mem_cons.mp hg' with rfl | h'; exact h; exact hd g' h'⟩
    · push Not at h
      refine ⟨K - dot b g, ?_⟩
      intro g' hg'; rcases List.mem_cons.mp hg' with rfl | h'
      · linarith
      · have := hd g' h'; linarith

/-- **why `delta` should be free** (fixes/C12-6): with `delta` free the witness LP is feasible at EVERY belief, so lp_solve's
    INFEASIBLE can only be a solver failure; -/
theorem feasible_of_free (n : Nat) (P : Posed) (b : Vec) (hb : IsBelief n b) : ∃ K δ, Feasible true n P b K δ := by
  obtain ⟨δ, hδ⟩ := exists_lower (dot b P.wit) b P.rows
  exact ⟨dot b P.wit, δ, hb, by ring, hδ, Or.inl rfl⟩

/-- as found (`delta ≥ 0`) the LP is feasible exactly when some belief puts the question weakly above every row: "infeasible"
    is then also the legitimate answer for a dominated vector, indistinguishable from a failure of the solver -/
theorem feasible_asFound_iff (n : Nat) (P : Posed) :
    (∃ b K δ, Feasible false n P b K δ) ↔ ∃ b, IsBelief n b ∧ ∀ g ∈ P.rows, dot b g ≤ dot b P.wit := by
  constructor
  · rintro ⟨b, K, δ, hb, h1, h2, h3⟩
    rcases h3 with h3 | h3
    · exact absurd h3 (by simp)
    · exact ⟨b, hb, fun g hg => by have := h2 g hg; linarith⟩
  · rintro ⟨b, hb, h⟩
    exact ⟨b, dot b P.wit, 0, hb, by ring, fun g hg => by have := h g hg; linarith, Or.inr (le_refl _)⟩

/-- **witnessOracle_some**: an answer of the modelled `findWitness` is a belief where `v` is strictly above every row —
    in the ORIGINAL units, whatever power of two the rows were multiplied by -/
theorem witnessOracle_some (free : Bool) (n : Nat) (ε' : Rat) (solver : Posed → Option (Rat × Vec)) (hs : SolverOK free n ε' solver)
    (best : List Vec) (v w : Vec) (h : witnessOracle solver best v = some w) :
    IsBelief n w ∧ ∀ g ∈ best, dot w g < dot w v := by
  unfold witnessOracle findWitness at h
  rw [posed_witnessOracle] at h
  split at h
  · rename_i δ b hsol
    split at h
    · exact absurd h (by simp)
    · rename_i hδ
      have hw : b = w := by simpa using h
      subst hw
      obtain ⟨K, hb, h1, h2, _⟩ := hs.1 _ _ _ hsol
      refine ⟨hb, ?_⟩
      have hc := scaleOf_pos best v
      rw [← witness_scale _ hc]
      intro g hg
      have := h2 g hg
      simp only at h1
      push Not at hδ
      linarith
  · exact absurd h (by simp)

/-- **witnessOracle_none**: when the modelled `findWitness` answers "no witness", `v` is nowhere more than `ε' / scale` above
    the rows (original units; `ε'` is the solver's resolution on the scaled LP) -/
theorem witnessOracle_none (free : Bool) (n : Nat) (ε' : Rat) (hε : 0 ≤ ε') (solver : Posed → Option (Rat × Vec)) (hs : SolverOK free n ε' solver)
    (best : List Vec) (v : Vec) (h : witnessOracle solver best v = none) :
    ∀ b, IsBelief n b → ∃ g ∈ best, dot b v ≤ dot b g + ε' / scaleOf best v := by
  intro b hb
  have hc := scaleOf_pos best v
  by_contra hcon
  push Not at hcon
  have hall : ∀ g ∈ best, ε' < scaleOf best v * (dot b v - dot b g) := by
    intro g hg
    have := hcon g hg
    have h2 : ε' / scaleOf best v < dot b v - dot b g := by linarith
    rw [div_lt_iff₀ hc] at h2
    linarith
  obtain ⟨δ', hδ1, hδ2⟩ := exists_margin _ ε' b v best hall
  -- (b, K = s·(b·v), δ') is feasible for the posed LP
  have hfeas : Feasible free n (posed (best.foldl addOptimalRow reset) v) b (scaleOf best v * dot b v) δ' := by
    rw [posed_witnessOracle]
    refine ⟨hb, by simp [dot_scaleVec], ?_, Or.inr (by linarith)⟩
    intro g hg
    obtain ⟨g0, hg0, rfl⟩ := List.mem_map.mp hg
    rw [dot_scaleVec]
    have := hδ2 g0 hg0
    linarith
  have hcase : solver (posed (best.foldl addOptimalRow reset) v) = none ∨
      ∃ δ b', solver (posed (best.foldl addOptimalRow reset) v) = some (δ, b') ∧ δ ≤ 0 := by
    unfold witnessOracle findWitness at h
    split at h
    · rename_i δ b' hsol
      split at h
      · rename_i hδ; exact Or.inr ⟨δ, b', hsol, hδ⟩
      · exact absurd h (by simp)
    · rename_i hsol; exact Or.inl hsol
  have := hs.2 _ hcase b _ δ' hfeas
  linarith

/-- test (kernel-evaluated): the scale of the integrator's example `(2^20, −2^20)` is `2^-20`; entries up to `2^16·1.99` are left alone;
    a tiny row is scaled UP; the zero vector gives 1 -/
example : witnessScale [1048576, -1048576] = 1 / 1048576 ∧ witnessScale [130000, 1] = 1 ∧ witnessScale [131072, 1] = 1 / 131072 ∧
    witnessScale [1 / 262144, 0] = 262144 ∧ witnessScale [0, 0] = 1 ∧ witnessScale [3 * 8388608, -1/4] = 1 / 16777216 := by
  decide +kernel

/-- test: the LP posed for the flat vector between the opposed huge pair has rows `(1,−1)`, `(−1,1)` and witness row `(2^-21, 2^-21)`,
    and `(b, K, δ) = ((1/2,1/2), 2^-21, 2^-21)` is feasible for it: the hypotheses of `feasible_scale` / `witnessOracle_some` are met
    by a non-trivial instance -/
example : posed ([[1048576, -1048576], [-1048576, 1048576]].foldl addOptimalRow reset) [1/2, 1/2]
      = ⟨[[1, -1], [-1, 1]], [1 / 2097152, 1 / 2097152]⟩ := by decide +kernel

example : Feasible false 2 ⟨[[1, -1], [-1, 1]], [1 / 2097152, 1 / 2097152]⟩ [1/2, 1/2] (1 / 2097152) (1 / 2097152) := by
  refine ⟨⟨by decide, ?_, by decide +kernel⟩, by decide +kernel, ?_, Or.inr (by decide +kernel)⟩
  · intro x hx; simp at hx; subst hx; decide +kernel
  · intro g hg; simp at hg; rcases hg with rfl | rfl <;> decide +kernel

/-- test: with a solver that answers that LP by `(2^-21, (1/2,1/2))` the modelled `findWitness` returns the belief; with a solver that
    reports `delta = 0` (what lp_solve sees once the small coefficients are flushed to zero) it returns none -/
example : witnessOracle (fun _ => some (1 / 2097152, [1/2, 1/2])) [[1048576, -1048576], [-1048576, 1048576]] [1/2, 1/2] = some [1/2, 1/2] ∧
    witnessOracle (fun _ => some (0, [1/2, 1/2])) [[1048576, -1048576], [-1048576, 1048576]] [1/2, 1/2] = none := by
  decide +kernel

/-! ## the factor never magnifies the solver's resolution beyond the magnitude of the data -/

theorem le_maxQ_l (a b : Rat) : a ≤ maxQ a b := by unfold maxQ; split <;> linarith
theorem le_maxQ_r (a b : Rat) : b ≤ maxQ a b := by unfold maxQ; split <;> linarith

/-- `std::ilogb` from below: `2^e ≤ p/q` whenever the exponent is non-negative -/
theorem pow2_ilogb_le (p q : Nat) (hq : 0 < q) (he : 0 ≤ ilogbPos p q) : AITB.pow2 (ilogbPos p q) ≤ (p : Rat) / q := by
  unfold ilogbPos at he ⊢
  split at he
  · rename_i hqp
    simp only [hqp, if_true]
    have hpos : p / q ≠ 0 := Nat.ne_of_gt (Nat.div_pos hqp hq)
    have h1 : 2 ^ (p / q).log2 ≤ p / q := Nat.log2_self_le hpos
    unfold AITB.pow2
    simp only [Int.natCast_nonneg, ge_iff_le, if_true, Int.toNat_natCast]
    have hq' : (0 : Rat) < q := by exact_mod_cast hq
    have h2 : ((p / q : Nat) : Rat) ≤ (p : Rat) / q := by
      rw [le_div_iff₀ hq']
      exact_mod_cast Nat.div_mul_le_self p q
    calc ((2 ^ (p / q).log2 : Nat) : Rat) ≤ ((p / q : Nat) : Rat) := by exact_mod_cast h1
      _ ≤ (p : Rat) / q := h2
  · exfalso
    have : (0 : Int) < ((Nat.log2 ((q - 1) / p) + 1 : Nat) : Int) := by exact_mod_cast Nat.succ_pos _
    omega

theorem inv_scaleOfExp_le (e : Int) (x : Rat) (h : 0 ≤ e → AITB.pow2 e ≤ x) : 1 / scaleOfExp e ≤ maxQ 1 x := by
  unfold scaleOfExp
  split
  · rename_i hbig
    by_cases he : 0 ≤ e
    · have hx := h he
      have hne : e ≠ 0 := by intro h0; subst h0; simp at hbig
      have hneg : ¬ (-e ≥ 0) := by omega
      have : AITB.pow2 (-e) = 1 / AITB.pow2 e := by
        unfold AITB.pow2
        simp only [hneg, if_false, ge_iff_le, he, if_true, neg_neg]
      rw [this, one_div_one_div]
      exact le_trans hx (le_maxQ_r _ _)
    · have hpos : -e ≥ 0 := by omega
      have h1 : (1 : Rat) ≤ AITB.pow2 (-e) := by
        unfold AITB.pow2
        simp only [hpos, if_true]
        exact_mod_cast Nat.one_le_two_pow
      have : 1 / AITB.pow2 (-e) ≤ 1 := by
        rw [div_le_one (lt_of_lt_of_le one_pos h1)]; exact h1
      exact le_trans this (le_maxQ_l _ _)
  · simp; exact le_maxQ_l _ _

theorem inv_witnessScale_le (v : Vec) : 1 / witnessScale v ≤ maxQ 1 (maxAbsV v) := by
  unfold witnessScale
  simp only
  split
  · simp; exact le_maxQ_l _ _
  · rename_i hm
    push Not at hm
    apply inv_scaleOfExp_le
    intro he
    have hnum : 0 < (maxAbsV v).num := Rat.num_pos.mpr hm
    have h := pow2_ilogb_le (maxAbsV v).num.natAbs (maxAbsV v).den (maxAbsV v).den_pos he
    have hcast : (((maxAbsV v).num.natAbs : Nat) : Rat) = ((maxAbsV v).num : Rat) := by
      rw [Nat.cast_natAbs, abs_of_pos hnum]
    rw [hcast, Rat.num_div_den] at h
    exact h

theorem maxAbsV_foldl_le (M : Rat) : ∀ (v : Vec) (m : Rat), m ≤ M → (∀ x ∈ v, absQ x ≤ M) →
    v.foldl (fun m x => maxQ m (absQ x)) m ≤ M
  | [], m, hm, _ => by simpa using hm
  | x :: v, m, hm, h => by
    simp only [List.foldl_cons]
    apply maxAbsV_foldl_le M v
    · unfold maxQ; split
      · exact h x (List.mem_cons_self)
      · exact hm
    · intro y hy; exact h y (List.mem_cons_of_mem _ hy)

theorem maxAbsV_le (M : Rat) (hM : 0 ≤ M) (v : Vec) (h : ∀ x ∈ v, absQ x ≤ M) : maxAbsV v ≤ M :=
  maxAbsV_foldl_le M v 0 hM h

theorem maxQ_mono_right (a b c : Rat) (h : b ≤ c) : maxQ a b ≤ maxQ a c := by
  unfold maxQ; split <;> split <;> linarith

/-- with entries bounded by `M`, "no witness" means: nowhere more than `ε' · max(1, M)` above the rows -/
theorem inv_scaleOf_le (M : Rat) (hM : 0 ≤ M) (best : List Vec) (v : Vec)
    (hb : ∀ g ∈ best, ∀ x ∈ g, absQ x ≤ M) (hv : ∀ x ∈ v, absQ x ≤ M) : 1 / scaleOf best v ≤ maxQ 1 M := by
  cases best with
  | nil => exact le_trans (inv_witnessScale_le v) (maxQ_mono_right _ _ _ (maxAbsV_le M hM v hv))
  | cons g gs =>
    exact le_trans (inv_witnessScale_le g) (maxQ_mono_right _ _ _ (maxAbsV_le M hM g (hb g (List.mem_cons_self))))

end AITB.WitnessLP

/-! ## Pruner with the modelled WitnessLP -/

namespace AITB.Prune
open AITB.WitnessLP AITB.C12Check

/-- **the oracle is only ever asked about members of the input**: two oracles that agree on questions made of members of `U`
    drive the witness loop identically -/
theorem prunerLoop_oracle_congr (o1 o2 : List Vec → Vec → Option Vec) (U : Vec → Prop)
    (h : ∀ best v, (∀ g ∈ best, U g) → U v → o1 best v = o2 best v) :
    ∀ (k : Nat) (b r rem : List Vec), (∀ g ∈ b, U g) → (∀ g ∈ r, U g) →
      prunerLoop o1 k b r rem = prunerLoop o2 k b r rem
  | 0, b, r, rem, _, _ => by simp [prunerLoop]
  | k+1, b, r, rem, hb, hr => by
    simp only [prunerLoop]
    cases hl : r.getLast? with
    | none => rfl
    | some v =>
      obtain ⟨hsplit, hne⟩ := getLast?_some_split hl
      have hv : v ∈ r := by rw [hsplit]; simp
      simp only
      rw [h b v hb (hr v hv)]
      cases ho : o2 b v with
      | none =>
        simp only
        exact prunerLoop_oracle_congr o1 o2 U h k b r.dropLast (v :: rem) hb
          (fun g hg => hr g (List.mem_of_mem_dropLast hg))
      | some w =>
        simp only
        have hj := findBest_lt (dot w) r hne
        have hperm := takeOut_perm r (findBest (dot w) r) ([] : Vec) hj
        have hpick : r.getD (findBest (dot w) r) [] ∈ r := hperm.subset (List.mem_cons_self)
        exact prunerLoop_oracle_congr o1 o2 U h k _ _ rem
          (by intro g hg; rcases List.mem_append.mp hg with h1 | h1
              · exact hb g h1
              · simp at h1; subst h1; exact hr _ hpick)
          (fun g hg => hr g (hperm.subset (List.mem_cons_of_mem _ hg)))

theorem pruner_oracle_congr (dom : Vec → Vec → Bool) (o1 o2 : List Vec → Vec → Option Vec) (S : Nat) (xs : List Vec)
    (h : ∀ best v, (∀ g ∈ best, g ∈ xs) → v ∈ xs → o1 best v = o2 best v) :
    pruner dom o1 S xs = pruner dom o2 S xs := by
  unfold pruner
  by_cases hlt : (extractDominated dom xs).1.length < 2
  · simp [hlt]
  · simp only [hlt, if_false]
    have hsub : ∀ g ∈ (extractDominated dom xs).1, g ∈ xs := fun g hg =>
      (extractDominated_perm dom xs).subset (List.mem_append_left _ hg)
    have hne : ([] : List Vec) ++ (extractDominated dom xs).1 ≠ [] := by
      intro h0; simp at h0; rw [h0] at hlt; simp at hlt
    have hc := cornersLoop_perm (List.range S) [] (extractDominated dom xs).1 hne
    have hcs : ∀ g ∈ (cornersLoop (List.range S) [] (extractDominated dom xs).1).1 ++
        (cornersLoop (List.range S) [] (extractDominated dom xs).1).2, g ∈ xs := fun g hg =>
      hsub g (by simpa using hc.subset hg)
    rw [prunerLoop_oracle_congr o1 o2 (fun g => g ∈ xs) h _ _ _ []
      (fun g hg => hcs g (List.mem_append_left _ hg)) (fun g hg => hcs g (List.mem_append_right _ hg))]

open Classical in
/-- an ideal oracle (used only inside the proof below, for questions the algorithm never asks) -/
noncomputable def idealOracle (n : Nat) (best : List Vec) (v : Vec) : Option Vec :=
  if h : ∃ w, IsBelief n w ∧ ∀ g ∈ best, dot w g < dot w v then some (Classical.choose h) else none

open Classical in
/-- the modelled `WitnessLP` on questions made of members of `xs`, the ideal oracle elsewhere -/
noncomputable def guardedOracle (solver : Posed → Option (Rat × Vec)) (n : Nat) (xs : List Vec) (best : List Vec) (v : Vec) : Option Vec :=
  if (∀ g ∈ best, g ∈ xs) ∧ v ∈ xs then witnessOracle solver best v else idealOracle n best v

theorem guardedOracle_mem (solver : Posed → Option (Rat × Vec)) (n : Nat) (xs best : List Vec) (v : Vec)
    (h : (∀ g ∈ best, g ∈ xs) ∧ v ∈ xs) : guardedOracle solver n xs best v = witnessOracle solver best v := by
  unfold guardedOracle; rw [if_pos h]

theorem guardedOracle_not_mem (solver : Posed → Option (Rat × Vec)) (n : Nat) (xs best : List Vec) (v : Vec)
    (h : ¬ ((∀ g ∈ best, g ∈ xs) ∧ v ∈ xs)) : guardedOracle solver n xs best v = idealOracle n best v := by
  unfold guardedOracle; rw [if_neg h]

/-- **pruner_lp_spec**: `Pruner::operator()` with the MODELLED `WitnessLP` (rows multiplied by the common power of two
    `witnessScale`, `delta ≥ 0`, `deltaValue <= 0` discarded) and an LP solver that meets `SolverOK` with resolution `ε'`
    on the scaled LPs: sub-multiset, envelope preserved up to `length · linkSlack M + ε' · max(1, M)`, every kept vector
    attains the maximum of the kept set somewhere.  The scaling needs no hypothesis: it is proved harmless. -/
theorem pruner_lp_spec (free : Bool) (solver : Posed → Option (Rat × Vec)) (n : Nat) (hn : 0 < n) (M ε' : Rat) (hM : 0 ≤ M) (hε : 0 ≤ ε')
    (S : Nat) (hS : S ≤ n) (xs : List Vec)
    (hlen : ∀ v ∈ xs, v.length = n) (hMx : ∀ v ∈ xs, ∀ x ∈ v, absQ x ≤ M)
    (hs : SolverOK free n ε' solver) :
    ((pruner dominates (witnessOracle solver) S xs).1 ++ (pruner dominates (witnessOracle solver) S xs).2).Perm xs ∧
    (∀ bel, IsBelief n bel → ∀ x ∈ xs, ∃ g ∈ (pruner dominates (witnessOracle solver) S xs).1,
        dot bel x ≤ dot bel g + (xs.length : Rat) * linkSlack M + ε' * maxQ 1 M) ∧
    (∀ g ∈ (pruner dominates (witnessOracle solver) S xs).1, ∃ w, IsBelief n w ∧
        ∀ g' ∈ (pruner dominates (witnessOracle solver) S xs).1, dot w g' ≤ dot w g) := by
  have hcongr : pruner dominates (witnessOracle solver) S xs = pruner dominates (guardedOracle solver n xs) S xs :=
    pruner_oracle_congr dominates _ _ S xs (fun best v hb hv => (guardedOracle_mem solver n xs best v ⟨hb, hv⟩).symm)
  rw [hcongr]
  have h1M : 0 ≤ maxQ 1 M := le_trans zero_le_one (le_maxQ_l 1 M)
  refine pruner_spec (guardedOracle solver n xs) n hn M (ε' * maxQ 1 M) (mul_nonneg hε h1M) S hS xs hlen hMx ?_ ?_
  · intro best v w hw
    by_cases hmem : (∀ g ∈ best, g ∈ xs) ∧ v ∈ xs
    · rw [guardedOracle_mem solver n xs best v hmem] at hw
      exact witnessOracle_some free n ε' solver hs best v w hw
    · rw [guardedOracle_not_mem solver n xs best v hmem] at hw
      unfold idealOracle at hw
      split at hw
      · rename_i hex
        have : Classical.choose hex = w := by simpa using hw
        rw [← this]; exact Classical.choose_spec hex
      · exact absurd hw (by simp)
  · intro best v hnone b hb
    by_cases hmem : (∀ g ∈ best, g ∈ xs) ∧ v ∈ xs
    · rw [guardedOracle_mem solver n xs best v hmem] at hnone
      obtain ⟨g, hg, hle⟩ := witnessOracle_none free n ε' hε solver hs best v hnone b hb
      refine ⟨g, hg, le_trans hle ?_⟩
      have hinv := inv_scaleOf_le M hM best v (fun g hg => hMx g (hmem.1 g hg)) (hMx v hmem.2)
      have : ε' / scaleOf best v = ε' * (1 / scaleOf best v) := by ring
      rw [this]
      have := mul_le_mul_of_nonneg_left hinv hε
      linarith
    · rw [guardedOracle_not_mem solver n xs best v hmem] at hnone
      unfold idealOracle at hnone
      split at hnone
      · exact absurd hnone (by simp)
      · rename_i hex
        push Not at hex
        obtain ⟨g, hg, hle⟩ := hex b hb
        exact ⟨g, hg, by have := mul_nonneg hε h1M; linarith⟩

end AITB.Prune
