/-
  AITB.Props.C03 — approximate POMDP solvers return sound bounds: entry module (imports every C03 theorem file).
-/
import AITB.Props.C03Basic
import AITB.Props.C03Lower
import AITB.Props.C03Upper
import AITB.Props.C03Refs
import AITB.Props.C03Anytime
import AITB.Props.C03Cons
import AITB.Props.C03Horizon
import AITB.Props.C03Tie
import AITB.Props.C03Qmdp
import AITB.Props.C03Examples
import AITB.Props.C03Bridge
import AITB.Props.C03CheckSound
import AITB.Props.C03Gap
import AITB.Props.C03Trace
import AITB.Props.C03AsFound
import AITB.Props.C03Sarsop
import AITB.Props.C03Prom
import AITB.Props.C03GapMin
import AITB.Props.C03GapMinLb
import AITB.Props.C03Prom2
import AITB.Props.C03GapMinUb
import AITB.Props.C03Trunc
import AITB.Props.C03Trunc2
