/-
  AITB.Props.C05Round — how far IEEE rounding can move the library's belief update from the exact
  Bayes posterior.  The C++ computes in doubles; the theorems of AITB.Props.C05 are about exact
  arithmetic.  Here the loop branch is re-read with EVERY arithmetic result passed through an
  arbitrary rounding function `rnd` that satisfies the standard model of floating-point arithmetic
  on non-negative values (relative error at most `u` per operation), and the result is enclosed
  between explicit multiples of the exact value — for all sizes.  (All quantities are sums of
  non-negative products, so there is no cancellation and a purely relative bound holds.)
  This is what makes the correspondence harness's relative tolerance 10^-9 on non-dyadic inputs
  a sound acceptance test rather than a tuning knob.  Eigen's kernels add in another order and
  association: `unnorm_any_order_enclosure` gives the same enclosure for ANY summation tree, with
  the tree depth (at most S-1, far less for vectorised kernels) in place of S.
-/
import AITB.Props.C05
set_option linter.unusedVariables false
namespace AITB.Belief
/-- one rounded loop sum: `acc = rnd(acc + term)` with already-rounded terms -/
def flSumTo (rnd : Rat → Rat) : Nat → (Nat → Rat) → Rat
  | 0, _ => 0
  | n+1, f => rnd (flSumTo rnd n f + f n)

/-- loop branch of `updateBeliefUnnormalized` with every arithmetic result rounded by `rnd` -/
def unnormFl (rnd : Rat → Rat) (m : POMDP) (b : Vec) (a o : Nat) : Vec :=
  fun s1 => rnd (m.Ob s1 a o * flSumTo rnd m.S (fun s => rnd (m.T s a s1 * b s)))

/-- standard model of floating-point arithmetic restricted to non-negative results:
    every rounded result is within relative error `u` of the exact one -/
structure StdRounding (rnd : Rat → Rat) (u : Rat) : Prop where
  u_nonneg : 0 ≤ u
  u_le_one : u ≤ 1
  lo : ∀ x, 0 ≤ x → (1 - u) * x ≤ rnd x
  hi : ∀ x, 0 ≤ x → rnd x ≤ (1 + u) * x

theorem StdRounding.nonneg {rnd : Rat → Rat} {u : Rat} (h : StdRounding rnd u) {x : Rat} (hx : 0 ≤ x) : 0 ≤ rnd x :=
  le_trans (mul_nonneg (by linarith [h.u_le_one]) hx) (h.lo x hx)

theorem flSumTo_bounds {rnd : Rat → Rat} {u : Rat} (h : StdRounding rnd u) (n : Nat) (f g : Nat → Rat) (k : Nat)
    (hg : ∀ i, i < n → 0 ≤ g i)
    (hlo : ∀ i, i < n → (1 - u) ^ k * g i ≤ f i) (hhi : ∀ i, i < n → f i ≤ (1 + u) ^ k * g i) :
    0 ≤ flSumTo rnd n f ∧ (1 - u) ^ (n + k) * sumTo n g ≤ flSumTo rnd n f ∧ flSumTo rnd n f ≤ (1 + u) ^ (n + k) * sumTo n g := by
  have hu0 := h.u_nonneg
  have hu1 := h.u_le_one
  induction n with
  | zero => simp [flSumTo, sumTo]
  | succ n ih =>
    obtain ⟨i0, ilo, ihi⟩ := ih (fun i hi => hg i (Nat.lt_succ_of_lt hi)) (fun i hi => hlo i (Nat.lt_succ_of_lt hi))
      (fun i hi => hhi i (Nat.lt_succ_of_lt hi))
    have hgn := hg n (Nat.lt_succ_self n)
    have hsg : 0 ≤ sumTo n g := sumTo_nonneg (fun i hi => hg i (Nat.lt_succ_of_lt hi))
    have hfn_lo := hlo n (Nat.lt_succ_self n)
    have hfn_hi := hhi n (Nat.lt_succ_self n)
    have hpk_lo : 0 ≤ (1 - u) ^ k := pow_nonneg (by linarith) k
    have hfn0 : 0 ≤ f n := le_trans (mul_nonneg hpk_lo hgn) hfn_lo
    have hx : 0 ≤ flSumTo rnd n f + f n := by linarith
    simp only [flSumTo, sumTo]
    refine ⟨h.nonneg hx, ?_, ?_⟩
    · -- lower bound
      have h1 : (1 - u) ^ (n + k) ≤ (1 - u) ^ k := by
        rw [pow_add]
        calc (1 - u) ^ n * (1 - u) ^ k ≤ 1 * (1 - u) ^ k :=
              mul_le_mul_of_nonneg_right (pow_le_one₀ (by linarith) (by linarith)) hpk_lo
          _ = (1 - u) ^ k := one_mul _
      have h2 : (1 - u) ^ (n + k) * (sumTo n g + g n) ≤ flSumTo rnd n f + f n := by
        have : (1 - u) ^ (n + k) * g n ≤ (1 - u) ^ k * g n := mul_le_mul_of_nonneg_right h1 hgn
        rw [mul_add]; linarith
      have h3 : (1 - u) ^ (n + 1 + k) = (1 - u) * (1 - u) ^ (n + k) := by
        rw [show n + 1 + k = (n + k) + 1 by omega, pow_succ]; ring
      calc (1 - u) ^ (n + 1 + k) * (sumTo n g + g n)
          = (1 - u) * ((1 - u) ^ (n + k) * (sumTo n g + g n)) := by rw [h3]; ring
        _ ≤ (1 - u) * (flSumTo rnd n f + f n) := mul_le_mul_of_nonneg_left h2 (by linarith)
        _ ≤ rnd (flSumTo rnd n f + f n) := h.lo _ hx
    · -- upper bound
      have hpk_hi : 0 ≤ (1 + u) ^ k := pow_nonneg (by linarith) k
      have h1 : (1 + u) ^ k ≤ (1 + u) ^ (n + k) := by
        rw [pow_add]
        calc (1 + u) ^ k = 1 * (1 + u) ^ k := (one_mul _).symm
          _ ≤ (1 + u) ^ n * (1 + u) ^ k :=
              mul_le_mul_of_nonneg_right (one_le_pow₀ (by linarith)) hpk_hi
      have h2 : flSumTo rnd n f + f n ≤ (1 + u) ^ (n + k) * (sumTo n g + g n) := by
        have : (1 + u) ^ k * g n ≤ (1 + u) ^ (n + k) * g n := mul_le_mul_of_nonneg_right h1 hgn
        rw [mul_add]; linarith
      have h3 : (1 + u) ^ (n + 1 + k) = (1 + u) * (1 + u) ^ (n + k) := by
        rw [show n + 1 + k = (n + k) + 1 by omega, pow_succ]; ring
      calc rnd (flSumTo rnd n f + f n) ≤ (1 + u) * (flSumTo rnd n f + f n) := h.hi _ hx
        _ ≤ (1 + u) * ((1 + u) ^ (n + k) * (sumTo n g + g n)) := mul_le_mul_of_nonneg_left h2 (by linarith)
        _ = (1 + u) ^ (n + 1 + k) * (sumTo n g + g n) := by rw [h3]; ring

/-- rounding-error enclosure of the loop branch: with non-negative tables and belief, the computed
    unnormalised update lies within the relative factor `(1 ± u)^(S+2)` of the exact Bayes weight
    (S additions, one product per term, one final product) -/
theorem unnormFl_enclosure {rnd : Rat → Rat} {u : Rat} (h : StdRounding rnd u)
    {m : POMDP} (hm : NonnegModel m) {b : Vec} (hb : ∀ s, s < m.S → 0 ≤ b s)
    {a o : Nat} (ha : a < m.A) (ho : o < m.O) {s1 : Nat} (hs1 : s1 < m.S) :
    (1 - u) ^ (m.S + 2) * weight m b a o s1 ≤ unnormFl rnd m b a o s1 ∧
    unnormFl rnd m b a o s1 ≤ (1 + u) ^ (m.S + 2) * weight m b a o s1 := by
  have hu0 := h.u_nonneg
  have hu1 := h.u_le_one
  have hg : ∀ s, s < m.S → 0 ≤ m.T s a s1 * b s :=
    fun s hs => mul_nonneg (hm.T_nonneg s a s1 hs ha hs1) (hb s hs)
  obtain ⟨s0, slo, shi⟩ := flSumTo_bounds h m.S (fun s => rnd (m.T s a s1 * b s)) (fun s => m.T s a s1 * b s) 1 hg
    (fun s hs => by simpa using h.lo _ (hg s hs)) (fun s hs => by simpa using h.hi _ (hg s hs))
  have hO := hm.O_nonneg s1 a o hs1 ha ho
  have hS : 0 ≤ sumTo m.S (fun s => m.T s a s1 * b s) := sumTo_nonneg hg
  have hx : 0 ≤ m.Ob s1 a o * flSumTo rnd m.S (fun s => rnd (m.T s a s1 * b s)) := mul_nonneg hO s0
  unfold unnormFl weight
  constructor
  · calc (1 - u) ^ (m.S + 2) * (m.Ob s1 a o * sumTo m.S (fun s => m.T s a s1 * b s))
        = (1 - u) * (m.Ob s1 a o * ((1 - u) ^ (m.S + 1) * sumTo m.S (fun s => m.T s a s1 * b s))) := by
          rw [show m.S + 2 = (m.S + 1) + 1 by omega, pow_succ]; ring
      _ ≤ (1 - u) * (m.Ob s1 a o * flSumTo rnd m.S (fun s => rnd (m.T s a s1 * b s))) :=
          mul_le_mul_of_nonneg_left (mul_le_mul_of_nonneg_left slo hO) (by linarith)
      _ ≤ _ := h.lo _ hx
  · calc rnd (m.Ob s1 a o * flSumTo rnd m.S (fun s => rnd (m.T s a s1 * b s)))
        ≤ (1 + u) * (m.Ob s1 a o * flSumTo rnd m.S (fun s => rnd (m.T s a s1 * b s))) := h.hi _ hx
      _ ≤ (1 + u) * (m.Ob s1 a o * ((1 + u) ^ (m.S + 1) * sumTo m.S (fun s => m.T s a s1 * b s))) :=
          mul_le_mul_of_nonneg_left (mul_le_mul_of_nonneg_left shi hO) (by linarith)
      _ = (1 + u) ^ (m.S + 2) * (m.Ob s1 a o * sumTo m.S (fun s => m.T s a s1 * b s)) := by
          rw [show m.S + 2 = (m.S + 1) + 1 by omega, pow_succ]; ring

/-- exact arithmetic is the instance `u = 0`: then the enclosure collapses to equality -/
example : StdRounding id 0 := ⟨le_refl _, by norm_num, fun x _ => by simp, fun x _ => by simp⟩

theorem frac_rearrange (x A B w P : Rat) : x * A / B * (w / P) = x * (A * w / (B * P)) := by
  rw [div_mul_div_comm, mul_assoc, mul_div_assoc]

/-- `updateBelief`, loop branch, every result rounded: `br[s1] = rnd(br[s1] / rnd-sum(br))` -/
def updateFl (rnd : Rat → Rat) (m : POMDP) (b : Vec) (a o : Nat) : Vec :=
  fun s1 => rnd (unnormFl rnd m b a o s1 / flSumTo rnd m.S (unnormFl rnd m b a o))

/-- rounding-error enclosure of the normalised update: for an observation of positive probability the
    computed posterior lies within the relative factors `(1-u)^(S+3)/(1+u)^(2S+2)` and
    `(1+u)^(S+3)/(1-u)^(2S+2)` of the exact Bayes posterior `weight / P(o|b,a)`.
    With `u = 2^-53` and `S ≤ 10^6` both factors differ from 1 by less than `4·10^-10`: this is what licenses
    the harness's relative tolerance `10^-9` on non-dyadic inputs. -/
theorem updateFl_enclosure {rnd : Rat → Rat} {u : Rat} (h : StdRounding rnd u) (hu : u < 1)
    {m : POMDP} (hm : NonnegModel m) {b : Vec} (hb : ∀ s, s < m.S → 0 ≤ b s)
    {a o : Nat} (ha : a < m.A) (ho : o < m.O) (hpos : 0 < probO m b a o) {s1 : Nat} (hs1 : s1 < m.S) :
    (1 - u) ^ (m.S + 3) / (1 + u) ^ (2 * m.S + 2) * (weight m b a o s1 / probO m b a o) ≤ updateFl rnd m b a o s1 ∧
    updateFl rnd m b a o s1 ≤ (1 + u) ^ (m.S + 3) / (1 - u) ^ (2 * m.S + 2) * (weight m b a o s1 / probO m b a o) := by
  have hu0 := h.u_nonneg
  have hw : ∀ s, s < m.S → 0 ≤ weight m b a o s := fun s hs => unnorm_nonneg hm hb ha ho s hs
  obtain ⟨elo, ehi⟩ := unnormFl_enclosure h hm hb ha ho hs1
  obtain ⟨t0, tlo, thi⟩ := flSumTo_bounds h m.S (unnormFl rnd m b a o) (weight m b a o) (m.S + 2) hw
    (fun s hs => (unnormFl_enclosure h hm hb ha ho hs).1) (fun s hs => (unnormFl_enclosure h hm hb ha ho hs).2)
  have hP : sumTo m.S (weight m b a o) = probO m b a o := unnorm_sum_eq_prob_o m b a o
  rw [hP, show m.S + (m.S + 2) = 2 * m.S + 2 by omega] at tlo thi
  set P := probO m b a o
  set w := weight m b a o s1
  set ut := unnormFl rnd m b a o s1
  set tot := flSumTo rnd m.S (unnormFl rnd m b a o)
  have hw1 : 0 ≤ w := hw s1 hs1
  have hlo1 : 0 < (1 - u) := by linarith
  have hhi1 : 0 < (1 + u) := by linarith
  have hBlo : 0 < (1 - u) ^ (2 * m.S + 2) := pow_pos hlo1 _
  have hBhi : 0 < (1 + u) ^ (2 * m.S + 2) := pow_pos hhi1 _
  have hAlo : 0 ≤ (1 - u) ^ (m.S + 2) := pow_nonneg (le_of_lt hlo1) _
  have hAhi : 0 ≤ (1 + u) ^ (m.S + 2) := pow_nonneg (le_of_lt hhi1) _
  have htot : 0 < tot := lt_of_lt_of_le (mul_pos hBlo hpos) tlo
  have hut : 0 ≤ ut := le_trans (mul_nonneg hAlo hw1) elo
  have hx : 0 ≤ ut / tot := div_nonneg hut (le_of_lt htot)
  unfold updateFl
  constructor
  · have h1 : (1 - u) ^ (m.S + 2) * w / ((1 + u) ^ (2 * m.S + 2) * P) ≤ ut / tot :=
      div_le_div₀ hut elo htot thi
    calc (1 - u) ^ (m.S + 3) / (1 + u) ^ (2 * m.S + 2) * (w / P)
        = (1 - u) * ((1 - u) ^ (m.S + 2) * w / ((1 + u) ^ (2 * m.S + 2) * P)) := by
          have e : (1 - u) ^ (m.S + 3) = (1 - u) * (1 - u) ^ (m.S + 2) := by rw [pow_succ, mul_comm]
          rw [e, frac_rearrange]
      _ ≤ (1 - u) * (ut / tot) := mul_le_mul_of_nonneg_left h1 (le_of_lt hlo1)
      _ ≤ _ := h.lo _ hx
  · have h1 : ut / tot ≤ (1 + u) ^ (m.S + 2) * w / ((1 - u) ^ (2 * m.S + 2) * P) :=
      div_le_div₀ (mul_nonneg hAhi hw1) ehi (mul_pos hBlo hpos) tlo
    calc rnd (ut / tot) ≤ (1 + u) * (ut / tot) := h.hi _ hx
      _ ≤ (1 + u) * ((1 + u) ^ (m.S + 2) * w / ((1 - u) ^ (2 * m.S + 2) * P)) :=
          mul_le_mul_of_nonneg_left h1 (le_of_lt hhi1)
      _ = (1 + u) ^ (m.S + 3) / (1 - u) ^ (2 * m.S + 2) * (w / P) := by
          have e : (1 + u) ^ (m.S + 3) = (1 + u) * (1 + u) ^ (m.S + 2) := by rw [pow_succ, mul_comm]
          rw [e, frac_rearrange]

/-! ## any summation order

  Eigen's dense and sparse kernels do not add the products in loop order (packets, unrolling, horizontal
  adds).  Whatever order and association they use is a binary tree whose leaves are the products; the
  enclosure depends only on the depth of that tree. -/

/-- an association of non-negative terms: leaves are exact products, inner nodes are additions -/
inductive SumTree where
  | leaf (x : Rat)
  | node (l r : SumTree)

namespace SumTree
def exact : SumTree → Rat
  | leaf x => x
  | node l r => l.exact + r.exact
/-- every product and every addition rounded -/
def fl (rnd : Rat → Rat) : SumTree → Rat
  | leaf x => rnd x
  | node l r => rnd (l.fl rnd + r.fl rnd)
def depth : SumTree → Nat
  | leaf _ => 0
  | node l r => max l.depth r.depth + 1
def Nonneg : SumTree → Prop
  | leaf x => 0 ≤ x
  | node l r => l.Nonneg ∧ r.Nonneg
end SumTree

theorem pow_mono_lo {u : Rat} (h0 : 0 ≤ u) (h1 : u ≤ 1) {i j : Nat} (hij : i ≤ j) : (1 - u) ^ j ≤ (1 - u) ^ i :=
  pow_le_pow_of_le_one (by linarith) (by linarith) hij

theorem pow_mono_hi {u : Rat} (h0 : 0 ≤ u) {i j : Nat} (hij : i ≤ j) : (1 + u) ^ i ≤ (1 + u) ^ j :=
  pow_le_pow_right₀ (by linarith) hij

theorem SumTree.fl_bounds {rnd : Rat → Rat} {u : Rat} (h : StdRounding rnd u) :
    ∀ t : SumTree, t.Nonneg →
      0 ≤ t.exact ∧ (1 - u) ^ (t.depth + 1) * t.exact ≤ t.fl rnd ∧ t.fl rnd ≤ (1 + u) ^ (t.depth + 1) * t.exact
  | .leaf x, hx => by
    simp only [SumTree.exact, SumTree.fl, SumTree.depth, Nat.zero_add, pow_one]
    exact ⟨hx, h.lo x hx, h.hi x hx⟩
  | .node l r, ⟨hl, hr⟩ => by
    have hu0 := h.u_nonneg
    have hu1 := h.u_le_one
    obtain ⟨el0, llo, lhi⟩ := SumTree.fl_bounds h l hl
    obtain ⟨er0, rlo, rhi⟩ := SumTree.fl_bounds h r hr
    simp only [SumTree.exact, SumTree.fl, SumTree.depth]
    set d := max l.depth r.depth
    have hdl : l.depth + 1 ≤ d + 1 := by have := le_max_left l.depth r.depth; omega
    have hdr : r.depth + 1 ≤ d + 1 := by have := le_max_right l.depth r.depth; omega
    have fl0 : 0 ≤ l.fl rnd := le_trans (mul_nonneg (pow_nonneg (by linarith) _) el0) llo
    have fr0 : 0 ≤ r.fl rnd := le_trans (mul_nonneg (pow_nonneg (by linarith) _) er0) rlo
    have hx : 0 ≤ l.fl rnd + r.fl rnd := by linarith
    have lo1 : (1 - u) ^ (d + 1) * (l.exact + r.exact) ≤ l.fl rnd + r.fl rnd := by
      have a1 := mul_le_mul_of_nonneg_right (pow_mono_lo hu0 hu1 hdl) el0
      have a2 := mul_le_mul_of_nonneg_right (pow_mono_lo hu0 hu1 hdr) er0
      rw [mul_add]; linarith
    have hi1 : l.fl rnd + r.fl rnd ≤ (1 + u) ^ (d + 1) * (l.exact + r.exact) := by
      have a1 := mul_le_mul_of_nonneg_right (pow_mono_hi hu0 hdl) el0
      have a2 := mul_le_mul_of_nonneg_right (pow_mono_hi hu0 hdr) er0
      rw [mul_add]; linarith
    refine ⟨by linarith, ?_, ?_⟩
    · calc (1 - u) ^ (d + 1 + 1) * (l.exact + r.exact)
          = (1 - u) * ((1 - u) ^ (d + 1) * (l.exact + r.exact)) := by rw [pow_succ (1 - u) (d + 1)]; ring
        _ ≤ (1 - u) * (l.fl rnd + r.fl rnd) := mul_le_mul_of_nonneg_left lo1 (by linarith)
        _ ≤ _ := h.lo _ hx
    · calc rnd (l.fl rnd + r.fl rnd) ≤ (1 + u) * (l.fl rnd + r.fl rnd) := h.hi _ hx
        _ ≤ (1 + u) * ((1 + u) ^ (d + 1) * (l.exact + r.exact)) := mul_le_mul_of_nonneg_left hi1 (by linarith)
        _ = (1 + u) ^ (d + 1 + 1) * (l.exact + r.exact) := by rw [pow_succ (1 + u) (d + 1)]; ring

/-- Eigen branch, any evaluation order: if the kernel adds the products `T(s,a,s1)·b(s)` in the association `t`
    (so `t.exact` is their sum), the computed `O(s1,a,o) * (bᵀT_a)(s1)` is within `(1 ± u)^(depth t + 2)` of the
    exact Bayes weight -/
theorem unnorm_any_order_enclosure {rnd : Rat → Rat} {u : Rat} (h : StdRounding rnd u)
    {m : POMDP} (hm : NonnegModel m) {b : Vec} {a o : Nat} (ha : a < m.A) (ho : o < m.O) {s1 : Nat} (hs1 : s1 < m.S)
    (t : SumTree) (ht : t.Nonneg) (hsum : t.exact = sumTo m.S (fun s => m.T s a s1 * b s)) :
    (1 - u) ^ (t.depth + 2) * weight m b a o s1 ≤ rnd (m.Ob s1 a o * t.fl rnd) ∧
    rnd (m.Ob s1 a o * t.fl rnd) ≤ (1 + u) ^ (t.depth + 2) * weight m b a o s1 := by
  have hu0 := h.u_nonneg
  have hu1 := h.u_le_one
  obtain ⟨e0, lo, hi⟩ := SumTree.fl_bounds h t ht
  have hO := hm.O_nonneg s1 a o hs1 ha ho
  have f0 : 0 ≤ t.fl rnd := le_trans (mul_nonneg (pow_nonneg (by linarith) _) e0) lo
  have hx : 0 ≤ m.Ob s1 a o * t.fl rnd := mul_nonneg hO f0
  unfold weight
  rw [← hsum]
  constructor
  · calc (1 - u) ^ (t.depth + 2) * (m.Ob s1 a o * t.exact)
        = (1 - u) * (m.Ob s1 a o * ((1 - u) ^ (t.depth + 1) * t.exact)) := by
          rw [show t.depth + 2 = (t.depth + 1) + 1 by omega, pow_succ (1 - u) (t.depth + 1)]; ring
      _ ≤ (1 - u) * (m.Ob s1 a o * t.fl rnd) :=
          mul_le_mul_of_nonneg_left (mul_le_mul_of_nonneg_left lo hO) (by linarith)
      _ ≤ _ := h.lo _ hx
  · calc rnd (m.Ob s1 a o * t.fl rnd) ≤ (1 + u) * (m.Ob s1 a o * t.fl rnd) := h.hi _ hx
      _ ≤ (1 + u) * (m.Ob s1 a o * ((1 + u) ^ (t.depth + 1) * t.exact)) :=
          mul_le_mul_of_nonneg_left (mul_le_mul_of_nonneg_left hi hO) (by linarith)
      _ = (1 + u) ^ (t.depth + 2) * (m.Ob s1 a o * t.exact) := by
          rw [show t.depth + 2 = (t.depth + 1) + 1 by omega, pow_succ (1 + u) (t.depth + 1)]; ring

/-! ## the tolerance used by the harness -/
theorem pow_le_one_add_two_mul {u : Rat} (h0 : 0 ≤ u) : ∀ n : Nat, 2 * (n : Rat) * u ≤ 1 → (1 + u) ^ n ≤ 1 + 2 * (n : Rat) * u
  | 0, _ => by simp
  | n+1, h => by
    have hn : 2 * (n : Rat) * u ≤ 1 := by
      have : ((n + 1 : Nat) : Rat) = (n : Rat) + 1 := by push_cast; ring
      rw [this] at h; nlinarith
    have ih := pow_le_one_add_two_mul h0 n hn
    have h1 : (1 + u) ^ (n + 1) ≤ (1 + 2 * (n : Rat) * u) * (1 + u) := by
      rw [pow_succ]; exact mul_le_mul_of_nonneg_right ih (by linarith)
    have : ((n + 1 : Nat) : Rat) = (n : Rat) + 1 := by push_cast; ring
    rw [this]
    nlinarith [mul_nonneg h0 (sub_nonneg.mpr hn)]

theorem one_sub_mul_le_pow {u : Rat} (h0 : 0 ≤ u) (h1 : u ≤ 1) : ∀ n : Nat, 1 - (n : Rat) * u ≤ (1 - u) ^ n
  | 0 => by simp
  | n+1 => by
    have ih := one_sub_mul_le_pow h0 h1 n
    have h2 : (1 - (n : Rat) * u) * (1 - u) ≤ (1 - u) ^ (n + 1) := by
      rw [pow_succ]; exact mul_le_mul_of_nonneg_right ih (by linarith)
    have : ((n + 1 : Nat) : Rat) = (n : Rat) + 1 := by push_cast; ring
    rw [this]
    have hn0 : (0 : Rat) ≤ n := Nat.cast_nonneg n
    nlinarith [mul_nonneg hn0 (mul_nonneg h0 h0)]

/-- with IEEE doubles (`u = 2^-53`) and any model of up to a million states, both factors of
    `updateFl_enclosure` are within `10^-9` of one: the harness's relative tolerance `10^-9` cannot reject a
    correctly rounded implementation, and anything it accepts is within `2·10^-9` of the exact posterior -/
theorem tolerance_sound (S : Nat) (hS : S ≤ 1000000) :
    ((1 : Rat) + 1 / 2 ^ 53) ^ (S + 3) / (1 - 1 / 2 ^ 53) ^ (2 * S + 2) ≤ 1 + 1 / 10 ^ 9 ∧
    1 - 1 / 10 ^ 9 ≤ ((1 : Rat) - 1 / 2 ^ 53) ^ (S + 3) / (1 + 1 / 2 ^ 53) ^ (2 * S + 2) := by
  have hSq : (S : Rat) ≤ 1000000 := by exact_mod_cast hS
  have hS0 : (0 : Rat) ≤ S := Nat.cast_nonneg S
  have hu0 : (0 : Rat) ≤ 1 / 2 ^ 53 := by positivity
  have hu1 : (1 : Rat) / 2 ^ 53 ≤ 1 := by norm_num
  have c1 : ((S + 3 : Nat) : Rat) = (S : Rat) + 3 := by push_cast; ring
  have c2 : ((2 * S + 2 : Nat) : Rat) = 2 * (S : Rat) + 2 := by push_cast; ring
  have hiA := pow_le_one_add_two_mul hu0 (S + 3) (by rw [c1]; norm_num; nlinarith)
  have hiB := pow_le_one_add_two_mul hu0 (2 * S + 2) (by rw [c2]; norm_num; nlinarith)
  have loA := one_sub_mul_le_pow hu0 hu1 (S + 3)
  have loB := one_sub_mul_le_pow hu0 hu1 (2 * S + 2)
  rw [c1] at hiA loA
  rw [c2] at hiB loB
  have hBpos : (0 : Rat) < (1 - 1 / 2 ^ 53) ^ (2 * S + 2) := pow_pos (by norm_num) _
  have hB'pos : (0 : Rat) < (1 + 1 / 2 ^ 53) ^ (2 * S + 2) := pow_pos (by norm_num) _
  constructor
  · rw [div_le_iff₀ hBpos]
    have : (1 : Rat) + 2 * ((S : Rat) + 3) * (1 / 2 ^ 53) ≤ (1 + 1 / 10 ^ 9) * (1 - (2 * (S : Rat) + 2) * (1 / 2 ^ 53)) := by
      norm_num; nlinarith
    calc _ ≤ (1 : Rat) + 2 * ((S : Rat) + 3) * (1 / 2 ^ 53) := hiA
      _ ≤ (1 + 1 / 10 ^ 9) * (1 - (2 * (S : Rat) + 2) * (1 / 2 ^ 53)) := this
      _ ≤ _ := mul_le_mul_of_nonneg_left loB (by norm_num)
  · rw [le_div_iff₀ hB'pos]
    have : (1 - 1 / 10 ^ 9) * (1 + 2 * (2 * (S : Rat) + 2) * (1 / 2 ^ 53)) ≤ (1 : Rat) - ((S : Rat) + 3) * (1 / 2 ^ 53) := by
      norm_num; nlinarith
    calc (1 - 1 / 10 ^ 9) * (1 + 1 / 2 ^ 53) ^ (2 * S + 2)
        ≤ (1 - 1 / 10 ^ 9) * (1 + 2 * (2 * (S : Rat) + 2) * (1 / 2 ^ 53)) := mul_le_mul_of_nonneg_left hiB (by norm_num)
      _ ≤ (1 : Rat) - ((S : Rat) + 3) * (1 / 2 ^ 53) := this
      _ ≤ _ := loA

/-- (test on literals) for the largest model the harness generates (S = 24) and `u = 2^-53`
    the two factors of `updateFl_enclosure` are within `10^-9` of 1 -/
example : ((1:Rat) + 1/2^53)^(24+3) / (1 - 1/2^53)^(2*24+2) ≤ 1 + 1/10^9 := by norm_num
example : 1 - 1/10^9 ≤ ((1:Rat) - 1/2^53)^(24+3) / (1 + 1/2^53)^(2*24+2) := by norm_num

end AITB.Belief
