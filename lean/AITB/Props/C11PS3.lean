/-
  AITB.Props.C11PS3 — PrioritizedSweeping with `setQFunction` among the client's operations (round 3).

  `PrioritizedSweeping::setQFunction(q)` replaces `qfun_` ONLY: `vfun_` keeps the row maxima of the old table and the
  queue keeps its entries.  `ps_fixed_point` (round 1) starts from the constructor's state and its invariant demands
  `V(x) = max_a Q(x,a)` for EVERY state, which is false right after `setQFunction`.  The documented contract survives,
  with "every pair has been backed up" read as "backed up since the last `setQFunction`":

    `ps_fixed_point_setq`  θ = 0, ANY start state with a well-formed queue (arbitrary table, arbitrary stale value function),
       any interleaving of `stepUpdateQ`, `batchUpdateQ` (any pop order) and `setQFunction`: queue empty ∧ every pair backed
       up since the last replacement ⇒ `Q = R + γ T max Q` on all of S×A.

  The invariant is the round-1 one with `vmax` weakened to the states that own a backed-up pair (`InvW`).
-/
import AITB.Props.C11PS

namespace AITB.Learn

/-- the operations a client can perform on PrioritizedSweeping, `setQFunction` included -/
inductive PSOp3 where
  | step (s a : Nat)
  | batch (n : Nat) (sel : List QE → Nat)
  | setQ (q0 : QF)

/-- `setQFunction(q0)`: `qfun_ = q0`; `vfun_`, `queue_`, `queueHandles_` untouched.
    Ghost field: no pair counts as backed up any more. -/
def psSetQ (st : PS) (q0 : QF) : PS := { st with q := q0, done := [] }

def psApply3 (m : MDP) (θ : Rat) (st : PS) : PSOp3 → PS
  | .step s a => psStep m θ st s a
  | .batch n sel => psBatch m θ sel n st
  | .setQ q0 => psSetQ st q0

def psRun3 (m : MDP) (θ : Rat) (ops : List PSOp3) (st0 : PS) : PS := ops.foldl (psApply3 m θ) st0

def PSOp3.valid (m : MDP) : PSOp3 → Prop
  | .step s a => s < m.S ∧ a < m.A
  | .batch _ _ => True
  | .setQ _ => True

/-- the round-1 invariant with `vmax` restricted to states that own a backed-up pair -/
structure InvW (m : MDP) (st : PS) : Prop where
  qok : QOk m st.queue
  dok : ∀ x y, (x, y) ∈ st.done → x < m.S ∧ y < m.A
  vmax : ∀ x y, (x, y) ∈ st.done → st.v x = maxA m.A (st.q x)
  fresh : ∀ x y, (x, y) ∈ st.done → Fresh m st.q st.v x y ∨ inQueue st.queue x y = true

/-- any state whose ghost list is empty and whose queue entries are in range satisfies the invariant:
    arbitrary table, arbitrary (stale) value function -/
theorem invW_of_done_nil (m : MDP) (st : PS) (hq : QOk m st.queue) (hd : st.done = []) : InvW m st where
  qok := hq
  dok := by intro x y h; rw [hd] at h; cases h
  vmax := by intro x y h; rw [hd] at h; cases h
  fresh := by intro x y h; rw [hd] at h; cases h

theorem psStep_invW (m : MDP) (hT : ∀ s a s1, 0 ≤ m.T s a s1) (st : PS) (s a : Nat)
    (hs : s < m.S) (ha : a < m.A)
    (hqok : QOk m st.queue)
    (hdok : ∀ x y, (x, y) ∈ st.done → x < m.S ∧ y < m.A)
    (hvmax : ∀ x y, (x, y) ∈ st.done → st.v x = maxA m.A (st.q x))
    (hfresh : ∀ x y, (x, y) ∈ st.done →
      Fresh m st.q st.v x y ∨ inQueue st.queue x y = true ∨ (x = s ∧ y = a)) :
    InvW m (psStep m 0 st s a) where
  qok := parentLoop_ok m _ _ _ _ hqok
  dok := by
    intro x y h
    simp only [psStep, List.mem_cons, Prod.mk.injEq] at h
    rcases h with ⟨rfl, rfl⟩ | h
    · exact ⟨hs, ha⟩
    · exact hdok x y h
  vmax := by
    intro x y h
    simp only [psStep, List.mem_cons, Prod.mk.injEq] at h
    simp only [psStep]
    by_cases hx : x = s
    · subst hx; simp
    · rw [if_neg hx, upd_row_ne _ _ _ _ _ hx]
      rcases h with ⟨h1, _⟩ | h
      · exact absurd h1 hx
      · exact hvmax x y h
  fresh := by
    intro x y h
    simp only [psStep, List.mem_cons, Prod.mk.injEq] at h
    simp only [psStep]
    have hself : Fresh m (upd st.q s a (m.R s a + sumTo m.S (fun s1 => m.T s a s1 * (st.v s1 * m.γ))))
        st.v s a := by
      simp [Fresh, upd]
    have hxy : x < m.S ∧ y < m.A := by
      rcases h with ⟨rfl, rfl⟩ | h
      · exact ⟨hs, ha⟩
      · exact hdok x y h
    by_cases hsa : x = s ∧ y = a
    · obtain ⟨rfl, rfl⟩ := hsa
      exact step_pair m hT _ st.v _ st.queue x x y hs hs ha hself
    · have hold : Fresh m st.q st.v x y ∨ inQueue st.queue x y = true := by
        rcases h with h | h
        · exact absurd h hsa
        · rcases hfresh x y h with h1 | h1 | h1
          · exact Or.inl h1
          · exact Or.inr h1
          · exact absurd h1 hsa
      rcases hold with h1 | h1
      · apply step_pair m hT _ st.v _ st.queue s x y hs hxy.1 hxy.2
        unfold Fresh at h1 ⊢
        simp only [upd, if_neg hsa]
        exact h1
      · exact Or.inr (parentLoop_mono m _ _ _ _ x y h1)

theorem psBatch_invW (m : MDP) (hT : ∀ s a s1, 0 ≤ m.T s a s1) (sel : List QE → Nat) (n : Nat)
    (st : PS) (h : InvW m st) : InvW m (psBatch m 0 sel n st) := by
  induction n generalizing st with
  | zero => exact h
  | succ n ih =>
    unfold psBatch
    split
    · exact h
    · rename_i e he
      apply ih
      have hmem : e ∈ st.queue := List.mem_of_getElem? he
      have hin := h.qok e hmem
      apply psStep_invW m hT _ e.s e.a hin.1 hin.2
      · intro e' he'
        exact h.qok e' (mem_of_mem_removeAt _ _ _ he')
      · exact h.dok
      · exact h.vmax
      · intro x y hxy
        rcases h.fresh x y hxy with h1 | h1
        · exact Or.inl h1
        · by_cases hne : x = e.s ∧ y = e.a
          · exact Or.inr (Or.inr hne)
          · exact Or.inr (Or.inl (removeAt_inQueue _ _ e x y he h1 hne))

theorem psApply3_invW (m : MDP) (hT : ∀ s a s1, 0 ≤ m.T s a s1) (st : PS) (op : PSOp3)
    (hv : op.valid m) (h : InvW m st) : InvW m (psApply3 m 0 st op) := by
  cases op with
  | step s a =>
    exact psStep_invW m hT st s a hv.1 hv.2 h.qok h.dok h.vmax
      (fun x y hxy => (h.fresh x y hxy).elim Or.inl (fun h1 => Or.inr (Or.inl h1)))
  | batch n sel => exact psBatch_invW m hT sel n st h
  | setQ q0 => exact invW_of_done_nil m (psSetQ st q0) h.qok rfl

theorem psRun3_invW (m : MDP) (hT : ∀ s a s1, 0 ≤ m.T s a s1) (ops : List PSOp3)
    (hv : ∀ op ∈ ops, op.valid m) (st0 : PS) (h0 : InvW m st0) : InvW m (psRun3 m 0 ops st0) := by
  unfold psRun3
  exact ps_foldl_inv (InvW m) (psApply3 m 0) ops st0
    (fun st op hop hst => psApply3_invW m hT st op (hv op hop) hst) h0

theorem sumTo_congr_lt (n : Nat) (f g : Nat → Rat) (h : ∀ i, i < n → f i = g i) : sumTo n f = sumTo n g := by
  induction n with
  | zero => rfl
  | succ n ih => rw [sumTo, sumTo, ih (fun i hi => h i (by omega)), h n (by omega)]

/-- **C11 (PrioritizedSweeping), with `setQFunction`.**  Threshold 0; any start state whose queue entries are in range
    (arbitrary table, arbitrary stale value function); any interleaving of `stepUpdateQ`, `batchUpdateQ` (any pop order) and
    `setQFunction`: if the queue has drained and every pair has been backed up since the last `setQFunction`
    (the ghost list `done` is emptied by it), the table satisfies the Bellman optimality equation on all of `S × A`. -/
theorem ps_fixed_point_setq (m : MDP) (hT : ∀ s a s1, 0 ≤ m.T s a s1) (hA : 0 < m.A)
    (st0 : PS) (hq0 : QOk m st0.queue) (hd0 : st0.done = [])
    (ops : List PSOp3) (hv : ∀ op ∈ ops, op.valid m)
    (hempty : (psRun3 m 0 ops st0).queue = [])
    (hall : ∀ s a, s < m.S → a < m.A → (s, a) ∈ (psRun3 m 0 ops st0).done) :
    ∀ s a, s < m.S → a < m.A →
      (psRun3 m 0 ops st0).q s a
        = m.R s a + m.γ * sumTo m.S (fun s1 => m.T s a s1 * maxA m.A ((psRun3 m 0 ops st0).q s1)) := by
  intro s a hs ha
  have hinv := psRun3_invW m hT ops hv st0 (invW_of_done_nil m st0 hq0 hd0)
  rcases hinv.fresh s a (hall s a hs ha) with h | h
  · unfold Fresh at h
    rw [h, sumTo_pull]
    congr 2
    apply sumTo_congr_lt
    intro s1 hs1
    rw [hinv.vmax s1 0 (hall s1 0 hs1 hA)]
  · rw [hempty] at h
    simp [inQueue] at h

/-- the round-1 run is the special case without `setQFunction`, from the constructor's state -/
theorem psRun3_of_psRun (m : MDP) (θ : Rat) (ops : List PSOp) :
    psRun3 m θ (ops.map (fun o => match o with | .step s a => PSOp3.step s a | .batch n sel => PSOp3.batch n sel)) PS.init
      = psRun m θ ops := by
  unfold psRun3 psRun
  generalize PS.init = st
  induction ops generalizing st with
  | nil => rfl
  | cons o os ih =>
    simp only [List.map_cons, List.foldl_cons]
    cases o <;> exact ih _

/-! ### the hypotheses are satisfiable and the stale value function matters (kernel evaluations) -/
namespace PSTest3
open PSTest

/-- a table far from Q*, installed before anything else; the value function stays at zero -/
def q0 : QF := fun s a => if s = 0 ∧ a = 0 then 7 else if s = 1 then -3 else 5

def exOps3 : List PSOp3 := [.setQ q0, .step 0 0, .step 0 1, .step 1 0, .step 1 1, .batch 100 topIdx]

theorem ex3_valid : ∀ op ∈ exOps3, op.valid exM := by
  intro op hop
  simp only [exOps3, List.mem_cons, List.not_mem_nil, or_false] at hop
  rcases hop with rfl | rfl | rfl | rfl | rfl | rfl <;> simp [PSOp3.valid, exM]

/-- right after `setQFunction` the round-1 invariant `V = row max of Q` is false (so `ps_fixed_point` does not apply) -/
theorem ex3_stale : (psRun3 exM 0 (exOps3.take 1) PS.init).v 0 ≠ maxA exM.A ((psRun3 exM 0 (exOps3.take 1) PS.init).q 0) := by
  decide +kernel

theorem ex3_empty : (psRun3 exM 0 exOps3 PS.init).queue = [] :=
  List.isEmpty_iff.mp (by decide +kernel)

theorem ex3_all : ∀ s a, s < exM.S → a < exM.A → (s, a) ∈ (psRun3 exM 0 exOps3 PS.init).done := by
  intro s a hs ha
  have hs' : s < 2 := hs
  have ha' : a < 2 := ha
  have : s = 0 ∨ s = 1 := by omega
  have : a = 0 ∨ a = 1 := by omega
  rcases ‹s = 0 ∨ s = 1› with rfl | rfl <;> rcases ‹a = 0 ∨ a = 1› with rfl | rfl <;> decide +kernel

example : ∀ s a, s < exM.S → a < exM.A →
    (psRun3 exM 0 exOps3 PS.init).q s a
      = exM.R s a + exM.γ * sumTo exM.S (fun s1 => exM.T s a s1 * maxA exM.A ((psRun3 exM 0 exOps3 PS.init).q s1)) :=
  ps_fixed_point_setq exM exT_nonneg (by decide) PS.init (by intro e he; cases he) rfl exOps3 ex3_valid ex3_empty ex3_all

/-- and the table is again Q* = [[2,1],[2,1]] -/
example : toRows 2 2 (psRun3 exM 0 exOps3 PS.init).q = [[2, 1], [2, 1]] := by decide +kernel

end PSTest3

end AITB.Learn
