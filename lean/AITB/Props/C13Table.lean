/-
  AITB.Props.C13Table — table-level VariableElimination (`tveRun`, the data structure the code manipulates):
  one `removeFactor` step satisfies the same two invariants as the semantic step, read through the code's own
  `lower_bound` lookups; hence the VALUE `tveRun` reports is the exhaustive maximum.
-/
import AITB.Props.C13

namespace AITB.VE
open AITB.Factored

def finalsVal : List (Rat × List (Nat × Nat)) → Rat
  | [] => 0
  | f :: fs => f.1 + finalsVal fs

def stVal (A a : List Nat) (st : TState) : Rat := graphVal A a st.graph + finalsVal st.finals

theorem finalsVal_append (fs : List (Rat × List (Nat × Nat))) (f : Rat × List (Nat × Nat)) :
    finalsVal (fs ++ [f]) = finalsVal fs + f.1 := by
  induction fs with
  | nil => simp [finalsVal]
  | cons g gs ih => simp only [List.cons_append, finalsVal, ih]; ring

theorem graphVal_append (A a : List Nat) : ∀ (g h : List TNode), graphVal A a (g ++ h) = graphVal A a g + graphVal A a h
  | [], h => by simp [graphVal]
  | nd :: g, h => by simp only [List.cons_append, graphVal, graphVal_append A a g h]; ring

/-- `crossSum` over the adjacent factors adds up exactly what the lookups find -/
theorem crossAll_val (A : List Nat) (n : Nat) (x : Asg) : ∀ (fs : List TNode) (acc : Rat × List (Nat × Nat)),
    (crossAll A n x fs acc).1 = acc.1 + graphVal A (listOf n x) fs
  | [], acc => by simp [crossAll, graphVal]
  | nd :: fs, acc => by
    simp only [crossAll, graphVal, nodeVal]
    cases h : lookup (toIndexPartial nd.keys A (listOf n x)) nd.rules with
    | none => simp only [valOf]; rw [crossAll_val A n x fs acc]; ring
    | some r => simp only [valOf]; rw [crossAll_val A n x fs _]; ring

section step
variable (A : List Nat) (n : Nat) (nb jv : List Nat) (v : Nat) (factors : List TNode)

/-- value of the cross-sum for action `k` of the eliminated agent -/
def cv (k : Nat) : Rat := graphVal A (listOf n (jvAsg nb jv v k)) factors

/-- invariant of the loop over the agent's actions: the running best is the first maximum so far -/
def BestInv (k : Nat) (best : Option (Rat × List (Nat × Nat))) : Prop :=
  (k = 0 ∧ best = none) ∨
  (∃ b, best = some b ∧ (∀ i, i < k → cv A n nb jv v factors i ≤ b.1) ∧ ∃ i, i < k ∧ b.1 = cv A n nb jv v factors i)

def nextBest (best : Option (Rat × List (Nat × Nat))) (c : Rat × List (Nat × Nat)) : Option (Rat × List (Nat × Nat)) :=
  match best with
  | none => some c
  | some b => if b.1 < c.1 then some c else some b

theorem bestOver_succ (cnt k : Nat) (best : Option (Rat × List (Nat × Nat))) :
    bestOver A n nb jv v factors (cnt+1) k best
      = bestOver A n nb jv v factors cnt (k+1) (nextBest best (crossAll A n (jvAsg nb jv v k) factors (0, [(v, k)]))) := by
  cases best <;> rfl

theorem bestOver_inv : ∀ (cnt k : Nat) (best : Option (Rat × List (Nat × Nat))),
    BestInv A n nb jv v factors k best → BestInv A n nb jv v factors (k + cnt) (bestOver A n nb jv v factors cnt k best)
  | 0, k, best, h => by simpa [bestOver] using h
  | cnt+1, k, best, h => by
    rw [bestOver_succ]
    have hc : (crossAll A n (jvAsg nb jv v k) factors (0, [(v, k)])).1 = cv A n nb jv v factors k := by
      rw [crossAll_val]; simp [cv]
    have hnext : BestInv A n nb jv v factors (k+1)
        (nextBest best (crossAll A n (jvAsg nb jv v k) factors (0, [(v, k)]))) := by
      rcases h with ⟨hk, hb⟩ | ⟨b, hb, hle, i, hi, hbi⟩
      · subst hk; subst hb
        refine Or.inr ⟨_, rfl, ?_, 0, by omega, hc⟩
        intro i hi
        have : i = 0 := by omega
        subst this; rw [hc]
      · subst hb
        simp only [nextBest]
        by_cases hlt : b.1 < (crossAll A n (jvAsg nb jv v k) factors (0, [(v, k)])).1
        · simp only [hlt, if_true]
          refine Or.inr ⟨_, rfl, ?_, k, by omega, hc⟩
          intro j hj
          rcases Nat.lt_or_ge j k with h1 | h1
          · exact le_of_lt (lt_of_le_of_lt (hle j h1) hlt)
          · have : j = k := by omega
            subst this; rw [hc]
        · simp only [hlt, if_false]
          refine Or.inr ⟨b, rfl, ?_, i, by omega, hbi⟩
          intro j hj
          rcases Nat.lt_or_ge j k with h1 | h1
          · exact hle j h1
          · have : j = k := by omega
            subst this; rw [← hc]; exact not_lt.mp hlt
    have := bestOver_inv cnt (k+1) _ hnext
    have e : k + (cnt + 1) = k + 1 + cnt := by omega
    rw [e]; exact this

/-- the new factor's value for one joint value of the neighbours (0 if the agent had no action at all) -/
def bestVal : Rat :=
  match bestOver A n nb jv v factors (A.getD v 0) 0 none with
  | some b => b.1
  | none => 0

theorem bestVal_spec (hpos : 0 < A.getD v 0) :
    (∃ b, bestOver A n nb jv v factors (A.getD v 0) 0 none = some b ∧ b.1 = bestVal A n nb jv v factors) ∧
    (∀ i, i < A.getD v 0 → cv A n nb jv v factors i ≤ bestVal A n nb jv v factors) ∧
    ∃ i, i < A.getD v 0 ∧ bestVal A n nb jv v factors = cv A n nb jv v factors i := by
  have h := bestOver_inv A n nb jv v factors (A.getD v 0) 0 none (Or.inl ⟨rfl, rfl⟩)
  simp only [Nat.zero_add] at h
  rcases h with ⟨h0, _⟩ | ⟨b, hb, hle, i, hi, hbi⟩
  · omega
  · have : bestVal A n nb jv v factors = b.1 := by unfold bestVal; rw [hb]
    exact ⟨⟨b, hb, this.symm⟩, by rw [this]; exact hle, i, hi, by rw [this]; exact hbi⟩

end step

/-! ### the loop over the neighbours' joint values -/

theorem filter_addToNode (v : Nat) (keys : List Nat) (nr : TRule) (hv : keys.contains v = false) : ∀ (g : List TNode),
    (addToNode keys nr g).filter (fun nd => nd.keys.contains v) = g.filter (fun nd => nd.keys.contains v)
  | [] => by simp only [addToNode, List.filter, hv]
  | nd :: g => by
    simp only [addToNode]
    by_cases h : nd.keys = keys
    · subst h
      simp only [beq_self_eq_true, if_true, List.filter, hv]
    · have h' : (nd.keys == keys) = false := by simpa using h
      simp only [h', Bool.false_eq_true, if_false, List.filter, filter_addToNode v keys nr hv g]

section loop
variable (A : List Nat) (n : Nat) (nb : List Nat) (v : Nat) (factors : List TNode)

/-- value of the new rule created for the joint value with index `j` -/
def bvAt (j : Nat) : Rat := bestVal A n nb (toFactors (sel nb A) j) v factors

/-- contribution, at the joint action whose neighbour index is `jstar`, of the rules created for `j0 … j0+cnt-1` -/
def sumHit (jstar : Nat) : Nat → Nat → Rat
  | _, 0 => 0
  | j0, cnt+1 => (if jstar = j0 then bvAt A n nb v factors j0 else 0) + sumHit jstar (j0+1) cnt

theorem sumHit_eq (jstar : Nat) : ∀ (j0 cnt : Nat),
    sumHit A n nb v factors jstar j0 cnt = if j0 ≤ jstar ∧ jstar < j0 + cnt then bvAt A n nb v factors jstar else 0
  | j0, 0 => by simp [sumHit]
  | j0, cnt+1 => by
    simp only [sumHit, sumHit_eq jstar (j0+1) cnt]
    by_cases h : jstar = j0
    · subst h; simp
    · by_cases h2 : j0 ≤ jstar ∧ jstar < j0 + (cnt + 1)
      · have h3 : j0 + 1 ≤ jstar ∧ jstar < j0 + 1 + cnt := by omega
        simp [h, h2, h3]
      · have h3 : ¬ (j0 + 1 ≤ jstar ∧ jstar < j0 + 1 + cnt) := by omega
        simp [h, h2, h3]

theorem removeLoop_succ (cnt jvID : Nat) (st : TState) :
    removeLoop A n nb v factors (cnt+1) jvID st
      = removeLoop A n nb v factors cnt (jvID+1)
          (match bestOver A n nb (toFactors (sel nb A) jvID) v factors (A.getD v 0) 0 none with
            | none => st
            | some nf => if nb.isEmpty then { st with finals := st.finals ++ [nf] }
                         else { st with graph := addToNode nb ⟨jvID, nf.1, nf.2⟩ st.graph }) := rfl

/-- neighbours non-empty: the rules are merged into the node of the neighbours; nodes adjacent to `v` are untouched -/
theorem removeLoop_graph (a : List Nat) (hpos : 0 < A.getD v 0) (hne : nb.isEmpty = false) (hv : nb.contains v = false) :
    ∀ (cnt j0 : Nat) (st : TState),
      graphVal A a (removeLoop A n nb v factors cnt j0 st).graph
        = graphVal A a st.graph + sumHit A n nb v factors (toIndexPartial nb A a) j0 cnt ∧
      (removeLoop A n nb v factors cnt j0 st).finals = st.finals ∧
      (removeLoop A n nb v factors cnt j0 st).graph.filter (fun nd => nd.keys.contains v)
        = st.graph.filter (fun nd => nd.keys.contains v)
  | 0, j0, st => by simp [removeLoop, sumHit]
  | cnt+1, j0, st => by
    rw [removeLoop_succ]
    obtain ⟨⟨b, hb, hbv⟩, _, _⟩ := bestVal_spec A n nb (toFactors (sel nb A) j0) v factors hpos
    rw [hb]
    simp only [hne, Bool.false_eq_true, if_false]
    obtain ⟨h1, h2, h3⟩ := removeLoop_graph a hpos hne hv cnt (j0+1) { st with graph := addToNode nb ⟨j0, b.1, b.2⟩ st.graph }
    refine ⟨?_, h2, ?_⟩
    · rw [h1, graphVal_addToNode]
      simp only [sumHit, bvAt, ← hbv]; ring
    · rw [h3]; exact filter_addToNode v nb _ hv st.graph

/-- no neighbours: the single new factor is final -/
theorem removeLoop_final (hpos : 0 < A.getD v 0) (hne : nb.isEmpty = true) (st : TState) :
    (removeLoop A n nb v factors 1 0 st).graph = st.graph ∧
    finalsVal (removeLoop A n nb v factors 1 0 st).finals = finalsVal st.finals + bvAt A n nb v factors 0 := by
  rw [removeLoop_succ]
  obtain ⟨⟨b, hb, hbv⟩, _, _⟩ := bestVal_spec A n nb (toFactors (sel nb A) 0) v factors hpos
  rw [hb]
  simp only [hne, if_true, removeLoop, finalsVal_append, bvAt, ← hbv, and_self]

end loop

/-! ### lists as joint actions -/

theorem getD_setAt : ∀ (a : List Nat) (v k u : Nat), v < a.length →
    (setAt a v k).getD u 0 = if u = v then k else a.getD u 0
  | [], v, k, u, h => by simp at h
  | x :: xs, 0, k, u, _ => by
    cases u with
    | zero => simp [setAt]
    | succ u => simp [setAt]
  | x :: xs, v+1, k, u, h => by
    cases u with
    | zero => simp [setAt]
    | succ u =>
      have := getD_setAt xs v k u (by simpa using h)
      simp only [setAt, List.getD_cons_succ, this]
      by_cases e : u = v <;> simp [e]

theorem length_setAt : ∀ (a : List Nat) (v k : Nat), (setAt a v k).length = a.length
  | [], _, _ => rfl
  | _ :: _, 0, _ => rfl
  | x :: xs, v+1, k => by simp [setAt, length_setAt xs v k]

theorem sel_congr (keys l1 l2 : List Nat) (h : ∀ u ∈ keys, l1.getD u 0 = l2.getD u 0) : sel keys l1 = sel keys l2 := by
  simp only [sel]
  exact List.map_congr_left h

theorem nodeVal_congr (A l1 l2 : List Nat) (nd : TNode) (h : ∀ u ∈ nd.keys, l1.getD u 0 = l2.getD u 0) :
    nodeVal A l1 nd = nodeVal A l2 nd := by
  simp only [nodeVal, toIndexPartial, sel_congr nd.keys l1 l2 h]

theorem graphVal_congr (A l1 l2 : List Nat) : ∀ (g : List TNode),
    (∀ nd ∈ g, ∀ u ∈ nd.keys, l1.getD u 0 = l2.getD u 0) → graphVal A l1 g = graphVal A l2 g
  | [], _ => rfl
  | nd :: g, h => by
    simp only [graphVal]
    rw [nodeVal_congr A l1 l2 nd (h nd (List.mem_cons_self ..)),
        graphVal_congr A l1 l2 g (fun nd' hnd' => h nd' (List.mem_cons_of_mem _ hnd'))]

theorem graphVal_filter_split (A a : List Nat) (p : TNode → Bool) : ∀ (g : List TNode),
    graphVal A a g = graphVal A a (g.filter p) + graphVal A a (g.filter (fun nd => !p nd))
  | [] => by simp [graphVal]
  | nd :: g => by
    by_cases h : p nd = true
    · simp only [List.filter, h, Bool.not_true, graphVal, graphVal_filter_split A a p g]; ring
    · have h' : p nd = false := by simpa using h
      simp only [List.filter, h', Bool.not_false, graphVal, graphVal_filter_split A a p g]; ring

theorem find_zip_sel (a : List Nat) (u : Nat) : ∀ (nb : List Nat), u ∈ nb →
    (nb.zip (sel nb a)).find? (fun p => p.1 == u) = some (u, a.getD u 0)
  | [], h => by simp at h
  | w :: nb, h => by
    simp only [sel, List.map_cons, List.zip_cons_cons, List.find?]
    by_cases e : w = u
    · subst e; simp
    · have e' : (w == u) = false := by simpa using e
      simp only [e']
      have hu : u ∈ nb := by
        rcases List.mem_cons.mp h with h | h
        · exact absurd h.symm e
        · exact h
      exact find_zip_sel a u nb hu

theorem mem_nbrs (n v u : Nat) (scopes : List (List Nat)) :
    u ∈ nbrs n v scopes ↔ u < n ∧ u ≠ v ∧ ∃ s ∈ scopes, v ∈ s ∧ u ∈ s := by
  simp only [nbrs, List.mem_filter, List.mem_range, Bool.and_eq_true, bne_iff_ne, ne_eq, List.any_eq_true,
             List.contains_iff_mem]

theorem nbrs_not_self (n v : Nat) (scopes : List (List Nat)) : (nbrs n v scopes).contains v = false := by
  rw [Bool.eq_false_iff]
  intro h
  have := (mem_nbrs n v v scopes).mp (List.contains_iff_mem.mp h)
  exact this.2.1 rfl

/-! ### one `removeFactor` at table level -/

/-- every node key names an agent below `n` -/
def GKeys (n : Nat) (g : List TNode) : Prop := ∀ nd ∈ g, ∀ u ∈ nd.keys, u < n

theorem toIndexPartial_lt (A a nb : List Nat) (ha : Valid A a) (hnb : ∀ u ∈ nb, u < A.length) :
    toIndexPartial nb A a < spacePartial nb A := by
  have := (toFactors_toIndexLoop _ _ (valid_sel A a ha nb hnb)).2
  simpa [toIndexPartial, spacePartial] using this

theorem removeVar_val (A a : List Nat) (v : Nat) (st : TState) (ha : Valid A a) (hpos : 0 < A.getD v 0) :
    stVal A a (removeVar A A.length v st)
      = graphVal A a (st.graph.filter (fun nd => !nd.keys.contains v)) + finalsVal st.finals
        + bvAt A A.length (nbrs A.length v (st.graph.map (·.keys))) v (st.graph.filter (fun nd => nd.keys.contains v))
            (toIndexPartial (nbrs A.length v (st.graph.map (·.keys))) A a) := by
  obtain ⟨nb, hnb⟩ : ∃ nb, nb = nbrs A.length v (st.graph.map (·.keys)) := ⟨_, rfl⟩
  obtain ⟨factors, hfac⟩ : ∃ f, f = st.graph.filter (fun nd => nd.keys.contains v) := ⟨_, rfl⟩
  have hnv : nb.contains v = false := by rw [hnb]; exact nbrs_not_self _ _ _
  have hnbn : ∀ u ∈ nb, u < A.length := by
    intro u hu; rw [hnb] at hu; exact ((mem_nbrs _ _ _ _).mp hu).1
  simp only [removeVar, stVal, ← hnb, ← hfac]
  by_cases hne : nb.isEmpty = true
  · have hnil : nb = [] := List.isEmpty_iff.mp hne
    have hcnt : spacePartial nb A = 1 := by rw [hnil]; simp [spacePartial, sel, space]
    have hj : toIndexPartial nb A a = 0 := by rw [hnil]; simp [toIndexPartial, sel, toIndexLoop]
    simp only [hne, Bool.true_or, if_true, hcnt, hj]
    obtain ⟨h1, h2⟩ := removeLoop_final A A.length nb v factors hpos hne { st with graph := st.graph }
    rw [h1, h2]; ring
  · have hne' : nb.isEmpty = false := by simpa using hne
    obtain ⟨g, hg⟩ : ∃ g, g = (if nb.isEmpty || st.graph.any (fun nd => nd.keys == nb) then st.graph else st.graph ++ [⟨nb, []⟩]) := ⟨_, rfl⟩
    rw [← hg]
    have hgv : graphVal A a g = graphVal A a st.graph := by
      rw [hg]; split
      · rfl
      · rw [graphVal_append]; simp [graphVal, nodeVal, lookup, valOf]
    have hgf : g.filter (fun nd => nd.keys.contains v) = st.graph.filter (fun nd => nd.keys.contains v) := by
      rw [hg]; split
      · rfl
      · rw [List.filter_append]; simp only [List.filter, hnv, List.append_nil]
    obtain ⟨h1, h2, h3⟩ := removeLoop_graph A A.length nb v factors a hpos hne' hnv (spacePartial nb A) 0 { st with graph := g }
    have hlt := toIndexPartial_lt A a nb ha hnbn
    rw [sumHit_eq] at h1
    have hin : 0 ≤ toIndexPartial nb A a ∧ toIndexPartial nb A a < 0 + spacePartial nb A := ⟨Nat.zero_le _, by omega⟩
    simp only [hin, and_self, if_true] at h1
    have s1 := graphVal_filter_split A a (fun nd => nd.keys.contains v)
      (removeLoop A A.length nb v factors (spacePartial nb A) 0 { st with graph := g }).graph
    have s2 := graphVal_filter_split A a (fun nd => nd.keys.contains v) st.graph
    rw [h3] at s1
    simp only at h1 h2 h3 s1
    rw [h2]
    rw [hgf] at s1
    rw [hgv] at h1
    linarith

theorem valid_len (A a : List Nat) (ha : Valid A a) : a.length = A.length := valid_length A a ha

/-- the cross-sum computed for the joint value with the index of `a`'s neighbour actions is the
    graph value of the adjacent nodes at `a[v := k]` -/
theorem cv_eq_setAt (A a : List Nat) (v k : Nat) (g : List TNode) (ha : Valid A a) (hv : v < A.length)
    (hk : GKeys A.length g) :
    cv A A.length (nbrs A.length v (g.map (·.keys)))
        (toFactors (sel (nbrs A.length v (g.map (·.keys))) A) (toIndexPartial (nbrs A.length v (g.map (·.keys))) A a))
        v (g.filter (fun nd => nd.keys.contains v)) k
      = graphVal A (setAt a v k) (g.filter (fun nd => nd.keys.contains v)) := by
  obtain ⟨nb, hnb⟩ : ∃ nb, nb = nbrs A.length v (g.map (·.keys)) := ⟨_, rfl⟩
  rw [← hnb]
  have hnbn : ∀ u ∈ nb, u < A.length := by
    intro u hu; rw [hnb] at hu; exact ((mem_nbrs _ _ _ _).mp hu).1
  have hjv : toFactors (sel nb A) (toIndexPartial nb A a) = sel nb a :=
    (toFactors_toIndexLoop _ _ (valid_sel A a ha nb hnbn)).1
  rw [hjv]
  unfold cv
  apply graphVal_congr
  intro nd hnd u hu
  obtain ⟨hndg, hndv⟩ := List.mem_filter.mp hnd
  have hun : u < A.length := hk nd hndg u hu
  have hl := asgOf_listOf A.length (jvAsg nb (sel nb a) v k) u hun
  simp only [asgOf] at hl
  rw [hl, getD_setAt a v k u (by rw [valid_len A a ha]; exact hv)]
  by_cases e : u = v
  · simp [jvAsg, e]
  · have hunb : u ∈ nb := by
      rw [hnb, mem_nbrs]
      exact ⟨hun, e, nd.keys, List.mem_map.mpr ⟨nd, hndg, rfl⟩, List.contains_iff_mem.mp hndv, hu⟩
    simp only [jvAsg, e, if_false, find_zip_sel a u nb hunb]

theorem graphVal_setAt_rest (A a : List Nat) (v k : Nat) (g : List TNode) (hv : v < a.length) :
    graphVal A (setAt a v k) (g.filter (fun nd => !nd.keys.contains v))
      = graphVal A a (g.filter (fun nd => !nd.keys.contains v)) := by
  apply graphVal_congr
  intro nd hnd u hu
  have hnv := (List.mem_filter.mp hnd).2
  have : u ≠ v := by
    intro e; subst e
    have : nd.keys.contains u = true := List.contains_iff_mem.mpr hu
    simp at hnv
    exact hnv hu
  rw [getD_setAt a v k u hv]; simp [this]

/-- table-level I1: a `removeFactor` never decreases the value read from the state at an in-range joint action -/
theorem removeVar_ge (A a : List Nat) (v : Nat) (st : TState) (ha : Valid A a) (hv : v < A.length)
    (hpos : 0 < A.getD v 0) (hk : GKeys A.length st.graph) :
    stVal A a st ≤ stVal A a (removeVar A A.length v st) := by
  rw [removeVar_val A a v st ha hpos]
  obtain ⟨_, hle, _⟩ := bestVal_spec A A.length (nbrs A.length v (st.graph.map (·.keys)))
    (toFactors (sel (nbrs A.length v (st.graph.map (·.keys))) A) (toIndexPartial (nbrs A.length v (st.graph.map (·.keys))) A a))
    v (st.graph.filter (fun nd => nd.keys.contains v)) hpos
  have hav : a.getD v 0 < A.getD v 0 := ((valid_iff_getD A a).mp ha).2 v hv
  have h1 := hle (a.getD v 0) hav
  rw [cv_eq_setAt A a v _ st.graph ha hv hk] at h1
  have h2 : graphVal A (setAt a v (a.getD v 0)) (st.graph.filter (fun nd => nd.keys.contains v))
      = graphVal A a (st.graph.filter (fun nd => nd.keys.contains v)) := by
    apply graphVal_congr
    intro nd _ u _
    rw [getD_setAt a v _ u (by rw [valid_len A a ha]; exact hv)]
    by_cases e : u = v <;> simp [e]
  rw [h2] at h1
  have s2 := graphVal_filter_split A a (fun nd => nd.keys.contains v) st.graph
  simp only [stVal, bvAt] at *
  linarith

/-- table-level I2: some action `k` of the eliminated agent turns the new state value back into the old one -/
theorem removeVar_attained (A a : List Nat) (v : Nat) (st : TState) (ha : Valid A a) (hv : v < A.length)
    (hpos : 0 < A.getD v 0) (hk : GKeys A.length st.graph) :
    ∃ k, k < A.getD v 0 ∧ stVal A (setAt a v k) st = stVal A a (removeVar A A.length v st) := by
  rw [removeVar_val A a v st ha hpos]
  obtain ⟨_, _, k, hk1, hk2⟩ := bestVal_spec A A.length (nbrs A.length v (st.graph.map (·.keys)))
    (toFactors (sel (nbrs A.length v (st.graph.map (·.keys))) A) (toIndexPartial (nbrs A.length v (st.graph.map (·.keys))) A a))
    v (st.graph.filter (fun nd => nd.keys.contains v)) hpos
  rw [cv_eq_setAt A a v k st.graph ha hv hk] at hk2
  refine ⟨k, hk1, ?_⟩
  have s2 := graphVal_filter_split A (setAt a v k) (fun nd => nd.keys.contains v) st.graph
  have s3 := graphVal_setAt_rest A a v k st.graph (by rw [valid_len A a ha]; exact hv)
  simp only [stVal, bvAt] at *
  linarith

/-! ### the elimination loop and the reported value -/

/-- loop invariant on the graph: every node has a key, and only agents not yet eliminated occur -/
def LInv (active : List Nat) (g : List TNode) : Prop := ∀ nd ∈ g, nd.keys ≠ [] ∧ ∀ u ∈ nd.keys, u ∈ active

theorem addToNode_keys (keys : List Nat) (nr : TRule) : ∀ (g : List TNode), ∀ nd ∈ addToNode keys nr g,
    nd.keys = keys ∨ ∃ nd' ∈ g, nd'.keys = nd.keys
  | [], nd, h => by simp [addToNode] at h; subst h; exact Or.inl rfl
  | x :: g, nd, h => by
    simp only [addToNode] at h
    split at h
    · rcases List.mem_cons.mp h with h | h
      · subst h; exact Or.inr ⟨x, List.mem_cons_self .., rfl⟩
      · exact Or.inr ⟨nd, List.mem_cons_of_mem _ h, rfl⟩
    · rcases List.mem_cons.mp h with h | h
      · subst h; exact Or.inr ⟨nd, List.mem_cons_self .., rfl⟩
      · rcases addToNode_keys keys nr g nd h with h' | ⟨nd', h1, h2⟩
        · exact Or.inl h'
        · exact Or.inr ⟨nd', List.mem_cons_of_mem _ h1, h2⟩

theorem removeLoop_keys (A : List Nat) (n : Nat) (nb : List Nat) (v : Nat) (factors : List TNode) :
    ∀ (cnt j : Nat) (st : TState), ∀ nd ∈ (removeLoop A n nb v factors cnt j st).graph,
      (nb.isEmpty = false ∧ nd.keys = nb) ∨ ∃ nd' ∈ st.graph, nd'.keys = nd.keys
  | 0, _, st, nd, h => Or.inr ⟨nd, h, rfl⟩
  | cnt+1, j, st, nd, h => by
    rw [removeLoop_succ] at h
    rcases removeLoop_keys A n nb v factors cnt (j+1) _ nd h with h' | ⟨nd', h1, h2⟩
    · exact Or.inl h'
    · cases hb : bestOver A n nb (toFactors (sel nb A) j) v factors (A.getD v 0) 0 none with
      | none => rw [hb] at h1; exact Or.inr ⟨nd', h1, h2⟩
      | some nf =>
        rw [hb] at h1
        by_cases he : nb.isEmpty = true
        · simp only [he, if_true] at h1; exact Or.inr ⟨nd', h1, h2⟩
        · have he' : nb.isEmpty = false := by simpa using he
          simp only [he', Bool.false_eq_true, if_false] at h1
          rcases addToNode_keys nb _ st.graph nd' h1 with h3 | ⟨nd'', h3, h4⟩
          · exact Or.inl ⟨he', by rw [← h2, h3]⟩
          · exact Or.inr ⟨nd'', h3, by rw [h4, h2]⟩

theorem removeVar_LInv (A : List Nat) (v : Nat) (active : List Nat) (st : TState)
    (hinv : LInv active st.graph) : LInv (active.filter (· != v)) (removeVar A A.length v st).graph := by
  intro nd hnd
  simp only [removeVar] at hnd
  obtain ⟨hmem, hnv⟩ := List.mem_filter.mp hnd
  have hnv' : ∀ u ∈ nd.keys, u ≠ v := by
    intro u hu e; subst e
    simp at hnv
    exact hnv hu
  have hold : ∀ nd' ∈ st.graph, nd'.keys = nd.keys → nd.keys ≠ [] ∧ ∀ u ∈ nd.keys, u ∈ active.filter (· != v) := by
    intro nd' h1 h2
    obtain ⟨k1, k2⟩ := hinv nd' h1
    rw [h2] at k1 k2
    exact ⟨k1, fun u hu => List.mem_filter.mpr ⟨k2 u hu, by simpa using hnv' u hu⟩⟩
  have hnbcase : ∀ nb, nb = nbrs A.length v (st.graph.map (·.keys)) → nb.isEmpty = false → nd.keys = nb →
      nd.keys ≠ [] ∧ ∀ u ∈ nd.keys, u ∈ active.filter (· != v) := by
    intro nb hnb he hk
    refine ⟨by rw [hk]; intro e; simp [e] at he, ?_⟩
    intro u hu
    have hu' : u ∈ nbrs A.length v (st.graph.map (·.keys)) := by rw [← hnb, ← hk]; exact hu
    obtain ⟨_, hne, s, hs, _, hus⟩ := (mem_nbrs _ _ _ _).mp hu'
    obtain ⟨nd', hnd', rfl⟩ := List.mem_map.mp hs
    exact List.mem_filter.mpr ⟨(hinv nd' hnd').2 u hus, by simpa using hne⟩
  rcases removeLoop_keys A A.length _ v _ _ _ _ nd hmem with ⟨he, hk⟩ | ⟨nd', h1, h2⟩
  · exact hnbcase _ rfl he hk
  · simp only at h1
    split at h1
    · exact hold nd' h1 h2
    · rcases List.mem_append.mp h1 with h1 | h1
      · exact hold nd' h1 h2
      · simp only [List.mem_singleton] at h1
        subst h1
        rename_i hcond
        have he : (nbrs A.length v (st.graph.map (·.keys))).isEmpty = false := by
          by_contra hc
          have : (nbrs A.length v (st.graph.map (·.keys))).isEmpty = true := by simpa using hc
          simp [this] at hcond
        exact hnbcase _ rfl he h2.symm

theorem foldl_fst_mem (step : Nat × Nat → Nat → Nat × Nat)
    (hstep : ∀ st next, step st next = st ∨ (step st next).1 = next) :
    ∀ (l : List Nat) (init : Nat × Nat), (l.foldl step init).1 = init.1 ∨ (l.foldl step init).1 ∈ l
  | [], init => Or.inl rfl
  | x :: xs, init => by
    simp only [List.foldl_cons]
    rcases foldl_fst_mem step hstep xs (step init x) with h | h
    · rcases hstep init x with h' | h'
      · exact Or.inl (by rw [h, h'])
      · exact Or.inr (by rw [h, h']; exact List.mem_cons_self ..)
    · exact Or.inr (List.mem_cons_of_mem _ h)

theorem bestVar_mem (A : List Nat) (n : Nat) (scopes : List (List Nat)) : ∀ (active : List Nat), active ≠ [] →
    bestVar A n active scopes ∈ active
  | [], h => absurd rfl h
  | first :: more, _ => by
    simp only [bestVar]
    have := foldl_fst_mem
      (fun st next =>
          if (!factorExists (nbrs n next scopes) scopes && factorExists (nbrs n first scopes) scopes) = true then st
          else
            if (factorExists (nbrs n next scopes) scopes && !factorExists (nbrs n first scopes) scopes ||
                    decide (costOf A next (nbrs n next scopes) < st.2)) = true then
              (next, costOf A next (nbrs n next scopes))
            else st)
      (by
        intro st next
        by_cases c1 : (!factorExists (nbrs n next scopes) scopes && factorExists (nbrs n first scopes) scopes) = true
        · left; simp only [c1, if_true]
        · by_cases c2 : (factorExists (nbrs n next scopes) scopes && !factorExists (nbrs n first scopes) scopes ||
                    decide (costOf A next (nbrs n next scopes) < st.2)) = true
          · right; simp [c1, c2]
          · left; simp [c1, c2])
      more (first, costOf A first (nbrs n first scopes))
    rcases this with h | h
    · rw [h]; exact List.mem_cons_self ..
    · exact List.mem_cons_of_mem _ h

theorem valid_setAt (A a : List Nat) (v k : Nat) (ha : Valid A a) (hk : k < A.getD v 0) (hv : v < A.length) :
    Valid A (setAt a v k) := by
  have hl := valid_len A a ha
  rw [valid_iff_getD]
  refine ⟨by rw [length_setAt, hl], ?_⟩
  intro i hi
  rw [getD_setAt a v k i (by rw [hl]; exact hv)]
  by_cases e : i = v
  · subst e; simpa using hk
  · simp only [e, if_false]; exact ((valid_iff_getD A a).mp ha).2 i hi

theorem length_filter_ne_lt (v : Nat) : ∀ (l : List Nat), v ∈ l → (l.filter (· != v)).length < l.length
  | [], h => by simp at h
  | x :: xs, h => by
    by_cases e : x = v
    · subst e
      have : (xs.filter (· != x)).length ≤ xs.length := List.length_filter_le _ _
      simp [List.filter]; omega
    · have hx : v ∈ xs := by
        rcases List.mem_cons.mp h with h | h
        · exact absurd h.symm e
        · exact h
      have := length_filter_ne_lt v xs hx
      have e' : (x != v) = true := by simpa using e
      simp [List.filter, e']; omega

theorem tveLoop_nil (A : List Nat) (fuel : Nat) (st : TState) (hinv : LInv [] st.graph) :
    (tveLoop A A.length fuel [] st).graph = [] ∧
    (∀ a, Valid A a → stVal A a st ≤ stVal A a (tveLoop A A.length fuel [] st)) ∧
    (∀ a, Valid A a → ∃ a', Valid A a' ∧ stVal A a' st = stVal A a (tveLoop A A.length fuel [] st)) := by
  have hg : st.graph = [] := by
    cases hgr : st.graph with
    | nil => rfl
    | cons nd g =>
      have := hinv nd (by rw [hgr]; exact List.mem_cons_self ..)
      obtain ⟨u, hu⟩ := List.exists_mem_of_ne_nil _ this.1
      exact absurd (this.2 u hu) (by simp)
  have : tveLoop A A.length fuel [] st = st := by cases fuel <;> rfl
  rw [this]
  exact ⟨hg, fun a _ => le_refl _, fun a ha => ⟨a, ha, rfl⟩⟩

/-- the whole `while (graph.variableSize()) removeFactor(...)` loop, whatever `bestVariableToRemove` picks -/
theorem tveLoop_spec (A : List Nat) (hA : ∀ d ∈ A, 0 < d) : ∀ (fuel : Nat) (active : List Nat) (st : TState),
    active.length ≤ fuel → (∀ u ∈ active, u < A.length) → LInv active st.graph →
      (tveLoop A A.length fuel active st).graph = [] ∧
      (∀ a, Valid A a → stVal A a st ≤ stVal A a (tveLoop A A.length fuel active st)) ∧
      (∀ a, Valid A a → ∃ a', Valid A a' ∧ stVal A a' st = stVal A a (tveLoop A A.length fuel active st)) := by
  intro fuel
  induction fuel with
  | zero =>
    intro active st hlen _ hinv
    have : active = [] := List.length_eq_zero_iff.mp (by omega)
    subst this
    exact tveLoop_nil A 0 st hinv
  | succ fuel ih =>
    intro active st hlen hact hinv
    cases active with
    | nil => exact tveLoop_nil A (fuel+1) st hinv
    | cons x xs =>
      obtain ⟨v, hvdef⟩ : ∃ v, v = bestVar A A.length (x :: xs) (st.graph.map (·.keys)) := ⟨_, rfl⟩
      have hvmem : v ∈ x :: xs := by rw [hvdef]; exact bestVar_mem _ _ _ _ (by simp)
      have hv : v < A.length := hact v hvmem
      have hpos : 0 < A.getD v 0 := by
        have : A.getD v 0 = A[v] := by simp [List.getD_eq_getElem?_getD, List.getElem?_eq_getElem hv]
        rw [this]; exact hA _ (List.getElem_mem hv)
      have hk : GKeys A.length st.graph := fun nd hnd u hu => hact u ((hinv nd hnd).2 u hu)
      have hstep : tveLoop A A.length (fuel+1) (x :: xs) st
          = tveLoop A A.length fuel ((x :: xs).filter (· != v)) (removeVar A A.length v st) := by
        rw [hvdef]; rfl
      rw [hstep]
      have hlen' : ((x :: xs).filter (· != v)).length ≤ fuel := by
        have := length_filter_ne_lt v (x :: xs) hvmem
        simp only [List.length_cons] at hlen this ⊢; omega
      obtain ⟨h1, h2, h3⟩ := ih ((x :: xs).filter (· != v)) (removeVar A A.length v st) hlen'
        (fun u hu => hact u (List.mem_filter.mp hu).1) (removeVar_LInv A v (x :: xs) st hinv)
      refine ⟨h1, ?_, ?_⟩
      · intro a ha
        exact le_trans (removeVar_ge A a v st ha hv hpos hk) (h2 a ha)
      · intro a ha
        obtain ⟨a1, ha1, e1⟩ := h3 a ha
        obtain ⟨k, hk1, e2⟩ := removeVar_attained A a1 v st ha1 hv hpos hk
        exact ⟨setAt a1 v k, valid_setAt A a1 v k ha1 hk1 hv, by rw [e2, e1]⟩

theorem tInit_keys (A : List Nat) : ∀ (rules : List Rule) (g : List TNode), ∀ nd ∈ tInit A rules g,
    (∃ r ∈ rules, nd.keys = r.keys) ∨ ∃ nd' ∈ g, nd'.keys = nd.keys
  | [], g, nd, h => Or.inr ⟨nd, h, rfl⟩
  | r :: rs, g, nd, h => by
    simp only [tInit] at h
    rcases tInit_keys A rs _ nd h with ⟨r', hr', hk⟩ | ⟨nd', h1, h2⟩
    · exact Or.inl ⟨r', List.mem_cons_of_mem _ hr', hk⟩
    · rcases addToNode_keys r.keys _ g nd' h1 with h3 | ⟨nd'', h3, h4⟩
      · exact Or.inl ⟨r, List.mem_cons_self .., by rw [← h2, h3]⟩
      · exact Or.inr ⟨nd'', h3, by rw [h4, h2]⟩

theorem tMakeResult_val : ∀ (finals : List (Rat × List (Nat × Nat))) (acc : List Nat × Rat),
    (finals.foldl (fun (acc : List Nat × Rat) f =>
      (f.2.foldl (fun a t => setAt a t.1 t.2) acc.1, acc.2 + f.1)) acc).2 = acc.2 + finalsVal finals
  | [], acc => by simp [finalsVal]
  | f :: fs, acc => by
    simp only [List.foldl_cons, finalsVal]
    rw [tMakeResult_val fs]; ring

/-- **`tve_value_correct`** — the table-level model of `VariableElimination::operator()` (sorted rule vectors,
    `lower_bound` lookups, merge on collision, `bestVariableToRemove` order, final factors summed in `makeResult`)
    reports exactly the exhaustive maximum of the total payoff, for EVERY well-formed rule set. -/
theorem tve_value_correct (A : List Nat) (rules : List Rule) (hA : ∀ d ∈ A, 0 < d)
    (hwf : ∀ r ∈ rules, r.WF A) (hne : ∀ r ∈ rules, r.keys ≠ []) :
    (tveRun A rules).2 = bruteMax A rules := by
  have hinv : LInv (List.range A.length) (tInit A rules []) := by
    intro nd hnd
    rcases tInit_keys A rules [] nd hnd with ⟨r, hr, hk⟩ | ⟨_, h, _⟩
    · rw [hk]; exact ⟨hne r hr, fun u hu => List.mem_range.mpr ((hwf r hr).1 u hu)⟩
    · simp at h
  obtain ⟨h1, h2, h3⟩ := tveLoop_spec A hA A.length (List.range A.length) ⟨tInit A rules [], []⟩
    (by simp) (fun u hu => List.mem_range.mp hu) hinv
  have hval : (tveRun A rules).2 = finalsVal (tveLoop A A.length A.length (List.range A.length) ⟨tInit A rules [], []⟩).finals := by
    simp only [tveRun, tMakeResult]
    rw [tMakeResult_val]; simp
  have hst0 : ∀ a, Valid A a → stVal A a ⟨tInit A rules [], []⟩ = payoffL rules a := by
    intro a ha
    simp only [stVal, finalsVal]
    rw [tInit_represents A a ha rules [] hwf]; simp [graphVal]
  have hend : ∀ a, stVal A a (tveLoop A A.length A.length (List.range A.length) ⟨tInit A rules [], []⟩) = (tveRun A rules).2 := by
    intro a; rw [hval]; simp only [stVal, h1, graphVal]; ring
  apply le_antisymm
  · obtain ⟨a', ha', e⟩ := h3 (A.map (fun _ => 0)) (valid_zeros A hA)
    rw [hend, hst0 a' ha'] at e
    rw [← e]; exact bruteMax_ge A rules a' ha'
  · obtain ⟨a, ha, hp⟩ := bruteMax_attained A rules hA
    rw [← hp, ← hst0 a ha, ← hend a]
    exact h2 a ha

end AITB.VE
