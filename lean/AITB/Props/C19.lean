/-
  AITB.Props.C19 — online planners (MCTS, POMCP): horizon, tree consistency, promotion, particles.

  The transition system: `Roll` (one rollout) and `Sim` (one `simulate` call) are the big-step relations
  "this list of generative-model calls is a run of the code from this tree"; `rollout_sound` /
  `simulate_sound` show that the executable functions of AITB.Model.Tree (which the driver runs on the
  traces logged from the real library) accept exactly such runs.  Every property theorem is stated for every
  run: all generative models (`Mdl.valid`, `Mdl.numA` arbitrary: terminal states, variable action counts,
  rewards of any sign), all horizons, all choices of UCT / rollout actions / sampled outcomes.
-/
import AITB.Model.Tree
import AITB.Gen.C19
import Mathlib.Algebra.Order.Field.Rat
import Mathlib.Tactic.Ring
import Mathlib.Tactic.Linarith
import Mathlib.Tactic.FieldSimp
import Mathlib.Data.List.Induction
import Mathlib.Data.List.Nodup

namespace AITB.Tree

/-! ### The transition system -/

/-- `Roll m n s g used x`: `rollout(model, s, n, ·)` started with discount accumulator `g` makes exactly the
    calls `used` and returns `x` -/
inductive Roll (m : Mdl) : Nat → Nat → Rat → List Step → Rat → Prop
  | zero (s : Nat) (g : Rat) : Roll m 0 s g [] 0
  | term (n s : Nat) (g : Rat) (st : Step) : st.s = s → st.a < m.numA s → m.valid st = true → st.term = true →
      Roll m (n+1) s g [st] (g * st.r)
  | step (n s : Nat) (g : Rat) (st : Step) (used : List Step) (x : Rat) : st.s = s → st.a < m.numA s → m.valid st = true →
      st.term = false → Roll m n st.s1 (g * m.gamma) used x → Roll m (n+1) s g (st :: used) (g * st.r + x)

theorem rollout_sound (m : Mdl) : ∀ (n s : Nat) (g : Rat) (log : List Step) (x : Rat) (rest : List Step),
    rollout m n s g log = some (x, rest) → ∃ used, log = used ++ rest ∧ Roll m n s g used x := by
  intro n
  induction n with
  | zero =>
    intro s g log x rest h
    simp [rollout] at h
    obtain ⟨rfl, rfl⟩ := h
    exact ⟨[], rfl, Roll.zero s g⟩
  | succ n ih =>
    intro s g log x rest h
    cases log with
    | nil => simp [rollout] at h
    | cons st log =>
      simp only [rollout] at h
      split at h
      · rename_i hc
        simp only [Bool.and_eq_true, decide_eq_true_eq] at hc
        obtain ⟨⟨hs, ha⟩, hv⟩ := hc
        split at h
        · rename_i ht
          simp at h
          obtain ⟨rfl, rfl⟩ := h
          exact ⟨[st], rfl, Roll.term n s g st hs ha hv ht⟩
        · rename_i ht
          split at h
          · simp at h
          · rename_i x' log' hr
            simp at h
            obtain ⟨rfl, rfl⟩ := h
            obtain ⟨used, hu, hR⟩ := ih _ _ _ _ _ hr
            refine ⟨st :: used, by rw [hu]; rfl, Roll.step n s g st used x' hs ha hv (by simpa using ht) hR⟩
      · simp at h

/-- `Sim m H t p s depth used t' r`: `simulate(node at p, s, depth)` with `maxDepth_ = H` run on tree `t` makes
    exactly the calls `used`, leaves the tree `t'` and returns `r` -/
inductive Sim (m : Mdl) (H : Nat) : Tree → Path → Nat → Nat → List Step → Tree → Rat → Prop
  | stop (t : Tree) (p : Path) (s depth : Nat) (st : Step) (t1 : Tree) :
      st.s = s → st.a < t.nA p → m.valid st = true →
      descend m H (t.incN p) p depth st = some (t1, Mode.stop) →
      Sim m H t p s depth [st] (t1.update p st.a st.r) st.r
  | roll (t : Tree) (p : Path) (s depth : Nat) (st : Step) (t1 : Tree) (n : Nat) (used : List Step) (fr : Rat) :
      st.s = s → st.a < t.nA p → m.valid st = true →
      descend m H (t.incN p) p depth st = some (t1, Mode.roll n) →
      Roll m n st.s1 1 used fr →
      Sim m H t p s depth (st :: used) (t1.update p st.a (st.r + m.gamma * fr)) (st.r + m.gamma * fr)
  | deeper (t : Tree) (p : Path) (s depth : Nat) (st : Step) (t1 t2 : Tree) (used : List Step) (fr : Rat) :
      st.s = s → st.a < t.nA p → m.valid st = true →
      descend m H (t.incN p) p depth st = some (t1, Mode.deeper) →
      Sim m H t1 (p ++ [(st.a, m.key st)]) st.s1 (depth + 1) used t2 fr →
      Sim m H t p s depth (st :: used) (t2.update p st.a (st.r + m.gamma * fr)) (st.r + m.gamma * fr)

theorem simulate_sound (m : Mdl) (H : Nat) : ∀ (fuel : Nat) (t : Tree) (p : Path) (s depth : Nat) (log : List Step)
    (t' : Tree) (r : Rat) (rest : List Step),
    simulate m H fuel t p s depth log = some (t', r, rest) → ∃ used, log = used ++ rest ∧ Sim m H t p s depth used t' r := by
  intro fuel
  induction fuel with
  | zero => intro t p s depth log t' r rest h; simp [simulate] at h
  | succ fuel ih =>
    intro t p s depth log t' r rest h
    cases log with
    | nil => simp [simulate] at h
    | cons st log =>
      simp only [simulate] at h
      split at h
      · rename_i hc
        simp only [Bool.and_eq_true, decide_eq_true_eq] at hc
        obtain ⟨⟨⟨hs, ha⟩, hv⟩, _⟩ := hc
        split at h
        · simp at h
        · rename_i t1 hd
          simp at h
          obtain ⟨rfl, rfl, rfl⟩ := h
          exact ⟨[st], rfl, Sim.stop t p s depth st t1 hs ha hv hd⟩
        · rename_i t1 n hd
          split at h
          · simp at h
          · rename_i fr log' hr
            simp at h
            obtain ⟨rfl, rfl, rfl⟩ := h
            obtain ⟨used, hu, hR⟩ := rollout_sound m _ _ _ _ _ _ hr
            exact ⟨st :: used, by rw [hu]; rfl, Sim.roll t p s depth st t1 n used fr hs ha hv hd hR⟩
        · rename_i t1 hd
          split at h
          · simp at h
          · rename_i t2 fr log' hr
            simp at h
            obtain ⟨rfl, rfl, rfl⟩ := h
            obtain ⟨used, hu, hS⟩ := ih _ _ _ _ _ _ _ _ hr
            exact ⟨st :: used, by rw [hu]; rfl, Sim.deeper t p s depth st t1 t2 used fr hs ha hv hd hS⟩
      · simp at h


/-! ### What `descend` can do to the tree -/

theorem alloc_spec {t t1 : Tree} {p : Path} {n : Nat} (h : t.alloc p n = some t1) :
    t1.nN = t.nN ∧ t1.aN = t.aN ∧ t1.aV = t.aV ∧ t1.rets = t.rets ∧ t1.budget = t.budget ∧ t1.ex = t.ex ∧
    t1.parts = t.parts ∧ t1.nodes = t.nodes ∧ t1.nA p = n ∧ (∀ q, t1.nA q = t.nA q ∨ (q = p ∧ t.nA q = 0)) := by
  unfold Tree.alloc at h
  split at h
  · rename_i hn
    simp at h; subst h
    exact ⟨rfl, rfl, rfl, rfl, rfl, rfl, rfl, rfl, hn, fun q => Or.inl rfl⟩
  · split at h
    · rename_i hn0
      simp at h; subst h
      refine ⟨rfl, rfl, rfl, rfl, rfl, rfl, rfl, rfl, by simp [upd], fun q => ?_⟩
      by_cases hq : q = p
      · subst hq; exact Or.inr ⟨rfl, hn0⟩
      · left; simp [upd, hq]
    · simp at h

/-- the three shapes of the structural change made by `descend` -/
inductive DescendShape (m : Mdl) (t t1 : Tree) (child : Path) (s1 : Nat) (mode : Mode) : Prop
  | created : t.ex child = false → t1.ex = upd t.ex child true → t1.parts = upd t.parts child [s1] →
      t1.nodes = t.nodes ++ [child] → (∀ q, t1.nA q = t.nA q) → mode ≠ Mode.deeper → DescendShape m t t1 child s1 mode
  | pushed : t.ex child = true → t1.ex = t.ex → t1.parts = upd t.parts child (t.parts child ++ [s1]) →
      t1.nodes = t.nodes → DescendShape m t t1 child s1 mode
  | untouched : t1 = t → mode = Mode.stop → m.pomcp = false → DescendShape m t t1 child s1 mode

theorem descend_spec {m : Mdl} {H : Nat} {t t1 : Tree} {p : Path} {depth : Nat} {st : Step} {mode : Mode}
    (h : descend m H t p depth st = some (t1, mode)) :
    t1.nN = t.nN ∧ t1.aN = t.aN ∧ t1.aV = t.aV ∧ t1.rets = t.rets ∧ t1.budget = t.budget ∧
    (∀ q, t1.nA q = t.nA q ∨ (q = p ++ [(st.a, m.key st)] ∧ t.nA q = 0)) ∧
    DescendShape m t t1 (p ++ [(st.a, m.key st)]) st.s1 mode ∧
    (mode = Mode.deeper → depth + 1 < H ∧ t1.ex (p ++ [(st.a, m.key st)]) = true ∧
        st.s1 ∈ t1.parts (p ++ [(st.a, m.key st)]) ∧ t1.nA (p ++ [(st.a, m.key st)]) = m.numA st.s1) ∧
    (∀ n, mode = Mode.roll n → n = m.rollLen H depth) := by
  unfold descend at h
  simp only at h
  split at h
  · -- POMCP
    split at h
    · rename_i hp hex
      have hex' : t.ex (p ++ [(st.a, m.key st)]) = false := by simpa using hex
      split at h
      · simp at h; obtain ⟨rfl, rfl⟩ := h
        exact ⟨rfl, rfl, rfl, rfl, rfl, fun q => Or.inl rfl,
          DescendShape.created hex' rfl rfl rfl (fun _ => rfl) (by simp), by simp, by simp⟩
      · simp at h; obtain ⟨rfl, rfl⟩ := h
        exact ⟨rfl, rfl, rfl, rfl, rfl, fun q => Or.inl rfl,
          DescendShape.created hex' rfl rfl rfl (fun _ => rfl) (by simp), by simp, by simp⟩
    · rename_i hp hex
      have hex' : t.ex (p ++ [(st.a, m.key st)]) = true := by simpa using hex
      split at h
      · rename_i hdeep
        cases ha : (t.pushPart (p ++ [(st.a, m.key st)]) st.s1).alloc (p ++ [(st.a, m.key st)]) (m.numA st.s1) with
        | none => simp [ha] at h
        | some t' =>
          simp [ha] at h; obtain ⟨rfl, rfl⟩ := h
          obtain ⟨a1, a2, a3, a4, a5, a6, a7, a8, a9, a10⟩ := alloc_spec ha
          simp only [Bool.and_eq_true, decide_eq_true_eq] at hdeep
          refine ⟨a1, a2, a3, a4, a5, a10, DescendShape.pushed hex' (by rw [a6]; rfl) (by rw [a7]; rfl) (by rw [a8]; rfl), ?_, by simp⟩
          intro _
          refine ⟨hdeep.1, by rw [a6]; exact hex', ?_, a9⟩
          rw [a7]; simp [Tree.pushPart, upd]
      · simp at h; obtain ⟨rfl, rfl⟩ := h
        exact ⟨rfl, rfl, rfl, rfl, rfl, fun q => Or.inl rfl, DescendShape.pushed hex' rfl rfl rfl, by simp, by simp⟩
  · -- MCTS
    rename_i hp
    have hp' : m.pomcp = false := by simpa using hp
    split at h
    · rename_i hdeep
      simp only [Bool.and_eq_true, decide_eq_true_eq] at hdeep
      split at h
      · rename_i hex
        have hex' : t.ex (p ++ [(st.a, m.key st)]) = false := by simpa using hex
        simp at h; obtain ⟨rfl, rfl⟩ := h
        exact ⟨rfl, rfl, rfl, rfl, rfl, fun q => Or.inl rfl,
          DescendShape.created hex' rfl rfl rfl (fun _ => rfl) (by simp), by simp, by simp⟩
      · rename_i hex
        have hex' : t.ex (p ++ [(st.a, m.key st)]) = true := by simpa using hex
        cases ha : (t.pushPart (p ++ [(st.a, m.key st)]) st.s1).alloc (p ++ [(st.a, m.key st)]) (m.numA st.s1) with
        | none => simp [ha] at h
        | some t' =>
          simp [ha] at h; obtain ⟨rfl, rfl⟩ := h
          obtain ⟨a1, a2, a3, a4, a5, a6, a7, a8, a9, a10⟩ := alloc_spec ha
          refine ⟨a1, a2, a3, a4, a5, a10, DescendShape.pushed hex' (by rw [a6]; rfl) (by rw [a7]; rfl) (by rw [a8]; rfl), ?_, by simp⟩
          intro _
          refine ⟨hdeep.1, by rw [a6]; exact hex', ?_, a9⟩
          rw [a7]; simp [Tree.pushPart, upd]
    · simp at h; obtain ⟨rfl, rfl⟩ := h
      exact ⟨rfl, rfl, rfl, rfl, rfl, fun q => Or.inl rfl, DescendShape.untouched rfl rfl hp', by simp, by simp⟩


/-! ### Counts and means (clauses `node_count_is_sum`, `v_is_mean`) -/

theorem sumTo_updN_lt (f : Nat → Nat) (a v : Nat) : ∀ n, a < n → sumTo (updN f a v) n + f a = sumTo f n + v := by
  intro n
  induction n with
  | zero => intro h; omega
  | succ n ih =>
    intro h
    by_cases han : a = n
    · subst han
      have : sumTo (updN f a v) a = sumTo f a := by
        clear ih h
        have : ∀ k, k ≤ a → sumTo (updN f a v) k = sumTo f k := by
          intro k
          induction k with
          | zero => intro _; rfl
          | succ k ihk =>
            intro hk
            simp only [sumTo]
            rw [ihk (by omega)]
            have : k ≠ a := by omega
            simp [updN, this]
        exact this a (Nat.le_refl a)
      simp only [sumTo, this]
      simp [updN]
      omega
    · have hlt : a < n := by omega
      have := ih hlt
      simp only [sumTo]
      have hne : n ≠ a := fun h => han h.symm
      simp only [updN, hne, if_false]
      omega

theorem sumTo_zero (f : Nat → Nat) (h : ∀ a, f a = 0) : ∀ n, sumTo f n = 0 := by
  intro n
  induction n with
  | zero => rfl
  | succ n ih => simp [sumTo, ih, h]

theorem mean_cons (x : Rat) (l : List Rat) :
    mean (x :: l) = mean l + (x - mean l) / ((l.length + 1 : Nat) : Rat) := by
  unfold mean
  simp only [sumQ, List.length_cons]
  by_cases hl : l.length = 0
  · have : l = [] := List.eq_nil_of_length_eq_zero hl
    subst this
    simp [sumQ]
  · have h1 : ((l.length : Nat) : Rat) ≠ 0 := by exact_mod_cast hl
    have h2 : ((l.length + 1 : Nat) : Rat) ≠ 0 := by
      have : (l.length + 1 : Nat) ≠ 0 := Nat.succ_ne_zero _
      exact_mod_cast this
    field_simp
    push_cast
    ring

/-- the bookkeeping invariant; `pend q` = number of `simulate` frames currently open on node `q`
    (they have done `N++` on the node but not yet on one of its actions) -/
structure StatInv (pend : Path → Nat) (t : Tree) : Prop where
  cnt : ∀ q, t.nN q = sumTo (t.aN q) (t.nA q) + pend q
  len : ∀ q a, t.aN q a = (t.rets q a).length
  avg : ∀ q a, t.aV q a = mean (t.rets q a)
  out : ∀ q a, t.nA q ≤ a → t.aN q a = 0

theorem StatInv.incN {pend : Path → Nat} {t : Tree} (h : StatInv pend t) (p : Path) :
    StatInv (upd pend p (pend p + 1)) (t.incN p) := by
  refine ⟨fun q => ?_, h.len, h.avg, h.out⟩
  show upd t.nN p (t.nN p + 1) q = sumTo (t.aN q) (t.nA q) + upd pend p (pend p + 1) q
  by_cases hq : q = p
  · subst hq; simp only [upd, if_true]; rw [h.cnt q]; omega
  · simp only [upd, hq, if_false]; exact h.cnt q

theorem StatInv.descend {pend : Path → Nat} {m : Mdl} {H : Nat} {t t1 : Tree} {p : Path} {depth : Nat} {st : Step}
    {mode : Mode} (h : StatInv pend t) (hd : descend m H t p depth st = some (t1, mode)) : StatInv pend t1 := by
  obtain ⟨e1, e2, e3, e4, _, hA, _, _, _⟩ := descend_spec hd
  refine ⟨fun q => ?_, fun q a => ?_, fun q a => ?_, fun q a hqa => ?_⟩
  · rw [e1, e2]
    rcases hA q with hq | ⟨_, hq0⟩
    · rw [hq]; exact h.cnt q
    · have hz : ∀ a, t.aN q a = 0 := fun a => h.out q a (by omega)
      rw [sumTo_zero _ hz]
      have := h.cnt q
      rw [hq0] at this
      simpa [sumTo] using this
  · rw [e2, e4]; exact h.len q a
  · rw [e3, e4]; exact h.avg q a
  · rw [e2]
    rcases hA q with hq | ⟨_, hq0⟩
    · exact h.out q a (by omega)
    · exact h.out q a (by omega)

theorem StatInv.update {pend pend' : Path → Nat} {t : Tree} {p : Path} {a : Nat} (rew : Rat) (h : StatInv pend' t)
    (ha : a < t.nA p) (hp : pend' p = pend p + 1) (hq : ∀ q, q ≠ p → pend' q = pend q) :
    StatInv pend (t.update p a rew) := by
  refine ⟨fun q => ?_, fun q b => ?_, fun q b => ?_, fun q b hqb => ?_⟩
  · show t.nN q = sumTo (upd t.aN p (updN (t.aN p) a (t.aN p a + 1)) q) (t.nA q) + pend q
    by_cases hqp : q = p
    · subst hqp
      simp only [upd, if_true]
      have := sumTo_updN_lt (t.aN q) a (t.aN q a + 1) (t.nA q) ha
      have hc := h.cnt q
      omega
    · simp only [upd, hqp, if_false]
      rw [← hq q hqp]; exact h.cnt q
  · show upd t.aN p (updN (t.aN p) a (t.aN p a + 1)) q b = (upd t.rets p (updN (t.rets p) a (rew :: t.rets p a)) q b).length
    by_cases hqp : q = p
    · subst hqp
      simp only [upd, if_true]
      by_cases hb : b = a
      · subst hb; simp [updN, h.len]
      · simp [updN, hb, h.len]
    · simp only [upd, hqp, if_false]; exact h.len q b
  · show upd t.aV p (updN (t.aV p) a (t.aV p a + (rew - t.aV p a) / ((t.aN p a + 1 : Nat) : Rat))) q b
        = mean (upd t.rets p (updN (t.rets p) a (rew :: t.rets p a)) q b)
    by_cases hqp : q = p
    · subst hqp
      simp only [upd, if_true]
      by_cases hb : b = a
      · subst hb
        simp only [updN, if_true]
        rw [mean_cons, h.avg q b, h.len q b]
      · simp only [updN, hb, if_false]; exact h.avg q b
    · simp only [upd, hqp, if_false]; exact h.avg q b
  · show upd t.aN p (updN (t.aN p) a (t.aN p a + 1)) q b = 0
    have hA : (t.update p a rew).nA q = t.nA q := rfl
    rw [hA] at hqb
    by_cases hqp : q = p
    · subst hqp
      have hb : b ≠ a := by omega
      simp only [upd, if_true, updN, hb, if_false]
      exact h.out q b hqb
    · simp only [upd, hqp, if_false]; exact h.out q b hqb

/-- action counts of a node never change once allocated -/
theorem Sim.nA_stable {m : Mdl} {H : Nat} {t t' : Tree} {p : Path} {s depth : Nat} {used : List Step} {r : Rat}
    (h : Sim m H t p s depth used t' r) : ∀ q, t'.nA q = t.nA q ∨ t.nA q = 0 := by
  induction h with
  | stop t p s depth st t1 _ _ _ hd =>
    intro q
    obtain ⟨_, _, _, _, _, hA, _⟩ := descend_spec hd
    rcases hA q with h | ⟨_, h⟩
    · left; exact h
    · right; exact h
  | roll t p s depth st t1 n used fr _ _ _ hd _ =>
    intro q
    obtain ⟨_, _, _, _, _, hA, _⟩ := descend_spec hd
    rcases hA q with h | ⟨_, h⟩
    · left; exact h
    · right; exact h
  | deeper t p s depth st t1 t2 used fr _ _ _ hd _ ih =>
    intro q
    obtain ⟨_, _, _, _, _, hA, _⟩ := descend_spec hd
    have h12 : t2.nA q = t1.nA q ∨ t1.nA q = 0 := ih q
    show t2.nA q = t.nA q ∨ t.nA q = 0
    rcases hA q with h | ⟨_, h⟩
    · have h' : t1.nA q = t.nA q := h
      rcases h12 with h2 | h2
      · left; rw [h2, h']
      · right; rw [← h']; exact h2
    · right; exact h

/-- **every `simulate` call preserves the bookkeeping invariant** (for any number of open frames above it) -/
theorem Sim.statInv {m : Mdl} {H : Nat} {t t' : Tree} {p : Path} {s depth : Nat} {used : List Step} {r : Rat}
    (h : Sim m H t p s depth used t' r) : ∀ pend, StatInv pend t → StatInv pend t' := by
  induction h with
  | stop t p s depth st t1 _ ha _ hd =>
    intro pend hI
    have h1 := (hI.incN p).descend hd
    obtain ⟨_, _, _, _, _, hA, _⟩ := descend_spec hd
    have ha1 : st.a < t1.nA p := by
      rcases hA p with h | ⟨_, h⟩
      · rw [h]; exact ha
      · have : (t.incN p).nA p = t.nA p := rfl
        omega
    exact h1.update st.r ha1 (by simp [upd]) (fun q hq => by simp [upd, hq])
  | roll t p s depth st t1 n used fr _ ha _ hd _ =>
    intro pend hI
    have h1 := (hI.incN p).descend hd
    obtain ⟨_, _, _, _, _, hA, _⟩ := descend_spec hd
    have ha1 : st.a < t1.nA p := by
      rcases hA p with h | ⟨_, h⟩
      · rw [h]; exact ha
      · have : (t.incN p).nA p = t.nA p := rfl
        omega
    exact h1.update _ ha1 (by simp [upd]) (fun q hq => by simp [upd, hq])
  | deeper t p s depth st t1 t2 used fr _ ha _ hd hS ih =>
    intro pend hI
    have h1 := (hI.incN p).descend hd
    obtain ⟨_, _, _, _, _, hA, _⟩ := descend_spec hd
    have ha1 : st.a < t1.nA p := by
      rcases hA p with h | ⟨_, h⟩
      · rw [h]; exact ha
      · have : (t.incN p).nA p = t.nA p := rfl
        omega
    have h2 := ih _ h1
    have ha2 : st.a < t2.nA p := by
      rcases hS.nA_stable p with h | h
      · rw [h]; exact ha1
      · omega
    exact h2.update _ ha2 (by simp [upd]) (fun q hq => by simp [upd, hq])


/-! ### Horizon (clause `depth_le_horizon`) -/

theorem Roll.length_le {m : Mdl} {n s : Nat} {g : Rat} {used : List Step} {x : Rat} (h : Roll m n s g used x) :
    used.length ≤ n := by
  induction h with
  | zero => simp
  | term => simp
  | step n s g st used x _ _ _ _ _ ih => simp; omega

theorem rollLen_le (m : Mdl) (H depth : Nat) (hd : depth < H) : 1 + m.rollLen H depth ≤ H - depth + m.overrun := by
  unfold Mdl.rollLen Mdl.overrun
  omega

/-- **one simulation started at depth `depth` makes at most `H - depth + overrun` calls of the generative
    model**; the i-th of them is made on a state `depth + i` transitions below the root -/
theorem Sim.length_le {m : Mdl} {H : Nat} {t t' : Tree} {p : Path} {s depth : Nat} {used : List Step} {r : Rat}
    (h : Sim m H t p s depth used t' r) : depth < H → used.length ≤ H - depth + m.overrun := by
  induction h with
  | stop => intro hd; simp; omega
  | roll t p s depth st t1 n used fr _ _ _ hd hR =>
    intro hlt
    obtain ⟨_, _, _, _, _, _, _, _, hn⟩ := descend_spec hd
    have := hR.length_le
    have hn' := hn n rfl
    have := rollLen_le m H depth hlt
    simp; omega
  | deeper t p s depth st t1 t2 used fr _ _ _ hd _ ih =>
    intro hlt
    obtain ⟨_, _, _, _, _, _, _, hm, _⟩ := descend_spec hd
    have h1 := (hm rfl).1
    have := ih h1
    simp; omega

/-! ### Returns stay in the achievable range (clause `v_in_return_range`) -/

def pos0 (x : Rat) : Rat := if 0 ≤ x then x else 0
def neg0 (x : Rat) : Rat := if x ≤ 0 then x else 0

theorem pos0_nonneg (x : Rat) : 0 ≤ pos0 x := by unfold pos0; split <;> linarith
theorem le_pos0 (x : Rat) : x ≤ pos0 x := by unfold pos0; split <;> linarith
theorem pos0_mono {x y : Rat} (h : x ≤ y) : pos0 x ≤ pos0 y := by unfold pos0; split <;> split <;> linarith
theorem neg0_nonpos (x : Rat) : neg0 x ≤ 0 := by unfold neg0; split <;> linarith
theorem neg0_le (x : Rat) : neg0 x ≤ x := by unfold neg0; split <;> linarith
theorem neg0_mono {x y : Rat} (h : x ≤ y) : neg0 x ≤ neg0 y := by unfold neg0; split <;> split <;> linarith

theorem hiR_succ (g rmax : Rat) (n : Nat) : hiR g rmax (n+1) = rmax + g * pos0 (hiR g rmax n) := rfl
theorem loR_succ (g rmin : Rat) (n : Nat) : loR g rmin (n+1) = rmin + g * neg0 (loR g rmin n) := rfl

theorem pos0_hiR_mono (g rmax : Rat) (hg : 0 ≤ g) : ∀ n, pos0 (hiR g rmax n) ≤ pos0 (hiR g rmax (n+1)) := by
  intro n
  induction n with
  | zero => show pos0 0 ≤ _; have : pos0 (0:Rat) = 0 := by simp [pos0]
            rw [this]; exact pos0_nonneg _
  | succ n ih =>
    apply pos0_mono
    have e1 := hiR_succ g rmax (n+1)
    have e2 := hiR_succ g rmax n
    have := mul_le_mul_of_nonneg_left ih hg
    linarith

theorem neg0_loR_anti (g rmin : Rat) (hg : 0 ≤ g) : ∀ n, neg0 (loR g rmin (n+1)) ≤ neg0 (loR g rmin n) := by
  intro n
  induction n with
  | zero => show _ ≤ neg0 0; have : neg0 (0:Rat) = 0 := by simp [neg0]
            rw [this]; exact neg0_nonpos _
  | succ n ih =>
    apply neg0_mono
    have e1 := loR_succ g rmin (n+1)
    have e2 := loR_succ g rmin n
    have := mul_le_mul_of_nonneg_left ih hg
    linarith

/-- more remaining steps ⇒ wider range (for at least one step) -/
theorem hiR_mono (g rmax : Rat) (hg : 0 ≤ g) : ∀ j k, 1 ≤ j → j ≤ k → hiR g rmax j ≤ hiR g rmax k := by
  intro j k hj hjk
  induction k with
  | zero => omega
  | succ k ih =>
    by_cases hjk' : j = k + 1
    · subst hjk'; exact le_refl _
    · have h1 := ih (by omega)
      obtain ⟨k', rfl⟩ : ∃ k', k = k' + 1 := ⟨k - 1, by omega⟩
      rw [hiR_succ g rmax (k'+1)]
      rw [hiR_succ] at h1
      have := mul_le_mul_of_nonneg_left (pos0_hiR_mono g rmax hg k') hg
      linarith

theorem loR_anti (g rmin : Rat) (hg : 0 ≤ g) : ∀ j k, 1 ≤ j → j ≤ k → loR g rmin k ≤ loR g rmin j := by
  intro j k hj hjk
  induction k with
  | zero => omega
  | succ k ih =>
    by_cases hjk' : j = k + 1
    · subst hjk'; exact le_refl _
    · have h1 := ih (by omega)
      obtain ⟨k', rfl⟩ : ∃ k', k = k' + 1 := ⟨k - 1, by omega⟩
      rw [loR_succ g rmin (k'+1)]
      rw [loR_succ] at h1
      have := mul_le_mul_of_nonneg_left (neg0_loR_anti g rmin hg k') hg
      linarith

/-- what the theorems assume of the generative model: a discount ≥ 0 and rewards within `[rmin, rmax]` -/
structure Bnd (m : Mdl) (rmin rmax : Rat) : Prop where
  g0 : 0 ≤ m.gamma
  r : ∀ st, m.valid st = true → rmin ≤ st.r ∧ st.r ≤ rmax

theorem Roll.bound {m : Mdl} {rmin rmax : Rat} (hb : Bnd m rmin rmax) {n s : Nat} {g : Rat} {used : List Step} {x : Rat}
    (h : Roll m n s g used x) : 0 ≤ g → g * loR m.gamma rmin n ≤ x ∧ x ≤ g * hiR m.gamma rmax n := by
  induction h with
  | zero s g => intro _; simp [loR, hiR]
  | term n s g st _ _ hv _ =>
    intro hg
    obtain ⟨h1, h2⟩ := hb.r st hv
    rw [loR_succ, hiR_succ]
    have e1 := mul_nonneg hb.g0 (pos0_nonneg (hiR m.gamma rmax n))
    have e2 := mul_nonpos_of_nonneg_of_nonpos hb.g0 (neg0_nonpos (loR m.gamma rmin n))
    constructor
    · apply mul_le_mul_of_nonneg_left _ hg; linarith
    · apply mul_le_mul_of_nonneg_left _ hg; linarith
  | step n s g st used x _ _ hv _ _ ih =>
    intro hg
    obtain ⟨h1, h2⟩ := hb.r st hv
    have hgg : 0 ≤ g * m.gamma := mul_nonneg hg hb.g0
    obtain ⟨i1, i2⟩ := ih hgg
    rw [loR_succ, hiR_succ]
    have e1 := mul_le_mul_of_nonneg_left (le_pos0 (hiR m.gamma rmax n)) hgg
    have e2 := mul_le_mul_of_nonneg_left (neg0_le (loR m.gamma rmin n)) hgg
    have e3 := mul_le_mul_of_nonneg_left h1 hg
    have e4 := mul_le_mul_of_nonneg_left h2 hg
    constructor
    · have : g * (rmin + m.gamma * neg0 (loR m.gamma rmin n)) = g * rmin + g * m.gamma * neg0 (loR m.gamma rmin n) := by ring
      rw [this]; linarith
    · have : g * (rmax + m.gamma * pos0 (hiR m.gamma rmax n)) = g * rmax + g * m.gamma * pos0 (hiR m.gamma rmax n) := by ring
      rw [this]; linarith

/-- one more step in front of a future return that is `0` or within the range for `n` steps -/
theorem step_bound {m : Mdl} {rmin rmax : Rat} (hb : Bnd m rmin rmax) {st : Step} (hv : m.valid st = true) {fr : Rat} {n : Nat}
    (h1 : neg0 (loR m.gamma rmin n) ≤ fr) (h2 : fr ≤ pos0 (hiR m.gamma rmax n)) :
    loR m.gamma rmin (n+1) ≤ st.r + m.gamma * fr ∧ st.r + m.gamma * fr ≤ hiR m.gamma rmax (n+1) := by
  obtain ⟨r1, r2⟩ := hb.r st hv
  rw [loR_succ, hiR_succ]
  have e1 := mul_le_mul_of_nonneg_left h1 hb.g0
  have e2 := mul_le_mul_of_nonneg_left h2 hb.g0
  constructor <;> linarith

/-- **the return of a `simulate` call at depth `depth` is an achievable return over at most
    `H - depth + overrun` steps** -/
theorem Sim.bound {m : Mdl} {rmin rmax : Rat} (hb : Bnd m rmin rmax) {H : Nat} {t t' : Tree} {p : Path} {s depth : Nat}
    {used : List Step} {r : Rat} (h : Sim m H t p s depth used t' r) : depth < H →
    loR m.gamma rmin (H - depth + m.overrun) ≤ r ∧ r ≤ hiR m.gamma rmax (H - depth + m.overrun) := by
  induction h with
  | stop t p s depth st t1 _ _ hv _ =>
    intro hlt
    obtain ⟨r1, r2⟩ := hb.r st hv
    have h1 := hiR_mono m.gamma rmax hb.g0 1 (H - depth + m.overrun) (le_refl 1) (by omega)
    have h2 := loR_anti m.gamma rmin hb.g0 1 (H - depth + m.overrun) (le_refl 1) (by omega)
    have e1 : hiR m.gamma rmax 1 = rmax := by simp [hiR]
    have e2 : loR m.gamma rmin 1 = rmin := by simp [loR]
    constructor <;> linarith
  | roll t p s depth st t1 n used fr _ _ hv hd hR =>
    intro hlt
    obtain ⟨_, _, _, _, _, _, _, _, hn⟩ := descend_spec hd
    have hn' := hn n rfl
    have hlen := rollLen_le m H depth hlt
    obtain ⟨b1, b2⟩ := hR.bound hb (by norm_num)
    rw [one_mul] at b1 b2
    have := step_bound hb hv (n := n) (fr := fr) (le_trans (neg0_le _) b1) (le_trans b2 (le_pos0 _))
    have h1 := hiR_mono m.gamma rmax hb.g0 (n+1) (H - depth + m.overrun) (by omega) (by omega)
    have h2 := loR_anti m.gamma rmin hb.g0 (n+1) (H - depth + m.overrun) (by omega) (by omega)
    constructor <;> linarith [this.1, this.2]
  | deeper t p s depth st t1 t2 used fr _ _ hv hd _ ih =>
    intro hlt
    obtain ⟨_, _, _, _, _, _, _, hm, _⟩ := descend_spec hd
    have hd1 := (hm rfl).1
    obtain ⟨b1, b2⟩ := ih hd1
    have := step_bound hb hv (n := H - (depth + 1) + m.overrun) (fr := fr) (le_trans (neg0_le _) b1) (le_trans b2 (le_pos0 _))
    have e : H - (depth + 1) + m.overrun + 1 = H - depth + m.overrun := by omega
    rw [e] at this
    exact this


/-- every return that was averaged into an action value of a node at depth `|q|` is an achievable return over
    `k ≥ 1` steps that fit into the tree's step budget below that depth -/
def RngInv (m : Mdl) (rmin rmax : Rat) (t : Tree) : Prop :=
  ∀ q a x, x ∈ t.rets q a → ∃ k, 1 ≤ k ∧ k + q.length ≤ t.budget ∧ loR m.gamma rmin k ≤ x ∧ x ≤ hiR m.gamma rmax k

theorem RngInv.of_eq {m : Mdl} {rmin rmax : Rat} {t t1 : Tree} (h : RngInv m rmin rmax t) (e1 : t1.rets = t.rets)
    (e2 : t1.budget = t.budget) : RngInv m rmin rmax t1 := by
  intro q a x hx; rw [e1] at hx; rw [e2]; exact h q a x hx

theorem RngInv.update {m : Mdl} {rmin rmax : Rat} {t : Tree} (h : RngInv m rmin rmax t) (p : Path) (a : Nat) (rew : Rat)
    (hr : ∃ k, 1 ≤ k ∧ k + p.length ≤ t.budget ∧ loR m.gamma rmin k ≤ rew ∧ rew ≤ hiR m.gamma rmax k) :
    RngInv m rmin rmax (t.update p a rew) := by
  intro q b x hx
  show ∃ k, 1 ≤ k ∧ k + q.length ≤ t.budget ∧ _
  have hx' : x ∈ upd t.rets p (updN (t.rets p) a (rew :: t.rets p a)) q b := hx
  by_cases hq : q = p
  · subst hq
    simp only [upd, if_true] at hx'
    by_cases hb : b = a
    · subst hb
      simp only [updN, if_true, List.mem_cons] at hx'
      rcases hx' with rfl | hx'
      · exact hr
      · exact h q b x hx'
    · simp only [updN, hb, if_false] at hx'
      exact h q b x hx'
  · simp only [upd, hq, if_false] at hx'
    exact h q b x hx'

/-- **every `simulate` call keeps all recorded returns within the achievable range** -/
theorem Sim.rngInv {m : Mdl} {rmin rmax : Rat} (hb : Bnd m rmin rmax) {H : Nat} {t t' : Tree} {p : Path} {s depth : Nat}
    {used : List Step} {r : Rat} (h : Sim m H t p s depth used t' r) :
    depth < H → (H - depth + m.overrun) + p.length ≤ t.budget → RngInv m rmin rmax t →
    RngInv m rmin rmax t' ∧ t'.budget = t.budget := by
  induction h with
  | stop t p s depth st t1 hs ha hv hd =>
    intro hlt hbud hI
    have hS := Sim.stop (m := m) (H := H) t p s depth st t1 hs ha hv hd
    obtain ⟨_, _, _, e4, e5, _⟩ := descend_spec hd
    have h1 : RngInv m rmin rmax t1 := hI.of_eq e4 e5
    have hbd : t1.budget = t.budget := e5
    refine ⟨h1.update p st.a st.r ⟨H - depth + m.overrun, by omega, by omega, hS.bound hb hlt⟩, hbd⟩
  | roll t p s depth st t1 n used fr hs ha hv hd hR =>
    intro hlt hbud hI
    have hS := Sim.roll (m := m) (H := H) t p s depth st t1 n used fr hs ha hv hd hR
    obtain ⟨_, _, _, e4, e5, _⟩ := descend_spec hd
    have h1 : RngInv m rmin rmax t1 := hI.of_eq e4 e5
    have hbd : t1.budget = t.budget := e5
    refine ⟨h1.update p st.a _ ⟨H - depth + m.overrun, by omega, by omega, hS.bound hb hlt⟩, hbd⟩
  | deeper t p s depth st t1 t2 used fr hs ha hv hd hS' ih =>
    intro hlt hbud hI
    have hS := Sim.deeper (m := m) (H := H) t p s depth st t1 t2 used fr hs ha hv hd hS'
    obtain ⟨_, _, _, e4, e5, _, _, hm, _⟩ := descend_spec hd
    have hd1 := (hm rfl).1
    have h1 : RngInv m rmin rmax t1 := hI.of_eq e4 e5
    have hbd : t1.budget = t.budget := e5
    obtain ⟨h2, hb2⟩ := ih hd1 (by simp; omega) h1
    refine ⟨h2.update p st.a _ ⟨H - depth + m.overrun, by omega, by omega, hS.bound hb hlt⟩, ?_⟩
    show t2.budget = t.budget
    rw [hb2, hbd]


/-! ### Particles and node keys are consistent with the history (clause `particles_consistent`) -/

/-- `par`: every particle of the node reached by history `q ++ [(a, o)]` is the outcome `s1` of a possible
    transition of the generative model (`valid`) under action `a` with observation / key `o` from a particle of
    the node reached by `q`.  (MCTS: the "particles" are the states the simulations passed through the node.)
    `nex`/`pre`: nodes that do not exist hold no particles; existing nodes have existing parents. -/
structure StrInv (m : Mdl) (t : Tree) : Prop where
  nex : ∀ q, t.ex q = false → t.parts q = []
  pre : ∀ q k, t.ex (q ++ [k]) = true → t.ex q = true
  par : ∀ q k x, x ∈ t.parts (q ++ [k]) →
    ∃ st : Step, st.s ∈ t.parts q ∧ m.valid st = true ∧ st.a = k.1 ∧ st.s1 = x ∧ m.key st = k.2

theorem ne_append_singleton (p : Path) (k : Key) : p ≠ p ++ [k] := by
  intro h
  have := congrArg List.length h
  simp at this

theorem StrInv.descend {m : Mdl} {H : Nat} {t t1 : Tree} {p : Path} {depth : Nat} {st : Step} {mode : Mode}
    (h : StrInv m t) (hex : t.ex p = true) (hs : st.s ∈ t.parts p) (hv : m.valid st = true)
    (hd : descend m H t p depth st = some (t1, mode)) : StrInv m t1 := by
  obtain ⟨_, _, _, _, _, _, hshape, _, _⟩ := descend_spec hd
  have hne := ne_append_singleton p (st.a, m.key st)
  cases hshape with
  | created hc e1 e2 _ _ _ =>
    refine ⟨fun q hq => ?_, fun q k hq => ?_, fun q k x hx => ?_⟩
    · rw [e1] at hq; rw [e2]
      by_cases hqc : q = p ++ [(st.a, m.key st)]
      · simp [upd, hqc] at hq
      · simp only [upd, hqc, if_false] at hq ⊢; exact h.nex q hq
    · rw [e1] at hq ⊢
      by_cases hqc : q ++ [k] = p ++ [(st.a, m.key st)]
      · obtain ⟨rfl, _⟩ := List.append_inj' hqc rfl
        simp only [upd, hne, if_false]; exact hex
      · simp only [upd, hqc, if_false] at hq
        have := h.pre q k hq
        by_cases hq2 : q = p ++ [(st.a, m.key st)]
        · simp [upd, hq2]
        · simp only [upd, hq2, if_false]; exact this
    · rw [e2] at hx ⊢
      by_cases hqc : q ++ [k] = p ++ [(st.a, m.key st)]
      · obtain ⟨rfl, hk⟩ := List.append_inj' hqc rfl
        simp only [upd, hqc, if_true, List.mem_singleton] at hx
        have hk' : k = (st.a, m.key st) := by simpa using hk
        refine ⟨st, ?_, hv, by rw [hk'], hx.symm, by rw [hk']⟩
        simp only [upd, hne, if_false]; exact hs
      · simp only [upd, hqc, if_false] at hx
        obtain ⟨st', h1, h2, h3, h4, h5⟩ := h.par q k x hx
        refine ⟨st', ?_, h2, h3, h4, h5⟩
        by_cases hq2 : q = p ++ [(st.a, m.key st)]
        · rw [hq2, h.nex _ hc] at h1; simp at h1
        · simp only [upd, hq2, if_false]; exact h1
  | pushed hc e1 e2 _ =>
    refine ⟨fun q hq => ?_, fun q k hq => ?_, fun q k x hx => ?_⟩
    · rw [e1] at hq; rw [e2]
      have hqc : q ≠ p ++ [(st.a, m.key st)] := by
        intro hqc; rw [hqc, hc] at hq; simp at hq
      simp only [upd, hqc, if_false]; exact h.nex q hq
    · rw [e1] at hq ⊢; exact h.pre q k hq
    · rw [e2] at hx ⊢
      have hsub : ∀ q y, y ∈ t.parts q → y ∈ upd t.parts (p ++ [(st.a, m.key st)]) (t.parts (p ++ [(st.a, m.key st)]) ++ [st.s1]) q := by
        intro q y hy
        by_cases hq2 : q = p ++ [(st.a, m.key st)]
        · subst hq2; simp only [upd, if_true]; exact List.mem_append_left _ hy
        · simp only [upd, hq2, if_false]; exact hy
      by_cases hqc : q ++ [k] = p ++ [(st.a, m.key st)]
      · obtain ⟨rfl, hk⟩ := List.append_inj' hqc rfl
        have hk' : k = (st.a, m.key st) := by simpa using hk
        simp only [upd, hqc, if_true, List.mem_append, List.mem_singleton] at hx
        rcases hx with hx | hx
        · rw [← hqc] at hx
          obtain ⟨st', h1, h2, h3, h4, h5⟩ := h.par q k x hx
          exact ⟨st', hsub _ _ h1, h2, h3, h4, h5⟩
        · exact ⟨st, hsub _ _ hs, hv, by rw [hk'], hx.symm, by rw [hk']⟩
      · simp only [upd, hqc, if_false] at hx
        obtain ⟨st', h1, h2, h3, h4, h5⟩ := h.par q k x hx
        exact ⟨st', hsub _ _ h1, h2, h3, h4, h5⟩
  | untouched e _ _ => rw [e]; exact h

theorem StrInv.of_eq {m : Mdl} {t t1 : Tree} (h : StrInv m t) (e1 : t1.ex = t.ex) (e2 : t1.parts = t.parts) : StrInv m t1 := by
  refine ⟨fun q hq => ?_, fun q k hq => ?_, fun q k x hx => ?_⟩
  · rw [e1] at hq; rw [e2]; exact h.nex q hq
  · rw [e1] at hq ⊢; exact h.pre q k hq
  · rw [e2] at hx ⊢; exact h.par q k x hx

/-- **every `simulate` call keeps the particles consistent with the histories of their nodes** -/
theorem Sim.strInv {m : Mdl} {H : Nat} {t t' : Tree} {p : Path} {s depth : Nat} {used : List Step} {r : Rat}
    (h : Sim m H t p s depth used t' r) : StrInv m t → t.ex p = true → s ∈ t.parts p → StrInv m t' := by
  induction h with
  | stop t p s depth st t1 hs _ hv hd =>
    intro hI hex hsp
    have h1 : StrInv m t1 := StrInv.descend (t := t.incN p) (hI.of_eq rfl rfl) hex (by rw [hs]; exact hsp) hv hd
    exact h1.of_eq rfl rfl
  | roll t p s depth st t1 n used fr hs _ hv hd _ =>
    intro hI hex hsp
    have h1 : StrInv m t1 := StrInv.descend (t := t.incN p) (hI.of_eq rfl rfl) hex (by rw [hs]; exact hsp) hv hd
    exact h1.of_eq rfl rfl
  | deeper t p s depth st t1 t2 used fr hs _ hv hd _ ih =>
    intro hI hex hsp
    have h1 : StrInv m t1 := StrInv.descend (t := t.incN p) (hI.of_eq rfl rfl) hex (by rw [hs]; exact hsp) hv hd
    obtain ⟨_, _, _, _, _, _, _, hm, _⟩ := descend_spec hd
    obtain ⟨_, hex1, hs1, _⟩ := hm rfl
    exact (ih h1 hex1 hs1).of_eq rfl rfl


/-- nodes are never removed by a simulation -/
theorem Sim.ex_mono {m : Mdl} {H : Nat} {t t' : Tree} {p : Path} {s depth : Nat} {used : List Step} {r : Rat}
    (h : Sim m H t p s depth used t' r) : ∀ q, t.ex q = true → t'.ex q = true := by
  have key : ∀ {t t1 : Tree} {p : Path} {depth : Nat} {st : Step} {mode : Mode},
      descend m H (t.incN p) p depth st = some (t1, mode) → ∀ q, t.ex q = true → t1.ex q = true := by
    intro t t1 p depth st mode hd q hq
    obtain ⟨_, _, _, _, _, _, hshape, _, _⟩ := descend_spec hd
    cases hshape with
    | created _ e1 _ _ _ _ =>
      rw [e1]; by_cases hqc : q = p ++ [(st.a, m.key st)]
      · simp [upd, hqc]
      · simp only [upd, hqc, if_false]; exact hq
    | pushed _ e1 _ _ => rw [e1]; exact hq
    | untouched e _ _ => rw [e]; exact hq
  induction h with
  | stop t p s depth st t1 _ _ _ hd => intro q hq; exact key hd q hq
  | roll t p s depth st t1 n used fr _ _ _ hd _ => intro q hq; exact key hd q hq
  | deeper t p s depth st t1 t2 used fr _ _ _ hd _ ih => intro q hq; exact ih q (key hd q hq)

theorem Sim.budget_eq {m : Mdl} {H : Nat} {t t' : Tree} {p : Path} {s depth : Nat} {used : List Step} {r : Rat}
    (h : Sim m H t p s depth used t' r) : t'.budget = t.budget := by
  induction h with
  | stop t p s depth st t1 _ _ _ hd => obtain ⟨_, _, _, _, e5, _⟩ := descend_spec hd; exact e5
  | roll t p s depth st t1 n used fr _ _ _ hd _ => obtain ⟨_, _, _, _, e5, _⟩ := descend_spec hd; exact e5
  | deeper t p s depth st t1 t2 used fr _ _ _ hd _ ih =>
    obtain ⟨_, _, _, _, e5, _⟩ := descend_spec hd
    show t2.budget = t.budget
    rw [ih]; exact e5

/-! ### Nodes that do not exist carry no data (so that node creation really yields `N = 0`, no action nodes) -/

def ZInv (t : Tree) : Prop :=
  ∀ q, t.ex q = false → t.nN q = 0 ∧ t.nA q = 0 ∧ ∀ a, t.aN q a = 0 ∧ t.aV q a = 0 ∧ t.rets q a = []

theorem ZInv.descend {m : Mdl} {H : Nat} {t t1 : Tree} {p : Path} {depth : Nat} {st : Step} {mode : Mode}
    (h : ZInv t) (hd : descend m H t p depth st = some (t1, mode)) : ZInv t1 := by
  obtain ⟨e1, e2, e3, e4, _, hA, hshape, _, _⟩ := descend_spec hd
  intro q hq
  have key : t.ex q = false ∧ t1.nA q = t.nA q := by
    cases hshape with
    | created hc e _ _ hnA _ =>
      rw [e] at hq
      by_cases hqc : q = p ++ [(st.a, m.key st)]
      · simp [upd, hqc] at hq
      · simp only [upd, hqc, if_false] at hq; exact ⟨hq, hnA q⟩
    | pushed hc e _ _ =>
      rw [e] at hq
      refine ⟨hq, ?_⟩
      rcases hA q with h1 | ⟨h1, _⟩
      · exact h1
      · rw [h1, hc] at hq; simp at hq
    | untouched e _ _ => rw [e] at hq ⊢; exact ⟨hq, rfl⟩
  obtain ⟨z1, z2, z3⟩ := h q key.1
  refine ⟨by rw [e1]; exact z1, by rw [key.2]; exact z2, fun a => ?_⟩
  rw [e2, e3, e4]; exact z3 a

theorem ZInv.update {t : Tree} (h : ZInv t) (p : Path) (a : Nat) (rew : Rat) (hex : t.ex p = true) : ZInv (t.update p a rew) := by
  intro q hq
  have hq' : t.ex q = false := hq
  have hne : q ≠ p := by intro e; rw [e, hex] at hq'; simp at hq'
  obtain ⟨z1, z2, z3⟩ := h q hq'
  refine ⟨z1, z2, fun b => ?_⟩
  show upd t.aN p _ q b = 0 ∧ upd t.aV p _ q b = 0 ∧ upd t.rets p _ q b = []
  simp only [upd, hne, if_false]; exact z3 b

theorem ZInv.incN {t : Tree} (h : ZInv t) (p : Path) (hex : t.ex p = true) : ZInv (t.incN p) := by
  intro q hq
  have hq' : t.ex q = false := hq
  have hne : q ≠ p := by intro e; rw [e, hex] at hq'; simp at hq'
  obtain ⟨z1, z2, z3⟩ := h q hq'
  refine ⟨?_, z2, z3⟩
  show upd t.nN p _ q = 0
  simp only [upd, hne, if_false]; exact z1

theorem Sim.zInv {m : Mdl} {H : Nat} {t t' : Tree} {p : Path} {s depth : Nat} {used : List Step} {r : Rat}
    (h : Sim m H t p s depth used t' r) : ZInv t → t.ex p = true → ZInv t' := by
  have exd : ∀ {t t1 : Tree} {p : Path} {depth : Nat} {st : Step} {mode : Mode},
      descend m H (t.incN p) p depth st = some (t1, mode) → t.ex p = true → t1.ex p = true := by
    intro t t1 p depth st mode hd hex
    obtain ⟨_, _, _, _, _, _, hshape, _, _⟩ := descend_spec hd
    cases hshape with
    | created _ e _ _ _ _ =>
      rw [e]; by_cases hqc : p = p ++ [(st.a, m.key st)]
      · simp [upd, ← hqc]
      · simp only [upd, hqc, if_false]; exact hex
    | pushed _ e _ _ => rw [e]; exact hex
    | untouched e _ _ => rw [e]; exact hex
  induction h with
  | stop t p s depth st t1 _ _ _ hd =>
    intro hz hex
    exact ((hz.incN p hex).descend hd).update p _ _ (exd hd hex)
  | roll t p s depth st t1 n used fr _ _ _ hd _ =>
    intro hz hex
    exact ((hz.incN p hex).descend hd).update p _ _ (exd hd hex)
  | deeper t p s depth st t1 t2 used fr _ _ _ hd hS ih =>
    intro hz hex
    obtain ⟨_, _, _, _, _, _, _, hm, _⟩ := descend_spec hd
    have h1 := (hz.incN p hex).descend hd
    have h2 := ih h1 (hm rfl).2.1
    exact h2.update p _ _ (hS.ex_mono p (exd hd hex))

/-! ### `nodes` lists exactly the existing nodes, each once (what the driver's node-count comparison relies on) -/

structure NodesInv (t : Tree) : Prop where
  mem : ∀ q, q ∈ t.nodes ↔ t.ex q = true
  nodup : t.nodes.Nodup

theorem NodesInv.of_eq {t t1 : Tree} (h : NodesInv t) (e1 : t1.ex = t.ex) (e2 : t1.nodes = t.nodes) : NodesInv t1 :=
  ⟨fun q => by rw [e1, e2]; exact h.mem q, by rw [e2]; exact h.nodup⟩

theorem NodesInv.descend {m : Mdl} {H : Nat} {t t1 : Tree} {p : Path} {depth : Nat} {st : Step} {mode : Mode}
    (h : NodesInv t) (hd : descend m H t p depth st = some (t1, mode)) : NodesInv t1 := by
  obtain ⟨_, _, _, _, _, _, hshape, _, _⟩ := descend_spec hd
  cases hshape with
  | created hc e1 _ e4 _ _ =>
    refine ⟨fun q => ?_, ?_⟩
    · rw [e1, e4]
      by_cases hqc : q = p ++ [(st.a, m.key st)]
      · subst hqc; simp [upd]
      · simp only [List.mem_append, List.mem_singleton, hqc, or_false, upd, if_false]; exact h.mem q
    · rw [e4, List.nodup_append]
      refine ⟨h.nodup, by simp, fun a ha b hb => ?_⟩
      simp only [List.mem_singleton] at hb
      subst hb
      intro hab; subst hab
      have := (h.mem _).1 ha
      rw [hc] at this; simp at this
  | pushed _ e1 _ e4 => exact h.of_eq e1 e4
  | untouched e _ _ => rw [e]; exact h

theorem Sim.nodesInv {m : Mdl} {H : Nat} {t t' : Tree} {p : Path} {s depth : Nat} {used : List Step} {r : Rat}
    (h : Sim m H t p s depth used t' r) : NodesInv t → NodesInv t' := by
  induction h with
  | stop t p s depth st t1 _ _ _ hd =>
    intro hI
    exact (NodesInv.descend (t := t.incN p) (hI.of_eq rfl rfl) hd).of_eq rfl rfl
  | roll t p s depth st t1 n used fr _ _ _ hd _ =>
    intro hI
    exact (NodesInv.descend (t := t.incN p) (hI.of_eq rfl rfl) hd).of_eq rfl rfl
  | deeper t p s depth st t1 t2 used fr _ _ _ hd _ ih =>
    intro hI
    exact (ih (NodesInv.descend (t := t.incN p) (hI.of_eq rfl rfl) hd)).of_eq rfl rfl

theorem NodesInv.reroot {t : Tree} (h : NodesInv t) (k : Key) : NodesInv (t.reroot k) := by
  refine ⟨fun q => ?_, ?_⟩
  · show q ∈ t.nodes.filterMap _ ↔ t.ex (k :: q) = true
    rw [← h.mem (k :: q), List.mem_filterMap]
    constructor
    · rintro ⟨a, ha, hf⟩
      cases a with
      | nil => simp at hf
      | cons k' r =>
        by_cases hk : k' = k
        · subst hk; simp at hf; subst hf; exact ha
        · simp [hk] at hf
    · intro hq; exact ⟨k :: q, hq, by simp⟩
  · show (t.nodes.filterMap _).Nodup
    apply List.Nodup.filterMap _ h.nodup
    intro a a' b hb hb'
    cases a with
    | nil => simp at hb
    | cons k1 r1 =>
      cases a' with
      | nil => simp at hb'
      | cons k2 r2 =>
        by_cases h1 : k1 = k
        · by_cases h2 : k2 = k
          · subst h1; subst h2; simp at hb hb'; rw [hb, hb']
          · simp [h2] at hb'
        · simp [h1] at hb

/-! ### Whole calls and histories of calls -/

/-- `Sims m H n t useds t'`: `n` simulations from the root, the i-th making exactly the calls `useds[i]` -/
inductive Sims (m : Mdl) (H : Nat) : Nat → Tree → List (List Step) → Tree → Prop
  | zero (t : Tree) : Sims m H 0 t [] t
  | succ (n : Nat) (t t1 t2 : Tree) (s : Nat) (used : List Step) (r : Rat) (useds : List (List Step)) :
      s ∈ t.parts [] → Sim m H t [] s 0 used t1 r → Sims m H n t1 useds t2 → Sims m H (n+1) t (used :: useds) t2

theorem runSims_sound (m : Mdl) (H : Nat) : ∀ (n : Nat) (t : Tree) (log : List Step) (t' : Tree) (rest : List Step),
    runSims m H n t log = some (t', rest) → ∃ useds, log = useds.flatten ++ rest ∧ Sims m H n t useds t' := by
  intro n
  induction n with
  | zero =>
    intro t log t' rest h
    simp [runSims] at h
    obtain ⟨rfl, rfl⟩ := h
    exact ⟨[], rfl, Sims.zero t⟩
  | succ n ih =>
    intro t log t' rest h
    cases log with
    | nil => simp [runSims] at h
    | cons st log =>
      simp only [runSims] at h
      split at h
      · rename_i hc
        split at h
        · simp at h
        · rename_i t1 r log' hsim
          obtain ⟨used, hu, hS⟩ := simulate_sound m H _ _ _ _ _ _ _ _ _ hsim
          obtain ⟨useds, hus, hSs⟩ := ih _ _ _ _ h
          refine ⟨used :: useds, ?_, Sims.succ n t t1 t' st.s used r useds (by simpa using hc) hS hSs⟩
          rw [hu, hus]; simp
      · simp at h

/-- everything the check relies on, for a tree between two public calls -/
structure Inv (m : Mdl) (rmin rmax : Rat) (t : Tree) : Prop where
  stat : StatInv (fun _ => 0) t
  /-- the range clause is the only one that needs the rewards bounded and the discount non-negative -/
  rng : Bnd m rmin rmax → RngInv m rmin rmax t
  str : StrInv m t
  zero : ZInv t
  nodes : NodesInv t
  root : t.ex [] = true

theorem Sims.inv {m : Mdl} {rmin rmax : Rat} {H n : Nat} {t t' : Tree} {useds : List (List Step)}
    (h : Sims m H n t useds t') : 0 < H → H + m.overrun ≤ t.budget → Inv m rmin rmax t →
    Inv m rmin rmax t' ∧ t'.budget = t.budget ∧ useds.length = n ∧ ∀ u ∈ useds, u.length ≤ H + m.overrun := by
  induction h with
  | zero t => intro _ _ hI; exact ⟨hI, rfl, rfl, by simp⟩
  | succ n t t1 t2 s used r useds hs hS _ ih =>
    intro hH hbud hI
    have h1 := hS.statInv _ hI.stat
    have hb2 := hS.budget_eq
    have h2 : Bnd m rmin rmax → RngInv m rmin rmax t1 := fun hb => (hS.rngInv hb hH (by simpa using hbud) (hI.rng hb)).1
    have h3 := hS.strInv hI.str hI.root hs
    have h4 := hS.zInv hI.zero hI.root
    have h5 := hS.nodesInv hI.nodes
    have hlen := hS.length_le hH
    have hroot : t1.ex [] = true := by
      -- nodes are never removed by a simulation: the root survives because particles were pushed below it
      -- (direct: `ex` only ever gains entries)
      exact Sim.ex_mono hS [] hI.root
    obtain ⟨i1, i2, i3, i4⟩ := ih hH (by rw [hb2]; exact hbud) ⟨h1, h2, h3, h4, h5, hroot⟩
    refine ⟨i1, by rw [i2, hb2], by simp [i3], ?_⟩
    intro u hu
    simp only [List.mem_cons] at hu
    rcases hu with rfl | hu
    · simpa using hlen
    · exact i4 u hu


theorem mean_nil : mean [] = 0 := by simp [mean, sumQ]

theorem Inv.fresh (m : Mdl) (rmin rmax : Rat) (parts : List Nat) (nA b : Nat) : Inv m rmin rmax (Tree.fresh parts nA b) := by
  refine ⟨⟨fun q => ?_, fun q a => rfl, fun q a => ?_, fun q a _ => rfl⟩, fun _ q a x hx => ?_, ⟨fun q hq => ?_, fun q k hq => ?_, fun q k x hx => ?_⟩, fun q hq => ?_, ⟨fun q => ?_, ?_⟩, rfl⟩
  · show 0 = sumTo (fun _ => 0) _ + 0
    rw [sumTo_zero _ (fun _ => rfl)]
  · show (0 : Rat) = mean []
    rw [mean_nil]
  · simp [Tree.fresh] at hx
  · simp only [Tree.fresh, beq_eq_false_iff_ne, ne_eq] at hq ⊢
    simp [hq]
  · simp [Tree.fresh] at hq
  · simp [Tree.fresh] at hx
  · simp only [Tree.fresh, beq_eq_false_iff_ne, ne_eq] at hq
    simp [Tree.fresh, hq]
  · simp [Tree.fresh]
  · simp [Tree.fresh]

theorem StatInv.of_nA {pend : Path → Nat} {t t1 : Tree} (h : StatInv pend t) (e1 : t1.nN = t.nN) (e2 : t1.aN = t.aN)
    (e3 : t1.aV = t.aV) (e4 : t1.rets = t.rets) (hA : ∀ q, t1.nA q = t.nA q ∨ t.nA q = 0) : StatInv pend t1 := by
  refine ⟨fun q => ?_, fun q a => ?_, fun q a => ?_, fun q a hqa => ?_⟩
  · rw [e1, e2]
    rcases hA q with hq | hq0
    · rw [hq]; exact h.cnt q
    · have hz : ∀ a, t.aN q a = 0 := fun a => h.out q a (by omega)
      rw [sumTo_zero _ hz]
      have := h.cnt q
      rw [hq0] at this
      simpa [sumTo] using this
  · rw [e2, e4]; exact h.len q a
  · rw [e3, e4]; exact h.avg q a
  · rw [e2]
    rcases hA q with hq | hq0
    · exact h.out q a (by omega)
    · exact h.out q a (by omega)

theorem Inv.alloc {m : Mdl} {rmin rmax : Rat} {t t1 : Tree} {p : Path} {n : Nat} (h : Inv m rmin rmax t)
    (hex : t.ex p = true) (ha : t.alloc p n = some t1) : Inv m rmin rmax t1 ∧ t1.budget = t.budget := by
  obtain ⟨a1, a2, a3, a4, a5, a6, a7, a8, _, a10⟩ := alloc_spec ha
  refine ⟨⟨h.stat.of_nA a1 a2 a3 a4 (fun q => ?_), fun hb => (h.rng hb).of_eq a4 a5, h.str.of_eq a6 a7, fun q hq => ?_,
    h.nodes.of_eq a6 a8, by rw [a6]; exact h.root⟩, a5⟩
  · rcases a10 q with hq | ⟨_, hq⟩
    · left; exact hq
    · right; exact hq
  · rw [a6] at hq
    obtain ⟨z1, z2, z3⟩ := h.zero q hq
    refine ⟨by rw [a1]; exact z1, ?_, fun a => by rw [a2, a3, a4]; exact z3 a⟩
    rcases a10 q with h1 | ⟨h1, _⟩
    · rw [h1]; exact z2
    · exfalso
      -- `alloc` is only ever applied to an existing node
      rw [h1, hex] at hq; simp at hq

theorem Inv.withBudget {m : Mdl} {rmin rmax : Rat} {t : Tree} (h : Inv m rmin rmax t) (b : Nat) :
    Inv m rmin rmax (t.withBudget b) ∧ b ≤ (t.withBudget b).budget := by
  refine ⟨⟨h.stat.of_nA rfl rfl rfl rfl (fun _ => Or.inl rfl), fun hb q a x hx => ?_, h.str.of_eq rfl rfl, h.zero, h.nodes.of_eq rfl rfl, h.root⟩, ?_⟩
  · obtain ⟨k, h1, h2, h3⟩ := h.rng hb q a x hx
    refine ⟨k, h1, ?_, h3⟩
    show k + q.length ≤ if t.budget < b then b else t.budget
    split <;> omega
  · show b ≤ if t.budget < b then b else t.budget
    split <;> omega

/-- subtree promotion keeps the invariant; the step budget of the promoted subtree is one less -/
theorem Inv.reroot {m : Mdl} {rmin rmax : Rat} {t : Tree} (h : Inv m rmin rmax t) (k : Key) (hex : t.ex [k] = true) :
    Inv m rmin rmax (t.reroot k) := by
  refine ⟨⟨fun q => h.stat.cnt (k :: q), fun q a => h.stat.len (k :: q) a, fun q a => h.stat.avg (k :: q) a,
    fun q a hqa => h.stat.out (k :: q) a hqa⟩, fun hb q a x hx => ?_, ⟨fun q hq => h.str.nex (k :: q) hq,
    fun q k' hq => h.str.pre (k :: q) k' hq, fun q k' x hx => h.str.par (k :: q) k' x hx⟩,
    fun q hq => h.zero (k :: q) hq, h.nodes.reroot k, hex⟩
  obtain ⟨j, h1, h2, h3⟩ := h.rng hb (k :: q) a x hx
  refine ⟨j, h1, ?_, h3⟩
  show j + q.length ≤ t.budget - 1
  simp at h2; omega

/-- the horizon and iteration count of an operation -/
def Op.H : Op → Nat
  | .fresh _ _ H _ => H
  | .adv _ _ _ _ H _ => H
def Op.iters : Op → Nat
  | .fresh _ _ _ n => n
  | .adv _ _ _ _ _ n => n

theorem prepare_inv {m : Mdl} {rmin rmax : Rat} {t t0 : Tree} {op : Op} {H iters : Nat} (h : Inv m rmin rmax t)
    (hp : prepare m t op = some (t0, H, iters)) :
    Inv m rmin rmax t0 ∧ H + m.overrun ≤ t0.budget ∧ H = op.H ∧ iters = op.iters := by
  cases op with
  | fresh parts nA H' iters' =>
    simp [prepare] at hp
    obtain ⟨rfl, rfl, rfl⟩ := hp
    exact ⟨Inv.fresh m rmin rmax parts nA _, le_refl _, rfl, rfl⟩
  | adv a k parts nA H' iters' =>
    simp only [prepare] at hp
    split at hp
    · split at hp
      · rename_i _ hc
        simp only [Bool.and_eq_true] at hc
        split at hp
        · simp at hp
        · rename_i t1 hal
          simp at hp
          obtain ⟨rfl, rfl, rfl⟩ := hp
          obtain ⟨i1, _⟩ := (h.reroot (a, k) hc.1).alloc (by exact hc.1) hal
          obtain ⟨i2, i3⟩ := i1.withBudget (H' + m.overrun)
          exact ⟨i2, i3, rfl, rfl⟩
      · simp at hp
        obtain ⟨rfl, rfl, rfl⟩ := hp
        exact ⟨Inv.fresh m rmin rmax parts nA _, le_refl _, rfl, rfl⟩
    · split at hp
      · simp at hp
        obtain ⟨rfl, rfl, rfl⟩ := hp
        exact ⟨Inv.fresh m rmin rmax parts nA _, le_refl _, rfl, rfl⟩
      · simp at hp

/-- **one public call** (`sampleAction` in either form) on any logged run: the invariant is kept, the log splits
    into exactly `iterations` simulations and each of them makes at most `horizon + overrun` calls of the
    generative model, the i-th on a state `i` transitions below the root -/
theorem call_spec {m : Mdl} {rmin rmax : Rat} {t t' : Tree} {op : Op} {log rest : List Step}
    (h : Inv m rmin rmax t) (hc : call m t op log = some (t', rest)) :
    Inv m rmin rmax t' ∧ (0 < op.H → ∃ useds : List (List Step), log = useds.flatten ++ rest ∧ useds.length = op.iters ∧
      ∀ u ∈ useds, u.length ≤ op.H + m.overrun) := by
  unfold call at hc
  split at hc
  · simp at hc
  · rename_i t0 H iters hp
    obtain ⟨i0, hbud, rfl, rfl⟩ := prepare_inv h hp
    split at hc
    · rename_i hH
      simp at hc
      obtain ⟨rfl, rfl⟩ := hc
      exact ⟨i0, fun h0 => by omega⟩
    · rename_i hH
      obtain ⟨useds, hl, hS⟩ := runSims_sound m _ _ _ _ _ _ hc
      obtain ⟨i1, _, i3, i4⟩ := hS.inv (by omega) hbud i0
      exact ⟨i1, fun _ => ⟨useds, hl, i3, i4⟩⟩

/-- trees reachable by any history of public calls (any horizons, iteration counts, logged runs), starting from
    a planner on which nothing has been called -/
inductive Reach (m : Mdl) : Tree → Prop
  | init : Reach m Tree.init
  | call (t t' : Tree) (op : Op) (log rest : List Step) : Reach m t → call m t op log = some (t', rest) → Reach m t'

theorem Reach.inv {m : Mdl} (rmin rmax : Rat) {t : Tree} (h : Reach m t) : Inv m rmin rmax t := by
  induction h with
  | init => exact Inv.fresh m rmin rmax [] 0 0
  | call t t' op log rest _ hc ih => exact (call_spec ih hc).1


/-! ## The property theorems -/

/-- **node_count_is_sum.**  After any history of calls, on every node: visit count = sum over its action nodes. -/
theorem node_count_is_sum {m : Mdl} {t : Tree} (h : Reach m t) (q : Path) : t.nN q = sumTo (t.aN q) (t.nA q) := by
  have := (h.inv 0 0).stat.cnt q
  simpa using this

/-- **v_is_mean.**  After any history of calls every action estimate is the mean of the returns that were
    sampled through the action (`rets`, see `Sim.records_return`), and its count is their number; an action that
    was never tried has estimate 0. -/
theorem v_is_mean {m : Mdl} {t : Tree} (h : Reach m t) (q : Path) (a : Nat) :
    t.aN q a = (t.rets q a).length ∧ t.aV q a = mean (t.rets q a) ∧ (t.aN q a = 0 → t.aV q a = 0) := by
  have hs := (h.inv 0 0).stat
  refine ⟨hs.len q a, hs.avg q a, fun h0 => ?_⟩
  have : t.rets q a = [] := List.eq_nil_of_length_eq_zero (by rw [← hs.len q a]; exact h0)
  rw [hs.avg q a, this, mean_nil]

/-- **new_nodes_are_empty.**  After any history, a node that is not in the tree carries no count, no action node,
    no value and no particle — so the node created by `aNode.children[key]` / `emplace` in the model is the
    default-constructed one of the C++ code. -/
theorem new_nodes_are_empty {m : Mdl} {t : Tree} (h : Reach m t) (q : Path) (hq : t.ex q = false) :
    t.nN q = 0 ∧ t.nA q = 0 ∧ t.parts q = [] ∧ ∀ a, t.aN q a = 0 ∧ t.aV q a = 0 ∧ t.rets q a = [] := by
  have hI := h.inv 0 0
  obtain ⟨z1, z2, z3⟩ := hI.zero q hq
  exact ⟨z1, z2, hI.str.nex q hq, z3⟩

/-- **nodes_exact.**  After any history the model's node list is exactly the set of existing nodes, without
    repetition: comparing its length and the membership of every dumped node decides equality of the node sets. -/
theorem nodes_exact {m : Mdl} {t : Tree} (h : Reach m t) : (∀ q, q ∈ t.nodes ↔ t.ex q = true) ∧ t.nodes.Nodup :=
  ⟨(h.inv 0 0).nodes.mem, (h.inv 0 0).nodes.nodup⟩

/-- the calls of one simulation are consecutive transitions: each is made on the state the previous one
    returned, so the i-th call is made on a state exactly `i` transitions below the simulation's root state -/
def IsChain : Nat → List Step → Prop
  | _, [] => True
  | s, st :: l => st.s = s ∧ IsChain st.s1 l

theorem Roll.chain {m : Mdl} {n s : Nat} {g : Rat} {used : List Step} {x : Rat} (h : Roll m n s g used x) : IsChain s used := by
  induction h with
  | zero => trivial
  | term n s g st hs => exact ⟨hs, trivial⟩
  | step n s g st used x hs _ _ _ _ ih => exact ⟨hs, ih⟩

theorem Sim.chain {m : Mdl} {H : Nat} {t t' : Tree} {p : Path} {s depth : Nat} {used : List Step} {r : Rat}
    (h : Sim m H t p s depth used t' r) : IsChain s used := by
  induction h with
  | stop t p s depth st t1 hs => exact ⟨hs, trivial⟩
  | roll t p s depth st t1 n used fr hs _ _ _ hR => exact ⟨hs, hR.chain⟩
  | deeper t p s depth st t1 t2 used fr hs _ _ _ _ ih => exact ⟨hs, ih⟩

/-- **depth_le_horizon (as the code is: `_partial`).**  In every public call with horizon ≥ 1 the logged calls of
    the generative model split into exactly `iterations` simulations, each a chain of consecutive transitions from
    a root particle of length at most `horizon + overrun`, where `overrun = max 0 (rollOff + 1)` is 2 for the
    rollout length `maxDepth_ - depth + 1` found in the source and 0 for `maxDepth_ - depth - 1`.

    Full-strength statement (`depth_le_horizon` below): the same with `≤ horizon`. -/
theorem depth_le_horizon_partial {m : Mdl} {t t' : Tree} {op : Op} {log rest : List Step} (h : Reach m t)
    (hc : call m t op log = some (t', rest)) (hH : 0 < op.H) :
    ∃ useds : List (List Step), log = useds.flatten ++ rest ∧ useds.length = op.iters ∧
      ∀ u ∈ useds, u.length ≤ op.H + m.overrun :=
  (call_spec (h.inv 0 0) hc).2 hH

/-- **depth_le_horizon.**  Holds of the code once the rollout length is at most `maxDepth_ - depth - 1`. -/
theorem depth_le_horizon {m : Mdl} (hoff : m.rollOff ≤ -1) {t t' : Tree} {op : Op} {log rest : List Step} (h : Reach m t)
    (hc : call m t op log = some (t', rest)) (hH : 0 < op.H) :
    ∃ useds : List (List Step), log = useds.flatten ++ rest ∧ useds.length = op.iters ∧ ∀ u ∈ useds, u.length ≤ op.H := by
  obtain ⟨useds, h1, h2, h3⟩ := depth_le_horizon_partial h hc hH
  refine ⟨useds, h1, h2, fun u hu => ?_⟩
  have := h3 u hu
  have h0 : m.overrun = 0 := by unfold Mdl.overrun; omega
  omega

/-- the same for the rollout offsets the translator finds in the source *now* (MCTS / POMCP) -/
theorem depth_le_horizon_as_extracted {m : Mdl}
    (hm : m.rollOff = (if m.pomcp then Gen.C19.pomcpRollOff else Gen.C19.mctsRollOff))
    {t t' : Tree} {op : Op} {log rest : List Step} (h : Reach m t)
    (hc : call m t op log = some (t', rest)) (hH : 0 < op.H) :
    ∃ useds : List (List Step), log = useds.flatten ++ rest ∧ useds.length = op.iters ∧
      ∀ u ∈ useds, u.length ≤ op.H + ((if m.pomcp then Gen.C19.pomcpRollOff else Gen.C19.mctsRollOff) + 1).toNat := by
  have := depth_le_horizon_partial h hc hH
  unfold Mdl.overrun at this
  rw [hm] at this
  exact this

/-- each simulation of a call is a chain of consecutive transitions from a root particle -/
theorem Sims.chains {m : Mdl} {H n : Nat} {t t' : Tree} {useds : List (List Step)} (h : Sims m H n t useds t') :
    ∀ u ∈ useds, ∃ s, IsChain s u := by
  induction h with
  | zero => simp
  | succ n t t1 t2 s used r useds _ hS _ ih =>
    intro u hu
    simp only [List.mem_cons] at hu
    rcases hu with rfl | hu
    · exact ⟨s, hS.chain⟩
    · exact ih u hu

theorem sumQ_bounds {l : List Rat} {lo hi : Rat} (h : ∀ x ∈ l, lo ≤ x ∧ x ≤ hi) :
    lo * (l.length : Rat) ≤ sumQ l ∧ sumQ l ≤ hi * (l.length : Rat) := by
  induction l with
  | nil => simp [sumQ]
  | cons x xs ih =>
    obtain ⟨i1, i2⟩ := ih (fun y hy => h y (List.mem_cons_of_mem _ hy))
    obtain ⟨h1, h2⟩ := h x (List.mem_cons_self)
    simp only [sumQ, List.length_cons]
    push_cast
    constructor <;> nlinarith

theorem mean_bounds {l : List Rat} {lo hi : Rat} (hne : l ≠ []) (h : ∀ x ∈ l, lo ≤ x ∧ x ≤ hi) :
    lo ≤ mean l ∧ mean l ≤ hi := by
  obtain ⟨h1, h2⟩ := sumQ_bounds h
  have hpos : (0 : Rat) < (l.length : Rat) := by
    have : 0 < l.length := List.length_pos_of_ne_nil hne
    exact_mod_cast this
  unfold mean
  constructor
  · rw [le_div_iff₀ hpos]; exact h1
  · rw [div_le_iff₀ hpos]; exact h2

/-- **v_in_return_range.**  After any history of calls, every estimate of an action that was tried, at a node
    `|q|` levels below the root, lies within the returns achievable in the steps left below that level:
    between `loR` and `hiR` of `budget - |q|`, where `budget` is `horizon + overrun` after a fresh call
    (`call_fresh_budget`) and never less than that after promotions.  (`loR n`/`hiR n`: least / greatest discounted
    sum over 1…n steps of rewards in `[rmin, rmax]`, a trajectory may stop early at a terminal state.) -/
theorem v_in_return_range {m : Mdl} {rmin rmax : Rat} (hb : Bnd m rmin rmax) {t : Tree} (h : Reach m t) (q : Path) (a : Nat)
    (hN : 0 < t.aN q a) :
    loR m.gamma rmin (t.budget - q.length) ≤ t.aV q a ∧ t.aV q a ≤ hiR m.gamma rmax (t.budget - q.length) := by
  have hI := h.inv rmin rmax
  have hne : t.rets q a ≠ [] := by
    intro he; have := hI.stat.len q a; rw [he] at this; simp at this; omega
  rw [hI.stat.avg q a]
  apply mean_bounds hne
  intro x hx
  obtain ⟨k, k1, k2, k3, k4⟩ := hI.rng hb q a x hx
  have e1 := hiR_mono m.gamma rmax hb.g0 k (t.budget - q.length) k1 (by omega)
  have e2 := loR_anti m.gamma rmin hb.g0 k (t.budget - q.length) k1 (by omega)
  constructor <;> linarith

/-- after `sampleAction(s / belief, horizon)` the step budget is exactly `horizon + overrun` -/
theorem call_fresh_budget {m : Mdl} {t t' : Tree} {parts : List Nat} {nA H iters : Nat} {log rest : List Step}
    (_h : Reach m t) (hH : 0 < H) (hc : call m t (Op.fresh parts nA H iters) log = some (t', rest)) :
    t'.budget = H + m.overrun := by
  unfold call at hc
  simp only [prepare] at hc
  split at hc
  · omega
  · obtain ⟨useds, _, hS⟩ := runSims_sound m _ _ _ _ _ _ hc
    obtain ⟨_, i2, _, _⟩ := hS.inv (rmin := 0) (rmax := 0) hH (le_refl _) (Inv.fresh m 0 0 parts nA _)
    rw [i2]; rfl

/-- **v_in_return_range, in the words of the property** (holds of the code once the rollout length is repaired):
    after a fresh call with horizon `H` every tried action's estimate at depth `|q|` is within the range of
    returns achievable in the remaining `H - |q|` steps. -/
theorem v_in_return_range_fresh {m : Mdl} {rmin rmax : Rat} (hb : Bnd m rmin rmax) (hoff : m.rollOff ≤ -1) {t t' : Tree}
    {parts : List Nat} {nA H iters : Nat} {log rest : List Step} (h : Reach m t) (hH : 0 < H)
    (hc : call m t (Op.fresh parts nA H iters) log = some (t', rest)) (q : Path) (a : Nat) (hN : 0 < t'.aN q a) :
    loR m.gamma rmin (H - q.length) ≤ t'.aV q a ∧ t'.aV q a ≤ hiR m.gamma rmax (H - q.length) := by
  have h' : Reach m t' := Reach.call t t' _ log rest h hc
  have := v_in_return_range hb h' q a hN
  rw [call_fresh_budget h hH hc] at this
  have h0 : m.overrun = 0 := by unfold Mdl.overrun; omega
  rw [h0] at this
  simpa using this

/-- a public call never raises the step budget above `max (old budget) (horizon + overrun)` -/
theorem call_budget_le {m : Mdl} {rmin rmax : Rat} {t t' : Tree} {op : Op} {log rest : List Step} (h : Inv m rmin rmax t)
    (hc : call m t op log = some (t', rest)) : t'.budget ≤ max t.budget (op.H + m.overrun) := by
  unfold call at hc
  split at hc
  · simp at hc
  · rename_i t0 H iters hp
    obtain ⟨i0, hbud, hH, _⟩ := prepare_inv h hp
    have h0 : t0.budget ≤ max t.budget (op.H + m.overrun) := by
      cases op with
      | fresh parts nA H' iters' =>
        simp [prepare] at hp
        obtain ⟨rfl, _, _⟩ := hp
        simp [Tree.fresh, Op.H]
      | adv a k parts nA H' iters' =>
        simp only [prepare] at hp
        split at hp
        · split at hp
          · split at hp
            · simp at hp
            · rename_i t1 hal
              simp at hp
              obtain ⟨rfl, _, _⟩ := hp
              obtain ⟨_, _, _, _, a5, _⟩ := alloc_spec hal
              show (if t1.budget < H' + m.overrun then H' + m.overrun else t1.budget) ≤ _
              have : t1.budget = t.budget - 1 := a5
              simp only [Op.H]
              split <;> omega
          · simp at hp
            obtain ⟨rfl, _, _⟩ := hp
            simp [Tree.fresh, Op.H]
        · split at hp
          · simp at hp
            obtain ⟨rfl, _, _⟩ := hp
            simp [Tree.fresh, Op.H]
          · simp at hp
    split at hc
    · simp at hc
      obtain ⟨rfl, _⟩ := hc
      exact h0
    · obtain ⟨useds, _, hS⟩ := runSims_sound m _ _ _ _ _ _ hc
      obtain ⟨_, i2, _, _⟩ := hS.inv (by omega) hbud i0
      rw [i2]; exact h0

/-- trees reachable by histories of public calls whose horizons are all at most `h` -/
inductive ReachH (m : Mdl) (h : Nat) : Tree → Prop
  | init : ReachH m h Tree.init
  | call (t t' : Tree) (op : Op) (log rest : List Step) : ReachH m h t → op.H ≤ h → call m t op log = some (t', rest) → ReachH m h t'

theorem ReachH.reach {m : Mdl} {h : Nat} {t : Tree} (hr : ReachH m h t) : Reach m t ∧ t.budget ≤ h + m.overrun := by
  induction hr with
  | init => exact ⟨Reach.init, by simp [Tree.init, Tree.fresh]⟩
  | call t t' op log rest _ hH hc ih =>
    refine ⟨Reach.call t t' op log rest ih.1 hc, ?_⟩
    have := call_budget_le (ih.1.inv 0 0) hc
    have h2 := ih.2
    omega

/-- **v_in_return_range for arbitrary histories, in plain terms.**  If no call of the history asked for a horizon above
    `h` (fresh calls, promotions with any keys, restarts, any iteration counts), every tried action at depth `|q|` has its
    estimate within the returns achievable in `h + overrun - |q|` steps — `h - |q|` once the rollout length is repaired. -/
theorem v_in_return_range_history {m : Mdl} {rmin rmax : Rat} (hb : Bnd m rmin rmax) {h : Nat} {t : Tree} (hr : ReachH m h t)
    (q : Path) (a : Nat) (hN : 0 < t.aN q a) :
    loR m.gamma rmin (h + m.overrun - q.length) ≤ t.aV q a ∧ t.aV q a ≤ hiR m.gamma rmax (h + m.overrun - q.length) := by
  obtain ⟨hreach, hbud⟩ := hr.reach
  have hI := hreach.inv rmin rmax
  have hne : t.rets q a ≠ [] := by
    intro he; have := hI.stat.len q a; rw [he] at this; simp at this; omega
  rw [hI.stat.avg q a]
  apply mean_bounds hne
  intro x hx
  obtain ⟨k, k1, k2, k3, k4⟩ := hI.rng hb q a x hx
  have e1 := hiR_mono m.gamma rmax hb.g0 k (h + m.overrun - q.length) k1 (by omega)
  have e2 := loR_anti m.gamma rmin hb.g0 k (h + m.overrun - q.length) k1 (by omega)
  constructor <;> linarith

/-- **advance_keeps_subtree.**  The tree the simulations of `sampleAction(a, key, horizon)` start from is either
    exactly the `(a, key)` subtree of the old tree (every count, value, particle list and descendant, re-rooted; the
    root's action nodes are allocated if it had none) or a clean fresh root — the latter exactly when that child
    does not exist (or, POMCP, holds no particle), or (guarded source) the root has no action node `a` at all. -/
theorem advance_keeps_subtree {m : Mdl} {t t0 : Tree} {a k : Nat} {parts : List Nat} {nA H iters H' iters' : Nat}
    (hp : prepare m t (Op.adv a k parts nA H iters) = some (t0, H', iters')) :
    (t.ex [(a, k)] = true ∧ (∀ q, t0.ex q = t.ex ((a, k) :: q) ∧ t0.nN q = t.nN ((a, k) :: q) ∧
        t0.parts q = t.parts ((a, k) :: q) ∧ t0.aN q = t.aN ((a, k) :: q) ∧ t0.aV q = t.aV ((a, k) :: q) ∧
        t0.rets q = t.rets ((a, k) :: q) ∧
        (t0.nA q = t.nA ((a, k) :: q) ∨ (q = [] ∧ t.nA [(a, k)] = 0 ∧ t0.nA [] = nA))))
    ∨ ((t.nA [] ≤ a ∨ t.ex [(a, k)] = false ∨ (m.pomcp = true ∧ t.parts [(a, k)] = [])) ∧ t0 = Tree.fresh parts nA (H + m.overrun)) := by
  simp only [prepare] at hp
  split at hp
  · split at hp
    · rename_i _ hc
      simp only [Bool.and_eq_true] at hc
      split at hp
      · simp at hp
      · rename_i t1 hal
        simp at hp
        obtain ⟨rfl, _, _⟩ := hp
        obtain ⟨a1, a2, a3, a4, _, a6, a7, _, a9, a10⟩ := alloc_spec hal
        left
        refine ⟨hc.1, fun q => ⟨?_, ?_, ?_, ?_, ?_, ?_, ?_⟩⟩
        · show t1.ex q = _; rw [a6]; rfl
        · show t1.nN q = _; rw [a1]; rfl
        · show t1.parts q = _; rw [a7]; rfl
        · show t1.aN q = _; rw [a2]; rfl
        · show t1.aV q = _; rw [a3]; rfl
        · show t1.rets q = _; rw [a4]; rfl
        · show t1.nA q = _ ∨ _
          rcases a10 q with h | ⟨rfl, h⟩
          · left; rw [h]; rfl
          · right; exact ⟨rfl, h, a9⟩
    · rename_i _ hc
      simp at hp
      obtain ⟨rfl, _, _⟩ := hp
      right
      refine ⟨Or.inr ?_, rfl⟩
      by_cases hex : t.ex [(a, k)] = true
      · right
        by_cases hpe : (m.pomcp && (t.parts [(a, k)]).isEmpty) = true
        · simpa [Bool.and_eq_true, List.isEmpty_iff] using hpe
        · exfalso; apply hc; simp [hex, hpe]
      · left; simpa using hex
  · rename_i hlt
    split at hp
    · simp at hp
      obtain ⟨rfl, _, _⟩ := hp
      right; exact ⟨Or.inl (by omega), rfl⟩
    · simp at hp

/-- a state follows the history `q` from the root particles: there is a path of possible transitions of the
    generative model whose actions and observations (MCTS: next states) are those of `q` -/
inductive Follows (m : Mdl) (roots : List Nat) : Path → Nat → Prop
  | root (x : Nat) : x ∈ roots → Follows m roots [] x
  | step (q : Path) (k : Key) (st : Step) : Follows m roots q st.s → m.valid st = true → st.a = k.1 → m.key st = k.2 →
      Follows m roots (q ++ [k]) st.s1

/-- **particles_consistent.**  After any history of calls (promotions and restarts included) every particle of
    every node follows the node's action–observation history from a particle of the current root. -/
theorem particles_consistent {m : Mdl} {t : Tree} (h : Reach m t) : ∀ (q : Path) (x : Nat), x ∈ t.parts q → Follows m (t.parts []) q x := by
  have hs := (h.inv 0 0).str
  intro q
  induction q using List.reverseRecOn with
  | nil => intro x hx; exact Follows.root x hx
  | append_singleton q k ih =>
    intro x hx
    obtain ⟨st, h1, h2, h3, h4, h5⟩ := hs.par q k x hx
    rw [← h4]
    exact Follows.step q k st (ih st.s h1) h2 h3 h5


/-! ### The ghost list `rets` really is "the returns sampled through the action" -/

/-- a `simulate` call on node `p` only touches the return lists of `p` and of nodes below `p` -/
theorem Sim.rets_frame {m : Mdl} {H : Nat} {t t' : Tree} {p : Path} {s depth : Nat} {used : List Step} {r : Rat}
    (h : Sim m H t p s depth used t' r) : ∀ q, ¬ p <+: q → t'.rets q = t.rets q := by
  induction h with
  | stop t p s depth st t1 _ _ _ hd =>
    intro q hq
    obtain ⟨_, _, _, e4, _⟩ := descend_spec hd
    have hne : q ≠ p := fun h => hq (h ▸ List.prefix_refl _)
    show upd t1.rets p _ q = t.rets q
    simp only [upd, hne, if_false]; rw [e4]; rfl
  | roll t p s depth st t1 n used fr _ _ _ hd _ =>
    intro q hq
    obtain ⟨_, _, _, e4, _⟩ := descend_spec hd
    have hne : q ≠ p := fun h => hq (h ▸ List.prefix_refl _)
    show upd t1.rets p _ q = t.rets q
    simp only [upd, hne, if_false]; rw [e4]; rfl
  | deeper t p s depth st t1 t2 used fr _ _ _ hd _ ih =>
    intro q hq
    obtain ⟨_, _, _, e4, _⟩ := descend_spec hd
    have hne : q ≠ p := fun h => hq (h ▸ List.prefix_refl _)
    have hq' : ¬ (p ++ [(st.a, m.key st)]) <+: q := fun h => hq (List.IsPrefix.trans (List.prefix_append _ _) h)
    show upd t2.rets p _ q = t.rets q
    simp only [upd, hne, if_false]; rw [ih q hq', e4]; rfl

/-- **each `simulate` call on node `p` choosing action `a` adds exactly its own return to `rets p a`** (and to no
    other action of `p`): with `v_is_mean`, an action estimate is the mean of the returns of exactly the simulations
    that went through it. -/
theorem Sim.records_return {m : Mdl} {H : Nat} {t t' : Tree} {p : Path} {s depth : Nat} {used : List Step} {r : Rat}
    (h : Sim m H t p s depth used t' r) :
    ∃ st, used.head? = some st ∧ t'.rets p st.a = r :: t.rets p st.a ∧ ∀ b, b ≠ st.a → t'.rets p b = t.rets p b := by
  induction h with
  | stop t p s depth st t1 _ _ _ hd =>
    obtain ⟨_, _, _, e4, _⟩ := descend_spec hd
    refine ⟨st, rfl, ?_, fun b hb => ?_⟩
    · show upd t1.rets p _ p st.a = _
      simp only [upd, if_true, updN]; rw [e4]; rfl
    · show upd t1.rets p _ p b = _
      simp only [upd, if_true, updN, hb, if_false]; rw [e4]; rfl
  | roll t p s depth st t1 n used fr _ _ _ hd _ =>
    obtain ⟨_, _, _, e4, _⟩ := descend_spec hd
    refine ⟨st, rfl, ?_, fun b hb => ?_⟩
    · show upd t1.rets p _ p st.a = _
      simp only [upd, if_true, updN]; rw [e4]; rfl
    · show upd t1.rets p _ p b = _
      simp only [upd, if_true, updN, hb, if_false]; rw [e4]; rfl
  | deeper t p s depth st t1 t2 used fr _ _ _ hd hS _ =>
    obtain ⟨_, _, _, e4, _⟩ := descend_spec hd
    have hnp : ¬ (p ++ [(st.a, m.key st)]) <+: p := by
      intro hk
      have := hk.length_le
      simp at this
    have hf := hS.rets_frame p hnp
    refine ⟨st, rfl, ?_, fun b hb => ?_⟩
    · show upd t2.rets p _ p st.a = _
      simp only [upd, if_true, updN]; rw [hf, e4]; rfl
    · show upd t2.rets p _ p b = _
      simp only [upd, if_true, updN, hb, if_false]; rw [hf, e4]; rfl

/-- a `simulate` call on node `p` adds exactly one visit to `p` and touches no count outside the subtree of `p` -/
theorem Sim.nN_frame {m : Mdl} {H : Nat} {t t' : Tree} {p : Path} {s depth : Nat} {used : List Step} {r : Rat}
    (h : Sim m H t p s depth used t' r) : t'.nN p = t.nN p + 1 ∧ ∀ q, ¬ p <+: q → t'.nN q = t.nN q := by
  induction h with
  | stop t p s depth st t1 _ _ _ hd =>
    obtain ⟨e1, _⟩ := descend_spec hd
    refine ⟨?_, fun q hq => ?_⟩
    · show t1.nN p = _; rw [e1]; simp [Tree.incN, upd]
    · have hne : q ≠ p := fun h => hq (h ▸ List.prefix_refl _)
      show t1.nN q = _; rw [e1]; simp [Tree.incN, upd, hne]
  | roll t p s depth st t1 n used fr _ _ _ hd _ =>
    obtain ⟨e1, _⟩ := descend_spec hd
    refine ⟨?_, fun q hq => ?_⟩
    · show t1.nN p = _; rw [e1]; simp [Tree.incN, upd]
    · have hne : q ≠ p := fun h => hq (h ▸ List.prefix_refl _)
      show t1.nN q = _; rw [e1]; simp [Tree.incN, upd, hne]
  | deeper t p s depth st t1 t2 used fr _ _ _ hd _ ih =>
    obtain ⟨e1, _⟩ := descend_spec hd
    have hnp : ¬ (p ++ [(st.a, m.key st)]) <+: p := by
      intro hk
      have := hk.length_le
      simp at this
    refine ⟨?_, fun q hq => ?_⟩
    · show t2.nN p = _; rw [ih.2 p hnp, e1]; simp [Tree.incN, upd]
    · have hne : q ≠ p := fun h => hq (h ▸ List.prefix_refl _)
      have hq' : ¬ (p ++ [(st.a, m.key st)]) <+: q := fun h => hq (List.IsPrefix.trans (List.prefix_append _ _) h)
      show t2.nN q = _; rw [ih.2 q hq', e1]; simp [Tree.incN, upd, hne]

theorem Sims.root_count {m : Mdl} {H n : Nat} {t t' : Tree} {useds : List (List Step)} (h : Sims m H n t useds t') :
    t'.nN [] = t.nN [] + n := by
  induction h with
  | zero => rfl
  | succ n t t1 t2 s used r useds _ hS _ ih => rw [ih, hS.nN_frame.1]; omega

/-- **root_count_fresh.**  After `sampleAction(s / belief, horizon ≥ 1)` the root's visit count — and by
    `node_count_is_sum` the sum of its action counts — is exactly the number of iterations. -/
theorem root_count_fresh {m : Mdl} {t t' : Tree} {parts : List Nat} {nA H iters : Nat} {log rest : List Step}
    (hH : 0 < H) (hc : call m t (Op.fresh parts nA H iters) log = some (t', rest)) : t'.nN [] = iters := by
  unfold call at hc
  simp only [prepare] at hc
  split at hc
  · omega
  · obtain ⟨useds, _, hS⟩ := runSims_sound m _ _ _ _ _ _ hc
    rw [hS.root_count]; simp [Tree.fresh]

/-! ### No simulation continues after a terminal state (MCTS; POMCP once its rollout is guarded) -/

/-- only the last call of the list may have reported a terminal next state -/
def NoCont : List Step → Prop
  | [] => True
  | [_] => True
  | st :: st' :: l => st.term = false ∧ NoCont (st' :: l)

theorem NoCont.cons {st : Step} {l : List Step} (h : NoCont l) (hs : st.term = false ∨ l = []) : NoCont (st :: l) := by
  cases l with
  | nil => trivial
  | cons st' l =>
    rcases hs with hs | hs
    · exact ⟨hs, h⟩
    · simp at hs

theorem Roll.noCont {m : Mdl} {n s : Nat} {g : Rat} {used : List Step} {x : Rat} (h : Roll m n s g used x) : NoCont used := by
  induction h with
  | zero => trivial
  | term => trivial
  | step n s g st used x _ _ _ ht _ ih => exact ih.cons (Or.inl ht)

theorem descend_term {m : Mdl} {H : Nat} {t t1 : Tree} {p : Path} {depth : Nat} {st : Step} {mode : Mode}
    (h : descend m H t p depth st = some (t1, mode)) :
    (mode = Mode.deeper → st.term = false) ∧
    (∀ n, mode = Mode.roll n → (m.pomcp = false ∨ m.rollGuard = true) → st.term = false) := by
  unfold descend at h
  cases hp : m.pomcp <;> cases hex : t.ex (p ++ [(st.a, m.key st)]) <;> cases hg : m.rollGuard <;>
    cases ht : st.term <;> cases hd : decide (depth + 1 < H) <;>
    simp [hp, hex, hg, ht, hd] at h ⊢ <;>
    (obtain ⟨_, rfl⟩ := h; simp)

/-- **no_simulation_past_terminal.**  In every `simulate` call of MCTS, and of POMCP with the guarded rollout, no
    call of the generative model follows one that reported a terminal state. -/
theorem Sim.noCont {m : Mdl} (hg : m.pomcp = false ∨ m.rollGuard = true) {H : Nat} {t t' : Tree} {p : Path} {s depth : Nat}
    {used : List Step} {r : Rat} (h : Sim m H t p s depth used t' r) : NoCont used := by
  induction h with
  | stop => trivial
  | roll t p s depth st t1 n used fr _ _ _ hd hR =>
    exact hR.noCont.cons (Or.inl ((descend_term hd).2 n rfl hg))
  | deeper t p s depth st t1 t2 used fr _ _ _ hd _ ih =>
    exact ih.cons (Or.inl ((descend_term hd).1 rfl))

/-- the statement for what the translator finds in the source now: MCTS always, POMCP iff the guard is there -/
theorem no_simulation_past_terminal_as_extracted {m : Mdl} (hm : m.pomcp = true → m.rollGuard = Gen.C19.pomcpRollGuard)
    (hx : m.pomcp = true → Gen.C19.pomcpRollGuard = true) {H : Nat} {t t' : Tree} {p : Path} {s depth : Nat}
    {used : List Step} {r : Rat} (h : Sim m H t p s depth used t' r) : NoCont used := by
  apply Sim.noCont _ h
  cases hp : m.pomcp with
  | false => left; rfl
  | true => right; rw [hm hp]; exact hx hp

/-! ### The returned action -/

theorem argmaxV_lt (f : Nat → Rat) : ∀ n, 0 < n → argmaxV f n < n := by
  intro n
  induction n with
  | zero => intro h; omega
  | succ n ih =>
    intro _
    simp only [argmaxV]
    split
    · omega
    · by_cases hn : n = 0
      · subst hn; simp [argmaxV]
      · have := ih (by omega); omega

theorem argmaxV_max (f : Nat → Rat) : ∀ n a, a < n → f a ≤ f (argmaxV f n) := by
  intro n
  induction n with
  | zero => intro a h; omega
  | succ n ih =>
    intro a ha
    simp only [argmaxV]
    by_cases han : a = n
    · subst han
      split
      · exact le_refl _
      · rename_i h; exact not_lt.mp h
    · have := ih a (by omega)
      split
      · rename_i h; linarith
      · exact this

/-- **returned_action_valid.**  The action returned by a public call (`findBestA` over the root, or 0 for
    horizon 0) is one of the root's actions whenever the root has any, and no root action has a larger estimate. -/
theorem returned_action_valid (t : Tree) (H : Nat) (hA : 0 < t.nA []) :
    t.bestA H < t.nA [] ∧ (0 < H → ∀ a, a < t.nA [] → t.aV [] a ≤ t.aV [] (t.bestA H)) := by
  unfold Tree.bestA
  split
  · exact ⟨hA, fun h => by omega⟩
  · exact ⟨argmaxV_lt _ _ hA, fun _ a ha => argmaxV_max _ _ a ha⟩

/-! ### rPOMCP (max-of-belief): horizon and counts -/

/-! ### The statements at full strength for the source as it is now

  `tools/extract_c19.py` regenerates `Gen.C19` from the headers on every run; `source_rollout_repaired` is re-checked
  against it (a regression of the rollout length or of POMCP's guard breaks this proof obligation). -/

/-- the rollout length read from MCTS.hpp / POMCP.hpp is at most `maxDepth_ - depth - 1`, and POMCP's rollout is guarded -/
theorem source_rollout_repaired :
    Gen.C19.mctsRollOff ≤ -1 ∧ Gen.C19.pomcpRollOff ≤ -1 ∧ Gen.C19.pomcpRollGuard = true := by decide

/-- `m` carries the facts read from the source -/
def AsSource (m : Mdl) : Prop :=
  m.rollOff = (if m.pomcp then Gen.C19.pomcpRollOff else Gen.C19.mctsRollOff) ∧
  (m.pomcp = true → m.rollGuard = Gen.C19.pomcpRollGuard)

theorem AsSource.off {m : Mdl} (h : AsSource m) : m.rollOff ≤ -1 := by
  obtain ⟨h1, h2, _⟩ := source_rollout_repaired
  rw [h.1]; split <;> assumption

/-- **depth_le_horizon, for MCTS and POMCP as they are in the source now**: every simulation of every public call, in
    every history, is a chain of at most `horizon` calls of the generative model. -/
theorem depth_le_horizon_current {m : Mdl} (hm : AsSource m) {t t' : Tree} {op : Op} {log rest : List Step} (h : Reach m t)
    (hc : call m t op log = some (t', rest)) (hH : 0 < op.H) :
    ∃ useds : List (List Step), log = useds.flatten ++ rest ∧ useds.length = op.iters ∧ ∀ u ∈ useds, u.length ≤ op.H :=
  depth_le_horizon hm.off h hc hH

/-- **v_in_return_range, as in the property, for the source now** (fresh call with horizon `H`) -/
theorem v_in_return_range_fresh_current {m : Mdl} {rmin rmax : Rat} (hb : Bnd m rmin rmax) (hm : AsSource m) {t t' : Tree}
    {parts : List Nat} {nA H iters : Nat} {log rest : List Step} (h : Reach m t) (hH : 0 < H)
    (hc : call m t (Op.fresh parts nA H iters) log = some (t', rest)) (q : Path) (a : Nat) (hN : 0 < t'.aN q a) :
    loR m.gamma rmin (H - q.length) ≤ t'.aV q a ∧ t'.aV q a ≤ hiR m.gamma rmax (H - q.length) :=
  v_in_return_range_fresh hb hm.off h hH hc q a hN

/-- **v_in_return_range for any history with horizons ≤ h, for the source now**: range of `h - depth` steps -/
theorem v_in_return_range_history_current {m : Mdl} {rmin rmax : Rat} (hb : Bnd m rmin rmax) (hm : AsSource m) {h : Nat}
    {t : Tree} (hr : ReachH m h t) (q : Path) (a : Nat) (hN : 0 < t.aN q a) :
    loR m.gamma rmin (h - q.length) ≤ t.aV q a ∧ t.aV q a ≤ hiR m.gamma rmax (h - q.length) := by
  have := v_in_return_range_history hb hr q a hN
  have h0 : m.overrun = 0 := by have := hm.off; unfold Mdl.overrun; omega
  rw [h0] at this
  simpa using this

/-- **no simulation past a terminal state, for the source now** (MCTS and POMCP) -/
theorem no_simulation_past_terminal_current {m : Mdl} (hm : AsSource m) {H : Nat} {t t' : Tree} {p : Path} {s depth : Nat}
    {used : List Step} {r : Rat} (h : Sim m H t p s depth used t' r) : NoCont used :=
  no_simulation_past_terminal_as_extracted hm.2 (fun _ => source_rollout_repaired.2.2) h

/-! ### The action selection of `simulate` (`findBestBonusA`) -/

theorem XRat.lt_trans' : ∀ {a b c : XRat}, XRat.lt a b = true → XRat.lt b c = true → XRat.lt a c = true := by
  intro a b c h1 h2
  cases a <;> cases b <;> cases c <;> simp_all [XRat.lt]
  exact lt_trans h1 h2

theorem firstBestX_lt (sc : Nat → XRat) : ∀ n, 0 < n → firstBestX sc n < n := by
  intro n
  induction n with
  | zero => intro h; omega
  | succ n ih =>
    intro _
    simp only [firstBestX]
    split
    · omega
    · by_cases hn : n = 0
      · subst hn; simp [firstBestX]
      · have := ih (by omega); omega

/-- **the scan ends on an action whose score no other score beats** (IEEE `>`; with finite scores: a maximiser) -/
theorem firstBestX_best (sc : Nat → XRat) : ∀ n b, b < n → XRat.gt (sc b) (sc (firstBestX sc n)) = false := by
  intro n
  induction n with
  | zero => intro b h; omega
  | succ n ih =>
    intro b hb
    simp only [firstBestX]
    by_cases hbn : b = n
    · subst hbn
      split
      · cases hx : sc b <;> simp [XRat.gt, XRat.lt]
      · rename_i h; simpa using h
    · have hb' := ih b (by omega)
      split
      · rename_i hgt
        -- sc n > sc old, and not (sc b > sc old): then not (sc b > sc n)
        cases hr : XRat.gt (sc b) (sc n) with
        | false => rfl
        | true =>
          exfalso
          have h1 : XRat.lt (sc (firstBestX sc n)) (sc n) = true := hgt
          have h2 : XRat.lt (sc n) (sc b) = true := hr
          have := XRat.lt_trans' h1 h2
          have h3 : XRat.gt (sc b) (sc (firstBestX sc n)) = true := this
          rw [hb'] at h3; simp at h3
      · exact hb'

/-- exploration constant > 0: an untried action scores `+inf`, a tried one a finite value; then the scan takes the first
    untried action as long as there is one (this was an assumption of the model in round 1; now a consequence) -/
theorem firstBestX_untried (sc : Nat → XRat) (un : Nat → Bool)
    (h1 : ∀ b, un b = true → sc b = .pinf) (h2 : ∀ b, un b = false → ∃ q, sc b = .fin q) :
    ∀ n u, u < n → un u = true → (∀ b, b < u → un b = false) → firstBestX sc n = u := by
  intro n
  induction n with
  | zero => intro u h; omega
  | succ n ih =>
    intro u hu hun hfirst
    simp only [firstBestX]
    by_cases hun' : u = n
    · subst hun'
      by_cases hn0 : u = 0
      · subst hn0; simp [firstBestX, h1 0 hun, XRat.gt, XRat.lt]
      · have hlt := firstBestX_lt sc u (by omega)
        obtain ⟨q, hq⟩ := h2 _ (hfirst _ hlt)
        simp [h1 u hun, hq, XRat.gt, XRat.lt]
    · have := ih u (by omega) hun hfirst
      rw [this, h1 u hun]
      cases hx : sc n <;> simp [XRat.gt, XRat.lt]

/-- exploration constant 0: an untried action scores `NaN`; if action 0 is untried the scan never leaves it -/
theorem firstBestX_nan0 (sc : Nat → XRat) (h0 : sc 0 = .nan) : ∀ n, firstBestX sc n = 0 := by
  intro n
  induction n with
  | zero => rfl
  | succ n ih =>
    simp only [firstBestX, ih, h0]
    cases hx : sc n <;> simp [XRat.gt, XRat.lt]

/-- **the action chosen in `simulate` is the one the `findBestBonusA` scan selects on the modelled scores
    `V(b) + bonus(N+1, N(b))`, and no action has a greater score** (strict rule, `uctSlack = none`) -/
theorem simulate_choice_is_uct {m : Mdl} {H fuel : Nat} {t t' : Tree} {p : Path} {s depth : Nat} {st : Step}
    {log rest : List Step} {r : Rat} (hs : m.uctSlack = none)
    (h : simulate m H (fuel + 1) t p s depth (st :: log) = some (t', r, rest)) :
    st.a = uctPick m (t.nN p + 1) (t.nA p) (t.aN p) (t.aV p) ∧ st.a < t.nA p ∧
    ∀ b, b < t.nA p → XRat.gt (uctScore m (t.nN p + 1) (t.aN p) (t.aV p) b) (uctScore m (t.nN p + 1) (t.aN p) (t.aV p) st.a) = false := by
  simp only [simulate] at h
  split at h
  · rename_i hc
    simp only [Bool.and_eq_true, decide_eq_true_eq] at hc
    obtain ⟨⟨⟨_, ha⟩, _⟩, hu⟩ := hc
    have hpick : st.a = uctPick m (t.nN p + 1) (t.nA p) (t.aN p) (t.aV p) := by
      simpa [uctOk, uctOkGen, hs] using hu
    refine ⟨hpick, ha, fun b hb => ?_⟩
    rw [hpick]
    exact firstBestX_best _ _ b hb
  · simp at h

/-- the real-arithmetic shape of the bonus, with `log`/`sqrt` abstract: for any monotone `sqrtF` and `L ≥ 0`, `c ≥ 0`, the
    bonus `c · sqrtF (L / n)` does not increase with the action's visit count — among equally valued actions the scan
    prefers the less visited one -/
theorem bonus_antitone (sqrtF : Rat → Rat) (hmono : ∀ x y, x ≤ y → sqrtF x ≤ sqrtF y) (c L : Rat) (hc : 0 ≤ c) (hL : 0 ≤ L)
    (n n' : Nat) (hn : 0 < n) (hnn : n ≤ n') : c * sqrtF (L / (n' : Rat)) ≤ c * sqrtF (L / (n : Rat)) := by
  apply mul_le_mul_of_nonneg_left _ hc
  apply hmono
  have h1 : (0 : Rat) < (n : Rat) := by exact_mod_cast hn
  have h2 : (n : Rat) ≤ (n' : Rat) := by exact_mod_cast hnn
  exact div_le_div_of_nonneg_left hL h1 h2

namespace R

theorem rup_fields (m : Mdl) (k : Nat) (t : RTree) (p : Path) (a depth : Nat) (imm : Rat) :
    (rup m k t p a depth imm).1.nN = t.nN ∧ (rup m k t p a depth imm).1.nA = t.nA ∧
    (rup m k t p a depth imm).1.stops = t.stops ∧
    (rup m k t p a depth imm).1.aN = upd t.aN p (updN (t.aN p) a (t.aN p a + 1)) := by
  unfold rup
  dsimp only
  split <;> exact ⟨rfl, rfl, rfl, rfl⟩

theorem rdown_fields (m : Mdl) (t : RTree) (p : Path) (st : Step) :
    (rdown m t p st).1.nN = upd t.nN p (t.nN p + 1) ∧ (rdown m t p st).1.nA = t.nA ∧ (rdown m t p st).1.stops = t.stops ∧
    (rdown m t p st).1.aN = t.aN := by
  unfold rdown RTree.updBK
  simp only
  split <;> exact ⟨rfl, rfl, rfl, rfl⟩

theorem ralloc_spec {t t1 : RTree} {p : Path} {n : Nat} (h : t.alloc p n = some t1) :
    t1.nN = t.nN ∧ t1.aN = t.aN ∧ t1.stops = t.stops ∧ (∀ q, t1.nA q = t.nA q ∨ t.nA q = 0) := by
  unfold RTree.alloc at h
  split at h
  · simp at h; subst h; exact ⟨rfl, rfl, rfl, fun q => Or.inl rfl⟩
  · split at h
    · rename_i hn0
      simp at h; subst h
      refine ⟨rfl, rfl, rfl, fun q => ?_⟩
      by_cases hq : q = p
      · subst hq; right; exact hn0
      · left; simp [upd, hq]
    · simp at h

/-- count invariant of rPOMCP's belief nodes: visits = visits passed on to an action + visits that ended here as a
    leaf (`stops`) + open frames; the literal `N = Σ_a N(a)` holds exactly where `stops = 0` (a fresh root) -/
structure RCnt (pend : Path → Nat) (t : RTree) : Prop where
  cnt : ∀ q, t.nN q = sumTo (t.aN q) (t.nA q) + t.stops q + pend q
  out : ∀ q a, t.nA q ≤ a → t.aN q a = 0

theorem RCnt.of_nA {pend : Path → Nat} {t t1 : RTree} (h : RCnt pend t) (e1 : t1.nN = t.nN) (e2 : t1.aN = t.aN)
    (e3 : t1.stops = t.stops) (hA : ∀ q, t1.nA q = t.nA q ∨ t.nA q = 0) : RCnt pend t1 := by
  refine ⟨fun q => ?_, fun q a hqa => ?_⟩
  · rw [e1, e2, e3]
    rcases hA q with hq | hq0
    · rw [hq]; exact h.cnt q
    · have hz : ∀ a, t.aN q a = 0 := fun a => h.out q a (by omega)
      rw [sumTo_zero _ hz]
      have := h.cnt q
      rw [hq0] at this
      simpa [sumTo] using this
  · rw [e2]
    rcases hA q with hq | hq0
    · exact h.out q a (by omega)
    · exact h.out q a (by omega)

/-- **rPOMCP: every `simulate` call at depth `depth` makes at most `H - depth` consecutive calls of the generative
    model (no rollouts: the horizon is respected exactly), keeps the count invariant, and never re-sizes a node** -/
theorem rsim_spec (m : Mdl) (H k : Nat) : ∀ (fuel : Nat) (t : RTree) (p : Path) (s depth : Nat) (log : List Step)
    (t' : RTree) (r : Rat) (rest : List Step), depth < H →
    rsim m H k fuel t p s depth log = some (t', r, rest) →
    (∃ used, log = used ++ rest ∧ used.length ≤ H - depth ∧ IsChain s used) ∧
    (∀ pend, RCnt pend t → RCnt pend t') ∧ (∀ q, t'.nA q = t.nA q ∨ t.nA q = 0) ∧
    t'.stops [] = t.stops [] ∧ (t'.nN p = t.nN p + 1 ∧ ∀ q, ¬ p <+: q → t'.nN q = t.nN q) := by
  intro fuel
  induction fuel with
  | zero => intro t p s depth log t' r rest _ h; simp [rsim] at h
  | succ fuel ih =>
    intro t p s depth log t' r rest hlt h
    cases log with
    | nil => simp [rsim] at h
    | cons st log =>
      simp only [rsim] at h
      split at h
      · rename_i hc
        simp only [Bool.and_eq_true, decide_eq_true_eq] at hc
        obtain ⟨⟨⟨hs, ha⟩, _⟩, _⟩ := hc
        obtain ⟨d1, d2, d3, d4⟩ := rdown_fields m t p st
        -- the invariant after `rdown`
        have hdown : ∀ pend, RCnt pend t → RCnt (upd pend p (pend p + 1)) (rdown m t p st).1 := by
          intro pend hI
          refine ⟨fun q => ?_, fun q a hqa => ?_⟩
          · rw [d1, d2, d3, d4]
            by_cases hq : q = p
            · subst hq; simp only [upd, if_true]; have := hI.cnt q; omega
            · simp only [upd, hq, if_false]; exact hI.cnt q
          · rw [d4]; rw [d2] at hqa; exact hI.out q a hqa
        have hup : ∀ (t3 : RTree) (imm : Rat) pend, RCnt (upd pend p (pend p + 1)) t3 → st.a < t3.nA p →
            RCnt pend (rup m k t3 p st.a depth imm).1 := by
          intro t3 imm pend hI ha3
          obtain ⟨u1, u2, u3, u4⟩ := rup_fields m k t3 p st.a depth imm
          refine ⟨fun q => ?_, fun q b hqb => ?_⟩
          · rw [u1, u2, u3, u4]
            by_cases hq : q = p
            · subst hq
              simp only [upd, if_true]
              have := sumTo_updN_lt (t3.aN q) st.a (t3.aN q st.a + 1) (t3.nA q) ha3
              have hc := hI.cnt q
              simp only [upd, if_true] at hc
              omega
            · simp only [upd, hq, if_false]
              have hc := hI.cnt q
              simp only [upd, hq, if_false] at hc
              exact hc
          · rw [u4]; rw [u2] at hqb
            by_cases hq : q = p
            · subst hq
              have hb : b ≠ st.a := by omega
              simp only [upd, if_true, updN, hb, if_false]
              exact hI.out q b hqb
            · simp only [upd, hq, if_false]; exact hI.out q b hqb
        split at h
        · simp at h
        · rename_i t3 imm log' hr
          simp at h
          obtain ⟨rfl, rfl, rfl⟩ := h
          split at hr
          · rename_i hdeep
            simp only [Bool.and_eq_true, decide_eq_true_eq] at hdeep
            split at hr
            · simp at hr
            · rename_i t2 hal
              obtain ⟨a1, a2, a3, a4⟩ := ralloc_spec hal
              obtain ⟨⟨used, hu, hlen, hch⟩, hcnt, hnA, hst, hN1, hNf⟩ := ih _ _ _ _ _ _ _ _ hdeep.1.1 hr
              have hnp : ¬ (p ++ [(st.a, st.o)]) <+: p := by
                intro hk
                have := hk.length_le
                simp at this
              have hnA_all : ∀ q, t3.nA q = t.nA q ∨ t.nA q = 0 := by
                intro q
                rcases a4 q with h2 | h2
                · rw [d2] at h2
                  rcases hnA q with h3 | h3
                  · left; rw [h3, h2]
                  · right; rw [← h2]; exact h3
                · rw [d2] at h2; right; exact h2
              refine ⟨⟨st :: used, by rw [hu]; rfl, by simp; omega, ⟨hs, hch⟩⟩, fun pend hI => ?_, fun q => ?_, ?_, ?_, fun q hq => ?_⟩
              rotate_left 2
              · rw [(rup_fields m k t3 p st.a depth imm).2.2.1, hst, a3, d3]
              · rw [(rup_fields m k t3 p st.a depth imm).1, hNf p hnp, a1, d1]; simp [upd]
              · have hne : q ≠ p := fun h => hq (h ▸ List.prefix_refl _)
                have hq' : ¬ (p ++ [(st.a, st.o)]) <+: q := fun h => hq (List.IsPrefix.trans (List.prefix_append _ _) h)
                rw [(rup_fields m k t3 p st.a depth imm).1, hNf q hq', a1, d1]; simp [upd, hne]
              · have h1 := (hdown pend hI).of_nA a1 a2 a3 a4
                have h2 := hcnt _ h1
                have ha3 : st.a < t3.nA p := by
                  rcases hnA_all p with h | h
                  · rw [h]; exact ha
                  · omega
                exact hup t3 imm pend h2 ha3
              · rw [(rup_fields m k t3 p st.a depth imm).2.1]; exact hnA_all q
          · simp at hr
            obtain ⟨rfl, _, rfl⟩ := hr
            have hne0 : ([] : Path) ≠ p ++ [(st.a, st.o)] := by simp
            have hnep : p ≠ p ++ [(st.a, st.o)] := ne_append_singleton p _
            refine ⟨⟨[st], rfl, by simp; omega, ⟨hs, trivial⟩⟩, fun pend hI => ?_, fun q => ?_, ?_, ?_, fun q hq => ?_⟩
            rotate_left 2
            · rw [(rup_fields m k _ p st.a depth _).2.2.1]
              show upd (rdown m t p st).1.stops _ _ [] = _
              simp only [upd, hne0, if_false]; rw [d3]
            · rw [(rup_fields m k _ p st.a depth _).1]
              show upd (rdown m t p st).1.nN _ _ p = _
              simp only [upd, hnep, if_false]; rw [d1]; simp [upd]
            · have hne : q ≠ p := fun h => hq (h ▸ List.prefix_refl _)
              have hqc : q ≠ p ++ [(st.a, st.o)] := fun h => hq (h ▸ List.prefix_append _ _)
              rw [(rup_fields m k _ p st.a depth _).1]
              show upd (rdown m t p st).1.nN _ _ q = _
              simp only [upd, hqc, if_false]; rw [d1]; simp [upd, hne]
            · have h1 := hdown pend hI
              have h2 : RCnt (upd pend p (pend p + 1)) (rleaf (rdown m t p st).1 (p ++ [(st.a, st.o)]) m.rLeafV
                  (if depth + 1 < H then 0 else (rdown m t p st).1.km (p ++ [(st.a, st.o)]))) := by
                refine ⟨fun q => ?_, fun q a hqa => h1.out q a hqa⟩
                have hc := h1.cnt q
                show upd (rdown m t p st).1.nN (p ++ [(st.a, st.o)]) ((rdown m t p st).1.nN (p ++ [(st.a, st.o)]) + 1) q
                  = sumTo ((rdown m t p st).1.aN q) ((rdown m t p st).1.nA q)
                    + upd (rdown m t p st).1.stops (p ++ [(st.a, st.o)]) ((rdown m t p st).1.stops (p ++ [(st.a, st.o)]) + 1) q
                    + upd pend p (pend p + 1) q
                by_cases hq : q = p ++ [(st.a, st.o)]
                · subst hq
                  simp only [upd, if_true]
                  simp only [upd] at hc
                  omega
                · simp only [upd, hq, if_false]
                  simp only [upd] at hc
                  exact hc
              exact hup _ _ pend h2 (by show st.a < (rdown m t p st).1.nA p; rw [d2]; exact ha)
            · rw [(rup_fields m k _ p st.a depth _).2.1]
              left; show (rdown m t p st).1.nA q = t.nA q; rw [d2]
      · simp at h

/-- `n` simulations from the root -/
theorem rrunSims_spec (m : Mdl) (H k : Nat) (hH : 0 < H) : ∀ (n : Nat) (t : RTree) (log : List Step) (t' : RTree) (rest : List Step),
    rrunSims m H k n t log = some (t', rest) →
    (∃ useds : List (List Step), log = useds.flatten ++ rest ∧ useds.length = n ∧ ∀ u ∈ useds, u.length ≤ H ∧ ∃ s, IsChain s u) ∧
    (RCnt (fun _ => 0) t → RCnt (fun _ => 0) t') ∧ t'.stops [] = t.stops [] ∧ t'.nN [] = t.nN [] + n := by
  intro n
  induction n with
  | zero =>
    intro t log t' rest h
    simp [rrunSims] at h
    obtain ⟨rfl, rfl⟩ := h
    exact ⟨⟨[], rfl, rfl, by simp⟩, id, rfl, rfl⟩
  | succ n ih =>
    intro t log t' rest h
    cases log with
    | nil => simp [rrunSims] at h
    | cons st log =>
      simp only [rrunSims] at h
      split at h
      · split at h
        · simp at h
        · rename_i t1 r log' hsim
          obtain ⟨⟨used, hu, hlen, hch⟩, hcnt, _, hst, hN1, _⟩ := rsim_spec m H k _ _ _ _ _ _ _ _ _ hH hsim
          obtain ⟨⟨useds, hus, hl, hall⟩, hc2, hst2, hN2⟩ := ih _ _ _ _ h
          refine ⟨⟨used :: useds, by rw [hu, hus]; simp, by simp [hl], ?_⟩, fun hI => hc2 (hcnt _ hI), by rw [hst2, hst], by rw [hN2, hN1]; omega⟩
          intro u hu'
          simp only [List.mem_cons] at hu'
          rcases hu' with rfl | hu'
          · exact ⟨by simpa using hlen, st.s, hch⟩
          · exact hall u hu'
      · simp at h

/-- **rPOMCP, fresh call**: the logged calls split into `iterations` chains of at most `horizon` calls each (no
    simulation runs past the requested horizon), the root's visit count is `iterations` and equals the sum over its
    actions; on every other node `N = Σ_a N(a) + leaf visits`. -/
theorem rcall_fresh_spec (m : Mdl) (k : Nat) (t t' : RTree) (support : List Nat) (nA H iters : Nat) (log rest : List Step)
    (hH : 0 < H) (hc : rcall m k t (Op.fresh support nA H iters) log = some (t', rest)) :
    (∃ useds : List (List Step), log = useds.flatten ++ rest ∧ useds.length = iters ∧ ∀ u ∈ useds, u.length ≤ H ∧ ∃ s, IsChain s u) ∧
    t'.nN [] = iters ∧ t'.nN [] = sumTo (t'.aN []) (t'.nA []) ∧
    ∀ q, t'.nN q = sumTo (t'.aN q) (t'.nA q) + t'.stops q := by
  simp only [rcall, rprepare] at hc
  split at hc
  · omega
  · split at hc
    · simp at hc
    · rename_i t1 rest' hr
      simp at hc
      obtain ⟨rfl, rfl⟩ := hc
      have h0 : RCnt (fun _ => 0) (RTree.fresh support nA) := by
        refine ⟨fun q => ?_, fun q a _ => rfl⟩
        show 0 = sumTo (fun _ => 0) _ + 0 + 0
        rw [sumTo_zero _ (fun _ => rfl)]
      obtain ⟨hsplit, hcnt, hst, hN⟩ := rrunSims_spec m H k hH _ _ _ _ _ hr
      have h1 := hcnt h0
      have hs0 : t1.stops [] = 0 := by rw [hst]; rfl
      refine ⟨hsplit, by show t1.nN [] = iters; rw [hN]; simp [RTree.fresh], ?_, fun q => ?_⟩
      · have := h1.cnt []
        show t1.nN [] = sumTo (t1.aN []) (t1.nA [])
        rw [hs0] at this; simpa using this
      · have := h1.cnt q
        show t1.nN q = sumTo (t1.aN q) (t1.nA q) + t1.stops q
        simpa using this

/-! #### rPOMCP: action values are means of the datapoints passed upwards; the knowledge measure; promotion -/

theorem rup_mean_fields (m : Mdl) (k : Nat) (t : RTree) (p : Path) (a depth : Nat) (imm : Rat) :
    (rup m k t p a depth imm).1.aN = upd t.aN p (updN (t.aN p) a (t.aN p a + 1)) ∧
    (rup m k t p a depth imm).1.aV = upd t.aV p (updN (t.aV p) a (t.aV p a + (imm - t.aV p a) / ((t.aN p a + 1 : Nat) : Rat))) ∧
    (rup m k t p a depth imm).1.dps = upd t.dps p (updN (t.dps p) a (imm :: t.dps p a)) := by
  unfold rup
  dsimp only
  split <;> exact ⟨rfl, rfl, rfl⟩

theorem rdown_mean_fields (m : Mdl) (t : RTree) (p : Path) (st : Step) :
    (rdown m t p st).1.aN = t.aN ∧ (rdown m t p st).1.aV = t.aV ∧ (rdown m t p st).1.dps = t.dps := by
  unfold rdown RTree.updBK
  simp only
  split <;> exact ⟨rfl, rfl, rfl⟩

theorem ralloc_mean {t t1 : RTree} {p : Path} {n : Nat} (h : t.alloc p n = some t1) :
    t1.aN = t.aN ∧ t1.aV = t.aV ∧ t1.dps = t.dps := by
  unfold RTree.alloc at h
  split at h
  · simp at h; subst h; exact ⟨rfl, rfl, rfl⟩
  · split at h
    · simp at h; subst h; exact ⟨rfl, rfl, rfl⟩
    · simp at h

/-- every action value is the mean of the datapoints (`dps`) that were averaged into it, its count their number -/
structure RMean (t : RTree) : Prop where
  len : ∀ q a, t.aN q a = (t.dps q a).length
  avg : ∀ q a, t.aV q a = mean (t.dps q a)

theorem RMean.of_eq {t t1 : RTree} (h : RMean t) (e1 : t1.aN = t.aN) (e2 : t1.aV = t.aV) (e3 : t1.dps = t.dps) : RMean t1 :=
  ⟨fun q a => by rw [e1, e3]; exact h.len q a, fun q a => by rw [e2, e3]; exact h.avg q a⟩

theorem RMean.rup {t : RTree} (h : RMean t) (m : Mdl) (k : Nat) (p : Path) (a depth : Nat) (imm : Rat) :
    RMean (rup m k t p a depth imm).1 := by
  obtain ⟨u1, u2, u3⟩ := rup_mean_fields m k t p a depth imm
  refine ⟨fun q b => ?_, fun q b => ?_⟩
  · rw [u1, u3]
    by_cases hq : q = p
    · subst hq
      simp only [upd, if_true]
      by_cases hb : b = a
      · subst hb; simp [updN, h.len]
      · simp [updN, hb, h.len]
    · simp only [upd, hq, if_false]; exact h.len q b
  · rw [u2, u3]
    by_cases hq : q = p
    · subst hq
      simp only [upd, if_true]
      by_cases hb : b = a
      · subst hb
        simp only [updN, if_true]
        rw [mean_cons, h.avg q b, h.len q b]
      · simp only [updN, hb, if_false]; exact h.avg q b
    · simp only [upd, hq, if_false]; exact h.avg q b

/-- **rPOMCP: every `simulate` call keeps "V(a) = mean of the datapoints sampled through a"** -/
theorem rsim_mean (m : Mdl) (H k : Nat) : ∀ (fuel : Nat) (t : RTree) (p : Path) (s depth : Nat) (log : List Step)
    (t' : RTree) (r : Rat) (rest : List Step),
    rsim m H k fuel t p s depth log = some (t', r, rest) → RMean t → RMean t' := by
  intro fuel
  induction fuel with
  | zero => intro t p s depth log t' r rest h; simp [rsim] at h
  | succ fuel ih =>
    intro t p s depth log t' r rest h hI
    cases log with
    | nil => simp [rsim] at h
    | cons st log =>
      simp only [rsim] at h
      split at h
      · obtain ⟨d1, d2, d3⟩ := rdown_mean_fields m t p st
        have hd : RMean (rdown m t p st).1 := hI.of_eq d1 d2 d3
        split at h
        · simp at h
        · rename_i t3 imm log' hr
          simp at h
          obtain ⟨rfl, rfl, rfl⟩ := h
          split at hr
          · split at hr
            · simp at hr
            · rename_i t2 hal
              obtain ⟨a1, a2, a3⟩ := ralloc_mean hal
              exact (ih _ _ _ _ _ _ _ _ hr (hd.of_eq a1 a2 a3)).rup m k p st.a depth imm
          · simp at hr
            obtain ⟨rfl, _, rfl⟩ := hr
            exact (hd.of_eq (t1 := rleaf (rdown m t p st).1 (p ++ [(st.a, st.o)]) m.rLeafV
              (if depth + 1 < H then 0 else (rdown m t p st).1.km (p ++ [(st.a, st.o)]))) rfl rfl rfl).rup m k p st.a depth _
      · simp at h

theorem rrunSims_mean (m : Mdl) (H k : Nat) : ∀ (n : Nat) (t : RTree) (log : List Step) (t' : RTree) (rest : List Step),
    rrunSims m H k n t log = some (t', rest) → RMean t → RMean t' := by
  intro n
  induction n with
  | zero => intro t log t' rest h hI; simp [rrunSims] at h; obtain ⟨rfl, _⟩ := h; exact hI
  | succ n ih =>
    intro t log t' rest h hI
    cases log with
    | nil => simp [rrunSims] at h
    | cons st log =>
      simp only [rrunSims] at h
      split at h
      · split at h
        · simp at h
        · rename_i t1 r log' hsim
          exact ih _ _ _ _ h (rsim_mean m H k _ _ _ _ _ _ _ _ _ hsim hI)
      · simp at h

theorem RMean.fresh (support : List Nat) (nA : Nat) : RMean (RTree.fresh support nA) :=
  ⟨fun _ _ => rfl, fun _ _ => by show (0 : Rat) = mean []; rw [mean_nil]⟩

theorem RMean.reroot {t : RTree} (h : RMean t) (k : Key) : RMean (t.reroot k) :=
  ⟨fun q a => h.len (k :: q) a, fun q a => h.avg (k :: q) a⟩

/-- trees reachable by any history of public rPOMCP calls -/
inductive RReach (m : Mdl) (k : Nat) : RTree → Prop
  /-- the constructor builds a head node with `A` action nodes and no particles -/
  | init (nA : Nat) : RReach m k (RTree.fresh [] nA)
  | call (t t' : RTree) (op : Op) (log rest : List Step) : RReach m k t → rcall m k t op log = some (t', rest) → RReach m k t'

theorem rprepare_mean {t t0 : RTree} {op : Op} {H iters : Nat} (h : RMean t) (hp : rprepare t op = some (t0, H, iters)) : RMean t0 := by
  cases op with
  | fresh parts nA H' iters' =>
    simp [rprepare] at hp
    obtain ⟨rfl, _, _⟩ := hp
    exact RMean.fresh parts nA
  | adv a o parts nA H' iters' =>
    simp only [rprepare] at hp
    split at hp
    · split at hp
      · cases hal : (t.reroot (a, o)).alloc [] nA with
        | none => simp [hal] at hp
        | some t1 =>
          simp [hal] at hp
          obtain ⟨rfl, _, _⟩ := hp
          obtain ⟨a1, a2, a3⟩ := ralloc_mean hal
          exact (h.reroot (a, o)).of_eq a1 a2 a3
      · simp at hp
        obtain ⟨rfl, _, _⟩ := hp
        exact RMean.fresh parts nA
    · simp at hp

/-- **rPOMCP v_is_mean**: after any history of public calls (both knowledge measures), every action value is the mean
    of exactly the datapoints its simulations passed upwards, and its count is their number -/
theorem v_is_mean {m : Mdl} {k : Nat} {t : RTree} (h : RReach m k t) (q : Path) (a : Nat) :
    t.aN q a = (t.dps q a).length ∧ t.aV q a = mean (t.dps q a) := by
  have hI : RMean t := by
    induction h with
    | init nA => exact RMean.fresh [] nA
    | call t t' op log rest _ hc ih =>
      unfold rcall at hc
      split at hc
      · simp at hc
      · rename_i t0 H iters hp
        have h0 := rprepare_mean ih hp
        split at hc
        · simp at hc; obtain ⟨rfl, _⟩ := hc; exact h0
        · split at hc
          · simp at hc
          · rename_i t1 rest' hr
            simp at hc
            obtain ⟨rfl, _⟩ := hc
            exact (rrunSims_mean m H k _ _ _ _ _ hr h0).of_eq rfl rfl rfl
  exact ⟨hI.len q a, hI.avg q a⟩

theorem max_upd_aux (f : Nat → Nat) (ms s : Nat) (h : ∀ x, f x ≤ f ms) (x : Nat) :
    updN f s (f s + 1) x ≤ updN f s (f s + 1) (if updN f s (f s + 1) ms < f s + 1 then s else ms) := by
  have hx := h x
  have hs := h s
  simp only [updN]
  by_cases h1 : ms = s
  · subst h1
    by_cases h2 : x = ms
    · subst h2; simp
    · simp [h2]; omega
  · by_cases h3 : f ms < f s + 1
    · simp only [h1, if_false, h3, if_true]
      by_cases h2 : x = s
      · simp [h2]
      · simp [h2]; omega
    · simp only [h1, if_false, h3]
      by_cases h2 : x = s
      · simp [h2]; omega
      · simp [h2]; omega

/-- **knowledge-measure update, max-of-belief**: `updateBeliefAndKnowledge(s)` counts the particle, keeps `maxS_` a most
    frequent particle type and sets the measure to `count(maxS_) / (N + 1)` -/
theorem updBK_max_spec (m : Mdl) (hm : m.entropy = false) (t : RTree) (p : Path) (s : Nat)
    (hinv : ∀ x, t.tb p x ≤ t.tb p (t.maxS p)) :
    (t.updBK m p s).tb p = updN (t.tb p) s (t.tb p s + 1) ∧
    (∀ x, (t.updBK m p s).tb p x ≤ (t.updBK m p s).tb p ((t.updBK m p s).maxS p)) ∧
    (t.updBK m p s).km p = (((t.updBK m p s).tb p ((t.updBK m p s).maxS p) : Nat) : Rat) / ((t.nN p + 1 : Nat) : Rat) ∧
    (∀ q, q ≠ p → (t.updBK m p s).tb q = t.tb q ∧ (t.updBK m p s).km q = t.km q) := by
  have e1 : (t.updBK m p s).tb p = updN (t.tb p) s (t.tb p s + 1) := by simp [RTree.updBK, upd]
  have e2 : (t.updBK m p s).maxS p
      = if updN (t.tb p) s (t.tb p s + 1) (t.maxS p) < t.tb p s + 1 then s else t.maxS p := by
    simp [RTree.updBK, upd, hm]
  have e3 : (t.updBK m p s).km p = ((updN (t.tb p) s (t.tb p s + 1)
      (if updN (t.tb p) s (t.tb p s + 1) (t.maxS p) < t.tb p s + 1 then s else t.maxS p) : Nat) : Rat) / ((t.nN p + 1 : Nat) : Rat) := by
    simp [RTree.updBK, upd, hm]
  refine ⟨e1, fun x => ?_, ?_, fun q hq => ?_⟩
  · rw [e1, e2]; exact max_upd_aux (t.tb p) (t.maxS p) s hinv x
  · rw [e3, e1, e2]
  · simp [RTree.updBK, upd, hq]

/-- **knowledge-measure update, entropy**: the term of the particle type just seen is replaced by the new `p log p`,
    the running sum is corrected by the difference; nothing else changes -/
theorem updBK_ent_spec (m : Mdl) (hm : m.entropy = true) (t : RTree) (p : Path) (s : Nat) :
    (t.updBK m p s).tb p s = t.tb p s + 1 ∧
    (t.updBK m p s).negEnt p s = m.plogp (t.tb p s + 1) (t.nN p + 1) ∧
    (t.updBK m p s).km p = t.km p - t.negEnt p s + m.plogp (t.tb p s + 1) (t.nN p + 1) ∧
    (∀ x, x ≠ s → (t.updBK m p s).negEnt p x = t.negEnt p x ∧ (t.updBK m p s).tb p x = t.tb p x) := by
  refine ⟨by simp [RTree.updBK, upd, updN], by simp [RTree.updBK, upd, updN, hm], by simp [RTree.updBK, upd, hm], fun x hx => ?_⟩
  simp [RTree.updBK, upd, updN, hm, hx]

/-! #### rPOMCP: the max-mode bookkeeping (`maxBeliefNodeUpdate`) keeps `actionsV` the maximum action value -/

/-- **maxBeliefNodeUpdate / the `N == k_` switch**: once a node has been visited `k_` times its `actionsV` is the largest
    action value and `bestAction` an action attaining it — also when the updated action's value went *down* (the
    `else if (a == bestAction)` recomputation).  `t` is the tree after the action update of `a`; the hypothesis is the same
    statement before that update (all other action values unchanged). -/
theorem rbook_max_spec (k : Nat) (t : RTree) (p : Path) (a : Nat) (imm : Rat) (hk : k ≤ t.nN p) (hA : 0 < t.nA p)
    (hprev : k < t.nN p → (∀ c, c < t.nA p → c ≠ a → t.aV p c ≤ t.actV p) ∧
                          (t.best p ≠ a → t.actV p = t.aV p (t.best p) ∧ t.best p < t.nA p)) (ha : a < t.nA p) :
    (rbook k t p a imm).1 = t.aV p (rbook k t p a imm).2.1 ∧ (rbook k t p a imm).2.1 < t.nA p ∧
    ∀ c, c < t.nA p → t.aV p c ≤ (rbook k t p a imm).1 := by
  unfold rbook
  simp only [hk, if_true]
  split
  · exact ⟨rfl, argmaxV_lt _ _ hA, fun c hc => argmaxV_max _ _ c hc⟩
  · rename_i hne
    have hlt : k < t.nN p := by omega
    obtain ⟨h1, h2⟩ := hprev hlt
    split
    · rename_i hge
      refine ⟨rfl, ha, fun c hc => ?_⟩
      by_cases hca : c = a
      · subst hca; exact le_refl _
      · exact le_trans (h1 c hc hca) hge
    · rename_i hlt2
      split
      · exact ⟨rfl, argmaxV_lt _ _ hA, fun c hc => argmaxV_max _ _ c hc⟩
      · rename_i hab
        have hba : t.best p ≠ a := fun e => hab e.symm
        obtain ⟨e1, e2⟩ := h2 hba
        refine ⟨e1, e2, fun c hc => ?_⟩
        by_cases hca : c = a
        · subst hca; exact le_of_lt (not_le.mp hlt2)
        · exact h1 c hc hca

/-! #### rPOMCP entropy: the running knowledge measure is the sum of the stored `p log p` terms -/

theorem sumQ_map_updN_not_mem (f : Nat → Rat) (s : Nat) (v : Rat) : ∀ l : List Nat, s ∉ l →
    sumQ (l.map (updN f s v)) = sumQ (l.map f) := by
  intro l
  induction l with
  | nil => intro _; rfl
  | cons x xs ih =>
    intro hs
    simp only [List.mem_cons, not_or] at hs
    have hx : x ≠ s := fun h => hs.1 h.symm
    have hxv : updN f s v x = f x := by simp [updN, hx]
    simp only [List.map_cons, sumQ]
    rw [hxv, ih hs.2]

theorem sumQ_map_updN_mem (f : Nat → Rat) (s : Nat) (v : Rat) : ∀ l : List Nat, l.Nodup → s ∈ l →
    sumQ (l.map (updN f s v)) = sumQ (l.map f) - f s + v := by
  intro l
  induction l with
  | nil => intro _ h; simp at h
  | cons x xs ih =>
    intro hnd hs
    rw [List.nodup_cons] at hnd
    by_cases hx : x = s
    · subst hx
      have hxv : updN f x v x = v := by simp [updN]
      simp only [List.map_cons, sumQ]
      rw [hxv, sumQ_map_updN_not_mem f x v xs hnd.1]
      ring
    · have hs' : s ∈ xs := by
        simp only [List.mem_cons] at hs
        rcases hs with h | h
        · exact absurd h.symm hx
        · exact h
      have hxv : updN f s v x = f x := by simp [updN, hx]
      simp only [List.map_cons, sumQ]
      rw [hxv, ih hnd.2 hs']; ring

theorem sumQ_append_single (l : List Rat) (x : Rat) : sumQ (l ++ [x]) = sumQ l + x := by
  induction l with
  | nil => simp [sumQ]
  | cons y ys ih => simp only [List.cons_append, sumQ, ih]; ring

/-- the entropy bookkeeping of one belief node: the particle types seen are listed once, unseen types hold no term,
    and the running measure is exactly the sum of the stored terms -/
structure KmSum (t : RTree) (p : Path) : Prop where
  nodup : (t.keys p).Nodup
  zero : ∀ x, x ∉ t.keys p → t.negEnt p x = 0
  sum : t.km p = sumQ ((t.keys p).map (t.negEnt p))

/-- **entropy knowledge measure**: `updateBeliefAndKnowledge` keeps `knowledgeMeasure_ = Σ_s negativeEntropy[s]`
    (so the incremental `-= old; += new` never drifts from the stored terms, in exact arithmetic) -/
theorem KmSum.updBK {m : Mdl} (hm : m.entropy = true) {t : RTree} {p : Path} (h : KmSum t p) (s : Nat) :
    KmSum (t.updBK m p s) p := by
  have ek : (t.updBK m p s).keys p = if (t.keys p).contains s then t.keys p else t.keys p ++ [s] := by
    simp [RTree.updBK, upd]
  have en : (t.updBK m p s).negEnt p = updN (t.negEnt p) s (m.plogp (t.tb p s + 1) (t.nN p + 1)) := by
    simp [RTree.updBK, upd, hm]
  have em : (t.updBK m p s).km p = t.km p - t.negEnt p s + m.plogp (t.tb p s + 1) (t.nN p + 1) := by
    simp [RTree.updBK, upd, hm]
  by_cases hc : s ∈ t.keys p
  · have hc' : (t.keys p).contains s = true := by simpa using hc
    rw [hc'] at ek
    simp only [if_true] at ek
    refine ⟨by rw [ek]; exact h.nodup, fun x hx => ?_, ?_⟩
    · rw [ek] at hx
      have hxs : x ≠ s := fun e => hx (e ▸ hc)
      rw [en]; simp only [updN, hxs, if_false]; exact h.zero x hx
    · rw [em, ek, en, sumQ_map_updN_mem _ _ _ _ h.nodup hc, h.sum]
  · have hc' : (t.keys p).contains s = false := by simpa using hc
    rw [hc'] at ek
    simp only [Bool.false_eq_true, if_false] at ek
    refine ⟨?_, fun x hx => ?_, ?_⟩
    · rw [ek, List.nodup_append]
      refine ⟨h.nodup, by simp, fun a ha b hb => ?_⟩
      simp only [List.mem_singleton] at hb
      subst hb
      intro e; exact hc (e ▸ ha)
    · rw [ek] at hx
      simp only [List.mem_append, List.mem_singleton, not_or] at hx
      rw [en]; simp only [updN, hx.2, if_false]; exact h.zero x hx.1
    · rw [em, ek, en, List.map_append, List.map_cons, List.map_nil, sumQ_append_single,
        sumQ_map_updN_not_mem _ _ _ _ hc, h.sum, h.zero s hc]
      simp [updN]

/-- **rPOMCP advance_keeps_subtree**: the tree the simulations of `sampleAction(a, o, horizon)` start from is exactly the
    `(a, o)` child with everything below it (counts, values, particle maps, knowledge measures, bookkeeping), or a clean
    fresh head node — the latter exactly when that child does not exist or holds no particle. -/
theorem advance_keeps_subtree {t t0 : RTree} {a o : Nat} {parts : List Nat} {nA H iters H' iters' : Nat}
    (hp : rprepare t (Op.adv a o parts nA H iters) = some (t0, H', iters')) :
    (t.ex [(a, o)] = true ∧ ∀ q, t0.ex q = t.ex ((a, o) :: q) ∧ t0.nN q = t.nN ((a, o) :: q) ∧ t0.tb q = t.tb ((a, o) :: q) ∧
        t0.km q = t.km ((a, o) :: q) ∧ t0.v q = t.v ((a, o) :: q) ∧ t0.actV q = t.actV ((a, o) :: q) ∧
        t0.best q = t.best ((a, o) :: q) ∧ t0.aN q = t.aN ((a, o) :: q) ∧ t0.aV q = t.aV ((a, o) :: q) ∧
        (t0.nA q = t.nA ((a, o) :: q) ∨ (q = [] ∧ t.nA [(a, o)] = 0 ∧ t0.nA [] = nA)))
    ∨ t0 = RTree.fresh parts nA := by
  simp only [rprepare] at hp
  split at hp
  · split at hp
    · rename_i _ hc
      simp only [Bool.and_eq_true] at hc
      cases hal : (t.reroot (a, o)).alloc [] nA with
      | none => simp [hal] at hp
      | some t1 =>
        simp [hal] at hp
        obtain ⟨rfl, _, _⟩ := hp
        left
        refine ⟨hc.1, fun q => ?_⟩
        unfold RTree.alloc at hal
        split at hal
        · rename_i hn
          simp at hal; subst hal
          exact ⟨rfl, rfl, rfl, rfl, rfl, rfl, rfl, rfl, rfl, Or.inl rfl⟩
        · split at hal
          · rename_i hn0
            simp at hal; subst hal
            refine ⟨rfl, rfl, rfl, rfl, rfl, rfl, rfl, rfl, rfl, ?_⟩
            by_cases hq : q = []
            · subst hq; right; exact ⟨rfl, hn0, by simp [upd]⟩
            · left; simp only [upd, hq, if_false]; rfl
          · simp at hal
    · simp at hp
      obtain ⟨rfl, _, _⟩ := hp
      right; rfl
  · simp at hp

end R

/-! ### Witnesses: the hypotheses are satisfiable, and the source's rollout length breaks the horizon -/

/-- a two-action model, every reward 1, discount 1/2, never terminal, rollout length as in the source (`+ 1`) -/
def exM : Mdl := { pomcp := false, gamma := 1/2, rollOff := 1, rollGuard := false, bonus := fun _ _ => .nan, uctSlack := none, numA := fun _ => 2,
                   valid := fun st => st.r == 1 && !st.term }
def exStep (a : Nat) : Step := { s := 0, a := a, s1 := 0, o := 0, r := 1, term := false }
/-- horizon 2, two iterations: the first creates a leaf at depth 1 and rolls out 3 more steps, the second descends into it.
    (The bonus of `exM` is `NaN` everywhere, so the scan of `findBestBonusA` always stays on action 0.) -/
def exLog : List Step := [exStep 0, exStep 1, exStep 0, exStep 1, exStep 0, exStep 0]
def exOp : Op := Op.fresh [0] 2 2 2

theorem exM_bnd : Bnd exM 1 1 := by
  refine ⟨by norm_num [exM], fun st hv => ?_⟩
  simp only [exM, Bool.and_eq_true, beq_iff_eq] at hv
  rw [hv.1]; constructor <;> norm_num

/-- test (evaluation on literals): the example log is a run, the hypotheses of all theorems above are satisfiable
    by a non-trivial tree (root visited twice, both actions tried once) -/
theorem ex_reach : ∃ t, Reach exM t ∧ t.nN [] = 2 ∧ t.aN [] 0 = 2 ∧ t.nN [(0, 0)] = 1 ∧ t.ex [(0, 0)] = true := by
  have h : (call exM Tree.init exOp exLog).any
      (fun x => x.1.nN [] == 2 && x.1.aN [] 0 == 2 && x.1.nN [(0, 0)] == 1 && x.1.ex [(0, 0)] && x.2.isEmpty) = true := by decide
  rw [Option.any_eq_true] at h
  obtain ⟨x, hx, hp⟩ := h
  simp only [Bool.and_eq_true, beq_iff_eq] at hp
  refine ⟨x.1, Reach.call Tree.init x.1 exOp exLog x.2 Reach.init (by rw [hx]), hp.1.1.1.1, hp.1.1.1.2, hp.1.1.2, hp.1.2⟩

example : ∃ t, Reach exM t ∧ 0 < t.aN [] 0 := by
  obtain ⟨t, h, _, h1, _⟩ := ex_reach
  exact ⟨t, h, by omega⟩

/-- **depth_le_horizon_counterexample** (the model shares the defect): with the rollout length of the source,
    horizon 2, there is a run whose first simulation makes 4 calls of the generative model — the full-strength
    bound `≤ horizon` fails, the `_partial` bound `horizon + 2` is attained. -/
theorem depth_le_horizon_counterexample :
    ∃ (t' : Tree) (r : Rat) (used : List Step), Sim exM 2 (Tree.fresh [0] 2 4) [] 0 0 used t' r ∧ used.length = 4 ∧ ¬ used.length ≤ 2 := by
  have h : (simulate exM 2 3 (Tree.fresh [0] 2 4) [] 0 0 (exLog.take 4)).any (fun x => x.2.2.isEmpty) = true := by decide
  rw [Option.any_eq_true] at h
  obtain ⟨⟨t', r, rest⟩, hx, hp⟩ := h
  obtain ⟨used, hu, hS⟩ := simulate_sound exM 2 _ _ _ _ _ _ _ _ _ hx
  have hr : rest = [] := by simpa using hp
  subst hr
  have hlen : used.length = 4 := by
    have := congrArg List.length hu
    simp [exLog] at this
    omega
  exact ⟨t', r, used, hS, hlen, by omega⟩

/-- **v_in_return_range_counterexample**: same run; all rewards are 1 and the discount 1/2, so no 2-step return
    exceeds 3/2, but the recorded return is 1 + 1/2 + 1/4 + 1/8 = 15/8. -/
theorem v_in_return_range_counterexample :
    ∃ (t' : Tree) (r : Rat) (used : List Step), Sim exM 2 (Tree.fresh [0] 2 4) [] 0 0 used t' r ∧ hiR exM.gamma 1 2 < r := by
  have h : (simulate exM 2 3 (Tree.fresh [0] 2 4) [] 0 0 (exLog.take 4)).map (fun x => x.2.1) = some (15/8) := by
    simp [simulate, descend, rollout, exLog, exStep, exM, Tree.fresh, Tree.incN, Tree.create, Tree.update, Mdl.key, Mdl.rollLen, uctOk, uctOkGen, uctPick, firstBestX, uctScore, xadd, XRat.gt, XRat.lt]
    norm_num
  rw [Option.map_eq_some_iff] at h
  obtain ⟨⟨t', r, rest⟩, hx, hp⟩ := h
  obtain ⟨used, _, hS⟩ := simulate_sound exM 2 _ _ _ _ _ _ _ _ _ hx
  have hr : r = 15/8 := by simpa using hp
  refine ⟨t', r, used, hS, ?_⟩
  rw [hr]
  norm_num [hiR, exM]


/-- POMCP as in the source: the rollout at a new leaf is not guarded -/
def exP : Mdl := { pomcp := true, gamma := 1/2, rollOff := 1, rollGuard := false, bonus := fun _ _ => .nan, uctSlack := none, numA := fun _ => 2,
                   valid := fun _ => true }
def exT1 : Step := { s := 0, a := 0, s1 := 1, o := 0, r := 1, term := true }
def exT2 : Step := { s := 1, a := 1, s1 := 1, o := 0, r := 1, term := true }

/-- **no_simulation_past_terminal_counterexample** (POMCP, unguarded rollout): the first call reports the terminal
    state 1, a new leaf is created and the rollout samples the model again from that terminal state. -/
theorem no_simulation_past_terminal_counterexample :
    ∃ (t' : Tree) (r : Rat) (used : List Step), Sim exP 2 (Tree.fresh [0] 2 4) [] 0 0 used t' r ∧ ¬ NoCont used := by
  have h : (simulate exP 2 3 (Tree.fresh [0] 2 4) [] 0 0 [exT1, exT2]).any (fun x => x.2.2.isEmpty) = true := by decide
  rw [Option.any_eq_true] at h
  obtain ⟨⟨t', r, rest⟩, hx, hp⟩ := h
  obtain ⟨used, hu, hS⟩ := simulate_sound exP 2 _ _ _ _ _ _ _ _ _ hx
  have hr : rest = [] := by simpa using hp
  subst hr
  have hused : used = [exT1, exT2] := by simpa using hu.symm
  refine ⟨t', r, used, hS, ?_⟩
  rw [hused]
  intro hn
  have : exT1.term = false := hn.1
  simp [exT1] at this

end AITB.Tree
