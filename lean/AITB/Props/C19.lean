/-
  AITB.Props.C19 — online planners (MCTS, POMCP): horizon, tree consistency, promotion, particles.

  The transition system: `Roll` (one rollout) and `Sim` (one `simulate` call) are the big-step relations
  "this list of generative-model calls is a run of the code from this tree"; `rollout_sound` /
  `simulate_sound` show that the executable functions of AITB.Model.Tree (which the driver runs on the
  traces logged from the real library) accept exactly such runs.  Every property theorem is stated for every
  run: all generative models (`Mdl.valid`, `Mdl.numA` arbitrary: terminal states, variable action counts,
  rewards of any sign), all horizons, all choices of UCT / rollout actions / sampled outcomes.
-/
import AITB.Model.Tree
import AITB.Gen.C19
import Mathlib.Algebra.Order.Field.Rat
import Mathlib.Tactic.Ring
import Mathlib.Tactic.Linarith
import Mathlib.Tactic.FieldSimp

namespace AITB.Tree

/-! ### The transition system -/

/-- `Roll m n s g used x`: `rollout(model, s, n, ·)` started with discount accumulator `g` makes exactly the
    calls `used` and returns `x` -/
inductive Roll (m : Mdl) : Nat → Nat → Rat → List Step → Rat → Prop
  | zero (s : Nat) (g : Rat) : Roll m 0 s g [] 0
  | term (n s : Nat) (g : Rat) (st : Step) : st.s = s → st.a < m.numA s → m.valid st = true → st.term = true →
      Roll m (n+1) s g [st] (g * st.r)
  | step (n s : Nat) (g : Rat) (st : Step) (used : List Step) (x : Rat) : st.s = s → st.a < m.numA s → m.valid st = true →
      st.term = false → Roll m n st.s1 (g * m.gamma) used x → Roll m (n+1) s g (st :: used) (g * st.r + x)

theorem rollout_sound (m : Mdl) : ∀ (n s : Nat) (g : Rat) (log : List Step) (x : Rat) (rest : List Step),
    rollout m n s g log = some (x, rest) → ∃ used, log = used ++ rest ∧ Roll m n s g used x := by
  intro n
  induction n with
  | zero =>
    intro s g log x rest h
    simp [rollout] at h
    obtain ⟨rfl, rfl⟩ := h
    exact ⟨[], rfl, Roll.zero s g⟩
  | succ n ih =>
    intro s g log x rest h
    cases log with
    | nil => simp [rollout] at h
    | cons st log =>
      simp only [rollout] at h
      split at h
      · rename_i hc
        simp only [Bool.and_eq_true, decide_eq_true_eq] at hc
        obtain ⟨⟨hs, ha⟩, hv⟩ := hc
        split at h
        · rename_i ht
          simp at h
          obtain ⟨rfl, rfl⟩ := h
          exact ⟨[st], rfl, Roll.term n s g st hs ha hv ht⟩
        · rename_i ht
          split at h
          · simp at h
          · rename_i x' log' hr
            simp at h
            obtain ⟨rfl, rfl⟩ := h
            obtain ⟨used, hu, hR⟩ := ih _ _ _ _ _ hr
            refine ⟨st :: used, by rw [hu]; rfl, Roll.step n s g st used x' hs ha hv (by simpa using ht) hR⟩
      · simp at h

/-- `Sim m H t p s depth used t' r`: `simulate(node at p, s, depth)` with `maxDepth_ = H` run on tree `t` makes
    exactly the calls `used`, leaves the tree `t'` and returns `r` -/
inductive Sim (m : Mdl) (H : Nat) : Tree → Path → Nat → Nat → List Step → Tree → Rat → Prop
  | stop (t : Tree) (p : Path) (s depth : Nat) (st : Step) (t1 : Tree) :
      st.s = s → st.a < t.nA p → m.valid st = true →
      descend m H (t.incN p) p depth st = some (t1, Mode.stop) →
      Sim m H t p s depth [st] (t1.update p st.a st.r) st.r
  | roll (t : Tree) (p : Path) (s depth : Nat) (st : Step) (t1 : Tree) (n : Nat) (used : List Step) (fr : Rat) :
      st.s = s → st.a < t.nA p → m.valid st = true →
      descend m H (t.incN p) p depth st = some (t1, Mode.roll n) →
      Roll m n st.s1 1 used fr →
      Sim m H t p s depth (st :: used) (t1.update p st.a (st.r + m.gamma * fr)) (st.r + m.gamma * fr)
  | deeper (t : Tree) (p : Path) (s depth : Nat) (st : Step) (t1 t2 : Tree) (used : List Step) (fr : Rat) :
      st.s = s → st.a < t.nA p → m.valid st = true →
      descend m H (t.incN p) p depth st = some (t1, Mode.deeper) →
      Sim m H t1 (p ++ [(st.a, m.key st)]) st.s1 (depth + 1) used t2 fr →
      Sim m H t p s depth (st :: used) (t2.update p st.a (st.r + m.gamma * fr)) (st.r + m.gamma * fr)

theorem simulate_sound (m : Mdl) (H : Nat) : ∀ (fuel : Nat) (t : Tree) (p : Path) (s depth : Nat) (log : List Step)
    (t' : Tree) (r : Rat) (rest : List Step),
    simulate m H fuel t p s depth log = some (t', r, rest) → ∃ used, log = used ++ rest ∧ Sim m H t p s depth used t' r := by
  intro fuel
  induction fuel with
  | zero => intro t p s depth log t' r rest h; simp [simulate] at h
  | succ fuel ih =>
    intro t p s depth log t' r rest h
    cases log with
    | nil => simp [simulate] at h
    | cons st log =>
      simp only [simulate] at h
      split at h
      · rename_i hc
        simp only [Bool.and_eq_true, decide_eq_true_eq] at hc
        obtain ⟨⟨hs, ha⟩, hv⟩ := hc
        split at h
        · simp at h
        · rename_i t1 hd
          simp at h
          obtain ⟨rfl, rfl, rfl⟩ := h
          exact ⟨[st], rfl, Sim.stop t p s depth st t1 hs ha hv hd⟩
        · rename_i t1 n hd
          split at h
          · simp at h
          · rename_i fr log' hr
            simp at h
            obtain ⟨rfl, rfl, rfl⟩ := h
            obtain ⟨used, hu, hR⟩ := rollout_sound m _ _ _ _ _ _ hr
            exact ⟨st :: used, by rw [hu]; rfl, Sim.roll t p s depth st t1 n used fr hs ha hv hd hR⟩
        · rename_i t1 hd
          split at h
          · simp at h
          · rename_i t2 fr log' hr
            simp at h
            obtain ⟨rfl, rfl, rfl⟩ := h
            obtain ⟨used, hu, hS⟩ := ih _ _ _ _ _ _ _ _ hr
            exact ⟨st :: used, by rw [hu]; rfl, Sim.deeper t p s depth st t1 t2 used fr hs ha hv hd hS⟩
      · simp at h


/-! ### What `descend` can do to the tree -/

theorem alloc_spec {t t1 : Tree} {p : Path} {n : Nat} (h : t.alloc p n = some t1) :
    t1.nN = t.nN ∧ t1.aN = t.aN ∧ t1.aV = t.aV ∧ t1.rets = t.rets ∧ t1.budget = t.budget ∧ t1.ex = t.ex ∧
    t1.parts = t.parts ∧ t1.nodes = t.nodes ∧ t1.nA p = n ∧ (∀ q, t1.nA q = t.nA q ∨ (q = p ∧ t.nA q = 0)) := by
  unfold Tree.alloc at h
  split at h
  · rename_i hn
    simp at h; subst h
    exact ⟨rfl, rfl, rfl, rfl, rfl, rfl, rfl, rfl, hn, fun q => Or.inl rfl⟩
  · split at h
    · rename_i hn0
      simp at h; subst h
      refine ⟨rfl, rfl, rfl, rfl, rfl, rfl, rfl, rfl, by simp [upd], fun q => ?_⟩
      by_cases hq : q = p
      · subst hq; exact Or.inr ⟨rfl, hn0⟩
      · left; simp [upd, hq]
    · simp at h

/-- the three shapes of the structural change made by `descend` -/
inductive DescendShape (m : Mdl) (t t1 : Tree) (child : Path) (s1 : Nat) (mode : Mode) : Prop
  | created : t.ex child = false → t1.ex = upd t.ex child true → t1.parts = upd t.parts child [s1] →
      t1.nodes = t.nodes ++ [child] → (∀ q, t1.nA q = t.nA q) → mode ≠ Mode.deeper → DescendShape m t t1 child s1 mode
  | pushed : t.ex child = true → t1.ex = t.ex → t1.parts = upd t.parts child (t.parts child ++ [s1]) →
      t1.nodes = t.nodes → DescendShape m t t1 child s1 mode
  | untouched : t1 = t → mode = Mode.stop → m.pomcp = false → DescendShape m t t1 child s1 mode

theorem descend_spec {m : Mdl} {H : Nat} {t t1 : Tree} {p : Path} {depth : Nat} {st : Step} {mode : Mode}
    (h : descend m H t p depth st = some (t1, mode)) :
    t1.nN = t.nN ∧ t1.aN = t.aN ∧ t1.aV = t.aV ∧ t1.rets = t.rets ∧ t1.budget = t.budget ∧
    (∀ q, t1.nA q = t.nA q ∨ (q = p ++ [(st.a, m.key st)] ∧ t.nA q = 0)) ∧
    DescendShape m t t1 (p ++ [(st.a, m.key st)]) st.s1 mode ∧
    (mode = Mode.deeper → depth + 1 < H ∧ t1.ex (p ++ [(st.a, m.key st)]) = true ∧
        st.s1 ∈ t1.parts (p ++ [(st.a, m.key st)]) ∧ t1.nA (p ++ [(st.a, m.key st)]) = m.numA st.s1) ∧
    (∀ n, mode = Mode.roll n → n = m.rollLen H depth) := by
  unfold descend at h
  simp only at h
  split at h
  · -- POMCP
    split at h
    · rename_i hp hex
      have hex' : t.ex (p ++ [(st.a, m.key st)]) = false := by simpa using hex
      split at h
      · simp at h; obtain ⟨rfl, rfl⟩ := h
        exact ⟨rfl, rfl, rfl, rfl, rfl, fun q => Or.inl rfl,
          DescendShape.created hex' rfl rfl rfl (fun _ => rfl) (by simp), by simp, by simp⟩
      · simp at h; obtain ⟨rfl, rfl⟩ := h
        exact ⟨rfl, rfl, rfl, rfl, rfl, fun q => Or.inl rfl,
          DescendShape.created hex' rfl rfl rfl (fun _ => rfl) (by simp), by simp, by simp⟩
    · rename_i hp hex
      have hex' : t.ex (p ++ [(st.a, m.key st)]) = true := by simpa using hex
      split at h
      · rename_i hdeep
        cases ha : (t.pushPart (p ++ [(st.a, m.key st)]) st.s1).alloc (p ++ [(st.a, m.key st)]) (m.numA st.s1) with
        | none => simp [ha] at h
        | some t' =>
          simp [ha] at h; obtain ⟨rfl, rfl⟩ := h
          obtain ⟨a1, a2, a3, a4, a5, a6, a7, a8, a9, a10⟩ := alloc_spec ha
          simp only [Bool.and_eq_true, decide_eq_true_eq] at hdeep
          refine ⟨a1, a2, a3, a4, a5, a10, DescendShape.pushed hex' (by rw [a6]; rfl) (by rw [a7]; rfl) (by rw [a8]; rfl), ?_, by simp⟩
          intro _
          refine ⟨hdeep.1, by rw [a6]; exact hex', ?_, a9⟩
          rw [a7]; simp [Tree.pushPart, upd]
      · simp at h; obtain ⟨rfl, rfl⟩ := h
        exact ⟨rfl, rfl, rfl, rfl, rfl, fun q => Or.inl rfl, DescendShape.pushed hex' rfl rfl rfl, by simp, by simp⟩
  · -- MCTS
    rename_i hp
    have hp' : m.pomcp = false := by simpa using hp
    split at h
    · rename_i hdeep
      simp only [Bool.and_eq_true, decide_eq_true_eq] at hdeep
      split at h
      · rename_i hex
        have hex' : t.ex (p ++ [(st.a, m.key st)]) = false := by simpa using hex
        simp at h; obtain ⟨rfl, rfl⟩ := h
        exact ⟨rfl, rfl, rfl, rfl, rfl, fun q => Or.inl rfl,
          DescendShape.created hex' rfl rfl rfl (fun _ => rfl) (by simp), by simp, by simp⟩
      · rename_i hex
        have hex' : t.ex (p ++ [(st.a, m.key st)]) = true := by simpa using hex
        cases ha : (t.pushPart (p ++ [(st.a, m.key st)]) st.s1).alloc (p ++ [(st.a, m.key st)]) (m.numA st.s1) with
        | none => simp [ha] at h
        | some t' =>
          simp [ha] at h; obtain ⟨rfl, rfl⟩ := h
          obtain ⟨a1, a2, a3, a4, a5, a6, a7, a8, a9, a10⟩ := alloc_spec ha
          refine ⟨a1, a2, a3, a4, a5, a10, DescendShape.pushed hex' (by rw [a6]; rfl) (by rw [a7]; rfl) (by rw [a8]; rfl), ?_, by simp⟩
          intro _
          refine ⟨hdeep.1, by rw [a6]; exact hex', ?_, a9⟩
          rw [a7]; simp [Tree.pushPart, upd]
    · simp at h; obtain ⟨rfl, rfl⟩ := h
      exact ⟨rfl, rfl, rfl, rfl, rfl, fun q => Or.inl rfl, DescendShape.untouched rfl rfl hp', by simp, by simp⟩


/-! ### Counts and means (clauses `node_count_is_sum`, `v_is_mean`) -/

theorem sumTo_updN_lt (f : Nat → Nat) (a v : Nat) : ∀ n, a < n → sumTo (updN f a v) n + f a = sumTo f n + v := by
  intro n
  induction n with
  | zero => intro h; omega
  | succ n ih =>
    intro h
    by_cases han : a = n
    · subst han
      have : sumTo (updN f a v) a = sumTo f a := by
        clear ih h
        have : ∀ k, k ≤ a → sumTo (updN f a v) k = sumTo f k := by
          intro k
          induction k with
          | zero => intro _; rfl
          | succ k ihk =>
            intro hk
            simp only [sumTo]
            rw [ihk (by omega)]
            have : k ≠ a := by omega
            simp [updN, this]
        exact this a (Nat.le_refl a)
      simp only [sumTo, this]
      simp [updN]
      omega
    · have hlt : a < n := by omega
      have := ih hlt
      simp only [sumTo]
      have hne : n ≠ a := fun h => han h.symm
      simp only [updN, hne, if_false]
      omega

theorem sumTo_zero (f : Nat → Nat) (h : ∀ a, f a = 0) : ∀ n, sumTo f n = 0 := by
  intro n
  induction n with
  | zero => rfl
  | succ n ih => simp [sumTo, ih, h]

theorem mean_cons (x : Rat) (l : List Rat) :
    mean (x :: l) = mean l + (x - mean l) / ((l.length + 1 : Nat) : Rat) := by
  unfold mean
  simp only [sumQ, List.length_cons]
  by_cases hl : l.length = 0
  · have : l = [] := List.eq_nil_of_length_eq_zero hl
    subst this
    simp [sumQ]
  · have h1 : ((l.length : Nat) : Rat) ≠ 0 := by exact_mod_cast hl
    have h2 : ((l.length + 1 : Nat) : Rat) ≠ 0 := by
      have : (l.length + 1 : Nat) ≠ 0 := Nat.succ_ne_zero _
      exact_mod_cast this
    field_simp
    push_cast
    ring

/-- the bookkeeping invariant; `pend q` = number of `simulate` frames currently open on node `q`
    (they have done `N++` on the node but not yet on one of its actions) -/
structure StatInv (pend : Path → Nat) (t : Tree) : Prop where
  cnt : ∀ q, t.nN q = sumTo (t.aN q) (t.nA q) + pend q
  len : ∀ q a, t.aN q a = (t.rets q a).length
  avg : ∀ q a, t.aV q a = mean (t.rets q a)
  out : ∀ q a, t.nA q ≤ a → t.aN q a = 0

theorem StatInv.incN {pend : Path → Nat} {t : Tree} (h : StatInv pend t) (p : Path) :
    StatInv (upd pend p (pend p + 1)) (t.incN p) := by
  refine ⟨fun q => ?_, h.len, h.avg, h.out⟩
  show upd t.nN p (t.nN p + 1) q = sumTo (t.aN q) (t.nA q) + upd pend p (pend p + 1) q
  by_cases hq : q = p
  · subst hq; simp only [upd, if_true]; rw [h.cnt q]; omega
  · simp only [upd, hq, if_false]; exact h.cnt q

theorem StatInv.descend {pend : Path → Nat} {m : Mdl} {H : Nat} {t t1 : Tree} {p : Path} {depth : Nat} {st : Step}
    {mode : Mode} (h : StatInv pend t) (hd : descend m H t p depth st = some (t1, mode)) : StatInv pend t1 := by
  obtain ⟨e1, e2, e3, e4, _, hA, _, _, _⟩ := descend_spec hd
  refine ⟨fun q => ?_, fun q a => ?_, fun q a => ?_, fun q a hqa => ?_⟩
  · rw [e1, e2]
    rcases hA q with hq | ⟨_, hq0⟩
    · rw [hq]; exact h.cnt q
    · have hz : ∀ a, t.aN q a = 0 := fun a => h.out q a (by omega)
      rw [sumTo_zero _ hz]
      have := h.cnt q
      rw [hq0] at this
      simpa [sumTo] using this
  · rw [e2, e4]; exact h.len q a
  · rw [e3, e4]; exact h.avg q a
  · rw [e2]
    rcases hA q with hq | ⟨_, hq0⟩
    · exact h.out q a (by omega)
    · exact h.out q a (by omega)

theorem StatInv.update {pend pend' : Path → Nat} {t : Tree} {p : Path} {a : Nat} (rew : Rat) (h : StatInv pend' t)
    (ha : a < t.nA p) (hp : pend' p = pend p + 1) (hq : ∀ q, q ≠ p → pend' q = pend q) :
    StatInv pend (t.update p a rew) := by
  refine ⟨fun q => ?_, fun q b => ?_, fun q b => ?_, fun q b hqb => ?_⟩
  · show t.nN q = sumTo (upd t.aN p (updN (t.aN p) a (t.aN p a + 1)) q) (t.nA q) + pend q
    by_cases hqp : q = p
    · subst hqp
      simp only [upd, if_true]
      have := sumTo_updN_lt (t.aN q) a (t.aN q a + 1) (t.nA q) ha
      have hc := h.cnt q
      omega
    · simp only [upd, hqp, if_false]
      rw [← hq q hqp]; exact h.cnt q
  · show upd t.aN p (updN (t.aN p) a (t.aN p a + 1)) q b = (upd t.rets p (updN (t.rets p) a (rew :: t.rets p a)) q b).length
    by_cases hqp : q = p
    · subst hqp
      simp only [upd, if_true]
      by_cases hb : b = a
      · subst hb; simp [updN, h.len]
      · simp [updN, hb, h.len]
    · simp only [upd, hqp, if_false]; exact h.len q b
  · show upd t.aV p (updN (t.aV p) a (t.aV p a + (rew - t.aV p a) / ((t.aN p a + 1 : Nat) : Rat))) q b
        = mean (upd t.rets p (updN (t.rets p) a (rew :: t.rets p a)) q b)
    by_cases hqp : q = p
    · subst hqp
      simp only [upd, if_true]
      by_cases hb : b = a
      · subst hb
        simp only [updN, if_true]
        rw [mean_cons, h.avg q b, h.len q b]
      · simp only [updN, hb, if_false]; exact h.avg q b
    · simp only [upd, hqp, if_false]; exact h.avg q b
  · show upd t.aN p (updN (t.aN p) a (t.aN p a + 1)) q b = 0
    have hA : (t.update p a rew).nA q = t.nA q := rfl
    rw [hA] at hqb
    by_cases hqp : q = p
    · subst hqp
      have hb : b ≠ a := by omega
      simp only [upd, if_true, updN, hb, if_false]
      exact h.out q b hqb
    · simp only [upd, hqp, if_false]; exact h.out q b hqb

/-- action counts of a node never change once allocated -/
theorem Sim.nA_stable {m : Mdl} {H : Nat} {t t' : Tree} {p : Path} {s depth : Nat} {used : List Step} {r : Rat}
    (h : Sim m H t p s depth used t' r) : ∀ q, t'.nA q = t.nA q ∨ t.nA q = 0 := by
  induction h with
  | stop t p s depth st t1 _ _ _ hd =>
    intro q
    obtain ⟨_, _, _, _, _, hA, _⟩ := descend_spec hd
    rcases hA q with h | ⟨_, h⟩
    · left; exact h
    · right; exact h
  | roll t p s depth st t1 n used fr _ _ _ hd _ =>
    intro q
    obtain ⟨_, _, _, _, _, hA, _⟩ := descend_spec hd
    rcases hA q with h | ⟨_, h⟩
    · left; exact h
    · right; exact h
  | deeper t p s depth st t1 t2 used fr _ _ _ hd _ ih =>
    intro q
    obtain ⟨_, _, _, _, _, hA, _⟩ := descend_spec hd
    have h12 : t2.nA q = t1.nA q ∨ t1.nA q = 0 := ih q
    show t2.nA q = t.nA q ∨ t.nA q = 0
    rcases hA q with h | ⟨_, h⟩
    · have h' : t1.nA q = t.nA q := h
      rcases h12 with h2 | h2
      · left; rw [h2, h']
      · right; rw [← h']; exact h2
    · right; exact h

/-- **every `simulate` call preserves the bookkeeping invariant** (for any number of open frames above it) -/
theorem Sim.statInv {m : Mdl} {H : Nat} {t t' : Tree} {p : Path} {s depth : Nat} {used : List Step} {r : Rat}
    (h : Sim m H t p s depth used t' r) : ∀ pend, StatInv pend t → StatInv pend t' := by
  induction h with
  | stop t p s depth st t1 _ ha _ hd =>
    intro pend hI
    have h1 := (hI.incN p).descend hd
    obtain ⟨_, _, _, _, _, hA, _⟩ := descend_spec hd
    have ha1 : st.a < t1.nA p := by
      rcases hA p with h | ⟨_, h⟩
      · rw [h]; exact ha
      · have : (t.incN p).nA p = t.nA p := rfl
        omega
    exact h1.update st.r ha1 (by simp [upd]) (fun q hq => by simp [upd, hq])
  | roll t p s depth st t1 n used fr _ ha _ hd _ =>
    intro pend hI
    have h1 := (hI.incN p).descend hd
    obtain ⟨_, _, _, _, _, hA, _⟩ := descend_spec hd
    have ha1 : st.a < t1.nA p := by
      rcases hA p with h | ⟨_, h⟩
      · rw [h]; exact ha
      · have : (t.incN p).nA p = t.nA p := rfl
        omega
    exact h1.update _ ha1 (by simp [upd]) (fun q hq => by simp [upd, hq])
  | deeper t p s depth st t1 t2 used fr _ ha _ hd hS ih =>
    intro pend hI
    have h1 := (hI.incN p).descend hd
    obtain ⟨_, _, _, _, _, hA, _⟩ := descend_spec hd
    have ha1 : st.a < t1.nA p := by
      rcases hA p with h | ⟨_, h⟩
      · rw [h]; exact ha
      · have : (t.incN p).nA p = t.nA p := rfl
        omega
    have h2 := ih _ h1
    have ha2 : st.a < t2.nA p := by
      rcases hS.nA_stable p with h | h
      · rw [h]; exact ha1
      · omega
    exact h2.update _ ha2 (by simp [upd]) (fun q hq => by simp [upd, hq])


/-! ### Horizon (clause `depth_le_horizon`) -/

theorem Roll.length_le {m : Mdl} {n s : Nat} {g : Rat} {used : List Step} {x : Rat} (h : Roll m n s g used x) :
    used.length ≤ n := by
  induction h with
  | zero => simp
  | term => simp
  | step n s g st used x _ _ _ _ _ ih => simp; omega

theorem rollLen_le (m : Mdl) (H depth : Nat) (hd : depth < H) : 1 + m.rollLen H depth ≤ H - depth + m.overrun := by
  unfold Mdl.rollLen Mdl.overrun
  omega

/-- **one simulation started at depth `depth` makes at most `H - depth + overrun` calls of the generative
    model**; the i-th of them is made on a state `depth + i` transitions below the root -/
theorem Sim.length_le {m : Mdl} {H : Nat} {t t' : Tree} {p : Path} {s depth : Nat} {used : List Step} {r : Rat}
    (h : Sim m H t p s depth used t' r) : depth < H → used.length ≤ H - depth + m.overrun := by
  induction h with
  | stop => intro hd; simp; omega
  | roll t p s depth st t1 n used fr _ _ _ hd hR =>
    intro hlt
    obtain ⟨_, _, _, _, _, _, _, _, hn⟩ := descend_spec hd
    have := hR.length_le
    have hn' := hn n rfl
    have := rollLen_le m H depth hlt
    simp; omega
  | deeper t p s depth st t1 t2 used fr _ _ _ hd _ ih =>
    intro hlt
    obtain ⟨_, _, _, _, _, _, _, hm, _⟩ := descend_spec hd
    have h1 := (hm rfl).1
    have := ih h1
    simp; omega

/-! ### Returns stay in the achievable range (clause `v_in_return_range`) -/

def pos0 (x : Rat) : Rat := if 0 ≤ x then x else 0
def neg0 (x : Rat) : Rat := if x ≤ 0 then x else 0

theorem pos0_nonneg (x : Rat) : 0 ≤ pos0 x := by unfold pos0; split <;> linarith
theorem le_pos0 (x : Rat) : x ≤ pos0 x := by unfold pos0; split <;> linarith
theorem pos0_mono {x y : Rat} (h : x ≤ y) : pos0 x ≤ pos0 y := by unfold pos0; split <;> split <;> linarith
theorem neg0_nonpos (x : Rat) : neg0 x ≤ 0 := by unfold neg0; split <;> linarith
theorem neg0_le (x : Rat) : neg0 x ≤ x := by unfold neg0; split <;> linarith
theorem neg0_mono {x y : Rat} (h : x ≤ y) : neg0 x ≤ neg0 y := by unfold neg0; split <;> split <;> linarith

theorem hiR_succ (g rmax : Rat) (n : Nat) : hiR g rmax (n+1) = rmax + g * pos0 (hiR g rmax n) := rfl
theorem loR_succ (g rmin : Rat) (n : Nat) : loR g rmin (n+1) = rmin + g * neg0 (loR g rmin n) := rfl

theorem pos0_hiR_mono (g rmax : Rat) (hg : 0 ≤ g) : ∀ n, pos0 (hiR g rmax n) ≤ pos0 (hiR g rmax (n+1)) := by
  intro n
  induction n with
  | zero => show pos0 0 ≤ _; have : pos0 (0:Rat) = 0 := by simp [pos0]
            rw [this]; exact pos0_nonneg _
  | succ n ih =>
    apply pos0_mono
    have e1 := hiR_succ g rmax (n+1)
    have e2 := hiR_succ g rmax n
    have := mul_le_mul_of_nonneg_left ih hg
    linarith

theorem neg0_loR_anti (g rmin : Rat) (hg : 0 ≤ g) : ∀ n, neg0 (loR g rmin (n+1)) ≤ neg0 (loR g rmin n) := by
  intro n
  induction n with
  | zero => show _ ≤ neg0 0; have : neg0 (0:Rat) = 0 := by simp [neg0]
            rw [this]; exact neg0_nonpos _
  | succ n ih =>
    apply neg0_mono
    have e1 := loR_succ g rmin (n+1)
    have e2 := loR_succ g rmin n
    have := mul_le_mul_of_nonneg_left ih hg
    linarith

/-- more remaining steps ⇒ wider range (for at least one step) -/
theorem hiR_mono (g rmax : Rat) (hg : 0 ≤ g) : ∀ j k, 1 ≤ j → j ≤ k → hiR g rmax j ≤ hiR g rmax k := by
  intro j k hj hjk
  induction k with
  | zero => omega
  | succ k ih =>
    by_cases hjk' : j = k + 1
    · subst hjk'; exact le_refl _
    · have h1 := ih (by omega)
      obtain ⟨k', rfl⟩ : ∃ k', k = k' + 1 := ⟨k - 1, by omega⟩
      rw [hiR_succ g rmax (k'+1)]
      rw [hiR_succ] at h1
      have := mul_le_mul_of_nonneg_left (pos0_hiR_mono g rmax hg k') hg
      linarith

theorem loR_anti (g rmin : Rat) (hg : 0 ≤ g) : ∀ j k, 1 ≤ j → j ≤ k → loR g rmin k ≤ loR g rmin j := by
  intro j k hj hjk
  induction k with
  | zero => omega
  | succ k ih =>
    by_cases hjk' : j = k + 1
    · subst hjk'; exact le_refl _
    · have h1 := ih (by omega)
      obtain ⟨k', rfl⟩ : ∃ k', k = k' + 1 := ⟨k - 1, by omega⟩
      rw [loR_succ g rmin (k'+1)]
      rw [loR_succ] at h1
      have := mul_le_mul_of_nonneg_left (neg0_loR_anti g rmin hg k') hg
      linarith

/-- what the theorems assume of the generative model: a discount ≥ 0 and rewards within `[rmin, rmax]` -/
structure Bnd (m : Mdl) (rmin rmax : Rat) : Prop where
  g0 : 0 ≤ m.gamma
  r : ∀ st, m.valid st = true → rmin ≤ st.r ∧ st.r ≤ rmax

theorem Roll.bound {m : Mdl} {rmin rmax : Rat} (hb : Bnd m rmin rmax) {n s : Nat} {g : Rat} {used : List Step} {x : Rat}
    (h : Roll m n s g used x) : 0 ≤ g → g * loR m.gamma rmin n ≤ x ∧ x ≤ g * hiR m.gamma rmax n := by
  induction h with
  | zero s g => intro _; simp [loR, hiR]
  | term n s g st _ _ hv _ =>
    intro hg
    obtain ⟨h1, h2⟩ := hb.r st hv
    rw [loR_succ, hiR_succ]
    have e1 := mul_nonneg hb.g0 (pos0_nonneg (hiR m.gamma rmax n))
    have e2 := mul_nonpos_of_nonneg_of_nonpos hb.g0 (neg0_nonpos (loR m.gamma rmin n))
    constructor
    · apply mul_le_mul_of_nonneg_left _ hg; linarith
    · apply mul_le_mul_of_nonneg_left _ hg; linarith
  | step n s g st used x _ _ hv _ _ ih =>
    intro hg
    obtain ⟨h1, h2⟩ := hb.r st hv
    have hgg : 0 ≤ g * m.gamma := mul_nonneg hg hb.g0
    obtain ⟨i1, i2⟩ := ih hgg
    rw [loR_succ, hiR_succ]
    have e1 := mul_le_mul_of_nonneg_left (le_pos0 (hiR m.gamma rmax n)) hgg
    have e2 := mul_le_mul_of_nonneg_left (neg0_le (loR m.gamma rmin n)) hgg
    have e3 := mul_le_mul_of_nonneg_left h1 hg
    have e4 := mul_le_mul_of_nonneg_left h2 hg
    constructor
    · have : g * (rmin + m.gamma * neg0 (loR m.gamma rmin n)) = g * rmin + g * m.gamma * neg0 (loR m.gamma rmin n) := by ring
      rw [this]; linarith
    · have : g * (rmax + m.gamma * pos0 (hiR m.gamma rmax n)) = g * rmax + g * m.gamma * pos0 (hiR m.gamma rmax n) := by ring
      rw [this]; linarith

/-- one more step in front of a future return that is `0` or within the range for `n` steps -/
theorem step_bound {m : Mdl} {rmin rmax : Rat} (hb : Bnd m rmin rmax) {st : Step} (hv : m.valid st = true) {fr : Rat} {n : Nat}
    (h1 : neg0 (loR m.gamma rmin n) ≤ fr) (h2 : fr ≤ pos0 (hiR m.gamma rmax n)) :
    loR m.gamma rmin (n+1) ≤ st.r + m.gamma * fr ∧ st.r + m.gamma * fr ≤ hiR m.gamma rmax (n+1) := by
  obtain ⟨r1, r2⟩ := hb.r st hv
  rw [loR_succ, hiR_succ]
  have e1 := mul_le_mul_of_nonneg_left h1 hb.g0
  have e2 := mul_le_mul_of_nonneg_left h2 hb.g0
  constructor <;> linarith

/-- **the return of a `simulate` call at depth `depth` is an achievable return over at most
    `H - depth + overrun` steps** -/
theorem Sim.bound {m : Mdl} {rmin rmax : Rat} (hb : Bnd m rmin rmax) {H : Nat} {t t' : Tree} {p : Path} {s depth : Nat}
    {used : List Step} {r : Rat} (h : Sim m H t p s depth used t' r) : depth < H →
    loR m.gamma rmin (H - depth + m.overrun) ≤ r ∧ r ≤ hiR m.gamma rmax (H - depth + m.overrun) := by
  induction h with
  | stop t p s depth st t1 _ _ hv _ =>
    intro hlt
    obtain ⟨r1, r2⟩ := hb.r st hv
    have h1 := hiR_mono m.gamma rmax hb.g0 1 (H - depth + m.overrun) (le_refl 1) (by omega)
    have h2 := loR_anti m.gamma rmin hb.g0 1 (H - depth + m.overrun) (le_refl 1) (by omega)
    have e1 : hiR m.gamma rmax 1 = rmax := by simp [hiR]
    have e2 : loR m.gamma rmin 1 = rmin := by simp [loR]
    constructor <;> linarith
  | roll t p s depth st t1 n used fr _ _ hv hd hR =>
    intro hlt
    obtain ⟨_, _, _, _, _, _, _, _, hn⟩ := descend_spec hd
    have hn' := hn n rfl
    have hlen := rollLen_le m H depth hlt
    obtain ⟨b1, b2⟩ := hR.bound hb (by norm_num)
    rw [one_mul] at b1 b2
    have := step_bound hb hv (n := n) (fr := fr) (le_trans (neg0_le _) b1) (le_trans b2 (le_pos0 _))
    have h1 := hiR_mono m.gamma rmax hb.g0 (n+1) (H - depth + m.overrun) (by omega) (by omega)
    have h2 := loR_anti m.gamma rmin hb.g0 (n+1) (H - depth + m.overrun) (by omega) (by omega)
    constructor <;> linarith [this.1, this.2]
  | deeper t p s depth st t1 t2 used fr _ _ hv hd _ ih =>
    intro hlt
    obtain ⟨_, _, _, _, _, _, _, hm, _⟩ := descend_spec hd
    have hd1 := (hm rfl).1
    obtain ⟨b1, b2⟩ := ih hd1
    have := step_bound hb hv (n := H - (depth + 1) + m.overrun) (fr := fr) (le_trans (neg0_le _) b1) (le_trans b2 (le_pos0 _))
    have e : H - (depth + 1) + m.overrun + 1 = H - depth + m.overrun := by omega
    rw [e] at this
    exact this


/-- every return that was averaged into an action value of a node at depth `|q|` is an achievable return over
    `k ≥ 1` steps that fit into the tree's step budget below that depth -/
def RngInv (m : Mdl) (rmin rmax : Rat) (t : Tree) : Prop :=
  ∀ q a x, x ∈ t.rets q a → ∃ k, 1 ≤ k ∧ k + q.length ≤ t.budget ∧ loR m.gamma rmin k ≤ x ∧ x ≤ hiR m.gamma rmax k

theorem RngInv.of_eq {m : Mdl} {rmin rmax : Rat} {t t1 : Tree} (h : RngInv m rmin rmax t) (e1 : t1.rets = t.rets)
    (e2 : t1.budget = t.budget) : RngInv m rmin rmax t1 := by
  intro q a x hx; rw [e1] at hx; rw [e2]; exact h q a x hx

theorem RngInv.update {m : Mdl} {rmin rmax : Rat} {t : Tree} (h : RngInv m rmin rmax t) (p : Path) (a : Nat) (rew : Rat)
    (hr : ∃ k, 1 ≤ k ∧ k + p.length ≤ t.budget ∧ loR m.gamma rmin k ≤ rew ∧ rew ≤ hiR m.gamma rmax k) :
    RngInv m rmin rmax (t.update p a rew) := by
  intro q b x hx
  show ∃ k, 1 ≤ k ∧ k + q.length ≤ t.budget ∧ _
  have hx' : x ∈ upd t.rets p (updN (t.rets p) a (rew :: t.rets p a)) q b := hx
  by_cases hq : q = p
  · subst hq
    simp only [upd, if_true] at hx'
    by_cases hb : b = a
    · subst hb
      simp only [updN, if_true, List.mem_cons] at hx'
      rcases hx' with rfl | hx'
      · exact hr
      · exact h q b x hx'
    · simp only [updN, hb, if_false] at hx'
      exact h q b x hx'
  · simp only [upd, hq, if_false] at hx'
    exact h q b x hx'

/-- **every `simulate` call keeps all recorded returns within the achievable range** -/
theorem Sim.rngInv {m : Mdl} {rmin rmax : Rat} (hb : Bnd m rmin rmax) {H : Nat} {t t' : Tree} {p : Path} {s depth : Nat}
    {used : List Step} {r : Rat} (h : Sim m H t p s depth used t' r) :
    depth < H → (H - depth + m.overrun) + p.length ≤ t.budget → RngInv m rmin rmax t →
    RngInv m rmin rmax t' ∧ t'.budget = t.budget := by
  induction h with
  | stop t p s depth st t1 hs ha hv hd =>
    intro hlt hbud hI
    have hS := Sim.stop (m := m) (H := H) t p s depth st t1 hs ha hv hd
    obtain ⟨_, _, _, e4, e5, _⟩ := descend_spec hd
    have h1 : RngInv m rmin rmax t1 := hI.of_eq e4 e5
    have hbd : t1.budget = t.budget := e5
    refine ⟨h1.update p st.a st.r ⟨H - depth + m.overrun, by omega, by omega, hS.bound hb hlt⟩, hbd⟩
  | roll t p s depth st t1 n used fr hs ha hv hd hR =>
    intro hlt hbud hI
    have hS := Sim.roll (m := m) (H := H) t p s depth st t1 n used fr hs ha hv hd hR
    obtain ⟨_, _, _, e4, e5, _⟩ := descend_spec hd
    have h1 : RngInv m rmin rmax t1 := hI.of_eq e4 e5
    have hbd : t1.budget = t.budget := e5
    refine ⟨h1.update p st.a _ ⟨H - depth + m.overrun, by omega, by omega, hS.bound hb hlt⟩, hbd⟩
  | deeper t p s depth st t1 t2 used fr hs ha hv hd hS' ih =>
    intro hlt hbud hI
    have hS := Sim.deeper (m := m) (H := H) t p s depth st t1 t2 used fr hs ha hv hd hS'
    obtain ⟨_, _, _, e4, e5, _, _, hm, _⟩ := descend_spec hd
    have hd1 := (hm rfl).1
    have h1 : RngInv m rmin rmax t1 := hI.of_eq e4 e5
    have hbd : t1.budget = t.budget := e5
    obtain ⟨h2, hb2⟩ := ih hd1 (by simp; omega) h1
    refine ⟨h2.update p st.a _ ⟨H - depth + m.overrun, by omega, by omega, hS.bound hb hlt⟩, ?_⟩
    show t2.budget = t.budget
    rw [hb2, hbd]


/-! ### Particles and node keys are consistent with the history (clause `particles_consistent`) -/

/-- `par`: every particle of the node reached by history `q ++ [(a, o)]` is the outcome `s1` of a possible
    transition of the generative model (`valid`) under action `a` with observation / key `o` from a particle of
    the node reached by `q`.  (MCTS: the "particles" are the states the simulations passed through the node.)
    `nex`/`pre`: nodes that do not exist hold no particles; existing nodes have existing parents. -/
structure StrInv (m : Mdl) (t : Tree) : Prop where
  nex : ∀ q, t.ex q = false → t.parts q = []
  pre : ∀ q k, t.ex (q ++ [k]) = true → t.ex q = true
  par : ∀ q k x, x ∈ t.parts (q ++ [k]) →
    ∃ st : Step, st.s ∈ t.parts q ∧ m.valid st = true ∧ st.a = k.1 ∧ st.s1 = x ∧ m.key st = k.2

theorem ne_append_singleton (p : Path) (k : Key) : p ≠ p ++ [k] := by
  intro h
  have := congrArg List.length h
  simp at this

theorem StrInv.descend {m : Mdl} {H : Nat} {t t1 : Tree} {p : Path} {depth : Nat} {st : Step} {mode : Mode}
    (h : StrInv m t) (hex : t.ex p = true) (hs : st.s ∈ t.parts p) (hv : m.valid st = true)
    (hd : descend m H t p depth st = some (t1, mode)) : StrInv m t1 := by
  obtain ⟨_, _, _, _, _, _, hshape, _, _⟩ := descend_spec hd
  have hne := ne_append_singleton p (st.a, m.key st)
  cases hshape with
  | created hc e1 e2 _ _ _ =>
    refine ⟨fun q hq => ?_, fun q k hq => ?_, fun q k x hx => ?_⟩
    · rw [e1] at hq; rw [e2]
      by_cases hqc : q = p ++ [(st.a, m.key st)]
      · simp [upd, hqc] at hq
      · simp only [upd, hqc, if_false] at hq ⊢; exact h.nex q hq
    · rw [e1] at hq ⊢
      by_cases hqc : q ++ [k] = p ++ [(st.a, m.key st)]
      · obtain ⟨rfl, _⟩ := List.append_inj' hqc rfl
        simp only [upd, hne, if_false]; exact hex
      · simp only [upd, hqc, if_false] at hq
        have := h.pre q k hq
        by_cases hq2 : q = p ++ [(st.a, m.key st)]
        · simp [upd, hq2]
        · simp only [upd, hq2, if_false]; exact this
    · rw [e2] at hx ⊢
      by_cases hqc : q ++ [k] = p ++ [(st.a, m.key st)]
      · obtain ⟨rfl, hk⟩ := List.append_inj' hqc rfl
        simp only [upd, hqc, if_true, List.mem_singleton] at hx
        have hk' : k = (st.a, m.key st) := by simpa using hk
        refine ⟨st, ?_, hv, by rw [hk'], hx.symm, by rw [hk']⟩
        simp only [upd, hne, if_false]; exact hs
      · simp only [upd, hqc, if_false] at hx
        obtain ⟨st', h1, h2, h3, h4, h5⟩ := h.par q k x hx
        refine ⟨st', ?_, h2, h3, h4, h5⟩
        by_cases hq2 : q = p ++ [(st.a, m.key st)]
        · rw [hq2, h.nex _ hc] at h1; simp at h1
        · simp only [upd, hq2, if_false]; exact h1
  | pushed hc e1 e2 _ =>
    refine ⟨fun q hq => ?_, fun q k hq => ?_, fun q k x hx => ?_⟩
    · rw [e1] at hq; rw [e2]
      have hqc : q ≠ p ++ [(st.a, m.key st)] := by
        intro hqc; rw [hqc, hc] at hq; simp at hq
      simp only [upd, hqc, if_false]; exact h.nex q hq
    · rw [e1] at hq ⊢; exact h.pre q k hq
    · rw [e2] at hx ⊢
      have hsub : ∀ q y, y ∈ t.parts q → y ∈ upd t.parts (p ++ [(st.a, m.key st)]) (t.parts (p ++ [(st.a, m.key st)]) ++ [st.s1]) q := by
        intro q y hy
        by_cases hq2 : q = p ++ [(st.a, m.key st)]
        · subst hq2; simp only [upd, if_true]; exact List.mem_append_left _ hy
        · simp only [upd, hq2, if_false]; exact hy
      by_cases hqc : q ++ [k] = p ++ [(st.a, m.key st)]
      · obtain ⟨rfl, hk⟩ := List.append_inj' hqc rfl
        have hk' : k = (st.a, m.key st) := by simpa using hk
        simp only [upd, hqc, if_true, List.mem_append, List.mem_singleton] at hx
        rcases hx with hx | hx
        · rw [← hqc] at hx
          obtain ⟨st', h1, h2, h3, h4, h5⟩ := h.par q k x hx
          exact ⟨st', hsub _ _ h1, h2, h3, h4, h5⟩
        · exact ⟨st, hsub _ _ hs, hv, by rw [hk'], hx.symm, by rw [hk']⟩
      · simp only [upd, hqc, if_false] at hx
        obtain ⟨st', h1, h2, h3, h4, h5⟩ := h.par q k x hx
        exact ⟨st', hsub _ _ h1, h2, h3, h4, h5⟩
  | untouched e _ _ => rw [e]; exact h

theorem StrInv.of_eq {m : Mdl} {t t1 : Tree} (h : StrInv m t) (e1 : t1.ex = t.ex) (e2 : t1.parts = t.parts) : StrInv m t1 := by
  refine ⟨fun q hq => ?_, fun q k hq => ?_, fun q k x hx => ?_⟩
  · rw [e1] at hq; rw [e2]; exact h.nex q hq
  · rw [e1] at hq ⊢; exact h.pre q k hq
  · rw [e2] at hx ⊢; exact h.par q k x hx

/-- **every `simulate` call keeps the particles consistent with the histories of their nodes** -/
theorem Sim.strInv {m : Mdl} {H : Nat} {t t' : Tree} {p : Path} {s depth : Nat} {used : List Step} {r : Rat}
    (h : Sim m H t p s depth used t' r) : StrInv m t → t.ex p = true → s ∈ t.parts p → StrInv m t' := by
  induction h with
  | stop t p s depth st t1 hs _ hv hd =>
    intro hI hex hsp
    have h1 : StrInv m t1 := StrInv.descend (t := t.incN p) (hI.of_eq rfl rfl) hex (by rw [hs]; exact hsp) hv hd
    exact h1.of_eq rfl rfl
  | roll t p s depth st t1 n used fr hs _ hv hd _ =>
    intro hI hex hsp
    have h1 : StrInv m t1 := StrInv.descend (t := t.incN p) (hI.of_eq rfl rfl) hex (by rw [hs]; exact hsp) hv hd
    exact h1.of_eq rfl rfl
  | deeper t p s depth st t1 t2 used fr hs _ hv hd _ ih =>
    intro hI hex hsp
    have h1 : StrInv m t1 := StrInv.descend (t := t.incN p) (hI.of_eq rfl rfl) hex (by rw [hs]; exact hsp) hv hd
    obtain ⟨_, _, _, _, _, _, _, hm, _⟩ := descend_spec hd
    obtain ⟨_, hex1, hs1, _⟩ := hm rfl
    exact (ih h1 hex1 hs1).of_eq rfl rfl


/-- nodes are never removed by a simulation -/
theorem Sim.ex_mono {m : Mdl} {H : Nat} {t t' : Tree} {p : Path} {s depth : Nat} {used : List Step} {r : Rat}
    (h : Sim m H t p s depth used t' r) : ∀ q, t.ex q = true → t'.ex q = true := by
  have key : ∀ {t t1 : Tree} {p : Path} {depth : Nat} {st : Step} {mode : Mode},
      descend m H (t.incN p) p depth st = some (t1, mode) → ∀ q, t.ex q = true → t1.ex q = true := by
    intro t t1 p depth st mode hd q hq
    obtain ⟨_, _, _, _, _, _, hshape, _, _⟩ := descend_spec hd
    cases hshape with
    | created _ e1 _ _ _ _ =>
      rw [e1]; by_cases hqc : q = p ++ [(st.a, m.key st)]
      · simp [upd, hqc]
      · simp only [upd, hqc, if_false]; exact hq
    | pushed _ e1 _ _ => rw [e1]; exact hq
    | untouched e _ _ => rw [e]; exact hq
  induction h with
  | stop t p s depth st t1 _ _ _ hd => intro q hq; exact key hd q hq
  | roll t p s depth st t1 n used fr _ _ _ hd _ => intro q hq; exact key hd q hq
  | deeper t p s depth st t1 t2 used fr _ _ _ hd _ ih => intro q hq; exact ih q (key hd q hq)

/-! ### Whole calls and histories of calls -/

/-- `Sims m H n t useds t'`: `n` simulations from the root, the i-th making exactly the calls `useds[i]` -/
inductive Sims (m : Mdl) (H : Nat) : Nat → Tree → List (List Step) → Tree → Prop
  | zero (t : Tree) : Sims m H 0 t [] t
  | succ (n : Nat) (t t1 t2 : Tree) (s : Nat) (used : List Step) (r : Rat) (useds : List (List Step)) :
      s ∈ t.parts [] → Sim m H t [] s 0 used t1 r → Sims m H n t1 useds t2 → Sims m H (n+1) t (used :: useds) t2

theorem runSims_sound (m : Mdl) (H : Nat) : ∀ (n : Nat) (t : Tree) (log : List Step) (t' : Tree) (rest : List Step),
    runSims m H n t log = some (t', rest) → ∃ useds, log = useds.flatten ++ rest ∧ Sims m H n t useds t' := by
  intro n
  induction n with
  | zero =>
    intro t log t' rest h
    simp [runSims] at h
    obtain ⟨rfl, rfl⟩ := h
    exact ⟨[], rfl, Sims.zero t⟩
  | succ n ih =>
    intro t log t' rest h
    cases log with
    | nil => simp [runSims] at h
    | cons st log =>
      simp only [runSims] at h
      split at h
      · rename_i hc
        split at h
        · simp at h
        · rename_i t1 r log' hsim
          obtain ⟨used, hu, hS⟩ := simulate_sound m H _ _ _ _ _ _ _ _ _ hsim
          obtain ⟨useds, hus, hSs⟩ := ih _ _ _ _ h
          refine ⟨used :: useds, ?_, Sims.succ n t t1 t' st.s used r useds (by simpa using hc) hS hSs⟩
          rw [hu, hus]; simp
      · simp at h

/-- everything the check relies on, for a tree between two public calls -/
structure Inv (m : Mdl) (rmin rmax : Rat) (t : Tree) : Prop where
  stat : StatInv (fun _ => 0) t
  rng : RngInv m rmin rmax t
  str : StrInv m t
  root : t.ex [] = true

theorem Sims.inv {m : Mdl} {rmin rmax : Rat} (hb : Bnd m rmin rmax) {H n : Nat} {t t' : Tree} {useds : List (List Step)}
    (h : Sims m H n t useds t') : 0 < H → H + m.overrun ≤ t.budget → Inv m rmin rmax t →
    Inv m rmin rmax t' ∧ t'.budget = t.budget ∧ useds.length = n ∧ ∀ u ∈ useds, u.length ≤ H + m.overrun := by
  induction h with
  | zero t => intro _ _ hI; exact ⟨hI, rfl, rfl, by simp⟩
  | succ n t t1 t2 s used r useds hs hS _ ih =>
    intro hH hbud hI
    have h1 := hS.statInv _ hI.stat
    obtain ⟨h2, hb2⟩ := hS.rngInv hb hH (by simpa using hbud) hI.rng
    have h3 := hS.strInv hI.str hI.root hs
    have hlen := hS.length_le hH
    have hroot : t1.ex [] = true := by
      -- nodes are never removed by a simulation: the root survives because particles were pushed below it
      -- (direct: `ex` only ever gains entries)
      exact Sim.ex_mono hS [] hI.root
    obtain ⟨i1, i2, i3, i4⟩ := ih hH (by rw [hb2]; exact hbud) ⟨h1, h2, h3, hroot⟩
    refine ⟨i1, by rw [i2, hb2], by simp [i3], ?_⟩
    intro u hu
    simp only [List.mem_cons] at hu
    rcases hu with rfl | hu
    · simpa using hlen
    · exact i4 u hu

end AITB.Tree
