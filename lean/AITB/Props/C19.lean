import AITB.Model.Tree
import AITB.Gen.C19
namespace AITB.Tree
end AITB.Tree
