/-
  AITB.Props.C06Amdp — property C06, round 3: the rewards of an AMDP discretisation are AVERAGES of the POMDP's rewards.
  Round 1 proved the rows distributions and the rewards finite; here, for every contribution list (any beliefs, any POMDP),
  every bucket count, bucket and action:

    * the row sum the code divides by is the total kept mass of the row (`rowSumT_eq_evsOf`),
    * discretizeDense: a visited row's reward is a convex combination of the contributing beliefs' expected rewards
      (`amdp_dense_reward_in_hull`), an unvisited row's reward is exactly 0 (`amdp_dense_unvisited_zero`),
    * discretizeSparse (which drops rewards within the tolerance of 0 and leaves |Σ p·r| ≤ tol undivided): within the tolerance
      of the interval spanned by 0 and those rewards (`amdp_sparse_reward_in_hull`),
    * the checker the driver evaluates on the library's own R is sound (`rewardHullB_sound`).
-/
import Mathlib.Algebra.Order.Field.Rat
import Mathlib.Tactic.Linarith
import Mathlib.Tactic.NormNum
import Mathlib.Tactic.Ring
import Mathlib.Tactic.Positivity
import Mathlib.Tactic.FieldSimp
import AITB.Model.AmdpHull
import AITB.Props.C06

set_option linter.unusedTactic false
set_option linter.unreachableTactic false
set_option linter.unusedVariables false
set_option linter.unusedSimpArgs false

namespace AITB.MS
open AITB

theorem sumQ_map_add (l : List Nat) (f g : Nat → Rat) :
    sumQ (l.map fun x => f x + g x) = sumQ (l.map f) + sumQ (l.map g) := by
  induction l with
  | nil => simp [sumQ]
  | cons x r ih => simp only [List.map, sumQ, ih]; ring

theorem sumQ_indicator_scaled (n i : Nat) (c : Rat) :
    sumQ ((List.range n).map fun j => if i = j then c else 0) = if i < n then c else 0 := by
  induction n with
  | zero => simp [sumQ]
  | succ n ih =>
      rw [List.range_succ, List.map_append, sumQ_append, ih]
      simp only [List.map, sumQ]
      by_cases h1 : i < n
      · have : i ≠ n := by omega
        simp [h1, this, show i < n + 1 by omega]
      · by_cases h2 : i = n
        · subst h2; simp
        · simp [h1, h2, show ¬ i < n + 1 by omega]

theorem sumQ_range_zero (n : Nat) : sumQ ((List.range n).map fun _ => (0 : Rat)) = 0 := by
  induction n with
  | zero => rfl
  | succ n ih => rw [List.range_succ, List.map_append, sumQ_append, ih]; simp [sumQ]

theorem sumQ_p_nonneg : ∀ (l : List Ev), (∀ e ∈ l, 0 ≤ e.p) → 0 ≤ sumQ (l.map (·.p))
  | [], _ => by simp [sumQ]
  | e :: r, h => by
    have := sumQ_p_nonneg r (fun x hx => h x (by simp [hx]))
    have := h e (by simp)
    simp only [List.map, sumQ]; linarith

theorem sumQ_filter_and (P D : Ev → Bool) (f : Ev → Rat) : ∀ (l : List Ev),
    sumQ ((l.filter (fun e => P e && D e)).map f) = sumQ ((l.filter P).map (fun e => if D e then f e else 0))
  | [] => rfl
  | e :: r => by
    have ih := sumQ_filter_and P D f r
    cases hP : P e <;> cases hD : D e <;> simp [List.filter_cons, hP, hD, sumQ, ih]

theorem accT_cons (e : Ev) (r : List Ev) (a s s1 : Nat) :
    accT (e :: r) a s s1 = (if e.s1 = s1 then (if (e.keep && (e.a == a && e.s == s)) = true then e.p else 0) else 0) + accT r a s s1 := by
  unfold accT
  simp only [List.filter_cons]
  by_cases h1 : e.s1 = s1
  · by_cases h2 : (e.keep && (e.a == a && e.s == s)) = true
    · have : (e.keep && (e.a == a && e.s == s && e.s1 == s1)) = true := by
        simp only [Bool.and_eq_true, beq_iff_eq] at h2 ⊢; exact ⟨h2.1, ⟨h2.2.1, h2.2.2⟩, h1⟩
      simp [this, h1, h2, sumQ]
    · have : ¬ (e.keep && (e.a == a && e.s == s && e.s1 == s1)) = true := by
        simp only [Bool.and_eq_true, beq_iff_eq] at h2 ⊢; rintro ⟨k, ⟨x, y⟩, _⟩; exact h2 ⟨k, x, y⟩
      simp [this, h1, h2]
  · have : ¬ (e.keep && (e.a == a && e.s == s && e.s1 == s1)) = true := by
      simp only [Bool.and_eq_true, beq_iff_eq]; rintro ⟨_, _, z⟩; exact h1 z
    simp [this, h1]

/-- **the divisor is the row's total kept mass**: summing the accumulated entries over the successor buckets counts every kept
    contribution of (s, a) once (successor buckets inside the augmented space: `discretize_lt`) -/
theorem rowSumT_eq_evsOf (evs : List Ev) (n a s : Nat) (hs1 : ∀ e ∈ evs, e.keep = true → e.s1 < n) :
    rowSumT evs n a s = sumQ ((evsOf evs s a).map (·.p)) := by
  induction evs with
  | nil =>
      have h0 : ∀ j, accT [] a s j = 0 := fun j => rfl
      unfold rowSumT
      simp only [h0]
      rw [sumQ_range_zero]; rfl
  | cons e r ih =>
      have ihr := ih (fun x hx => hs1 x (by simp [hx]))
      unfold rowSumT at ihr ⊢
      have : (List.range n).map (fun s1 => accT (e :: r) a s s1) =
          (List.range n).map (fun s1 => (if e.s1 = s1 then (if (e.keep && (e.a == a && e.s == s)) = true then e.p else 0) else 0) + accT r a s s1) := by
        apply List.map_congr_left; intro j _; exact accT_cons e r a s j
      rw [this, sumQ_map_add, ihr, sumQ_indicator_scaled]
      unfold evsOf
      simp only [List.filter_cons]
      by_cases h2 : (e.keep && (e.a == a && e.s == s)) = true
      · have hk : e.keep = true := by simp only [Bool.and_eq_true] at h2; exact h2.1
        simp [h2, hs1 e (by simp) hk, sumQ]
      · simp [h2]

theorem accR_dense_eq_evsOf (evs : List Ev) (s a : Nat) :
    accR false evs s a = sumQ ((evsOf evs s a).map (fun e => e.p * e.r)) := by
  unfold accR evsOf
  simp

/-- weighted sums stay between the bounds of the weights' values -/
theorem weighted_bounds (lo hi : Rat) : ∀ (l : List Ev), (∀ e ∈ l, 0 ≤ e.p ∧ lo ≤ e.r ∧ e.r ≤ hi) →
    lo * sumQ (l.map (·.p)) ≤ sumQ (l.map (fun e => e.p * e.r)) ∧ sumQ (l.map (fun e => e.p * e.r)) ≤ hi * sumQ (l.map (·.p))
  | [], _ => by simp [sumQ]
  | e :: r, h => by
    obtain ⟨h1, h2⟩ := weighted_bounds lo hi r (fun x hx => h x (by simp [hx]))
    obtain ⟨hp, hl, hh⟩ := h e (by simp)
    simp only [List.map, sumQ]
    constructor <;> nlinarith

theorem evsOf_mem (evs : List Ev) (s a : Nat) (e : Ev) (h : e ∈ evsOf evs s a) :
    e ∈ evs ∧ e.keep = true ∧ e.a = a ∧ e.s = s := by
  obtain ⟨hm, hP⟩ := List.mem_filter.1 h
  simp only [Bool.and_eq_true, beq_iff_eq] at hP
  exact ⟨hm, hP.1, hP.2.1, hP.2.2⟩

/-- **discretizeDense, visited row**: the stored reward is a convex combination of the expected rewards of the beliefs that fell
    into the bucket — for every contribution list with non-negative masses, every bucket count, bucket, action and bounds -/
theorem amdp_dense_reward_in_hull (evs : List Ev) (hp : ∀ e ∈ evs, 0 ≤ e.p) (n a s : Nat)
    (hs1 : ∀ e ∈ evs, e.keep = true → e.s1 < n) (lo hi : Rat)
    (hr : ∀ e ∈ evs, e.keep = true → e.a = a → e.s = s → lo ≤ e.r ∧ e.r ≤ hi)
    (hv : eqSmall (.fin (rowSumT evs n a s)) (.fin 0) = false) :
    ∃ q, amdpRDense true evs n s a = .fin q ∧ lo ≤ q ∧ q ≤ hi := by
  have hsum := rowSumT_eq_evsOf evs n a s hs1
  have hb := weighted_bounds lo hi (evsOf evs s a) (fun e he => by
    obtain ⟨hm, hk, ha, hs⟩ := evsOf_mem evs s a e he
    exact ⟨hp e hm, hr e hm hk ha hs⟩)
  have hnn : 0 ≤ rowSumT evs n a s := by
    rw [hsum]; exact sumQ_p_nonneg _ (fun e he => hp e (evsOf_mem evs s a e he).1)
  have hpos : 0 < rowSumT evs n a s := by
    rcases lt_or_eq_of_le hnn with h | h
    · exact h
    · exfalso
      have : eqSmall (.fin (rowSumT evs n a s)) (.fin 0) = true :=
        (eqSmall_zero_iff _).2 (by rw [← h]; constructor <;> linarith [tol_pos])
      rw [this] at hv; cases hv
  refine ⟨accR false evs s a / rowSumT evs n a s, ?_, ?_, ?_⟩
  · simp [amdpRDense, hv, qdivX, ne_of_gt hpos]
  · rw [le_div_iff₀ hpos, accR_dense_eq_evsOf, hsum]; exact hb.1
  · rw [div_le_iff₀ hpos, accR_dense_eq_evsOf, hsum]; exact hb.2

/-- **discretizeDense, unvisited row**: the reward is exactly 0 (the division is guarded: fix C06-4) -/
theorem amdp_dense_unvisited_zero (evs : List Ev) (hp : ∀ e ∈ evs, 0 ≤ e.p) (n a s : Nat)
    (hs1 : ∀ e ∈ evs, e.keep = true → e.s1 < n)
    (hv : eqSmall (.fin (rowSumT evs n a s)) (.fin 0) = true) :
    amdpRDense true evs n s a = .fin 0 := by
  have hz : accR false evs s a = 0 := by
    by_contra hne
    obtain ⟨e, he, hk, rfl, rfl⟩ := accR_ne_zero_mem false evs _ _ hne
    have h1 := mem_le_accT evs hp e he hk
    have h2 := keep_pos e (hp e he) hk
    have h3 := (le_sumQ_range n (accT evs e.a e.s) (fun j _ => accT_nonneg evs hp e.a e.s j) e.s1 (hs1 e he hk)).1
    have := ((eqSmall_zero_iff _).1 hv).2
    unfold rowSumT at this
    linarith
  simp [amdpRDense, hv, hz]

/-- rewards as discretizeSparse sees them: within the tolerance of 0 they are dropped -/
def sparseR (e : Ev) : Rat := if diffSmall (.fin 0) (.fin e.r) then e.r else 0

theorem accR_sparse_eq_evsOf (evs : List Ev) (s a : Nat) :
    accR true evs s a = sumQ ((evsOf evs s a).map (fun e => e.p * sparseR e)) := by
  unfold accR evsOf
  have hpred : (fun e : Ev => e.keep && (e.a == a && e.s == s && (!true || diffSmall (.fin 0) (.fin e.r)))) =
      (fun e : Ev => (e.keep && (e.a == a && e.s == s)) && diffSmall (.fin 0) (.fin e.r)) := by
    funext e; simp [Bool.and_assoc]
  rw [hpred, sumQ_filter_and]
  congr 1
  apply List.map_congr_left
  intro e _
  unfold sparseR
  split_ifs <;> simp

/-- **discretizeSparse**: every stored reward is finite and within the tolerance of the interval spanned by 0 and the
    contributing beliefs' expected rewards — for every contribution list, bucket count, bucket and action.  (The code leaves an
    accumulated |Σ p·r| ≤ tol undivided; that value is itself within the tolerance of 0.) -/
theorem amdp_sparse_reward_in_hull (evs : List Ev) (hp : ∀ e ∈ evs, 0 ≤ e.p) (n a s : Nat)
    (hs1 : ∀ e ∈ evs, e.keep = true → e.s1 < n) (lo hi : Rat) (hlo : lo ≤ 0) (hhi : 0 ≤ hi)
    (hr : ∀ e ∈ evs, e.keep = true → e.a = a → e.s = s → lo ≤ e.r ∧ e.r ≤ hi) :
    ∃ q, amdpRSparse evs n s a = .fin q ∧ lo - tol ≤ q ∧ q ≤ hi + tol := by
  have ht := tol_pos
  unfold amdpRSparse
  by_cases hd : diffSmall (.fin 0) (.fin (accR true evs s a)) = true
  · simp only [hd, if_true]
    have hne : accR true evs s a ≠ 0 := by
      intro h0
      rw [h0] at hd
      have : eqSmall (.fin 0) (.fin 0) = true := (eqSmall_zero_iff 0).2 ⟨by linarith, by linarith⟩
      simp [diffSmall, this] at hd
    obtain ⟨e, he, hk, rfl, rfl⟩ := accR_ne_zero_mem true evs _ _ hne
    have h1 := mem_le_accT evs hp e he hk
    have h2 := keep_pos e (hp e he) hk
    have h3 := (le_sumQ_range n (accT evs e.a e.s) (fun j _ => accT_nonneg evs hp e.a e.s j) e.s1 (hs1 e he hk)).1
    have hpos : 0 < rowSumT evs n e.a e.s := by unfold rowSumT; linarith
    have hsum := rowSumT_eq_evsOf evs n e.a e.s hs1
    have hb := weighted_bounds lo hi ((evsOf evs e.s e.a).map (fun x => { x with r := sparseR x })) (by
      intro x hx
      obtain ⟨y, hy, rfl⟩ := List.mem_map.1 hx
      obtain ⟨hm, hk', ha, hs⟩ := evsOf_mem evs _ _ y hy
      refine ⟨hp y hm, ?_, ?_⟩ <;> simp only [sparseR] <;> split_ifs
      · exact (hr y hm hk' ha hs).1
      · exact hlo
      · exact (hr y hm hk' ha hs).2
      · exact hhi)
    simp only [List.map_map, Function.comp_def] at hb
    refine ⟨accR true evs e.s e.a / rowSumT evs n e.a e.s, by simp [qdivX, ne_of_gt hpos], ?_, ?_⟩
    · have : lo ≤ accR true evs e.s e.a / rowSumT evs n e.a e.s := by
        rw [le_div_iff₀ hpos, accR_sparse_eq_evsOf, hsum]; exact hb.1
      linarith
    · have : accR true evs e.s e.a / rowSumT evs n e.a e.s ≤ hi := by
        rw [div_le_iff₀ hpos, accR_sparse_eq_evsOf, hsum]; exact hb.2
      linarith
  · simp only [hd, Bool.false_eq_true, if_false]
    refine ⟨_, rfl, ?_, ?_⟩
    · have : eqSmall (.fin 0) (.fin (accR true evs s a)) = true := by simpa [diffSmall] using hd
      have key : eqSmall (.fin 0) (.fin (accR true evs s a)) =
          decide ((if 0 + -(accR true evs s a) < 0 then -(0 + -(accR true evs s a)) else 0 + -(accR true evs s a)) ≤ tol) := rfl
      rw [key, decide_eq_true_eq] at this
      split_ifs at this <;> linarith
    · have : eqSmall (.fin 0) (.fin (accR true evs s a)) = true := by simpa [diffSmall] using hd
      have key : eqSmall (.fin 0) (.fin (accR true evs s a)) =
          decide ((if 0 + -(accR true evs s a) < 0 then -(0 + -(accR true evs s a)) else 0 + -(accR true evs s a)) ≤ tol) := rfl
      rw [key, decide_eq_true_eq] at this
      split_ifs at this <;> linarith

/-! ## zero entropy buckets -/

/-- FULL STATEMENT (the property quantifies over ALL bucket counts):
      `∀ S buckets maxS k, maxS < S → discretize S buckets maxS k < S * buckets`
    — every belief is sent inside the augmented state space.  The proof (`discretize_lt`) forced `0 < buckets`, and the
    hypothesis is necessary: with no bucket the space is empty and EVERY index is outside it.  The library accepts
    `AMDP(n, 0)` / `setEntropyBuckets(0)` and `discretize*` then writes outside its 0×0 tables (open finding
    C06-amdp-zero-entropy-buckets, fixes/C06-7). -/
theorem discretize_zero_buckets_counterexample (S maxS k : Nat) : ¬ discretize S 0 maxS k < S * 0 := by simp

/-! ## the checker -/

theorem minQ_le (l : List Rat) : ∀ x, minQ x l ≤ x ∧ ∀ y ∈ l, minQ x l ≤ y := by
  induction l with
  | nil => intro x; exact ⟨le_refl _, by simp⟩
  | cons z r ih =>
      intro x
      simp only [minQ, List.foldl_cons]
      obtain ⟨h1, h2⟩ := ih (if z < x then z else x)
      unfold minQ at h1 h2
      refine ⟨?_, ?_⟩
      · split_ifs at h1 ⊢ with hz <;> linarith
      · intro y hy
        rcases List.mem_cons.1 hy with rfl | hy
        · split_ifs at h1 ⊢ with hz <;> linarith
        · exact h2 y hy

theorem le_maxQ (l : List Rat) : ∀ x, x ≤ maxQ x l ∧ ∀ y ∈ l, y ≤ maxQ x l := by
  induction l with
  | nil => intro x; exact ⟨le_refl _, by simp⟩
  | cons z r ih =>
      intro x
      simp only [maxQ, List.foldl_cons]
      obtain ⟨h1, h2⟩ := ih (if x < z then z else x)
      unfold maxQ at h1 h2
      refine ⟨?_, ?_⟩
      · split_ifs at h1 ⊢ with hz <;> linarith
      · intro y hy
        rcases List.mem_cons.1 hy with rfl | hy
        · split_ifs at h1 ⊢ with hz <;> linarith
        · exact h2 y hy

theorem le_minQ (lo : Rat) (l : List Rat) : ∀ x, lo ≤ x → (∀ y ∈ l, lo ≤ y) → lo ≤ minQ x l := by
  induction l with
  | nil => intro x hx _; exact hx
  | cons z r ih =>
      intro x hx h
      simp only [minQ, List.foldl_cons]
      apply ih
      · split_ifs
        · exact h z (by simp)
        · exact hx
      · intro y hy; exact h y (by simp [hy])

theorem maxQ_le (hi : Rat) (l : List Rat) : ∀ x, x ≤ hi → (∀ y ∈ l, y ≤ hi) → maxQ x l ≤ hi := by
  induction l with
  | nil => intro x hx _; exact hx
  | cons z r ih =>
      intro x hx h
      simp only [maxQ, List.foldl_cons]
      apply ih
      · split_ifs
        · exact h z (by simp)
        · exact hx
      · intro y hy; exact h y (by simp [hy])

/-- the checker accepts only finite rewards inside every interval that contains 0 and all the contributing expected rewards
    (widened by the slack) -/
theorem rewardHullB_sound (slack : Rat) (evs : List Ev) (s a : Nat) (r : XRat) (h : rewardHullB slack evs s a r = true) :
    ∃ q, r = .fin q ∧ ∀ lo hi : Rat, lo ≤ 0 → 0 ≤ hi →
      (∀ e ∈ evs, e.keep = true → e.a = a → e.s = s → lo ≤ e.r ∧ e.r ≤ hi) → lo - slack ≤ q ∧ q ≤ hi + slack := by
  cases r with
  | fin q =>
      refine ⟨q, rfl, ?_⟩
      intro lo hi hlo hhi hr
      simp only [rewardHullB, Bool.and_eq_true, decide_eq_true_eq] at h
      have hmem : ∀ y ∈ (evsOf evs s a).map (·.r), lo ≤ y ∧ y ≤ hi := by
        intro y hy
        obtain ⟨e, he, rfl⟩ := List.mem_map.1 hy
        obtain ⟨hm, hk, ha, hs⟩ := evsOf_mem evs s a e he
        exact hr e hm hk ha hs
      have h1 := le_minQ lo _ 0 hlo (fun y hy => (hmem y hy).1)
      have h2 := maxQ_le hi _ 0 hhi (fun y hy => (hmem y hy).2)
      constructor <;> linarith [h.1, h.2]
  | nan => simp [rewardHullB] at h
  | pinf => simp [rewardHullB] at h
  | ninf => simp [rewardHullB] at h

/-- the hypotheses are satisfiable and the conclusions tight: two beliefs in bucket 0 (masses 1/4 and 3/4, expected rewards
    2 and -2): R(0,0) = (1/4·2 + 3/4·(-2)) / 1 = -1 ∈ [-2, 2]; bucket 1 is never visited: R(1,0) = 0 -/
example :
    let evs : List Ev := [⟨0, 0, 1, 1/4, 2⟩, ⟨0, 0, 0, 3/4, -2⟩]
    (amdpRDense true evs 2 0 0 == .fin (-1)) = true ∧ (amdpRDense true evs 2 1 0 == .fin 0) = true ∧
    (amdpRSparse evs 2 0 0 == .fin (-1)) = true ∧
    rewardHullB 0 evs 0 0 (.fin (-1)) = true ∧ rewardHullB 0 evs 0 0 (.fin 3) = false ∧ rewardHullB 0 evs 1 0 (.fin (1/2)) = false := by
  decide +kernel

end AITB.MS
