/-
  AITB.Props.C12Prune — property theorems about `extractDominated` and `extractDominatedIncremental`
  (AITB.Model.Prune).  Generic in the element type and in the (possibly non-transitive) domination test.

  * `extractDominated_perm`       the output ranges are a permutation of the input
  * `extractDominated_chain`      every removed entry is reached from a kept one through a chain of `dom` links
                                  of length `1 ≤ k < xs.length`
  * `extractDominated_value`      value loss of pruning is at most `length * δ` for a `δ`-tolerant test
  * `extractDominated_antichain`  for a transitive test the kept range is an antichain
  * `incremental_*`               the same for the incremental version, and its agreement (in value) with the
                                  non-incremental one on `old ++ new`
-/
import AITB.Props.C12Defs
import Mathlib.Algebra.Order.Group.Multiset
import Mathlib.Algebra.Order.Field.Rat
import Mathlib.Tactic.Linarith

namespace AITB.Prune

variable {α : Type}

/-! ## permutation bookkeeping

Permutation goals are discharged in the commutative monoid of multisets: `perm_ac` turns
`l₁.Perm l₂` into an equation between sums of multisets and normalises it. -/

theorem eq_dropLast_append_of_getLast? {U : List α} {t : α} (h : U.getLast? = some t) :
    U = U.dropLast ++ [t] :=
  (List.dropLast_append_getLast? t (by simp [h])).symm

theorem rotLast_coe (A B : List α) : ((rotLast A B : List α) : Multiset α) = (A : Multiset α) + (B : Multiset α) := by
  unfold rotLast
  cases h : B.getLast? with
  | none =>
    have : B = [] := List.getLast?_eq_none_iff.mp h
    subst this; simp
  | some z =>
    have hB := eq_dropLast_append_of_getLast? h
    generalize B.dropLast = D at hB
    subst hB
    simp only [← Multiset.coe_add, ← Multiset.cons_coe, ← Multiset.singleton_add, Multiset.coe_nil]
    simp [add_comm]

theorem afterPlace_coe (A B : List α) : ((afterPlace A B : List α) : Multiset α) = (A : Multiset α) + (B : Multiset α) := by
  cases A with
  | nil => simp [afterPlace]
  | cons a A' =>
    simp only [afterPlace, ← Multiset.coe_add, ← Multiset.cons_coe, ← Multiset.singleton_add]
    simp [add_comm, add_left_comm]

theorem rotRight_coe (l : List α) : ((rotRight l : List α) : Multiset α) = (l : Multiset α) := by
  unfold rotRight
  cases h : l.getLast? with
  | none =>
    have : l = [] := List.getLast?_eq_none_iff.mp h
    subst this; simp
  | some z =>
    have hl := eq_dropLast_append_of_getLast? h
    generalize l.dropLast = D at hl
    subst hl
    simp only [← Multiset.coe_add, ← Multiset.cons_coe, ← Multiset.singleton_add, Multiset.coe_nil]
    simp [add_comm]

theorem rotLast_perm (A B : List α) : (rotLast A B).Perm (A ++ B) := by
  rw [← Multiset.coe_eq_coe, rotLast_coe, Multiset.coe_add]

theorem afterPlace_perm (A B : List α) : (afterPlace A B).Perm (A ++ B) := by
  rw [← Multiset.coe_eq_coe, afterPlace_coe, Multiset.coe_add]

theorem rotRight_perm (l : List α) : (rotRight l).Perm l := by
  rw [← Multiset.coe_eq_coe, rotRight_coe]

/-- close a `List.Perm` goal between explicit `++`/`::`/`reverse`/`rotLast`/`afterPlace`/`rotRight` terms -/
macro "perm_ac" : tactic => `(tactic| (
  rw [← Multiset.coe_eq_coe]
  simp only [← Multiset.coe_add, ← Multiset.cons_coe, ← Multiset.singleton_add, Multiset.coe_reverse,
    Multiset.coe_nil, rotLast_coe, afterPlace_coe, rotRight_coe, List.append_nil, List.nil_append,
    List.reverse_nil, add_zero, zero_add]
  try simp only [add_comm, add_left_comm, add_assoc]))

theorem mem_rotLast {A B : List α} {y : α} : y ∈ rotLast A B ↔ y ∈ A ∨ y ∈ B := by
  rw [(rotLast_perm A B).mem_iff, List.mem_append]

theorem mem_afterPlace {A B : List α} {y : α} : y ∈ afterPlace A B ↔ y ∈ A ∨ y ∈ B := by
  rw [(afterPlace_perm A B).mem_iff, List.mem_append]

theorem mem_rotRight {l : List α} {y : α} : y ∈ rotRight l ↔ y ∈ l :=
  (rotRight_perm l).mem_iff

/-! ## unfolding lemmas -/

section
variable (dom : α → α → Bool)

theorem edScan_cons_pos {x tv : α} (h : dom x tv = true) (rp A B rem : List α) :
    edScan dom (x :: rp) A tv B rem = edScan dom rp [] x (rotLast A B) (tv :: rem) := by
  simp [edScan, h]

theorem edScan_cons_neg {x tv : α} (h : dom x tv = false) (rp A B rem : List α) :
    edScan dom (x :: rp) A tv B rem = edScan dom rp (x :: A) tv B rem := by
  simp [edScan, h]

theorem edLoop_succ_none {U : List α} (h : U.getLast? = none) (n : Nat) (good rem : List α) :
    edLoop dom (n+1) good U rem = (good, rem) := by
  simp [edLoop, h]

theorem edLoop_succ_dom {U : List α} {t : α} (h : U.getLast? = some t) (n : Nat) (good rem : List α)
    (hd : good.any (fun g => dom g t) = true) :
    edLoop dom (n+1) good U rem = edLoop dom n good U.dropLast (t :: rem) := by
  simp only [edLoop, h, hd, if_true]

theorem edLoop_succ_scan {U : List α} {t : α} (h : U.getLast? = some t) (n : Nat) (good rem : List α)
    (hd : good.any (fun g => dom g t) = false) :
    edLoop dom (n+1) good U rem =
      edLoop dom n (good ++ [(edScan dom U.dropLast.reverse [] t [] rem).2.1])
        (afterPlace (edScan dom U.dropLast.reverse [] t [] rem).1 (edScan dom U.dropLast.reverse [] t [] rem).2.2.1)
        (edScan dom U.dropLast.reverse [] t [] rem).2.2.2 := by
  simp [edLoop, h, hd]

/-! ## 1. permutation -/

theorem edScan_perm : ∀ (rp A : List α) (tv : α) (B rem : List α),
    ((edScan dom rp A tv B rem).1 ++ (edScan dom rp A tv B rem).2.1 :: (edScan dom rp A tv B rem).2.2.1
        ++ (edScan dom rp A tv B rem).2.2.2).Perm (rp ++ A ++ tv :: B ++ rem)
  | [], A, tv, B, rem => by simp [edScan]
  | x :: rp, A, tv, B, rem => by
    cases h : dom x tv with
    | true =>
      rw [edScan_cons_pos dom h]
      refine (edScan_perm rp [] x (rotLast A B) (tv :: rem)).trans ?_
      perm_ac
    | false =>
      rw [edScan_cons_neg dom h]
      refine (edScan_perm rp (x :: A) tv B rem).trans ?_
      perm_ac

theorem edLoop_perm : ∀ (n : Nat) (good U rem : List α),
    ((edLoop dom n good U rem).1 ++ (edLoop dom n good U rem).2).Perm (good ++ U ++ rem)
  | 0, good, U, rem => by simp [edLoop]
  | n+1, good, U, rem => by
    cases h : U.getLast? with
    | none =>
      have : U = [] := List.getLast?_eq_none_iff.mp h
      rw [edLoop_succ_none dom h]; subst this; simp
    | some t =>
      have hU := eq_dropLast_append_of_getLast? h
      cases hd : good.any (fun g => dom g t) with
      | true =>
        rw [edLoop_succ_dom dom h n good rem hd]
        refine (edLoop_perm n good U.dropLast (t :: rem)).trans ?_
        conv => rhs; rw [hU]
        perm_ac
      | false =>
        rw [edLoop_succ_scan dom h n good rem hd]
        refine (edLoop_perm n _ _ _).trans ?_
        have hs := edScan_perm dom U.dropLast.reverse [] t [] rem
        conv => rhs; rw [hU]
        generalize edScan dom U.dropLast.reverse [] t [] rem = r at hs ⊢
        have e1 : (good ++ [r.2.1] ++ afterPlace r.1 r.2.2.1 ++ r.2.2.2).Perm
            (good ++ (r.1 ++ r.2.1 :: r.2.2.1 ++ r.2.2.2)) := by perm_ac
        refine e1.trans ?_
        refine ((List.perm_append_left_iff good).mpr hs).trans ?_
        perm_ac

theorem extractDominated_perm (xs : List α) :
    List.Perm ((extractDominated dom xs).1 ++ (extractDominated dom xs).2) xs := by
  unfold extractDominated
  split
  · simp
  · simpa using edLoop_perm dom xs.length [] xs []

/-! ## 2. every removed entry is dominated, through a chain, by a kept one

`Cov dom L R`: every entry of the removed list `R` is reached from some *live* entry (member of `L`)
by a chain of at most `R.length` links.  Only membership in `L` matters, so the invariant is insensitive
to the swaps. -/

def Cov (L R : List α) : Prop :=
  ∀ r ∈ R, ∃ l ∈ L, ∃ k, 1 ≤ k ∧ k ≤ R.length ∧ Chain dom k l r

variable {dom}

theorem Cov.nil (L : List α) : Cov dom L [] := by
  intro r hr; simp at hr

theorem Cov.mono {L L' R : List α} (h : ∀ x ∈ L, x ∈ L') (hc : Cov dom L R) : Cov dom L' R := by
  intro r hr
  obtain ⟨l, hl, k, h1, h2, h3⟩ := hc r hr
  exact ⟨l, h l hl, k, h1, h2, h3⟩

theorem Cov.perm_right {L R R' : List α} (h : R.Perm R') (hc : Cov dom L R) : Cov dom L R' := by
  intro r hr
  obtain ⟨l, hl, k, h1, h2, h3⟩ := hc r (h.mem_iff.mpr hr)
  exact ⟨l, hl, k, h1, h.length_eq ▸ h2, h3⟩

/-- the live entry `t` is removed because the live entry `x` dominates it: all chains that started at
    `t` are extended by `x` -/
theorem Cov.kill {L L' R : List α} {t x : α} (hc : Cov dom L R) (hx : x ∈ L') (hd : dom x t = true)
    (hL : ∀ y ∈ L, y = t ∨ y ∈ L') : Cov dom L' (t :: R) := by
  intro r hr
  rcases List.mem_cons.mp hr with rfl | hr
  · exact ⟨x, hx, 1, Nat.le_refl _, by simp, Chain.one hd⟩
  · obtain ⟨l, hl, k, h1, h2, h3⟩ := hc r hr
    rcases hL l hl with rfl | hl'
    · exact ⟨x, hx, k+1, by omega, by simp; omega, Chain.cons hd h3⟩
    · exact ⟨l, hl', k, h1, by simp; omega, h3⟩

variable (dom)

theorem edScan_cov (G : List α) : ∀ (rp A : List α) (tv : α) (B rem : List α),
    Cov dom (G ++ rp ++ A ++ tv :: B) rem →
    Cov dom (G ++ (edScan dom rp A tv B rem).1 ++ (edScan dom rp A tv B rem).2.1 :: (edScan dom rp A tv B rem).2.2.1)
      (edScan dom rp A tv B rem).2.2.2
  | [], A, tv, B, rem, hc => by simpa [edScan] using hc
  | x :: rp, A, tv, B, rem, hc => by
    cases h : dom x tv with
    | true =>
      rw [edScan_cons_pos dom h]
      refine edScan_cov G rp [] x (rotLast A B) (tv :: rem) ?_
      refine hc.kill (x := x) (by simp) h ?_
      intro y hy
      simp only [List.mem_append, List.mem_cons, mem_rotLast, List.not_mem_nil, or_false] at hy ⊢
      tauto
    | false =>
      rw [edScan_cons_neg dom h]
      refine edScan_cov G rp (x :: A) tv B rem (hc.mono ?_)
      intro y hy
      simp only [List.mem_append, List.mem_cons] at hy ⊢
      tauto

theorem edLoop_cov : ∀ (n : Nat) (good U rem : List α), Cov dom (good ++ U) rem →
    Cov dom (edLoop dom n good U rem).1 (edLoop dom n good U rem).2
  | 0, good, U, rem, hc => by simpa [edLoop] using hc
  | n+1, good, U, rem, hc => by
    cases h : U.getLast? with
    | none =>
      have : U = [] := List.getLast?_eq_none_iff.mp h
      rw [edLoop_succ_none dom h]; subst this; simpa using hc
    | some t =>
      have hU := eq_dropLast_append_of_getLast? h
      cases hd : good.any (fun g => dom g t) with
      | true =>
        rw [edLoop_succ_dom dom h n good rem hd]
        obtain ⟨g, hg, hgt⟩ := List.any_eq_true.mp hd
        refine edLoop_cov n good U.dropLast (t :: rem) ?_
        refine hc.kill (x := g) (by simp [hg]) hgt ?_
        intro y hy
        rw [hU] at hy
        simp only [List.mem_append, List.mem_cons, List.not_mem_nil, or_false] at hy ⊢
        tauto
      | false =>
        rw [edLoop_succ_scan dom h n good rem hd]
        refine edLoop_cov n _ _ _ ?_
        have hs := edScan_cov dom good U.dropLast.reverse [] t [] rem (hc.mono ?_)
        · refine hs.mono ?_
          intro y hy
          simp only [List.mem_append, List.mem_cons, mem_afterPlace, List.not_mem_nil, or_false] at hy ⊢
          tauto
        · intro y hy
          rw [hU] at hy
          simp only [List.mem_append, List.mem_cons, List.mem_reverse, List.not_mem_nil, or_false] at hy ⊢
          tauto

theorem extractDominated_cov (xs : List α) :
    Cov dom (extractDominated dom xs).1 (extractDominated dom xs).2 := by
  unfold extractDominated
  split
  · exact Cov.nil _
  · exact edLoop_cov dom xs.length [] xs [] (Cov.nil _)

theorem extractDominated_chain (xs : List α) :
    ∀ r ∈ (extractDominated dom xs).2, ∃ g ∈ (extractDominated dom xs).1,
      ∃ k, 1 ≤ k ∧ k < xs.length ∧ Chain dom k g r := by
  intro r hr
  obtain ⟨g, hg, k, h1, h2, h3⟩ := extractDominated_cov dom xs r hr
  refine ⟨g, hg, k, h1, ?_, h3⟩
  have hl := (extractDominated_perm dom xs).length_eq
  have hp := List.length_pos_of_mem hg
  rw [List.length_append] at hl
  omega

/-! ## 3. value loss -/

theorem Chain.value {sem : α → Rat} {δ : Rat}
    (hdom : ∀ a b, dom a b = true → sem b ≤ sem a + δ) :
    ∀ {k : Nat} {a b : α}, Chain dom k a b → sem b ≤ sem a + (k : Rat) * δ := by
  intro k a b h
  induction h with
  | one h => simpa using hdom _ _ h
  | cons h _ ih =>
    have := hdom _ _ h
    push_cast
    linarith

/-- from a covering of the removed list by the kept one to the value bound -/
theorem Cov.value {sem : α → Rat} {δ : Rat} (hδ : 0 ≤ δ)
    (hdom : ∀ a b, dom a b = true → sem b ≤ sem a + δ) {L R : List α} (hc : Cov dom L R)
    {n : Nat} (hn : R.length ≤ n) :
    ∀ x, x ∈ L ∨ x ∈ R → ∃ g ∈ L, sem x ≤ sem g + (n : Rat) * δ := by
  intro x hx
  have hnδ : 0 ≤ (n : Rat) * δ := mul_nonneg (Nat.cast_nonneg n) hδ
  rcases hx with hx | hx
  · exact ⟨x, hx, by linarith⟩
  · obtain ⟨g, hg, k, _, h2, h3⟩ := hc x hx
    refine ⟨g, hg, ?_⟩
    have hv := Chain.value dom hdom h3
    have hk : (k : Rat) ≤ (n : Rat) := by exact_mod_cast (Nat.le_trans h2 hn)
    have : (k : Rat) * δ ≤ (n : Rat) * δ := mul_le_mul_of_nonneg_right hk hδ
    linarith

theorem extractDominated_value (sem : α → Rat) (δ : Rat) (hδ : 0 ≤ δ)
    (hdom : ∀ a b, dom a b = true → sem b ≤ sem a + δ) (xs : List α) :
    ∀ x ∈ xs, ∃ g ∈ (extractDominated dom xs).1, sem x ≤ sem g + (xs.length : Rat) * δ := by
  intro x hx
  have hp := extractDominated_perm dom xs
  have hl := hp.length_eq
  rw [List.length_append] at hl
  exact (extractDominated_cov dom xs).value dom hδ hdom (by omega) x
    (List.mem_append.mp (hp.mem_iff.mpr hx))

theorem extractDominated_value_exact (sem : α → Rat)
    (hdom : ∀ a b, dom a b = true → sem b ≤ sem a) (xs : List α) :
    ∀ x ∈ xs, ∃ g ∈ (extractDominated dom xs).1, sem x ≤ sem g := by
  intro x hx
  obtain ⟨g, hg, h⟩ := extractDominated_value dom sem 0 (le_refl _) (by simpa using hdom) xs x hx
  exact ⟨g, hg, by simpa using h⟩

/-- test (non-vacuity of `hdom`): the exact order test on rationals, `sem = id`, `δ = 0` -/
example : ∀ x ∈ ([3, 1, 4, 1, 5] : List Rat),
    ∃ g ∈ (extractDominated (fun a b : Rat => decide (b ≤ a)) [3, 1, 4, 1, 5]).1, x ≤ g :=
  extractDominated_value_exact (fun a b : Rat => decide (b ≤ a)) id
    (by intro a b h; simpa using h) [3, 1, 4, 1, 5]

/-- test: the literal outcome on that list (only the maximum survives) -/
example : extractDominated (fun a b : Rat => decide (b ≤ a)) [3, 1, 4, 1, 5] = ([5], [1, 4, 1, 3]) := by
  decide

/-- test with a genuinely tolerant (non-transitive) test on integers, `δ = 1`: the maximum `5` is *removed*
    and only `3` survives, a loss of `2 = 2 * δ`, inside the proved bound `length * δ = 6` -/
example : extractDominated (fun a b : Int => decide (b ≤ a + 1)) [3, 1, 4, 1, 5, 2] = ([3], [1, 1, 4, 5, 2]) := by
  decide
example : ∀ x ∈ ([3, 1, 4, 1, 5, 2] : List Int),
    ∃ g ∈ (extractDominated (fun a b : Int => decide (b ≤ a + 1)) [3, 1, 4, 1, 5, 2]).1,
      (x : Rat) ≤ (g : Rat) + (([3, 1, 4, 1, 5, 2] : List Int).length : Rat) * 1 :=
  extractDominated_value (fun a b : Int => decide (b ≤ a + 1)) (fun z => (z : Rat)) 1 (by decide)
    (by intro a b h; have h' : b ≤ a + 1 := by simpa using h
        show (b : Rat) ≤ (a : Rat) + 1; exact_mod_cast h') [3, 1, 4, 1, 5, 2]

/-! ## 5. the incremental version -/

theorem ediScan_cons_none {x t : α} {isDom : Bool} (h : (!isDom && dom x t) = true) (rp S bad : List α) :
    ediScan dom t (x :: rp) S bad isDom = none := by
  simp only [ediScan, h, if_true]

theorem ediScan_cons_rem {x t : α} {isDom : Bool} (h1 : (!isDom && dom x t) = false) (h2 : dom t x = true)
    (rp S bad : List α) :
    ediScan dom t (x :: rp) S bad isDom = ediScan dom t rp (rotRight S) (x :: bad) true := by
  simp [ediScan, h1, h2]

theorem ediScan_cons_keep {x t : α} {isDom : Bool} (h1 : (!isDom && dom x t) = false) (h2 : dom t x = false)
    (rp S bad : List α) :
    ediScan dom t (x :: rp) S bad isDom = ediScan dom t rp (x :: S) bad isDom := by
  simp [ediScan, h1, h2]

theorem ediLoop_cons_none {t : α} {og ob : List α} (h : ediScan dom t og.reverse [] ob false = none)
    (rc ng nb : List α) :
    ediLoop dom (t :: rc) og ob ng nb = ediLoop dom rc og ob (rotRight ng) (t :: nb) := by
  simp [ediLoop, h]

theorem ediLoop_cons_some {t : α} {og ob : List α} {r : List α × List α}
    (h : ediScan dom t og.reverse [] ob false = some r) (rc ng nb : List α) :
    ediLoop dom (t :: rc) og ob ng nb = ediLoop dom rc r.1 r.2 (t :: ng) nb := by
  simp [ediLoop, h]

/-- a successful scan only moves entries from the good range to the bad one -/
theorem ediScan_perm (t : α) : ∀ (rp S bad : List α) (isDom : Bool) (r : List α × List α),
    ediScan dom t rp S bad isDom = some r → (r.1 ++ r.2).Perm (rp ++ S ++ bad)
  | [], S, bad, isDom, r, h => by
    simp only [ediScan, Option.some.injEq] at h
    subst h; simp
  | x :: rp, S, bad, isDom, r, h => by
    cases h1 : (!isDom && dom x t) with
    | true => rw [ediScan_cons_none dom h1] at h; exact absurd h (by simp)
    | false =>
      cases h2 : dom t x with
      | true =>
        rw [ediScan_cons_rem dom h1 h2] at h
        refine (ediScan_perm t rp _ _ _ r h).trans ?_
        perm_ac
      | false =>
        rw [ediScan_cons_keep dom h1 h2] at h
        refine (ediScan_perm t rp _ _ _ r h).trans ?_
        perm_ac

/-- the early exit happens only when an old entry dominates the new one -/
theorem ediScan_none (t : α) : ∀ (rp S bad : List α) (isDom : Bool),
    ediScan dom t rp S bad isDom = none → ∃ x ∈ rp, dom x t = true
  | [], S, bad, isDom, h => by simp [ediScan] at h
  | x :: rp, S, bad, isDom, h => by
    cases h1 : (!isDom && dom x t) with
    | true =>
      simp only [Bool.and_eq_true] at h1
      exact ⟨x, by simp, h1.2⟩
    | false =>
      cases h2 : dom t x with
      | true =>
        rw [ediScan_cons_rem dom h1 h2] at h
        obtain ⟨y, hy, hd⟩ := ediScan_none t rp _ _ _ h
        exact ⟨y, List.mem_cons_of_mem _ hy, hd⟩
      | false =>
        rw [ediScan_cons_keep dom h1 h2] at h
        obtain ⟨y, hy, hd⟩ := ediScan_none t rp _ _ _ h
        exact ⟨y, List.mem_cons_of_mem _ hy, hd⟩

theorem ediScan_cov (t : α) (G R : List α) (ht : t ∈ G) :
    ∀ (rp S bad : List α) (isDom : Bool) (r : List α × List α),
    ediScan dom t rp S bad isDom = some r → Cov dom (G ++ rp ++ S) (bad ++ R) → Cov dom (G ++ r.1) (r.2 ++ R)
  | [], S, bad, isDom, r, h, hc => by
    simp only [ediScan, Option.some.injEq] at h
    subst h; simpa using hc
  | x :: rp, S, bad, isDom, r, h, hc => by
    cases h1 : (!isDom && dom x t) with
    | true => rw [ediScan_cons_none dom h1] at h; exact absurd h (by simp)
    | false =>
      cases h2 : dom t x with
      | true =>
        rw [ediScan_cons_rem dom h1 h2] at h
        refine ediScan_cov t G R ht rp _ _ _ r h ?_
        rw [List.cons_append]
        refine hc.kill (x := t) (by simp [ht]) h2 ?_
        intro y hy
        simp only [List.mem_append, List.mem_cons, mem_rotRight] at hy ⊢
        tauto
      | false =>
        rw [ediScan_cons_keep dom h1 h2] at h
        refine ediScan_cov t G R ht rp _ _ _ r h (hc.mono ?_)
        intro y hy
        simp only [List.mem_append, List.mem_cons] at hy ⊢
        tauto

theorem ediLoop_perm : ∀ (rc og ob ng nb : List α),
    ((ediLoop dom rc og ob ng nb).1 ++ (ediLoop dom rc og ob ng nb).2.1 ++ (ediLoop dom rc og ob ng nb).2.2.1
        ++ (ediLoop dom rc og ob ng nb).2.2.2).Perm (rc ++ og ++ ob ++ ng ++ nb)
  | [], og, ob, ng, nb => by simp [ediLoop]
  | t :: rc, og, ob, ng, nb => by
    cases h : ediScan dom t og.reverse [] ob false with
    | none =>
      rw [ediLoop_cons_none dom h]
      refine (ediLoop_perm rc og ob (rotRight ng) (t :: nb)).trans ?_
      perm_ac
    | some r =>
      rw [ediLoop_cons_some dom h]
      refine (ediLoop_perm rc r.1 r.2 (t :: ng) nb).trans ?_
      have hs := ediScan_perm dom t _ _ _ _ r h
      have e1 : (rc ++ r.1 ++ r.2 ++ t :: ng ++ nb).Perm ((r.1 ++ r.2) ++ (rc ++ t :: ng ++ nb)) := by perm_ac
      refine e1.trans ((hs.append_right _).trans ?_)
      perm_ac

theorem ediLoop_cov (R0 : List α) : ∀ (rc og ob ng nb : List α),
    Cov dom (rc ++ og ++ ng) (ob ++ nb ++ R0) →
    Cov dom ((ediLoop dom rc og ob ng nb).1 ++ (ediLoop dom rc og ob ng nb).2.2.1)
      ((ediLoop dom rc og ob ng nb).2.1 ++ (ediLoop dom rc og ob ng nb).2.2.2 ++ R0)
  | [], og, ob, ng, nb, hc => by simpa [ediLoop] using hc
  | t :: rc, og, ob, ng, nb, hc => by
    cases h : ediScan dom t og.reverse [] ob false with
    | none =>
      rw [ediLoop_cons_none dom h]
      obtain ⟨x, hx, hd⟩ := ediScan_none dom t _ _ _ _ h
      refine ediLoop_cov R0 rc og ob (rotRight ng) (t :: nb) ?_
      have hk : Cov dom (rc ++ og ++ rotRight ng) (t :: (ob ++ nb ++ R0)) := by
        refine hc.kill (x := x) (by simp [List.mem_reverse.mp hx]) hd ?_
        intro y hy
        simp only [List.mem_append, List.mem_cons, mem_rotRight] at hy ⊢
        tauto
      refine hk.perm_right ?_
      perm_ac
    | some r =>
      rw [ediLoop_cons_some dom h]
      refine ediLoop_cov R0 rc r.1 r.2 (t :: ng) nb ?_
      have h0 : Cov dom ((t :: rc ++ ng) ++ og.reverse ++ []) (ob ++ (nb ++ R0)) := by
        rw [← List.append_assoc]
        refine hc.mono ?_
        intro y hy
        simp only [List.mem_append, List.mem_cons, List.mem_reverse, List.not_mem_nil, or_false] at hy ⊢
        tauto
      have hs := ediScan_cov dom t (t :: rc ++ ng) (nb ++ R0) (by simp) _ _ _ _ r h h0
      rw [← List.append_assoc] at hs
      refine hs.mono ?_
      intro y hy
      simp only [List.mem_append, List.mem_cons] at hy ⊢
      tauto

theorem ediShuffle_perm1 (ob ng : List α) : (ediShuffle ob ng).1.Perm ng := by
  unfold ediShuffle
  simp only
  split
  · exact List.reverse_perm _
  · refine ((List.reverse_perm _).append_right _).trans (List.perm_append_comm.trans ?_)
    rw [List.take_append_drop]

theorem ediShuffle_perm2 (ob ng : List α) : (ediShuffle ob ng).2.Perm ob := by
  unfold ediShuffle
  simp only
  split
  · refine ((List.reverse_perm _).append_left _).trans (List.perm_append_comm.trans ?_)
    rw [List.take_append_drop]
  · exact List.reverse_perm _

theorem incremental_perm (old new : List α) :
    List.Perm (extractDominatedIncremental dom old new).array (old ++ new) := by
  have h0 := extractDominated_perm dom new
  have h1 := ediLoop_perm dom (extractDominated dom new).1.reverse old [] [] []
  simp only [extractDominatedIncremental, EdiOut.array]
  generalize extractDominated dom new = r0 at h0 h1 ⊢
  generalize ediLoop dom r0.1.reverse old [] [] [] = r at h1 ⊢
  have s1 := ediShuffle_perm1 r.2.1 r.2.2.1
  have s2 := ediShuffle_perm2 r.2.1 r.2.2.1
  generalize ediShuffle r.2.1 r.2.2.1 = s at s1 s2 ⊢
  have e1 : (r.1 ++ s.1 ++ s.2 ++ r.2.2.2 ++ r0.2).Perm
      ((r.1 ++ r.2.1 ++ r.2.2.1 ++ r.2.2.2) ++ r0.2) := by
    refine List.Perm.append_right _ (List.Perm.append_right _ ?_)
    have : (r.1 ++ s.1 ++ s.2).Perm (r.1 ++ (s.2 ++ s.1)) := by perm_ac
    refine this.trans ?_
    rw [List.append_assoc r.1]
    exact List.Perm.append_left _ (s2.append s1)
  refine e1.trans ((h1.append_right _).trans ?_)
  have e2 : (r0.1.reverse ++ old ++ [] ++ [] ++ [] ++ r0.2).Perm (old ++ (r0.1 ++ r0.2)) := by perm_ac
  exact e2.trans (h0.append_left _)

theorem incremental_cov (old new : List α) :
    Cov dom (extractDominatedIncremental dom old new).kept (extractDominatedIncremental dom old new).removed := by
  have h0 := extractDominated_cov dom new
  simp only [extractDominatedIncremental, EdiOut.kept, EdiOut.removed]
  generalize extractDominated dom new = r0 at h0 ⊢
  have h1 := ediLoop_cov dom r0.2 r0.1.reverse old [] [] [] (by
    refine h0.mono ?_
    intro y hy
    simp [hy])
  generalize ediLoop dom r0.1.reverse old [] [] [] = r at h1 ⊢
  have s1 := ediShuffle_perm1 r.2.1 r.2.2.1
  have s2 := ediShuffle_perm2 r.2.1 r.2.2.1
  generalize ediShuffle r.2.1 r.2.2.1 = s at s1 s2 ⊢
  refine (h1.mono ?_).perm_right ((s2.symm.append_right _).append_right _)
  intro y hy
  simp only [List.mem_append, s1.mem_iff] at hy ⊢
  exact hy

theorem incremental_length (old new : List α) :
    (extractDominatedIncremental dom old new).kept.length + (extractDominatedIncremental dom old new).removed.length
      = (old ++ new).length := by
  rw [← (incremental_perm dom old new).length_eq]
  simp only [EdiOut.array, EdiOut.kept, EdiOut.removed, List.length_append]
  omega

theorem incremental_chain (old new : List α) :
    ∀ r ∈ (extractDominatedIncremental dom old new).removed,
      ∃ g ∈ (extractDominatedIncremental dom old new).kept,
        ∃ k, 1 ≤ k ∧ k ≤ (old ++ new).length ∧ Chain dom k g r := by
  intro r hr
  obtain ⟨g, hg, k, h1, h2, h3⟩ := incremental_cov dom old new r hr
  have := incremental_length dom old new
  exact ⟨g, hg, k, h1, by omega, h3⟩

theorem incremental_mem (old new : List α) (x : α) :
    x ∈ old ++ new ↔ x ∈ (extractDominatedIncremental dom old new).kept ∨
      x ∈ (extractDominatedIncremental dom old new).removed := by
  rw [← (incremental_perm dom old new).mem_iff]
  simp only [EdiOut.array, EdiOut.kept, EdiOut.removed, List.mem_append]
  tauto

theorem incremental_value (sem : α → Rat) (δ : Rat) (hδ : 0 ≤ δ)
    (hdom : ∀ a b, dom a b = true → sem b ≤ sem a + δ) (old new : List α) :
    ∀ x ∈ old ++ new, ∃ g ∈ (extractDominatedIncremental dom old new).kept,
      sem x ≤ sem g + ((old ++ new).length : Rat) * δ := by
  intro x hx
  have hl := incremental_length dom old new
  exact (incremental_cov dom old new).value dom hδ hdom (by omega) x ((incremental_mem dom old new x).mp hx)

/-- the incremental result and the from-scratch result on `old ++ new` cover each other in value -/
theorem incremental_eq_union (sem : α → Rat) (δ : Rat) (hδ : 0 ≤ δ)
    (hdom : ∀ a b, dom a b = true → sem b ≤ sem a + δ) (old new : List α) :
    (∀ g ∈ (extractDominatedIncremental dom old new).kept,
        ∃ g' ∈ (extractDominated dom (old ++ new)).1, sem g ≤ sem g' + ((old ++ new).length : Rat) * δ) ∧
    (∀ g' ∈ (extractDominated dom (old ++ new)).1,
        ∃ g ∈ (extractDominatedIncremental dom old new).kept, sem g' ≤ sem g + ((old ++ new).length : Rat) * δ) := by
  constructor
  · intro g hg
    exact extractDominated_value dom sem δ hδ hdom (old ++ new) g
      ((incremental_mem dom old new g).mpr (Or.inl hg))
  · intro g' hg'
    refine incremental_value dom sem δ hδ hdom old new g' ?_
    exact (extractDominated_perm dom (old ++ new)).mem_iff.mp (List.mem_append_left _ hg')

/-! ## 4. for a transitive test the kept range is an antichain -/

theorem edScan_length : ∀ (rp A : List α) (tv : α) (B rem : List α),
    (edScan dom rp A tv B rem).1.length + (edScan dom rp A tv B rem).2.2.1.length
      ≤ rp.length + A.length + B.length
  | [], A, tv, B, rem => by simp [edScan]
  | x :: rp, A, tv, B, rem => by
    cases h : dom x tv with
    | true =>
      rw [edScan_cons_pos dom h]
      have := edScan_length rp [] x (rotLast A B) (tv :: rem)
      have hl := (rotLast_perm A B).length_eq
      simp only [List.length_append, List.length_cons, List.length_nil] at *
      omega
    | false =>
      rw [edScan_cons_neg dom h]
      have := edScan_length rp (x :: A) tv B rem
      simp only [List.length_cons] at *
      omega

/-- scan invariant for a transitive test: no kept entry and no visited live entry dominates the current
    target; `Q` is any property of the live entries (they all come from the initial live range) -/
theorem edScan_anti (htrans : ∀ a b c, dom a b = true → dom b c = true → dom a c = true)
    (G : List α) (Q : α → Prop) : ∀ (rp A : List α) (tv : α) (B rem : List α),
    (∀ g ∈ G, dom g tv = false) → (∀ a, a ∈ A ∨ a ∈ B → dom a tv = false) →
    (∀ y, y ∈ rp ∨ y ∈ A ∨ y = tv ∨ y ∈ B → Q y) →
    (∀ g ∈ G, dom g (edScan dom rp A tv B rem).2.1 = false) ∧
    (∀ a, a ∈ (edScan dom rp A tv B rem).1 ∨ a ∈ (edScan dom rp A tv B rem).2.2.1 →
        dom a (edScan dom rp A tv B rem).2.1 = false) ∧
    (∀ y, y ∈ (edScan dom rp A tv B rem).1 ∨ y = (edScan dom rp A tv B rem).2.1 ∨
        y ∈ (edScan dom rp A tv B rem).2.2.1 → Q y)
  | [], A, tv, B, rem, hG, hA, hQ => by
    simp only [edScan]
    exact ⟨hG, hA, fun y hy => hQ y (Or.inr hy)⟩
  | x :: rp, A, tv, B, rem, hG, hA, hQ => by
    cases h : dom x tv with
    | true =>
      rw [edScan_cons_pos dom h]
      refine edScan_anti htrans G Q rp [] x (rotLast A B) (tv :: rem) ?_ ?_ ?_
      · intro g hg
        cases hgx : dom g x with
        | false => rfl
        | true => have := hG g hg; rw [htrans g x tv hgx h] at this; exact absurd this (by simp)
      · intro a ha
        simp only [List.not_mem_nil, false_or, mem_rotLast] at ha
        cases hax : dom a x with
        | false => rfl
        | true => have := hA a ha; rw [htrans a x tv hax h] at this; exact absurd this (by simp)
      · intro y hy
        simp only [List.not_mem_nil, false_or, mem_rotLast] at hy
        apply hQ
        simp only [List.mem_cons]
        tauto
    | false =>
      rw [edScan_cons_neg dom h]
      refine edScan_anti htrans G Q rp (x :: A) tv B rem hG ?_ ?_
      · intro a ha
        simp only [List.mem_cons] at ha
        rcases ha with (rfl | ha) | ha
        · exact h
        · exact hA a (Or.inl ha)
        · exact hA a (Or.inr ha)
      · intro y hy
        apply hQ
        simp only [List.mem_cons] at hy ⊢
        tauto

theorem edLoop_anti (htrans : ∀ a b c, dom a b = true → dom b c = true → dom a c = true) :
    ∀ (n : Nat) (good U rem : List α), U.length ≤ n →
    good.Pairwise (fun a b => dom a b = false ∧ dom b a = false) →
    (∀ u ∈ U, ∀ g ∈ good, dom u g = false) →
    (edLoop dom n good U rem).1.Pairwise (fun a b => dom a b = false ∧ dom b a = false)
  | 0, good, U, rem, hn, hA, _ => by
    have : U = [] := List.length_eq_zero_iff.mp (Nat.le_zero.mp hn)
    subst this
    simpa [edLoop] using hA
  | n+1, good, U, rem, hn, hA, hB => by
    cases h : U.getLast? with
    | none => rw [edLoop_succ_none dom h]; exact hA
    | some t =>
      have hU := eq_dropLast_append_of_getLast? h
      have hlen : U.dropLast.length + 1 = U.length := by
        conv => rhs; rw [hU]
        simp
      have hmem : ∀ y, y ∈ U.dropLast ∨ y = t → y ∈ U := by
        intro y hy
        rw [hU]
        simp only [List.mem_append, List.mem_cons, List.not_mem_nil, or_false]
        exact hy
      cases hd : good.any (fun g => dom g t) with
      | true =>
        rw [edLoop_succ_dom dom h n good rem hd]
        exact edLoop_anti htrans n good U.dropLast (t :: rem) (by omega) hA
          (fun u hu => hB u (hmem u (Or.inl hu)))
      | false =>
        rw [edLoop_succ_scan dom h n good rem hd]
        have hG : ∀ g ∈ good, dom g t = false := by
          intro g hg
          cases hgt : dom g t with
          | false => rfl
          | true =>
            have : good.any (fun g => dom g t) = true := List.any_eq_true.mpr ⟨g, hg, hgt⟩
            rw [hd] at this; exact absurd this (by simp)
        obtain ⟨i1, i2, i3⟩ := edScan_anti dom htrans good (fun y => ∀ g ∈ good, dom y g = false)
          U.dropLast.reverse [] t [] rem hG (by intro a ha; simp at ha)
          (by
            intro y hy
            simp only [List.mem_reverse, List.not_mem_nil, false_or, or_false] at hy
            exact hB y (hmem y hy))
        have hl := edScan_length dom U.dropLast.reverse [] t [] rem
        generalize edScan dom U.dropLast.reverse [] t [] rem = r at i1 i2 i3 hl ⊢
        refine edLoop_anti htrans n _ _ _ ?_ ?_ ?_
        · rw [(afterPlace_perm r.1 r.2.2.1).length_eq]
          simp only [List.length_append, List.length_reverse, List.length_nil] at hl ⊢
          omega
        · rw [List.pairwise_append]
          refine ⟨hA, List.pairwise_singleton _ _, ?_⟩
          intro a ha b hb
          rw [List.mem_singleton] at hb
          subst hb
          exact ⟨i1 a ha, i3 _ (Or.inr (Or.inl rfl)) a ha⟩
        · intro u hu g hg
          rw [mem_afterPlace] at hu
          rcases List.mem_append.mp hg with hg | hg
          · exact i3 u (by tauto) g hg
          · rw [List.mem_singleton] at hg
            subst hg
            exact i2 u hu

theorem extractDominated_antichain
    (htrans : ∀ a b c, dom a b = true → dom b c = true → dom a c = true) (xs : List α) :
    (extractDominated dom xs).1.Pairwise (fun a b => dom a b = false ∧ dom b a = false) := by
  unfold extractDominated
  split
  · rename_i h
    match xs, h with
    | [], _ => exact List.Pairwise.nil
    | [a], _ => exact List.pairwise_singleton _ _
    | _ :: _ :: _, h => exact absurd h (by simp)
  · exact edLoop_anti dom htrans xs.length [] xs [] (Nat.le_refl _) List.Pairwise.nil
      (by intro u _ g hg; simp at hg)

end

end AITB.Prune
