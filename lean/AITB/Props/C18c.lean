/-
  AITB.Props.C18c — the whole file: the main loop with its shared line cursor against the
  declarative reading of the line list (`FileDenotes`), in both directions, and the
  specification semantics (`specAt`: the last statement covering a cell wins).
-/
import AITB.Props.C18b
namespace AITB.Cassandra
variable {fl : Flags}

/-- value assigned to a cell by the last statement covering it, if any -/
def specHit (stmts : List Stmt) (D1 D2 D3 : Nat) (d1 a d3 : Nat) : Option XRat :=
  stmts.reverse.findSome? (fun s => s.assigns D1 D2 D3 d1 a d3)

theorem specAt_eq (stmts : List Stmt) (D1 D2 D3 d1 a d3 : Nat) :
    specAt stmts D1 D2 D3 d1 a d3 = (specHit stmts D1 D2 D3 d1 a d3).getD (.fin 0) := by
  unfold specAt specHit
  cases List.findSome? (fun s => s.assigns D1 D2 D3 d1 a d3) stmts.reverse <;> rfl

theorem specHit_cons (s : Stmt) (stmts : List Stmt) (D1 D2 D3 d1 a d3 : Nat) :
    specHit (s :: stmts) D1 D2 D3 d1 a d3 = (specHit stmts D1 D2 D3 d1 a d3).or (s.assigns D1 D2 D3 d1 a d3) := by
  simp only [specHit, List.reverse_cons, List.findSome?_append]
  congr 1
  cases h : s.assigns D1 D2 D3 d1 a d3 <;> simp [List.findSome?_cons, h]

/-- "later lines override earlier ones", statement level: appending a statement changes exactly the
    cells it covers -/
theorem specAt_append_one (stmts : List Stmt) (s : Stmt) (D1 D2 D3 d1 a d3 : Nat) :
    specAt (stmts ++ [s]) D1 D2 D3 d1 a d3 =
      match s.assigns D1 D2 D3 d1 a d3 with
      | some v => v
      | none => specAt stmts D1 D2 D3 d1 a d3 := by
  simp only [specAt, List.reverse_append, List.reverse_cons, List.reverse_nil, List.nil_append,
    List.singleton_append, List.findSome?_cons]
  cases s.assigns D1 D2 D3 d1 a d3 <;> rfl

/-! ### the line list, declaratively -/

/-- The reading of `lines_` the format defines.  `skip` lines at the front belong to the previous
    statement.  A line starting with `T` (or, for a POMDP, `O`) must be a well-formed T/O statement,
    a line starting with `R` a well-formed reward statement; every other line is ignored.
    The three statement lists are in file order. -/
inductive FileDenotes (fl : Flags) (k : Kind) (p : Pre) : List Str → Nat → List Stmt → List Stmt → List Stmt → Prop
  | nil {skip : Nat} : FileDenotes fl k p [] skip [] [] []
  | skipped {l : Str} {rest : List Str} {skip : Nat} {sT sR sW : List Stmt} :
      FileDenotes fl k p rest skip sT sR sW → FileDenotes fl k p (l :: rest) (skip + 1) sT sR sW
  | tline {l : Str} {rest : List Str} {s : Stmt} {n : Nat} {sT sR sW : List Stmt} :
      startsWith l ['T'] = true →
      MatrixLine fl p.S p.A p.S p.amap p.smap p.smap l rest s n →
      FileDenotes fl k p rest n sT sR sW → FileDenotes fl k p (l :: rest) 0 (s :: sT) sR sW
  | oline {l : Str} {rest : List Str} {s : Stmt} {n : Nat} {sT sR sW : List Stmt} :
      startsWith l ['T'] = false → k = .pomdp → startsWith l ['O'] = true →
      MatrixLine fl p.S p.A p.O p.amap p.smap p.omap l rest s n →
      FileDenotes fl k p rest n sT sR sW → FileDenotes fl k p (l :: rest) 0 sT sR (s :: sW)
  | rline {l : Str} {rest : List Str} {s : Stmt} {sT sR sW : List Stmt} :
      startsWith l ['T'] = false → (k == .pomdp && startsWith l ['O']) = false → startsWith l ['R'] = true →
      RewardLine fl p.S p.A p.amap p.smap l s →
      FileDenotes fl k p rest 0 sT sR sW → FileDenotes fl k p (l :: rest) 0 sT (s :: sR) sW
  | other {l : Str} {rest : List Str} {sT sR sW : List Stmt} :
      startsWith l ['T'] = false → (k == .pomdp && startsWith l ['O']) = false → startsWith l ['R'] = false →
      FileDenotes fl k p rest 0 sT sR sW → FileDenotes fl k p (l :: rest) 0 sT sR sW

/-- the tables of a state agree with "statements on top of an earlier state" -/
def Extends (st' st : St) (p : Pre) (sT sR sW : List Stmt) : Prop :=
  ∀ d1 a d3,
    lastHit st'.wT d1 a d3 = (specHit sT p.S p.A p.S d1 a d3).or (lastHit st.wT d1 a d3) ∧
    lastHit st'.wR d1 a d3 = (specHit sR p.S p.A p.S d1 a d3).or (lastHit st.wR d1 a d3) ∧
    lastHit st'.wW d1 a d3 = (specHit sW p.S p.A p.O d1 a d3).or (lastHit st.wW d1 a d3)

theorem or_assoc' (a b c : Option XRat) : (a.or b).or c = a.or (b.or c) := by
  cases a <;> cases b <;> rfl

/-- **refinement, main loop**: on a well-formed line list the loop succeeds (whatever the flags) and
    every table is the earlier table overridden by the statements in file order -/
theorem run_refines (fl : Flags) {k : Kind} {p : Pre} {lines : List Str} {skip : Nat} {sT sR sW : List Stmt}
    (h : FileDenotes fl k p lines skip sT sR sW) (st : St) :
    ∃ st', run fl k p lines skip st = .ok st' ∧ Extends st' st p sT sR sW := by
  induction h generalizing st with
  | nil => exact ⟨st, rfl, fun d1 a d3 => by simp [specHit]⟩
  | skipped _ ih => exact ih st
  | @tline l rest s n sT sR sW hT hm _ ih =>
    obtain ⟨ws, hpm, hws⟩ := processMatrix_refines fl hm
    obtain ⟨st', hrun, hext⟩ := ih { st with wT := st.wT ++ ws }
    refine ⟨st', ?_, ?_⟩
    · simp only [run, step, hT, if_true, hpm, bind, Except.bind, pure, Except.pure]
      exact hrun
    · intro d1 a d3
      obtain ⟨h1, h2, h3⟩ := hext d1 a d3
      refine ⟨?_, h2, h3⟩
      rw [h1, specHit_cons, or_assoc']
      simp only [lastHit_append, hws]
  | @oline l rest s n sT sR sW hT hk hO hm _ ih =>
    obtain ⟨ws, hpm, hws⟩ := processMatrix_refines fl hm
    obtain ⟨st', hrun, hext⟩ := ih { st with wW := st.wW ++ ws }
    refine ⟨st', ?_, ?_⟩
    · subst hk
      simp only [run, step, hT, hO, Bool.false_eq_true, if_false, beq_self_eq_true, Bool.and_self, if_true, hpm, bind, Except.bind, pure, Except.pure]
      exact hrun
    · intro d1 a d3
      obtain ⟨h1, h2, h3⟩ := hext d1 a d3
      refine ⟨h1, h2, ?_⟩
      rw [h3, specHit_cons, or_assoc']
      simp only [lastHit_append, hws]
  | @rline l rest s sT sR sW hT hO hR hm _ ih =>
    obtain ⟨ws, hpm, hws⟩ := processReward_refines hm
    obtain ⟨st', hrun, hext⟩ := ih { st with wR := st.wR ++ ws }
    refine ⟨st', ?_, ?_⟩
    · simp only [run, step, hT, hO, hR, Bool.false_eq_true, if_false, if_true, hpm, bind, Except.bind, pure, Except.pure]
      exact hrun
    · intro d1 a d3
      obtain ⟨h1, h2, h3⟩ := hext d1 a d3
      refine ⟨h1, ?_, h3⟩
      rw [h2, specHit_cons, or_assoc']
      simp only [lastHit_append, hws]
  | @other l rest sT sR sW hT hO hR _ ih =>
    obtain ⟨st', hrun, hext⟩ := ih st
    refine ⟨st', ?_, hext⟩
    simp only [run, step, hT, hO, hR, Bool.false_eq_true, if_false, bind, Except.bind, pure, Except.pure]
    exact hrun

/-- **rejection, main loop**: if the loop accepts a line list, the list is well-formed — every dispatched
    line is a well-formed statement (no malformed line is skipped over).  Needs the malformed-length
    branch of the two-colon form to throw. -/
theorem run_accepts_only_wellformed {fl : Flags} (hfl : fl.rowLenThrows = true) {k : Kind} {p : Pre}
    (lines : List Str) (skip : Nat) (st st' : St) (h : run fl k p lines skip st = .ok st') :
    ∃ sT sR sW, FileDenotes fl k p lines skip sT sR sW := by
  induction lines generalizing skip st with
  | nil => exact ⟨[], [], [], .nil⟩
  | cons l rest ih =>
    cases skip with
    | succ skip =>
      simp only [run] at h
      obtain ⟨sT, sR, sW, hd⟩ := ih skip st h
      exact ⟨sT, sR, sW, .skipped hd⟩
    | zero =>
      simp only [run] at h
      obtain ⟨⟨st1, n⟩, hstep, hrun⟩ := bind_ok.1 h
      obtain ⟨sT, sR, sW, hd⟩ := ih n st1 hrun
      unfold step at hstep
      by_cases hT : startsWith l ['T'] = true
      · simp only [hT, if_true] at hstep
        obtain ⟨⟨ws, n'⟩, hpm, hp⟩ := bind_ok.1 hstep
        have hn : n' = n := by have := pure_ok.1 hp; injection this with _ h2
        subst hn
        obtain ⟨s, hs⟩ := processMatrix_accepts_only_wellformed hfl hpm
        exact ⟨s :: sT, sR, sW, .tline hT hs hd⟩
      · have hT' : startsWith l ['T'] = false := by simpa using hT
        simp only [hT', Bool.false_eq_true, if_false] at hstep
        by_cases hO : (k == .pomdp && startsWith l ['O']) = true
        · simp only [hO, if_true] at hstep
          obtain ⟨⟨ws, n'⟩, hpm, hp⟩ := bind_ok.1 hstep
          have hn : n' = n := by have := pure_ok.1 hp; injection this with _ h2
          subst hn
          obtain ⟨s, hs⟩ := processMatrix_accepts_only_wellformed hfl hpm
          have hO3 : (k == Kind.pomdp) = true ∧ startsWith l ['O'] = true := by simpa using hO
          have hk : k = .pomdp := by simpa using hO3.1
          have hO2 : startsWith l ['O'] = true := hO3.2
          exact ⟨sT, sR, s :: sW, .oline hT' hk hO2 hs hd⟩
        · have hO' : (k == .pomdp && startsWith l ['O']) = false := by simpa using hO
          simp only [hO', Bool.false_eq_true, if_false] at hstep
          by_cases hR : startsWith l ['R'] = true
          · simp only [hR, if_true] at hstep
            obtain ⟨⟨ws, n'⟩, hpm, hp⟩ := bind_ok.1 hstep
            have hn : n' = n := by have := pure_ok.1 hp; injection this with _ h2
            subst hn
            obtain ⟨hn0, s, hs⟩ := processReward_accepts_only_wellformed hpm
            subst hn0
            exact ⟨sT, s :: sR, sW, .rline hT' hO' hR hs hd⟩
          · have hR' : startsWith l ['R'] = false := by simpa using hR
            simp only [hR', Bool.false_eq_true, if_false] at hstep
            have hn : n = 0 := by have := pure_ok.1 hstep; injection this with _ h2; exact h2.symm
            subst hn
            exact ⟨sT, sR, sW, .other hT' hO' hR' hd⟩

/-- an error of a dispatched line is never swallowed: the whole pass fails with it -/
theorem run_error_propagates (fl : Flags) (k : Kind) (p : Pre) (l : Str) (rest : List Str) (st : St) (e : Err)
    (h : step fl k p l rest st = .error e) : run fl k p (l :: rest) 0 st = .error e := by
  simp only [run, h, bind, Except.bind]

end AITB.Cassandra
