/-
  C09 part d — WoLFPolicy::stepUpdateP and PGAAPPPolicy::stepUpdateP (with projectToProbability): stored rows stay
  distributions after any history of updates.
-/
import AITB.Props.C09a

namespace AITB.Pol

theorem minQ_nonneg {a b : Rat} (ha : 0 ≤ a) (hb : 0 ≤ b) : 0 ≤ minQ a b := by unfold minQ; split <;> assumption
theorem maxQ_zero_nonneg (b : Rat) : 0 ≤ maxQ 0 b := by unfold maxQ; split <;> simp_all
theorem sumTo_normalise {n : Nat} {f : Nat → Rat} (hf : ∀ i, i < n → 0 ≤ f i) (hs : 0 < sumTo n f) :
    RowValid n (fun i => f i / sumTo n f) :=
  ⟨fun i hi => div_nonneg (hf i hi) (le_of_lt hs), by rw [sumTo_div]; exact div_self (ne_of_gt hs)⟩

/-! ### WoLF -/

/-- one `stepUpdateP(s)` on the rows of state `s`: for learning rates `δw, δl ≥ 0` and `scaling > 0` (the documented
    ranges — the setters have no guard), any action values `q`, and whichever maximal action `best < n` the tie-pick
    chose, both the running-average row and the actual policy row remain distributions.  Any `n ≥ 1`. -/
theorem wolf_step_valid (n : Nat) (dW dL sc : Rat) (q : Nat → Rat) (best : Nat) (r : WRow)
    (hW : 0 ≤ dW) (hL : 0 ≤ dL) (hsc : 0 < sc) (hbest : best < n)
    (havg : RowValid n r.avg) (hact : RowValid n r.act) :
    RowValid n (wolfStep n dW dL sc q best r).avg ∧ RowValid n (wolfStep n dW dL sc q best r).act := by
  have hcq : (0 : Rat) ≤ (r.c : Rat) := by exact_mod_cast Nat.zero_le _
  constructor
  · -- running average
    show RowValid n (wolfAvg n r)
    unfold wolfAvg
    have h1 : ∀ i, i < n → 0 ≤ r.avg i * (r.c : Rat) + r.act i :=
      fun i hi => add_nonneg (mul_nonneg (havg.1 i hi) hcq) (hact.1 i hi)
    have hs : sumTo n (fun i => r.avg i * (r.c : Rat) + r.act i) = (r.c : Rat) + 1 := by
      rw [sumTo_add, sumTo_mul_right, havg.2, hact.2]; ring
    exact sumTo_normalise h1 (by rw [hs]; linarith)
  · -- actual policy
    unfold wolfStep
    simp only
    set d0 := (if (wolfVals n q r).1 < (wolfVals n q r).2 then dW else dL) with hd0
    have hd0n : 0 ≤ d0 := by rw [hd0]; split <;> assumption
    have hden : 0 < ((r.c + 1 : Nat) : Rat) / sc + 1 := by
      have : (0 : Rat) ≤ ((r.c + 1 : Nat) : Rat) := by exact_mod_cast Nat.zero_le _
      have := div_nonneg this (le_of_lt hsc); linarith
    set d := d0 / (((r.c + 1 : Nat) : Rat) / sc + 1) with hd
    have hdn : 0 ≤ d := div_nonneg hd0n (le_of_lt hden)
    have hold : 0 ≤ r.act best := hact.1 best hbest
    set a1 : Nat → Rat := fun i => if i = best then minQ 1 (r.act best + d) else maxQ 0 (r.act i - d / ((n : Rat) - 1)) with ha1
    have hnn : ∀ i, i < n → 0 ≤ a1 i := by
      intro i _; rw [ha1]; dsimp only; split
      · exact minQ_nonneg (by norm_num) (by linarith)
      · exact maxQ_zero_nonneg _
    have hpos : 0 < sumTo n a1 := by
      by_cases hz : 0 < r.act best + d
      · refine sumTo_pos hnn hbest ?_
        rw [ha1]; simp only [if_true]
        unfold minQ; split
        · norm_num
        · exact hz
      · -- old value and delta both zero: the row is unchanged
        have hd0' : d = 0 := by linarith
        have ho : r.act best = 0 := by linarith
        have : ∀ i, i < n → a1 i = r.act i := by
          intro i hi; rw [ha1]; dsimp only
          by_cases hi' : i = best
          · subst hi'; simp [ho, hd0', minQ]
          · have := hact.1 i hi
            simp only [hi', if_false, hd0', zero_div, sub_zero]
            unfold maxQ; simp [this]
        rw [sumTo_congr this, hact.2]; norm_num
    exact sumTo_normalise hnn hpos

theorem wolfInit_valid (n : Nat) (hn : 0 < n) : RowValid n (WRow.init n).avg ∧ RowValid n (WRow.init n).act := by
  have hnq : (0 : Rat) < (n : Rat) := by exact_mod_cast hn
  have : RowValid n (fun _ => 1 / (n : Rat)) :=
    ⟨fun i _ => by positivity, by rw [sumTo_const]; field_simp⟩
  exact ⟨this, this⟩

/-- one update event: the state updated, the action values of that state at that moment (the learner may have changed Q
    since the last update), the action the tie-pick chose, and the parameters in force (setters may be called any time) -/
structure WolfOp where
  s : Nat
  q : Nat → Rat
  best : Nat
  dW : Rat
  dL : Rat
  sc : Rat

def WolfOp.ok (n : Nat) (o : WolfOp) : Prop := 0 ≤ o.dW ∧ 0 ≤ o.dL ∧ 0 < o.sc ∧ o.best < n

def wolfRun (n : Nat) : List WolfOp → (Nat → WRow) → (Nat → WRow)
  | [], st => st
  | o :: t, st => wolfRun n t (fun s => if s = o.s then wolfStep n o.dW o.dL o.sc o.q o.best (st s) else st s)

/-- **wolf_row_invariant**: after ANY sequence of `stepUpdateP` calls (any states, any evolution of the Q-function, any
    tie-break outcomes, parameters changed along the way within their documented ranges) every state's actual-policy row
    and running-average row is a probability distribution. -/
theorem wolf_row_invariant (n : Nat) (hn : 0 < n) (h : List WolfOp) (hok : ∀ o ∈ h, o.ok n) (s : Nat) :
    RowValid n (wolfRun n h (fun _ => WRow.init n) s).act ∧ RowValid n (wolfRun n h (fun _ => WRow.init n) s).avg := by
  have key : ∀ (h : List WolfOp) (st : Nat → WRow), (∀ o ∈ h, o.ok n) →
      (∀ s, RowValid n (st s).avg ∧ RowValid n (st s).act) →
      ∀ s, RowValid n (wolfRun n h st s).avg ∧ RowValid n (wolfRun n h st s).act := by
    intro h
    induction h with
    | nil => intro st _ hst; exact hst
    | cons o t ih =>
      intro st hok hst
      apply ih _ (fun o' ho' => hok o' (List.mem_cons_of_mem _ ho'))
      intro s
      obtain ⟨h1, h2, h3, h4⟩ := hok o List.mem_cons_self
      by_cases hs : s = o.s
      · simp only [hs, if_true]
        exact wolf_step_valid n o.dW o.dL o.sc o.q o.best (st o.s) h1 h2 h3 h4 (hst o.s).1 (hst o.s).2
      · simp only [hs, if_false]; exact hst s
  have := key h (fun _ => WRow.init n) hok (fun _ => wolfInit_valid n hn) s
  exact ⟨this.2, this.1⟩

example : (⟨0, fun i => (i : Rat) - 1, 2, 1/80, 1/20, 5000⟩ : WolfOp).ok 3 := by unfold WolfOp.ok; norm_num

/-! ### projectToProbability and PGA-APP -/

/-- what the library's `isProbability` accepts: non-negative entries, sum within `equalToleranceSmall` of one -/
def ProbTol (n : Nat) (p : Nat → Rat) : Prop := (∀ i, i < n → 0 ≤ p i) ∧ absQ (sumTo n p - 1) ≤ tolS

theorem RowValid.probTol {n : Nat} {p : Nat → Rat} (h : RowValid n p) : ProbTol n p :=
  ⟨h.1, by rw [h.2]; simp [absQ_zero, le_of_lt tolS_pos]⟩

theorem projSum_nonneg (n : Nat) (v : Nat → Rat) : 0 ≤ projSum n v := by
  unfold projSum; apply sumTo_nonneg; intro i _; split
  · exact le_refl _
  · rename_i h; exact not_lt.mp h

theorem projMask_mul (v : Nat → Rat) (i : Nat) : projMask v i * v i = if v i < 0 then 0 else v i := by
  unfold projMask; split <;> simp

theorem projMask_sum (n : Nat) (v : Nat → Rat) : sumTo n (projMask v) = (projCount n v : Rat) := by
  have : ∀ i, i < n → projMask v i = if (!decide (v i < 0)) then (1 : Rat) else 0 := by
    intro i _; unfold projMask; by_cases h : v i < 0 <;> simp [h]
  rw [sumTo_congr this, sumTo_indicator]; unfold projCount; ring

theorem projCount_pos_of_sum_pos {n : Nat} {v : Nat → Rat} (h : 0 < projSum n v) : 0 < projCount n v := by
  by_contra hc
  have hc0 : projCount n v = 0 := by omega
  have hall : ∀ i, i < n → v i < 0 := by
    intro i hi
    by_contra hv
    have : 0 < projCount n v := countTo_pos (p := fun i => !decide (v i < 0)) hi (by simp [hv])
    omega
  have : projSum n v = 0 := by
    unfold projSum
    rw [sumTo_congr (g := fun _ => 0) (fun i hi => by simp [hall i hi]), sumTo_const]; ring
  linarith

/-- Full statement (does NOT hold for `projectToProbability` as written — `Gen.C09.projRepaired = false` — see the
    counterexample below):   `∀ n ≥ 1, ∀ v, ProbTol n (project repaired n v)`.
    **project_valid** proves it for the repaired code (fixes/C08-1: `sum≈1 ↦ mask·v`, `sum≈0 ↦ uniform`). -/
theorem project_valid (n : Nat) (hn : 0 < n) (v : Nat → Rat) : ProbTol n (project true n v) := by
  have hnq : (0 : Rat) < (n : Rat) := by exact_mod_cast hn
  have hsn := projSum_nonneg n v
  have hclip : ∀ i, 0 ≤ (if v i < 0 then (0 : Rat) else v i) := by
    intro i; split
    · exact le_refl _
    · rename_i h; exact not_lt.mp h
  cases h1 : ceS (projSum n v) 1 with
  | true =>
    have e : project true n v = fun i => projMask v i * v i := by unfold project; simp [h1]
    rw [e]
    refine ⟨fun i _ => by show 0 ≤ projMask v i * v i; rw [projMask_mul]; exact hclip i, ?_⟩
    rw [sumTo_congr (fun i _ => projMask_mul v i)]
    have := h1; unfold ceS at this; exact of_decide_eq_true this
  | false =>
    cases h0 : ceS (projSum n v) 0 with
    | true =>
      have e : project true n v = fun _ => 1 / (n : Rat) := by unfold project; simp [h1, h0]
      rw [e]
      exact RowValid.probTol ⟨fun i _ => by positivity, by rw [sumTo_const]; field_simp⟩
    | false =>
      by_cases hgt : 1 < projSum n v
      · have e : project true n v = fun i => projMask v i * (v i / projSum n v) := by unfold project; simp [h1, h0, hgt]
        rw [e]
        have hs : 0 < projSum n v := by linarith
        have hrw : ∀ i, projMask v i * (v i / projSum n v) = (if v i < 0 then 0 else v i) / projSum n v := by
          intro i; rw [← mul_div_assoc, projMask_mul]
        apply RowValid.probTol
        refine ⟨fun i _ => ?_, ?_⟩
        · show 0 ≤ projMask v i * (v i / projSum n v)
          rw [hrw]; exact div_nonneg (hclip i) (le_of_lt hs)
        · rw [sumTo_congr (fun i _ => hrw i), sumTo_div]; exact div_self (ne_of_gt hs)
      · have e : project true n v = fun i => projMask v i * (v i + (1 - projSum n v) / (projCount n v : Rat)) := by
          unfold project; simp [h1, h0, hgt]
        rw [e]
        -- the sum is positive (it is not within the tolerance of 0) and at most 1
        have hs : 0 < projSum n v := by
          by_contra hc
          have : projSum n v = 0 := le_antisymm (not_lt.mp hc) hsn
          rw [this, ceS_refl] at h0; exact absurd h0 (by simp)
        have hcnt := projCount_pos_of_sum_pos hs
        have hcq : (0 : Rat) < (projCount n v : Rat) := by exact_mod_cast hcnt
        have hdiff : 0 ≤ (1 - projSum n v) / (projCount n v : Rat) := div_nonneg (by linarith [not_lt.mp hgt]) (le_of_lt hcq)
        apply RowValid.probTol
        refine ⟨fun i _ => ?_, ?_⟩
        · show 0 ≤ projMask v i * (v i + (1 - projSum n v) / (projCount n v : Rat))
          unfold projMask
          by_cases hv : v i < 0
          · simp [hv]
          · have := not_lt.mp hv; simp only [hv, if_false, one_mul]; linarith
        · have : ∀ i, i < n → projMask v i * (v i + (1 - projSum n v) / (projCount n v : Rat)) =
              (if v i < 0 then 0 else v i) + ((1 - projSum n v) / (projCount n v : Rat)) * projMask v i := by
            intro i _; rw [mul_add, projMask_mul]; ring
          rw [sumTo_congr this, sumTo_add, sumTo_mul_left, projMask_sum]
          show projSum n v + _ = 1
          field_simp; ring

/-- **project_valid_partial** — the code as written: valid output when the clipped sum is neither within the tolerance
    of 1, nor within the tolerance of 0 with a non-negative entry present. -/
theorem project_valid_partial (n : Nat) (hn : 0 < n) (v : Nat → Rat)
    (h1 : ceS (projSum n v) 1 = false) (h0 : ceS (projSum n v) 0 = false ∨ projCount n v = 0) :
    ProbTol n (project false n v) := by
  have key : project false n v = project true n v ∨ (ceS (projSum n v) 0 = true ∧ projCount n v = 0) := by
    rcases h0 with h0 | h0
    · left; unfold project; simp [h1, h0]
    · by_cases hz : ceS (projSum n v) 0 = true
      · right; exact ⟨hz, h0⟩
      · left; unfold project; simp [h1, hz]
  rcases key with e | ⟨hz, hc⟩
  · rw [e]; exact project_valid n hn v
  · -- every entry negative: mask = 0, output = 1/n everywhere
    have hnq : (0 : Rat) < (n : Rat) := by exact_mod_cast hn
    have hall : ∀ i, i < n → v i < 0 := by
      intro i hi
      by_contra hv
      have : 0 < projCount n v := countTo_pos (p := fun i => !decide (v i < 0)) hi (by simp [hv])
      omega
    have hout : ∀ i, i < n → project false n v i = 1 / (n : Rat) := by
      intro i hi; unfold project; simp [h1, hz, projMask, hall i hi]
    refine ⟨fun i hi => by rw [hout i hi]; positivity, ?_⟩
    rw [sumTo_congr hout, sumTo_const]
    have : (n : Rat) * (1 / (n : Rat)) - 1 = 0 := by field_simp; ring
    rw [this, absQ_zero]; exact le_of_lt tolS_pos

/-- **project_mask_counterexample** (finding C09-pgaapp-project-mask / C08): a row that already is a distribution comes
    back as the all-ones mask; and `[0,0,-1]` comes back as `[4/3,4/3,1/3]`. -/
theorem project_mask_counterexample :
    (let v : Nat → Rat := fun i => if i = 0 then 1/4 else 3/4
     project false 2 v 0 = 1 ∧ project false 2 v 1 = 1) ∧
    (let w : Nat → Rat := fun i => if i = 2 then -1 else 0
     project false 3 w 0 = 4/3 ∧ project false 3 w 2 = 1/3) := by
  norm_num [project, projSum, projCount, projMask, countTo, sumTo, ceS, absQ, tolS, AITB.Gen.equalToleranceSmall]

/-- a history of `stepUpdateP` calls on one state's row: the action values at that moment and the parameters in force -/
structure PgaOp where
  q : Nat → Rat
  lr : Rat
  pl : Rat

def pgaRun (repaired : Bool) (n : Nat) : List PgaOp → (Nat → Rat) → (Nat → Rat)
  | [], p => p
  | o :: t, p => pgaRun repaired n t (pgaStep repaired n o.lr o.pl o.q p)

/-- Full statement (refuted for the code as written, `Gen.C09.projRepaired = false`, by `pgaapp_row_counterexample`):
      for every flag value, every history keeps the row a distribution.
    **pgaapp_row_invariant**: with the repaired projection, after ANY history of updates — any Q-functions of any sign,
    any learning rate and prediction length (no range needed) — the stored row is accepted by `isProbability`
    (non-negative, sum within 1e-6 of one). -/
theorem pgaapp_row_invariant (n : Nat) (hn : 0 < n) (h : List PgaOp) :
    ProbTol n (pgaRun true n h (fun _ => 1 / (n : Rat))) := by
  have hnq : (0 : Rat) < (n : Rat) := by exact_mod_cast hn
  have key : ∀ (h : List PgaOp) (p : Nat → Rat), ProbTol n p → ProbTol n (pgaRun true n h p) := by
    intro h
    induction h with
    | nil => intro p hp; exact hp
    | cons o t ih => intro p _; exact ih _ (project_valid n hn _)
  exact key h _ (RowValid.probTol ⟨fun i _ => by positivity, by rw [sumTo_const]; field_simp⟩)

/-- **pgaapp_row_counterexample** (finding C09-pgaapp-project-mask, harness case 2): two actions, Q = 0, one update with
    the default parameters: the row becomes `[1, 1]`. -/
theorem pgaapp_row_counterexample :
    let p := pgaRun false 2 [⟨fun _ => 0, 1/1000, 3⟩] (fun _ => 1 / 2)
    p 0 = 1 ∧ p 1 = 1 ∧ sumTo 2 p = 2 := by
  norm_num [pgaRun, pgaStep, pgaPre, project, projSum, projCount, projMask, dotTo, countTo, sumTo, ceS, absQ, tolS,
    AITB.Gen.equalToleranceSmall]

end AITB.Pol
