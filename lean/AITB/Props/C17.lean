/-
  AITB.Props.C17 — saved models, experiences and policies load back identically (C17).

  Statements are about the token-level codec model `AITB.Model.Codec`, for every `DblIO D` (any
  representation of doubles and of their stream formatting), every shape, every object and every
  input stream.  See docs/C17.md for the reading of each theorem.
-/
import AITB.Model.Codec
import AITB.Model.CodecNum
import AITB.Gen.IOPrec
namespace AITB.Codec

variable {D : Type}

/-! ### reader combinators -/

@[simp] theorem bind_apply {α β} (m : Rd α) (f : α → Rd β) (s : Stream) :
    Rd.bind m f s = match m s with | .ok a s' => f a s' | .bad e => .bad e := rfl
@[simp] theorem pure_apply {α} (a : α) (s : Stream) : Rd.pure a s = .ok a s := rfl
@[simp] theorem need_true (s : Stream) : need true s = .ok () s := rfl
@[simp] theorem need_false (s : Stream) : need false s = .bad .failbit := rfl

/-- a writer/reader pair for one value: reading what was written gives the value back and leaves the rest -/
def RoundTrips {α} (rd : Rd α) (wr : α → Stream) (x : α) : Prop := ∀ rest, rd (wr x ++ rest) = .ok x rest

theorem rep_roundtrip {α} (rd : Rd α) (wr : α → Stream) :
    ∀ (xs : List α), (∀ x ∈ xs, RoundTrips rd wr x) → RoundTrips (rep rd xs.length) (fun l => l.flatMap wr) xs
  | [], _, rest => by simp [rep]
  | x :: xs, h, rest => by
    have hx := h x (List.mem_cons_self)
    have ih := rep_roundtrip rd wr xs (fun y hy => h y (List.mem_cons_of_mem _ hy)) rest
    simp only [RoundTrips] at hx ih
    simp [rep, List.flatMap_cons, List.append_assoc, hx, ih]

theorem rep_roundtrip' {α} (rd : Rd α) (wr : α → Stream) (n : Nat) (xs : List α) (hn : xs.length = n)
    (h : ∀ x ∈ xs, RoundTrips rd wr x) : RoundTrips (rep rd n) (fun l => l.flatMap wr) xs := by
  subst hn; exact rep_roundtrip rd wr xs h

/-- what `rep` returns on ANY stream: the right number of items, each satisfying what one read guarantees -/
theorem rep_ok {α} (rd : Rd α) (P : α → Prop) (hP : ∀ s a s', rd s = .ok a s' → P a) :
    ∀ n s xs s', rep rd n s = .ok xs s' → xs.length = n ∧ ∀ x ∈ xs, P x
  | 0, s, xs, s', h => by simp [rep] at h; rcases h with ⟨rfl, rfl⟩; simp
  | n + 1, s, xs, s', h => by
    simp only [rep, bind_apply] at h
    cases h1 : rd s with
    | bad e => simp [h1] at h
    | ok a s1 =>
      simp only [h1] at h
      cases h2 : rep rd n s1 with
      | bad e => simp [h2] at h
      | ok r s2 =>
        simp only [h2, pure_apply] at h
        have ih := rep_ok rd P hP n s1 r s2 h2
        injection h with h3 h4
        subst h3
        refine ⟨by simp [ih.1], ?_⟩
        intro x hx
        rcases List.mem_cons.mp hx with rfl | hx
        · exact hP _ _ _ h1
        · exact ih.2 x hx

/-! ### unsigned integers: `is >> n` inverts `os << n` -/

theorem evalDigits_digitsAux : ∀ (f n : Nat) (acc : List Nat), n < f →
    (digitsAux f n acc).foldl (fun a d => a * 10 + d) 0 = acc.foldl (fun a d => a * 10 + d) n
  | 0, n, acc, h => by omega
  | f + 1, n, acc, h => by
    unfold digitsAux
    split
    · simp
    · rename_i h10
      rw [evalDigits_digitsAux f (n / 10) (n % 10 :: acc) (by omega)]
      simp only [List.foldl_cons]
      congr 1
      omega

theorem evalDigits_digits (n : Nat) : evalDigits (digits n) = n := by
  unfold evalDigits digits
  rw [evalDigits_digitsAux (n + 1) n [] (by omega)]
  rfl

theorem digitsAux_lt10 : ∀ (f n : Nat) (acc : List Nat), (∀ d ∈ acc, d < 10) → ∀ d ∈ digitsAux f n acc, d < 10
  | 0, n, acc, h => by simpa [digitsAux] using h
  | f + 1, n, acc, h => by
    unfold digitsAux
    split
    · rename_i h10
      intro d hd
      rcases List.mem_cons.mp hd with rfl | hd
      · exact h10
      · exact h d hd
    · apply digitsAux_lt10
      intro d hd
      rcases List.mem_cons.mp hd with rfl | hd
      · omega
      · exact h d hd

theorem digits_lt10 (n : Nat) : ∀ d ∈ digits n, d < 10 := digitsAux_lt10 _ _ [] (by simp)

theorem digitsAux_ne_nil : ∀ (f n : Nat) (acc : List Nat), acc ≠ [] ∨ 0 < f → digitsAux f n acc ≠ []
  | 0, n, acc, h => by
    rcases h with h | h
    · simpa [digitsAux] using h
    · omega
  | f + 1, n, acc, _ => by
    unfold digitsAux
    split
    · simp
    · exact digitsAux_ne_nil f _ _ (Or.inl (by simp))

theorem digits_ne_nil (n : Nat) : digits n ≠ [] := digitsAux_ne_nil _ _ _ (Or.inr (by omega))

theorem digitChar_toNat (d : Nat) (h : d < 10) : (digitChar d).toNat = 48 + d := by
  have : d = 0 ∨ d = 1 ∨ d = 2 ∨ d = 3 ∨ d = 4 ∨ d = 5 ∨ d = 6 ∨ d = 7 ∨ d = 8 ∨ d = 9 := by omega
  rcases this with rfl | rfl | rfl | rfl | rfl | rfl | rfl | rfl | rfl | rfl <;> rfl

theorem isDig_digitChar (d : Nat) (h : d < 10) : isDig (digitChar d) = true := by
  simp [isDig, digitChar_toNat d h]; omega

theorem digitVal_digitChar (d : Nat) (h : d < 10) : digitVal (digitChar d) = d := by
  simp [digitVal, digitChar_toNat d h]

theorem spanP_all (p : Char → Bool) : ∀ (l : List Char), (∀ c ∈ l, p c = true) → spanP p l = (l, [])
  | [], _ => rfl
  | c :: cs, h => by
    have hc := h c (List.mem_cons_self)
    have ih := spanP_all p cs (fun x hx => h x (List.mem_cons_of_mem _ hx))
    simp [spanP, hc, ih]

theorem digitChar_ne_sign (d : Nat) (h : d < 10) : digitChar d ≠ '-' ∧ digitChar d ≠ '+' ∧ digitChar d ≠ '@' := by
  have : d = 0 ∨ d = 1 ∨ d = 2 ∨ d = 3 ∨ d = 4 ∨ d = 5 ∨ d = 6 ∨ d = 7 ∨ d = 8 ∨ d = 9 := by omega
  rcases this with rfl | rfl | rfl | rfl | rfl | rfl | rfl | rfl | rfl | rfl <;> decide

/-- `is >> n` reads back exactly what `os << n` wrote, consuming the whole token -/
theorem scanN_printN (n : Nat) (hn : n < two64) : scanN (printN n) = some (n, []) := by
  have hne := digits_ne_nil n
  have hlt := digits_lt10 n
  unfold printN
  cases hd : digits n with
  | nil => exact absurd hd hne
  | cons d ds =>
    rw [hd] at hlt
    have hd10 : d < 10 := hlt d (List.mem_cons_self)
    have hs := digitChar_ne_sign d hd10
    have hall : ∀ c ∈ (d :: ds).map digitChar, isDig c = true := by
      intro c hc
      rcases List.mem_map.mp hc with ⟨x, hx, rfl⟩
      exact isDig_digitChar x (hlt x hx)
    have hval : ((d :: ds).map digitChar).map digitVal = d :: ds := by
      rw [List.map_map]
      conv => rhs; rw [← List.map_id (d :: ds)]
      apply List.map_congr_left
      intro x hx
      simp [digitVal_digitChar x (hlt x hx)]
    have hev : evalDigits (d :: ds) = n := by rw [← hd]; exact evalDigits_digits n
    have hsplit : splitSign ((d :: ds).map digitChar) = (false, (d :: ds).map digitChar) := by
      simp only [List.map_cons, splitSign]
      split
      · rename_i r heq; injection heq with h1 _; exact absurd h1 hs.1
      · rename_i r heq; injection heq with h1 _; exact absurd h1 hs.2.1
      · rfl
    unfold scanN
    simp only [hsplit, spanP_all isDig _ hall, hval, hev]
    simp [Nat.not_le.mpr hn]

theorem rdN_printN (n : Nat) (hn : n < two64) (rest : Stream) : rdN (printN n :: rest) = .ok n rest := by
  simp [rdN, scanN_printN n hn, pushBack]

/-! ### doubles: the round-trip hypothesis, value by value -/

/-- `is >> d` returns exactly `d` from the text `os << d` produced under precision `p`, consuming all of it.
    For an IEEE double and `p ≥ 17 = max_digits10` this is the classical shortest-round-trip result
    (trusted; the driver evaluates it on every value it sees). -/
def RT (io : DblIO D) (p : Nat) (d : D) : Prop := io.scanD (io.printD p d) = some (d, [])

theorem rdD_printD (io : DblIO D) (p : Nat) (d : D) (h : RT io p d) (rest : Stream) :
    rdD io (io.printD p d :: rest) = .ok d rest := by
  simp [rdD, RT] at *; simp [h, pushBack]

theorem rt_N (n : Nat) (hn : n < two64) : RoundTrips rdN (fun n => [printN n]) n := fun rest => by
  simpa using rdN_printN n hn rest

theorem rt_D (io : DblIO D) (p : Nat) (d : D) (h : RT io p d) : RoundTrips (rdD io) (fun d => [io.printD p d]) d :=
  fun rest => by simpa using rdD_printD io p d h rest

theorem flatMap_singleton {α β} (f : α → β) (l : List α) : l.flatMap (fun x => [f x]) = l.map f := by
  induction l with
  | nil => rfl
  | cons a l ih => simp [List.flatMap_cons, ih]

/-! ### dense matrices and tables -/

def AllMat {α} (P : α → Prop) (m : Mat α) : Prop := ∀ r ∈ m, ∀ x ∈ r, P x
def AllMat3 {α} (P : α → Prop) (m : List (Mat α)) : Prop := ∀ t ∈ m, AllMat P t

theorem shapeB_iff {α} (rows cols : Nat) (m : Mat α) :
    shapeB rows cols m = true ↔ m.length = rows ∧ ∀ r ∈ m, r.length = cols := by
  simp [shapeB, List.all_eq_true]
theorem shape3B_iff {α} (k rows cols : Nat) (m : List (Mat α)) :
    shape3B k rows cols m = true ↔ m.length = k ∧ ∀ t ∈ m, shapeB rows cols t = true := by
  simp [shape3B, List.all_eq_true]

theorem rt_vec (io : DblIO D) (p cols : Nat) (v : List D) (hl : v.length = cols) (h : ∀ d ∈ v, RT io p d) :
    RoundTrips (rep (rdD io) cols) (wrVec io p) v := by
  have := rep_roundtrip' (rdD io) (fun d => [io.printD p d]) cols v hl (fun d hd => rt_D io p d (h d hd))
  intro rest
  have h2 := this rest
  simp only [flatMap_singleton] at h2
  exact h2

theorem rt_mat (io : DblIO D) (p rows cols : Nat) (m : Mat D) (hs : shapeB rows cols m = true)
    (h : AllMat (RT io p) m) : RoundTrips (rdMat io rows cols) (wrMat io p) m := by
  rw [shapeB_iff] at hs
  exact rep_roundtrip' _ (wrVec io p) rows m hs.1 (fun r hr => rt_vec io p cols r (hs.2 r hr) (h r hr))

theorem rt_mat3 (io : DblIO D) (p k rows cols : Nat) (m : List (Mat D)) (hs : shape3B k rows cols m = true)
    (h : AllMat3 (RT io p) m) : RoundTrips (rdMat3 io k rows cols) (wrMat3 io p) m := by
  rw [shape3B_iff] at hs
  exact rep_roundtrip' _ (wrMat io p) k m hs.1 (fun t ht => rt_mat io p rows cols t (hs.2 t ht) (h t ht))

theorem rt_nats (cols : Nat) (v : List Nat) (hl : v.length = cols) (h : ∀ n ∈ v, n < two64) :
    RoundTrips (rep rdN cols) (fun r => r.map printN) v := by
  have := rep_roundtrip' rdN (fun n => [printN n]) cols v hl (fun n hn => rt_N n (h n hn))
  intro rest
  have h2 := this rest
  simp only [flatMap_singleton] at h2
  exact h2

theorem rt_tab (rows cols : Nat) (m : Mat Nat) (hs : shapeB rows cols m = true)
    (h : AllMat (· < two64) m) : RoundTrips (rdTab rows cols) wrTab m := by
  rw [shapeB_iff] at hs
  exact rep_roundtrip' _ (fun r => r.map printN) rows m hs.1 (fun r hr => rt_nats cols r (hs.2 r hr) (h r hr))

theorem rt_tab3 (k rows cols : Nat) (m : List (Mat Nat)) (hs : shape3B k rows cols m = true)
    (h : AllMat3 (· < two64) m) : RoundTrips (rdTab3 k rows cols) wrTab3 m := by
  rw [shape3B_iff] at hs
  exact rep_roundtrip' _ wrTab k m hs.1 (fun t ht => rt_tab rows cols t (hs.2 t ht) (h t ht))

end AITB.Codec
