import AITB.Model.Codec
import AITB.Model.CodecNum
import AITB.Gen.IOPrec
namespace AITB.Codec
end AITB.Codec
